(** * RHP/RootsProofs.v — proofs about RHP/Roots.v (property C09). *)
From stdpp Require Import list sorting sets.
From Coq Require Import NArith Lia.
From CV Require Import RHP.Roots.

(** ** Symbolic Merkle root: [mroot] is injective on lists (a theorem of the term algebra) *)

Lemma pow2_below_bounds f n p : 1 ≤ p → p < n → p ≤ pow2_below f n p < n.
Proof.
  revert p. induction f as [|f IH]; cbn [pow2_below]; intros p H1 H2; [lia|].
  case_decide; [|lia]. specialize (IH (2 * p)). lia.
Qed.

Lemma split_point_bounds n : 2 ≤ n → 1 ≤ split_point n < n.
Proof. intros. unfold split_point. pose proof (pow2_below_bounds n n 1). lia. Qed.

Lemma leaves_mroot_fuel f l : length l ≤ f → leaves (mroot_fuel f l) = l.
Proof.
  revert l. induction f as [|f IH]; intros l Hl.
  - destruct l; simpl in *; [done|lia].
  - destruct l as [|x [|y l']]; [done|done|].
    remember (x :: y :: l') as l eqn:El.
    assert (2 ≤ length l) as Hlen by (subst l; simpl; lia).
    pose proof (split_point_bounds (length l) Hlen) as Hk.
    assert (mroot_fuel (S f) l =
            DNode (mroot_fuel f (take (split_point (length l)) l))
                  (mroot_fuel f (drop (split_point (length l)) l))) as -> by (subst l; done).
    simpl leaves. rewrite !IH.
    + apply take_drop.
    + rewrite drop_length. lia.
    + rewrite take_length. lia.
Qed.

Lemma leaves_mroot l : leaves (mroot l) = l.
Proof. apply leaves_mroot_fuel. done. Qed.

Theorem mroot_inj l1 l2 : mroot l1 = mroot l2 → l1 = l2.
Proof. intros H. rewrite <-(leaves_mroot l1), <-(leaves_mroot l2), H. done. Qed.

(** ** The in-place free loop against the list model *)

Lemma free_loop_length idxs : ∀ roots i cells,
  free_loop roots i idxs = Some cells → length cells = length roots.
Proof.
  induction idxs as [|n rest IH]; simpl; intros roots i cells H.
  - by inversion H.
  - case_decide; [|done]. destruct (roots !! _) as [x|]; [|done].
    apply IH in H. by rewrite insert_length in H.
Qed.

Lemma free_loop_bound idxs : ∀ roots i cells,
  free_loop roots i idxs = Some cells → idxs = [] ∨ i + length idxs ≤ length roots.
Proof.
  induction idxs as [|n rest IH]; simpl; intros roots i cells H; [by left|right].
  case_decide as Hd; [|done]. destruct (roots !! _) as [x|]; [|done].
  apply IH in H. rewrite insert_length in H. destruct H as [->|H]; simpl; lia.
Qed.

Lemma swap_remove_length l n : length (swap_remove l n) = length l - 1.
Proof.
  unfold swap_remove. destruct (last l) eqn:E.
  - rewrite take_length, insert_length. lia.
  - apply last_None in E. by subst.
Qed.

Lemma swap_remove_desc_length idxs : ∀ l,
  length (swap_remove_desc l idxs) = length l - length idxs.
Proof.
  unfold swap_remove_desc. induction idxs as [|n rest IH]; simpl; intros l; [lia|].
  rewrite IH, swap_remove_length. lia.
Qed.

Lemma desc_in_range_cons n rest len :
  desc_in_range (n :: rest) len → n < len ∧ desc_in_range rest n.
Proof.
  intros [Hs Hf]. apply StronglySorted_inv in Hs as [Hs Hn].
  apply Forall_cons in Hf as [? _]. split; [done|].
  split; [done|]. eapply Forall_impl; [exact Hn|]. simpl. lia.
Qed.

Lemma desc_in_range_mono idxs a b : a ≤ b → desc_in_range idxs a → desc_in_range idxs b.
Proof. intros ? [? Hf]. split; [done|]. eapply Forall_impl; [exact Hf|]. simpl. lia. Qed.

Lemma desc_in_range_length idxs : ∀ len, desc_in_range idxs len → length idxs ≤ len.
Proof.
  induction idxs as [|n rest IH]; simpl; intros len H; [lia|].
  apply desc_in_range_cons in H as [? H]. apply IH in H. lia.
Qed.

Lemma desc_in_range_NoDup idxs len : desc_in_range idxs len → NoDup idxs.
Proof.
  intros [Hs _]. induction Hs as [|n rest Hs IH Hn]; constructor; [|done].
  intros Hin. rewrite Forall_forall in Hn. apply Hn in Hin. lia.
Qed.

(** one batched step is one swap-remove on the live prefix *)
Lemma swap_remove_take l m n x :
  0 < m → m ≤ length l → n < m → l !! (m - 1) = Some x →
  swap_remove (take m l) n = take (m - 1) (<[n := x]> l).
Proof.
  intros Hm Hml Hn Hx. unfold swap_remove.
  assert (last (take m l) = Some x) as ->.
  { rewrite last_lookup, take_length, Nat.min_l by lia.
    replace (pred m) with (m - 1) by lia. rewrite lookup_take by lia. done. }
  rewrite take_length, Nat.min_l by lia.
  rewrite <-take_insert_lt by lia. rewrite take_take. f_equal. lia.
Qed.

Lemma free_loop_desc idxs : ∀ l i,
  i ≤ length l → desc_in_range idxs (length l - i) →
  ∃ cells, free_loop l i idxs = Some cells ∧
    take (length l - i - length idxs) cells = swap_remove_desc (take (length l - i) l) idxs.
Proof.
  induction idxs as [|n rest IH]; intros l i Hi Hd.
  - exists l. split; [done|]. simpl. by rewrite Nat.sub_0_r.
  - apply desc_in_range_cons in Hd as [Hn Hd]. simpl free_loop.
    rewrite decide_True by lia.
    destruct (lookup_lt_is_Some_2 l (length l - i - 1)) as [x Hx]; [lia|]. rewrite Hx.
    destruct (IH (<[n := x]> l) (S i)) as (cells & Hc & Ht).
    + rewrite insert_length. lia.
    + rewrite insert_length. eapply desc_in_range_mono; [|done]. lia.
    + exists cells. split; [done|]. rewrite insert_length in Ht.
      replace (length l - i - length (n :: rest)) with (length l - S i - length rest)
        by (simpl; lia).
      rewrite Ht. unfold swap_remove_desc. simpl. f_equal.
      rewrite (swap_remove_take l (length l - i) n x) by (done || lia).
      f_equal. lia.
Qed.

Lemma host_free_desc roots idxs :
  desc_in_range idxs (length roots) → host_free roots idxs = Some (swap_remove_desc roots idxs).
Proof.
  intros Hd. unfold host_free.
  rewrite decide_True by (by apply desc_in_range_length).
  destruct (free_loop_desc idxs roots 0) as (cells & -> & Ht); [lia|by rewrite Nat.sub_0_r|].
  simpl. rewrite !Nat.sub_0_r in Ht. rewrite Ht, firstn_all. done.
Qed.

(** the result as a multiset: the roots minus the freed positions *)
Lemma swap_remove_perm l n x : l !! n = Some x → l ≡ₚ swap_remove l n ++ [x].
Proof.
  destruct l as [|y l1 _] using rev_ind; [done|]. intros Hx.
  unfold swap_remove. rewrite last_snoc, app_length. simpl.
  replace (length l1 + 1 - 1) with (length l1) by lia.
  destruct (decide (n < length l1)) as [Hlt|Hge].
  - rewrite lookup_app_l in Hx by done.
    rewrite insert_app_l by done.
    rewrite take_app_alt by (by rewrite insert_length).
    rewrite insert_take_drop by done.
    rewrite <-(take_drop_middle l1 n x) at 1 by done.
    rewrite <-!app_assoc. simpl. apply Permutation_app_head.
    rewrite !(Permutation_app_comm _ [_]). simpl. apply perm_swap.
  - assert (n = length l1) as ->.
    { apply lookup_lt_Some in Hx. rewrite app_length in Hx. simpl in Hx. lia. }
    rewrite list_lookup_middle in Hx by done. inversion Hx; subst.
    rewrite list_insert_id by (by rewrite list_lookup_middle).
    by rewrite take_app_alt.
Qed.

Lemma lookup_swap_remove_lt l n m : m < n → n < length l → swap_remove l n !! m = l !! m.
Proof.
  intros Hm Hn. unfold swap_remove. destruct (last l) eqn:E; [|done].
  rewrite lookup_take by lia. rewrite list_lookup_insert_ne by lia. done.
Qed.

Lemma at_positions_swap_remove l n rest :
  n < length l → Forall (λ m, m < n) rest →
  at_positions (swap_remove l n) rest = at_positions l rest.
Proof.
  intros Hn Hf. induction Hf as [|m rest Hm Hf IH]; [done|].
  simpl. rewrite lookup_swap_remove_lt by done. by rewrite IH.
Qed.

Lemma at_positions_length l idxs :
  Forall (λ n, n < length l) idxs → length (at_positions l idxs) = length idxs.
Proof.
  induction 1 as [|n rest Hn Hf IH]; [done|]. simpl.
  destruct (lookup_lt_is_Some_2 l n Hn) as [x ->]. simpl. by rewrite IH.
Qed.

Lemma swap_remove_desc_perm idxs : ∀ l,
  desc_in_range idxs (length l) → l ≡ₚ swap_remove_desc l idxs ++ at_positions l idxs.
Proof.
  induction idxs as [|n rest IH]; intros l Hd.
  - simpl. by rewrite app_nil_r.
  - apply desc_in_range_cons in Hd as [Hn Hd].
    destruct (lookup_lt_is_Some_2 l n Hn) as [x Hx].
    unfold swap_remove_desc. simpl. rewrite Hx.
    fold (swap_remove_desc (swap_remove l n) rest).
    rewrite (swap_remove_perm l n x Hx) at 1.
    rewrite (IH (swap_remove l n)) at 1.
    + rewrite at_positions_swap_remove by (done || apply Hd).
      rewrite <-app_assoc. apply Permutation_app_head.
      rewrite Permutation_app_comm. done.
    + rewrite swap_remove_length. eapply desc_in_range_mono; [|done]. lia.
Qed.

Theorem free_matches_list_model roots idxs :
  desc_in_range idxs (length roots) →
  host_free roots idxs = Some (swap_remove_desc roots idxs) ∧
  length (swap_remove_desc roots idxs) = length roots - length idxs ∧
  roots ≡ₚ swap_remove_desc roots idxs ++ at_positions roots idxs ∧
  length (at_positions roots idxs) = length idxs.
Proof.
  intros Hd. split; [by apply host_free_desc|]. split; [apply swap_remove_desc_length|].
  split; [by apply swap_remove_desc_perm|]. apply at_positions_length, Hd.
Qed.

(** non-vacuity: [5;2;0] is strictly descending and in range for six roots *)
Example free_matches_list_model_ex :
  desc_in_range [5; 2; 0] 6 ∧
  host_free [10; 11; 12; 13; 14; 15]%N [5; 2; 0] = Some [13; 11; 14]%N ∧
  swap_remove_desc [10; 11; 12; 13; 14; 15]%N [5; 2; 0] = [13; 11; 14]%N ∧
  at_positions [10; 11; 12; 13; 14; 15]%N [5; 2; 0] = [15; 12; 10]%N.
Proof.
  split; [|by vm_compute]. split.
  - repeat (constructor; [|repeat constructor; lia]). constructor.
  - repeat constructor; lia.
Qed.

(** ** The renter's normalisation establishes the handler's precondition *)

Lemma insert_desc_perm n l : insert_desc n l ≡ₚ n :: l.
Proof.
  induction l as [|m l IH]; simpl; [done|]. case_decide; [|done].
  rewrite IH. apply perm_swap.
Qed.

Lemma sort_desc_perm l : sort_desc l ≡ₚ l.
Proof.
  induction l as [|n l IH]; simpl; [done|]. rewrite insert_desc_perm. by rewrite IH.
Qed.

Lemma insert_desc_sorted n l : StronglySorted ge l → StronglySorted ge (insert_desc n l).
Proof.
  induction 1 as [|m l Hs IH Hm]; simpl.
  - repeat constructor.
  - case_decide.
    + constructor; [done|]. rewrite insert_desc_perm. constructor; [lia|done].
    + constructor; [by constructor|]. constructor; [lia|].
      eapply Forall_impl; [exact Hm|]. simpl. lia.
Qed.

Lemma sort_desc_sorted l : StronglySorted ge (sort_desc l).
Proof. induction l; simpl; [constructor|by apply insert_desc_sorted]. Qed.

Lemma compact_elem l : ∀ n, n ∈ compact l ↔ n ∈ l.
Proof.
  induction l as [|x l IH]; [done|]. destruct l as [|y l']; [done|].
  intros n. change (compact (x :: y :: l')) with
    (if decide (x = y) then compact (y :: l') else x :: compact (y :: l')).
  case_decide as Hxy.
  - subst. rewrite IH. set_solver.
  - rewrite !elem_of_cons, IH. set_solver.
Qed.

Lemma compact_sorted l : StronglySorted ge l → StronglySorted gt (compact l).
Proof.
  induction 1 as [|x l Hs IH Hx]; [constructor|]. destruct l as [|y l']; [repeat constructor|].
  change (compact (x :: y :: l')) with
    (if decide (x = y) then compact (y :: l') else x :: compact (y :: l')).
  case_decide as Hxy; [done|]. constructor; [done|].
  apply Forall_forall. intros z Hz. apply (proj1 (compact_elem _ _)) in Hz.
  apply StronglySorted_inv in Hs as [_ Hy]. rewrite Forall_forall in Hx, Hy.
  pose proof (Hx y ltac:(set_solver)).
  apply elem_of_cons in Hz as [->|Hz]; [lia|]. apply Hy in Hz. lia.
Qed.

Lemma normalize_elem idxs n : n ∈ normalize idxs ↔ n ∈ idxs.
Proof. unfold normalize. by rewrite compact_elem, sort_desc_perm. Qed.

Theorem normalize_establishes_it len idxs :
  Forall (λ n, n < len) idxs →
  desc_in_range (normalize idxs) len ∧ (∀ n, n ∈ normalize idxs ↔ n ∈ idxs).
Proof.
  intros Hf. split; [|intros; apply normalize_elem]. split.
  - apply compact_sorted, sort_desc_sorted.
  - apply Forall_forall. intros n Hn. apply (proj1 (normalize_elem _ _)) in Hn.
    rewrite Forall_forall in Hf. by apply Hf.
Qed.

(** what the renter API promises for any caller input *)
Theorem client_free_matches_list_model roots idxs :
  Forall (λ n, n < length roots) idxs →
  client_free roots idxs = Some (model_free roots idxs) ∧
  NoDup (normalize idxs) ∧ (∀ n, n ∈ normalize idxs ↔ n ∈ idxs) ∧
  length (model_free roots idxs) = length roots - length (normalize idxs) ∧
  roots ≡ₚ model_free roots idxs ++ at_positions roots (normalize idxs) ∧
  length (at_positions roots (normalize idxs)) = length (normalize idxs).
Proof.
  intros Hf. destruct (normalize_establishes_it (length roots) idxs Hf) as [Hd He].
  destruct (free_matches_list_model roots (normalize idxs) Hd) as (H1 & H2 & H3 & H4).
  unfold client_free, model_free. repeat split; try done.
  - by eapply desc_in_range_NoDup.
  - by apply He.
  - by apply He.
Qed.

(** non-vacuity: unsorted input with duplicates *)
Example normalize_ex :
  normalize [1; 4; 1; 0; 4] = [4; 1; 0] ∧
  client_free [10; 11; 12; 13; 14]%N [1; 4; 1; 0; 4] = Some [12; 13]%N.
Proof. by vm_compute. Qed.

(** ** The raw wire handler on lists that are not normalised *)

Lemma NoDup_bounded_length (idxs : list nat) len :
  NoDup idxs → Forall (λ n, n < len) idxs → length idxs ≤ len.
Proof.
  intros Hnd Hf. rewrite <-(seq_length len 0).
  apply submseteq_length, NoDup_submseteq; [done|].
  intros n Hn. rewrite Forall_forall in Hf. apply Hf in Hn.
  apply elem_of_seq. lia.
Qed.

Lemma free_loop_total idxs : ∀ l i,
  i + length idxs ≤ length l → Forall (λ n, n < length l) idxs →
  is_Some (free_loop l i idxs).
Proof.
  induction idxs as [|n rest IH]; intros l i Hi Hf; [by eexists|].
  apply Forall_cons in Hf as [Hn Hf]. simpl in *.
  rewrite decide_True by lia.
  destruct (lookup_lt_is_Some_2 l (length l - i - 1)) as [x ->]; [lia|].
  apply IH; rewrite insert_length; [lia|done].
Qed.

(** any duplicate-free in-range list, in any order: the handler does not panic and
    produces a list of the right length (so it commits a consistent state), but … *)
Lemma host_free_unnormalised roots idxs :
  NoDup idxs → Forall (λ n, n < length roots) idxs →
  ∃ r, host_free roots idxs = Some r ∧ length r = length roots - length idxs.
Proof.
  intros Hnd Hf. pose proof (NoDup_bounded_length idxs _ Hnd Hf) as Hlen.
  unfold host_free. rewrite decide_True by done.
  destruct (free_loop_total idxs roots 0) as [cells Hc]; [lia|done|].
  rewrite Hc. eexists. split; [done|].
  apply free_loop_length in Hc. rewrite take_length. lia.
Qed.

(** … the content can be wrong: freeing the first and the last position in ascending
    order keeps the last root (which was to be freed) and loses the one before it
    (which was to be kept), for contracts of every size ≥ 3. *)
Lemma host_free_ascending_loss a b c mid :
  let roots := a :: mid ++ [b; c] in
  let idxs := [0; S (S (length mid))] in
  NoDup idxs ∧ Forall (λ n, n < length roots) idxs ∧
  host_free roots idxs = Some (c :: mid) ∧
  model_free roots idxs = b :: mid.
Proof.
  intros roots idxs.
  assert (length roots = S (S (S (length mid)))) as Hlen.
  { subst roots. simpl. rewrite app_length. simpl. lia. }
  split; [|split; [|split]].
  - subst idxs. repeat constructor; set_solver.
  - subst idxs. rewrite Hlen. apply Forall_cons; split; [lia|]. apply Forall_cons; split; [lia|]. by apply Forall_nil.
  - unfold host_free. rewrite Hlen. subst idxs. simpl length.
    rewrite decide_True by lia. cbn [free_loop]. rewrite Hlen.
    rewrite decide_True by lia.
    assert (roots !! (S (S (S (length mid))) - 0 - 1) = Some c) as ->.
    { subst roots. replace (S (S (S (length mid))) - 0 - 1) with (S (length mid + 1)) by lia.
      simpl. rewrite lookup_app_r by lia.
      replace (length mid + 1 - length mid) with 1 by lia. done. }
    assert (<[0 := c]> roots = c :: mid ++ [b; c]) as -> by done.
    assert (length (c :: mid ++ [b; c]) = S (S (S (length mid)))) as Hlen2
      by (simpl; rewrite app_length; simpl; lia).
    rewrite Hlen2. rewrite decide_True by lia.
    assert ((c :: mid ++ [b; c]) !! (S (S (S (length mid))) - 1 - 1) = Some b) as ->.
    { replace (S (S (S (length mid))) - 1 - 1) with (S (length mid + 0)) by lia.
      simpl. rewrite lookup_app_r by lia.
      replace (length mid + 0 - length mid) with 0 by lia. done. }
    simpl. f_equal. f_equal.
    replace (length mid - 0) with (length mid) by lia.
    rewrite insert_app_r_alt by lia.
    rewrite take_app_le by lia. by rewrite firstn_all.
  - unfold model_free. subst idxs.
    assert (normalize [0; S (S (length mid))] = [S (S (length mid)); 0]) as ->.
    { unfold normalize. simpl. done. }
    unfold swap_remove_desc. simpl.
    assert (swap_remove roots (S (S (length mid))) = a :: mid ++ [b]) as ->.
    { unfold swap_remove. subst roots.
      assert (a :: mid ++ [b; c] = (a :: mid ++ [b]) ++ [c]) as E
        by (simpl; rewrite <-app_assoc; done).
      rewrite Hlen, E, last_snoc.
      rewrite list_insert_id.
      - rewrite take_app_alt; [done|]. simpl. rewrite app_length. simpl. lia.
      - rewrite lookup_app_r; simpl; rewrite app_length; simpl; [|lia].
        replace (S (length mid) - (length mid + 1)) with 0 by lia. done. }
    unfold swap_remove.
    replace (a :: mid ++ [b]) with ((a :: mid) ++ [b]) by done.
    rewrite last_snoc, app_length. simpl.
    replace (length mid + 1 - 0) with (S (length mid)) by lia.
    simpl. f_equal. by rewrite take_app_alt.
Qed.

Example host_free_unnormalised_loss :
  host_free [1; 2; 3]%N [0; 2] = Some [3]%N ∧ model_free [1; 2; 3]%N [0; 2] = [2]%N.
Proof. by vm_compute. Qed.

(** ** Append *)

Lemma append_loop_spec sectors : ∀ roots acc k,
  append_loop roots acc k sectors =
  (roots ++ map fst (List.filter snd sectors), acc ++ map snd sectors,
   k + length (List.filter snd sectors)).
Proof.
  induction sectors as [|[r has] rest IH]; intros roots acc k; simpl.
  - rewrite !app_nil_r. f_equal. lia.
  - destruct has; rewrite IH; simpl; rewrite <-!app_assoc; simpl; repeat f_equal; lia.
Qed.

Theorem append_model roots sectors :
  host_append roots sectors =
  (roots ++ map fst (List.filter snd sectors), map snd sectors,
   length (List.filter snd sectors)).
Proof. unfold host_append. by rewrite append_loop_spec. Qed.

Example append_model_ex :
  host_append [1; 2]%N [(7, true); (8, false); (7, true); (1, true)]%N
  = ([1; 2; 7; 7; 1]%N, [true; false; true; true], 3).
Proof. by vm_compute. Qed.

(** ** The step machine: invariant and aborts *)

Local Arguments N.mul : simpl never.
Local Arguments N.add : simpl never.
Local Arguments N.sub : simpl never.
Local Arguments N.div : simpl never.

Lemma pay_fields r u r' :
  pay r u = Some r' →
  r_root r' = r_root r ∧ r_size r' = r_size r ∧ r_cap r' = r_cap r ∧
  r_num r' = (r_num r + 1)%N ∧ r_funds r' = (r_funds r - u_cost u)%N ∧
  (u_cost u ≤ r_funds r)%N ∧ (u_risked u ≤ r_missed r)%N.
Proof.
  unfold pay. destruct (N.ltb_spec (r_funds r) (u_cost u)); [done|].
  destruct (N.ltb_spec (r_missed r) (u_risked u)); [done|].
  intros [= <-]. simpl. repeat split; lia.
Qed.

Definition pending_ok (h : host) (p : pending) : Prop :=
  match p with
  | PFree nr d del _ => mroot nr = d ∧ length nr + del = length (h_roots h)
  | PAppend nr nrev =>
      mroot nr = r_root nrev ∧ (N.of_nat (length nr) * sector_size)%N = r_size nrev
  end.

Definition hst_ok (s : hst) : Prop :=
  committed_ok (hs_host s) ∧
  match hs_phase s with PWait p => pending_ok (hs_host s) p | _ => True end.

Lemma begin_free_copied h idxs lk ch pr u h' p :
  begin_free Copied h idxs lk ch pr u = Some (h', p) →
  h' = h ∧ ∃ cells, free_loop (h_roots h) 0 idxs = Some cells ∧
    p = PFree (take (length (h_roots h) - length idxs) cells)
              (mroot (take (length (h_roots h) - length idxs) cells)) (length idxs) u.
Proof.
  unfold begin_free.
  destruct lk, ch, pr; simpl; try done.
  destruct (free_valid _ _ _); simpl; [|done].
  destruct (free_loop _ _ _) as [cells|]; [|done].
  intros [= <- <-]. split; [done|]. by exists cells.
Qed.

Lemma begin_free_ok h idxs lk ch pr u h' p :
  begin_free Copied h idxs lk ch pr u = Some (h', p) → h' = h ∧ pending_ok h p.
Proof.
  intros E. apply begin_free_copied in E as (-> & cells & Hcells & ->).
  split; [done|]. simpl. split; [done|].
  pose proof (free_loop_length _ _ _ _ Hcells) as Hl.
  pose proof (free_loop_bound _ _ _ _ Hcells) as Hb.
  rewrite take_length. destruct Hb as [->|Hb]; simpl in *; lia.
Qed.

Lemma begin_append_ok h sectors lk ch pr u o p :
  committed_ok h → begin_append h sectors lk ch pr u = Some (o, Some p) → pending_ok h p.
Proof.
  intros Hc. unfold begin_append.
  destruct pr; simpl; [|done]. case_bool_decide; [done|].
  destruct (N.of_nat (length sectors) <=? max_batch)%N; simpl; [|done].
  destruct lk; simpl; [|done]. destruct ch; simpl; [|done].
  rewrite append_model.
  destruct (revise_append _ _ _ _) as [nrev|] eqn:E; simpl; [|done].
  intros [= _ <-]. unfold revise_append in E. apply pay_fields in E as (Hr & Hs & _).
  simpl in *. split; [done|]. rewrite Hs, app_length, map_length.
  destruct Hc as [_ <-]. lia.
Qed.

Lemma do_roots_ok h off len lk pr sg u h' o :
  committed_ok h → do_roots h off len lk pr sg u = Some (h', o) → committed_ok h'.
Proof.
  intros [Hc1 Hc2] E. unfold do_roots in E.
  repeat (match type of E with
          | (if ?b then _ else _) = _ => destruct b; try done
          | match ?x with _ => _ end = _ => destruct x eqn:?; try done
          end; simpl in E).
  inversion E; subst. unfold revise_roots in *.
  match goal with H : pay _ _ = Some _ |- _ => apply pay_fields in H as (Hr & Hs & _) end.
  split; simpl; congruence.
Qed.

(** the account-paid RPCs touch nothing but the account balance, and debit exactly the
    cost exactly when the request is valid, the sector is stored and the balance suffices *)
Theorem account_rpc_model h valid has cost :
  do_acct h valid has cost =
  (if valid && has && (cost <=? h_account h)%N
   then Some (mk_host (h_roots h) (h_rev h) (h_account h - cost)) else None).
Proof.
  unfold do_acct. destruct valid, has; simpl; try done.
  destruct (N.ltb_spec (h_account h) cost), (N.leb_spec cost (h_account h)); (done || lia).
Qed.

Lemma do_fund_Some h valid lk sg amount h' :
  do_fund h valid lk sg amount = Some h' →
  valid = true ∧ lk = true ∧ sg = true ∧
  ∃ r', pay (h_rev h) (mk_usage amount 0) = Some r' ∧
        h' = mk_host (h_roots h) r' (h_account h + amount).
Proof.
  unfold do_fund. destruct valid, lk; simpl; try done.
  destruct (pay _ _) as [r'|]; [|done]. destruct sg; simpl; [|done].
  intros [= <-]. repeat split; try done. by exists r'.
Qed.

Lemma do_fund_ok h valid lk sg amount h' :
  committed_ok h → do_fund h valid lk sg amount = Some h' → committed_ok h'.
Proof.
  intros [Hc1 Hc2] E. apply do_fund_Some in E as (_ & _ & _ & r' & Hp & ->).
  apply pay_fields in Hp as (Hr & Hs & _). split; simpl; congruence.
Qed.

(** funding moves exactly [amount] from the renter output of the revision to the account and
    leaves the roots alone; a refused funding changes nothing *)
Theorem fund_rpc_model h valid lk sg amount :
  do_fund h valid lk sg amount =
  (if valid && lk && sg && (amount <=? r_funds (h_rev h))%N
   then Some (mk_host (h_roots h)
                (mk_rev (r_num (h_rev h) + 1) (r_root (h_rev h)) (r_size (h_rev h)) (r_cap (h_rev h))
                   (r_funds (h_rev h) - amount) (r_hostval (h_rev h) + amount) (r_missed (h_rev h) - 0))
                (h_account h + amount))
   else None).
Proof.
  unfold do_fund, pay. destruct valid, lk; simpl; try done.
  destruct (N.ltb_spec (r_funds (h_rev h)) amount), (N.leb_spec amount (r_funds (h_rev h))); try lia.
  - by rewrite andb_false_r.
  - destruct (N.ltb_spec (r_missed (h_rev h)) 0); [lia|]. by destruct sg.
Qed.

Lemma do_acct_ok h valid has cost h' :
  committed_ok h → do_acct h valid has cost = Some h' → committed_ok h'.
Proof.
  intros Hc. rewrite account_rpc_model. destruct (_ && _ && _); [|done]. by intros [= <-].
Qed.

Lemma on_sig_ok h p valid h' :
  committed_ok h → pending_ok h p → on_sig h p valid = Some h' → committed_ok h'.
Proof.
  intros Hc Hp E. destruct p as [nr d del u|nr nrev]; simpl in *.
  - destruct (revise_free _ _ _ _) as [r'|] eqn:Er; [|done]. destruct valid; [|done].
    inversion E; subst. unfold revise_free in Er.
    destruct (pay _ _) as [r2|] eqn:Ep; [|done]. inversion Er; subst.
    apply pay_fields in Ep as (_ & Hs & _). simpl in *.
    destruct Hp as [Hm Hl]. destruct Hc as [_ Hsz]. split; simpl; [done|].
    rewrite Hs, <-Hsz, <-Hl. lia.
  - destruct valid; [|done]. inversion E; subst. done.
Qed.

Lemma step_ok s m : hst_ok s → hst_ok (fst (step Copied s m)).
Proof.
  intros [Hc Hp]. destruct s as [h ph]. simpl in *.
  destruct ph as [|p|]; destruct m as [rq|valid]; unfold step; simpl; try (by split).
  - (* a request on a fresh stream *)
    destruct rq as [idxs lk ch pr u|sectors lk ch pr u|off len lk pr sg u|fv flk fsg amt|av ah cost].
    + destruct (begin_free Copied h idxs lk ch pr u) as [[h' p]|] eqn:E; simpl; [|by split].
      apply begin_free_ok in E as [-> ?]. by split.
    + destruct (begin_append h sectors lk ch pr u) as [[o [p|]]|] eqn:E; simpl; try (by split).
      split; [done|]. by eapply begin_append_ok.
    + destruct (do_roots h off len lk pr sg u) as [[h' o]|] eqn:E; simpl; [|by split].
      split; [|done]. by eapply do_roots_ok.
    + destruct (do_fund h fv flk fsg amt) as [h'|] eqn:E; simpl; [|by split].
      split; [|done]. by eapply do_fund_ok.
    + destruct (do_acct h av ah cost) as [h'|] eqn:E; simpl; [|by split].
      split; [|done]. by eapply do_acct_ok.
  - (* the renter's signature *)
    destruct (on_sig h p valid) as [h'|] eqn:E; simpl; [|by split].
    split; [|done]. by eapply on_sig_ok.
Qed.

Lemma step_ev_ok s e : hst_ok s → hst_ok (step_ev Copied s e).
Proof.
  intros H. destruct e as [|m|r]; [split; [apply H|done]|by apply step_ok|].
  destruct s as [h ph]. destruct H as [Hc Hp]. simpl in *.
  destruct ph as [|p|].
  - split; [|done]. apply (step_ok (mk_hst h PIdle) (MReq r)). by split.
  - destruct r as [| | | |av ah cost]; try (by split).
    destruct (do_acct h av ah cost) as [h'|] eqn:E; [|by split].
    split; [by eapply do_acct_ok|]. simpl.
    rewrite account_rpc_model in E. destruct (_ && _ && _); [|done]. injection E as <-.
    by destruct p.
  - split; [|done]. apply (step_ok (mk_hst h PIdle) (MReq r)). by split.
Qed.

Lemma exec_ok evs : ∀ s, hst_ok s → hst_ok (exec Copied s evs).
Proof.
  unfold exec. induction evs as [|e evs IH]; intros s H; [done|].
  simpl. apply IH. by apply step_ev_ok.
Qed.

(** every reachable state of the repaired machine, including the states in the middle of
    an RPC and after any abort *)
Theorem commit_inv h evs :
  committed_ok h → committed_ok (hs_host (exec Copied (init h) evs)).
Proof. intros H. apply (exec_ok evs (init h)). split; done. Qed.

Lemma fresh_host_ok funds hostval missed acct : committed_ok (fresh_host funds hostval missed acct).
Proof. done. Qed.

(** unless a valid renter signature arrives, nothing the renter sends (or fails to send)
    changes roots, revision or balances *)
Lemma step_unchanged s m :
  ¬ may_commit (EMsg m) → hs_host (fst (step Copied s m)) = hs_host s.
Proof.
  intros Hn. destruct s as [h ph].
  destruct ph as [|p|]; destruct m as [rq|valid]; unfold step; simpl; try done.
  - destruct rq as [idxs lk ch pr u|sectors lk ch pr u|off len lk pr sg u|fv flk fsg amt|av ah cost];
      [| | | |destruct av, ah; simpl; solve [done|by destruct Hn]].
    4: { destruct (do_fund h fv flk fsg amt) as [h'|] eqn:E; simpl; [|done].
         apply do_fund_Some in E as (-> & -> & -> & _). by destruct Hn. }
    + destruct (begin_free Copied h idxs lk ch pr u) as [[h' p]|] eqn:E; simpl; [|done].
      by apply begin_free_copied in E as (-> & _).
    + destruct (begin_append h sectors lk ch pr u) as [[o [p|]]|]; done.
    + destruct sg; [by destruct Hn|].
      assert (do_roots h off len lk pr false u = None) as ->; [|done].
      unfold do_roots.
      repeat (match goal with
              | |- (if ?b then _ else _) = _ => destruct b; try done
              | |- match ?x with _ => _ end = _ => destruct x; try done
              end; simpl).
  - destruct valid; [by destruct Hn|].
    assert (on_sig h p false = None) as ->; [|done].
    destruct p; simpl; [|done]. by destruct (revise_free _ _ _ _).
Qed.

Theorem abort_is_noop evs : ∀ s,
  Forall (λ e, ¬ may_commit e) evs → hs_host (exec Copied s evs) = hs_host s.
Proof.
  unfold exec. induction evs as [|e evs IH]; intros s Hf; [done|].
  apply Forall_cons in Hf as [He Hf]. simpl. rewrite IH by done.
  destruct e as [|m|r]; [done|by apply step_unchanged|].
  destruct s as [h ph]. simpl.
  destruct ph as [|p|]; simpl.
  - apply (step_unchanged (mk_hst h PIdle) (MReq r)). by destruct r as [| |? ? ? ? [] ?|[] [] [] ?|[] [] ?].
  - destruct r as [| | | |av ah cost]; try done.
    destruct av, ah; simpl; done.
  - apply (step_unchanged (mk_hst h PIdle) (MReq r)). by destruct r as [| |? ? ? ? [] ?|[] [] [] ?|[] [] ?].
Qed.

Ltac no_valid_sig :=
  repeat (apply Forall_cons; split; [simpl; tauto|]); by apply Forall_nil.

(** the honest scripts, cut after every message, and the bad-signature variants *)
Definition usage1 : usage := mk_usage 1 0.
Definition host3 : host :=
  mk_host [1; 2; 3]%N
    (mk_rev 7 (mroot [1; 2; 3]%N) (3 * sector_size) (3 * sector_size) 1000 0 1000) 50.

Example abort_is_noop_ex :
  committed_ok host3 ∧
  let free := EMsg (MReq (FreeReq [0] true true true usage1)) in
  let app := EMsg (MReq (AppendReq [(9, true)]%N true true true usage1)) in
  Forall (λ evs, Forall (λ e, ¬ may_commit e) evs ∧
                 hs_host (exec Copied (init host3) evs) = host3)
    [ [ENew]; [ENew; free]; [ENew; free; EMsg (MSig false)];
      [ENew; app]; [ENew; app; EMsg (MSig false)]; [ENew; free; ENew; app; ENew] ] ∧
  (* … and the complete scripts do change the state, so the statement is not vacuous *)
  h_roots (hs_host (exec Copied (init host3) [ENew; free; EMsg (MSig true)])) = [3; 2]%N ∧
  h_roots (hs_host (exec Copied (init host3) [ENew; app; EMsg (MSig true)])) = [1; 2; 3; 9]%N.
Proof.
  split; [by vm_compute|]. intros free app. subst free app. split; [|by vm_compute].
  repeat (apply Forall_cons; split; [split; [no_valid_sig|by vm_compute]|]).
  by apply Forall_nil.
Qed.

(** the code before the repair: the same abort leaves stored roots that no longer hash to
    the committed root (finding F6) *)
Theorem abort_prefix_refuted :
  ∃ h evs,
    committed_ok h ∧ Forall (λ e, ¬ may_commit e) evs ∧
    h_roots h = [1; 2; 3]%N ∧
    h_roots (hs_host (exec Shared (init h) evs)) = [3; 2; 3]%N ∧
    h_rev (hs_host (exec Shared (init h) evs)) = h_rev h ∧
    ¬ committed_ok (hs_host (exec Shared (init h) evs)).
Proof.
  exists host3, [ENew; EMsg (MReq (FreeReq [0] true true true usage1))].
  split; [by vm_compute|]. split; [no_valid_sig|].
  split; [done|]. split; [by vm_compute|]. split; [by vm_compute|].
  intros [H _]. vm_compute in H. discriminate H.
Qed.

(** ** Complete RPCs commit the list model *)

Lemma committed_sectors h :
  committed_ok h → N.to_nat (r_size (h_rev h) / sector_size) = length (h_roots h).
Proof.
  intros [_ <-]. rewrite N.div_mul by done. apply Nat2N.id.
Qed.

Lemma free_valid_desc h idxs :
  committed_ok h → desc_in_range idxs (length (h_roots h)) →
  (N.of_nat (length idxs) ≤ max_batch)%N →
  free_valid (h_rev h) (length (h_roots h)) idxs = true.
Proof.
  intros Hc Hd Hm. unfold free_valid. rewrite committed_sectors by done.
  apply andb_true_intro; split; [apply andb_true_intro; split; [apply andb_true_intro; split|]|].
  - by apply N.leb_le.
  - apply bool_decide_eq_true. apply Hd.
  - apply bool_decide_eq_true. by eapply desc_in_range_NoDup.
  - apply bool_decide_eq_true. apply Hd.
Qed.

Lemma pay_ok r u :
  (u_cost u ≤ r_funds r)%N → (u_risked u ≤ r_missed r)%N → ∃ r', pay r u = Some r'.
Proof.
  intros H1 H2. unfold pay.
  destruct (N.ltb_spec (r_funds r) (u_cost u)); [lia|].
  destruct (N.ltb_spec (r_missed r) (u_risked u)); [lia|]. by eexists.
Qed.

Lemma begin_free_desc h idxs u :
  committed_ok h → desc_in_range idxs (length (h_roots h)) →
  (N.of_nat (length idxs) ≤ max_batch)%N →
  begin_free Copied h idxs true true true u =
  Some (h, PFree (swap_remove_desc (h_roots h) idxs)
             (mroot (swap_remove_desc (h_roots h) idxs)) (length idxs) u).
Proof.
  intros Hc Hd Hm. unfold begin_free. simpl. rewrite free_valid_desc by done. simpl.
  pose proof (host_free_desc (h_roots h) idxs Hd) as Hh. unfold host_free in Hh.
  rewrite decide_True in Hh by (by apply desc_in_range_length).
  destruct (free_loop (h_roots h) 0 idxs) as [cells|] eqn:Hl; [|done].
  simpl in Hh. injection Hh as Hh. by rewrite Hh.
Qed.

Theorem free_rpc_commits_list_model h idxs u :
  committed_ok h → desc_in_range idxs (length (h_roots h)) →
  (N.of_nat (length idxs) ≤ max_batch)%N →
  (u_cost u ≤ r_funds (h_rev h))%N → (u_risked u ≤ r_missed (h_rev h))%N →
  let h' := hs_host (exec Copied (init h)
              [ENew; EMsg (MReq (FreeReq idxs true true true u)); EMsg (MSig true)]) in
  h_roots h' = swap_remove_desc (h_roots h) idxs ∧
  r_num (h_rev h') = (r_num (h_rev h) + 1)%N ∧
  r_funds (h_rev h') = (r_funds (h_rev h) - u_cost u)%N ∧
  h_account h' = h_account h ∧ committed_ok h'.
Proof.
  intros Hc Hd Hm Hf Hr h'.
  assert (committed_ok h') as Hc' by (by apply commit_inv).
  subst h'. revert Hc'. unfold exec, init. cbn [fold_left step_ev hs_host].
  assert (step Copied (mk_hst h PIdle) (MReq (FreeReq idxs true true true u)) =
          (mk_hst h (PWait (PFree (swap_remove_desc (h_roots h) idxs)
             (mroot (swap_remove_desc (h_roots h) idxs)) (length idxs) u)),
           [OFreeResp (mroot (swap_remove_desc (h_roots h) idxs))])) as ->.
  { unfold step. cbn [hs_phase hs_host]. by rewrite begin_free_desc. }
  cbn [fst]. unfold step. cbn [hs_phase hs_host on_sig]. unfold revise_free.
  destruct (pay_ok (mk_rev (r_num (h_rev h)) (r_root (h_rev h))
      (r_size (h_rev h) - sector_size * N.of_nat (length idxs)) (r_cap (h_rev h))
      (r_funds (h_rev h)) (r_hostval (h_rev h)) (r_missed (h_rev h))) u Hf Hr) as [r' Hp].
  rewrite Hp. apply pay_fields in Hp as (_ & _ & _ & Hn & Hfu & _). simpl in *.
  intros Hc'. done.
Qed.

Theorem client_free_rpc_commits_list_model h idxs u :
  committed_ok h → Forall (λ n, n < length (h_roots h)) idxs →
  (N.of_nat (length (normalize idxs)) ≤ max_batch)%N →
  (u_cost u ≤ r_funds (h_rev h))%N → (u_risked u ≤ r_missed (h_rev h))%N →
  let h' := hs_host (exec Copied (init h)
              [ENew; EMsg (MReq (FreeReq (normalize idxs) true true true u)); EMsg (MSig true)]) in
  h_roots h' = model_free (h_roots h) idxs ∧ committed_ok h'.
Proof.
  intros Hc Hf Hm H1 H2 h'.
  destruct (normalize_establishes_it _ _ Hf) as [Hd _].
  destruct (free_rpc_commits_list_model h (normalize idxs) u Hc Hd Hm H1 H2) as (? & _ & _ & _ & ?).
  done.
Qed.

Theorem append_rpc_commits_model h sectors u :
  committed_ok h → sectors ≠ [] → (N.of_nat (length sectors) ≤ max_batch)%N →
  (u_cost u ≤ r_funds (h_rev h))%N → (u_risked u ≤ r_missed (h_rev h))%N →
  let h' := hs_host (exec Copied (init h)
              [ENew; EMsg (MReq (AppendReq sectors true true true u)); EMsg (MSig true)]) in
  h_roots h' = h_roots h ++ map fst (List.filter snd sectors) ∧
  r_size (h_rev h') =
    (r_size (h_rev h) + sector_size * N.of_nat (length (List.filter snd sectors)))%N ∧
  r_num (h_rev h') = (r_num (h_rev h) + 1)%N ∧
  h_account h' = h_account h ∧ committed_ok h'.
Proof.
  intros Hc Hne Hm Hf Hr h'.
  assert (committed_ok h') as Hc' by (by apply commit_inv).
  subst h'. revert Hc'. unfold exec, init. cbn [fold_left step_ev hs_host].
  set (roots' := h_roots h ++ map fst (List.filter snd sectors)).
  set (k := length (List.filter snd sectors)).
  destruct (pay_ok (mk_rev (r_num (h_rev h)) (mroot roots')
      (r_size (h_rev h) + sector_size * N.of_nat k)
      (r_cap (h_rev h) + sector_size *
         (N.of_nat k - N.min (N.of_nat k) ((r_cap (h_rev h) - r_size (h_rev h)) / sector_size)))
      (r_funds (h_rev h)) (r_hostval (h_rev h)) (r_missed (h_rev h))) u Hf Hr) as [r' Hp].
  assert (step Copied (mk_hst h PIdle) (MReq (AppendReq sectors true true true u)) =
          (mk_hst h (PWait (PAppend roots' r')), [OAppendResp (map snd sectors) (mroot roots')])) as ->.
  { unfold step. cbn [hs_phase hs_host]. unfold begin_append. simpl.
    rewrite bool_decide_eq_false_2 by done.
    apply N.leb_le in Hm. rewrite Hm. simpl. rewrite append_model.
    unfold revise_append. fold roots' k. by rewrite Hp. }
  cbn [fst]. unfold step. cbn [hs_phase hs_host on_sig].
  apply pay_fields in Hp as (_ & Hs & _ & Hn & _). simpl in *.
  intros Hc'. done.
Qed.

(** the sector-roots RPC answers with the stored range and leaves the roots alone *)
Theorem listing_model h off len lk pr sg u h' o :
  committed_ok h → do_roots h off len lk pr sg u = Some (h', o) →
  o = ORootsResp (take len (drop off (h_roots h))) ∧
  length (take len (drop off (h_roots h))) = len ∧
  h_roots h' = h_roots h ∧ h_account h' = h_account h ∧ committed_ok h'.
Proof.
  intros Hc E. pose proof (do_roots_ok _ _ _ _ _ _ _ _ _ Hc E) as Hc'.
  unfold do_roots in E.
  repeat (match type of E with
          | (if ?b then _ else _) = _ => destruct b eqn:?; try done
          | match ?x with _ => _ end = _ => destruct x eqn:?; try done
          end; simpl in E).
  inversion E; subst. split; [done|]. split; [|done].
  rewrite take_length, drop_length.
  match goal with H : negb (bool_decide (off + len ≤ _)) = false |- _ =>
    apply negb_false_iff, bool_decide_eq_true in H end. lia.
Qed.

Example listing_model_ex :
  do_roots host3 1 2 true true true usage1 =
  Some (mk_host [1; 2; 3]%N
          (mk_rev 8 (mroot [1; 2; 3]%N) (3 * sector_size) (3 * sector_size) 999 1 1000) 50,
        ORootsResp [2; 3]%N).
Proof. by vm_compute. Qed.

(** non-vacuity of the complete-RPC theorems: their hypotheses hold for [host3] *)
Example free_rpc_commits_ex :
  committed_ok host3 ∧ desc_in_range [2; 0] (length (h_roots host3)) ∧
  (N.of_nat (length [2; 0]) ≤ max_batch)%N ∧
  (u_cost usage1 ≤ r_funds (h_rev host3))%N ∧ (u_risked usage1 ≤ r_missed (h_rev host3))%N ∧
  Forall (λ n, n < length (h_roots host3)) [0; 2; 0] ∧ normalize [0; 2; 0] = [2; 0] ∧
  h_roots (hs_host (exec Copied (init host3)
     [ENew; EMsg (MReq (FreeReq [2; 0] true true true usage1)); EMsg (MSig true)])) = [2]%N.
Proof.
  split; [by vm_compute|]. split.
  { split; [repeat (constructor; [|repeat constructor; lia]); constructor|].
    simpl. repeat (apply Forall_cons; split; [lia|]). by apply Forall_nil. }
  split; [by vm_compute|]. split; [by vm_compute|]. split; [by vm_compute|].
  split; [simpl; repeat (apply Forall_cons; split; [lia|]); by apply Forall_nil|].
  split; by vm_compute.
Qed.

Example append_rpc_commits_ex :
  [(9, true); (8, false)]%N ≠ [] ∧
  h_roots (hs_host (exec Copied (init host3)
     [ENew; EMsg (MReq (AppendReq [(9, true); (8, false)]%N true true true usage1));
      EMsg (MSig true)])) = [1; 2; 3; 9]%N.
Proof. split; [done|by vm_compute]. Qed.

(** ** Listing: a range served with a verifying proof is the stored range *)

Lemma mroot_fuel_indep f : ∀ g l, length l ≤ f → length l ≤ g → mroot_fuel f l = mroot_fuel g l.
Proof.
  induction f as [|f IH]; intros g l Hf Hg.
  - destruct l; simpl in *; [by destruct g|lia].
  - destruct g as [|g]; [destruct l; simpl in *; [done|lia]|].
    destruct l as [|x [|y l']]; [done|done|].
    remember (x :: y :: l') as l eqn:El.
    assert (2 ≤ length l) as Hlen by (subst l; simpl; lia).
    pose proof (split_point_bounds (length l) Hlen) as Hk.
    assert (∀ h, mroot_fuel (S h) l =
            DNode (mroot_fuel h (take (split_point (length l)) l))
                  (mroot_fuel h (drop (split_point (length l)) l))) as Hu by (subst l; done).
    rewrite !Hu. f_equal; apply IH; rewrite ?take_length, ?drop_length; lia.
Qed.

Lemma mroot_unfold l :
  2 ≤ length l →
  mroot l = DNode (mroot (take (split_point (length l)) l)) (mroot (drop (split_point (length l)) l)).
Proof.
  intros Hlen. pose proof (split_point_bounds (length l) Hlen) as Hk.
  destruct l as [|x [|y l']]; simpl in Hlen; [lia|lia|].
  remember (x :: y :: l') as l eqn:El.
  unfold mroot at 1. destruct (length l) as [|n] eqn:En; [lia|].
  assert (mroot_fuel (S n) l =
          DNode (mroot_fuel n (take (split_point (length l)) l))
                (mroot_fuel n (drop (split_point (length l)) l))) as -> by (subst l; done).
  rewrite En. unfold mroot.
  f_equal; apply mroot_fuel_indep; rewrite ?take_length, ?drop_length; lia.
Qed.

(** a range of [l1 ++ l2] is its part in [l1] followed by its part in [l2] *)
Lemma range_split (l1 l2 : list N) off len :
  let k := length l1 in let hi := off + len in
  off + len ≤ length l1 + length l2 →
  take len (drop off (l1 ++ l2)) =
  take (hi `min` k - off `min` k) (drop (off `min` k) l1) ++
  take (hi `max` k - off `max` k) (drop (off `max` k - k) l2).
Proof.
  intros k hi Hle. subst k hi.
  destruct (decide (length l1 ≤ off)) as [Hge|Hlt].
  - rewrite drop_app_ge by done.
    rewrite !Nat.min_r, !Nat.max_l by lia. rewrite Nat.sub_diag. simpl.
    f_equal. lia.
  - destruct (decide (off + len ≤ length l1)) as [Hin|Hout].
    + rewrite drop_app_le by lia.
      rewrite !Nat.min_l, !Nat.max_r by lia. rewrite Nat.sub_diag.
      simpl. rewrite app_nil_r.
      rewrite take_app_le by (rewrite drop_length; lia). f_equal. lia.
    + rewrite drop_app_le by lia.
      rewrite (Nat.min_r (off + len)), (Nat.min_l off), (Nat.max_l (off + len)), (Nat.max_r off) by lia.
      rewrite Nat.sub_diag. simpl.
      rewrite take_app_ge by (rewrite drop_length; lia).
      rewrite drop_length. rewrite (take_ge (drop off l1)) by (rewrite drop_length; lia).
      f_equal. f_equal. lia.
Qed.

Lemma rebuild_sound f : ∀ l off len rs proof rs' p',
  1 ≤ length l → length l ≤ f → off + len ≤ length l →
  rebuild f (length l) off len rs proof = Some (mroot l, rs', p') →
  rs = take len (drop off l) ++ rs'.
Proof.
  induction f as [|f IH]; intros l off len rs proof rs' p' Hl1 Hlf Hr E; [simpl in *; lia|].
  cbn [rebuild] in E. case_decide as Hlen.
  { subst len. rewrite take_0. destruct proof; [done|]. by injection E as _ -> _. }
  case_decide as Hn.
  { destruct rs as [|x rs0]; [done|]. case_decide; [|done].
    injection E as Ed -> _. destruct l as [|y [|? ?]]; simpl in *; try lia.
    injection Ed as ->. assert (off = 0) as -> by lia. assert (len = 1) as -> by lia. done. }
  set (k := split_point (length l)) in *.
  pose proof (split_point_bounds (length l) ltac:(lia)) as Hk. fold k in Hk.
  destruct (rebuild f k _ _ rs proof) as [[[dl rs1] p1]|] eqn:E1; [|done].
  destruct (rebuild f (length l - k) _ _ rs1 p1) as [[[dr rs2] p2]|] eqn:E2; [|done].
  injection E as Ed -> ->. rewrite mroot_unfold in Ed by lia. fold k in Ed.
  injection Ed as -> ->.
  assert (length (take k l) = k) as Hlk by (rewrite take_length; lia).
  assert (length (drop k l) = length l - k) as Hld by (by rewrite drop_length).
  rewrite <-Hlk in E1 at 1. apply IH in E1; [|lia|lia|lia].
  rewrite <-Hld in E2 at 1. apply IH in E2; [|lia|lia|lia].
  rewrite E1, E2. rewrite app_assoc. f_equal.
  pose proof (range_split (take k l) (drop k l) off len) as Hs. cbv zeta in Hs.
  rewrite take_drop, Hlk in Hs. rewrite Hs by (rewrite Hld; lia). done.
Qed.

Theorem listing_sound roots off len rs proof :
  verify_range (mroot roots) (length roots) off len rs proof = true →
  rs = take len (drop off roots).
Proof.
  unfold verify_range. intros H. apply andb_true_iff in H as [Hr H].
  apply bool_decide_eq_true in Hr as (Hlen & Hle & _).
  destruct (rebuild _ _ _ _ rs proof) as [[[d [|? ?]] [|? ?]]|] eqn:E; try done.
  apply bool_decide_eq_true in H as ->.
  apply rebuild_sound in E; [|lia|lia|lia]. by rewrite app_nil_r in E.
Qed.

Lemma rebuild_complete f : ∀ l off len rs' p',
  1 ≤ length l → length l ≤ f → off + len ≤ length l →
  rebuild f (length l) off len (take len (drop off l) ++ rs') (build_range_proof f l off len ++ p')
  = Some (mroot l, rs', p').
Proof.
  induction f as [|f IH]; intros l off len rs' p' Hl1 Hlf Hr; [lia|].
  cbn [rebuild build_range_proof]. case_decide as Hlen.
  { subst len. by rewrite take_0. }
  case_decide as Hn.
  { destruct l as [|y [|? ?]]; simpl in *; try lia.
    assert (off = 0) as -> by lia. assert (len = 1) as -> by lia. simpl. done. }
  set (k := split_point (length l)) in *.
  pose proof (split_point_bounds (length l) ltac:(lia)) as Hk. fold k in Hk.
  assert (length (take k l) = k) as Hlk by (rewrite take_length; lia).
  assert (length (drop k l) = length l - k) as Hld by (by rewrite drop_length).
  pose proof (range_split (take k l) (drop k l) off len) as Hs. cbv zeta in Hs.
  rewrite take_drop, Hlk in Hs. rewrite Hs by (rewrite Hld; lia).
  rewrite <-!app_assoc.
  rewrite <-Hlk at 1. rewrite IH by lia.
  rewrite <-Hld at 1. rewrite IH by lia.
  rewrite (mroot_unfold l) by lia. done.
Qed.

(** the honest host's proof verifies (so [listing_sound] is not vacuous, for any contract) *)
Theorem listing_complete roots off len :
  0 < len → off + len ≤ length roots →
  verify_range (mroot roots) (length roots) off len (take len (drop off roots))
    (build_range_proof (length roots) roots off len) = true.
Proof.
  intros Hlen Hle. unfold verify_range. apply andb_true_iff. split.
  - apply bool_decide_eq_true. rewrite take_length, drop_length. lia.
  - pose proof (rebuild_complete (length roots) roots off len [] [] ltac:(lia) ltac:(lia) Hle) as E.
    rewrite !app_nil_r in E. rewrite E. by apply bool_decide_eq_true.
Qed.

Example listing_sound_ex :
  verify_range (mroot [1; 2; 3; 4; 5; 6; 7]%N) 7 2 3 [3; 4; 5]%N
    [DNode (DLeaf 1) (DLeaf 2); DLeaf 6; DLeaf 7]%N = true ∧
  verify_range (mroot [1; 2; 3; 4; 5; 6; 7]%N) 7 2 3 [4; 5; 6]%N
    (build_range_proof 7 [1; 2; 3; 4; 5; 6; 7]%N 3 3) = false.
Proof. by vm_compute. Qed.

(** the host's listing comes with a verifying proof against the committed root *)
Theorem listing_verifies h off len lk pr sg u h' o :
  committed_ok h → do_roots h off len lk pr sg u = Some (h', o) →
  ∃ rs, o = ORootsResp rs ∧
    verify_range (r_root (h_rev h)) (N.to_nat (r_size (h_rev h) / sector_size)) off len rs
      (build_range_proof (length (h_roots h)) (h_roots h) off len) = true.
Proof.
  intros Hc E. destruct (listing_model _ _ _ _ _ _ _ _ _ Hc E) as (-> & Hl & _).
  eexists. split; [done|]. rewrite committed_sectors by done.
  destruct Hc as [<- _]. unfold do_roots in E.
  repeat (match type of E with
          | (if ?b then _ else _) = _ => destruct b eqn:?; try done
          | match ?x with _ => _ end = _ => destruct x eqn:?; try done
          end; simpl in E).
  apply listing_complete.
  - match goal with H : bool_decide (len = 0) = false |- _ => apply bool_decide_eq_false in H end. lia.
  - match goal with H : negb (bool_decide (off + len ≤ _)) = false |- _ =>
      apply negb_false_iff, bool_decide_eq_true in H end. done.
Qed.

(** non-vacuity of the account model; and a failed account-paid RPC is covered by
    [abort_is_noop]: neither an unknown sector nor an invalid request may commit *)
Example account_rpc_model_ex :
  do_acct host3 true true 7 = Some (mk_host (h_roots host3) (h_rev host3) 43) ∧
  do_acct host3 true false 7 = None ∧ do_acct host3 false true 7 = None ∧
  do_acct host3 true true 51 = None.
Proof. by vm_compute. Qed.

Example failed_account_rpc_is_noop_ex :
  Forall (λ e, ¬ may_commit e)
    [ENew; EMsg (MReq (AcctReq true false 7)); ENew; EMsg (MReq (AcctReq false true 7))] ∧
  hs_host (exec Copied (init host3)
    [ENew; EMsg (MReq (AcctReq true false 7)); ENew; EMsg (MReq (AcctReq false true 7))]) = host3.
Proof. split; [no_valid_sig|by vm_compute]. Qed.

(** non-vacuity for funding and for requests on another stream while the first handler waits *)
Example fund_and_interleave_ex :
  do_fund host3 true true true 10 =
    Some (mk_host [1; 2; 3]%N
            (mk_rev 8 (mroot [1; 2; 3]%N) (3 * sector_size) (3 * sector_size) 990 10 1000) 60) ∧
  do_fund host3 true true false 10 = None ∧
  let free := EMsg (MReq (FreeReq [0] true true true usage1)) in
  (* an append on another stream while the free waits is refused; the free then commits *)
  h_roots (hs_host (exec Copied (init host3)
     [ENew; free; EOther (AppendReq [(9, true)]%N true true true usage1); EMsg (MSig true)])) = [3; 2]%N ∧
  (* … and if the free is then abandoned nothing has changed at all *)
  hs_host (exec Copied (init host3)
     [ENew; free; EOther (AppendReq [(9, true)]%N true true true usage1);
      EOther (FundReq true true true 10); ENew]) = host3 ∧
  (* a paid read on another stream is served during the wait and does not disturb the free *)
  hs_host (exec Copied (init host3) [ENew; free; EOther (AcctReq true true 7); EMsg (MSig true)]) =
    mk_host [3; 2]%N (mk_rev 8 (mroot [3; 2]%N) (2 * sector_size) (3 * sector_size) 999 1 1000) 43.
Proof. by vm_compute. Qed.

(** the renewal of a contract in a good state is in a good state, with the same roots *)
Theorem renew_ok h funds hostval missed :
  committed_ok h →
  committed_ok (renew h funds hostval missed) ∧
  h_roots (renew h funds hostval missed) = h_roots h ∧
  h_account (renew h funds hostval missed) = h_account h.
Proof. intros [H1 H2]. repeat split; done. Qed.

Example renew_ex : committed_ok host3 ∧ h_roots (renew host3 5 6 7) = [1; 2; 3]%N.
Proof. split; by vm_compute. Qed.
