(** * RHP/Form.v — contract formation, renewal and refresh (C16)

    Executable models, no proofs.  Both parties of the three RPCs as step machines:

    - the host handlers [handleRPCFormContract] (rhp/v4/server.go:727-867),
      [handleRPCRenewContract] (1055-1234) and [handleRPCRefreshContract] (869-1053),
      as programs (lists of stages in source order) run over a context that holds the
      host's wallet, contractor, pool and the handler's local variables; the
      [defer ... ReleaseInputs] is the last step of every run;
    - the renter functions [RPCFormContract] (rhp/v4/rpc.go:1051-1181),
      [RPCRenewContract] (1184-1321) and [rpcRefreshContract] (311-459);
    - the wallet of wallet/wallet.go restricted to what the RPCs use:
      [FundV2Transaction] (497-532, with [selectUTXOs] 281-405 without defragmentation),
      [ReleaseInputs] (803-818), the [locked] map (113-118).

    What the code takes from elsewhere is an input of the model: the verdict of the
    host's transaction pool, the relation of the renter's basis to the host's funding
    basis (the verdict of [UpdateV2TransactionSet]), request validation, and every
    message the other side sends ([None] = the stream was closed or the message did
    not decode).  Signatures are symbolic (DESIGN 3.3).

    [fixed = true] is the repository with the C16 repairs: the host releases the inputs
    it funded (remembered at funding time) and the renter releases its inputs when
    dialing fails; [fixed = false] is the code before them. *)
From stdpp Require Import gmap.
From Coq Require Import ZArith NArith List.
Local Open Scope Z_scope.

(** ** Wallet *)
Record utxo := mk_utxo { u_id : N; u_val : Z; u_unconf : bool }.
Record wallet := mk_wallet { w_utxos : list utxo; w_locked : gset N }.

Definition uids (l : list utxo) : list N := map u_id l.
Definition usum (l : list utxo) : Z := fold_right (λ u a, u_val u + a) 0 l.

(** outputs the selection may use: not locked (wallet.go:331), confirmed or pool-created *)
Definition avail (w : wallet) (unconf : bool) : list utxo :=
  List.filter (λ u, bool_decide (u_id u ∉ w_locked w) && Bool.eqb (u_unconf u) unconf) (w_utxos w).

(** sort.Slice by value, descending (wallet.go:343-345) *)
Fixpoint insert_desc (u : utxo) (l : list utxo) : list utxo :=
  match l with
  | [] => [u]
  | v :: l' => if (u_val v <=? u_val u) then u :: l else v :: insert_desc u l'
  end.
Definition sort_desc (l : list utxo) : list utxo := fold_right insert_desc [] l.

(** "fund the transaction using the largest utxos first" (wallet.go:362-372):
    take outputs while the running sum is below the amount *)
Fixpoint take_until (amt acc : Z) (l : list utxo) : list utxo * Z :=
  match l with
  | [] => ([], acc)
  | u :: l' => if (amt <=? acc) then ([], acc)
               else let '(s, a) := take_until amt (acc + u_val u) l' in (u :: s, a)
  end.

(** FundV2Transaction: [None] is ErrNotEnoughFunds; a zero amount selects and locks
    nothing (wallet.go:498-501) *)
Definition fund (w : wallet) (amt : Z) (use_unconf : bool) : option (list utxo * wallet) :=
  if (amt <=? 0) then Some ([], w) else
  let '(s1, a1) := take_until amt 0 (sort_desc (avail w false)) in
  let '(s2, a2) := if use_unconf then take_until amt a1 (sort_desc (avail w true)) else ([], a1) in
  if (a2 <? amt) then None
  else Some (s1 ++ s2, mk_wallet (w_utxos w) (w_locked w ∪ list_to_set (uids (s1 ++ s2)))).

(** ReleaseInputs: delete the ids from the locked map *)
Definition release (w : wallet) (ids : list N) : wallet :=
  mk_wallet (w_utxos w) (w_locked w ∖ list_to_set ids).

(** SpendableOutputs: what later attempts can still use *)
Definition spendable (w : wallet) : list utxo :=
  List.filter (λ u, bool_decide (u_id u ∉ w_locked w)) (w_utxos w).

(** ** Symbolic contracts and signatures *)
Inductive kind := KForm | KRenew | KRefresh.

(** the terms both sides compute from the request with [NewContract] / [RenewContract] /
    [RefreshContract...] and [ContractCost] / [RenewalCost] / [RefreshCost]:
    the id of the contract (the renewed contract's id for renewals), the two keys and
    what each party has to fund *)
Record cterms := mk_terms { ct_id : N; ct_rk : N; ct_hk : N; ct_rfund : Z; ct_hfund : Z }.

Inductive smsg := MContract (t : cterms) | MRenewal (t : cterms).
Inductive sig := Sig (k : N) (m : smsg) | SigJunk (n : N).

Global Instance cterms_eq_dec : EqDecision cterms.
Proof. solve_decision. Defined.
Global Instance smsg_eq_dec : EqDecision smsg.
Proof. solve_decision. Defined.
Global Instance sig_eq_dec : EqDecision sig.
Proof. solve_decision. Defined.

Definition verify (k : N) (m : smsg) (s : sig) : bool := bool_decide (s = Sig k m).

(** a contract with its signatures; renewals carry the two renewal signatures as well *)
Record contract := mk_contract {
  co_terms : cterms; co_rsig : sig; co_hsig : sig; co_rrsig : option sig; co_hrsig : option sig }.
Global Instance contract_eq_dec : EqDecision contract.
Proof. solve_decision. Defined.

Definition is_renewal (k : kind) : bool := match k with KForm => false | _ => true end.

Definition doubly_signed (k : kind) (c : contract) : Prop :=
  co_rsig c = Sig (ct_rk (co_terms c)) (MContract (co_terms c)) ∧
  co_hsig c = Sig (ct_hk (co_terms c)) (MContract (co_terms c)) ∧
  (if is_renewal k
   then co_rrsig c = Some (Sig (ct_rk (co_terms c)) (MRenewal (co_terms c))) ∧
        co_hrsig c = Some (Sig (ct_hk (co_terms c)) (MRenewal (co_terms c)))
   else co_rrsig c = None ∧ co_hrsig c = None).

(** the formation / renewal transaction: the contract, the renter's inputs followed by
    the host's inputs; a transaction set is that transaction after its parents, together
    with the basis (an abstract id of a chain state) its Merkle proofs are made for *)
Record atxn := mk_atxn { at_contract : contract; at_rin : list N; at_hin : list N }.
Record tset := mk_tset { ts_basis : N; ts_parents : nat; ts_txn : atxn }.
Global Instance atxn_eq_dec : EqDecision atxn.
Proof. solve_decision. Defined.

(** ** Messages *)
Record req := mk_req { rq_terms : cterms; rq_inputs : list (N * Z); rq_parents : nat }.
Record hinputs := mk_hinputs { hi_inputs : list (N * Z) }.
Record rsigs := mk_rsigs { rs_csig : sig; rs_rsig : sig; rs_npol : nat }.
(** final response: the basis, the number of transactions in the set, whether its last
    transaction has exactly one contract (one renewal resolution), that transaction *)
Record final := mk_final { f_basis : N; f_len : nat; f_shape : bool; f_txn : atxn }.

(** values are 128-bit: summing the inputs the other side names overflows beyond this *)
Definition max_currency : Z := 340282366920938463463374607431768211455.

Definition pids (l : list (N * Z)) : list N := map fst l.
Definition psum (l : list (N * Z)) : Z := fold_right (λ p a, snd p + a) 0 l.

(** ** Host *)
Record host := mk_host {
  h_key : N; h_wallet : wallet;
  h_contracts : list contract;   (* Contractor: AddV2Contract / RenewV2Contract *)
  h_pool : list tset;            (* sets the pool accepted *)
  h_bcast : list tset }.         (* sets handed to BroadcastV2TransactionSet *)

(** relation of req.Basis to the basis of the host's funding *)
Inductive basis_rel :=
| BSame                      (* same tip: no rebase *)
| BBehind (rebasable : bool) (* renter a few blocks behind on the host's chain; rebasable iff its
                                inputs are confirmed (the handler rebases the transaction without
                                its parents, server.go:803, so an unconfirmed input is rejected) *)
| BFork (rebasable : bool)   (* renter on a stale fork the host has stored; rebasable iff the
                                host applied it once and the inputs predate the fork *)
| BUnknown                   (* a basis the host has never seen *)
| BHostBehind (rebasable : bool) (* the renter is on the tip of the host's chain manager, the
                                host's wallet (whose tip is the funding basis) has not processed
                                the newest blocks: the renter's inputs are rebased backwards *)
| BClaimed (v : option bool). (* the renter names a basis its proofs were not made for: whether a
                                rebase runs ([None]: the host's own basis was named) and what it
                                says is the chain manager's business *)

(** verdict of UpdateV2TransactionSet on the renter's inputs; [None]: not called *)
Definition rebase_verdict (b : basis_rel) : option bool :=
  match b with
  | BSame => None | BBehind r => Some r | BFork r => Some r | BUnknown => Some false
  | BHostBehind r => Some r
  | BClaimed v => v
  end.

Record env := mk_env {
  e_accepting : bool;     (* settings.AcceptingContracts *)
  e_valid : bool;         (* prices, request validation, contract lock, challenge signature *)
  e_elem_found : bool;    (* renew/refresh: contractor.V2FileContractElement finds the element
                             (false: lookup error, or the formation is still unconfirmed) *)
  e_basis : basis_rel;
  e_elem_rebase : option bool; (* renew/refresh: elementBasis <> basis and the verdict *)
  e_send_ok : bool;       (* writing the host inputs succeeded *)
  e_parents_ok : bool;    (* pool verdict on the renter's parents *)
  e_txset_ok : bool;      (* V2TransactionSet *)
  e_pool_ok : bool;       (* pool verdict on the full set *)
  e_fund_basis : N;       (* the host wallet's tip: the basis FundV2Transaction returns *)
  e_tip : N }.            (* the chain manager's tip: the basis V2TransactionSet returns *)

(** calls the handler makes on the wallet, chain manager and contractor, in order *)
Inductive hcall :=
| CElement (ok : bool) (* renew/refresh: contractor.V2FileContractElement, before any funding *)
| CFund (n : nat) | CFundFail | CUpdate (ok : bool) | CElemUpdate (ok : bool)
| CPoolParents (ok : bool) | CTxSet (ok : bool) | CPoolSet (ok : bool)
| CRecord | CBroadcast | CRelease (n : nat)
| CRecordFail | CBroadcastFail. (* never produced by the model: the contractor and the syncer are assumed not to fail *)

Inductive hmsg := HInputs (m : hinputs) | HFinal (m : final).

(** the handler's local state *)
Record hctx := mk_hctx {
  x_h : host;
  x_terms : cterms;              (* terms computed from the request *)
  x_rin : list (N * Z);          (* req.RenterInputs *)
  x_parents : nat;
  x_funded : list utxo;          (* what FundV2Transaction selected and locked *)
  x_txn_hin : list N;            (* host inputs currently in formationTxn / renewalTxn *)
  x_defer : bool;                (* the deferred release is registered *)
  x_bcast : bool;                (* the [broadcast] flag *)
  x_contract : option contract;  (* the contract with both signatures *)
  x_set : option tset;           (* the set returned by V2TransactionSet *)
  x_calls : list hcall;
  x_sent : list hmsg }.

Definition x_init (h : host) : hctx :=
  mk_hctx h (mk_terms 0 0 0 0 0) [] 0%nat [] [] false false None None [] [].

Definition set_h (x : hctx) (h : host) : hctx :=
  mk_hctx h (x_terms x) (x_rin x) (x_parents x) (x_funded x) (x_txn_hin x) (x_defer x)
    (x_bcast x) (x_contract x) (x_set x) (x_calls x) (x_sent x).
Definition set_req (x : hctx) (t : cterms) (rin : list (N * Z)) (p : nat) : hctx :=
  mk_hctx (x_h x) t rin p (x_funded x) (x_txn_hin x) (x_defer x)
    (x_bcast x) (x_contract x) (x_set x) (x_calls x) (x_sent x).
Definition set_funded (x : hctx) (w : wallet) (sel : list utxo) : hctx :=
  mk_hctx (mk_host (h_key (x_h x)) w (h_contracts (x_h x)) (h_pool (x_h x)) (h_bcast (x_h x)))
    (x_terms x) (x_rin x) (x_parents x) sel (uids sel) true
    (x_bcast x) (x_contract x) (x_set x) (x_calls x) (x_sent x).
Definition set_hin (x : hctx) (hin : list N) : hctx :=
  mk_hctx (x_h x) (x_terms x) (x_rin x) (x_parents x) (x_funded x) hin (x_defer x)
    (x_bcast x) (x_contract x) (x_set x) (x_calls x) (x_sent x).
Definition set_bcast (x : hctx) : hctx :=
  mk_hctx (x_h x) (x_terms x) (x_rin x) (x_parents x) (x_funded x) (x_txn_hin x) (x_defer x)
    true (x_contract x) (x_set x) (x_calls x) (x_sent x).
Definition set_contract (x : hctx) (c : contract) : hctx :=
  mk_hctx (x_h x) (x_terms x) (x_rin x) (x_parents x) (x_funded x) (x_txn_hin x) (x_defer x)
    (x_bcast x) (Some c) (x_set x) (x_calls x) (x_sent x).
Definition set_set (x : hctx) (s : tset) : hctx :=
  mk_hctx (x_h x) (x_terms x) (x_rin x) (x_parents x) (x_funded x) (x_txn_hin x) (x_defer x)
    (x_bcast x) (x_contract x) (Some s) (x_calls x) (x_sent x).
Definition add_call (x : hctx) (c : hcall) : hctx :=
  mk_hctx (x_h x) (x_terms x) (x_rin x) (x_parents x) (x_funded x) (x_txn_hin x) (x_defer x)
    (x_bcast x) (x_contract x) (x_set x) (x_calls x ++ [c]) (x_sent x).
Definition add_sent (x : hctx) (m : hmsg) : hctx :=
  mk_hctx (x_h x) (x_terms x) (x_rin x) (x_parents x) (x_funded x) (x_txn_hin x) (x_defer x)
    (x_bcast x) (x_contract x) (x_set x) (x_calls x) (x_sent x ++ [m]).

Definition h_set_wallet (h : host) (w : wallet) : host :=
  mk_host (h_key h) w (h_contracts h) (h_pool h) (h_bcast h).
Definition h_add_pool (h : host) (s : tset) : host :=
  mk_host (h_key h) (h_wallet h) (h_contracts h) (s :: h_pool h) (h_bcast h).
Definition h_add_contract (h : host) (c : contract) : host :=
  mk_host (h_key h) (h_wallet h) (c :: h_contracts h) (h_pool h) (h_bcast h).
Definition h_add_bcast (h : host) (s : tset) : host :=
  mk_host (h_key h) (h_wallet h) (h_contracts h) (h_pool h) (s :: h_bcast h).

(** stages of the handlers *)
Inductive stage :=
| SReadReq | SAccepting | SValidate | SRenterFunding | SElement | SFund | SSend
| SRebase | SElemRebase | SReadSigs | SVerify | SParents | STxSet | SPool
| SRecord | SBroadcast | SFinal.

(** form: server.go:728, 734, 740, 764, 776-788, 795, 800-809, 813-816, 820-832,
    836-840, 843, 846, 851, 857-860, 863 *)
Definition form_prog : list stage :=
  [SReadReq; SAccepting; SValidate; SRenterFunding; SFund; SSend; SRebase; SReadSigs;
   SVerify; SParents; STxSet; SPool; SRecord; SBroadcast; SFinal].
(** renew: server.go:1057, 1062, 1068-1089, 1107, 1117, 1123-1135, 1138-1147, 1149-1160,
    1169, 1175-1179, 1182-1194, 1203-1207, 1210, 1213, 1218, 1224-1227, 1230;
    refresh: 871, 876, 882-903, 926, 936, 942-954, 957-966, 968-979, 988, 994-998,
    1001-1013, 1022-1026, 1029, 1032, 1037, 1043-1046, 1049 *)
Definition renew_prog : list stage :=
  [SReadReq; SAccepting; SValidate; SRenterFunding; SElement; SFund; SRebase; SElemRebase;
   SSend; SReadSigs; SVerify; SParents; STxSet; SPool; SRecord; SBroadcast; SFinal].
Definition prog (k : kind) : list stage := match k with KForm => form_prog | _ => renew_prog end.

Definition cont (b : bool) (x : hctx) : hctx + hctx := if b then inl x else inr x.

(** consensus refuses a transaction that names the same parent output twice, whatever the
    chain state (core consensus/validation.go validateV2Siacoins "double-spends parent
    output"): the pool's verdict on the full set is the input bit and this *)
Fixpoint nodupb (l : list N) : bool :=
  match l with [] => true | i :: l' => negb (existsb (N.eqb i) l') && nodupb l' end.
Definition pool_verdict (e : env) (rin : list (N * Z)) : bool := e_pool_ok e && nodupb (pids rin).

(** one stage; [inl] continues, [inr] is a [return err] with the locals at that point *)
Definition exec (k : kind) (e : env) (m1 : option req) (m2 : option rsigs)
    (st : stage) (x : hctx) : hctx + hctx :=
  match st with
  | SReadReq =>
      match m1 with
      | None => inr x
      | Some r =>
          (* the host builds the contract with its own key *)
          let t := mk_terms (ct_id (rq_terms r)) (ct_rk (rq_terms r)) (h_key (x_h x))
                     (ct_rfund (rq_terms r)) (ct_hfund (rq_terms r)) in
          inl (set_req x t (rq_inputs r) (rq_parents r))
      end
  | SAccepting => cont (e_accepting e) x
  | SValidate => cont (e_valid e) x
  (* the handler sums the values the renter names with Currency.Add: an overflowing sum
     panics (recovered by handleHostStream, the stream is dropped) - before anything is
     reserved; otherwise the sum must cover the renter's cost *)
  | SRenterFunding =>
      cont (negb (max_currency <? psum (x_rin x)) && negb (psum (x_rin x) <? ct_rfund (x_terms x))) x
  (* server.go renew 1117-1120 / refresh 936-939: looked up, and its error returned, before
     FundV2Transaction reserves anything *)
  | SElement => cont (e_elem_found e) (add_call x (CElement (e_elem_found e)))
  | SFund =>
      match fund (h_wallet (x_h x)) (ct_hfund (x_terms x)) false with
      | None => inr (add_call x CFundFail)
      | Some (sel, w) => inl (add_call (set_funded x w sel) (CFund (length sel)))
      end
  | SSend =>
      let hi := mk_hinputs (map (λ u, (u_id u, u_val u)) (x_funded x)) in
      cont (e_send_ok e) (add_sent x (HInputs hi))
  | SRebase =>
      match rebase_verdict (e_basis e) with
      | None => inl x
      | Some ok =>
          (* hostInputs := txn.SiacoinInputs[len(renter):]; txn.SiacoinInputs = [:len(renter)] *)
          let saved := x_txn_hin x in
          let x1 := add_call (set_hin x []) (CUpdate ok) in
          if ok then inl (set_hin x1 saved) else inr x1
      end
  | SElemRebase =>
      match e_elem_rebase e with
      | None => inl x
      | Some ok => cont ok (add_call x (CElemUpdate ok))
      end
  | SReadSigs =>
      match m2 with
      | None => inr x
      | Some s => cont (Nat.eqb (rs_npol s) (length (x_rin x))) x
      end
  | SVerify =>
      match m2 with
      | None => inr x
      | Some s =>
          let t := x_terms x in
          let hk := h_key (x_h x) in
          if is_renewal k then
            if verify (ct_rk t) (MRenewal t) (rs_rsig s) then
              if verify (ct_rk t) (MContract t) (rs_csig s) then
                inl (set_contract x (mk_contract t (rs_csig s) (Sig hk (MContract t))
                                       (Some (rs_rsig s)) (Some (Sig hk (MRenewal t)))))
              else inr x
            else inr x
          else
            if verify (ct_rk t) (MContract t) (rs_csig s) then
              inl (set_contract x (mk_contract t (rs_csig s) (Sig hk (MContract t)) None None))
            else inr x
      end
  | SParents =>
      if Nat.eqb (x_parents x) 0 then inl x
      else cont (e_parents_ok e) (add_call x (CPoolParents (e_parents_ok e)))
  | STxSet =>
      match x_contract x with
      | None => inr x
      | Some c =>
          let x1 := add_call x (CTxSet (e_txset_ok e)) in
          if e_txset_ok e
          (* basis, set, err := V2TransactionSet(basis, txn): proofs and basis are the tip's *)
          then inl (set_set x1 (mk_tset (e_tip e) (x_parents x) (mk_atxn c (pids (x_rin x)) (x_txn_hin x))))
          else inr x1
      end
  | SPool =>
      match x_set x with
      | None => inr x
      | Some s =>
          let v := pool_verdict e (x_rin x) in
          let x1 := add_call x (CPoolSet v) in
          if v then inl (set_h x1 (h_add_pool (x_h x1) s)) else inr x1
      end
  | SRecord =>
      match x_contract x with
      | None => inr x
      | Some c => inl (add_call (set_h x (h_add_contract (x_h x) c)) CRecord)
      end
  | SBroadcast =>
      match x_set x with
      | None => inr x
      | Some s => inl (set_bcast (add_call (set_h x (h_add_bcast (x_h x) s)) CBroadcast))
      end
  | SFinal =>
      match x_set x with
      | None => inr x
      | Some s => inl (add_sent x (HFinal (mk_final (ts_basis s) (S (ts_parents s)) true (ts_txn s))))
      end
  end.

(** run a program until a stage returns; the flag says whether it ran to the end *)
Fixpoint run_prog (k : kind) (e : env) (m1 : option req) (m2 : option rsigs)
    (p : list stage) (x : hctx) : hctx * bool :=
  match p with
  | [] => (x, true)
  | st :: p' => match exec k e m1 m2 st x with
                | inl x' => run_prog k e m1 m2 p' x'
                | inr x' => (x', false)
                end
  end.

Definition count_in (ids : list N) (l : list N) : nat :=
  length (List.filter (λ i, bool_decide (i ∈ ids)) l).

(** the deferred function: unless [broadcast], release
    - repaired code: the inputs that were funded;
    - before the repair: the inputs of the transaction variable as it is now
      (the renter's inputs followed by whatever host inputs it still holds). *)
Definition deferred (fixed : bool) (x : hctx) : hctx :=
  if x_defer x && negb (x_bcast x) then
    let ids := if fixed then uids (x_funded x) else pids (x_rin x) ++ x_txn_hin x in
    add_call (set_h x (h_set_wallet (x_h x) (release (h_wallet (x_h x)) ids)))
      (CRelease (count_in ids (uids (x_funded x))))
  else x.

Record hout := mk_hout { ho_host : host; ho_ok : bool; ho_calls : list hcall; ho_sent : list hmsg;
                         ho_funded : list utxo }.

Definition host_run_prog (fixed : bool) (k : kind) (e : env) (p : list stage) (h : host)
    (m1 : option req) (m2 : option rsigs) : hout :=
  let '(x, ok) := run_prog k e m1 m2 p (x_init h) in
  let x' := deferred fixed x in
  mk_hout (x_h x') ok (x_calls x') (x_sent x') (x_funded x').

Definition host_run (fixed : bool) (k : kind) (e : env) (h : host)
    (m1 : option req) (m2 : option rsigs) : hout :=
  host_run_prog fixed k e (prog k) h m1 m2.

(** ** What the property asks of a failed attempt's call trace

    The property fixes the state a failed attempt leaves behind (no contract, nothing
    reserved), not the stage at which a doomed request is turned down: a handler may refuse
    it earlier (or later) than the transcription above.  A trace of a failed attempt is
    [admissible] when its calls follow the handler's order, the first call that fails is
    the last one, nothing was recorded, broadcast or accepted by the pool, and exactly what
    was funded was released (the release may be omitted when nothing was funded).  The
    traces of the model are admissible (FormProofs); Run_C16 accepts an observed failing
    trace that differs from the model's if it is admissible and the resulting state agrees. *)
Definition call_rank (k : kind) (c : hcall) : option nat :=
  match c with
  | CElement _ => if is_renewal k then Some 1%nat else None
  | CFund _ | CFundFail => Some 2%nat
  | CUpdate _ => Some 3%nat
  | CElemUpdate _ => if is_renewal k then Some 4%nat else None
  | CPoolParents _ => Some 5%nat
  | CTxSet _ => Some 6%nat
  | CPoolSet false => Some 7%nat
  | _ => None
  end.
Definition call_failed (c : hcall) : bool :=
  match c with
  | CFundFail | CElement false | CUpdate false | CElemUpdate false
  | CPoolParents false | CTxSet false | CPoolSet false => true
  | _ => false
  end.
Fixpoint ordered_body (k : kind) (last : nat) (l : list hcall) : bool :=
  match l with
  | [] => true
  | c :: l' =>
      match call_rank k c with
      | None => false
      | Some r => Nat.ltb last r &&
                  (if call_failed c then match l' with [] => true | _ => false end
                   else ordered_body k r l')
      end
  end.
Fixpoint funded_of (l : list hcall) : option nat :=
  match l with [] => None | CFund n :: _ => Some n | _ :: l' => funded_of l' end.
Fixpoint split_release (l : list hcall) : list hcall * option nat :=
  match l with
  | [] => ([], None)
  | [CRelease n] => ([], Some n)
  | c :: l' => let '(b, r) := split_release l' in (c :: b, r)
  end.
Definition admissible_failure (k : kind) (calls : list hcall) : bool :=
  let '(body, rel) := split_release calls in
  ordered_body k 0 body &&
  match funded_of body, rel with
  | Some n, Some m => Nat.eqb n m
  | Some n, None => Nat.eqb n 0
  | None, Some m => Nat.eqb m 0
  | None, None => true
  end.

(** ** Renter (rpc.go) *)
Record renter := mk_renter { r_key : N; r_wallet : wallet; r_contracts : list contract }.

Record renv := mk_renv {
  re_txset_ok : bool;   (* tp.V2TransactionSet *)
  re_dial_ok : bool;    (* openStream *)
  re_write1_ok : bool;  (* WriteRequest *)
  re_write3_ok : bool;  (* WriteResponse of the signatures *)
  re_parents : nat }.   (* unconfirmed parents of the renter's inputs *)

Inductive rcall := RFund (n : nat) | RFundFail | RRelease (n : nat).
Inductive rmsg := RReq (m : req) | RSigs (m : rsigs).

Record rout := mk_rout { ro_renter : renter; ro_ok : bool; ro_calls : list rcall; ro_sent : list rmsg;
                         ro_funded : list utxo }.

Definition r_set_wallet (r : renter) (w : wallet) : renter := mk_renter (r_key r) w (r_contracts r).

(** [signer.ReleaseInputs([]V2Transaction{txn})] where txn holds the renter's inputs and
    the host inputs appended so far *)
Definition r_fail (r : renter) (w : wallet) (sel : list utxo) (extra : list N)
    (calls : list rcall) (sent : list rmsg) (rel : bool) : rout :=
  if rel then
    let ids := uids sel ++ extra in
    mk_rout (r_set_wallet r (release w ids)) false
      (calls ++ [RRelease (count_in ids (uids sel))]) sent sel
  else mk_rout (r_set_wallet r w) false calls sent sel.

Definition renter_run (fixed : bool) (k : kind) (re : renv) (r : renter) (t : cterms)
    (m2 : option hinputs) (m4 : option final) : rout :=
  (* rpc.go:1059 / 1196 / 334 *)
  match fund (r_wallet r) (ct_rfund t) true with
  | None => mk_rout r false [RFundFail] [] []
  | Some (sel, w) =>
    let c0 := [RFund (length sel)] in
    (* 1064-1068 / 1201-1205 / 339-343 *)
    if negb (re_txset_ok re) then r_fail r w sel [] c0 [] true else
    (* 1076-1080: form releases; 1214-1217 / 352-355: renew and refresh did not *)
    if negb (re_dial_ok re) then r_fail r w sel [] c0 [] (fixed || negb (is_renewal k)) else
    let rq := mk_req t (map (λ u, (u_id u, u_val u)) sel) (re_parents re) in
    (* 1091-1094 *)
    if negb (re_write1_ok re) then r_fail r w sel [] c0 [] true else
    let s1 := [RReq rq] in
    (* 1096-1100 *)
    match m2 with
    | None => r_fail r w sel [] c0 s1 true
    | Some hi =>
      let extra := pids (hi_inputs hi) in
      (* the host's values are summed with AddWithOverflow (repair C16-3; Currency.Add
         panicked and kept the renter's inputs reserved): an overflowing sum is refused *)
      if (max_currency <? psum (hi_inputs hi)) then r_fail r w sel extra c0 s1 true else
      (* 1109-1111 / 1239-1241 / 377-379: the host must fund its share *)
      if (psum (hi_inputs hi) <? ct_hfund t) then r_fail r w sel extra c0 s1 true else
      let csig := Sig (r_key r) (MContract t) in
      let rsig := Sig (r_key r) (MRenewal t) in
      let sg := mk_rsigs csig rsig (length sel) in
      (* 1132-1135 *)
      if negb (re_write3_ok re) then r_fail r w sel extra c0 s1 true else
      let s2 := s1 ++ [RSigs sg] in
      (* 1138-1142 *)
      match m4 with
      | None => r_fail r w sel extra c0 s2 true
      | Some f =>
        (* 1144-1152: at least one transaction, exactly one contract / renewal *)
        if Nat.eqb (f_len f) 0 || negb (f_shape f) then r_fail r w sel extra c0 s2 true else
        let hc := at_contract (f_txn f) in
        if is_renewal k then
          (* 1302-1308: both host signatures over the locally computed hashes; the
             contract kept is the host's (1309-1313) *)
          if match co_hrsig hc with Some s => verify (ct_hk t) (MRenewal t) s | None => false end
             && verify (ct_hk t) (MContract t) (co_hsig hc)
          then mk_rout (mk_renter (r_key r) w (hc :: r_contracts r)) true c0 s2 sel
          else r_fail r w sel extra c0 s2 true
        else
          (* 1155-1160: transaction id (everything but signatures) must match;
             1163-1167: host signature over the locally built contract *)
          if bool_decide (co_terms hc = t ∧ at_rin (f_txn f) = uids sel ∧ at_hin (f_txn f) = extra)
             && verify (ct_hk t) (MContract t) (co_hsig hc)
          then mk_rout (mk_renter (r_key r) w
                          (mk_contract t csig (co_hsig hc) None None :: r_contracts r)) true c0 s2 sel
          else r_fail r w sel extra c0 s2 true
      end
    end
  end.

(** ** Both parties over a stream that may be cut at each of the four messages *)
Inductive chan := Deliver | Cut.
Record sched := mk_sched { s1 : chan; s2 : chan; s3 : chan; s4 : chan }.

Definition sent_req (l : list rmsg) : option req :=
  match l with RReq m :: _ => Some m | _ => None end.
Definition sent_sigs (l : list rmsg) : option rsigs :=
  match l with [_; RSigs m] => Some m | _ => None end.
Fixpoint sent_inputs (l : list hmsg) : option hinputs :=
  match l with [] => None | HInputs m :: _ => Some m | _ :: l' => sent_inputs l' end.
Fixpoint sent_final (l : list hmsg) : option final :=
  match l with [] => None | HFinal m :: _ => Some m | _ :: l' => sent_final l' end.
Definition via {A} (c : chan) (m : option A) : option A := match c with Deliver => m | Cut => None end.

Record aout := mk_aout { ao_host : hout; ao_renter : rout; ao_dialed : bool }.

(** The exchange alternates strictly, so the run is computed message by message: what a
    party sends next depends only on what it has received so far. *)
Definition attempt (fixed : bool) (k : kind) (e : env) (re : renv) (sc : sched)
    (h : host) (r : renter) (t : cterms) : aout :=
  let r0 := renter_run fixed k re r t None None in
  let dialed := match fund (r_wallet r) (ct_rfund t) true with
                | Some _ => re_txset_ok re && re_dial_ok re | None => false end in
  if negb dialed then mk_aout (mk_hout h false [] [] []) r0 false else
  let m1 := via (s1 sc) (sent_req (ro_sent r0)) in
  let h0 := host_run fixed k e h m1 None in
  let m2 := via (s2 sc) (sent_inputs (ho_sent h0)) in
  let r1 := renter_run fixed k re r t m2 None in
  let m3 := via (s3 sc) (sent_sigs (ro_sent r1)) in
  let h1 := host_run fixed k e h m1 m3 in
  let m4 := via (s4 sc) (sent_final (ho_sent h1)) in
  mk_aout h1 (renter_run fixed k re r t m2 m4) true.

(** ** Repeated attempts against one host (scripted renters: any messages) *)
Record hattempt := mk_hattempt { ha_kind : kind; ha_env : env; ha_m1 : option req; ha_m2 : option rsigs }.

Fixpoint host_attempts (fixed : bool) (h : host) (l : list hattempt) : host * list bool :=
  match l with
  | [] => (h, [])
  | a :: l' =>
      let o := host_run fixed (ha_kind a) (ha_env a) h (ha_m1 a) (ha_m2 a) in
      let '(h', oks) := host_attempts fixed (ho_host o) l' in (h', ho_ok o :: oks)
  end.
