(** * RHP/RenterProofs.v — what a successful renter RPC is bound to (C10).
    All statements are about the [client_*] functions of RHP/Renter.v, whose
    control flow ([*_decide]) is the part validated against rhp/v4/rpc.go by
    Run/Run_C10.v. *)
From stdpp Require Import prelude.
From Coq Require Import NArith Lia.
From CV Require Import RHP.Renter.
Open Scope N_scope.

(** ** Tactics: peel the cascade of checks of a decision function *)
Ltac peel1 :=
  match goal with
  | H : Err = Ok _ |- _ => discriminate H
  | H : (if ?b then Err else _) = Ok _ |- _ => destruct b eqn:?; [discriminate H|]
  | H : (if ?b then _ else Err) = Ok _ |- _ => destruct b eqn:?; [|discriminate H]
  | H : match ?x with Some _ => _ | None => Err end = Ok _ |- _ => destruct x eqn:?; [|discriminate H]
  | H : match ?x with Ok _ => _ | Err => Err end = Ok _ |- _ => destruct x eqn:?; [|discriminate H]
  | H : (let '(_, _) := ?x in _) = Ok _ |- _ => destruct x
  end.
Ltac peel := repeat peel1.

Ltac boolf :=
  repeat match goal with
  | H : negb _ = false |- _ => apply negb_false_iff in H
  | H : negb _ = true |- _ => apply negb_true_iff in H
  | H : _ && _ = true |- _ => apply andb_true_iff in H; destruct H
  | H : _ || _ = false |- _ => apply orb_false_iff in H; destruct H
  | H : (_ =? _) = true |- _ => apply N.eqb_eq in H
  | H : (_ =? _) = false |- _ => apply N.eqb_neq in H
  | H : (_ <? _) = false |- _ => apply N.ltb_ge in H
  | H : (_ <? _) = true |- _ => apply N.ltb_lt in H
  | H : (_ <=? _) = false |- _ => apply N.leb_gt in H
  | H : bool_decide _ = true |- _ => apply bool_decide_eq_true in H
  end.

Lemma len_length {A} (l : list A) n : len l = n → length l = N.to_nat n.
Proof. unfold len. lia. Qed.

(** ** Merkle binding: the root is a free constructor *)

Global Instance HL_inj : Inj (=) (=) HL.
Proof. by intros ?? [=]. Qed.

(** a verifying range proof pins the data to the range of whatever hashes to that root *)
Lemma range_binds (pre post : list ldig) (data ls : list leaf) (start n : nat) :
  pre ++ (HL <$> data) ++ post = HL <$> ls → length pre = start → length data = n →
  data = take n (drop start ls).
Proof.
  intros H Hp Hd.
  apply (f_equal (drop start)) in H. rewrite drop_app_alt in H by done.
  apply (f_equal (take n)) in H. rewrite take_app_alt in H by (by rewrite fmap_length).
  rewrite <- fmap_drop, <- fmap_take in H.
  by apply (inj (fmap HL)) in H.
Qed.

Lemma roots_bind (pre post roots rs : list sroot) (start n : nat) :
  pre ++ roots ++ post = rs → length pre = start → length roots = n → roots = take n (drop start rs).
Proof.
  intros <- Hp Hd. rewrite drop_app_alt by done. by rewrite take_app_alt.
Qed.

Lemma verify_range_sound pre post data start end_ ls :
  verify_range pre post data start end_ (SR (HL <$> ls)) = true →
  data = slice ls start (end_ - start) ∧ len ls = leaves_per_sector.
Proof.
  unfold verify_range. intros H. boolf.
  match goal with H : SR _ = SR _ |- _ => injection H as Hl end.
  split.
  - unfold slice. symmetry in Hl. eapply range_binds; eauto using len_length.
  - rewrite <- Hl in *. unfold len in *. by rewrite fmap_length in *.
Qed.

(** ** C10_read_bound *)
Lemma read_inv p r res : client_read p r = Ok res →
  ∃ rr, r = Some rr ∧ rp_auth p = true ∧ rr_datalen rr = rp_length p
    ∧ rp_length p ≠ 0 ∧ rp_offset p + rp_length p ≤ sector_size
    ∧ (rp_offset p + rp_length p) mod leaf_size = 0 ∧ rp_length p mod leaf_size = 0
    ∧ rp_length p ≤ leaf_size * len (rr_stream rr) + rr_tail rr
    ∧ verify_range (rr_pre rr) (rr_post rr) (take (N.to_nat (rp_length p / leaf_size)) (rr_stream rr))
        (read_start p) (read_end p) (rp_root p) = true
    ∧ res = mk_read_result (take (N.to_nat (rp_length p / leaf_size)) (rr_stream rr))
              (read_cost (rp_egress p) (rp_length p)).
Proof.
  unfold client_read, read_decide. intros H. destruct r as [rr|].
  - peel. boolf. simplify_eq. exists rr.
    match goal with H : rr_datalen rr = _ |- _ => rewrite H in * end.
    repeat split; try done; try lia.
  - peel; simpl in *; discriminate.
Qed.

Lemma aligned_range offset length :
  (offset + length) mod leaf_size = 0 → length mod leaf_size = 0 →
  offset mod leaf_size = 0
  ∧ (offset + length + leaf_size - 1) / leaf_size - offset / leaf_size = length / leaf_size.
Proof.
  unfold leaf_size. intros H1 H2.
  assert (Ho : offset mod 64 = 0).
  { pose proof (N.add_mod offset length 64 ltac:(lia)) as E. rewrite H1, H2, N.add_0_r in E.
    rewrite N.mod_mod in E by lia. done. }
  split; [done|].
  apply (N.div_exact _ 64 ltac:(lia)) in Ho, H2.
  set (a := offset / 64) in *. set (b := length / 64) in *. rewrite Ho, H2.
  replace (64 * a + 64 * b + 64 - 1) with (63 + (a + b) * 64) by lia.
  rewrite N.div_add by lia. change (63 / 64) with 0. lia.
Qed.

Theorem read_bound p r res ls :
  client_read p r = Ok res → rp_root p = SR (HL <$> ls) →
  rd_delivered res = slice ls (rp_offset p / leaf_size) (rp_length p / leaf_size)
  ∧ rp_offset p mod leaf_size = 0 ∧ rp_length p mod leaf_size = 0
  ∧ rd_usage res = read_cost (rp_egress p) (rp_length p).
Proof.
  intros H Hroot. apply read_inv in H as (rr & -> & _ & _ & _ & _ & Ha & Hl & _ & Hv & ->).
  rewrite Hroot in Hv. apply verify_range_sound in Hv as [Hv _].
  destruct (aligned_range _ _ Ha Hl) as [Ho Hn].
  unfold read_start, read_end in Hv. rewrite Hn in Hv. simpl. auto.
Qed.

(** ** C10_write_bound *)
Theorem write_bound p r res :
  wp_extra p < leaf_size →          (* the bytes beyond whole leaves: by definition fewer than a leaf *)
  client_write p r = Ok res →
  wr_root res = SR (HL <$> padded (wp_data p))
  ∧ len (padded (wp_data p)) = leaves_per_sector
  ∧ wp_extra p = 0
  ∧ wr_usage res = write_usage (wp_storage p) (wp_ingress p) (wp_length p).
Proof.
  unfold client_write, write_decide. intros Hex H.
  destruct r as [root|]; simpl in H; peel; boolf; simplify_eq; simpl.
  unfold wp_length, leaf_size, sector_size in *.
  assert (Hx : wp_extra p = 0).
  { match goal with H : (_ + _) mod 64 = 0 |- _ => rewrite N.add_comm, N.mul_comm, N.mod_add in H by lia; rewrite N.mod_small in H by done; exact H end. }
  assert (Hlen : len (wp_data p) ≤ 65536) by lia.
  repeat split; try done.
  unfold padded, len, leaves_per_sector in *. rewrite app_length, replicate_length. lia.
Qed.

(** ** C10_verify_bound *)
Lemma take1_drop_lookup {A} (l : list A) i x : take 1 (drop i l) = [x] → l !! i = Some x.
Proof.
  intros H. rewrite <- (Nat.add_0_r i), <- lookup_drop. destruct (drop i l); simplify_eq/=; done.
Qed.

Theorem verify_bound p r u ls :
  client_verify p r = Ok u → vp_root p = SR (HL <$> ls) →
  ∃ rr, r = Some rr ∧ ls !! N.to_nat (vp_index p) = Some (vr_leaf rr) ∧ u = verify_cost (vp_egress p).
Proof.
  unfold client_verify, verify_decide. intros H Hroot. destruct r as [rr|]; peel; simpl in *; try discriminate.
  boolf. simplify_eq. exists rr. split; [done|]. split; [|done].
  rewrite Hroot in *. match goal with H : verify_range _ _ _ _ _ _ = true |- _ => apply verify_range_sound in H as [H _] end.
  unfold slice in *. replace (N.to_nat (vp_index p + 1 - vp_index p)) with 1%nat in * by lia.
  by apply take1_drop_lookup.
Qed.

(** ** Revisions: signatures and prices *)
Definition signed_by_both (c : contract) (r : rev_result) : Prop :=
  rr_hsig r = Sig (c_hk c) (sighash c (rr_view r)) ∧ rr_rsig r = Sig (c_rk c) (sighash c (rr_view r)).

(** the revision moves exactly [cost] from the renter to the host, lowers the
    host's missed payout by exactly [coll], bumps the revision number, and the
    reported usage says the same *)
Definition charged (c : contract) (r : rev_result) (cost coll : N) : Prop :=
  v_renter (c_view c) = v_renter (rr_view r) + cost
  ∧ v_host (rr_view r) = v_host (c_view c) + cost
  ∧ v_missed (c_view c) = v_missed (rr_view r) + coll
  ∧ v_revnum (rr_view r) = v_revnum (c_view c) + 1
  ∧ v_exp (rr_view r) = v_exp (c_view c)
  ∧ renter_cost (rr_usage r) = cost ∧ u_collateral (rr_usage r) = coll.

Definition contract_signed (c : contract) : Prop :=
  c_hsig c = Sig (c_hk c) (sighash c (c_view c)) ∧ c_rsig c = Sig (c_rk c) (sighash c (c_view c)).

Lemma pay_spec {R} (v v' : view R) u : pay v u = Some v' →
  v_renter v = v_renter v' + renter_cost u ∧ v_host v' = v_host v + renter_cost u
  ∧ v_missed v = v_missed v' + u_collateral u ∧ v_revnum v' = v_revnum v + 1 ∧ v_exp v' = v_exp v
  ∧ v_root v' = v_root v ∧ v_filesize v' = v_filesize v ∧ v_capacity v' = v_capacity v.
Proof.
  unfold pay. intros H. repeat case_match; simplify_eq/=. boolf. repeat split; lia.
Qed.

Lemma host_signed_spec c v s : host_signed c v s = true → s = Sig (c_hk c) (sighash c v).
Proof. unfold host_signed, verify_sig. intros H. by boolf. Qed.

Lemma signed_result_spec c v s u cost coll :
  host_signed c v s = true →
  v_renter (c_view c) = v_renter v + cost → v_host v = v_host (c_view c) + cost →
  v_missed (c_view c) = v_missed v + coll → v_revnum v = v_revnum (c_view c) + 1 → v_exp v = v_exp (c_view c) →
  renter_cost u = cost → u_collateral u = coll →
  signed_by_both c (signed_result c v s u) ∧ charged c (signed_result c v s u) cost coll.
Proof.
  intros Hs%host_signed_spec. intros. unfold signed_by_both, charged, signed_result. simpl. rewrite Hs. repeat split; done.
Qed.

(** *** RPCSectorRoots *)
Definition roots_ok (c : contract) (sp : signed_prices) (offset length : N) (r : option roots_resp)
    (v' : view croot) (u : usage) (rr : roots_resp) : Prop :=
  r = Some rr ∧ revise_roots (c_view c) (sp_prices sp) length = Some (v', u) ∧ prices_valid (c_hk c) sp = true ∧ length ≠ 0
  ∧ offset + length ≤ v_filesize (c_view c) / sector_size ∧ length ≤ max_sector_batch
  ∧ len (or_roots rr) = length
  ∧ verify_roots (or_pre rr) (or_post rr) (or_roots rr) (num_sectors_up c) offset (offset + length) (v_root (c_view c)) = true
  ∧ host_signed c v' (or_sig rr) = true.

Lemma core_verify_roots_true pre post roots n s e root :
  vres_ok (core_verify_roots pre post roots n s e root) = true → n ≠ 0 → verify_roots pre post roots n s e root = true.
Proof.
  unfold core_verify_roots. intros H Hn. apply N.eqb_neq in Hn. rewrite Hn in H.
  repeat case_match; simpl in *; done.
Qed.

Lemma num_sectors_up_ge c : v_filesize (c_view c) / sector_size ≤ num_sectors_up c.
Proof. unfold num_sectors_up, sector_size. apply N.div_le_mono; lia. Qed.

Lemma roots_inv t c sp offset length r res roots :
  client_roots t c sp offset length r = Ok (res, roots) →
  ∃ v' u rr, roots_ok c sp offset length r v' u rr ∧ res = signed_result c v' (or_sig rr) u ∧ roots = or_roots rr.
Proof.
  unfold client_roots, roots_decide. intros H. destruct r as [rr|]; peel; simpl in *; try discriminate.
  boolf. simplify_eq. eexists _, _, rr. split; [|done]. unfold roots_ok.
  match goal with H : revise_roots _ _ _ = Some (?v, _) |- _ =>
    assert (v_filesize v = v_filesize (c_view c)) as Hfs
      by (unfold revise_roots in H; destruct (pay _ _) eqn:Hp; simplify_eq/=; by apply pay_spec in Hp as (_&_&_&_&_&_&?&_)) end.
  rewrite Hfs in *. repeat split; try done; try lia.
  apply core_verify_roots_true; [done|]. pose proof (num_sectors_up_ge c). lia.
Qed.

Theorem roots_bound t c sp offset length r res roots rs :
  client_roots t c sp offset length r = Ok (res, roots) → v_root (c_view c) = CR rs →
  roots = slice rs offset length
  ∧ v_root (rr_view res) = CR rs ∧ v_filesize (rr_view res) = v_filesize (c_view c)
  ∧ v_capacity (rr_view res) = v_capacity (c_view c).
Proof.
  intros (v' & u & rr & (-> & Hrev & _ & _ & _ & _ & Hlen & Hv & _) & -> & ->)%roots_inv Hroot.
  unfold verify_roots in Hv. boolf. rewrite Hroot in *. simplify_eq.
  unfold revise_roots in Hrev. destruct (pay _ _) eqn:Hp; simplify_eq/=.
  apply pay_spec in Hp as (_&_&_&_&_&Hr&Hf&Hc). rewrite Hr, Hf, Hc, Hroot. repeat split; try done.
  unfold slice. eapply roots_bind; [done|by apply len_length|].
  apply len_length. match goal with H : len (or_roots rr) = _ + _ - _ |- _ => rewrite H end. lia.
Qed.

Lemma roots_signed_priced t c sp offset length r res roots :
  client_roots t c sp offset length r = Ok (res, roots) →
  signed_by_both c res ∧ charged c res (p_egress (sp_prices sp) * round4k (32 * length)) 0.
Proof.
  intros (v' & u & rr & (-> & Hrev & _ & _ & _ & _ & _ & _ & Hs) & -> & ->)%roots_inv.
  unfold revise_roots in Hrev. destruct (pay _ _) eqn:Hp; simplify_eq/=.
  apply pay_spec in Hp as (?&?&?&?&?&_). unfold roots_usage, renter_cost in *; simpl in *.
  apply signed_result_spec; try done; unfold renter_cost; simpl; lia.
Qed.

(** *** RPCAppendSectors *)
Definition append_growth (c : contract) (appended : N) : N :=
  appended - N.min appended ((v_capacity (c_view c) - v_filesize (c_view c)) / sector_size).
Definition append_duration (c : contract) (p : prices) : N := (v_exp (c_view c) + two64 - p_tip p) mod two64.

Definition append_ok (c : contract) (p : prices) (roots : list sroot) (r1 : option append_resp) (r3 : option sig)
    (v' : view croot) (u : usage) (ar : append_resp) (hs : sig) : Prop :=
  r1 = Some ar ∧ r3 = Some hs ∧ len (ar_accepted ar) = len roots
  ∧ verify_append (num_sectors_up c) (ar_old ar) (pick roots (ar_accepted ar)) (v_root (c_view c)) (ar_newroot ar) = true
  ∧ revise_append (c_view c) p (ar_newroot ar) (len (pick roots (ar_accepted ar))) = Some (v', u)
  ∧ host_signed c v' hs = true.

Lemma append_inv t c p roots r1 r3 res secs :
  client_append t c p roots r1 r3 = Ok (res, secs) →
  ∃ v' u ar hs, append_ok c p roots r1 r3 v' u ar hs ∧ res = signed_result c v' hs u
    ∧ secs = pick roots (ar_accepted ar).
Proof.
  unfold client_append, append_decide. intros H. destruct r1 as [ar|]; peel; simpl in *; try discriminate.
  boolf. simplify_eq. destruct r3 as [hs|]; [|by match goal with H : is_Some None |- _ => destruct H end].
  eexists _, _, ar, hs. unfold append_ok. simpl in *. repeat split; done.
Qed.

Theorem append_bound t c p roots r1 r3 res secs rs :
  client_append t c p roots r1 r3 = Ok (res, secs) → v_root (c_view c) = CR rs →
  v_root (rr_view res) = CR (rs ++ secs)
  ∧ (∃ accepted, length accepted = length roots ∧ secs = pick roots accepted)
  ∧ len rs = num_sectors_up c
  ∧ v_filesize (rr_view res) = v_filesize (c_view c) + sector_size * len secs
  ∧ v_capacity (rr_view res) = v_capacity (c_view c) + sector_size * append_growth c (len secs).
Proof.
  intros (v' & u & ar & hs & (-> & -> & Hl & Hv & Hrev & _) & -> & ->)%append_inv Hroot.
  unfold verify_append in Hv. boolf. rewrite Hroot in *. simplify_eq.
  unfold revise_append in Hrev. destruct (pay _ _) eqn:Hp; simplify_eq/=.
  apply pay_spec in Hp as (_&_&_&_&_&Hr&Hf&Hc). simpl in *. rewrite Hr, Hf, Hc.
  match goal with H : ar_newroot ar = _ |- _ => rewrite H end.
  repeat split; try done.
  exists (ar_accepted ar). split; [|done]. unfold len in Hl. lia.
Qed.

Lemma append_signed_priced t c p roots r1 r3 res secs :
  client_append t c p roots r1 r3 = Ok (res, secs) →
  let g := append_growth c (len secs) in let d := append_duration c p in
  signed_by_both c res
  ∧ charged c res (p_storage p * sector_size * g * d + p_ingress p * round4k (32 * g)) (p_collateral p * sector_size * g * d).
Proof.
  intros (v' & u & ar & hs & (-> & -> & _ & _ & Hrev & Hs) & -> & ->)%append_inv. simpl.
  unfold revise_append in Hrev. destruct (pay _ _) eqn:Hp; simplify_eq/=.
  apply pay_spec in Hp as (?&?&?&?&?&_). simpl in *.
  apply signed_result_spec; try done; unfold append_usage, renter_cost, append_growth, append_duration in *; simpl in *; lia.
Qed.

(** *** RPCFreeSectors *)
Definition free_ok (c : contract) (p : prices) (idxs : list N) (r1 : option free_resp) (r3 : option sig)
    (v' : view croot) (u : usage) (fr : free_resp) (hs : sig) : Prop :=
  r1 = Some fr ∧ r3 = Some hs
  ∧ verify_free (v_filesize (c_view c) / sector_size) (fr_old fr) (normalize idxs) (v_root (c_view c)) (fr_newroot fr) = true
  ∧ revise_free (c_view c) p (fr_newroot fr) (len (normalize idxs)) = Some (v', u)
  ∧ host_signed c v' hs = true.

Lemma free_inv t c p idxs r1 r3 res :
  client_free t c p idxs r1 r3 = Ok res →
  ∃ v' u fr hs, free_ok c p idxs r1 r3 v' u fr hs ∧ res = signed_result c v' hs u.
Proof.
  unfold client_free, free_decide. intros H. destruct r1 as [fr|]; peel; simpl in *; try discriminate.
  boolf. simplify_eq. destruct r3 as [hs|]; [|by match goal with H : is_Some None |- _ => destruct H end].
  eexists _, _, fr, hs. unfold free_ok. simpl in *. repeat split; try done.
  match goal with H : vres_ok (core_verify_free _ _ _ _ _) = true |- _ => unfold core_verify_free in H; repeat case_match; simpl in *; done end.
Qed.

(** strictly descending *)
Fixpoint desc (l : list N) : Prop :=
  match l with [] => True | x :: t => Forall (λ y, y < x) t ∧ desc t end.

Lemma insert_desc_Forall (P : N → Prop) x l : P x → Forall P l → Forall P (insert_desc x l).
Proof.
  intros Hx. induction 1 as [|y t Hy Ht IH]; simpl; [by constructor|].
  repeat case_match; repeat constructor; auto.
Qed.

Lemma insert_desc_desc x l : desc l → desc (insert_desc x l).
Proof.
  induction l as [|y t IH]; simpl; [by split|]. intros [Hy Ht].
  destruct (y <? x) eqn:E1; [|destruct (y =? x) eqn:E2]; boolf; simpl.
  - split; [|done]. constructor; [done|]. eapply Forall_impl; [exact Hy|]. simpl. lia.
  - done.
  - split; [|auto]. apply insert_desc_Forall; [lia|done].
Qed.

Lemma normalize_desc l : desc (normalize l).
Proof. induction l; simpl; [done|by apply insert_desc_desc]. Qed.

(** core's swap-and-trim on a strictly descending in-range index list is the
    plain list model "overwrite with the last element, drop the last element" *)
Lemma swap_at_length {A} (l : list A) i j : length (swap_at l i j) = length l.
Proof. unfold swap_at. repeat case_match; by rewrite ?insert_length. Qed.

Lemma free_swaps_length {A} idxs : ∀ (l : list A) last, length (free_swaps l idxs last) = length l.
Proof. induction idxs; simpl; intros; [done|]. by rewrite IHidxs, swap_at_length. Qed.

Lemma swap_at_last {A} (l : list A) i :
  (i < length l)%nat → take (pred (length l)) (swap_at l i (pred (length l))) = swap_remove l i.
Proof.
  intros Hi. unfold swap_at, swap_remove. rewrite last_lookup.
  destruct (lookup_lt_is_Some_2 l i Hi) as [x Hx].
  destruct (lookup_lt_is_Some_2 l (pred (length l)) ltac:(lia)) as [y Hy].
  rewrite Hx, Hy. by rewrite take_insert by lia.
Qed.

Lemma swap_at_take {A} (l : list A) i j m :
  (i < m)%nat → (j < m)%nat → (m ≤ length l)%nat → take m (swap_at l i j) = swap_at (take m l) i j.
Proof.
  intros Hi Hj Hm. unfold swap_at. rewrite !lookup_take by done.
  repeat case_match; try done. by rewrite !take_insert_lt by done.
Qed.

Lemma free_swaps_take {A} idxs : ∀ (l : list A) last m,
  Forall (λ i, N.to_nat i < m)%nat idxs → (last < m)%nat → (m ≤ length l)%nat →
  take m (free_swaps l idxs last) = free_swaps (take m l) idxs last.
Proof.
  induction idxs as [|a t IH]; simpl; intros l last m Hall Hl Hm; [done|].
  inversion_clear Hall. rewrite IH; [|done|lia|by rewrite swap_at_length]. by rewrite swap_at_take.
Qed.

Lemma swap_remove_length {A} (l : list A) i : l ≠ [] → length (swap_remove l i) = pred (length l).
Proof.
  intros Hne. unfold swap_remove. rewrite last_lookup.
  destruct (lookup_lt_is_Some_2 l (pred (length l))) as [y ->]; [destruct l; simpl; [done|lia]|].
  rewrite take_length, insert_length. lia.
Qed.

Lemma free_apply_swap_remove {A} idxs : ∀ (l : list A),
  desc idxs → Forall (λ i, N.to_nat i < length l)%nat idxs →
  free_apply l idxs = swap_remove_all l idxs.
Proof.
  unfold free_apply, swap_remove_all.
  induction idxs as [|a t IH]; intros l Hd Hall; simpl.
  - rewrite Nat.sub_0_r. by rewrite take_ge.
  - destruct Hd as [Hlt Hd]. inversion_clear Hall as [|?? Ha Ht].
    assert (Hne : l ≠ []) by (destruct l; simpl in *; [lia|done]).
    assert (Ht' : Forall (λ i, N.to_nat i < pred (length l))%nat t).
    { rewrite Forall_forall in *. intros i Hi. specialize (Hlt i Hi). simpl in Hlt. lia. }
    rewrite <- IH; [|done|by rewrite swap_remove_length].
    rewrite swap_remove_length by done. rewrite <- swap_at_last by done.
    destruct t as [|b t'].
    + simpl. rewrite take_take. f_equal. lia.
    + assert (1 < length l)%nat by (inversion_clear Ht'; lia).
      rewrite <- free_swaps_take; [|done|lia|rewrite swap_at_length; lia].
      rewrite take_take. f_equal. simpl. lia.
Qed.

Theorem free_bound t c p idxs r1 r3 res rs :
  client_free t c p idxs r1 r3 = Ok res → v_root (c_view c) = CR rs →
  let norm := normalize idxs in
  v_root (rr_view res) = CR (swap_remove_all rs norm)
  ∧ swap_remove_all rs norm = free_apply rs norm
  ∧ desc norm ∧ Forall (λ i, i < len rs) norm
  ∧ len rs = v_filesize (c_view c) / sector_size
  ∧ v_filesize (rr_view res) = v_filesize (c_view c) - sector_size * len norm
  ∧ v_capacity (rr_view res) = v_capacity (c_view c).
Proof.
  intros (v' & u & fr & hs & (-> & -> & Hv & Hrev & _) & ->)%free_inv Hroot. simpl.
  unfold verify_free in Hv. boolf. rewrite Hroot in *. simplify_eq.
  unfold revise_free in Hrev. destruct (pay _ _) eqn:Hp; simplify_eq/=.
  apply pay_spec in Hp as (_&_&_&_&_&_&Hf&Hc). simpl in *. rewrite Hf, Hc.
  assert (Hall : Forall (λ i, i < len (fr_old fr)) (normalize idxs)).
  { match goal with H : forallb _ _ = true |- _ => rewrite forallb_forall in H; rename H into Hfa end.
    rewrite Forall_forall. intros i Hi%elem_of_list_In. apply Hfa in Hi. boolf.
    match goal with H : len (fr_old fr) = _ |- _ => rewrite H end. done. }
  assert (Heq : free_apply (fr_old fr) (normalize idxs) = swap_remove_all (fr_old fr) (normalize idxs)).
  { apply free_apply_swap_remove; [apply normalize_desc|]. eapply Forall_impl; [exact Hall|]. unfold len. simpl. lia. }
  match goal with H : fr_newroot fr = _ |- _ => rewrite H end.
  rewrite Heq. repeat split; try done. apply normalize_desc.
Qed.

Lemma free_signed_priced t c p idxs r1 r3 res :
  client_free t c p idxs r1 r3 = Ok res →
  signed_by_both c res ∧ charged c res (p_free p * len (normalize idxs)) 0.
Proof.
  intros (v' & u & fr & hs & (-> & -> & _ & Hrev & Hs) & ->)%free_inv.
  unfold revise_free in Hrev. destruct (pay _ _) eqn:Hp; simplify_eq/=.
  apply pay_spec in Hp as (?&?&?&?&?&_). simpl in *.
  apply signed_result_spec; try done; unfold free_usage, renter_cost in *; simpl in *; lia.
Qed.

(** *** RPCFundAccounts *)
Definition fund_ok (c : contract) (deposits : list (N * N)) (r : option fund_resp)
    (v' : view croot) (u : usage) (fr : fund_resp) : Prop :=
  r = Some fr ∧ revise_fund (c_view c) (sum_N (deposits.*2)) = Some (v', u)
  ∧ deposits ≠ [] ∧ len deposits ≤ max_account_batch
  ∧ Forall (λ d, d.1 ≠ 0 ∧ d.2 ≠ 0) deposits
  ∧ len (fd_balances fr) = len deposits
  ∧ host_signed c v' (fd_sig fr) = true.

Lemma existsb_eqb0_false (l : list N) : existsb (N.eqb 0) l = false → Forall (λ x, x ≠ 0) l.
Proof.
  induction l; cbn [existsb]; intros H; [constructor|]. boolf. constructor; [lia|auto].
Qed.

Lemma fund_inv t c deposits r res bal :
  client_fund t c deposits r = Ok (res, bal) →
  ∃ v' u fr, fund_ok c deposits r v' u fr ∧ res = signed_result c v' (fd_sig fr) u
    ∧ bal = zip (deposits.*1) (fd_balances fr).
Proof.
  unfold client_fund, fund_decide. intros H. destruct r as [fr|]; peel; simpl in *; try discriminate.
  boolf. simplify_eq. eexists _, _, fr. split; [|done]. unfold fund_ok. unfold len in *. rewrite fmap_length in *.
  repeat split; try done; try lia.
  - intros ->. simpl in *. lia.
  - repeat match goal with H : existsb _ _ = false |- _ => apply existsb_eqb0_false in H end.
    rewrite Forall_fmap in *. rewrite Forall_forall in *. intros d Hd.
    split; [by apply (Heqb1 d)|by apply (Heqb2 d)].
Qed.

Lemma fund_signed_priced t c deposits r res bal :
  client_fund t c deposits r = Ok (res, bal) →
  signed_by_both c res ∧ charged c res (sum_N (deposits.*2)) 0
  ∧ v_root (rr_view res) = v_root (c_view c) ∧ v_filesize (rr_view res) = v_filesize (c_view c)
  ∧ bal.*1 = deposits.*1.
Proof.
  intros (v' & u & fr & (-> & Hrev & _ & _ & _ & Hl & Hs) & -> & ->)%fund_inv.
  unfold revise_fund in Hrev. destruct (pay _ _) eqn:Hp; simplify_eq/=.
  apply pay_spec in Hp as (?&?&?&?&?&?&?&?). simpl in *.
  assert (Hsp := signed_result_spec c v' (fd_sig fr) (funding_usage (sum_N deposits.*2)) (sum_N deposits.*2) 0).
  destruct Hsp as [Hsb Hch]; try done; try (unfold funding_usage, renter_cost in *; simpl in *; lia).
  split; [exact Hsb|]. split; [exact Hch|]. split; [done|]. split; [done|].
  apply fst_zip. unfold len in *. rewrite fmap_length. lia.
Qed.

(** *** RPCReplenishAccounts *)
Lemma sum_bound (l : list N) t : Forall (λ d, d ≤ t) l → sum_N l ≤ t * len l.
Proof.
  unfold len. induction 1 as [|d l Hd Hl IH]; simpl; [lia|]. unfold sum_N in *. simpl. lia.
Qed.

Lemma existsb_gt_false (l : list N) t : existsb (λ d, t <? d) l = false → Forall (λ d, d ≤ t) l.
Proof.
  induction l; cbn [existsb]; intros H; [constructor|]. boolf. constructor; [lia|auto].
Qed.

Definition replenish_ok (c : contract) (accounts : list N) (target : N) (r1 : option (list (N * N))) (r3 : option sig)
    (deposits : list (N * N)) : Prop :=
  r1 = Some deposits ∧ accounts ≠ [] ∧ len accounts ≤ max_account_batch ∧ Forall (λ a, a ≠ 0) accounts ∧ target ≠ 0
  ∧ len deposits = len accounts ∧ Forall (λ d, d.2 ≤ target) deposits.

Lemma replenish_inv t c accounts target r1 r3 res deps :
  client_replenish t c accounts target r1 r3 = Ok (res, deps) →
  replenish_ok c accounts target r1 r3 deps
  ∧ ((sum_N (deps.*2) = 0 ∧ res = mk_rev_result (c_view c) (c_rsig c) (c_hsig c) usage0)
     ∨ (sum_N (deps.*2) ≠ 0 ∧ ∃ v' u hs, r3 = Some hs ∧ revise_fund (c_view c) (sum_N (deps.*2)) = Some (v', u)
          ∧ host_signed c v' hs = true ∧ res = signed_result c v' hs u)).
Proof.
  unfold client_replenish, replenish_decide. intros H.
  destruct r1 as [deposits|]; [|repeat case_match; discriminate].
  destruct (existsb (N.eqb 0) accounts) eqn:Hz; [simpl in H; discriminate|].
  apply existsb_eqb0_false in Hz.
  set (hs0 := default (SigX 0) r3) in *.
  assert (Hok : ∀ x, (if len accounts =? 0 then Err
      else if max_account_batch <? len accounts then Err
      else if target =? 0 then Err
      else if negb true then Err
      else if negb (len (deposits.*2) =? len accounts) then Err
      else if existsb (λ d, target <? d) (deposits.*2) then Err
      else x) = (Ok (res, deps) : result (rev_result * list (N * N))) →
      replenish_ok c accounts target (Some deposits) r3 deposits ∧ x = Ok (res, deps)).
  { intros x Hx. peel. boolf. split; [|done]. unfold replenish_ok.
    match goal with H : existsb _ _ = false |- _ => apply existsb_gt_false in H; rewrite Forall_fmap in H end.
    unfold len in *. rewrite fmap_length in *. repeat split; try done; try lia.
    intros ->. simpl in *. lia. }
  match type of H with match ?d with _ => _ end = _ => destruct d as [[[v'|] u]|] eqn:Hd end; try discriminate.
  - (* revised *)
    simplify_eq. revert Hd. intros Hd.
    repeat (case_match; try discriminate); simplify_eq.
    all: boolf.
    all: try (split; [unfold replenish_ok; unfold len in *; rewrite ?fmap_length in *; repeat split; try done; try lia;
                       [intros ->; simpl in *; lia | match goal with H : existsb _ _ = false |- _ => apply existsb_gt_false in H; by rewrite Forall_fmap in H end]|]).
    all: right; split; [lia|].
    all: destruct r3 as [hs|]; [|by match goal with H : is_Some None |- _ => destruct H end].
    all: eexists _, _, hs; repeat split; done.
  - simplify_eq.
    repeat (case_match; try discriminate); simplify_eq.
    all: boolf.
    all: split; [unfold replenish_ok; unfold len in *; rewrite ?fmap_length in *; repeat split; try done; try lia;
                       [intros ->; simpl in *; lia | match goal with H : existsb _ _ = false |- _ => apply existsb_gt_false in H; by rewrite Forall_fmap in H end]|].
    all: left; split; done.
Qed.

Theorem replenish_cost_bound t c accounts target r1 r3 res deps :
  client_replenish t c accounts target r1 r3 = Ok (res, deps) →
  Forall (λ d, d.2 ≤ target) deps
  ∧ len deps = len accounts
  ∧ sum_N (deps.*2) ≤ target * len accounts
  ∧ v_renter (c_view c) = v_renter (rr_view res) + sum_N (deps.*2)
  ∧ v_host (rr_view res) = v_host (c_view c) + sum_N (deps.*2)
  ∧ renter_cost (rr_usage res) = sum_N (deps.*2).
Proof.
  intros [(_ & _ & _ & _ & _ & Hl & Hall) Hc]%replenish_inv.
  assert (Hb : sum_N deps.*2 ≤ target * len accounts).
  { rewrite <- Hl. replace (len deps) with (len (deps.*2)) by (unfold len; by rewrite fmap_length).
    apply sum_bound. by rewrite Forall_fmap. }
  split; [done|]. split; [done|]. split; [done|].
  destruct Hc as [[Hz ->]|[Hnz (v' & u & hs & -> & Hrev & Hs & ->)]]; simpl.
  - rewrite Hz. unfold renter_cost. simpl. lia.
  - unfold revise_fund in Hrev. destruct (pay _ _) eqn:Hp; simplify_eq/=.
    apply pay_spec in Hp as (?&?&_). unfold funding_usage, renter_cost in *. simpl in *. lia.
Qed.

Lemma replenish_signed_priced t c accounts target r1 r3 res deps :
  client_replenish t c accounts target r1 r3 = Ok (res, deps) → contract_signed c →
  signed_by_both c res
  ∧ (charged c res (sum_N (deps.*2)) 0
     ∨ (sum_N (deps.*2) = 0 ∧ rr_view res = c_view c ∧ rr_usage res = usage0))
  ∧ v_root (rr_view res) = v_root (c_view c) ∧ v_filesize (rr_view res) = v_filesize (c_view c).
Proof.
  intros [_ Hc]%replenish_inv [Hh Hr].
  destruct Hc as [[Hz ->]|[Hnz (v' & u & hs & -> & Hrev & Hs & ->)]]; simpl.
  - split; [by split|]. split; [right; done|done].
  - unfold revise_fund in Hrev. destruct (pay _ _) eqn:Hp; simplify_eq/=.
    apply pay_spec in Hp as (?&?&?&?&?&?&?&?). simpl in *.
    assert (Hsp := signed_result_spec c v' hs (funding_usage (sum_N deps.*2)) (sum_N deps.*2) 0).
    destruct Hsp as [Hsb Hch]; try done; try (unfold funding_usage, renter_cost in *; simpl in *; lia).
    split; [exact Hsb|]. split; [left; exact Hch|done].
Qed.

(** ** Request validity is a premise of proof verification
    core's verifiers are total and sound only on a legal request ([core_verify_roots],
    [core_verify_free]). The client consults them only after its own validation, which
    establishes exactly that premise. *)
Theorem roots_verifier_called_inside_its_contract c offset length pre post roots root :
  length ≠ 0 → offset + length ≤ v_filesize (c_view c) / sector_size → len roots = length →
  core_verify_roots pre post roots (num_sectors_up c) offset (offset + length) root ≠ VOutside
  ∧ vres_ok (core_verify_roots pre post roots (num_sectors_up c) offset (offset + length) root)
    = verify_roots pre post roots (num_sectors_up c) offset (offset + length) root.
Proof.
  intros Hl Hr Hn. pose proof (num_sectors_up_ge c) as Hge. unfold core_verify_roots.
  replace (num_sectors_up c =? 0) with false by (symmetry; apply N.eqb_neq; lia).
  replace (len roots =? offset + length - offset) with true by (symmetry; apply N.eqb_eq; lia).
  replace (num_sectors_up c <? offset + length) with false by (symmetry; apply N.ltb_ge; lia).
  replace (offset + length <=? offset) with false by (symmetry; apply N.leb_gt; lia).
  simpl. by destruct (verify_roots _ _ _ _ _ _ _).
Qed.

(** the outcome of the roots verifier is consulted only for a legal request: if the
    decision depends on it, the range is non-empty, inside the contract, within one
    batch, and the host sent exactly that many roots *)
Theorem roots_decision_needs_verifier_only_on_legal_request {R} (v : view R) p auth offset length dec nroots sig_ok :
  roots_decide v p auth offset length dec nroots true sig_ok ≠ roots_decide v p auth offset length dec nroots false sig_ok →
  length ≠ 0 ∧ offset + length ≤ v_filesize v / sector_size ∧ length ≤ max_sector_batch ∧ nroots = length.
Proof.
  unfold roots_decide. destruct (revise_roots v p length) as [[v' u]|] eqn:Hrev; [|done].
  assert (v_filesize v' = v_filesize v) as ->
    by (unfold revise_roots in Hrev; destruct (pay _ _) eqn:Hp; simplify_eq/=; by apply pay_spec in Hp as (_&_&_&_&_&_&?&_)).
  intros H. repeat (case_match; try done). boolf. repeat split; try done; lia.
Qed.

Lemma desc_bounded l : ∀ n, desc l → match l with i :: _ => i < n | [] => True end →
  Forall (λ i, i < n) l ∧ len l ≤ n.
Proof.
  induction l as [|x t IH]; intros n Hd Hh; [split; [constructor|unfold len; simpl; lia]|].
  destruct Hd as [Hlt Hd]. destruct (IH x Hd) as [Hall Hlen].
  { destruct t; [done|]. by inversion_clear Hlt. }
  split.
  - constructor; [done|]. eapply Forall_impl; [exact Hall|]. simpl. lia.
  - unfold len in *. simpl. lia.
Qed.

Theorem free_verifier_called_inside_its_contract n old idxs oldroot newroot :
  match normalize idxs with i :: _ => i < n | [] => True end →
  core_verify_free n old (normalize idxs) oldroot newroot ≠ VOutside
  ∧ vres_ok (core_verify_free n old (normalize idxs) oldroot newroot) = verify_free n old (normalize idxs) oldroot newroot.
Proof.
  intros Hh. destruct (desc_bounded _ n (normalize_desc idxs) Hh) as [Hall Hlen]. unfold core_verify_free.
  replace (n <? len (normalize idxs)) with false by (symmetry; apply N.ltb_ge; lia).
  replace (forallb (λ i, i <? n) (normalize idxs)) with true.
  - simpl. by destruct (verify_free _ _ _ _ _).
  - symmetry. apply forallb_forall. intros i Hi%elem_of_list_In. rewrite Forall_forall in Hall. apply N.ltb_lt. auto.
Qed.

Theorem free_decision_needs_verifier_only_on_legal_request {R} (v : view R) p idxs dec1 newroot dec3 sig_ok :
  free_decide v p idxs dec1 newroot true dec3 sig_ok ≠ free_decide v p idxs dec1 newroot false dec3 sig_ok →
  match idxs with i :: _ => i < v_filesize v / sector_size | [] => True end.
Proof.
  unfold free_decide. destruct idxs as [|i t]; [done|]. intros H. repeat (case_match; try done). by boolf.
Qed.

Theorem verifiers_consulted_only_inside_their_contract :
  (∀ R (v : view R) p auth offset length dec nroots sig_ok,
     roots_decide v p auth offset length dec nroots true sig_ok ≠ roots_decide v p auth offset length dec nroots false sig_ok →
     length ≠ 0 ∧ offset + length ≤ v_filesize v / sector_size ∧ length ≤ max_sector_batch ∧ nroots = length)
  ∧ (∀ c offset length pre post roots root,
     length ≠ 0 → offset + length ≤ v_filesize (c_view c) / sector_size → len roots = length →
     core_verify_roots pre post roots (num_sectors_up c) offset (offset + length) root ≠ VOutside
     ∧ vres_ok (core_verify_roots pre post roots (num_sectors_up c) offset (offset + length) root)
       = verify_roots pre post roots (num_sectors_up c) offset (offset + length) root)
  ∧ (∀ R (v : view R) p idxs dec1 newroot dec3 sig_ok,
     free_decide v p idxs dec1 newroot true dec3 sig_ok ≠ free_decide v p idxs dec1 newroot false dec3 sig_ok →
     match idxs with i :: _ => i < v_filesize v / sector_size | [] => True end)
  ∧ (∀ n old idxs oldroot newroot,
     match normalize idxs with i :: _ => i < n | [] => True end →
     core_verify_free n old (normalize idxs) oldroot newroot ≠ VOutside
     ∧ vres_ok (core_verify_free n old (normalize idxs) oldroot newroot) = verify_free n old (normalize idxs) oldroot newroot).
Proof.
  split; [intros R; exact (@roots_decision_needs_verifier_only_on_legal_request R)|].
  split; [exact roots_verifier_called_inside_its_contract|].
  split; [intros R; exact (@free_decision_needs_verifier_only_on_legal_request R)|].
  exact free_verifier_called_inside_its_contract.
Qed.

(** ** Forming, renewing, refreshing: the returned contract is the signed contract *)
Definition form_ok (hk rk : key) (mine : view croot) (my_rest : N) (funded : bool) (host_cost : N)
    (r1 : option N) (r3 : option form_final) : Prop :=
  funded = true ∧ (∃ sum, r1 = Some sum ∧ host_cost ≤ sum)
  ∧ ∃ f co, r3 = Some f ∧ ff_nset f ≠ 0 ∧ ff_contracts f = [co] ∧ ff_rest f = my_rest
      ∧ co_body co = (hk, rk, mine) ∧ co_hsig co = Sig hk (MRev hk rk mine).

Lemma form_inv t hk rk mine my_rest funded host_cost cost r1 r3 res :
  client_form t hk rk mine my_rest funded host_cost cost r1 r3 = Ok res →
  form_ok hk rk mine my_rest funded host_cost r1 r3
  ∧ res = mk_contract_result hk rk mine (Sig rk (MRev hk rk mine)) (Sig hk (MRev hk rk mine)) cost.
Proof.
  unfold client_form, form_decide. intros H.
  destruct r3 as [f|]; destruct r1 as [sum|]; simpl in H; peel; simpl in *; try discriminate.
  boolf. unfold verify_sig in *. boolf. simplify_eq.
  destruct (ff_contracts f) as [|co [|? ?]] eqn:Hc; simpl in *; try discriminate.
  simplify_eq.
  match goal with H : co_hsig co = _ |- _ => rewrite H end.
  split; [|done]. unfold form_ok. repeat split; try done.
  - exists sum. split; [done|lia].
  - exists f, co. repeat split; try done.
Qed.

Definition renew_ok (c : contract) (mine : view croot) (my_rest : N) (funded : bool) (host_cost : N)
    (r1 : option N) (r3 : option renew_final) (nc : contract_obj) : Prop :=
  funded = true ∧ (∃ sum, r1 = Some sum ∧ host_cost ≤ sum)
  ∧ ∃ f rest, r3 = Some f ∧ rf_nset f ≠ 0
      ∧ rf_resolutions f = [ResRenewal nc rest (Sig (c_hk c) (MRenewal (c_hk c) (c_rk c) mine my_rest))]
      ∧ co_hsig nc = Sig (c_hk c) (MRev (c_hk c) (c_rk c) mine).

Lemma renew_inv t c mine my_rest funded host_cost cost r1 r3 res :
  client_renew t c mine my_rest funded host_cost cost r1 r3 = Ok res →
  (∃ nc, renew_ok c mine my_rest funded host_cost r1 r3 nc)
  ∧ res = mk_contract_result (c_hk c) (c_rk c) mine (Sig (c_rk c) (MRev (c_hk c) (c_rk c) mine))
            (Sig (c_hk c) (MRev (c_hk c) (c_rk c) mine)) cost.
Proof.
  unfold client_renew, renew_decide. intros H.
  destruct r3 as [f|]; destruct r1 as [sum|]; simpl in H;
    try destruct (rf_resolutions f) as [|[nc rest rs|] [|? ?]] eqn:Hr; simpl in H; peel; try discriminate;
    boolf; try (exfalso; unfold len in *; cbn [length] in *; lia); simpl in *; try discriminate;
    try (match goal with H : match Pos.succ ?p with _ => _ end = true |- _ => destruct p; discriminate H end).
  unfold verify_sig in *. boolf. simplify_eq.
  match goal with H : co_hsig nc = _ |- _ => rewrite H end.
  split; [|done]. exists nc. unfold renew_ok. repeat split; try done.
  - exists sum. split; [done|lia].
  - exists f, rest. repeat split; done.
Qed.

(** what the call hands back is the renter's own contract, signed by the host key of the
    (existing) contract over exactly that contract, at the locally computed cost *)
Definition contract_bound (hk rk : key) (mine : view croot) (cost : N) (res : contract_result) : Prop :=
  cr_view res = mine ∧ cr_hk res = hk ∧ cr_rk res = rk
  ∧ cr_hsig res = Sig hk (MRev (cr_hk res) (cr_rk res) (cr_view res))
  ∧ cr_rsig res = Sig rk (MRev (cr_hk res) (cr_rk res) (cr_view res))
  ∧ cr_cost res = cost.

Theorem contract_returned_is_contract_signed :
  (∀ t hk rk mine my_rest funded host_cost cost r1 r3 res,
     client_form t hk rk mine my_rest funded host_cost cost r1 r3 = Ok res → contract_bound hk rk mine cost res)
  ∧ (∀ t c mine my_rest funded host_cost cost r1 r3 res,
     client_renew t c mine my_rest funded host_cost cost r1 r3 = Ok res →
     contract_bound (c_hk c) (c_rk c) mine cost res
     (* and the host also signed the renewal the renter built *)
     ∧ ∃ f nc rest, r3 = Some f
         ∧ rf_resolutions f = [ResRenewal nc rest (Sig (c_hk c) (MRenewal (c_hk c) (c_rk c) mine my_rest))]).
Proof.
  split.
  - intros * [_ ->]%form_inv. repeat split.
  - intros * [[nc (_ & _ & f & rest & ? & _ & ? & _)] ->]%renew_inv. split; [repeat split|]. by exists f, nc, rest.
Qed.

(** ** C10_revision_signed_and_priced: every revising RPC at once *)
Theorem revision_signed_and_priced t c p :
  (∀ sp offset length r res roots, client_roots t c sp offset length r = Ok (res, roots) →
     signed_by_both c res ∧ charged c res (p_egress (sp_prices sp) * round4k (32 * length)) 0)
  ∧ (∀ roots r1 r3 res secs, client_append t c p roots r1 r3 = Ok (res, secs) →
     let g := append_growth c (len secs) in let d := append_duration c p in
     signed_by_both c res
     ∧ charged c res (p_storage p * sector_size * g * d + p_ingress p * round4k (32 * g))
                     (p_collateral p * sector_size * g * d))
  ∧ (∀ idxs r1 r3 res, client_free t c p idxs r1 r3 = Ok res →
     signed_by_both c res ∧ charged c res (p_free p * len (normalize idxs)) 0)
  ∧ (∀ deposits r res bal, client_fund t c deposits r = Ok (res, bal) →
     signed_by_both c res ∧ charged c res (sum_N (deposits.*2)) 0)
  ∧ (∀ accounts target r1 r3 res deps, client_replenish t c accounts target r1 r3 = Ok (res, deps) →
     contract_signed c →
     signed_by_both c res
     ∧ (charged c res (sum_N (deps.*2)) 0
        ∨ (sum_N (deps.*2) = 0 ∧ rr_view res = c_view c ∧ rr_usage res = usage0)))
  ∧ (∀ hk rk mine my_rest funded host_cost cost r1 r3 res,
     client_form t hk rk mine my_rest funded host_cost cost r1 r3 = Ok res → contract_bound hk rk mine cost res)
  ∧ (∀ mine my_rest funded host_cost cost r1 r3 res,
     client_renew t c mine my_rest funded host_cost cost r1 r3 = Ok res →
     contract_bound (c_hk c) (c_rk c) mine cost res).
Proof.
  destruct contract_returned_is_contract_signed as [Hform Hrenew].
  split; [intros; by eapply roots_signed_priced|].
  split; [intros; by eapply append_signed_priced|].
  split; [intros; by eapply free_signed_priced|].
  split.
  - intros ???? H. apply fund_signed_priced in H as (?&?&_). done.
  - split; [|split].
    + intros ?????? H Hc. destruct (replenish_signed_priced _ _ _ _ _ _ _ _ H Hc) as (?&?&_). done.
    + intros. by eapply Hform.
    + intros * H. by apply Hrenew in H as [? _].
Qed.

(** ** C10_else_error: the functions are total and succeed only when every
    listed check holds; in every other case the result is [Err]. *)
Definition read_ok (p : read_params) (r : option read_resp) : Prop :=
  ∃ rr, r = Some rr ∧ rp_auth p = true ∧ rr_datalen rr = rp_length p
    ∧ rp_length p ≠ 0 ∧ rp_offset p + rp_length p ≤ sector_size
    ∧ (rp_offset p + rp_length p) mod leaf_size = 0 ∧ rp_length p mod leaf_size = 0
    ∧ rp_length p ≤ leaf_size * len (rr_stream rr) + rr_tail rr
    ∧ verify_range (rr_pre rr) (rr_post rr) (take (N.to_nat (rp_length p / leaf_size)) (rr_stream rr))
        (read_start p) (read_end p) (rp_root p) = true.

Definition write_ok (p : write_params) (r : option sroot) : Prop :=
  wp_auth p = true ∧ wp_length p ≠ 0 ∧ wp_length p ≤ sector_size ∧ wp_length p mod leaf_size = 0
  ∧ r = Some (local_root (wp_data p)).

Definition verify_ok (p : verify_params) (r : option verify_resp) : Prop :=
  ∃ rr, r = Some rr
    ∧ verify_range (vr_pre rr) (vr_post rr) [vr_leaf rr] (vp_index p) (vp_index p + 1) (vp_root p) = true.

Lemma write_inv p r res : client_write p r = Ok res → write_ok p r.
Proof.
  unfold client_write, write_decide, write_ok. intros H.
  destruct r as [root|]; simpl in H; peel; boolf; simplify_eq; simpl in *; try discriminate.
  repeat split; done.
Qed.

Lemma verify_inv p r u : client_verify p r = Ok u → verify_ok p r.
Proof.
  unfold client_verify, verify_decide, verify_ok. intros H.
  destruct r as [rr|]; peel; simpl in *; try discriminate. boolf. by exists rr.
Qed.

Lemma not_ok_err {A} (x : result A) : (∀ a, x ≠ Ok a) → x = Err.
Proof. destruct x; [intros H; by destruct (H a)|done]. Qed.

Theorem else_error :
  (∀ p r, ¬ read_ok p r → client_read p r = Err)
  ∧ (∀ p r, ¬ write_ok p r → client_write p r = Err)
  ∧ (∀ p r, ¬ verify_ok p r → client_verify p r = Err)
  ∧ (∀ t c sp offset length r, ¬ (∃ v' u rr, roots_ok c sp offset length r v' u rr) →
       client_roots t c sp offset length r = Err)
  ∧ (∀ t c p roots r1 r3, ¬ (∃ v' u ar hs, append_ok c p roots r1 r3 v' u ar hs) →
       client_append t c p roots r1 r3 = Err)
  ∧ (∀ t c p idxs r1 r3, ¬ (∃ v' u fr hs, free_ok c p idxs r1 r3 v' u fr hs) →
       client_free t c p idxs r1 r3 = Err)
  ∧ (∀ t c deposits r, ¬ (∃ v' u fr, fund_ok c deposits r v' u fr) → client_fund t c deposits r = Err)
  ∧ (∀ t c accounts target r1 r3, ¬ (∃ deps, replenish_ok c accounts target r1 r3 deps) →
       client_replenish t c accounts target r1 r3 = Err)
  ∧ (∀ t hk rk mine my_rest funded host_cost cost r1 r3, ¬ form_ok hk rk mine my_rest funded host_cost r1 r3 →
       client_form t hk rk mine my_rest funded host_cost cost r1 r3 = Err)
  ∧ (∀ t c mine my_rest funded host_cost cost r1 r3, ¬ (∃ nc, renew_ok c mine my_rest funded host_cost r1 r3 nc) →
       client_renew t c mine my_rest funded host_cost cost r1 r3 = Err)
  ∧ (∀ A (r : option A), r = None → client_pass r = Err).
Proof.
  repeat split.
  - intros p r Hn. apply not_ok_err. intros res H. apply Hn.
    apply read_inv in H as (rr & ? & ? & ? & ? & ? & ? & ? & ? & ? & _). exists rr. repeat split; done.
  - intros p r Hn. apply not_ok_err. intros res H. by apply Hn, (write_inv _ _ res).
  - intros p r Hn. apply not_ok_err. intros res H. by apply Hn, (verify_inv _ _ res).
  - intros t c sp o l r Hn. apply not_ok_err. intros [res roots] H. apply Hn.
    apply roots_inv in H as (v' & u & rr & ? & _). by exists v', u, rr.
  - intros t c p roots r1 r3 Hn. apply not_ok_err. intros [res secs] H. apply Hn.
    apply append_inv in H as (v' & u & ar & hs & ? & _). by exists v', u, ar, hs.
  - intros t c p idxs r1 r3 Hn. apply not_ok_err. intros res H. apply Hn.
    apply free_inv in H as (v' & u & fr & hs & ? & _). by exists v', u, fr, hs.
  - intros t c deposits r Hn. apply not_ok_err. intros [res bal] H. apply Hn.
    apply fund_inv in H as (v' & u & fr & ? & _). by exists v', u, fr.
  - intros t c accounts target r1 r3 Hn. apply not_ok_err. intros [res deps] H. apply Hn.
    apply replenish_inv in H as [? _]. by exists deps.
  - intros * Hn. apply not_ok_err. intros res H. by apply Hn, (form_inv _ _ _ _ _ _ _ _ _ _ _ H).
  - intros * Hn. apply not_ok_err. intros res H. by apply Hn, (renew_inv _ _ _ _ _ _ _ _ _ _ H).
  - by intros A r ->.
Qed.

(** the converse for the three sector RPCs: when every check holds the call succeeds
    (so the [_ok] predicates are exactly the success conditions) *)
Theorem sector_rpcs_succeed_when_checks_hold :
  (∀ p r, read_ok p r → ∃ res, client_read p r = Ok res)
  ∧ (∀ p r, write_ok p r → ∃ res, client_write p r = Ok res)
  ∧ (∀ p r, verify_ok p r → ∃ res, client_verify p r = Ok res).
Proof.
  repeat split.
  - intros p r (rr & -> & Ha & Hd & Hn & Hs & Hm & Hl & Hav & Hv).
    unfold client_read, read_decide. rewrite Ha, Hd, Hv.
    rewrite (proj2 (N.eqb_neq _ _) Hn).
    rewrite (proj2 (N.ltb_ge sector_size _)) by lia.
    rewrite (proj2 (N.ltb_ge (sector_size - rp_offset p) _)) by lia.
    rewrite Hm, Hl, !N.eqb_refl.
    rewrite (proj2 (N.ltb_ge _ (rp_length p))) by lia.
    cbn [negb orb]. eauto.
  - intros p r (Ha & Hn & Hs & Hm & ->).
    unfold client_write, write_decide. rewrite Ha, Hm.
    rewrite (proj2 (N.eqb_neq _ _) Hn).
    rewrite (proj2 (N.ltb_ge sector_size _)) by lia.
    rewrite bool_decide_eq_true_2 by done. rewrite N.eqb_refl. cbn [negb]. eauto.
  - intros p r (rr & -> & Hv). unfold client_verify, verify_decide. rewrite Hv. cbn [negb]. eauto.
Qed.

(** ** Non-vacuity: every theorem above has its hypotheses met by a concrete exchange *)
Section Examples.
  Let nseq := fix nseq (s : N) (n : nat) : list N := match n with O => [] | S n' => s :: nseq (N.succ s) n' end.
  Let ls : list leaf := nseq 0 (N.to_nat 65536).            (* a sector whose leaf i holds "i" *)
  Let root : sroot := SR (HL <$> ls).

  (* read 128 bytes at offset 128 = leaves 2 and 3 *)
  Let rp := mk_read_params true 2000 root 128 128.
  Let honest_read := mk_read_resp (HL <$> take 2 ls) (HL <$> drop 4 ls) 128 [2; 3] 0.
  Example ex_read_ok : client_read rp (Some honest_read) = Ok (mk_read_result [2; 3] (2000 * 4096)).
  Proof. vm_compute. reflexivity. Qed.
  Example ex_read_is_the_range : slice ls (128 / leaf_size) (128 / leaf_size) = [2; 3].
  Proof. vm_compute. reflexivity. Qed.
  Example ex_read_flipped_data : client_read rp (Some (mk_read_resp (HL <$> take 2 ls) (HL <$> drop 4 ls) 128 [2; 9] 0)) = Err.
  Proof. vm_compute. reflexivity. Qed.
  Example ex_read_other_range_valid_proof :
    client_read rp (Some (mk_read_resp (HL <$> take 4 ls) (HL <$> drop 6 ls) 128 [4; 5] 0)) = Err.
  Proof. vm_compute. reflexivity. Qed.
  Example ex_read_longer_datalength :
    client_read rp (Some (mk_read_resp (HL <$> take 2 ls) (HL <$> drop 5 ls) 192 [2; 3; 4] 0)) = Err.
  Proof. vm_compute. reflexivity. Qed.
  (* the repaired defect: an unaligned read answered with the covering leaves and their valid proof *)
  Example ex_read_unaligned_covering_leaves :
    client_read (mk_read_params true 2000 root 32 32) (Some (mk_read_resp [] (HL <$> drop 1 ls) 64 [0] 0)) = Err.
  Proof. vm_compute. reflexivity. Qed.
  Example ex_read_short_stream : client_read rp (Some (mk_read_resp (HL <$> take 2 ls) (HL <$> drop 4 ls) 128 [2] 63)) = Err.
  Proof. vm_compute. reflexivity. Qed.
  Example ex_read_no_response : client_read rp None = Err.
  Proof. vm_compute. reflexivity. Qed.

  Let wp := mk_write_params true 100 1000 [7; 8] 0.
  Example ex_write_ok :
    match client_write wp (Some (local_root [7; 8])) with
    | Ok r => bool_decide (wr_root r = local_root [7; 8]) = true ∧ wr_usage r = mk_usage 0 (100 * sector_size * 432) 0 (1000 * 4096) 0 0
    | Err => False
    end ∧ wp_extra wp < leaf_size.
  Proof. split; [vm_compute; split; reflexivity|done]. Qed.
  Example ex_write_other_root : client_write wp (Some (local_root [7; 9])) = Err.
  Proof. vm_compute. reflexivity. Qed.
  Example ex_write_unpadded_root : client_write wp (Some (SR [HL 7; HL 8])) = Err.
  Proof. vm_compute. reflexivity. Qed.
  Example ex_write_unaligned : client_write (mk_write_params true 100 1000 [7] 36) (Some (local_root [7])) = Err.
  Proof. vm_compute. reflexivity. Qed.

  Let vp := mk_verify_params 2000 root 5.
  Example ex_verify_ok : client_verify vp (Some (mk_verify_resp (HL <$> take 5 ls) (HL <$> drop 6 ls) 5)) = Ok (2000 * sector_size).
  Proof. vm_compute. reflexivity. Qed.
  Example ex_verify_next_leaf_valid_proof :
    client_verify vp (Some (mk_verify_resp (HL <$> take 6 ls) (HL <$> drop 7 ls) 6)) = Err.
  Proof. vm_compute. reflexivity. Qed.
  Example ex_verify_lookup : ls !! N.to_nat 5 = Some 5.
  Proof. vm_compute. reflexivity. Qed.

End Examples.

Section ContractExamples.
  (* a contract of six sectors *)
  Let rs : list sroot := [SX 1; SX 2; SX 3; SX 4; SX 5; SX 6].
  Let v0 : view croot := mk_view 8 (6 * sector_size) (6 * sector_size) (CR rs) 1000000000000000000000000000
                                 300000000000000000000000000 250000000000000000000000000 1144.
  Let c0 : contract := mk_contract v0 1 2 (Sig 2 (MRev 1 2 v0)) (Sig 1 (MRev 1 2 v0)).
  Let pr : prices := mk_nprices 100 1000 2000 1000000000000 200 100.
  (* the price table is signed by the contract's host (key 1); the transport peer in all
     examples below is key 9, somebody else *)
  Let spr : signed_prices := mk_signed_prices pr (Sig 1 (MPrices pr)) true.
  Let fst_or {A B} (o : option (A * B)) (d : A) : A := match o with Some (a, _) => a | None => d end.

  Example ex_contract_signed : contract_signed c0.
  Proof. split; reflexivity. Qed.

  Let v_roots := fst_or (revise_roots v0 pr 3) v0.
  Example ex_roots_ok :
    match client_roots 9 c0 spr 2 3
      (Some (mk_roots_resp [SX 1; SX 2] [SX 6] [SX 3; SX 4; SX 5] (Sig 1 (MRev 1 2 v_roots)))) with
    | Ok (res, roots) => roots = [SX 3; SX 4; SX 5] ∧ v_renter v0 = v_renter (rr_view res) + 2000 * 4096
                         ∧ rr_hsig res = Sig 1 (MRev 1 2 (rr_view res))
    | Err => False
    end.
  Proof. vm_compute. repeat split; reflexivity. Qed.
  Example ex_roots_other_range_valid_proof : client_roots 9 c0 spr 2 3
      (Some (mk_roots_resp [SX 1] [SX 5; SX 6] [SX 2; SX 3; SX 4] (Sig 1 (MRev 1 2 v_roots)))) = Err.
  Proof. vm_compute. reflexivity. Qed.
  Example ex_roots_one_root_too_many : client_roots 9 c0 spr 2 3
      (Some (mk_roots_resp [SX 1; SX 2] [] [SX 3; SX 4; SX 5; SX 6] (Sig 1 (MRev 1 2 v_roots)))) = Err.
  Proof. vm_compute. reflexivity. Qed.
  Example ex_roots_signature_over_cheaper_revision : client_roots 9 c0 spr 2 3
      (Some (mk_roots_resp [SX 1; SX 2] [SX 6] [SX 3; SX 4; SX 5]
               (Sig 1 (MRev 1 2 (fst_or (revise_roots v0 pr 200) v0))))) = Err.
  Proof. vm_compute. reflexivity. Qed.

  Let newroots := [SX 11; SX 12; SX 13].
  Let v_app := fst_or (revise_append v0 pr (CR (rs ++ [SX 11; SX 13])) 2) v0.
  Example ex_append_ok :
    match client_append 9 c0 pr newroots
      (Some (mk_append_resp [true; false; true] rs (CR (rs ++ [SX 11; SX 13])))) (Some (Sig 1 (MRev 1 2 v_app))) with
    | Ok (res, secs) => secs = [SX 11; SX 13] ∧ v_root (rr_view res) = CR (rs ++ [SX 11; SX 13])
                        ∧ v_filesize (rr_view res) = 8 * sector_size
                        ∧ rr_hsig res = Sig 1 (MRev 1 2 (rr_view res))
    | Err => False
    end.
  Proof. vm_compute. repeat split; reflexivity. Qed.
  Example ex_append_accepted_count : client_append 9 c0 pr newroots
      (Some (mk_append_resp [true; true] rs (CR (rs ++ [SX 11; SX 12])))) (Some (Sig 1 (MRev 1 2 v_app))) = Err.
  Proof. vm_compute. reflexivity. Qed.
  Example ex_append_root_of_other_sectors : client_append 9 c0 pr newroots
      (Some (mk_append_resp [true; false; true] rs (CR (rs ++ [SX 11; SX 12])))) (Some (Sig 1 (MRev 1 2 v_app))) = Err.
  Proof. vm_compute. reflexivity. Qed.
  Example ex_append_stranger_signature : client_append 9 c0 pr newroots
      (Some (mk_append_resp [true; false; true] rs (CR (rs ++ [SX 11; SX 13])))) (Some (Sig 3 (MRev 1 2 v_app))) = Err.
  Proof. vm_compute. reflexivity. Qed.
  Example ex_append_no_signature : client_append 9 c0 pr newroots
      (Some (mk_append_resp [true; false; true] rs (CR (rs ++ [SX 11; SX 13])))) None = Err.
  Proof. vm_compute. reflexivity. Qed.

  Let freed := CR [SX 1; SX 5; SX 3; SX 6].
  Let v_free := fst_or (revise_free v0 pr freed 2) v0.
  Example ex_free_ok :
    match client_free 9 c0 pr [3; 1; 3] (Some (mk_free_resp rs freed)) (Some (Sig 1 (MRev 1 2 v_free))) with
    | Ok res => v_root (rr_view res) = freed ∧ v_filesize (rr_view res) = 4 * sector_size
                ∧ v_renter v0 = v_renter (rr_view res) + 2 * 1000000000000
                ∧ rr_hsig res = Sig 1 (MRev 1 2 (rr_view res))
    | Err => False
    end.
  Proof. vm_compute. repeat split; reflexivity. Qed.
  Example ex_free_models_agree : free_apply rs (normalize [3; 1; 3]) = swap_remove_all rs (normalize [3; 1; 3])
    ∧ normalize [3; 1; 3] = [3; 1] ∧ desc (normalize [3; 1; 3]).
  Proof. split; [|split]; [vm_compute; reflexivity ..|]. simpl. repeat constructor. Qed.
  Example ex_free_plain_removal_root :
    client_free 9 c0 pr [3; 1; 3] (Some (mk_free_resp rs (CR [SX 1; SX 3; SX 5; SX 6]))) (Some (Sig 1 (MRev 1 2 v_free))) = Err.
  Proof. vm_compute. reflexivity. Qed.
  Example ex_free_index_beyond_contract :
    client_free 9 c0 pr [6] (Some (mk_free_resp rs (CR rs))) (Some (Sig 1 (MRev 1 2 v_free))) = Err.
  Proof. vm_compute. reflexivity. Qed.
  Example ex_free_signature_over_old_revision :
    client_free 9 c0 pr [3; 1; 3] (Some (mk_free_resp rs freed)) (Some (Sig 1 (MRev 1 2 v0))) = Err.
  Proof. vm_compute. reflexivity. Qed.

  Let v_fund := fst_or (revise_fund v0 30) v0.
  Example ex_fund_ok :
    match client_fund 9 c0 [(7, 10); (8, 20)] (Some (mk_fund_resp [15; 25] (Sig 1 (MRev 1 2 v_fund)))) with
    | Ok (res, bal) => bal = [(7, 15); (8, 25)] ∧ v_renter v0 = v_renter (rr_view res) + 30
                       ∧ rr_hsig res = Sig 1 (MRev 1 2 (rr_view res))
    | Err => False
    end.
  Proof. vm_compute. repeat split; reflexivity. Qed.
  Example ex_fund_balance_count : client_fund 9 c0 [(7, 10); (8, 20)] (Some (mk_fund_resp [15] (Sig 1 (MRev 1 2 v_fund)))) = Err.
  Proof. vm_compute. reflexivity. Qed.
  Example ex_fund_dearer_revision_signed :
    client_fund 9 c0 [(7, 10); (8, 20)] (Some (mk_fund_resp [15; 25] (Sig 1 (MRev 1 2 (fst_or (revise_fund v0 31) v0))))) = Err.
  Proof. vm_compute. reflexivity. Qed.

  Let v_repl := fst_or (revise_fund v0 13) v0.
  Example ex_replenish_ok :
    match client_replenish 9 c0 [7; 8; 9] 10 (Some [(7, 10); (8, 3); (9, 0)]) (Some (Sig 1 (MRev 1 2 v_repl))) with
    | Ok (res, deps) => deps = [(7, 10); (8, 3); (9, 0)] ∧ v_renter v0 = v_renter (rr_view res) + 13
                        ∧ rr_hsig res = Sig 1 (MRev 1 2 (rr_view res))
    | Err => False
    end.
  Proof. vm_compute. repeat split; reflexivity. Qed.
  Example ex_replenish_nothing_to_do :
    client_replenish 9 c0 [7; 8] 10 (Some [(7, 0); (8, 0)]) None
    = Ok (mk_rev_result v0 (c_rsig c0) (c_hsig c0) usage0, [(7, 0); (8, 0)]).
  Proof. vm_compute. reflexivity. Qed.
  Example ex_replenish_above_target : client_replenish 9 c0 [7; 8; 9] 10 (Some [(7, 11); (8, 0); (9, 0)])
      (Some (Sig 1 (MRev 1 2 (fst_or (revise_fund v0 11) v0)))) = Err.
  Proof. vm_compute. reflexivity. Qed.
  Example ex_replenish_extra_deposit : client_replenish 9 c0 [7; 8; 9] 10 (Some [(7, 10); (8, 3); (9, 0); (99, 0)])
      (Some (Sig 1 (MRev 1 2 v_repl))) = Err.
  Proof. vm_compute. reflexivity. Qed.
  (** the peer on the transport (key 9) is not the contract's host (key 1): whatever it
      signs with its own key is refused, by every revising RPC *)
  Let spr9 : signed_prices := mk_signed_prices pr (Sig 9 (MPrices pr)) true.
  Let honest_roots s := Some (mk_roots_resp [SX 1; SX 2] [SX 6] [SX 3; SX 4; SX 5] s).
  Example ex_roots_peer_prices_peer_signature : client_roots 9 c0 spr9 2 3 (honest_roots (Sig 9 (MRev 1 2 v_roots))) = Err.
  Proof. vm_compute. reflexivity. Qed.
  Example ex_roots_host_prices_peer_signature : client_roots 9 c0 spr 2 3 (honest_roots (Sig 9 (MRev 1 2 v_roots))) = Err.
  Proof. vm_compute. reflexivity. Qed.
  Example ex_roots_peer_prices_host_signature : client_roots 9 c0 spr9 2 3 (honest_roots (Sig 1 (MRev 1 2 v_roots))) = Err.
  Proof. vm_compute. reflexivity. Qed.
  Example ex_roots_expired_prices : client_roots 9 c0 (mk_signed_prices pr (Sig 1 (MPrices pr)) false) 2 3 (honest_roots (Sig 1 (MRev 1 2 v_roots))) = Err.
  Proof. vm_compute. reflexivity. Qed.
  Example ex_append_peer_signature : client_append 9 c0 pr newroots
      (Some (mk_append_resp [true; false; true] rs (CR (rs ++ [SX 11; SX 13])))) (Some (Sig 9 (MRev 1 2 v_app))) = Err.
  Proof. vm_compute. reflexivity. Qed.
  Example ex_append_peer_signature_naming_itself_host : client_append 9 c0 pr newroots
      (Some (mk_append_resp [true; false; true] rs (CR (rs ++ [SX 11; SX 13])))) (Some (Sig 9 (MRev 9 2 v_app))) = Err.
  Proof. vm_compute. reflexivity. Qed.
  Example ex_free_peer_signature :
    client_free 9 c0 pr [3; 1; 3] (Some (mk_free_resp rs freed)) (Some (Sig 9 (MRev 1 2 v_free))) = Err.
  Proof. vm_compute. reflexivity. Qed.
  Example ex_fund_peer_signature :
    client_fund 9 c0 [(7, 10); (8, 20)] (Some (mk_fund_resp [15; 25] (Sig 9 (MRev 1 2 v_fund)))) = Err.
  Proof. vm_compute. reflexivity. Qed.
  Example ex_replenish_peer_signature :
    client_replenish 9 c0 [7; 8; 9] 10 (Some [(7, 10); (8, 3); (9, 0)]) (Some (Sig 9 (MRev 1 2 v_repl))) = Err.
  Proof. vm_compute. reflexivity. Qed.
  (** forming / renewing: the host's final transaction *)
  Let mine : view croot := mk_view 0 0 0 (CR []) 150 300 300 1144.
  Let agreed := mk_contract_obj 1 2 mine (Sig 2 (MRev 1 2 mine)) (Sig 1 (MRev 1 2 mine)).
  Let cheated : view croot := mk_view 0 0 0 (CR []) 140 310 300 1144.
  Example ex_form_ok : client_form 9 1 2 mine 77 true 300 451 (Some 300) (Some (mk_form_final 1 [agreed] 77))
    = Ok (mk_contract_result 1 2 mine (Sig 2 (MRev 1 2 mine)) (Sig 1 (MRev 1 2 mine)) 451).
  Proof. vm_compute. reflexivity. Qed.
  Example ex_form_substituted_resigned : client_form 9 1 2 mine 77 true 300 451 (Some 300)
    (Some (mk_form_final 1 [mk_contract_obj 1 2 cheated (Sig 2 (MRev 1 2 mine)) (Sig 1 (MRev 1 2 cheated))] 77)) = Err.
  Proof. vm_compute. reflexivity. Qed.
  Example ex_form_host_underfunds : client_form 9 1 2 mine 77 true 300 451 (Some 299) (Some (mk_form_final 1 [agreed] 77)) = Err.
  Proof. vm_compute. reflexivity. Qed.
  Example ex_form_peer_signature : client_form 9 1 2 mine 77 true 300 451 (Some 300)
    (Some (mk_form_final 1 [mk_contract_obj 1 2 mine (Sig 2 (MRev 1 2 mine)) (Sig 9 (MRev 1 2 mine))] 77)) = Err.
  Proof. vm_compute. reflexivity. Qed.
  Let rsig := Sig 1 (MRenewal 1 2 mine 55).
  Example ex_renew_ok : client_renew 9 c0 mine 55 true 300 451 (Some 300) (Some (mk_renew_final 1 [ResRenewal agreed 55 rsig]))
    = Ok (mk_contract_result 1 2 mine (Sig 2 (MRev 1 2 mine)) (Sig 1 (MRev 1 2 mine)) 451).
  Proof. vm_compute. reflexivity. Qed.
  (* seed f: a substituted contract re-signed by the host, honest renewal signature *)
  Example ex_renew_substituted_resigned : client_renew 9 c0 mine 55 true 300 451 (Some 300)
    (Some (mk_renew_final 1 [ResRenewal (mk_contract_obj 1 2 cheated (Sig 2 (MRev 1 2 mine)) (Sig 1 (MRev 1 2 cheated))) 55 rsig])) = Err.
  Proof. vm_compute. reflexivity. Qed.
  (* the repaired defect: a substituted contract that keeps the signature over the agreed
     contract is accepted, but what is returned is the agreed contract *)
  Example ex_renew_substituted_signature_kept : client_renew 9 c0 mine 55 true 300 451 (Some 300)
    (Some (mk_renew_final 1 [ResRenewal (mk_contract_obj 1 2 cheated (Sig 2 (MRev 1 2 mine)) (Sig 1 (MRev 1 2 mine))) 55 rsig]))
    = Ok (mk_contract_result 1 2 mine (Sig 2 (MRev 1 2 mine)) (Sig 1 (MRev 1 2 mine)) 451).
  Proof. vm_compute. reflexivity. Qed.
  Example ex_renew_altered_renewal_resigned : client_renew 9 c0 mine 55 true 300 451 (Some 300)
    (Some (mk_renew_final 1 [ResRenewal agreed 56 (Sig 1 (MRenewal 1 2 mine 56))])) = Err.
  Proof. vm_compute. reflexivity. Qed.
  Example ex_renew_expiration_instead : client_renew 9 c0 mine 55 true 300 451 (Some 300) (Some (mk_renew_final 1 [ResOther])) = Err.
  Proof. vm_compute. reflexivity. Qed.
  Example ex_renew_peer_signs : client_renew 9 c0 mine 55 true 300 451 (Some 300)
    (Some (mk_renew_final 1 [ResRenewal (mk_contract_obj 1 2 mine (Sig 2 (MRev 1 2 mine)) (Sig 9 (MRev 1 2 mine))) 55 (Sig 9 (MRenewal 1 2 mine 55))])) = Err.
  Proof. vm_compute. reflexivity. Qed.
  (** outside their contract core's verifiers are not sound and not total: the empty contract
      accepts any roots with an empty proof, an illegal range panics (seed C10-g) *)
  Example ex_core_roots_empty_contract_accepts_anything :
    core_verify_roots [] [] [SX 7; SX 8] 0 0 2 (CX 0) = VTrue ∧ verify_roots [] [] [SX 7; SX 8] 0 0 2 (CX 0) = false.
  Proof. split; vm_compute; reflexivity. Qed.
  Example ex_core_roots_beyond_contract_panics : core_verify_roots [SX 1] [] [SX 5; SX 6; SX 9] 6 4 7 (CR rs) = VOutside.
  Proof. vm_compute. reflexivity. Qed.
  Example ex_core_roots_zero_length_panics : core_verify_roots [SX 1] [] [] 6 1 1 (CR rs) = VOutside.
  Proof. vm_compute. reflexivity. Qed.
  Example ex_core_free_more_indices_than_sectors : core_verify_free 2 [SX 1; SX 2] [3; 2; 1; 0] (CR [SX 1; SX 2]) (CR []) = VOutside.
  Proof. vm_compute. reflexivity. Qed.
  (* and the client never gets there *)
  Let empty_view : view croot := mk_view 8 0 0 (CX 0) 1000000000000000000000000000 300000000000000000000000000 250000000000000000000000000 1144.
  Let c_empty := mk_contract empty_view 1 2 (Sig 2 (MRev 1 2 empty_view)) (Sig 1 (MRev 1 2 empty_view)).
  Example ex_roots_of_empty_contract_rejected : client_roots 9 c_empty spr 0 2
      (Some (mk_roots_resp [] [] [SX 7; SX 8] (Sig 1 (MRev 1 2 (fst_or (revise_roots empty_view pr 2) empty_view))))) = Err.
  Proof. vm_compute. reflexivity. Qed.
  Example ex_roots_beyond_contract_rejected : client_roots 9 c0 spr 4 3
      (Some (mk_roots_resp [SX 1] [] [SX 5; SX 6; SX 9] (Sig 1 (MRev 1 2 v_roots)))) = Err.
  Proof. vm_compute. reflexivity. Qed.
End ContractExamples.
