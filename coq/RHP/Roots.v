(** * RHP/Roots.v — executable model of the host's sector-root state (property C09).

    Definitions only (proofs: RHP/RootsProofs.v, property theorems: Props/C09.v,
    runner used by the harness: Run/Run_C09.v).

    Subject: rhp/v4/server.go handleRPCFreeSectors (266-338 before the F6 repair),
    handleRPCAppendSectors (340-411), handleRPCSectorRoots (659-709); the renter side
    rhp/v4/rpc.go RPCFreeSectors (590-606: sort descending + Compact); the reference
    contractor testutil/host.go LockV2Contract (142-171: hands out its stored slice) and
    ReviseV2Contract (247-268: stores a copy).

    Sector roots are symbolic ([N], renamed by the harness in order of first appearance);
    list positions and batch counters are [nat]; file sizes, revision numbers and currency
    are [N].  Oracles (go.sia.tech/core: signature verification, price-table validation,
    usage arithmetic, HasSector of the sector store) are boolean / numeric fields of the
    abstract request (DESIGN 3.1). *)
From stdpp Require Import list sorting.
From Coq Require Import NArith.

(** ** Symbolic Merkle root (DESIGN 3.3): hashing is a free constructor. *)
Inductive digest :=
| DEmpty                       (* root of no sectors *)
| DLeaf (r : N)                (* a sector root used as a leaf of the meta tree *)
| DNode (l r : digest).        (* blake2b.SumPair *)

(** decidable equality of digests: a decision procedure (a definition written with tactics) *)
Lemma digest_eq_dec (a b : digest) : {a = b} + {a ≠ b}.
Proof. decide equality; apply N.eq_dec. Defined.
Global Instance digest_eqdec : EqDecision digest := digest_eq_dec.

(** largest power of two strictly below [n] (for n ≥ 2): rhp/v2 merkle.go:270
    [split := 1 << (bits.Len(uint(len(roots)-1)) - 1)]; the sector accumulator used for
    at most 2^16 roots builds the same tree. [f] is fuel (n doublings are more than enough). *)
Fixpoint pow2_below (f n p : nat) : nat :=
  match f with
  | 0 => p
  | S f' => if decide (2 * p < n) then pow2_below f' n (2 * p) else p
  end.
Definition split_point (n : nat) : nat := pow2_below n n 1.

Fixpoint mroot_fuel (f : nat) (l : list N) : digest :=
  match f with
  | 0 => DEmpty
  | S f' =>
      match l with
      | [] => DEmpty
      | [x] => DLeaf x
      | _ => let k := split_point (length l) in
             DNode (mroot_fuel f' (take k l)) (mroot_fuel f' (drop k l))
      end
  end.
(** proto4.MetaRoot; the fuel [length l] always suffices (RootsProofs.leaves_mroot). *)
Definition mroot (l : list N) : digest := mroot_fuel (length l) l.

(** the leaves of a digest, left to right: the inverse of [mroot] *)
Fixpoint leaves (d : digest) : list N :=
  match d with
  | DEmpty => []
  | DLeaf x => [x]
  | DNode l r => leaves l ++ leaves r
  end.

(** ** Symbolic sector-range proofs (rhp2.BuildSectorRangeProof / VerifySectorRangeProof)

    A proof for the leaves [off, off+len) of a tree of [n] leaves is one digest for every
    maximal subtree that is disjoint from the range, left to right. [rebuild] reconstructs
    the root from the claimed leaves [rs] and the proof, consuming both left to right; it
    returns what is left of each. [f] is fuel ([n] suffices). *)
Fixpoint rebuild (f n off len : nat) (rs : list N) (proof : list digest)
    : option (digest * list N * list digest) :=
  match f with
  | 0 => None
  | S f' =>
      if decide (len = 0) then          (* subtree disjoint from the range: one proof digest *)
        match proof with d :: p => Some (d, rs, p) | [] => None end
      else if decide (n ≤ 1) then       (* a leaf inside the range *)
        match rs with
        | x :: rs' => if decide (n = 1) then Some (DLeaf x, rs', proof) else None
        | [] => None
        end
      else
        let k := split_point n in
        let hi := off + len in
        match rebuild f' k (off `min` k) (hi `min` k - off `min` k) rs proof with
        | Some (dl, rs1, p1) =>
            match rebuild f' (n - k) (off `max` k - k) (hi `max` k - off `max` k) rs1 p1 with
            | Some (dr, rs2, p2) => Some (DNode dl dr, rs2, p2)
            | None => None
            end
        | None => None
        end
  end.

(** the renter's check in RPCSectorRoots (rpc.go:1025): the range is legal, the host returned
    [len] roots, and leaves plus proof rebuild exactly the committed root *)
Definition verify_range (root : digest) (n off len : nat) (rs : list N) (proof : list digest) : bool :=
  bool_decide (0 < len ∧ off + len ≤ n ∧ length rs = len) &&
  match rebuild n n off len rs proof with
  | Some (d, [], []) => bool_decide (d = root)
  | _ => false
  end.

(** the honest host's proof (server.go:701) *)
Fixpoint build_range_proof (f : nat) (l : list N) (off len : nat) : list digest :=
  match f with
  | 0 => []
  | S f' =>
      if decide (len = 0) then [mroot l]
      else if decide (length l ≤ 1) then []
      else
        let k := split_point (length l) in
        let hi := off + len in
        build_range_proof f' (take k l) (off `min` k) (hi `min` k - off `min` k) ++
        build_range_proof f' (drop k l) (off `max` k - k) (hi `max` k - off `max` k)
  end.

(** ** Free sectors: the in-place loop of the host (server.go:301-304)

    [for i, n := range req.Indices { roots[n] = roots[len(roots)-i-1] }]
    [None] = Go would panic with an index out of range. *)
Fixpoint free_loop (roots : list N) (i : nat) (idxs : list nat) : option (list N) :=
  match idxs with
  | [] => Some roots
  | n :: rest =>
      if decide (i < length roots ∧ n < length roots) then
        match roots !! (length roots - i - 1) with
        | Some x => free_loop (<[n := x]> roots) (S i) rest
        | None => None
        end
      else None
  end.

(** [roots = roots[:len(roots)-len(req.Indices)]] (server.go:304); slicing panics when the
    batch is longer than the roots. *)
Definition host_free (roots : list N) (idxs : list nat) : option (list N) :=
  if decide (length idxs ≤ length roots) then
    take (length roots - length idxs) <$> free_loop roots 0 idxs
  else None.

(** ** The simple list model: swap-remove from the end, one index at a time *)
Definition swap_remove (l : list N) (n : nat) : list N :=
  match last l with
  | Some x => take (length l - 1) (<[n := x]> l)
  | None => l
  end.
Definition swap_remove_desc (l : list N) (idxs : list nat) : list N :=
  fold_left swap_remove idxs l.

(** the roots at the given positions (the freed roots) *)
Fixpoint at_positions (l : list N) (idxs : list nat) : list N :=
  match idxs with
  | [] => []
  | n :: rest =>
      match l !! n with
      | Some x => x :: at_positions l rest
      | None => at_positions l rest
      end
  end.

(** strictly descending and in range: what the wire handler needs *)
Definition desc_in_range (idxs : list nat) (len : nat) : Prop :=
  StronglySorted gt idxs ∧ Forall (λ n, n < len) idxs.

(** ** The renter's normalisation (rpc.go:596-600): sort descending, then slices.Compact *)
Fixpoint insert_desc (n : nat) (l : list nat) : list nat :=
  match l with
  | [] => [n]
  | m :: l' => if decide (n < m) then m :: insert_desc n l' else n :: l
  end.
Definition sort_desc (l : list nat) : list nat := foldr insert_desc [] l.
(** slices.Compact: drop every element equal to its predecessor *)
Fixpoint compact (l : list nat) : list nat :=
  match l with
  | [] => []
  | x :: l' =>
      match l' with
      | y :: _ => if decide (x = y) then compact l' else x :: compact l'
      | [] => [x]
      end
  end.
Definition normalize (idxs : list nat) : list nat := compact (sort_desc idxs).

(** what the renter API does to the host's roots, and the list model of it *)
Definition client_free (roots : list N) (idxs : list nat) : option (list N) :=
  host_free roots (normalize idxs).
Definition model_free (roots : list N) (idxs : list nat) : list N :=
  swap_remove_desc roots (normalize idxs).

(** ** Append: the accept loop of the host (server.go:364-376)

    A sector is [(root, has)] with [has] the answer of Sectors.HasSector. *)
Fixpoint append_loop (roots : list N) (accepted : list bool) (appended : nat)
    (sectors : list (N * bool)) : list N * list bool * nat :=
  match sectors with
  | [] => (roots, accepted, appended)
  | (r, has) :: rest =>
      if has then append_loop (roots ++ [r]) (accepted ++ [true]) (S appended) rest
      else append_loop roots (accepted ++ [false]) appended rest      (* continue *)
  end.
Definition host_append (roots : list N) (sectors : list (N * bool)) : list N * list bool * nat :=
  append_loop roots [] 0 sectors.

(** ** Contract revision and contractor state *)
Definition sector_size : N := 4194304.         (* proto4.SectorSize = 1 << 22 *)
Definition max_batch : N := 262144.            (* proto4.MaxSectorBatchSize = (1<<40)/SectorSize *)

Record rev := mk_rev {
  r_num : N;          (* RevisionNumber *)
  r_root : digest;    (* FileMerkleRoot *)
  r_size : N;         (* Filesize *)
  r_cap : N;          (* Capacity *)
  r_funds : N;        (* RenterOutput.Value *)
  r_hostval : N;      (* HostOutput.Value *)
  r_missed : N        (* MissedHostValue *)
}.

(** what the contractor stores for one contract, plus the renter's account balance *)
Record host := mk_host {
  h_roots : list N;
  h_rev : rev;
  h_account : N
}.

(** proto4.Usage reduced to the two numbers PayWithContract looks at *)
Record usage := mk_usage { u_cost : N; u_risked : N }.

(** proto4.PayWithContract (core rhp.go:844-860) *)
Definition pay (r : rev) (u : usage) : option rev :=
  if (r_funds r <? u_cost u)%N then None
  else if (r_missed r <? u_risked u)%N then None
  else Some (mk_rev (r_num r + 1) (r_root r) (r_size r) (r_cap r)
               (r_funds r - u_cost u) (r_hostval r + u_cost u) (r_missed r - u_risked u)).

Definition set_root (r : rev) (d : digest) : rev :=
  mk_rev (r_num r) d (r_size r) (r_cap r) (r_funds r) (r_hostval r) (r_missed r).

(** proto4.ReviseForFreeSectors (core rhp.go:863-871) *)
Definition revise_free (r : rev) (newroot : digest) (deletions : nat) (u : usage) : option rev :=
  let r1 := mk_rev (r_num r) (r_root r) (r_size r - sector_size * N.of_nat deletions) (r_cap r)
              (r_funds r) (r_hostval r) (r_missed r) in
  (λ r2, set_root r2 newroot) <$> pay r1 u.

(** proto4.ReviseForAppendSectors (core rhp.go:874-884) *)
Definition revise_append (r : rev) (newroot : digest) (appended : nat) (u : usage) : option rev :=
  let a := N.of_nat appended in
  let growth := (a - N.min a ((r_cap r - r_size r) / sector_size))%N in
  let r1 := mk_rev (r_num r) newroot (r_size r + sector_size * a) (r_cap r + sector_size * growth)
              (r_funds r) (r_hostval r) (r_missed r) in
  pay r1 u.

(** proto4.ReviseForSectorRoots (core rhp.go:887-891) *)
Definition revise_roots (r : rev) (u : usage) : option rev := pay r u.

(** ** Messages *)
Inductive request :=
| FreeReq (idxs : list nat)
    (lock_ok chal_ok prices_ok : bool)  (* lockContractForRevision / ValidChallengeSignature / Prices.Validate *)
    (u : usage)                         (* prices.RPCFreeSectorsCost *)
| AppendReq (sectors : list (N * bool))
    (lock_ok chal_ok prices_ok : bool) (u : usage)
| RootsReq (off len : nat)
    (lock_ok prices_ok sig_ok : bool)   (* single round: the request carries the renter's signature *)
    (u : usage)
| FundReq (valid lock_ok sig_ok : bool) (amount : N)
    (* RPCFundAccounts (server.go handleRPCFundAccounts): one round, the request carries the
       renter's signature over the revision that moves [amount] from the renter output to the
       host output; the account is credited with it; the roots are not mentioned
       (Contractor.CreditAccountsWithContract takes no roots). [valid] = request validation. *)
| AcctReq (valid has : bool) (cost : N).
    (* the account-paid RPCs RPCReadSector / RPCVerifySector / RPCWriteSector
       (server.go handleRPCReadSector, handleRPCVerifySector, handleRPCWriteSector):
       [valid] = request validation (host-signed prices, account token for this host, not
       expired, signed by the account; range / leaf index / data length legal; for a write:
       the announced data arrived); [has] = Sectors.HasSector of the requested root (true for
       a write); [cost] = RenterCost of the usage. *)

Inductive msg :=
| MReq (r : request)
| MSig (valid : bool).   (* the renter's signature over the revised contract; [valid] = VerifyHash *)

Inductive out :=
| OFreeResp (newroot : digest)
| OAppendResp (accepted : list bool) (newroot : digest)
| ORootsResp (roots : list N)
| OPaid                          (* account debited, service delivered *)
| OHostSig
| OErr.

(** what the handler keeps between its first response and the renter's signature *)
Inductive pending :=
| PFree (newroots : list N) (newroot : digest) (deletions : nat) (u : usage)
    (* free revises only after reading the signature: server.go:318 *)
| PAppend (newroots : list N) (newrev : rev).
    (* append revises before reading the signature: server.go:388 *)

Definition pending_root (p : pending) : digest :=
  match p with PFree _ d _ _ => d | PAppend _ r => r_root r end.

Inductive phase :=
| PIdle                 (* stream accepted, nothing read yet *)
| PWait (p : pending)   (* first response written, waiting for the renter's signature *)
| PClosed.              (* handler returned (success, error, or the stream died) *)

Record hst := mk_hst { hs_host : host; hs_phase : phase }.

(** Whether the [Roots] slice handed out by LockV2Contract shares its cells with the
    contractor's stored slice, and the handler writes through it.
    [Shared]: the code before the repair (server.go:301-304 on state.Roots, with
    testutil.EphemeralContractor returning [ec.roots[id]]).
    [Copied]: the repaired handler (slices.Clone before the loop). *)
Inductive alias := Shared | Copied.

Definition with_roots (h : host) (l : list N) : host := mk_host l (h_rev h) (h_account h).

Definition free_valid (r : rev) (nroots : nat) (idxs : list nat) : bool :=
  (* RPCFreeSectorsRequest.Validate (core validation.go:78-95) and server.go:290-294 *)
  (N.of_nat (length idxs) <=? max_batch)%N
  && bool_decide (Forall (λ n, n < N.to_nat (r_size r / sector_size)) idxs)
  && bool_decide (NoDup idxs)
  && bool_decide (Forall (λ n, n < nroots) idxs).

(** handleRPCFreeSectors up to and including the first response (server.go:266-312).
    Returns the contractor state as it is while the handler waits, and the pending data;
    [None]: the handler returned an error before touching anything (or panicked: recovered
    in handleHostStream). *)
Definition begin_free (a : alias) (h : host) (idxs : list nat)
    (lock_ok chal_ok prices_ok : bool) (u : usage) : option (host * pending) :=
  if negb lock_ok then None
  else if negb chal_ok then None
  else if negb prices_ok then None
  else if negb (free_valid (h_rev h) (length (h_roots h)) idxs) then None
  else
    match free_loop (h_roots h) 0 idxs with
    | None => None
    | Some cells =>
        let work := take (length (h_roots h) - length idxs) cells in
        let h' := match a with
                  | Shared => with_roots h cells   (* the stored slice keeps its length; its cells were overwritten *)
                  | Copied => h
                  end in
        Some (h', PFree work (mroot work) (length idxs) u)
    end.

(** handleRPCAppendSectors up to the point where it waits for the signature
    (server.go:340-396).  [append] never writes a cell below [len(state.Roots)], so the
    stored roots are the same in both alias modes. Second component: the first response
    (always written), third: the pending data unless ReviseForAppendSectors failed. *)
Definition begin_append (h : host) (sectors : list (N * bool))
    (lock_ok chal_ok prices_ok : bool) (u : usage) : option (out * option pending) :=
  if negb prices_ok then None
  else if bool_decide (sectors = []) then None
  else if negb (N.of_nat (length sectors) <=? max_batch)%N then None
  else if negb lock_ok then None
  else if negb chal_ok then None
  else
    let '(roots, accepted, appended) := host_append (h_roots h) sectors in
    let newroot := mroot roots in
    Some (OAppendResp accepted newroot,
          PAppend roots <$> revise_append (h_rev h) newroot appended u).

(** handleRPCSectorRoots (server.go:659-709): one round, revises with the same roots *)
Definition do_roots (h : host) (off len : nat) (lock_ok prices_ok sig_ok : bool) (u : usage)
    : option (host * out) :=
  let sectors := N.to_nat (r_size (h_rev h) / sector_size) in
  if negb lock_ok then None
  else if negb prices_ok then None
  else if bool_decide (len = 0) then None
  else if negb (bool_decide (off ≤ sectors ∧ len ≤ sectors - off)) then None
  else if negb (N.of_nat len <=? max_batch)%N then None
  else
    match revise_roots (h_rev h) u with
    | None => None
    | Some r' =>
        if negb sig_ok then None
        else if negb (bool_decide (off + len ≤ length (h_roots h))) then None (* slicing would panic *)
        else Some (mk_host (h_roots h) r' (h_account h), ORootsResp (take len (drop off (h_roots h))))
    end.

(** proto4.ReviseForFundAccounts + CreditAccountsWithContract: the revision pays [amount]
    (no risked collateral), the account receives it, the roots stay *)
Definition do_fund (h : host) (valid lock_ok sig_ok : bool) (amount : N) : option host :=
  if negb valid then None
  else if negb lock_ok then None
  else
    match pay (h_rev h) (mk_usage amount 0) with
    | None => None
    | Some r' => if negb sig_ok then None
                 else Some (mk_host (h_roots h) r' (h_account h + amount))
    end.

(** the account-paid RPCs: validate, look the sector up, debit, deliver — in this order
    (server.go: Validate, HasSector, DebitAccount, ReadSector). Nothing but the account
    balance changes, and it changes only when the service is delivered. *)
Definition do_acct (h : host) (valid has : bool) (cost : N) : option host :=
  if negb valid then None
  else if negb has then None                      (* ErrSectorNotFound, before the debit *)
  else if (h_account h <? cost)%N then None       (* DebitAccount: ErrNotEnoughFunds *)
  else Some (mk_host (h_roots h) (h_rev h) (h_account h - cost)).

(** the renter's signature arrives (server.go:313-337 and 394-410) *)
Definition on_sig (h : host) (p : pending) (valid : bool) : option host :=
  match p with
  | PFree newroots newroot deletions u =>
      match revise_free (h_rev h) newroot deletions u with
      | None => None
      | Some r' => if valid then Some (mk_host newroots r' (h_account h)) else None
      end
  | PAppend newroots newrev =>
      if valid then Some (mk_host newroots newrev (h_account h)) else None
  end.

(** one message arrives on the stream *)
Definition step (a : alias) (s : hst) (m : msg) : hst * list out :=
  let h := hs_host s in
  match hs_phase s, m with
  | PIdle, MReq (FreeReq idxs lk ch pr u) =>
      match begin_free a h idxs lk ch pr u with
      | Some (h', p) =>
          (mk_hst h' (PWait p), [OFreeResp (pending_root p)])
      | None => (mk_hst h PClosed, [OErr])
      end
  | PIdle, MReq (AppendReq sectors lk ch pr u) =>
      match begin_append h sectors lk ch pr u with
      | Some (o, Some p) => (mk_hst h (PWait p), [o])
      | Some (o, None) => (mk_hst h PClosed, [o; OErr])
      | None => (mk_hst h PClosed, [OErr])
      end
  | PIdle, MReq (RootsReq off len lk pr sg u) =>
      match do_roots h off len lk pr sg u with
      | Some (h', o) => (mk_hst h' PClosed, [o])
      | None => (mk_hst h PClosed, [OErr])
      end
  | PIdle, MReq (FundReq valid lk sg amount) =>
      match do_fund h valid lk sg amount with
      | Some h' => (mk_hst h' PClosed, [OHostSig])
      | None => (mk_hst h PClosed, [OErr])
      end
  | PIdle, MReq (AcctReq valid has cost) =>
      match do_acct h valid has cost with
      | Some h' => (mk_hst h' PClosed, [OPaid])
      | None => (mk_hst h PClosed, [OErr])
      end
  | PWait p, MSig valid =>
      match on_sig h p valid with
      | Some h' => (mk_hst h' PClosed, [OHostSig])
      | None => (mk_hst h PClosed, [OErr])
      end
  | PClosed, _ => (s, [])                       (* nobody is reading *)
  | _, _ => (mk_hst h PClosed, [OErr])          (* decoding error *)
  end.

(** What the renter side can do: open a new stream (abandoning the previous one at
    whatever point it had reached — the connection dropped, the renter stopped sending)
    or send the next message on the current stream. An abort is simply the absence of
    further messages. *)
Inductive event :=
| ENew
| EMsg (m : msg)
| EOther (r : request).
    (* a request on ANOTHER stream (complete if the RPC has one round, abandoned after its first
       message otherwise) while the current stream is where it
       is: if the current handler holds the contract lock (it waits for the signature), every
       contract RPC on the other stream is refused by LockV2Contract ("already locked"); the
       account-paid RPCs do not take the lock. *)

Definition step_ev (a : alias) (s : hst) (e : event) : hst :=
  match e with
  | ENew => mk_hst (hs_host s) PIdle
  | EMsg m => fst (step a s m)
  | EOther r =>
      match hs_phase s, r with
      | PWait p, AcctReq valid has cost =>
          match do_acct (hs_host s) valid has cost with
          | Some h' => mk_hst h' (PWait p)
          | None => s
          end
      | PWait _, _ => s                                   (* contract locked: refused *)
      | _, _ =>                                           (* no lock held: an ordinary stream *)
          mk_hst (hs_host (fst (step a (mk_hst (hs_host s) PIdle) (MReq r)))) (hs_phase s)
      end
  end.

Definition init (h : host) : hst := mk_hst h PClosed.
Definition exec (a : alias) (s : hst) (evs : list event) : hst := fold_left (step_ev a) evs s.

(** the outputs of the last stream, for the runner *)
Fixpoint exec_outs (a : alias) (s : hst) (evs : list event) (acc : list out) : hst * list out :=
  match evs with
  | [] => (s, acc)
  | ENew :: evs' => exec_outs a (mk_hst (hs_host s) PIdle) evs' []
  | EMsg m :: evs' => let '(s', o) := step a s m in exec_outs a s' evs' (acc ++ o)
  | EOther r :: evs' => exec_outs a (step_ev a s (EOther r)) evs' acc
  end.

(** ** The property's state predicate *)
Definition committed_ok (h : host) : Prop :=
  mroot (h_roots h) = r_root (h_rev h) ∧
  (N.of_nat (length (h_roots h)) * sector_size)%N = r_size (h_rev h).

(** a freshly formed contract *)
Definition fresh_host (funds hostval missed acct : N) : host :=
  mk_host [] (mk_rev 0 (mroot []) 0 0 funds hostval missed) acct.

(** proto4.RenewContract + Contractor.RenewV2Contract (testutil/host.go RenewV2Contract): the
    renewal is a new contract at revision 0 that commits to the file of the renewed one
    (capacity = file size) and stores a copy of its roots; the account is untouched. *)
Definition renew (h : host) (funds hostval missed : N) : host :=
  mk_host (h_roots h)
    (mk_rev 0 (r_root (h_rev h)) (r_size (h_rev h)) (r_size (h_rev h)) funds hostval missed)
    (h_account h).

(** the only events that can change the contractor's state: a valid renter signature, or
    a valid account-paid request for a sector the host has *)
Definition may_commit (e : event) : Prop :=
  match e with
  | EMsg (MSig true) => True
  | EMsg (MReq (RootsReq _ _ _ _ true _)) => True
  | EMsg (MReq (AcctReq true true _)) => True
  | EMsg (MReq (FundReq true true true _)) => True
  | EOther (RootsReq _ _ _ _ true _) => True
  | EOther (AcctReq true true _) => True
  | EOther (FundReq true true true _) => True
  | _ => False
  end.
