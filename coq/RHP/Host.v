(** * RHP/Host.v — the revision discipline of the RHP4 host (C08)

    Executable model, no proofs.  A transcription, check for check and in source
    order, of the revising handlers of [rhp/v4/server.go] (line numbers are those
    of the tree with the free-sectors repair, commit "fix: free sectors must not
    modify the contractor's roots before the renter signs"):

      settings 174-185 · free sectors 267-342 · append sectors 344-415 ·
      fund accounts 417-457 · replenish accounts 459-531 · replenish pools 533-602 ·
      latest revision 644-661 · sector roots 663-713 · form 731-871 ·
      refresh 873-1057 · renew 1059-1238

    together with what they call: the request validation and the [ReviseFor*],
    [RenewContract], [RefreshContract*] arithmetic of
    [go.sia.tech/core@v0.21.7/rhp/v4] ([rhp.go], [validation.go]; law L4: that
    transcription is validated by the correspondence run) and the reference
    [Contractor] of [testutil/host.go:100-410].

    - Amounts are [Z].  [types.Currency] is an unsigned 128-bit number whose
      [Add]/[Mul64]/[Sub] panic on overflow/underflow: [cadd]/[cmul]/[csub] return
      [None] for the panic, which [handleHostStream] (server.go:1274-1278)
      recovers without touching any state.  [uint64] subtraction wraps ([wrap64]).
    - Signatures are symbolic (DESIGN 3.3): [Sig k m], [verify k m s := s = Sig k m].
      The message of a revision signature is the whole revision record, so "a
      signature over exactly that revision" is term equality.
    - The renter is an arbitrary message sender: a request is a record whose every
      field is arbitrary, including every signature (any term, under any key) and
      the second message of the multi-round RPCs ([None] = the renter closed the
      stream or sent an error object).
    - What core computes from data that this model does not hold is a field of the
      abstract input (DESIGN 3.1): the Merkle root of the new root list
      ([newroot]), which of the offered sectors the sector store holds ([stored]),
      and whether the wallet / transaction pool steps of form, renew and refresh
      succeed ([chain1] before the host asks for signatures, [chain2] after).
    - One handler run under the contract lock is one step (DESIGN 3.4). *)
From stdpp Require Import gmap.
From Coq Require Import ZArith NArith.
Open Scope Z_scope.

(** ** Constants (core rhp/v4/rhp.go:16-39) *)
Definition SectorSize : Z := 4194304.
Definition ProofWindow : Z := 144.
Definition MinContractDuration : Z := 18.
Definition MaxSectorBatchSize : Z := 262144.      (* (1<<40)/SectorSize *)
Definition MaxAccountBatchSize : Z := 1000.
Definition u64 : Z := 18446744073709551616.
Definition u128 : Z := 340282366920938463463374607431768211456.

Definition is_u64 (x : Z) : bool := (0 <=? x) && (x <? u64).
Definition is_cur (x : Z) : bool := (0 <=? x) && (x <? u128).
Definition wrap64 (x : Z) : Z := x mod u64.

(** [types.Currency] arithmetic; [None] is the Go panic. *)
Definition cadd (a b : Z) : option Z := if a + b <? u128 then Some (a + b) else None.
Definition csub (a b : Z) : option Z := if b <=? a then Some (a - b) else None.
Definition cmul (a b : Z) : option Z := if a * b <? u128 then Some (a * b) else None.

(** ** Contracts, messages, signatures *)
Record contract := mk_contract {
  revnum : Z; renter_out : Z; host_out : Z; missed_host : Z; total_collateral : Z;
  filesize : Z; capacity : Z; root : N; rk : N; hk : N; proof_h : Z; exp_h : Z }.

(** the signed part of [rhp4.HostPrices] (rhp.go:207-218) *)
Record pbody := mk_pbody {
  contract_price : Z; collateral_price : Z; storage_price : Z; ingress_price : Z;
  egress_price : Z; free_sector_price : Z; tip_height : Z; valid_until : Z }.

(** the signed part of [types.V2FileContractRenewal] *)
Record renewal := mk_renewal {
  final_renter : Z; final_host : Z; renter_rollover : Z; host_rollover : Z;
  new_contract : contract }.

(** What gets signed.  [MChal] is the challenge of free/append (over [revnum+1],
    rhp.go:669-693) and of renew/refresh (over [revnum], rhp.go:697-721): the two
    hashes have the same preimage format.  [MChalRepl] is rhp.go:725-737. *)
Inductive msg :=
| MRev (c : contract)
| MChal (cid : N) (rn : Z)
| MChalRepl (accts : list N) (target : Z) (cid : N) (rn : Z)
| MPrices (p : pbody)
| MRenewal (r : renewal).

(** [SJunk 0] is the all-zero signature. *)
Inductive sig := Sig (k : N) (m : msg) | SJunk (n : N).

Global Instance contract_eq_dec : EqDecision contract.
Proof. solve_decision. Defined.
Global Instance pbody_eq_dec : EqDecision pbody.
Proof. solve_decision. Defined.
Global Instance renewal_eq_dec : EqDecision renewal.
Proof. solve_decision. Defined.
Global Instance msg_eq_dec : EqDecision msg.
Proof. solve_decision. Defined.
Global Instance sig_eq_dec : EqDecision sig.
Proof. solve_decision. Defined.

Definition verify (k : N) (m : msg) (s : sig) : Prop := s = Sig k m.
Definition verifyb (k : N) (m : msg) (s : sig) : bool := bool_decide (s = Sig k m).

Record prices := mk_prices { p_body : pbody; p_sig : sig }.

(** ** Host state *)
(** a contract held by the Contractor: latest revision, its two signatures, and the
    length of its root list (testutil/host.go:100-105) *)
Record centry := mk_centry { ce_rev : contract; ce_rsig : sig; ce_hsig : sig; ce_nroots : Z }.

Inductive ekind :=
| KForm                    (* AddV2Contract *)
| KRevise (cost : Z)       (* ReviseV2Contract / Credit*WithContract; [cost] = what the renter paid *)
| KRenew (from : N) (r : renewal) (rsig hsig : sig).   (* RenewV2Contract *)

(** one persisted revision: a call the server made on the Contractor that stored a contract *)
Record entry := mk_entry {
  e_cid : N; e_rev : contract; e_rsig : sig; e_hsig : sig; e_height : Z; e_kind : ekind }.

Record hstate := mk_hstate {
  h_contracts : gmap N centry;
  h_accounts : gmap N Z;
  h_pools : gmap N Z;
  h_log : list entry;          (* newest first *)
  h_issued : list pbody }.     (* price tables signed by handleRPCSettings, newest first *)

Definition h_init : hstate := mk_hstate ∅ ∅ ∅ [] [].

(** host configuration: key, settings (server.go:146-159, rhp.go:220-260) *)
Record cfg := mk_cfg {
  hostk : N; accepting : bool; max_collateral : Z; max_duration : Z;
  base_prices : pbody;         (* tip_height / valid_until of this record are not used *)
  validity : Z }.

(** Contract ids: a formation id is a transaction-derived hash, a renewal id is
    [V2RenewalID] of the renewed id.  Hashes are symbolic: formation ids are even,
    [renewal_id] is odd and injective, so the two never collide. *)
Definition form_id (txid : N) : N := (2 * txid)%N.
Definition renewal_id (cid : N) : N := (2 * cid + 1)%N.

(** ** Requests *)
Record deposit := mk_dep { d_acct : N; d_amt : Z }.

Inductive rpc :=
| RSettings
| RForm (txid : N) (p : prices) (rkey : N) (allowance collateral proof_height fee inputs : Z)
        (chain1 chain2 : bool) (csig : option sig)
| RLatest (cid : N)
| RFree (cid : N) (p : prices) (idxs : list Z) (chal : sig) (newroot : N) (rsig : option sig)
| RAppend (cid : N) (p : prices) (stored : list bool) (chal : sig) (newroot : N) (rsig : option sig)
| RFund (cid : N) (deps : list deposit) (rsig : sig)
| RReplenish (pool : bool) (cid : N) (accts : list N) (target : Z) (chal : sig) (rsig : option sig)
| RRoots (cid : N) (p : prices) (offset length : Z) (rsig : sig)
| RRenew (cid : N) (p : prices) (allowance collateral proof_height fee inputs : Z) (chal : sig)
         (chain1 chain2 : bool) (sigs : option (sig * sig))
| RRefresh (partial : bool) (cid : N) (p : prices) (allowance collateral fee inputs : Z) (chal : sig)
           (chain1 chain2 : bool) (sigs : option (sig * sig)).

(** the host's clock and tip while it handles the request *)
Record req := mk_req { q_now : Z; q_height : Z; q_rpc : rpc }.

Inductive verdict :=
| VOk            (* a contract / revision was persisted and the final response sent *)
| VOkNoRev       (* served without revising: settings, latest revision, replenish with nothing to deposit *)
| VDecode        (* the wire cannot carry the value, or the renter closed the stream / sent an error *)
| VNotAccepting
| VInvalid       (* request validation (structure, ranges) *)
| VPrices        (* price table expired or not signed by the host *)
| VLock          (* unknown contract, or not revisable (renewed, or proof window reached) *)
| VChallenge
| VPayment       (* PayWithContract: insufficient renter funds / host collateral *)
| VFunds         (* renter inputs below the renter's cost *)
| VChain         (* wallet / transaction pool step failed *)
| VSig           (* renter signature does not verify over the recomputed object *)
| VContractor    (* the Contractor refused to persist *)
| VPanic.        (* Go panic, recovered by handleHostStream *)

Global Instance verdict_eq_dec : EqDecision verdict.
Proof. solve_decision. Defined.

(** what a response shows: the verdict; the contract persisted or returned (with the
    length of its root list); the price table issued *)
Record resp := mk_resp { r_verdict : verdict; r_rev : option (N * contract * Z); r_prices : option prices }.

(** ** A result monad: [Fail v] leaves the state untouched *)
Inductive res (A : Type) := Ok (a : A) | Fail (v : verdict).
Arguments Ok {_} _.
Arguments Fail {_} _.
Definition rbind {A B} (e : res A) (f : A → res B) : res B :=
  match e with Ok a => f a | Fail v => Fail v end.
Notation "x ←ᵣ e ; f" := (rbind e (λ x, f)) (at level 20, e at level 100, f at level 200, right associativity, only parsing).
Notation "' p ←ᵣ e ; f" := (rbind e (λ p, f)) (at level 20, p pattern, e at level 100, f at level 200, right associativity, only parsing).
Definition check (b : bool) (v : verdict) : res unit := if b then Ok tt else Fail v.
Definition must {A} (o : option A) (v : verdict) : res A := match o with Some a => Ok a | None => Fail v end.
(** a Go panic *)
Definition np {A} (o : option A) : res A := must o VPanic.

(** ** Costs (rhp.go:67-204) *)
Definition round4k (n : Z) : Z := ((n + 4095) / 4096) * 4096.

Record usage := mk_usage { u_rpc : Z; u_storage : Z; u_egress : Z; u_ingress : Z; u_funding : Z; u_risked : Z }.

(** [Usage.RenterCost] (rhp.go:82-84) *)
Definition renter_cost (u : usage) : option Z :=
  a ← cadd (u_rpc u) (u_storage u); b ← cadd a (u_egress u); c ← cadd b (u_ingress u); cadd c (u_funding u).

(** [RPCSectorRootsCost] (rhp.go:175-179) *)
Definition roots_usage (p : pbody) (len : Z) : option usage :=
  e ← cmul (egress_price p) (round4k (32 * len)); Some (mk_usage 0 0 e 0 0 0).
(** [RPCFreeSectorsCost] (rhp.go:190-194) *)
Definition free_usage (p : pbody) (n : Z) : option usage :=
  r ← cmul (free_sector_price p) n; Some (mk_usage r 0 0 0 0 0).
(** [RPCAppendSectorsCost] (rhp.go:198-204) *)
Definition append_usage (p : pbody) (sectors dur : Z) : option usage :=
  s1 ← cmul (storage_price p) SectorSize; s2 ← cmul s1 sectors; s3 ← cmul s2 dur;
  i ← cmul (ingress_price p) (round4k (32 * sectors));
  c1 ← cmul (collateral_price p) SectorSize; c2 ← cmul c1 sectors; c3 ← cmul c2 dur;
  Some (mk_usage 0 s3 0 i 0 c3).

(** [PayWithContract] (rhp.go:844-860) *)
Definition pay (fc : contract) (u : usage) : res contract :=
  amount ←ᵣ np (renter_cost u);
  let coll := u_risked u in
  _ ←ᵣ check (negb (renter_out fc <? amount)) VPayment;
  _ ←ᵣ check (negb (missed_host fc <? coll)) VPayment;
  r' ←ᵣ np (csub (renter_out fc) amount);
  h' ←ᵣ np (cadd (host_out fc) amount);
  m' ←ᵣ np (csub (missed_host fc) coll);
  Ok (mk_contract (revnum fc + 1) r' h' m' (total_collateral fc) (filesize fc) (capacity fc)
        (root fc) (rk fc) (hk fc) (proof_h fc) (exp_h fc)).

Definition set_storage (fc : contract) (fs cap : Z) (rt : N) : contract :=
  mk_contract (revnum fc) (renter_out fc) (host_out fc) (missed_host fc) (total_collateral fc)
    fs cap rt (rk fc) (hk fc) (proof_h fc) (exp_h fc).

(** [ReviseForFreeSectors] (rhp.go:863-871) *)
Definition revise_free (fc : contract) (p : pbody) (newroot : N) (n : Z) : res (contract * Z) :=
  let fc1 := set_storage fc (wrap64 (filesize fc - SectorSize * n)) (capacity fc) (root fc) in
  u ←ᵣ np (free_usage p n);
  fc2 ←ᵣ pay fc1 u;
  cost ←ᵣ np (renter_cost u);
  Ok (set_storage fc2 (filesize fc2) (capacity fc2) newroot, cost).

(** [ReviseForAppendSectors] (rhp.go:874-884) *)
Definition append_growth (fc : contract) (appended : Z) : Z :=
  appended - Z.min appended (wrap64 (capacity fc - filesize fc) / SectorSize).
Definition revise_append (fc : contract) (p : pbody) (newroot : N) (appended : Z) : res (contract * Z) :=
  let growth := append_growth fc appended in
  let fc1 := set_storage fc (filesize fc + SectorSize * appended) (capacity fc + SectorSize * growth) newroot in
  u ←ᵣ np (append_usage p growth (wrap64 (exp_h fc - tip_height p)));
  fc2 ←ᵣ pay fc1 u;
  cost ←ᵣ np (renter_cost u);
  Ok (fc2, cost).

(** [ReviseForSectorRoots] (rhp.go:887-891) *)
Definition revise_roots (fc : contract) (p : pbody) (len : Z) : res (contract * Z) :=
  u ←ᵣ np (roots_usage p len);
  fc2 ←ᵣ pay fc u;
  cost ←ᵣ np (renter_cost u);
  Ok (fc2, cost).

(** [ReviseForFundAccounts] / [ReviseForReplenish] (rhp.go:894-905) *)
Definition revise_fund (fc : contract) (amount : Z) : res (contract * Z) :=
  fc2 ←ᵣ pay fc (mk_usage 0 0 0 0 amount 0);
  Ok (fc2, amount).

(** ** Validation (validation.go) *)
(** [HostPrices.Validate] (validation.go:17-25): [time.Until(ValidUntil) <= 0] is expired *)
Definition prices_valid (c : cfg) (now : Z) (p : prices) : bool :=
  negb (valid_until (p_body p) <=? now) && verifyb (hostk c) (MPrices (p_body p)) (p_sig p).

(** the wire cannot carry a negative or oversized number *)
Definition pbody_wire (p : pbody) : bool :=
  is_cur (contract_price p) && is_cur (collateral_price p) && is_cur (storage_price p) &&
  is_cur (ingress_price p) && is_cur (egress_price p) && is_cur (free_sector_price p) &&
  is_u64 (tip_height p).

(** [minProofHeight] (validation.go:369-375) *)
Definition min_proof_height (tip : Z) (p : pbody) : Z :=
  let h := Z.max tip (tip_height p) in
  if u64 - 1 - MinContractDuration <? h then u64 - 1 else h + MinContractDuration.

(** [MinRenterAllowance] (rhp.go:909-915) *)
Definition min_renter_allowance (p : pbody) (collateral : Z) : option Z :=
  if collateral_price p =? 0 then Some 0 else cmul (storage_price p) (collateral / collateral_price p).

(** [types.V2FileContract.RiskedCollateral] / [RiskedHostRevenue] (types.go:612-620) *)
Definition risked_collateral (fc : contract) : option Z := csub (total_collateral fc) (missed_host fc).
Definition risked_revenue (fc : contract) : option Z := csub (host_out fc) (total_collateral fc).

(** [consensus.State.V2FileContractTax] (state.go:396-398) *)
Definition tax (fc : contract) : option Z := s ← cadd (renter_out fc) (host_out fc); Some (s / 25).

(** duplicate-free, as the [seen] map of validation.go:84-93 *)
Fixpoint nodupb (l : list Z) : bool :=
  match l with [] => true | x :: l' => negb (bool_decide (x ∈ l')) && nodupb l' end.

(** ** Locking (server.go:163-172, testutil/host.go:142-171) *)
Definition is_renewed (s : hstate) (cid : N) : bool :=
  match h_contracts s !! renewal_id cid with Some _ => true | None => false end.
Definition lock_rev (s : hstate) (height : Z) (cid : N) : res centry :=
  ce ←ᵣ must (h_contracts s !! cid) VLock;
  _ ←ᵣ check (negb (is_renewed s cid) && (height <? proof_h (ce_rev ce))) VLock;
  Ok ce.

(** ** Persisting *)
Definition with_contract (s : hstate) (cid : N) (ce : centry) (e : entry) : hstate :=
  mk_hstate (<[cid := ce]> (h_contracts s)) (h_accounts s) (h_pools s) (e :: h_log s) (h_issued s).

Definition credit_map (m : gmap N Z) (deps : list deposit) : gmap N Z :=
  foldl (λ m d, <[d_acct d := default 0 (m !! d_acct d) + d_amt d]> m) m deps.
Definition credit (pool : bool) (s : hstate) (deps : list deposit) : hstate :=
  if pool then mk_hstate (h_contracts s) (h_accounts s) (credit_map (h_pools s) deps) (h_log s) (h_issued s)
  else mk_hstate (h_contracts s) (credit_map (h_accounts s) deps) (h_pools s) (h_log s) (h_issued s).

(** Verify the renter's signature over the recomputed revision, sign it, hand it
    to the Contractor (ReviseV2Contract / Credit*WithContract: testutil/host.go:247-268,
    294-320, 384-410, which re-check the revision number and both signatures). *)
Definition commit (c : cfg) (s : hstate) (height : Z) (cid : N) (ce : centry)
    (rev' : contract) (nroots' cost : Z) (rsig : sig) (deps : option (bool * list deposit)) : res (hstate * resp) :=
  _ ←ᵣ check (verifyb (rk (ce_rev ce)) (MRev rev') rsig) VSig;
  let hsig := Sig (hostk c) (MRev rev') in
  _ ←ᵣ check (revnum (ce_rev ce) <? revnum rev') VContractor;
  _ ←ᵣ check (verifyb (rk (ce_rev ce)) (MRev rev') rsig) VContractor;
  _ ←ᵣ check (verifyb (hk (ce_rev ce)) (MRev rev') hsig) VContractor;
  let s1 := match deps with Some (pool, ds) => credit pool s ds | None => s end in
  Ok (with_contract s1 cid (mk_centry rev' rsig hsig nroots')
        (mk_entry cid rev' rsig hsig height (KRevise cost)),
      mk_resp VOk (Some (cid, rev', nroots')) None).

(** ** Handlers *)

(** handleRPCSettings (server.go:174-185) *)
Definition h_settings (c : cfg) (s : hstate) (now height : Z) : res (hstate * resp) :=
  let b := base_prices c in
  let pb := mk_pbody (contract_price b) (collateral_price b) (storage_price b) (ingress_price b)
              (egress_price b) (free_sector_price b) height (now + validity c) in
  Ok (mk_hstate (h_contracts s) (h_accounts s) (h_pools s) (h_log s) (pb :: h_issued s),
      mk_resp VOkNoRev None (Some (mk_prices pb (Sig (hostk c) (MPrices pb))))).

(** handleRPCLatestRevision (server.go:644-661) *)
Definition h_latest (s : hstate) (cid : N) : res (hstate * resp) :=
  ce ←ᵣ must (h_contracts s !! cid) VLock;
  Ok (s, mk_resp VOkNoRev (Some (cid, ce_rev ce, ce_nroots ce)) None).

(** handleRPCFreeSectors (server.go:267-342) *)
Definition h_free (c : cfg) (s : hstate) (now height : Z) (cid : N) (p : prices) (idxs : list Z)
    (chal : sig) (newroot : N) (rsig : option sig) : res (hstate * resp) :=
  _ ←ᵣ check (pbody_wire (p_body p) && forallb is_u64 idxs) VDecode;                    (* 268-271 *)
  ce ←ᵣ lock_rev s height cid;                                                         (* 273-277 *)
  let existing := ce_rev ce in
  _ ←ᵣ check (verifyb (rk existing) (MChal cid (revnum existing + 1)) chal) VChallenge; (* 280-283 *)
  (* req.Validate, validation.go:78-95 *)
  _ ←ᵣ check (prices_valid c now p) VPrices;
  let n := Z.of_nat (length idxs) in
  _ ←ᵣ check (n <=? MaxSectorBatchSize) VInvalid;
  let sectors := filesize existing / SectorSize in
  _ ←ᵣ check (forallb (λ i, i <? sectors) idxs && nodupb idxs) VInvalid;
  _ ←ᵣ check (forallb (λ i, i <? ce_nroots ce) idxs) VInvalid;                          (* 291-295 *)
  (* response with the new Merkle root, then the renter's signature: 297-320 *)
  rs ←ᵣ must rsig VDecode;
  '(rev', cost) ←ᵣ revise_free existing (p_body p) newroot n;                          (* 322-325 *)
  commit c s height cid ce rev' (ce_nroots ce - n) cost rs None.                        (* 326-341 *)

(** handleRPCAppendSectors (server.go:344-415) *)
Definition count_true (l : list bool) : Z := Z.of_nat (length (filter (λ b, b = true) l)).
Definition h_append (c : cfg) (s : hstate) (now height : Z) (cid : N) (p : prices) (stored : list bool)
    (chal : sig) (newroot : N) (rsig : option sig) : res (hstate * resp) :=
  _ ←ᵣ check (pbody_wire (p_body p)) VDecode;                                           (* 345-348 *)
  (* req.Validate, validation.go:258-267 *)
  _ ←ᵣ check (prices_valid c now p) VPrices;                                            (* 350-352 *)
  let n := Z.of_nat (length stored) in
  _ ←ᵣ check (negb (n =? 0) && (n <=? MaxSectorBatchSize)) VInvalid;
  ce ←ᵣ lock_rev s height cid;                                                         (* 356-360 *)
  let existing := ce_rev ce in
  _ ←ᵣ check (verifyb (rk existing) (MChal cid (revnum existing + 1)) chal) VChallenge; (* 363-366 *)
  let appended := count_true stored in                                                 (* 368-380 *)
  (* response 382-390; the revision is computed before the signature is read: 392-395 *)
  '(rev', cost) ←ᵣ revise_append existing (p_body p) newroot appended;
  rs ←ᵣ must rsig VDecode;                                                              (* 398-400 *)
  commit c s height cid ce rev' (ce_nroots ce + appended) cost rs None.                 (* 401-414 *)

(** handleRPCFundAccounts (server.go:417-457) *)
Fixpoint sum_deposits (deps : list deposit) (acc : Z) : option Z :=
  match deps with [] => Some acc | d :: ds => a ← cadd acc (d_amt d); sum_deposits ds a end.
Definition h_fund (c : cfg) (s : hstate) (height : Z) (cid : N) (deps : list deposit) (rsig : sig) : res (hstate * resp) :=
  (* 418-420; a request with more than MaxAccountBatchSize entries exceeds the decoder's
     size limit (core rhp/v4/encoding.go:678-680, 634-636) *)
  _ ←ᵣ check (forallb (λ d, is_cur (d_amt d)) deps && (Z.of_nat (length deps) <=? MaxAccountBatchSize)) VDecode;
  (* req.Validate, validation.go:270-290 *)
  _ ←ᵣ check (negb (cid =? 0)%N && negb (bool_decide (rsig = SJunk 0))) VInvalid;
  let n := Z.of_nat (length deps) in
  _ ←ᵣ check (negb (n =? 0) && (n <=? MaxAccountBatchSize)) VInvalid;
  _ ←ᵣ check (forallb (λ d, negb (d_acct d =? 0)%N && negb (d_amt d =? 0)) deps) VInvalid;
  ce ←ᵣ lock_rev s height cid;                                                         (* 425-429 *)
  total ←ᵣ np (sum_deposits deps 0);                                                    (* 431-434 *)
  '(rev', cost) ←ᵣ revise_fund (ce_rev ce) total;                                      (* 436-439 *)
  commit c s height cid ce rev' (ce_nroots ce) cost rsig (Some (false, deps)).          (* 441-456 *)

(** handleRPCReplenishAccounts / handleRPCReplenishPools (server.go:459-536 / 538-612) *)
(** the deposit of each listed account is [target - balance], where deposits already
    planned for the same account earlier in the batch count towards its balance
    (commit "fix: replenish must not credit an account or pool listed twice beyond the target") *)
Fixpoint replenish_deposits_from (bal pending : gmap N Z) (accts : list N) (target : Z) : list deposit :=
  match accts with
  | [] => []
  | a :: rest =>
      let b := default 0 (bal !! a) + default 0 (pending !! a) in
      let amt := if target <? b then 0 else target - b in
      mk_dep a amt :: replenish_deposits_from bal (<[a := default 0 (pending !! a) + amt]> pending) rest target
  end.
Definition replenish_deposits (bal : gmap N Z) (accts : list N) (target : Z) : list deposit :=
  replenish_deposits_from bal ∅ accts target.
Definition h_replenish (c : cfg) (s : hstate) (height : Z) (pool : bool) (cid : N) (accts : list N)
    (target : Z) (chal : sig) (rsig : option sig) : res (hstate * resp) :=
  _ ←ᵣ check (is_cur target && (Z.of_nat (length accts) <=? MaxAccountBatchSize)) VDecode; (* 460-462 *)
  (* req.Validate, validation.go:293-312 *)
  _ ←ᵣ check (negb (cid =? 0)%N && negb (bool_decide (chal = SJunk 0))) VInvalid;
  let n := Z.of_nat (length accts) in
  _ ←ᵣ check (negb (n =? 0) && (n <=? MaxAccountBatchSize) && negb (target =? 0)) VInvalid;
  _ ←ᵣ check (forallb (λ a, negb (a =? 0)%N) accts) VInvalid;
  ce ←ᵣ lock_rev s height cid;                                                         (* 468-472 *)
  let existing := ce_rev ce in
  _ ←ᵣ check (verifyb (rk existing) (MChalRepl accts target cid (revnum existing)) chal) VChallenge; (* 475-478 *)
  let deps := replenish_deposits (if pool then h_pools s else h_accounts s) accts target in  (* 480-498 *)
  total ←ᵣ np (sum_deposits deps 0);
  if total =? 0 then Ok (s, mk_resp VOkNoRev None None) else                            (* 500-504 *)
  '(rev', cost) ←ᵣ revise_fund existing total;                                         (* 506-509 *)
  rs ←ᵣ must rsig VDecode;                                                              (* 511-514 *)
  commit c s height cid ce rev' (ce_nroots ce) cost rs (Some (pool, deps)).             (* 516-530 *)

(** handleRPCSectorRoots (server.go:663-713) *)
Definition h_roots (c : cfg) (s : hstate) (now height : Z) (cid : N) (p : prices) (offset len : Z) (rsig : sig)
    : res (hstate * resp) :=
  _ ←ᵣ check (pbody_wire (p_body p) && is_u64 offset && is_u64 len) VDecode;           (* 664-667 *)
  ce ←ᵣ lock_rev s height cid;                                                         (* 669-673 *)
  let existing := ce_rev ce in
  (* req.Validate, validation.go:98-113 *)
  _ ←ᵣ check (prices_valid c now p) VPrices;                                            (* 676-678 *)
  let sectors := filesize existing / SectorSize in
  _ ←ᵣ check (negb (len =? 0) && negb (sectors <? offset) && negb (sectors - offset <? len)
              && (len <=? MaxSectorBatchSize)) VInvalid;
  '(rev', cost) ←ᵣ revise_roots existing (p_body p) len;                               (* 682-685 *)
  commit c s height cid ce rev' (ce_nroots ce) cost rsig None.                          (* 688-702 *)

(** [NewContract] (rhp.go:790-812) *)
Definition new_contract_of (c : cfg) (p : pbody) (rkey : N) (allowance collateral proof_height : Z) : option contract :=
  ho ← cadd collateral (contract_price p);
  Some (mk_contract 0 allowance ho collateral collateral 0 0 0%N rkey (hostk c) proof_height
          (wrap64 (proof_height + ProofWindow))).

(** handleRPCFormContract (server.go:731-871); the funding side is C16's, here only
    what decides whether a contract is stored and with which fields *)
Definition h_form (c : cfg) (s : hstate) (now height : Z) (txid : N) (p : prices) (rkey : N)
    (allowance collateral proof_height fee inputs : Z) (chain1 chain2 : bool) (csig : option sig)
    : res (hstate * resp) :=
  _ ←ᵣ check (pbody_wire (p_body p) && is_cur allowance && is_cur collateral && is_u64 proof_height
              && is_cur fee && is_cur inputs) VDecode;                                  (* 732-735 *)
  _ ←ᵣ check (accepting c) VNotAccepting;                                               (* 737-740 *)
  (* req.Validate, validation.go:116-154 *)
  _ ←ᵣ check (prices_valid c now p) VPrices;
  let pb := p_body p in
  let mph := min_proof_height height pb in
  _ ←ᵣ check (negb (fee =? 0) && negb (proof_height <? mph) && negb (u64 - 1 - ProofWindow <? proof_height)
              && negb (max_duration c <? wrap64 (proof_height + ProofWindow - tip_height pb))) VInvalid;
  mra ←ᵣ np (min_renter_allowance pb collateral);
  _ ←ᵣ check (negb (allowance =? 0) && negb (max_collateral c <? collateral) && negb (allowance <? mra)) VInvalid;
  fc ←ᵣ np (new_contract_of c pb rkey allowance collateral proof_height);               (* 749 *)
  (* ContractCost, rhp.go:815-820 *)
  cc ←ᵣ np (csub (host_out fc) (total_collateral fc));
  t ←ᵣ np (tax fc);
  rc ←ᵣ np (a ← cadd (renter_out fc) cc; b ← cadd a fee; cadd b t);
  _ ←ᵣ check (negb (inputs <? rc)) VFunds;                                              (* 768-770 *)
  _ ←ᵣ check chain1 VChain;                                                             (* 780-813 *)
  cs ←ᵣ must csig VDecode;                                                              (* 816-821 *)
  _ ←ᵣ check (verifyb rkey (MRev fc) cs) VSig;                                          (* 824-827 *)
  let hsig := Sig (hostk c) (MRev fc) in                                               (* 836 *)
  _ ←ᵣ check chain2 VChain;                                                             (* 840-852 *)
  (* AddV2Contract, testutil/host.go:174-201 *)
  let cid := form_id txid in
  _ ←ᵣ check (verifyb (rk fc) (MRev fc) cs && verifyb (hk fc) (MRev fc) hsig) VContractor;
  _ ←ᵣ check (match h_contracts s !! cid with Some _ => false | None => true end) VContractor;
  Ok (with_contract s cid (mk_centry fc cs hsig 0) (mk_entry cid fc cs hsig height KForm),
      mk_resp VOk (Some (cid, fc, 0)) None).

(** common tail of renew and refresh: input funding check, the two signatures,
    RenewV2Contract (server.go:1102-1238 / 916-1056, testutil/host.go:205-243) *)
Definition finish_renewal (c : cfg) (s : hstate) (height : Z) (cid : N) (ce : centry) (r : renewal)
    (renter_cost_ : Z) (inputs : Z) (chain1 chain2 : bool) (sigs : option (sig * sig)) : res (hstate * resp) :=
  let existing := ce_rev ce in
  _ ←ᵣ check (negb (inputs <? renter_cost_)) VFunds;                                    (* 1111-1113 *)
  _ ←ᵣ check chain1 VChain;                                                             (* 1121-1175 *)
  '(rnsig, csig) ←ᵣ must sigs VDecode;                                                 (* 1178-1183 *)
  _ ←ᵣ check (verifyb (rk existing) (MRenewal r) rnsig) VSig;                           (* 1186-1189 *)
  let rnh := Sig (hostk c) (MRenewal r) in
  _ ←ᵣ check (verifyb (rk existing) (MRev (new_contract r)) csig) VSig;                 (* 1193-1196 *)
  let hsig := Sig (hostk c) (MRev (new_contract r)) in
  _ ←ᵣ check chain2 VChain;                                                             (* 1207-1219 *)
  let nid := renewal_id cid in
  _ ←ᵣ check (match h_contracts s !! nid with Some _ => false | None => true end) VContractor;
  _ ←ᵣ check (verifyb (rk existing) (MRev (new_contract r)) csig
              && verifyb (hk existing) (MRev (new_contract r)) hsig) VContractor;
  Ok (with_contract s nid (mk_centry (new_contract r) csig hsig (ce_nroots ce))
        (mk_entry nid (new_contract r) csig hsig height (KRenew cid r rnsig rnh)),
      mk_resp VOk (Some (nid, new_contract r, ce_nroots ce)) None).

(** [RenewContract] (rhp.go:928-991) *)
Definition renew_contract (fc : contract) (p : pbody) (allowance collateral proof_height : Z) : option renewal :=
  let exp' := wrap64 (proof_height + ProofWindow) in
  rc1 ← cmul (collateral_price p) (filesize fc);
  risked ← cmul rc1 (wrap64 (exp' - tip_height p));
  total ← cadd collateral risked;
  sc1 ← cmul (storage_price p) (filesize fc);
  storage ← cmul sc1 (wrap64 (exp' - exp_h fc));
  ho1 ← cadd total storage;
  ho ← cadd ho1 (contract_price p);
  let hroll := if total <? total_collateral fc then total else total_collateral fc in
  fh ← csub (host_out fc) hroll;
  let rroll := if allowance <? renter_out fc then allowance else renter_out fc in
  fr ← csub (renter_out fc) rroll;
  let nc := mk_contract 0 allowance ho collateral total (filesize fc) (filesize fc) (root fc)
              (rk fc) (hk fc) proof_height exp' in
  (* the usage is computed with Sub calls that can panic: rhp.go:986-990 *)
  _ ← csub ho total; _ ← csub (ho - total) (contract_price p); _ ← risked_collateral nc;
  Some (mk_renewal fr fh rroll hroll nc).

(** handleRPCRenewContract (server.go:1059-1238) *)
Definition h_renew (c : cfg) (s : hstate) (now height : Z) (cid : N) (p : prices)
    (allowance collateral proof_height fee inputs : Z) (chal : sig) (chain1 chain2 : bool)
    (sigs : option (sig * sig)) : res (hstate * resp) :=
  _ ←ᵣ check (pbody_wire (p_body p) && is_cur allowance && is_cur collateral && is_u64 proof_height
              && is_cur fee && is_cur inputs) VDecode;                                  (* 1060-1063 *)
  _ ←ᵣ check (accepting c) VNotAccepting;                                               (* 1065-1068 *)
  _ ←ᵣ check (prices_valid c now p) VPrices;                                            (* 1071-1074 *)
  ce ←ᵣ lock_rev s height cid;                                                         (* 1077-1081 *)
  let existing := ce_rev ce in
  let pb := p_body p in
  (* req.Validate, validation.go:157-201 *)
  let mph := min_proof_height height pb in
  _ ←ᵣ check (negb (fee =? 0) && negb (proof_height <=? proof_h existing) && negb (proof_height <? mph)
              && negb (u64 - 1 - ProofWindow <? proof_height)
              && negb (max_duration c <? wrap64 (proof_height + ProofWindow - tip_height pb))) VInvalid;
  let duration := wrap64 (proof_height + ProofWindow - tip_height pb) in
  mra ←ᵣ np (min_renter_allowance pb collateral);
  rc1 ←ᵣ np (cmul (collateral_price pb) (filesize existing));
  risked ←ᵣ np (cmul rc1 duration);
  totalc ←ᵣ np (cadd collateral risked);
  _ ←ᵣ check (negb (allowance =? 0) && negb (max_collateral c <? totalc) && negb (allowance <? mra)) VInvalid;
  _ ←ᵣ check (verifyb (rk existing) (MChal cid (revnum existing)) chal) VChallenge;     (* 1090-1093 *)
  r ←ᵣ np (renew_contract existing pb allowance collateral proof_height);               (* 1096 *)
  (* RenewalCost, rhp.go:823-828 *)
  let nc := new_contract r in
  cc ←ᵣ np (csub (host_out nc) (total_collateral nc));
  t ←ᵣ np (tax nc);
  rcost ←ᵣ np (a ← cadd (renter_out nc) cc; b ← cadd a fee; d ← cadd b t; csub d (renter_rollover r));
  _ ←ᵣ np (csub (total_collateral nc) (host_rollover r));
  finish_renewal c s height cid ce r rcost inputs chain1 chain2 sigs.

(** [RefreshContractPartialRollover] / [RefreshContractFullRollover] (rhp.go:994-1077) *)
Definition refresh_contract (partial : bool) (fc : contract) (p : pbody) (allowance collateral : Z) : option renewal :=
  if partial then
    rrev ← risked_revenue fc; rcol ← risked_collateral fc;
    a ← cadd rrev rcol; b ← cadd a collateral; ho ← cadd b (contract_price p);
    total ← cadd rcol collateral;
    hfunds ← csub ho (contract_price p);
    let hroll := if hfunds <? host_out fc then hfunds else host_out fc in
    fh ← csub (host_out fc) hroll;
    rfunds ← cadd allowance (contract_price p);
    let rroll := if rfunds <? renter_out fc then rfunds else renter_out fc in
    fr ← csub (renter_out fc) rroll;
    let nc := mk_contract 0 allowance ho collateral total (filesize fc) (capacity fc) (root fc)
                (rk fc) (hk fc) (proof_h fc) (exp_h fc) in
    _ ← risked_collateral nc;
    Some (mk_renewal fr fh rroll hroll nc)
  else
    ro ← cadd (renter_out fc) allowance;
    a ← cadd (host_out fc) collateral; ho ← cadd a (contract_price p);
    mh ← cadd (missed_host fc) collateral;
    total ← cadd (total_collateral fc) collateral;
    let nc := mk_contract 0 ro ho mh total (filesize fc) (capacity fc) (root fc)
                (rk fc) (hk fc) (proof_h fc) (exp_h fc) in
    _ ← risked_collateral nc;
    Some (mk_renewal 0 0 (renter_out fc) (host_out fc) nc).

(** handleRPCRefreshContract (server.go:873-1057) *)
Definition h_refresh (c : cfg) (s : hstate) (now height : Z) (partial : bool) (cid : N) (p : prices)
    (allowance collateral fee inputs : Z) (chal : sig) (chain1 chain2 : bool)
    (sigs : option (sig * sig)) : res (hstate * resp) :=
  _ ←ᵣ check (pbody_wire (p_body p) && is_cur allowance && is_cur collateral
              && is_cur fee && is_cur inputs) VDecode;                                  (* 874-877 *)
  _ ←ᵣ check (accepting c) VNotAccepting;                                               (* 879-882 *)
  _ ←ᵣ check (prices_valid c now p) VPrices;                                            (* 885-888 *)
  ce ←ᵣ lock_rev s height cid;                                                         (* 891-895 *)
  let existing := ce_rev ce in
  let pb := p_body p in
  _ ←ᵣ check (verifyb (rk existing) (MChal cid (revnum existing)) chal) VChallenge;     (* 898-901 *)
  (* req.Validate, validation.go:204-243 *)
  let mph := min_proof_height height pb in
  _ ←ᵣ check (negb (fee =? 0) && negb (proof_h existing <=? mph)) VInvalid;
  mra ←ᵣ np (min_renter_allowance pb collateral);
  thc ←ᵣ np (if partial then rc ← risked_collateral existing; cadd rc collateral
             else cadd (total_collateral existing) collateral);
  _ ←ᵣ check (negb (allowance =? 0) && negb (allowance <? mra) && negb (max_collateral c <? thc)) VInvalid;
  r ←ᵣ np (refresh_contract partial existing pb allowance collateral);                  (* 909-915 *)
  (* RefreshCost, rhp.go:831-839 *)
  let nc := new_contract r in
  t ←ᵣ np (tax nc);
  rcost ←ᵣ np (a ← cadd (renter_out nc) (contract_price pb); b ← csub a (renter_rollover r);
               d ← cadd b fee; cadd d t);
  _ ←ᵣ np (a ← csub (host_out nc) (contract_price pb); csub a (host_rollover r));
  finish_renewal c s height cid ce r rcost inputs chain1 chain2 sigs.

(** ** One step, and runs *)
Definition handle (c : cfg) (s : hstate) (q : req) : res (hstate * resp) :=
  let now := q_now q in let height := q_height q in
  match q_rpc q with
  | RSettings => h_settings c s now height
  | RForm txid p rkey al co ph fee inp c1 c2 cs => h_form c s now height txid p rkey al co ph fee inp c1 c2 cs
  | RLatest cid => h_latest s cid
  | RFree cid p idxs chal nr rs => h_free c s now height cid p idxs chal nr rs
  | RAppend cid p st chal nr rs => h_append c s now height cid p st chal nr rs
  | RFund cid deps rs => h_fund c s height cid deps rs
  | RReplenish pool cid accts target chal rs => h_replenish c s height pool cid accts target chal rs
  | RRoots cid p off len rs => h_roots c s now height cid p off len rs
  | RRenew cid p al co ph fee inp chal c1 c2 sg => h_renew c s now height cid p al co ph fee inp chal c1 c2 sg
  | RRefresh pt cid p al co fee inp chal c1 c2 sg => h_refresh c s now height pt cid p al co fee inp chal c1 c2 sg
  end.

Definition step (c : cfg) (s : hstate) (q : req) : hstate * resp :=
  match handle c s q with
  | Ok sr => sr
  | Fail v => (s, mk_resp v None None)
  end.

Definition run (c : cfg) (s : hstate) (qs : list req) : hstate := foldl (λ s q, (step c s q).1) s qs.
