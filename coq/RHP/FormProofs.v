(** * RHP/FormProofs.v — proofs about the model of RHP/Form.v (C16)

    Host theorems quantify over every environment (validation, basis relation, pool
    verdicts) and over *every* pair of messages the renter side may send, including
    none (stream closed) — an arbitrary, possibly malicious renter.  Renter theorems
    quantify over every pair of messages the host side may send.  The theorems about
    [attempt] put the two real parties together over a stream that can be cut at each
    of the four messages. *)
From stdpp Require Import gmap.
From Coq Require Import ZArith NArith List Lia.
From CV Require Import RHP.Form.
Import ListNotations.
Local Open Scope Z_scope.

(** ** Wallet *)
Lemma insert_desc_In u x l : In x (insert_desc u l) ↔ x = u ∨ In x l.
Proof.
  induction l as [|v l IH]; simpl; [naive_solver|].
  destruct (u_val v <=? u_val u); simpl; [naive_solver|]. rewrite IH. naive_solver.
Qed.

Lemma sort_desc_In x l : In x (sort_desc l) ↔ In x l.
Proof.
  induction l as [|u l IH]; simpl; [done|]. rewrite insert_desc_In, IH. naive_solver.
Qed.

Lemma take_until_In amt l : ∀ acc s a x, take_until amt acc l = (s, a) → In x s → In x l.
Proof.
  induction l as [|u l IH]; simpl; intros acc s a x H Hin.
  - injection H as <- <-. done.
  - destruct (amt <=? acc); [injection H as <- <-; done|].
    destruct (take_until amt (acc + u_val u) l) as [s' a'] eqn:E. injection H as <- <-.
    destruct Hin as [->|Hin]; [by left|]. right. eapply IH; eauto.
Qed.

Lemma take_until_sum amt l : ∀ acc s a, take_until amt acc l = (s, a) → a = acc + usum s.
Proof.
  induction l as [|u l IH]; simpl; intros acc s a H.
  - injection H as <- <-. simpl. lia.
  - destruct (amt <=? acc); [injection H as <- <-; simpl; lia|].
    destruct (take_until amt (acc + u_val u) l) as [s' a'] eqn:E. injection H as <- <-.
    apply IH in E. simpl. lia.
Qed.

Lemma avail_In w b u : In u (avail w b) → In u (w_utxos w) ∧ u_id u ∉ w_locked w.
Proof.
  unfold avail. rewrite filter_In. intros [? H]. apply andb_true_iff in H as [H _].
  apply bool_decide_eq_true in H. done.
Qed.

Lemma usum_app a b : usum (a ++ b) = usum a + usum b.
Proof. induction a; simpl; lia. Qed.

Lemma fund_spec w amt uu sel w' :
  fund w amt uu = Some (sel, w') →
  w_utxos w' = w_utxos w ∧
  w_locked w' = w_locked w ∪ list_to_set (uids sel) ∧
  (∀ u, In u sel → In u (w_utxos w) ∧ u_id u ∉ w_locked w) ∧
  (0 < amt → amt ≤ usum sel) ∧ (amt ≤ 0 → sel = []).
Proof.
  unfold fund. destruct (amt <=? 0) eqn:E0.
  - intros H. injection H as <- <-. apply Z.leb_le in E0. simpl.
    repeat split; [set_solver|done|lia|done].
  - apply Z.leb_gt in E0.
    destruct (take_until amt 0 (sort_desc (avail w false))) as [s1 a1] eqn:E1.
    destruct (if uu then take_until amt a1 (sort_desc (avail w true)) else ([], a1)) as [s2 a2] eqn:E2.
    destruct (a2 <? amt) eqn:E3; [done|]. apply Z.ltb_ge in E3.
    intros H. injection H as <- <-. simpl.
    assert (∀ u, In u (s1 ++ s2) → In u (w_utxos w) ∧ u_id u ∉ w_locked w) as Hsel.
    { intros u Hin. apply in_app_or in Hin as [Hin|Hin].
      - eapply take_until_In in Hin; eauto. apply sort_desc_In, avail_In in Hin. done.
      - destruct uu; [|injection E2 as <- <-; done].
        eapply take_until_In in Hin; eauto. apply sort_desc_In, avail_In in Hin. done. }
    split; [done|]. split; [done|]. split; [done|]. split; [|lia].
    intros _. apply take_until_sum in E1. rewrite usum_app.
    destruct uu.
    + apply take_until_sum in E2. lia.
    + injection E2 as <- <-. simpl. lia.
Qed.

Lemma uids_not_locked (L : gset N) sel :
  (∀ u, In u sel → u_id u ∉ L) → list_to_set (C := gset N) (uids sel) ## L.
Proof.
  intros H i Hi HL. apply elem_of_list_to_set, elem_of_list_In in Hi.
  unfold uids in Hi. apply in_map_iff in Hi as (u & <- & Hu). by apply (H u).
Qed.

(** releasing what was funded restores the wallet *)
Lemma release_fund w amt uu sel w' :
  fund w amt uu = Some (sel, w') → release w' (uids sel) = w.
Proof.
  intros H. apply fund_spec in H as (Hu & Hl & Hsel & _).
  destruct w as [us L], w' as [us' L']. simpl in *. subst. unfold release. simpl. f_equal.
  apply leibniz_equiv. pose proof (uids_not_locked L sel (λ u Hin, proj2 (Hsel u Hin))). set_solver.
Qed.

(** releasing more than was funded never keeps anything new locked *)
Lemma release_fund_extra w amt uu sel w' extra :
  fund w amt uu = Some (sel, w') →
  w_utxos (release w' (uids sel ++ extra)) = w_utxos w ∧
  w_locked (release w' (uids sel ++ extra)) = w_locked w ∖ list_to_set extra.
Proof.
  intros H. apply fund_spec in H as (Hu & Hl & Hsel & _).
  destruct w as [us L], w' as [us' L']. simpl in *. subst. split; [done|].
  apply leibniz_equiv. pose proof (uids_not_locked L sel (λ u Hin, proj2 (Hsel u Hin))).
  rewrite list_to_set_app_L. set_solver.
Qed.

Lemma verify_true k m s : verify k m s = true → s = Sig k m.
Proof. unfold verify. apply bool_decide_eq_true. Qed.

Lemma filter_all_true {A} (f : A → bool) l : (∀ x, In x l → f x = true) → List.filter f l = l.
Proof.
  induction l as [|a l IH]; simpl; intros H; [done|].
  rewrite (H a (or_introl eq_refl)). f_equal. apply IH. intros x Hx. apply H. by right.
Qed.

Lemma count_in_self sel : count_in (uids sel) (uids sel) = length sel.
Proof.
  unfold count_in. rewrite filter_all_true.
  - unfold uids. apply map_length.
  - intros i Hi. apply bool_decide_eq_true. by apply elem_of_list_In.
Qed.

Lemma pool_verdict_true e rin : pool_verdict e rin = true → e_pool_ok e = true.
Proof. unfold pool_verdict. intros H. by apply andb_true_iff in H as [? _]. Qed.

#[local] Opaque fund release verify psum pids uids count_in pool_verdict.

(** ** Host: symbolic execution of the three handlers *)
Ltac hstep :=
  match goal with
  | |- context [match ?m with Some _ => _ | None => _ end] => is_var m; destruct m
  | |- context [match fund ?w ?a ?u with _ => _ end] => destruct (fund w a u) as [[? ?]|] eqn:?
  | |- context [match rebase_verdict ?b with _ => _ end] => destruct (rebase_verdict b) as [[|]|] eqn:?
  | |- context [match e_elem_rebase ?b with _ => _ end] => destruct (e_elem_rebase b) as [[|]|] eqn:?
  | |- context [if ?b then _ else _] => destruct b eqn:?
  end; cbn.

Ltac hrun k := unfold host_run, host_run_prog; destruct k; cbn -[deferred]; unfold cont; repeat hstep.

(** A failed or abandoned attempt leaves the contractor and the broadcast list as they
    were — before and after the repair. *)
Lemma host_failure_no_contract fixed k e h m1 m2 :
  ho_ok (host_run fixed k e h m1 m2) = false →
  h_contracts (ho_host (host_run fixed k e h m1 m2)) = h_contracts h ∧
  h_bcast (ho_host (host_run fixed k e h m1 m2)) = h_bcast h ∧
  h_pool (ho_host (host_run fixed k e h m1 m2)) = h_pool h.
Proof. hrun k; try discriminate; done. Qed.

(** A failed or abandoned attempt leaves the (repaired) host's wallet as it was. *)
Lemma host_failure_releases k e h m1 m2 :
  ho_ok (host_run true k e h m1 m2) = false →
  h_wallet (ho_host (host_run true k e h m1 m2)) = h_wallet h.
Proof. hrun k; try discriminate; try reflexivity; intros _; eapply release_fund; eauto. Qed.

Definition host_terms (h : host) (r : req) : cterms :=
  mk_terms (ct_id (rq_terms r)) (ct_rk (rq_terms r)) (h_key h) (ct_rfund (rq_terms r)) (ct_hfund (rq_terms r)).

(** What a committed run looks like. *)
Lemma host_success fixed k e h m1 m2 :
  ho_ok (host_run fixed k e h m1 m2) = true →
  ∃ r s sel w' c,
    m1 = Some r ∧ m2 = Some s ∧
    fund (h_wallet h) (ct_hfund (rq_terms r)) false = Some (sel, w') ∧
    ho_host (host_run fixed k e h m1 m2) =
      mk_host (h_key h) w' (c :: h_contracts h)
        (mk_tset (e_tip e) (rq_parents r) (mk_atxn c (pids (rq_inputs r)) (uids sel)) :: h_pool h)
        (mk_tset (e_tip e) (rq_parents r) (mk_atxn c (pids (rq_inputs r)) (uids sel)) :: h_bcast h) ∧
    sent_final (ho_sent (host_run fixed k e h m1 m2)) =
      Some (mk_final (e_tip e) (S (rq_parents r)) true (mk_atxn c (pids (rq_inputs r)) (uids sel))) ∧
    ho_funded (host_run fixed k e h m1 m2) = sel ∧
    co_terms c = host_terms h r ∧ co_rsig c = rs_csig s ∧ doubly_signed k c ∧
    e_pool_ok e = true.
Proof.
  hrun k; try discriminate; intros _;
    repeat match goal with H : verify _ _ _ = true |- _ => apply verify_true in H end;
    (eexists _, _, _, _, _; split; [reflexivity|]; split; [reflexivity|]; split; [eassumption|];
     split; [reflexivity|]; split; [reflexivity|]; split; [reflexivity|];
     split; [reflexivity|]; split; [reflexivity|]; split;
     [unfold doubly_signed; cbn; repeat split; congruence|by eapply pool_verdict_true]).
Qed.

(** What a committed run returns is exactly what its pool accepted: the set, and the basis
    that set's proofs were made for (the chain manager's tip, not the funding basis). *)
Lemma host_success_returns_pooled fixed k e h m1 m2 :
  ho_ok (host_run fixed k e h m1 m2) = true →
  ∃ set f, h_pool (ho_host (host_run fixed k e h m1 m2)) = set :: h_pool h ∧
    sent_final (ho_sent (host_run fixed k e h m1 m2)) = Some f ∧
    f_basis f = ts_basis set ∧ f_txn f = ts_txn set ∧ f_len f = S (ts_parents set) ∧
    ts_basis set = e_tip e.
Proof.
  intros H. destruct (host_success _ _ _ _ _ _ H) as (r & s & sel & w' & c & _ & _ & _ & Hh & Hf & _).
  eexists _, _. rewrite Hh, Hf. simpl. repeat split; reflexivity.
Qed.

(** The failing traces of the (repaired) model are admissible: the relaxed comparison of
    Run_C16 contains the model's own behaviour. *)
Lemma host_failure_admissible k e h m1 m2 :
  ho_ok (host_run true k e h m1 m2) = false →
  admissible_failure k (ho_calls (host_run true k e h m1 m2)) = true.
Proof.
  hrun k; try discriminate; intros _; rewrite ?count_in_self; cbn; rewrite ?Nat.eqb_refl; reflexivity.
Qed.

(** The final response is only ever sent by a run that committed. *)
Lemma host_final_sent_ok fixed k e h m1 m2 f :
  sent_final (ho_sent (host_run fixed k e h m1 m2)) = Some f →
  ho_ok (host_run fixed k e h m1 m2) = true.
Proof. hrun k; try discriminate; done. Qed.

(** The host inputs are sent before the signatures are read. *)
Lemma host_inputs_indep fixed k e h m1 m2 :
  sent_inputs (ho_sent (host_run fixed k e h m1 m2)) = sent_inputs (ho_sent (host_run fixed k e h m1 None)) ∨
  sent_inputs (ho_sent (host_run fixed k e h m1 None)) = None.
Proof. hrun k; auto. Qed.

(** On success exactly the funded outputs are locked in addition, they are the host's
    own, were spendable, and cover the host's share. *)
Lemma host_success_locks fixed k e h m1 m2 :
  ho_ok (host_run fixed k e h m1 m2) = true →
  ∃ r, m1 = Some r ∧
  let sel := ho_funded (host_run fixed k e h m1 m2) in
  let w' := h_wallet (ho_host (host_run fixed k e h m1 m2)) in
  w_utxos w' = w_utxos (h_wallet h) ∧
  w_locked w' = w_locked (h_wallet h) ∪ list_to_set (uids sel) ∧
  (∀ u, In u sel → In u (w_utxos (h_wallet h)) ∧ u_id u ∉ w_locked (h_wallet h)) ∧
  (0 < ct_hfund (rq_terms r) → ct_hfund (rq_terms r) ≤ usum sel).
Proof.
  intros H. destruct (host_success _ _ _ _ _ _ H) as (r & s & sel & w' & c & -> & -> & Hf & Hh & _ & Hs & _).
  exists r. split; [done|]. cbn zeta. rewrite Hh, Hs. simpl.
  apply fund_spec in Hf as (? & ? & ? & ? & ?). done.
Qed.

(** Any number of failed attempts leaves wallet and contractor of the repaired host
    untouched. *)
Lemma host_attempts_failures l : ∀ h h' oks,
  host_attempts true h l = (h', oks) → Forall (λ b, b = false) oks →
  h_wallet h' = h_wallet h ∧ h_contracts h' = h_contracts h.
Proof.
  induction l as [|a l IH]; simpl; intros h h' oks H Hall.
  - injection H as <- <-. done.
  - destruct (host_attempts true (ho_host (host_run true (ha_kind a) (ha_env a) h (ha_m1 a) (ha_m2 a))) l)
      as [h2 oks2] eqn:E. injection H as <- <-.
    inversion Hall as [|? ? Hf Hall']; subst.
    destruct (IH _ _ _ E Hall') as [Hw Hc]. rewrite Hw, Hc.
    split; [by apply host_failure_releases|by apply host_failure_no_contract].
Qed.

Lemma spendable_wallet w w' : w' = w → spendable w' = spendable w.
Proof. by intros ->. Qed.

(** ** Renter *)
Ltac rstep :=
  match goal with
  | |- context [match ?m with Some _ => _ | None => _ end] => is_var m; destruct m
  | |- context [match fund ?w ?a ?u with _ => _ end] => destruct (fund w a u) as [[? ?]|] eqn:?
  | |- context [match co_hrsig ?c with _ => _ end] => destruct (co_hrsig c) eqn:?
  | |- context [if ?b then _ else _] => destruct b eqn:?
  end; cbn.

Ltac rrun k := unfold renter_run, r_fail; destruct k; cbn; repeat rstep.

Lemma renter_failure_no_contract fixed k re r t m2 m4 :
  ro_ok (renter_run fixed k re r t m2 m4) = false →
  r_contracts (ro_renter (renter_run fixed k re r t m2 m4)) = r_contracts r.
Proof. rrun k; try discriminate; done. Qed.

(** ids the host side named as its inputs *)
Definition named (m2 : option hinputs) : list N :=
  match m2 with Some hi => pids (hi_inputs hi) | None => [] end.

(** After a failed call of the repaired renter function nothing it reserved is still
    locked: the locked set is the old one minus, at most, ids the host named. *)
Lemma renter_failure_releases k re r t m2 m4 :
  ro_ok (renter_run true k re r t m2 m4) = false →
  let w' := r_wallet (ro_renter (renter_run true k re r t m2 m4)) in
  w_utxos w' = w_utxos (r_wallet r) ∧
  w_locked w' ⊆ w_locked (r_wallet r) ∧
  w_locked (r_wallet r) ∖ list_to_set (named m2) ⊆ w_locked w'.
Proof.
  rrun k; try discriminate; intros _;
    try (split; [reflexivity|split; set_solver]);
    match goal with
    | H : fund _ _ _ = Some _ |- context [release _ (?a ++ ?b)] =>
        destruct (release_fund_extra _ _ _ _ _ b H) as [-> ->]
    | H : fund _ _ _ = Some _ |- _ =>
        rewrite <- (app_nil_r (uids _)); destruct (release_fund_extra _ _ _ _ _ [] H) as [-> ->]
    end; (split; [reflexivity|split; set_solver]).
Qed.

Lemma renter_failure_releases_exact k re r t m2 m4 :
  ro_ok (renter_run true k re r t m2 m4) = false →
  (∀ i, i ∈ named m2 → i ∉ w_locked (r_wallet r)) →
  r_wallet (ro_renter (renter_run true k re r t m2 m4)) = r_wallet r.
Proof.
  intros H Hn. destruct (renter_failure_releases _ _ _ _ _ _ H) as (Hu & H1 & H2).
  destruct (r_wallet (ro_renter (renter_run true k re r t m2 m4))) as [us L], (r_wallet r) as [us0 L0].
  simpl in *. subst. f_equal. apply leibniz_equiv.
  assert (L0 ∖ list_to_set (named m2) ≡ L0) as Heq; [|set_solver].
  apply set_equiv. intros i. rewrite elem_of_difference, elem_of_list_to_set. specialize (Hn i). tauto.
Qed.

(** What a successful call looks like. *)
Lemma renter_success fixed k re r t m2 m4 :
  ro_ok (renter_run fixed k re r t m2 m4) = true →
  ∃ sel w hi f c,
    fund (r_wallet r) (ct_rfund t) true = Some (sel, w) ∧
    re_txset_ok re = true ∧ re_dial_ok re = true ∧ re_write1_ok re = true ∧ re_write3_ok re = true ∧
    m2 = Some hi ∧ m4 = Some f ∧ (max_currency <? psum (hi_inputs hi)) = false ∧
    (psum (hi_inputs hi) <? ct_hfund t) = false ∧
    ro_renter (renter_run fixed k re r t m2 m4) = mk_renter (r_key r) w (c :: r_contracts r) ∧
    ro_funded (renter_run fixed k re r t m2 m4) = sel ∧
    co_hsig (at_contract (f_txn f)) = Sig (ct_hk t) (MContract t) ∧
    (if is_renewal k
     then c = at_contract (f_txn f) ∧ co_hrsig c = Some (Sig (ct_hk t) (MRenewal t))
     else c = mk_contract t (Sig (r_key r) (MContract t)) (co_hsig (at_contract (f_txn f))) None None ∧
          co_terms (at_contract (f_txn f)) = t).
Proof.
  rrun k; try discriminate; intros _;
    repeat match goal with
           | H : negb _ = false |- _ => apply negb_false_iff in H
           | H : _ && _ = true |- _ => apply andb_true_iff in H as [? ?]
           | H : _ || _ = false |- _ => apply orb_false_iff in H as [? ?]
           | H : verify _ _ _ = true |- _ => apply verify_true in H
           | H : bool_decide _ = true |- _ => apply bool_decide_eq_true in H
           end;
    eexists _, _, _, _, _; repeat (split; [first [eassumption|reflexivity|tauto|congruence]|]);
    first [split; [reflexivity|congruence] | split; [reflexivity|tauto] | idtac];
    try tauto; try congruence.
Qed.

(** what the renter sends depends only on what it has received so far *)
Lemma renter_sent0 fixed k re r t sel w :
  fund (r_wallet r) (ct_rfund t) true = Some (sel, w) →
  re_txset_ok re = true → re_dial_ok re = true → re_write1_ok re = true →
  sent_req (ro_sent (renter_run fixed k re r t None None)) =
    Some (mk_req t (map (λ u, (u_id u, u_val u)) sel) (re_parents re)).
Proof. intros Hf H1 H2 H3. unfold renter_run, r_fail. rewrite Hf, H1, H2, H3. destruct k; reflexivity. Qed.

Lemma renter_sent1 fixed k re r t sel w hi :
  fund (r_wallet r) (ct_rfund t) true = Some (sel, w) →
  re_txset_ok re = true → re_dial_ok re = true → re_write1_ok re = true → re_write3_ok re = true →
  (max_currency <? psum (hi_inputs hi)) = false →
  (psum (hi_inputs hi) <? ct_hfund t) = false →
  sent_sigs (ro_sent (renter_run fixed k re r t (Some hi) None)) =
    Some (mk_rsigs (Sig (r_key r) (MContract t)) (Sig (r_key r) (MRenewal t)) (length sel)).
Proof.
  intros Hf H1 H2 H3 H4 H0 H5. unfold renter_run, r_fail. rewrite Hf, H1, H2, H3, H4, H0, H5.
  destruct k; reflexivity.
Qed.

Lemma renter_success_locks fixed k re r t m2 m4 :
  ro_ok (renter_run fixed k re r t m2 m4) = true →
  let sel := ro_funded (renter_run fixed k re r t m2 m4) in
  let w' := r_wallet (ro_renter (renter_run fixed k re r t m2 m4)) in
  w_utxos w' = w_utxos (r_wallet r) ∧
  w_locked w' = w_locked (r_wallet r) ∪ list_to_set (uids sel) ∧
  (∀ u, In u sel → In u (w_utxos (r_wallet r)) ∧ u_id u ∉ w_locked (r_wallet r)) ∧
  (0 < ct_rfund t → ct_rfund t ≤ usum sel).
Proof.
  intros H. destruct (renter_success _ _ _ _ _ _ _ H)
    as (sel & w & hi & f & c & Hf & _ & _ & _ & _ & _ & _ & _ & _ & Hr & Hs & _).
  cbn zeta. rewrite Hr, Hs. simpl. apply fund_spec in Hf as (? & ? & ? & ? & ?). done.
Qed.

(** ** Both parties *)
Lemma via_some {A} c (m : option A) x : via c m = Some x → c = Deliver ∧ m = Some x.
Proof. destruct c; simpl; [done|discriminate]. Qed.

(** If the renter function reports success, the host committed, both hold the same
    contract, it carries both parties' signatures over the terms the renter asked for,
    and the set that contains it passed the host's pool and was broadcast. *)
Lemma attempt_success_agreement fixed k e re sc h r t :
  ro_ok (ao_renter (attempt fixed k e re sc h r t)) = true →
  ho_ok (ao_host (attempt fixed k e re sc h r t)) = true ∧
  ∃ c set,
    r_contracts (ro_renter (ao_renter (attempt fixed k e re sc h r t))) = c :: r_contracts r ∧
    h_contracts (ho_host (ao_host (attempt fixed k e re sc h r t))) = c :: h_contracts h ∧
    doubly_signed k c ∧ co_terms c = t ∧ ct_rk t = r_key r ∧ ct_hk t = h_key h ∧
    at_contract (ts_txn set) = c ∧ e_pool_ok e = true ∧
    h_pool (ho_host (ao_host (attempt fixed k e re sc h r t))) = set :: h_pool h ∧
    h_bcast (ho_host (ao_host (attempt fixed k e re sc h r t))) = set :: h_bcast h.
Proof.
  unfold attempt.
  destruct (fund (r_wallet r) (ct_rfund t) true) as [[sel w]|] eqn:Hf.
  2:{ cbn [negb ao_renter]. intros Hok. apply renter_success in Hok as (? & ? & ? & ? & ? & ? & ? & ? & ? & ? & Hm2 & _).
      discriminate Hm2. }
  destruct (re_txset_ok re && re_dial_ok re) eqn:Hd; cbn [negb].
  2:{ cbn [ao_renter]. intros Hok. apply renter_success in Hok as (? & ? & ? & ? & ? & ? & ? & ? & ? & ? & Hm2 & _).
      discriminate Hm2. }
  cbn [ao_renter ao_host]. intros Hok.
  destruct (renter_success _ _ _ _ _ _ _ Hok)
    as (sel' & w' & hi & f & c & Hf' & H1 & H2 & H3 & H4 & Hm2 & Hm4 & Hovf & Hsum & Hr & _ & Hhs & Hc).
  rewrite Hf in Hf'. injection Hf' as <- <-.
  apply via_some in Hm4 as [_ Hfin].
  pose proof (host_final_sent_ok _ _ _ _ _ _ _ Hfin) as Hhok.
  split; [exact Hhok|].
  destruct (host_success _ _ _ _ _ _ Hhok)
    as (rq & sg & hsel & hw' & hc & Hm1 & Hm3 & Hhf & Hhost & Hsf & _ & Hct & Hrs & Hds & Hpool).
  rewrite Hsf in Hfin. injection Hfin as <-.
  apply via_some in Hm1 as [_ Hm1]. apply via_some in Hm3 as [_ Hm3].
  rewrite (renter_sent0 _ _ _ _ _ _ _ Hf H1 H2 H3) in Hm1. injection Hm1 as <-.
  rewrite Hm2 in Hm3. rewrite (renter_sent1 _ _ _ _ _ _ _ _ Hf H1 H2 H3 H4 Hovf Hsum) in Hm3. injection Hm3 as <-.
  (* the renter's signature binds the terms the host used *)
  simpl in Hhs, Hc, Hrs, Hct.
  pose proof Hds as Hds0. destruct Hds as (Hrsig & Hhsig & Hren).
  rewrite Hrs in Hrsig. simpl in Hrsig. injection Hrsig as Hk Ht.
  assert (co_terms hc = t) as Hterms by congruence.
  assert (ct_hk t = h_key h) as Hhk by (rewrite <- Hterms, Hct; reflexivity).
  assert (ct_rk t = r_key r) as Hrk by (rewrite <- Hterms at 1; congruence).
  exists hc, (mk_tset (e_tip e) (re_parents re) (mk_atxn hc (pids (map (λ u, (u_id u, u_val u)) sel)) (uids hsel))).
  rewrite Hhost, Hr. simpl.
  assert (c = hc) as ->.
  { destruct (is_renewal k) eqn:Hk'.
    - tauto.
    - destruct Hc as [-> _]. destruct Hren as [Hn1 Hn2].
      destruct hc as [ht hrs hhs hrr hhr]. simpl in *. subst. congruence. }
  split; [reflexivity|]. split; [reflexivity|]. split; [exact Hds0|]. split; [exact Hterms|].
  split; [exact Hrk|]. split; [exact Hhk|]. split; [reflexivity|]. split; [exact Hpool|].
  split; reflexivity.
Qed.

(** A failed or abandoned attempt: the host records nothing, the renter holds nothing
    new, the host's wallet is as before, the renter's utxos are as before and nothing it
    reserved stays locked. *)
Lemma attempt_failure_no_trace k e re sc h r t :
  let a := attempt true k e re sc h r t in
  (ho_ok (ao_host a) = false →
     h_contracts (ho_host (ao_host a)) = h_contracts h ∧ h_wallet (ho_host (ao_host a)) = h_wallet h) ∧
  (ro_ok (ao_renter a) = false →
     r_contracts (ro_renter (ao_renter a)) = r_contracts r ∧
     w_locked (r_wallet (ro_renter (ao_renter a))) ⊆ w_locked (r_wallet r)).
Proof.
  cbn zeta. unfold attempt.
  destruct (negb _) eqn:Hd; cbn [ao_host ao_renter ho_ok ho_host].
  - split; [done|]. intros H. split; [by apply renter_failure_no_contract|].
    by apply renter_failure_releases in H as (_ & ? & _).
  - split.
    + intros H. split; [by apply host_failure_no_contract|by apply host_failure_releases].
    + intros H. split; [by apply renter_failure_no_contract|].
      by apply renter_failure_releases in H as (_ & ? & _).
Qed.

(** ** The code before the repairs *)
Definition w3 : wallet := mk_wallet [mk_utxo 1 100 false; mk_utxo 2 300 false; mk_utxo 3 200 false] ∅.
Definition h3 : host := mk_host 2 w3 [] [] [].
Definition t3 : cterms := mk_terms 7 1 2 120 350.
Definition e_unknown : env := mk_env true true true BUnknown None true true true true 5 5.
Definition e_same : env := mk_env true true true BSame None true true true true 5 5.
Definition rq3 : req := mk_req t3 [(11%N, 150)] 0.

(** F7: with the deferred release reading the truncated transaction, a request with an
    unknown basis leaves the funded host outputs locked — in all three handlers. *)
Lemma release_prefix_refuted : ∀ k,
  ∃ e h m1 m2, ho_ok (host_run false k e h m1 m2) = false ∧
    w_locked (h_wallet (ho_host (host_run false k e h m1 m2))) ≠ w_locked (h_wallet h).
Proof.
  intros k. exists e_unknown, h3, (Some rq3), None. split; [by destruct k; vm_compute|].
  intros H. apply (f_equal (λ s : gset N, bool_decide (2%N ∈ s))) in H.
  destruct k; vm_compute in H; discriminate.
Qed.

(** The same deferred release also released what the renter named: a failed request that
    lists an output the host had reserved for another exchange unlocked it. *)
Lemma release_prefix_overrelease_refuted : ∀ k,
  ∃ e h m1 m2, ho_ok (host_run false k e h m1 m2) = false ∧
    (9%N ∈ w_locked (h_wallet h)) ∧
    ¬ (9%N ∈ w_locked (h_wallet (ho_host (host_run false k e h m1 m2)))).
Proof.
  intros k.
  exists e_same, (mk_host 2 (mk_wallet [mk_utxo 1 100 false; mk_utxo 2 300 false; mk_utxo 9 500 false] {[9%N]}) [] [] []),
    (Some (mk_req t3 [(11%N, 150); (9%N, 500)] 0)), None.
  split; [by destruct k; vm_compute|]. split; [set_solver|].
  intros H.
  assert (bool_decide (9%N ∈ w_locked (h_wallet (ho_host (host_run false k e_same
    (mk_host 2 (mk_wallet [mk_utxo 1 100 false; mk_utxo 2 300 false; mk_utxo 9 500 false] {[9%N]}) [] [] [])
    (Some (mk_req t3 [(11%N, 150); (9%N, 500)] 0)) None)))) = true) as Hb by (by apply bool_decide_eq_true_2).
  destruct k; vm_compute in Hb; discriminate.
Qed.

(** the repaired handlers leave it reserved (hypothesis and conclusion of
    [host_failure_releases] on the same run) *)
Example ex_foreign_input_fixed : ∀ k,
  let h := mk_host 2 (mk_wallet [mk_utxo 1 100 false; mk_utxo 2 300 false; mk_utxo 9 500 false] {[9%N]}) [] [] [] in
  let o := host_run true k e_same h (Some (mk_req t3 [(11%N, 150); (9%N, 500)] 0)) None in
  ho_ok o = false ∧ h_wallet (ho_host o) = h_wallet h.
Proof. intros k. cbn zeta. split; [by destruct k; vm_compute|]. apply host_failure_releases. by destruct k; vm_compute. Qed.

(** ... and every repetition locks more: after three such requests nothing is left. *)
Lemma release_prefix_exhausts :
  ∃ l h, Forall (λ b, b = false) (snd (host_attempts false h l)) ∧
         spendable (h_wallet h) ≠ [] ∧ spendable (h_wallet (fst (host_attempts false h l))) = [].
Proof.
  exists (repeat (mk_hattempt KForm e_unknown (Some (mk_req (mk_terms 7 1 2 120 90) [(11%N, 150)] 0)) None) 3), h3.
  split; [vm_compute; repeat constructor|]. split; [vm_compute; discriminate|]. vm_compute. reflexivity.
Qed.

Definition r3 : renter := mk_renter 1 (mk_wallet [mk_utxo 11 100 false; mk_utxo 12 50 false] ∅) [].
Definition re_nodial : renv := mk_renv true false true true 0.
Definition re_ok : renv := mk_renv true true true true 0.

(** the renew / refresh renter functions did not release when dialing failed *)
Lemma renter_dial_prefix_refuted : ∀ k, is_renewal k = true →
  ∃ re r t, ro_ok (renter_run false k re r t None None) = false ∧
    w_locked (r_wallet (ro_renter (renter_run false k re r t None None))) ≠ w_locked (r_wallet r).
Proof.
  intros k Hk. exists re_nodial, r3, t3. split; [by destruct k; vm_compute|].
  intros H. apply (f_equal (λ s : gset N, bool_decide (11%N ∈ s))) in H.
  destruct k; try discriminate Hk; vm_compute in H; discriminate.
Qed.

(** ** Non-vacuity: the hypotheses of the theorems above are met by concrete runs *)
Definition all_delivered : sched := mk_sched Deliver Deliver Deliver Deliver.

Example ex_success_form :
  let a := attempt true KForm e_same re_ok all_delivered h3 r3 t3 in
  ro_ok (ao_renter a) = true ∧ ho_ok (ao_host a) = true ∧
  ho_calls (ao_host a) = [CFund 2; CTxSet true; CPoolSet true; CRecord; CBroadcast] ∧
  length (h_contracts (ho_host (ao_host a))) = 1%nat.
Proof. vm_compute. done. Qed.

Example ex_success_renew :
  let a := attempt true KRenew (mk_env true true true (BBehind true) None true true true true 5 8) re_ok all_delivered h3 r3 t3 in
  ro_ok (ao_renter a) = true ∧ ho_ok (ao_host a) = true ∧
  ho_calls (ao_host a) = [CElement true; CFund 2; CUpdate true; CTxSet true; CPoolSet true; CRecord; CBroadcast].
Proof. vm_compute. done. Qed.

Example ex_success_refresh :
  let a := attempt true KRefresh e_same re_ok all_delivered h3 r3 t3 in
  ro_ok (ao_renter a) = true ∧ ho_ok (ao_host a) = true.
Proof. vm_compute. done. Qed.

(** a failure after the host reserved: the repaired host releases both outputs *)
Example ex_failure_releases :
  let o := host_run true KForm e_unknown h3 (Some rq3) None in
  ho_ok o = false ∧ ho_calls o = [CFund 2; CUpdate false; CRelease 2] ∧
  elements (w_locked (h_wallet (ho_host o))) = [].
Proof. vm_compute. done. Qed.

(** the host committed but the final response was lost: the renter fails and releases *)
Example ex_cut4 :
  let a := attempt true KForm e_same re_ok (mk_sched Deliver Deliver Deliver Cut) h3 r3 t3 in
  ho_ok (ao_host a) = true ∧ ro_ok (ao_renter a) = false ∧
  ro_calls (ao_renter a) = [RFund 2; RRelease 2] ∧
  elements (w_locked (r_wallet (ro_renter (ao_renter a)))) = [].
Proof. vm_compute. done. Qed.

(** a failed renter call whose counterpart named outputs: hypothesis of the exact version *)
Example ex_renter_failure_named :
  let o := renter_run true KForm re_ok r3 t3 (Some (mk_hinputs [(2%N, 300); (3%N, 200)])) None in
  ro_ok o = false ∧ (∀ i, i ∈ named (Some (mk_hinputs [(2%N, 300); (3%N, 200)])) → i ∉ w_locked (r_wallet r3)).
Proof. split; [by vm_compute|]. intros i _. vm_compute. set_solver. Qed.

Example ex_attempts_failures :
  let l := repeat (mk_hattempt KRenew e_unknown (Some rq3) None) 50 in
  Forall (λ b, b = false) (snd (host_attempts true h3 l)) ∧ length l = 50%nat.
Proof. split; [|reflexivity]. vm_compute. repeat constructor. Qed.

(** a run in which the two bases differ (hypothesis of the lemma above with e_fund_basis <> e_tip) *)
Example ex_returns_tip_basis :
  let e := mk_env true true true (BHostBehind true) None true true true true 5 8 in
  let o := host_run true KForm e h3 (Some rq3) (Some (mk_rsigs (Sig 1 (MContract t3)) (SigJunk 0) 1)) in
  ho_ok o = true ∧ e_fund_basis e ≠ e_tip e ∧
  match sent_final (ho_sent o) with Some f => f_basis f = 8%N | None => False end.
Proof. vm_compute. repeat split; discriminate. Qed.

(** the element lookup fails (unconfirmed formation, store error): nothing was reserved yet,
    the hypothesis of [host_failure_releases] at this failure point *)
Example ex_element_lookup_fails : ∀ k, is_renewal k = true →
  let e := mk_env true true false BSame None true true true true 5 5 in
  let o := host_run true k e h3 (Some rq3) None in
  ho_ok o = false ∧ ho_calls o = [CElement false] ∧ elements (w_locked (h_wallet (ho_host o))) = [].
Proof. intros k Hk. destruct k; try discriminate Hk; vm_compute; done. Qed.

(** values that cannot be summed in 128 bits: the host refuses before it reserves anything,
    the repaired renter function refuses and releases (hypotheses of the release theorems at
    these failure points) *)
Example ex_overflowing_renter_inputs : ∀ k,
  let o := host_run true k e_same h3
             (Some (mk_req t3 [(11%N, max_currency); (12%N, max_currency)] 0)) None in
  ho_ok o = false ∧ elements (w_locked (h_wallet (ho_host o))) = [] ∧
  match ho_calls o with [] => True | _ => False end.
Proof. intros k. destruct k; vm_compute; done. Qed.

Example ex_overflowing_host_inputs : ∀ k,
  let o := renter_run true k re_ok r3 t3
             (Some (mk_hinputs [(2%N, max_currency); (3%N, max_currency)])) None in
  ro_ok o = false ∧ ro_calls o = [RFund 2; RRelease 2] ∧
  elements (w_locked (r_wallet (ro_renter o))) = [].
Proof. intros k. destruct k; vm_compute; done. Qed.

(** the host's share is zero: it funds and reserves nothing and the exchange still commits *)
Example ex_zero_host_cost :
  let a := attempt true KRefresh e_same re_ok all_delivered h3 r3 (mk_terms 7 1 2 120 0) in
  ro_ok (ao_renter a) = true ∧ ho_ok (ao_host a) = true ∧
  ho_calls (ao_host a) = [CElement true; CFund 0; CTxSet true; CPoolSet true; CRecord; CBroadcast] ∧
  elements (w_locked (h_wallet (ho_host (ao_host a)))) = [].
Proof. vm_compute. done. Qed.
