(** * RHP/AccountsProofs.v — the ledger theorems of C15 about the model of RHP/Accounts.v *)
From Coq Require Import ZArith NArith List Lia.
From stdpp Require Import gmap.
From CV Require Import RHP.Accounts.
Open Scope Z_scope.

(** ** Balances and sums over maps *)
Lemma bal_insert m k v j : bal (<[k := v]> m) j = if decide (j = k) then v else bal m j.
Proof.
  unfold bal. destruct (decide (j = k)) as [->|Hne].
  - by rewrite lookup_insert.
  - by rewrite lookup_insert_ne.
Qed.
Lemma bal_insert_eq m k v : bal (<[k := v]> m) k = v.
Proof. rewrite bal_insert. by destruct (decide (k = k)). Qed.
Lemma bal_insert_ne m k v j : j ≠ k → bal (<[k := v]> m) j = bal m j.
Proof. intros. rewrite bal_insert. by destruct (decide (j = k)). Qed.
Lemma bal_empty k : bal ∅ k = 0.
Proof. unfold bal. by rewrite lookup_empty. Qed.

Lemma msum_empty {A} (f : A → Z) : msum f ∅ = 0.
Proof. unfold msum. by rewrite map_fold_empty. Qed.

Lemma msum_insert_None {A} (f : A → Z) m k v :
  m !! k = None → msum f (<[k := v]> m) = f v + msum f m.
Proof.
  intros Hk. unfold msum. rewrite map_fold_insert_L; [done| |done].
  intros. lia.
Qed.

Lemma msum_insert {A} (f : A → Z) m k v :
  msum f (<[k := v]> m) = msum f m - from_option f 0 (m !! k) + f v.
Proof.
  destruct (m !! k) as [x|] eqn:Hk; simpl.
  - rewrite <- (insert_delete m k x Hk) at 2.
    rewrite <- insert_delete_insert.
    rewrite !msum_insert_None by apply lookup_delete. lia.
  - rewrite msum_insert_None by done. lia.
Qed.

Lemma msum_id_insert m k v : msum id (<[k := v]> m) = msum id m - bal m k + v.
Proof. rewrite msum_insert. unfold bal. destruct (m !! k); simpl; unfold id; lia. Qed.

Definition nonneg (m : gmap N Z) : Prop := ∀ k, 0 ≤ bal m k.

Lemma nonneg_empty : nonneg ∅.
Proof. intros k. by rewrite bal_empty. Qed.
Lemma nonneg_insert m k v : nonneg m → 0 ≤ v → nonneg (<[k := v]> m).
Proof. intros Hm Hv j. rewrite bal_insert. destruct (decide (j = k)); auto. Qed.

(** ** Sums of deposits *)
Definition sum_for (k : N) (deps : list (N * Z)) : Z :=
  fold_right (λ d acc, if decide (d.1 = k) then d.2 + acc else acc) 0 deps.

Lemma credited_app a b : credited (a ++ b) = credited a + credited b.
Proof. induction a as [|[] a IH]; simpl; lia. Qed.
Lemma debited_app a b : debited (a ++ b) = debited a + debited b.
Proof. induction a as [|[] a IH]; simpl; lia. Qed.
Lemma moved_from_renter_app a b : moved_from_renter (a ++ b) = moved_from_renter a + moved_from_renter b.
Proof. induction a as [|[] a IH]; simpl; lia. Qed.
Lemma moved_to_host_app a b : moved_to_host (a ++ b) = moved_to_host a + moved_to_host b.
Proof. induction a as [|[] a IH]; simpl; lia. Qed.

Lemma credited_credits pool deps :
  credited (map (λ d : N * Z, EvCredit pool d.1 d.2) deps) = sum_amounts deps.
Proof. induction deps as [|[k a] deps IH]; simpl; lia. Qed.
Lemma debited_credits pool deps : debited (map (λ d : N * Z, EvCredit pool d.1 d.2) deps) = 0.
Proof. induction deps as [|[k a] deps IH]; simpl; lia. Qed.
Lemma from_renter_credits pool deps :
  moved_from_renter (map (λ d : N * Z, EvCredit pool d.1 d.2) deps) = 0.
Proof. induction deps as [|[k a] deps IH]; simpl; lia. Qed.
Lemma to_host_credits pool deps :
  moved_to_host (map (λ d : N * Z, EvCredit pool d.1 d.2) deps) = 0.
Proof. induction deps as [|[k a] deps IH]; simpl; lia. Qed.

Lemma sum_amounts_nonneg deps : Forall (λ d : N * Z, 0 ≤ d.2) deps → 0 ≤ sum_amounts deps.
Proof. induction 1; simpl; lia. Qed.

(** ** Crediting *)
Lemma credit_all_spec deps : ∀ m m' bs,
  credit_all m deps = (m', bs) →
  msum id m' = msum id m + sum_amounts deps ∧
  (∀ k, bal m' k = bal m k + sum_for k deps) ∧
  length bs = length deps.
Proof.
  induction deps as [|[k a] deps IH]; intros m m' bs H; simpl in *.
  - inversion H; subst. repeat split; auto; intros; lia.
  - destruct (credit_all (<[k := bal m k + a]> m) deps) as [m1 bs1] eqn:E.
    inversion H; subst. destruct (IH _ _ _ E) as (Hs & Hb & Hl).
    repeat split.
    + rewrite Hs, msum_id_insert. lia.
    + intros j. rewrite Hb, bal_insert. destruct (decide (j = k)), (decide (k = j)); subst; try congruence; lia.
    + simpl. lia.
Qed.

Lemma sum_for_nonneg k deps : Forall (λ d : N * Z, 0 ≤ d.2) deps → 0 ≤ sum_for k deps.
Proof. induction 1 as [|[] ? ? ?]; simpl in *; [lia|]. destruct (decide _); lia. Qed.

Lemma credit_all_nonneg deps m m' bs :
  credit_all m deps = (m', bs) → nonneg m → Forall (λ d : N * Z, 0 ≤ d.2) deps → nonneg m'.
Proof.
  intros H Hm Hd k. destruct (credit_all_spec _ _ _ _ H) as (_ & Hb & _).
  rewrite Hb. pose proof (Hm k). pose proof (sum_for_nonneg k deps Hd). lia.
Qed.

(** ** Debiting *)
Lemma pool_sum_nonneg ps l : nonneg ps → 0 ≤ pool_sum ps l.
Proof. intros Hp. induction l; simpl; [lia|]. pose proof (Hp a). lia. Qed.

(** the first loop decides exactly "own balance plus all attached pools < cost" *)
Lemma drawable_upto_lt ps cost l : nonneg ps → ∀ d,
  drawable_upto ps cost d l < cost ↔ d + pool_sum ps l < cost.
Proof.
  intros Hp. induction l as [|p l IH]; intros d; simpl.
  - lia.
  - pose proof (Hp p). pose proof (pool_sum_nonneg ps l Hp).
    destruct (decide (cost ≤ d)).
    + lia.
    + rewrite IH. lia.
Qed.

Lemma take_from_spec b r : take_from b r = Z.min b r.
Proof. unfold take_from. destruct (decide (r < b)); lia. Qed.

Lemma pool_sum_insert_notin ps p v l : p ∉ l → pool_sum (<[p := v]> ps) l = pool_sum ps l.
Proof.
  induction l as [|q l IH]; simpl; intros Hn; [done|].
  rewrite not_elem_of_cons in Hn. destruct Hn as [Hne Hn].
  rewrite bal_insert_ne by done. rewrite IH by done. done.
Qed.

(** the second loop: what is left is the part the pools could not cover; the sum
    over the map falls by what was taken; pools outside the list are untouched *)
Lemma drain_spec l : ∀ ps r ps' r',
  NoDup l → nonneg ps → 0 ≤ r → drain ps r l = (ps', r') →
  r' = Z.max 0 (r - pool_sum ps l) ∧
  msum id ps' = msum id ps - (r - r') ∧
  nonneg ps' ∧
  (∀ q, q ∉ l → ps' !! q = ps !! q).
Proof.
  induction l as [|p l IH]; intros ps r ps' r' Hnd Hp Hr H; simpl in *.
  - inversion H; subst. repeat split; auto; lia.
  - apply NoDup_cons in Hnd as [Hnin Hnd].
    pose proof (Hp p) as Hbp. pose proof (pool_sum_nonneg ps l Hp) as Hsum.
    destruct (decide (r = 0)) as [->|Hr0].
    + inversion H; subst. repeat split; auto; lia.
    + destruct (decide (bal ps p = 0)) as [Hz|Hnz].
      * destruct (IH _ _ _ _ Hnd Hp Hr H) as (H1 & H2 & H3 & H4).
        repeat split; auto; try lia.
        intros q Hq. apply H4. rewrite not_elem_of_cons in Hq. tauto.
      * rewrite take_from_spec in H.
        assert (Hp' : nonneg (<[p := bal ps p - Z.min (bal ps p) r]> ps)) by (apply nonneg_insert; [done|lia]).
        assert (Hr' : 0 ≤ r - Z.min (bal ps p) r) by lia.
        destruct (IH _ _ _ _ Hnd Hp' Hr' H) as (H1 & H2 & H3 & H4).
        rewrite pool_sum_insert_notin in H1 by done.
        rewrite msum_id_insert in H2.
        repeat split; auto; try lia.
        intros q Hq. rewrite not_elem_of_cons in Hq. destruct Hq as [Hqp Hql].
        rewrite H4 by done. by rewrite lookup_insert_ne.
Qed.

(** how a successful drain distributes the debit: in attachment order *)
Lemma drain_order l : ∀ ps r ps' r' p0 pre post,
  NoDup l → nonneg ps → 0 ≤ r → drain ps r l = (ps', r') → l = pre ++ p0 :: post →
  bal ps' p0 = bal ps p0 - Z.min (bal ps p0) (Z.max 0 (r - pool_sum ps pre)).
Proof.
  induction l as [|p l IH]; intros ps r ps' r' p0 pre post Hnd Hp Hr H Hl.
  - by destruct pre.
  - simpl in H. apply NoDup_cons in Hnd as [Hnin Hnd].
    pose proof (Hp p) as Hbp.
    destruct pre as [|x pre]; simpl in Hl; inversion Hl; subst.
    + (* p0 is the head *)
      simpl. rewrite Z.sub_0_r.
      destruct (decide (r = 0)) as [->|Hr0].
      * inversion H; subst. lia.
      * destruct (decide (bal ps p0 = 0)) as [Hz|Hnz].
        -- destruct (drain_spec _ _ _ _ _ Hnd Hp Hr H) as (_ & _ & _ & H4).
           unfold bal at 1. rewrite H4 by done. fold (bal ps p0). lia.
        -- rewrite take_from_spec in H.
           assert (Hp' : nonneg (<[p0 := bal ps p0 - Z.min (bal ps p0) r]> ps)) by (apply nonneg_insert; [done|lia]).
           assert (Hr' : 0 ≤ r - Z.min (bal ps p0) r) by lia.
           destruct (drain_spec _ _ _ _ _ Hnd Hp' Hr' H) as (_ & _ & _ & H4).
           unfold bal at 1. rewrite H4 by done. rewrite lookup_insert. simpl. lia.
    + (* p0 is further down *)
      assert (Hne : p0 ≠ x).
      { intros ->. apply Hnin. apply elem_of_app. right. left. }
      simpl.
      destruct (decide (r = 0)) as [->|Hr0].
      * inversion H; subst. pose proof (pool_sum_nonneg ps' pre Hp). pose proof (Hp p0). pose proof (Hp x). lia.
      * destruct (decide (bal ps x = 0)) as [Hz|Hnz].
        -- rewrite (IH _ _ _ _ _ _ _ Hnd Hp Hr H eq_refl). rewrite Hz. lia.
        -- rewrite take_from_spec in H.
           assert (Hp' : nonneg (<[x := bal ps x - Z.min (bal ps x) r]> ps)) by (apply nonneg_insert; [done|lia]).
           assert (Hr' : 0 ≤ r - Z.min (bal ps x) r) by lia.
           rewrite (IH _ _ _ _ _ _ _ Hnd Hp' Hr' H eq_refl).
           rewrite bal_insert_ne by done.
           rewrite pool_sum_insert_notin.
           2:{ intros Hin. apply Hnin. apply elem_of_app. by left. }
           pose proof (pool_sum_nonneg ps pre Hp). pose proof (Hp x). lia.
Qed.

(** ** The invariant of reachable states *)
Record inv (s : st) : Prop := {
  inv_acc : nonneg (accounts s);
  inv_pool : nonneg (pools s);
  inv_nodup : ∀ a l, attached s !! a = Some l → NoDup l;
  inv_renter : ∀ c con, contracts s !! c = Some con → 0 ≤ c_renter con;
}.

Lemma inv_init : inv st_init.
Proof.
  split; simpl.
  - apply nonneg_empty.
  - apply nonneg_empty.
  - intros a l H. by rewrite lookup_empty in H.
  - intros c con H. by rewrite lookup_empty in H.
Qed.

Lemma links_NoDup s a : inv s → NoDup (links s a).
Proof.
  intros Hi. unfold links. destruct (attached s !! a) as [l|] eqn:E; simpl.
  - by apply (inv_nodup s Hi a).
  - apply NoDup_nil_2.
Qed.

(** ** DebitAccount *)
Lemma debit_None s a cost : inv s → debit s a cost = None ↔ drawable s a < cost.
Proof.
  intros Hi. unfold debit, drawable.
  pose proof (drawable_upto_lt (pools s) cost (links s a) (inv_pool s Hi) (bal (accounts s) a)) as Hd.
  destruct (decide (drawable_upto (pools s) cost (bal (accounts s) a) (links s a) < cost)) as [Hlt|Hge].
  - split; [intros _; by apply Hd|done].
  - split.
    + destruct (decide (bal (accounts s) a = 0)); destruct (drain _ _ _); discriminate.
    + intros Hlt. exfalso. apply Hge. by apply Hd.
Qed.

Lemma debit_Some s a cost s' :
  inv s → 0 ≤ cost → debit s a cost = Some s' →
  cost ≤ drawable s a ∧
  total s' = total s - cost ∧
  nonneg (accounts s') ∧ nonneg (pools s') ∧
  attached s' = attached s ∧ contracts s' = contracts s ∧ sectors s' = sectors s ∧
  bal (accounts s') a = bal (accounts s) a - Z.min (bal (accounts s) a) cost ∧
  (∀ k, k ≠ a → accounts s' !! k = accounts s !! k) ∧
  (∀ q, q ∉ links s a → pools s' !! q = pools s !! q) ∧
  (∀ pre p post, links s a = pre ++ p :: post →
     bal (pools s') p = bal (pools s) p -
       Z.min (bal (pools s) p) (Z.max 0 (cost - bal (accounts s) a - pool_sum (pools s) pre))).
Proof.
  intros Hi Hc H.
  assert (Hge : cost ≤ drawable s a).
  { destruct (Z_lt_le_dec (drawable s a) cost) as [Hlt|]; [|done].
    apply (debit_None s a cost Hi) in Hlt. congruence. }
  split; [done|].
  unfold debit in H. unfold drawable in Hge.
  destruct (decide (drawable_upto (pools s) cost (bal (accounts s) a) (links s a) < cost)); [discriminate|].
  pose proof (inv_acc s Hi a) as Hown. pose proof (inv_pool s Hi) as Hp.
  pose proof (links_NoDup s a Hi) as Hnd.
  pose proof (pool_sum_nonneg (pools s) (links s a) Hp) as Hps.
  destruct (decide (bal (accounts s) a = 0)) as [Hz|Hnz].
  - destruct (drain (pools s) cost (links s a)) as [ps' r'] eqn:E.
    inversion H; subst; simpl. clear H.
    destruct (drain_spec _ _ _ _ _ Hnd Hp Hc E) as (H1 & H2 & H3 & H4).
    unfold total; simpl.
    repeat split; auto; try lia.
    + apply (inv_acc s Hi).
    + intros pre p post Hl. rewrite (drain_order _ _ _ _ _ _ _ _ Hnd Hp Hc E Hl). rewrite Hz. do 3 f_equal. lia.
  - rewrite take_from_spec in H.
    destruct (drain (pools s) (cost - Z.min (bal (accounts s) a) cost) (links s a)) as [ps' r'] eqn:E.
    inversion H; subst; simpl. clear H.
    assert (Hr : 0 ≤ cost - Z.min (bal (accounts s) a) cost) by lia.
    destruct (drain_spec _ _ _ _ _ Hnd Hp Hr E) as (H1 & H2 & H3 & H4).
    unfold total; simpl. rewrite msum_id_insert.
    repeat split; auto; try lia.
    + apply nonneg_insert; [apply (inv_acc s Hi)|lia].
    + by rewrite bal_insert_eq.
    + intros k Hk. by rewrite lookup_insert_ne.
    + intros pre p post Hl. rewrite (drain_order _ _ _ _ _ _ _ _ Hnd Hp Hr E Hl).
      pose proof (pool_sum_nonneg (pools s) pre Hp). lia.
Qed.

(** ** Credit*WithContract *)
Lemma cwc_spec pool s deps cid rev rsig s' bs evs :
  credit_with_contract pool s deps cid rev rsig = Some (s', bs, evs) →
  ∃ existing, contracts s !! cid = Some existing ∧
    rsig = Sig (c_rkey existing) (rev_msg cid rev) ∧
    evs = map (λ d : N * Z, EvCredit pool d.1 d.2) deps
          ++ [EvRevise cid (c_renter existing - c_renter rev) (c_host rev - c_host existing)] ∧
    contracts s' = <[cid := rev]> (contracts s) ∧ attached s' = attached s ∧ sectors s' = sectors s ∧
    (if pool then accounts s' = accounts s ∧ credit_all (pools s) deps = (pools s', bs)
     else pools s' = pools s ∧ credit_all (accounts s) deps = (accounts s', bs)).
Proof.
  unfold credit_with_contract. intros H.
  destruct (contracts s !! cid) as [existing|]; [|discriminate].
  destruct (decide (c_revnum rev ≤ c_revnum existing)%N); [discriminate|].
  destruct (verify (c_rkey existing) (rev_msg cid rev) rsig) eqn:Hv; simpl in H; [|discriminate].
  unfold verify in Hv. apply bool_decide_eq_true in Hv.
  exists existing. destruct pool.
  - destruct (credit_all (pools s) deps) as [m' bs'] eqn:E. inversion H; subst; simpl. repeat split; auto.
  - destruct (credit_all (accounts s) deps) as [m' bs'] eqn:E. inversion H; subst; simpl. repeat split; auto.
Qed.

Lemma pay_spec c amount rev :
  pay c amount = Some rev →
  amount ≤ c_renter c ∧ c_rkey rev = c_rkey c ∧ c_revnum rev = N.succ (c_revnum c) ∧
  c_renter rev = c_renter c - amount ∧ c_host rev = c_host c + amount.
Proof.
  unfold pay. destruct (decide (c_renter c < amount)); [discriminate|].
  intros H; inversion H; subst; simpl. repeat split; auto; lia.
Qed.

Lemma pay_revisable c amount rev : pay c amount = Some rev → c_revisable rev = c_revisable c.
Proof. unfold pay. destruct (decide _); [discriminate|]. by intros [= <-]. Qed.

(** the environment step: nothing but the revisable flag of one contract changes *)
Definition expired (s : st) (c : N) (s' : st) : Prop :=
  accounts s' = accounts s ∧ pools s' = pools s ∧ attached s' = attached s ∧ sectors s' = sectors s ∧
  renter_total s' = renter_total s ∧ host_total s' = host_total s ∧
  (∀ c' con', contracts s' !! c' = Some con' →
     ∃ con, contracts s !! c' = Some con ∧ c_renter con' = c_renter con) ∧
  (∀ c' con, contracts s !! c' = Some con →
     ∃ con', contracts s' !! c' = Some con' ∧ c_renter con' = c_renter con ∧ c_host con' = c_host con ∧
             c_revnum con' = c_revnum con ∧ (c' = c → c_revisable con' = false) ∧ (c' ≠ c → con' = con)).

Lemma expire_expired s c s' evs r : expire s c = (s', (evs, r)) → expired s c s' ∧ evs = [] ∧ r = ROk [].
Proof.
  unfold expire. destruct (contracts s !! c) as [con|] eqn:E; intros [= <- <- <-]; (split; [|done]).
  - unfold expired, renter_total, host_total; simpl. rewrite !msum_insert, E. simpl.
    repeat split; try done; try lia.
    + intros c' con'. destruct (decide (c' = c)) as [->|Hne].
      * rewrite lookup_insert. intros [= <-]. by exists con.
      * rewrite lookup_insert_ne by done. intros H. by exists con'.
    + intros c' con0 H0. destruct (decide (c' = c)) as [->|Hne].
      * rewrite lookup_insert. rewrite E in H0. inversion H0; subst. exists (kill con0). by repeat split.
      * rewrite lookup_insert_ne by done. exists con0. by repeat split.
  - unfold expired. repeat split; try done.
    + intros c' con' H. by exists con'.
    + intros c' con0 H0. exists con0. repeat split; try done. intros ->. congruence.
Qed.

(** ** One step, by cases *)
Inductive step_kind (s : st) (o : op) (s' : st) (evs : list event) (r : res) : Prop :=
| SK_fail : s' = s → evs = [] → r = RErr → step_kind s o s' evs r
| SK_nothing_to_deposit pool cid keys target chal rsig :
    o = Replenish pool cid keys target chal rsig →
    s' = s → evs = [] →
    r = ROk (map snd (replenish_deposits target ∅ (map (λ k, (k, bal (if pool then pools s else accounts s) k)) keys))) →
    sum_amounts (replenish_deposits target ∅ (map (λ k, (k, bal (if pool then pools s else accounts s) k)) keys)) = 0 →
    step_kind s o s' evs r
| SK_credit pool cid deps existing rev bs payload :
    (o = Fund cid deps (rsig_of o) ∧ pool = false ∧ payload = bs
     ∨ ∃ keys target chal, o = Replenish pool cid keys target chal (rsig_of o) ∧
         chal = Sig (c_rkey existing) (MChallenge cid keys target (c_revnum existing)) ∧
         deps = replenish_deposits target ∅ (map (λ k, (k, bal (if pool then pools s else accounts s) k)) keys) ∧
         payload = map snd deps) →
    contracts s !! cid = Some existing →
    pay existing (sum_amounts deps) = Some rev →
    credit_with_contract pool s deps cid rev (rsig_of o) = Some (s', bs, evs) →
    r = ROk payload →
    c_revisable existing = true →
    step_kind s o s' evs r
| SK_attach es :
    o = Attach es → es ≠ [] → existsb entry_bad es = false → forallb attach_sig_ok es = true →
    s' = St (accounts s) (pools s) (fold_left attach_one es (attached s)) (contracts s) (sectors s) →
    evs = map (λ e, EvAttach (e_acct e) (e_pool e)) es → r = ROk [] →
    step_kind s o s' evs r
| SK_detach es :
    o = Detach es → es ≠ [] → existsb entry_bad es = false → forallb detach_sig_ok es = true →
    s' = St (accounts s) (pools s) (fold_left detach_one es (attached s)) (contracts s) (sectors s) →
    evs = map (λ e, EvDetach (e_acct e) (e_pool e)) es → r = ROk [] →
    step_kind s o s' evs r
| SK_read a tok sector cost s1 :
    (o = ReadSec a tok sector cost ∨ o = VerifySec a tok sector cost) →
    token_ok a tok = true → sector ∈ sectors s → debit s a cost = Some s1 →
    s' = s1 → evs = [EvDebit a cost; EvRead sector] → r = ROk [] →
    step_kind s o s' evs r
| SK_write a tok sector cost s1 :
    o = WriteSec a tok sector cost →
    token_ok a tok = true → debit s a cost = Some s1 →
    s' = St (accounts s1) (pools s1) (attached s1) (contracts s1) ({[sector]} ∪ sectors s1) →
    evs = [EvDebit a cost; EvStore sector] → r = ROk [] →
    step_kind s o s' evs r.

Lemma read_like_cases s a tok sector cost s' evs r o :
  (o = ReadSec a tok sector cost ∨ o = VerifySec a tok sector cost) →
  read_like s a tok sector cost = (s', (evs, r)) → step_kind s o s' evs r.
Proof.
  intros Ho H. unfold read_like, fail in H.
  destruct (token_ok a tok) eqn:Ht; simpl in H.
  2:{ inversion H; subst. by apply SK_fail. }
  case_bool_decide as Hs; simpl in H.
  2:{ inversion H; subst. by apply SK_fail. }
  destruct (debit s a cost) as [s1|] eqn:Hd.
  2:{ inversion H; subst. by apply SK_fail. }
  inversion H; subst. by eapply SK_read.
Qed.

Lemma step_cases s o s' evs r : step s o = (s', (evs, r)) →
  (∃ c, o = Expire c ∧ expired s c s' ∧ evs = [] ∧ r = ROk []) ∨ step_kind s o s' evs r.
Proof.
  destruct o as [cid deps rsig|pool cid keys target chal rsig|es|es|a tok sector cost|a tok sector cost|a tok sector cost|c|o'];
    simpl; intros H; [right|right|right|right|right|right|right|left|right].
  - (* fund *)
    unfold fund, fail in H.
    destruct (decide (deps = [])); [inversion H; subst; by apply SK_fail|].
    destruct (existsb _ deps); [inversion H; subst; by apply SK_fail|].
    destruct (contracts s !! cid) as [existing|] eqn:Hc; [|inversion H; subst; by apply SK_fail].
    destruct (c_revisable existing) eqn:Hrv; simpl in H; [|inversion H; subst; by apply SK_fail].
    destruct (pay existing (sum_amounts deps)) as [rev|] eqn:Hp; [|inversion H; subst; by apply SK_fail].
    destruct (verify _ _ rsig); simpl in H; [|inversion H; subst; by apply SK_fail].
    destruct (credit_with_contract false s deps cid rev rsig) as [[[s1 bs] evs1]|] eqn:Hcw;
      [|inversion H; subst; by apply SK_fail].
    inversion H; subst.
    eapply (SK_credit _ _ _ _ _ false cid deps existing rev bs bs); eauto.
  - (* replenish *)
    unfold replenish, fail in H.
    destruct (decide (keys = [])); [inversion H; subst; by apply SK_fail|].
    destruct (decide (target = 0)); [inversion H; subst; by apply SK_fail|].
    destruct (contracts s !! cid) as [existing|] eqn:Hc; [|inversion H; subst; by apply SK_fail].
    destruct (c_revisable existing) eqn:Hrv; simpl in H; [|inversion H; subst; by apply SK_fail].
    destruct (verify _ _ chal) eqn:Hch; simpl in H; [|inversion H; subst; by apply SK_fail].
    apply bool_decide_eq_true in Hch.
    set (deps := replenish_deposits target ∅ (map (λ k, (k, bal (if pool then pools s else accounts s) k)) keys)) in *.
    destruct (decide (sum_amounts deps = 0)) as [Hz|Hnz].
    { inversion H; subst. by eapply SK_nothing_to_deposit. }
    destruct (pay existing (sum_amounts deps)) as [rev|] eqn:Hp; [|inversion H; subst; by apply SK_fail].
    destruct (verify _ _ rsig); simpl in H; [|inversion H; subst; by apply SK_fail].
    destruct (credit_with_contract pool s deps cid rev rsig) as [[[s1 bs] evs1]|] eqn:Hcw;
      [|inversion H; subst; by apply SK_fail].
    inversion H; subst.
    eapply (SK_credit _ _ _ _ _ pool cid deps existing rev bs (map snd deps)); eauto.
    right. exists keys, target, (Sig (c_rkey existing) (MChallenge cid keys target (c_revnum existing))). auto.
  - (* attach *)
    unfold attach, fail in H.
    destruct (decide (es = [])); [inversion H; subst; by apply SK_fail|].
    destruct (existsb entry_bad es) eqn:Hb; [inversion H; subst; by apply SK_fail|].
    destruct (forallb attach_sig_ok es) eqn:Hs; simpl in H; [|inversion H; subst; by apply SK_fail].
    destruct (forallb (λ e : entry, bool_decide (is_Some (pools s !! e_pool e))) es) eqn:He; simpl in H; [|inversion H; subst; by apply SK_fail].
    inversion H; subst. by eapply SK_attach.
  - (* detach *)
    unfold detach, fail in H.
    destruct (decide (es = [])); [inversion H; subst; by apply SK_fail|].
    destruct (existsb entry_bad es) eqn:Hb; [inversion H; subst; by apply SK_fail|].
    destruct (forallb detach_sig_ok es) eqn:Hs; simpl in H; [|inversion H; subst; by apply SK_fail].
    inversion H; subst. by eapply SK_detach.
  - eapply read_like_cases; eauto.
  - unfold write, fail in H.
    destruct (token_ok a tok) eqn:Ht; simpl in H; [|inversion H; subst; by apply SK_fail].
    destruct (debit s a cost) as [s1|] eqn:Hd; [|inversion H; subst; by apply SK_fail].
    inversion H; subst. by eapply SK_write.
  - eapply read_like_cases; eauto.
  - exists c. split; [done|]. by apply expire_expired.
  - unfold fail in H. inversion H; subst. by apply SK_fail.
Qed.

(** ** Attachments stay duplicate free *)
Definition nodup_att (att : gmap N (list N)) : Prop := ∀ a l, att !! a = Some l → NoDup l.

Lemma attach_one_nodup att e : nodup_att att → nodup_att (attach_one att e).
Proof.
  intros Hn a l. unfold attach_one. case_bool_decide as Hin; [apply Hn|].
  destruct (decide (a = e_acct e)) as [->|Hne].
  - rewrite lookup_insert. intros [= <-].
    apply NoDup_app. split; [|split].
    + destruct (att !! e_acct e) as [l0|] eqn:E; simpl; [by apply (Hn _ _ E)|apply NoDup_nil_2].
    + intros x Hx Hx'. apply elem_of_list_singleton in Hx'. by subst.
    + apply NoDup_singleton.
  - rewrite lookup_insert_ne by done. apply Hn.
Qed.

Lemma remove_first_subseteq p l x : x ∈ remove_first p l → x ∈ l.
Proof.
  induction l as [|y l IH]; simpl; [done|].
  destruct (decide (y = p)).
  - intros. by right.
  - rewrite !elem_of_cons. intros [->|H]; [by left|right; auto].
Qed.

Lemma remove_first_NoDup p l : NoDup l → NoDup (remove_first p l).
Proof.
  induction 1 as [|y l Hy Hl IH]; simpl; [apply NoDup_nil_2|].
  destruct (decide (y = p)); [done|].
  apply NoDup_cons. split; [|done]. intros Hin. apply Hy. by eapply remove_first_subseteq.
Qed.

Lemma detach_one_nodup att e : nodup_att att → nodup_att (detach_one att e).
Proof.
  intros Hn a l. unfold detach_one.
  destruct (decide (remove_first (e_pool e) (default [] (att !! e_acct e)) = [])) as [He|He].
  - destruct (decide (a = e_acct e)) as [->|Hne].
    + by rewrite lookup_delete.
    + rewrite lookup_delete_ne by done. apply Hn.
  - destruct (decide (a = e_acct e)) as [->|Hne].
    + rewrite lookup_insert. intros [= <-]. apply remove_first_NoDup.
      destruct (att !! e_acct e) as [l0|] eqn:E; simpl; [by apply (Hn _ _ E)|apply NoDup_nil_2].
    + rewrite lookup_insert_ne by done. apply Hn.
Qed.

Lemma fold_left_pres {A B} (P : A → Prop) (f : A → B → A) l :
  (∀ a b, P a → P (f a b)) → ∀ a, P a → P (fold_left f l a).
Proof. intros Hf. induction l; simpl; auto. Qed.

(** ** Deposits of a replenish *)
Lemma replenish_deposits_nonneg target l : ∀ pending,
  Forall (λ d : N * Z, 0 ≤ d.2) (replenish_deposits target pending l).
Proof.
  induction l as [|[k b] l IH]; intros pending; simpl; constructor; auto.
  simpl. destruct (decide _); lia.
Qed.

Lemma replenish_deposits_keys target l : ∀ pending,
  map fst (replenish_deposits target pending l) = map fst l.
Proof. induction l as [|[k b] l IH]; intros pending; simpl; [done|]. by rewrite IH. Qed.

Lemma replenish_deposits_sum_for target m keys : ∀ pending k,
  sum_for k (replenish_deposits target pending (map (λ k, (k, bal m k)) keys)) =
  if decide (k ∈ keys) then Z.max 0 (target - (bal m k + bal pending k)) else 0.
Proof.
  induction keys as [|k0 keys IH]; intros pending k; simpl.
  - destruct (decide (k ∈ [])) as [Hin|]; [by apply elem_of_nil in Hin|done].
  - rewrite IH. rewrite bal_insert.
    destruct (decide (k0 = k)) as [->|Hne].
    + destruct (decide (k = k)); [|done].
      destruct (decide (k ∈ k :: keys)) as [_|Hn]; [|exfalso; apply Hn; left].
      destruct (decide (target < bal m k + bal pending k)); destruct (decide (k ∈ keys)); lia.
    + destruct (decide (k = k0)); [congruence|].
      destruct (decide (k ∈ keys)) as [Hin|Hnin].
      * destruct (decide (k ∈ k0 :: keys)) as [_|Hn]; [done|exfalso; apply Hn; by right].
      * destruct (decide (k ∈ k0 :: keys)) as [Hin|_]; [|done].
        apply elem_of_cons in Hin as [->|Hin]; [congruence|contradiction].
Qed.

(** ** Steps preserve the invariant *)
Lemma step_inv s o s' evs r : inv s → wf_op o → step s o = (s', (evs, r)) → inv s'.
Proof.
  intros Hi Hw H. apply step_cases in H as [(c0 & Ho0 & Hx0 & Hev0 & Hr0)|H].
  { destruct Hx0 as (Ea & Ep & Et & _ & _ & _ & Hb & _). split.
    - rewrite Ea. apply (inv_acc s Hi).
    - rewrite Ep. apply (inv_pool s Hi).
    - rewrite Et. apply (inv_nodup s Hi).
    - intros c' con' H'. destruct (Hb _ _ H') as (con & Hcon & ->). by apply (inv_renter s Hi c'). }
  destruct H as [-> _ _| ? ? ? ? ? ? _ -> _ _ _
                | pool cid deps existing rev bs payload Ho Hc Hp Hcw _
                | es -> _ _ _ -> _ _ | es -> _ _ _ -> _ _
                | a tok sector cost s1 Ho _ _ Hd -> _ _
                | a tok sector cost s1 -> _ Hd -> _ _]; auto.
  - (* credit *)
    assert (Hdeps : Forall (λ d : N * Z, 0 ≤ d.2) deps).
    { destruct Ho as [(Ho & _ & _)|(keys & target & chal & Ho & _ & -> & _)].
      - rewrite Ho in Hw. apply Hw.
      - apply replenish_deposits_nonneg. }
    apply cwc_spec in Hcw as (ex & Hex & _ & _ & Hcs & Hat & _ & Hbal).
    rewrite Hc in Hex. inversion Hex; subst ex. clear Hex.
    apply pay_spec in Hp as (Hle & _ & _ & Hr & _).
    split.
    + destruct pool; destruct Hbal as [Hsame Hca].
      * rewrite Hsame. apply (inv_acc s Hi).
      * eapply credit_all_nonneg; eauto. apply (inv_acc s Hi).
    + destruct pool; destruct Hbal as [Hsame Hca].
      * eapply credit_all_nonneg; eauto. apply (inv_pool s Hi).
      * rewrite Hsame. apply (inv_pool s Hi).
    + rewrite Hat. apply (inv_nodup s Hi).
    + rewrite Hcs. intros c con. destruct (decide (c = cid)) as [->|Hne].
      * rewrite lookup_insert. intros [= <-]. lia.
      * rewrite lookup_insert_ne by done. apply (inv_renter s Hi).
  - (* attach *)
    split; simpl; try apply Hi.
    apply (fold_left_pres nodup_att); [apply attach_one_nodup|exact (inv_nodup s Hi)].
  - (* detach *)
    split; simpl; try apply Hi.
    apply (fold_left_pres nodup_att); [apply detach_one_nodup|exact (inv_nodup s Hi)].
  - (* read / verify *)
    assert (Hcost : 0 ≤ cost) by (destruct Ho as [Ho|Ho]; rewrite Ho in Hw; apply Hw).
    destruct (debit_Some _ _ _ _ Hi Hcost Hd) as (_ & _ & Ha & Hp & Hat & Hcs & _).
    split; auto.
    + rewrite Hat. apply (inv_nodup s Hi).
    + rewrite Hcs. apply (inv_renter s Hi).
  - (* write *)
    assert (Hcost : 0 ≤ cost) by apply Hw.
    destruct (debit_Some _ _ _ _ Hi Hcost Hd) as (_ & _ & Ha & Hp & Hat & Hcs & _).
    split; simpl; auto.
    + rewrite Hat. apply (inv_nodup s Hi).
    + rewrite Hcs. apply (inv_renter s Hi).
Qed.

(** ** The ledger equation of one step *)
Definition quiet (e : event) : Prop :=
  match e with EvAttach _ _ | EvDetach _ _ | EvRead _ | EvStore _ => True | _ => False end.

Lemma quiet_sums evs : Forall quiet evs →
  credited evs = 0 ∧ debited evs = 0 ∧ moved_from_renter evs = 0 ∧ moved_to_host evs = 0.
Proof. induction 1 as [|e evs He _ IH]; simpl; [done|]. destruct e; simpl in *; try done. Qed.

Lemma step_ledger s o s' evs r : inv s → wf_op o → step s o = (s', (evs, r)) →
  total s' = total s + credited evs - debited evs ∧
  credited evs = moved_from_renter evs ∧ credited evs = moved_to_host evs ∧
  renter_total s' = renter_total s - credited evs ∧
  host_total s' = host_total s + credited evs.
Proof.
  intros Hi Hw H. apply step_cases in H as [(c0 & Ho0 & Hx0 & Hev0 & Hr0)|H].
  { destruct Hx0 as (Ea & Ep & _ & _ & Er & Eh & _). subst evs. unfold total. rewrite Ea, Ep. simpl. lia. }
  destruct H as [-> -> _| ? ? ? ? ? ? _ -> -> _ _
                | pool cid deps existing rev bs payload Ho Hc Hp Hcw _
                | es -> _ _ _ -> -> _ | es -> _ _ _ -> -> _
                | a tok sector cost s1 Ho _ _ Hd -> -> _
                | a tok sector cost s1 -> _ Hd -> -> _].
  - simpl. lia.
  - simpl. lia.
  - apply cwc_spec in Hcw as (ex & Hex & _ & -> & Hcs & _ & _ & Hbal).
    rewrite Hc in Hex. inversion Hex; subst ex. clear Hex.
    apply pay_spec in Hp as (Hle & _ & _ & Hr & Hh).
    rewrite credited_app, debited_app, moved_from_renter_app, moved_to_host_app.
    rewrite credited_credits, debited_credits, from_renter_credits, to_host_credits. simpl.
    unfold renter_total, host_total. rewrite Hcs, !msum_insert, Hc. simpl.
    unfold total.
    destruct pool; destruct Hbal as [Hsame Hca]; apply credit_all_spec in Hca as (Hs & _ & _);
      rewrite Hsame, Hs; lia.
  - destruct (quiet_sums (map (λ e, EvAttach (e_acct e) (e_pool e)) es)) as (-> & -> & -> & ->).
    { apply Forall_map. apply Forall_true. done. }
    unfold total, renter_total, host_total; simpl. lia.
  - destruct (quiet_sums (map (λ e, EvDetach (e_acct e) (e_pool e)) es)) as (-> & -> & -> & ->).
    { apply Forall_map. apply Forall_true. done. }
    unfold total, renter_total, host_total; simpl. lia.
  - assert (Hcost : 0 ≤ cost) by (destruct Ho as [Ho|Ho]; rewrite Ho in Hw; apply Hw).
    destruct (debit_Some _ _ _ _ Hi Hcost Hd) as (_ & Ht & _ & _ & _ & Hcs & _).
    unfold renter_total, host_total. rewrite Hcs. simpl. lia.
  - assert (Hcost : 0 ≤ cost) by apply Hw.
    destruct (debit_Some _ _ _ _ Hi Hcost Hd) as (_ & Ht & _ & _ & _ & Hcs & _).
    unfold renter_total, host_total, total in *. simpl. rewrite Hcs. lia.
Qed.

(** ** Sequences *)
Definition start (cs : gmap N contract) (secs : gset N) : st := St ∅ ∅ ∅ cs secs.

Definition funded (cs : gmap N contract) : Prop := ∀ c con, cs !! c = Some con → 0 ≤ c_renter con.

Definition reachable (s : st) : Prop :=
  ∃ cs secs ops outs, funded cs ∧ Forall wf_op ops ∧ run (start cs secs) ops = (s, outs).

Lemma inv_start cs secs : funded cs → inv (start cs secs).
Proof.
  intros Hf. split; simpl; auto using nonneg_empty.
  intros a l H. by rewrite lookup_empty in H.
Qed.

Lemma run_inv ops : ∀ s s' outs, inv s → Forall wf_op ops → run s ops = (s', outs) → inv s'.
Proof.
  induction ops as [|o ops IH]; intros s s' outs Hi Hw H; simpl in H.
  - by inversion H; subst.
  - apply Forall_cons in Hw as [Hw1 Hw2].
    destruct (step s o) as [s1 [evs r]] eqn:E1.
    destruct (run s1 ops) as [s2 outs2] eqn:E2.
    inversion H; subst. eapply (IH s1); eauto. eapply step_inv; eauto.
Qed.

Lemma reachable_inv s : reachable s → inv s.
Proof. intros (cs & secs & ops & outs & Hf & Hw & Hr). eapply run_inv; eauto. by apply inv_start. Qed.

Lemma run_ledger ops : ∀ s s' outs, inv s → Forall wf_op ops → run s ops = (s', outs) →
  total s' = total s + credited (events_of outs) - debited (events_of outs) ∧
  credited (events_of outs) = moved_from_renter (events_of outs) ∧
  credited (events_of outs) = moved_to_host (events_of outs) ∧
  renter_total s' = renter_total s - credited (events_of outs) ∧
  host_total s' = host_total s + credited (events_of outs).
Proof.
  induction ops as [|o ops IH]; intros s s' outs Hi Hw H; simpl in H.
  - inversion H; subst. unfold events_of; simpl. lia.
  - apply Forall_cons in Hw as [Hw1 Hw2].
    destruct (step s o) as [s1 [evs r]] eqn:E1.
    destruct (run s1 ops) as [s2 outs2] eqn:E2.
    inversion H; subst.
    pose proof (step_inv _ _ _ _ _ Hi Hw1 E1) as Hi1.
    destruct (step_ledger _ _ _ _ _ Hi Hw1 E1) as (A1 & A2 & A3 & A4 & A5).
    destruct (IH _ _ _ Hi1 Hw2 E2) as (B1 & B2 & B3 & B4 & B5).
    unfold events_of in *. simpl.
    rewrite credited_app, debited_app, moved_from_renter_app, moved_to_host_app. lia.
Qed.

Lemma total_start cs secs : total (start cs secs) = 0.
Proof. unfold total, start; simpl. by rewrite msum_empty. Qed.

(** *** C15_conservation *)
Theorem conservation_from s0 ops s outs :
  inv s0 → Forall wf_op ops → run s0 ops = (s, outs) →
  total s = total s0 + credited (events_of outs) - debited (events_of outs) ∧
  credited (events_of outs) = moved_from_renter (events_of outs) ∧
  credited (events_of outs) = moved_to_host (events_of outs) ∧
  renter_total s = renter_total s0 - credited (events_of outs) ∧
  host_total s = host_total s0 + credited (events_of outs).
Proof. intros. by eapply run_ledger. Qed.

Theorem conservation cs secs ops s outs :
  funded cs → Forall wf_op ops → run (start cs secs) ops = (s, outs) →
  total s = credited (events_of outs) - debited (events_of outs) ∧
  credited (events_of outs) = moved_from_renter (events_of outs) ∧
  credited (events_of outs) = moved_to_host (events_of outs) ∧
  renter_total s = msum c_renter cs - credited (events_of outs) ∧
  host_total s = msum c_host cs + credited (events_of outs).
Proof.
  intros Hf Hw H. destruct (run_ledger _ _ _ _ (inv_start cs secs Hf) Hw H) as (A & B & C & D & E).
  rewrite total_start in A. repeat split; auto; lia.
Qed.

(** *** C15_nonnegative *)
Theorem nonnegative cs secs ops s outs :
  funded cs → Forall wf_op ops → run (start cs secs) ops = (s, outs) →
  (∀ k, 0 ≤ bal (accounts s) k) ∧ (∀ k, 0 ≤ bal (pools s) k) ∧
  (∀ c con, contracts s !! c = Some con → 0 ≤ c_renter con).
Proof.
  intros Hf Hw H. pose proof (run_inv _ _ _ _ (inv_start cs secs Hf) Hw H) as Hi.
  split; [apply (inv_acc s Hi)|split; [apply (inv_pool s Hi)|apply (inv_renter s Hi)]].
Qed.

(** *** C15_failed_rpc_changes_nothing *)
Theorem failed_rpc_changes_nothing s o s' evs :
  step s o = (s', (evs, RErr)) → s' = s ∧ evs = [].
Proof.
  intros H. apply step_cases in H as [(c0 & Ho0 & Hx0 & Hev0 & Hr0)|H]; [done|].
  destruct H as [-> -> _| ? ? ? ? ? ? _ _ _ Hr _ | ? ? ? ? ? ? ? _ _ _ _ Hr
                | ? _ _ _ _ _ _ Hr | ? _ _ _ _ _ _ Hr | ? ? ? ? ? _ _ _ _ _ _ Hr | ? ? ? ? ? _ _ _ _ _ Hr];
    done.
Qed.

(** *** C15_insufficient_no_service_no_debit *)
Theorem insufficient_no_service_no_debit s o a cost :
  inv s → charge o = Some (a, cost) → drawable s a < cost → step s o = (s, ([], RErr)).
Proof.
  intros Hi Hc Hlt. apply (debit_None s a cost Hi) in Hlt.
  destruct o; simpl in Hc; inversion Hc; subst; simpl; unfold read_like, write, fail;
    destruct (token_ok _ _); simpl; try done; try case_bool_decide; simpl; try done; by rewrite Hlt.
Qed.

Lemma not_service_credit pool deps cid x y e :
  e ∈ map (λ d : N * Z, EvCredit pool d.1 d.2) deps ++ [EvRevise cid x y] → is_service e = false.
Proof.
  rewrite elem_of_app, elem_of_list_fmap, elem_of_list_singleton.
  intros [(d & -> & _)| ->]; done.
Qed.

(** *** C15_debit_precedes_service *)
Theorem debit_precedes_service s o s' evs r e :
  inv s → wf_op o → step s o = (s', (evs, r)) → e ∈ evs → is_service e = true →
  ∃ a cost, charge o = Some (a, cost) ∧ evs = [EvDebit a cost; e] ∧ r = ROk [] ∧
            cost ≤ drawable s a ∧ total s' = total s - cost.
Proof.
  intros Hi Hw H He Hs. apply step_cases in H as [(c0 & Ho0 & Hx0 & Hev0 & Hr0)|H].
  { subst evs. by apply elem_of_nil in He. }
  destruct H as [_ -> _| ? ? ? ? ? ? _ _ -> _ _
                | pool cid deps existing rev bs payload Ho Hc Hp Hcw _
                | es -> _ _ _ _ -> _ | es -> _ _ _ _ -> _
                | a tok sector cost s1 Ho _ _ Hd -> -> ->
                | a tok sector cost s1 -> _ Hd -> -> ->].
  - by apply elem_of_nil in He.
  - by apply elem_of_nil in He.
  - apply cwc_spec in Hcw as (ex & _ & _ & -> & _).
    apply not_service_credit in He. congruence.
  - apply elem_of_list_fmap in He as (x & -> & _). done.
  - apply elem_of_list_fmap in He as (x & -> & _). done.
  - assert (Hcost : 0 ≤ cost) by (destruct Ho as [Ho|Ho]; rewrite Ho in Hw; apply Hw).
    destruct (debit_Some _ _ _ _ Hi Hcost Hd) as (Hge & Ht & _).
    exists a, cost.
    assert (e = EvRead sector) as ->.
    { apply elem_of_cons in He as [->|He]; [done|]. by apply elem_of_list_singleton in He. }
    destruct Ho as [-> | ->]; simpl; auto.
  - assert (Hcost : 0 ≤ cost) by apply Hw.
    destruct (debit_Some _ _ _ _ Hi Hcost Hd) as (Hge & Ht & _).
    exists a, cost.
    assert (e = EvStore sector) as ->.
    { apply elem_of_cons in He as [->|He]; [done|]. by apply elem_of_list_singleton in He. }
    unfold total in *. simpl. auto.
Qed.

(** *** C15_debit_equals_price *)
Theorem debit_equals_price s o s' evs r :
  inv s → wf_op o → step s o = (s', (evs, r)) →
  match charge o with
  | Some (a, cost) =>
      (r = RErr ∧ s' = s ∧ evs = []) ∨
      (r = ROk [] ∧ cost ≤ drawable s a ∧ total s' = total s - cost ∧ debited evs = cost ∧
       ∃ e, is_service e = true ∧ evs = [EvDebit a cost; e])
  | None => debited evs = 0
  end.
Proof.
  intros Hi Hw H. pose proof H as H0. apply step_cases in H as [(c0 & Ho0 & Hx0 & Hev0 & Hr0)|H].
  { by subst. }
  destruct H as [-> -> ->| ? ? ? ? ? ? -> _ -> _ _
                | pool cid deps existing rev bs payload Ho Hc Hp Hcw _
                | es -> _ _ _ _ -> _ | es -> _ _ _ _ -> _
                | a tok sector cost s1 Ho _ _ Hd -> -> ->
                | a tok sector cost s1 -> _ Hd -> -> ->].
  - destruct (charge o) as [[a cost]|]; [by left|done].
  - done.
  - assert (charge o = None) as -> by (destruct Ho as [(-> & _)|(? & ? & ? & -> & _)]; done).
    apply cwc_spec in Hcw as (ex & _ & _ & -> & _).
    rewrite debited_app, debited_credits. simpl. lia.
  - simpl. by destruct (quiet_sums (map (λ e, EvAttach (e_acct e) (e_pool e)) es)) as (_ & -> & _);
      [apply Forall_map, Forall_true|].
  - simpl. by destruct (quiet_sums (map (λ e, EvDetach (e_acct e) (e_pool e)) es)) as (_ & -> & _);
      [apply Forall_map, Forall_true|].
  - assert (Hcost : 0 ≤ cost) by (destruct Ho as [Ho|Ho]; rewrite Ho in Hw; apply Hw).
    destruct (debit_Some _ _ _ _ Hi Hcost Hd) as (Hge & Ht & _).
    assert (charge o = Some (a, cost)) as -> by (destruct Ho as [-> | ->]; done).
    right. split; [done|]. split; [done|]. split; [done|]. split; [simpl; lia|]. by exists (EvRead sector).
  - assert (Hcost : 0 ≤ cost) by apply Hw.
    destruct (debit_Some _ _ _ _ Hi Hcost Hd) as (Hge & Ht & _).
    simpl. right. split; [done|]. split; [done|]. split; [unfold total in *; simpl; lia|].
    split; [simpl; lia|]. by exists (EvStore sector).
Qed.

(** *** C15_sufficient_funds_served: funds are the only precondition of service *)
Theorem sufficient_funds_served s o a cost :
  inv s → charge o = Some (a, cost) → 0 ≤ cost → cost ≤ drawable s a →
  (∀ tok sector, o = ReadSec a tok sector cost ∨ o = VerifySec a tok sector cost ∨ o = WriteSec a tok sector cost →
     token_ok a tok = true ∧ (o = WriteSec a tok sector cost ∨ sector ∈ sectors s)) →
  ∃ s' e, step s o = (s', ([EvDebit a cost; e], ROk [])) ∧ is_service e = true.
Proof.
  intros Hi Hc Hcost Hge Hreq.
  assert (Hd : ∃ s1, debit s a cost = Some s1).
  { destruct (debit s a cost) as [s1|] eqn:E; [by eexists|].
    apply (debit_None s a cost Hi) in E. lia. }
  destruct Hd as [s1 Hd].
  destruct o; simpl in Hc; inversion Hc; subst; simpl; unfold read_like, write.
  - destruct (Hreq tok sector) as [-> Hs]; [by left|]. destruct Hs as [Hs|Hs]; [discriminate|].
    simpl. rewrite bool_decide_true by done. simpl. rewrite Hd. by eexists _, (EvRead sector).
  - destruct (Hreq tok sector) as [-> Hs]; [by right; right|].
    simpl. rewrite Hd. by eexists _, (EvStore sector).
  - destruct (Hreq tok sector) as [-> Hs]; [by right; left|]. destruct Hs as [Hs|Hs]; [discriminate|].
    simpl. rewrite bool_decide_true by done. simpl. rewrite Hd. by eexists _, (EvRead sector).
Qed.

(** *** C15_debit_order: own balance first, then the pools in attachment order, nothing else *)
Theorem debit_order s o s' evs r a cost :
  inv s → wf_op o → step s o = (s', (evs, r)) → charge o = Some (a, cost) → r ≠ RErr →
  bal (accounts s') a = bal (accounts s) a - Z.min (bal (accounts s) a) cost ∧
  (∀ k, k ≠ a → bal (accounts s') k = bal (accounts s) k) ∧
  (∀ q, q ∉ links s a → bal (pools s') q = bal (pools s) q) ∧
  (∀ pre p post, links s a = pre ++ p :: post →
     bal (pools s') p = bal (pools s) p -
       Z.min (bal (pools s) p) (Z.max 0 (cost - bal (accounts s) a - pool_sum (pools s) pre))).
Proof.
  intros Hi Hw H Hc Hr. apply step_cases in H as [(c0 & Ho0 & Hx0 & Hev0 & Hr0)|H].
  { by subst. }
  destruct H as [_ _ ->| ? ? ? ? ? ? -> _ _ _ _
                | pool cid deps existing rev bs payload Ho _ _ _ _
                | es -> _ _ _ _ _ _ | es -> _ _ _ _ _ _
                | a' tok sector cost' s1 Ho _ _ Hd -> _ _
                | a' tok sector cost' s1 -> _ Hd -> _ _]; try done.
  - destruct Ho as [(Ho & _)|(? & ? & ? & Ho & _)]; rewrite Ho in Hc; done.
  - assert (a' = a ∧ cost' = cost) as [-> ->] by (destruct Ho as [-> | ->]; simpl in Hc; by inversion Hc).
    assert (Hcost : 0 ≤ cost) by (destruct Ho as [Ho|Ho]; rewrite Ho in Hw; apply Hw).
    destruct (debit_Some _ _ _ _ Hi Hcost Hd) as (_ & _ & _ & _ & _ & _ & _ & H1 & H2 & H3 & H4).
    repeat split; auto.
    + intros k Hk. unfold bal. by rewrite H2.
    + intros q Hq. unfold bal. by rewrite H3.
  - simpl in Hc. inversion Hc; subst.
    assert (Hcost : 0 ≤ cost) by apply Hw.
    destruct (debit_Some _ _ _ _ Hi Hcost Hd) as (_ & _ & _ & _ & _ & _ & _ & H1 & H2 & H3 & H4).
    simpl. repeat split; auto.
    + intros k Hk. unfold bal. by rewrite H2.
    + intros q Hq. unfold bal. by rewrite H3.
Qed.

(** *** C15_replenish_to_target *)
Lemma sum_for_zero k deps :
  Forall (λ d : N * Z, 0 ≤ d.2) deps → sum_amounts deps = 0 → sum_for k deps = 0.
Proof.
  induction 1 as [|[j a] deps Ha Hd IH]; simpl in *; [done|].
  intros Hs. pose proof (sum_amounts_nonneg deps Hd).
  destruct (decide (j = k)); rewrite IH by lia; lia.
Qed.

Theorem replenish_to_target s pool cid keys target chal rsig s' evs r :
  step s (Replenish pool cid keys target chal rsig) = (s', (evs, r)) →
  (r = RErr → s' = s) ∧
  (r ≠ RErr →
     (∀ k, bal (if pool then pools s' else accounts s') k =
           if decide (k ∈ keys) then Z.max (bal (if pool then pools s else accounts s) k) target
           else bal (if pool then pools s else accounts s) k) ∧
     (if pool then accounts s' = accounts s else pools s' = pools s)).
Proof.
  intros H. apply step_cases in H as [(c0 & Ho0 & Hx0 & Hev0 & Hr0)|H]; [done|].
  destruct H as [-> _ ->| pool' cid' keys' target' chal' rsig' Ho -> _ -> Hz
                | pool' cid' deps existing rev bs payload Ho Hc Hp Hcw ->
                | es Ho _ _ _ _ _ _ | es Ho _ _ _ _ _ _
                | a tok sector cost s1 Ho _ _ _ _ _ _
                | a tok sector cost s1 Ho _ _ _ _ _]; try done.
  - inversion Ho; subst. split; [done|]. intros _. split; [|by destruct pool'].
    intros k.
    pose proof (replenish_deposits_sum_for target' (if pool' then pools s else accounts s) keys' ∅ k) as Hk.
    rewrite sum_for_zero in Hk by (auto using replenish_deposits_nonneg).
    rewrite bal_empty in Hk.
    destruct pool'; destruct (decide (k ∈ keys')); lia.
  - split; [done|]. intros _.
    destruct Ho as [(Ho & _)|(keys' & target' & chal' & Ho & _ & -> & _)]; [done|].
    inversion Ho; subst. clear Ho.
    apply cwc_spec in Hcw as (_ & _ & _ & _ & _ & _ & _ & Hbal).
    destruct pool'; destruct Hbal as [Hsame Hca]; apply credit_all_spec in Hca as (_ & Hb & _);
      (split; [|done]); intros k; rewrite Hb, replenish_deposits_sum_for, bal_empty;
      destruct (decide (k ∈ keys')); lia.
  - destruct Ho as [Ho|Ho]; done.
Qed.

(** *** C15_replenish_prefix_refuted: the handler as it was before the repair
    (every deposit computed against the balance read before the batch) credits an
    account that is listed twice beyond the target *)
Theorem replenish_prefix_refuted :
  ∃ (m : gmap N Z) (keys : list N) (target : Z) (k : N),
    k ∈ keys ∧
    Z.max (bal m k) target <
    bal (credit_all m (replenish_deposits_prefix target (map (λ k, (k, bal m k)) keys))).1 k.
Proof.
  exists ∅, [1%N; 1%N], 1, 1%N. split; [by left|]. vm_compute. done.
Qed.

(** *** C15_attach_detach_need_signature *)
Lemma debit_attached s a cost s' : debit s a cost = Some s' → attached s' = attached s.
Proof.
  unfold debit. destruct (decide _); [discriminate|].
  destruct (decide (bal (accounts s) a = 0)); destruct (drain _ _ _); intros [= <-]; done.
Qed.

Definition attach_authorized (e : entry) : Prop :=
  e_sig e = Sig (e_pool e) (MAttach (e_acct e) (e_pool e) (e_vu e)) ∧ e_expired e = false.
Definition detach_authorized (e : entry) : Prop :=
  (e_sig e = Sig (e_pool e) (MDetach (e_acct e) (e_pool e) (e_vu e)) ∨
   e_sig e = Sig (e_acct e) (MDetach (e_acct e) (e_pool e) (e_vu e))) ∧ e_expired e = false.

Lemma entry_bad_false es e : existsb entry_bad es = false → In e es → e_expired e = false.
Proof.
  intros H Hin. destruct (e_expired e) eqn:E; [|done].
  assert (existsb entry_bad es = true); [|congruence].
  apply existsb_exists. exists e. split; [done|]. unfold entry_bad. rewrite E. by rewrite orb_true_r.
Qed.

Theorem attach_detach_need_signature s o s' evs r :
  step s o = (s', (evs, r)) → attached s' ≠ attached s →
  (∃ es, o = Attach es ∧ Forall attach_authorized es) ∨
  (∃ es, o = Detach es ∧ Forall detach_authorized es).
Proof.
  intros H Hne. apply step_cases in H as [(c0 & Ho0 & Hx0 & Hev0 & Hr0)|H].
  { destruct Hx0 as (_ & _ & Et & _). by rewrite Et in Hne. }
  destruct H as [-> _ _| ? ? ? ? ? ? _ -> _ _ _
                | pool cid deps existing rev bs payload _ _ _ Hcw _
                | es -> _ Hb Hs _ _ _ | es -> _ Hb Hs _ _ _
                | a tok sector cost s1 _ _ _ Hd -> _ _
                | a tok sector cost s1 _ _ Hd -> _ _]; try done.
  - apply cwc_spec in Hcw as (_ & _ & _ & _ & _ & Hat & _). congruence.
  - left. exists es. split; [done|]. apply List.Forall_forall. intros e Hin.
    split; [|by eapply entry_bad_false].
    rewrite forallb_forall in Hs. specialize (Hs e Hin).
    unfold attach_sig_ok, verify in Hs. by apply bool_decide_eq_true in Hs.
  - right. exists es. split; [done|]. apply List.Forall_forall. intros e Hin.
    split; [|by eapply entry_bad_false].
    rewrite forallb_forall in Hs. specialize (Hs e Hin).
    unfold detach_sig_ok, verify in Hs. apply orb_true_iff in Hs as [Hs|Hs];
      apply bool_decide_eq_true in Hs; auto.
  - apply debit_attached in Hd. congruence.
  - apply debit_attached in Hd. simpl in Hne. congruence.
Qed.

(** attaching and detaching move no funds *)
Theorem attach_detach_keep_balances s es s' evs r :
  (step s (Attach es) = (s', (evs, r)) ∨ step s (Detach es) = (s', (evs, r))) →
  accounts s' = accounts s ∧ pools s' = pools s ∧ contracts s' = contracts s ∧
  credited evs = 0 ∧ debited evs = 0.
Proof.
  intros [H|H]; apply step_cases in H as [(c0 & Ho0 & Hx0 & Hev0 & Hr0)|H]; try done;
  (destruct H as [-> -> _| ? ? ? ? ? ? Ho _ _ _ _
                | pool cid deps existing rev bs payload Ho _ _ _ _
                | es' Ho _ _ _ -> -> _ | es' Ho _ _ _ -> -> _
                | a tok sector cost s1 Ho _ _ _ _ _ _
                | a tok sector cost s1 Ho _ _ _ _ _]; try done;
   [destruct Ho as [(Ho & _)|(? & ? & ? & Ho & _)]; done
   |simpl; repeat split; auto;
    eapply quiet_sums; apply Forall_map, Forall_true; done
   |destruct Ho as [Ho|Ho]; done]).
Qed.

(** *** C15_credit_matched_by_signed_revision *)
Theorem credit_matched_by_signed_revision s o s' evs r :
  step s o = (s', (evs, r)) → credited evs ≠ 0 ∨ (∃ pool k amt, EvCredit pool k amt ∈ evs) →
  ∃ pool cid deps existing rev,
    contracts s !! cid = Some existing ∧
    contracts s' = <[cid := rev]> (contracts s) ∧
    evs = map (λ d : N * Z, EvCredit pool d.1 d.2) deps ++ [EvRevise cid (credited evs) (credited evs)] ∧
    credited evs = sum_amounts deps ∧
    c_renter rev = c_renter existing - credited evs ∧
    c_host rev = c_host existing + credited evs ∧
    c_revnum rev = N.succ (c_revnum existing) ∧
    c_rkey rev = c_rkey existing ∧
    0 ≤ c_renter rev ∧
    c_revisable existing = true ∧ c_revisable rev = true ∧
    rsig_of o = Sig (c_rkey existing) (MRevision cid (c_revnum rev) (c_renter rev) (c_host rev)).
Proof.
  intros H Hcr. apply step_cases in H as [(c0 & Ho0 & Hx0 & Hev0 & Hr0)|H].
  { subst evs. destruct Hcr as [Hcr|(? & ? & ? & Hin)]; [done|by apply elem_of_nil in Hin]. }
  destruct H as [_ -> _| ? ? ? ? ? ? _ _ -> _ _
                | pool cid deps existing rev bs payload Ho Hc Hp Hcw _ Hrv
                | es _ _ _ _ _ -> _ | es _ _ _ _ _ -> _
                | a tok sector cost s1 _ _ _ _ _ -> _
                | a tok sector cost s1 _ _ _ _ -> _].
  - destruct Hcr as [Hcr|(? & ? & ? & Hin)]; [done|by apply elem_of_nil in Hin].
  - destruct Hcr as [Hcr|(? & ? & ? & Hin)]; [done|by apply elem_of_nil in Hin].
  - apply cwc_spec in Hcw as (ex & Hex & Hsig & -> & Hcs & _).
    rewrite Hc in Hex. inversion Hex; subst ex. clear Hex.
    pose proof (pay_revisable _ _ _ Hp) as Hrv'. rewrite Hrv in Hrv'.
    apply pay_spec in Hp as (Hle & Hk & Hn & Hr & Hh).
    exists pool, cid, deps, existing, rev.
    rewrite credited_app, credited_credits. simpl.
    replace (c_renter existing - c_renter rev) with (sum_amounts deps + 0) by lia.
    replace (c_host rev - c_host existing) with (sum_amounts deps + 0) by lia.
    repeat split; auto; lia.
  - exfalso. destruct Hcr as [Hcr|(? & ? & ? & Hin)].
    + apply Hcr. eapply quiet_sums. apply Forall_map, Forall_true. done.
    + apply elem_of_list_fmap in Hin as (? & ? & _). done.
  - exfalso. destruct Hcr as [Hcr|(? & ? & ? & Hin)].
    + apply Hcr. eapply quiet_sums. apply Forall_map, Forall_true. done.
    + apply elem_of_list_fmap in Hin as (? & ? & _). done.
  - exfalso. destruct Hcr as [Hcr|(? & ? & ? & Hin)]; [by apply Hcr|].
    apply elem_of_cons in Hin as [?|Hin]; [done|]. by apply elem_of_list_singleton in Hin.
  - exfalso. destruct Hcr as [Hcr|(? & ? & ? & Hin)]; [by apply Hcr|].
    apply elem_of_cons in Hin as [?|Hin]; [done|]. by apply elem_of_list_singleton in Hin.
Qed.

(** *** C15_balances_change_only_by_credit_or_debit *)
Theorem balances_change_only_by_credit_or_debit s o s' evs r :
  step s o = (s', (evs, r)) → accounts s' ≠ accounts s ∨ pools s' ≠ pools s →
  (∃ c x y, EvRevise c x y ∈ evs) ∨ (∃ a c, charge o = Some (a, c) ∧ EvDebit a c ∈ evs).
Proof.
  intros H Hne. apply step_cases in H as [(c0 & Ho0 & Hx0 & Hev0 & Hr0)|H].
  { destruct Hx0 as (Ea & Ep & _). rewrite Ea, Ep in Hne. by destruct Hne. }
  destruct H as [-> _ _| ? ? ? ? ? ? _ -> _ _ _
                | pool cid deps existing rev bs payload _ _ _ Hcw _
                | es _ _ _ _ -> _ _ | es _ _ _ _ -> _ _
                | a tok sector cost s1 Ho _ _ _ _ -> _
                | a tok sector cost s1 -> _ _ _ -> _].
  - by destruct Hne.
  - by destruct Hne.
  - left. apply cwc_spec in Hcw as (ex & _ & _ & -> & _).
    eexists _, _, _. apply elem_of_app. right. by left.
  - by destruct Hne.
  - by destruct Hne.
  - right. exists a, cost. split; [by destruct Ho as [-> | ->]|by left].
  - right. exists a, cost. split; [done|by left].
Qed.

(** *** C15_unrevisable_contract_not_credited: no crediting RPC succeeds against a contract
    that is past its proof height or renewed *)
Theorem unrevisable_contract_not_credited s o cid con :
  contracts s !! cid = Some con → c_revisable con = false →
  (∃ deps rsig, o = Fund cid deps rsig) ∨ (∃ pool keys target chal rsig, o = Replenish pool cid keys target chal rsig) →
  step s o = (s, ([], RErr)).
Proof.
  intros Hc Hr [(deps & rsig & ->)|(pool & keys & target & chal & rsig & ->)]; simpl.
  - unfold fund, fail. destruct (decide (deps = [])); [done|]. destruct (existsb _ deps); [done|].
    by rewrite Hc, Hr.
  - unfold replenish, fail. destruct (decide (keys = [])); [done|]. destruct (decide (target = 0)); [done|].
    by rewrite Hc, Hr.
Qed.

(** *** C15_unrevisable_contract_frozen: once unrevisable, a contract stays so and its
    outputs and revision number never change again *)
Theorem unrevisable_contract_frozen s o s' out cid con :
  contracts s !! cid = Some con → c_revisable con = false → step s o = (s', out) →
  ∃ con', contracts s' !! cid = Some con' ∧ c_revisable con' = false ∧
          c_renter con' = c_renter con ∧ c_host con' = c_host con ∧ c_revnum con' = c_revnum con.
Proof.
  intros Hc Hr H. destruct out as [evs r].
  apply step_cases in H as [(c0 & Ho0 & Hx0 & Hev0 & Hr0)|H].
  { destruct Hx0 as (_ & _ & _ & _ & _ & _ & _ & Hf). destruct (Hf _ _ Hc) as (con' & H1 & H2 & H3 & H4 & H5 & H6).
    exists con'. destruct (decide (cid = c0)) as [->|Hne].
    - repeat split; auto.
    - rewrite (H6 Hne) in *. repeat split; auto. }
  destruct H as [-> _ _| ? ? ? ? ? ? _ -> _ _ _
                | pool cid' deps existing rev bs payload _ Hc' _ Hcw _ Hrv
                | es _ _ _ _ -> _ _ | es _ _ _ _ -> _ _
                | a tok sector cost s1 _ _ _ Hd -> _ _
                | a tok sector cost s1 _ _ Hd -> _ _]; try (by exists con).
  - apply cwc_spec in Hcw as (_ & _ & _ & _ & Hcs & _). rewrite Hcs.
    destruct (decide (cid = cid')) as [->|Hne]; [congruence|].
    rewrite lookup_insert_ne by done. by exists con.
  - exists con. unfold debit in Hd. destruct (decide _); [discriminate|].
    destruct (decide (bal (accounts s) a = 0)); destruct (drain _ _ _); inversion Hd; subst; by simpl.
  - exists con. unfold debit in Hd. destruct (decide _); [discriminate|].
    destruct (decide (bal (accounts s) a = 0)); destruct (drain _ _ _); inversion Hd; subst; by simpl.
Qed.

(** *** C15_debit_atomic: DebitAccount is one atomic step — success removes exactly the
    price (and needs drawable funds that cover it), failure removes nothing *)
Theorem debit_atomic s a cost :
  inv s → 0 ≤ cost →
  match debit s a cost with
  | Some s' => cost ≤ drawable s a ∧ total s' = total s - cost ∧
               (∀ k, 0 ≤ bal (accounts s') k) ∧ (∀ k, 0 ≤ bal (pools s') k) ∧
               attached s' = attached s ∧ contracts s' = contracts s ∧ sectors s' = sectors s
  | None => drawable s a < cost
  end.
Proof.
  intros Hi Hc. destruct (debit s a cost) as [s'|] eqn:E.
  - destruct (debit_Some _ _ _ _ Hi Hc E) as (H1 & H2 & H3 & H4 & H5 & H6 & H7 & _). by repeat split.
  - by apply (debit_None s a cost Hi).
Qed.

(** *** C15_cut_stream_changes_nothing: an RPC whose request (header or sector data) never
    arrives completely is refused before anything is debited or stored *)
Theorem cut_stream_changes_nothing s o : step s (Cut o) = (s, ([], RErr)).
Proof. done. Qed.

(** ** Non-vacuity: a concrete reachable state that meets the hypotheses of every implication *)
Definition ex_cs : gmap N contract := {[ 0%N := Contract 100 5 1000 2000 true ]}.
Definition ex_tok (a : N) : token := Token 1 false (Sig a (MToken a 1)).
Definition ex_ops : list op := [
  Fund 0 [(1%N, 10); (2%N, 4)] (Sig 100 (MRevision 0 6 986 2014));
  Replenish true 0 [3%N; 3%N; 4%N] 7 (Sig 100 (MChallenge 0 [3%N; 3%N; 4%N] 7 6))
            (Sig 100 (MRevision 0 7 972 2028));
  Attach [Entry 1 3 1 false (Sig 3 (MAttach 1 3 1)); Entry 1 4 1 false (Sig 4 (MAttach 1 4 1))];
  WriteSec 1 (ex_tok 1) 9 12 ].
Definition ex_s : st := (run (start ex_cs ∅) ex_ops).1.

Example ex_funded : funded ex_cs.
Proof. intros c con H. unfold ex_cs in H. apply lookup_singleton_Some in H as [_ <-]. simpl. lia. Qed.

Example ex_wf : Forall wf_op ex_ops.
Proof. repeat constructor; simpl; lia. Qed.

Example ex_reachable : reachable ex_s.
Proof.
  exists ex_cs, ∅, ex_ops, (run (start ex_cs ∅) ex_ops).2.
  split; [apply ex_funded|split; [apply ex_wf|]]. unfold ex_s. by destruct (run _ _).
Qed.

Example ex_inv : inv ex_s.
Proof. apply reachable_inv, ex_reachable. Qed.

(** the run credits 28 against revisions moving 28, debits 12, and holds 16 *)
Example ex_conservation :
  total ex_s = 16 ∧ credited (events_of (run (start ex_cs ∅) ex_ops).2) = 28 ∧
  debited (events_of (run (start ex_cs ∅) ex_ops).2) = 12 ∧
  renter_total ex_s = 972 ∧ host_total ex_s = 2028 ∧
  bal (accounts ex_s) 1 = 0 ∧ bal (pools ex_s) 3 = 5 ∧ bal (pools ex_s) 4 = 7 ∧ links ex_s 1 = [3%N; 4%N].
Proof. vm_compute. repeat split. Qed.

(** the pool listed twice was topped up to the target once *)
Example ex_replenish_duplicate :
  (run (start ex_cs ∅) ex_ops).2 !! 1%nat =
  Some ([EvCredit true 3 7; EvCredit true 3 0; EvCredit true 4 7; EvRevise 0 14 14], ROk [7; 0; 7]).
Proof. vm_compute. done. Qed.

(** drawable is 12: a read priced 13 is refused, one priced 12 drains pool 3, then pool 4 *)
Example ex_insufficient :
  charge (ReadSec 1 (ex_tok 1) 9 13) = Some (1%N, 13) ∧ drawable ex_s 1 < 13 ∧
  (step ex_s (ReadSec 1 (ex_tok 1) 9 13)).2 = ([], RErr).
Proof. vm_compute. repeat split. Qed.

Example ex_sufficient :
  12 ≤ drawable ex_s 1 ∧
  (step ex_s (ReadSec 1 (ex_tok 1) 9 12)).2 = ([EvDebit 1 12; EvRead 9], ROk []) ∧
  is_service (EvRead 9) = true ∧
  bal (pools (step ex_s (ReadSec 1 (ex_tok 1) 9 12)).1) 3 = 0 ∧
  bal (pools (step ex_s (ReadSec 1 (ex_tok 1) 9 12)).1) 4 = 0 ∧
  token_ok 1 (ex_tok 1) = true ∧ 9%N ∈ sectors ex_s.
Proof. split; [vm_compute; discriminate|]. split; [by vm_compute|]. split; [done|].
  split; [by vm_compute|]. split; [by vm_compute|]. split; [by vm_compute|].
  apply (bool_decide_unpack _). by vm_compute. Qed.

Example ex_replenish_accounts :
  let out := step ex_s (Replenish false 0 [1%N; 1%N; 2%N] 3 (Sig 100 (MChallenge 0 [1%N; 1%N; 2%N] 3 7))
                                  (Sig 100 (MRevision 0 8 969 2031))) in
  out.2 = ([EvCredit false 1 3; EvCredit false 1 0; EvCredit false 2 0; EvRevise 0 3 3], ROk [3; 0; 0]) ∧
  bal (accounts out.1) 1 = 3 ∧ bal (accounts out.1) 2 = 4 ∧ credited out.2.1 ≠ 0.
Proof. vm_compute. repeat split; discriminate. Qed.

(** a wrong key, and an attach signature replayed as a detach, change nothing;
    the pool's own detach signature takes effect *)
Example ex_attach_wrong_key :
  (step ex_s (Attach [Entry 2 3 1 false (Sig 2 (MAttach 2 3 1))])).2 = ([], RErr).
Proof. by vm_compute. Qed.
Example ex_detach_replayed_attach_signature :
  (step ex_s (Detach [Entry 1 3 1 false (Sig 3 (MAttach 1 3 1))])).2 = ([], RErr).
Proof. by vm_compute. Qed.
Example ex_detach_valid :
  links (step ex_s (Detach [Entry 1 3 2 false (Sig 1 (MDetach 1 3 2))])).1 1 = [4%N] ∧
  attached (step ex_s (Detach [Entry 1 3 2 false (Sig 1 (MDetach 1 3 2))])).1 ≠ attached ex_s.
Proof.
  split; [by vm_compute|]. intros H.
  assert (links (step ex_s (Detach [Entry 1 3 2 false (Sig 1 (MDetach 1 3 2))])).1 1 = links ex_s 1) as Hl
    by (unfold links; by rewrite H).
  vm_compute in Hl. discriminate.
Qed.

(** ** Attachment order: detach removes exactly the named links and keeps the others in
    their order; attach only appends *)
Definition lk (att : gmap N (list N)) (a : N) : list N := default [] (att !! a).
Definition link_pairs (es : list entry) : list (N * N) := map (λ e, (e_acct e, e_pool e)) es.

Lemma lk_NoDup att a : nodup_att att → NoDup (lk att a).
Proof.
  intros Hn. unfold lk. destruct (att !! a) as [l|] eqn:E; simpl; [by apply (Hn _ _ E)|apply NoDup_nil_2].
Qed.

Lemma filter_all {A} (P : A → Prop) `{!∀ x, Decision (P x)} (l : list A) :
  (∀ x, x ∈ l → P x) → filter P l = l.
Proof.
  induction l as [|x l IH]; intros Hall; [done|].
  rewrite filter_cons_True by (apply Hall; left). rewrite IH; [done|]. intros y Hy. apply Hall. by right.
Qed.

Lemma remove_first_filter p l : NoDup l → remove_first p l = filter (λ q, q ≠ p) l.
Proof.
  induction 1 as [|x l Hx Hl IH]; simpl; [done|].
  destruct (decide (x = p)) as [->|Hne].
  - rewrite filter_cons_False by (intros H; by apply H).
    symmetry. apply filter_all. intros y Hy ->. contradiction.
  - rewrite filter_cons_True by done. by rewrite IH.
Qed.

Lemma lk_detach_one att e a :
  lk (detach_one att e) a =
  if decide (a = e_acct e) then remove_first (e_pool e) (lk att a) else lk att a.
Proof.
  unfold detach_one, lk.
  destruct (decide (remove_first (e_pool e) (default [] (att !! e_acct e)) = [])) as [He|He];
    destruct (decide (a = e_acct e)) as [->|Hne].
  - by rewrite lookup_delete, He.
  - by rewrite lookup_delete_ne.
  - by rewrite lookup_insert.
  - by rewrite lookup_insert_ne.
Qed.

Lemma detach_links es : ∀ att a, nodup_att att →
  lk (fold_left detach_one es att) a = filter (λ q, (a, q) ∉ link_pairs es) (lk att a).
Proof.
  induction es as [|e es IH]; intros att a Hn; simpl.
  - symmetry. apply filter_all. intros q _. apply not_elem_of_nil.
  - rewrite IH by (by apply detach_one_nodup). rewrite lk_detach_one.
    destruct (decide (a = e_acct e)) as [->|Hne].
    + rewrite remove_first_filter by (by apply lk_NoDup). rewrite list_filter_filter.
      apply list_filter_iff. intros q. rewrite not_elem_of_cons. split.
      * intros [H1 H2]. split; [congruence|done].
      * intros [H1 H2]. split; [done|]. intros ->. by apply H1.
    + apply list_filter_iff. intros q. rewrite not_elem_of_cons. split.
      * intros H. split; [congruence|done].
      * by intros [_ H].
Qed.

(** *** C15_detach_preserves_order *)
Theorem detach_preserves_order s es s' evs r :
  inv s → step s (Detach es) = (s', (evs, r)) →
  (r = RErr → ∀ a, links s' a = links s a) ∧
  (r ≠ RErr → ∀ a, links s' a = filter (λ q, (a, q) ∉ link_pairs es) (links s a)).
Proof.
  intros Hi H. apply step_cases in H as [(c0 & Ho0 & Hx0 & Hev0 & Hr0)|H]; [done|].
  destruct H as [-> _ ->| ? ? ? ? ? ? Ho _ _ _ _
                | pool cid deps existing rev bs payload Ho _ _ _ _
                | es' Ho _ _ _ _ _ _ | es' Ho _ _ _ -> _ ->
                | a tok sector cost s1 Ho _ _ _ _ _ _
                | a tok sector cost s1 Ho _ _ _ _ _]; try done.
  - destruct Ho as [(Ho & _)|(? & ? & ? & Ho & _)]; done.
  - inversion Ho; subst es'. split; [done|]. intros _ a.
    apply (detach_links es (attached s) a). exact (inv_nodup s Hi).
  - destruct Ho as [Ho|Ho]; done.
Qed.

(** the single-entry reading: the named link disappears, the links before and after it
    stay where they were *)
Theorem detach_single_link s e s' evs r a p pre post :
  inv s → step s (Detach [e]) = (s', (evs, r)) → r ≠ RErr →
  e_acct e = a → e_pool e = p → links s a = pre ++ p :: post →
  links s' a = pre ++ post ∧ ∀ b, b ≠ a → links s' b = links s b.
Proof.
  intros Hi H Hr Ha Hp Hl.
  destruct (detach_preserves_order _ _ _ _ _ Hi H) as [_ Hd]. specialize (Hd Hr).
  pose proof (links_NoDup s a Hi) as Hnd. rewrite Hl in Hnd.
  apply NoDup_app in Hnd as (Hpre & Hdis & Hpost). apply NoDup_cons in Hpost as [Hpp Hpost].
  split.
  - rewrite Hd, Hl. unfold link_pairs. simpl. rewrite Ha, Hp.
    rewrite filter_app, filter_cons_False by (intros Hn; apply Hn; left).
    rewrite !filter_all; [done| |];
      (intros q Hq Hin; apply elem_of_list_singleton in Hin; inversion Hin; subst;
       first [contradiction | eapply Hdis; [exact Hq|left]]).
  - intros b Hb. rewrite Hd. apply filter_all. intros q _ Hin.
    unfold link_pairs in Hin. simpl in Hin. apply elem_of_list_singleton in Hin. inversion Hin. congruence.
Qed.

Lemma lk_attach_one att e a :
  lk (attach_one att e) a =
  if decide (a = e_acct e) then
    (if decide (e_pool e ∈ lk att a) then lk att a else lk att a ++ [e_pool e])
  else lk att a.
Proof.
  unfold attach_one, lk. case_bool_decide as Hin.
  - destruct (decide (a = e_acct e)) as [->|Hne]; [|done]. by rewrite decide_True.
  - destruct (decide (a = e_acct e)) as [->|Hne].
    + rewrite lookup_insert. simpl. by rewrite decide_False.
    + by rewrite lookup_insert_ne.
Qed.

Lemma attach_links es : ∀ att a,
  lk att a `prefix_of` lk (fold_left attach_one es att) a ∧
  ∀ q, q ∈ lk (fold_left attach_one es att) a ↔ q ∈ lk att a ∨ (a, q) ∈ link_pairs es.
Proof.
  induction es as [|e es IH]; intros att a; simpl.
  - split; [done|]. intros q. split; [by left|]. intros [H|H]; [done|by apply elem_of_nil in H].
  - destruct (IH (attach_one att e) a) as [Hpre Hmem].
    pose proof (lk_attach_one att e a) as Hone.
    split.
    + etrans; [|exact Hpre]. rewrite Hone.
      destruct (decide (a = e_acct e)); [|done].
      destruct (decide (e_pool e ∈ lk att a)); [done|]. by apply prefix_app_r.
    + intros q. rewrite Hmem, Hone, elem_of_cons.
      destruct (decide (a = e_acct e)) as [->|Hne].
      * destruct (decide (e_pool e ∈ lk att (e_acct e))) as [Hin|Hnin].
        -- split; [intros [H|H]; auto|]. intros [H|[H|H]]; auto. inversion H; subst. by left.
        -- rewrite elem_of_app, elem_of_list_singleton.
           split; [intros [[H|H]|H]; auto; subst; right; by left|].
           intros [H|[H|H]]; auto. inversion H; subst. left. by right.
      * split; [intros [H|H]; auto|]. intros [H|[H|H]]; auto. inversion H; subst. done.
Qed.

(** *** C15_attach_appends: an attach never reorders what is attached; it adds exactly the
    requested links, behind the existing ones *)
Theorem attach_appends s es s' evs r :
  step s (Attach es) = (s', (evs, r)) →
  ∀ a, links s a `prefix_of` links s' a ∧
       ∀ q, q ∈ links s' a ↔ q ∈ links s a ∨ (r ≠ RErr ∧ (a, q) ∈ link_pairs es).
Proof.
  intros H a. apply step_cases in H as [(c0 & Ho0 & Hx0 & Hev0 & Hr0)|H]; [done|].
  destruct H as [-> _ ->| ? ? ? ? ? ? Ho _ _ _ _
                | pool cid deps existing rev bs payload Ho _ _ _ _
                | es' Ho _ _ _ -> _ -> | es' Ho _ _ _ _ _ _
                | a' tok sector cost s1 Ho _ _ _ _ _ _
                | a' tok sector cost s1 Ho _ _ _ _ _]; try done.
  - split; [done|]. intros q. split; [by left|]. by intros [H|[H _]].
  - destruct Ho as [(Ho & _)|(? & ? & ? & Ho & _)]; done.
  - inversion Ho; subst es'. destruct (attach_links es (attached s) a) as [Hp Hm].
    split; [exact Hp|]. intros q. unfold links; simpl. fold (lk (fold_left attach_one es (attached s)) a).
    rewrite Hm. unfold lk. split; [intros [H|H]; auto|]. intros [H|[_ H]]; auto.
  - destruct Ho as [Ho|Ho]; done.
Qed.

(** non-vacuity: detaching the first of two links keeps the second; attaching appends *)
Example ex_detach_keeps_order :
  links ex_s 1 = [3%N; 4%N] ∧
  links (step ex_s (Detach [Entry 1 3 2 false (Sig 1 (MDetach 1 3 2))])).1 1 = [4%N] ∧
  (step ex_s (Detach [Entry 1 3 2 false (Sig 1 (MDetach 1 3 2))])).2.2 ≠ RErr ∧
  links (step ex_s (Attach [Entry 2 4 1 false (Sig 4 (MAttach 2 4 1)); Entry 2 3 1 false (Sig 3 (MAttach 2 3 1))])).1 2
    = [4%N; 3%N].
Proof. vm_compute. repeat split; discriminate. Qed.

(** once contract 0 has expired, funding and replenishing from it are refused *)
Example ex_expired_contract :
  let s1 := (step ex_s (Expire 0)).1 in
  (step ex_s (Expire 0)).2 = ([], ROk []) ∧
  (∃ con, contracts s1 !! 0%N = Some con ∧ c_revisable con = false ∧ c_renter con = 972) ∧
  (step s1 (Fund 0 [(1%N, 5)] (Sig 100 (MRevision 0 8 967 2033)))).2 = ([], RErr) ∧
  (step s1 (Replenish true 0 [3%N] 9 (Sig 100 (MChallenge 0 [3%N] 9 7)) (Sig 100 (MRevision 0 8 968 2032)))).2 = ([], RErr) ∧
  (step ex_s (Fund 0 [(1%N, 5)] (Sig 100 (MRevision 0 8 967 2033)))).2.2 = ROk [5].
Proof. vm_compute. repeat split. eexists. repeat split. Qed.

(** an abandoned write of a funded account: nothing happens; the complete one is charged *)
Example ex_cut_write :
  12 ≤ drawable ex_s 1 ∧
  (step ex_s (Cut (WriteSec 1 (ex_tok 1) 8 12))).2 = ([], RErr) ∧
  (step ex_s (WriteSec 1 (ex_tok 1) 8 12)).2 = ([EvDebit 1 12; EvStore 8], ROk []) ∧
  (∃ s', debit ex_s 1 12 = Some s') ∧ debit ex_s 1 13 = None.
Proof. split; [vm_compute; discriminate|]. split; [by vm_compute|]. split; [by vm_compute|].
  split; [|by vm_compute]. destruct (debit ex_s 1 12) eqn:E; [by eexists|]. vm_compute in E. discriminate. Qed.
