(** * RHP/Accounts.v — the account / pool ledger of an RHP4 host (C15)

    Executable model, no proofs.  One RPC is one step (the handlers run under the
    contract lock and every Contractor method holds the Contractor's mutex for
    the whole call).  Transcribed from
      - rhp/v4/server.go      (handlers; the replenish handlers after the F13 repair)
      - testutil/host.go      (EphemeralContractor, the reference Contractor)
      - go.sia.tech/core rhp/v4 (PayWithContract, request validation)
    Accounts, pools, contracts, sectors and keys are numbers (an account or a
    pool *is* a public key, so the same number names the key that signs for it);
    amounts are [Z] (types.Currency is unsigned: non-negativity of the inputs is a
    well-formedness hypothesis of the theorems, of the balances a theorem).
    Signatures are symbolic (DESIGN 3.3): [verify k m s := s = Sig k m].

    Not modelled (inputs of the harness are always valid there): price-table
    signature/expiry, offset/length alignment, batch-size limits (1000), the
    contract lock, currency overflow. *)
From stdpp Require Import gmap.
From Coq Require Import ZArith NArith List.
Open Scope Z_scope.

(** ** Symbolic signatures *)
Inductive msg :=
| MAttach (acct pool vu : N)                                   (* PoolAttachment.SigHash: domain, host key, account, pool, ValidUntil *)
| MDetach (acct pool vu : N)                                   (* PoolDetachment.SigHash *)
| MToken (acct vu : N)                                         (* AccountToken.SigHash *)
| MRevision (c revnum : N) (renter host : Z)                   (* ContractSigHash of a revision *)
| MChallenge (c : N) (keys : list N) (target : Z) (revnum : N) (* RPCReplenishAccountsRequest.ChallengeSigHash *).
Inductive sig := Sig (k : N) (m : msg) | NoSig.

#[global] Instance msg_eq_dec : EqDecision msg.
Proof. solve_decision. Defined.
#[global] Instance sig_eq_dec : EqDecision sig.
Proof. solve_decision. Defined.

Definition verify (k : N) (m : msg) (s : sig) : bool := bool_decide (s = Sig k m).

(** ** State *)
(** [c_revisable] is [RevisionState.Revisable] as LockV2Contract reports it: the contract has
    not been renewed and the host's tip is below its proof height (testutil/host.go:157-162).
    It is an input of the environment; [Expire] below is the step that clears it. *)
Record contract := Contract { c_rkey : N; c_revnum : N; c_renter : Z; c_host : Z; c_revisable : bool }.

Record st := St {
  accounts : gmap N Z;
  pools : gmap N Z;
  attached : gmap N (list N);      (* account -> pools in attachment order *)
  contracts : gmap N contract;
  sectors : gset N;
}.
Definition st_init : st := St ∅ ∅ ∅ ∅ ∅.

(** Go's map read: a missing key reads as the zero currency *)
Definition bal (m : gmap N Z) (k : N) : Z := default 0 (m !! k).
Definition links (s : st) (a : N) : list N := default [] (attached s !! a).

(** ** Requests *)
Record entry := Entry { e_acct : N; e_pool : N; e_vu : N; e_expired : bool; e_sig : sig }.
Record token := Token { t_vu : N; t_expired : bool; t_sig : sig }.

Inductive op :=
| Fund (c : N) (deps : list (N * Z)) (rsig : sig)
| Replenish (pool : bool) (c : N) (keys : list N) (target : Z) (chal rsig : sig)
| Attach (es : list entry)
| Detach (es : list entry)
| ReadSec (a : N) (tok : token) (sector : N) (cost : Z)
| WriteSec (a : N) (tok : token) (sector : N) (cost : Z)
| VerifySec (a : N) (tok : token) (sector : N) (cost : Z)
| Expire (c : N)   (* not an RPC: the chain reaches the proof height of [c], or [c] is renewed *)
| Cut (o : op)     (* the host refuses [o] while it reads and validates the request: the stream ends before
                      all of the request has arrived (the header, or the announced sector data of a write),
                      or the request is structurally invalid (core's Validate: zero / unaligned / oversize
                      lengths, leaf index out of range, more than 1000 batch entries; the handler's own
                      segment-alignment check of a read).  ReadRequest / Validate / io.CopyN all come
                      before the handler's first Contractor or Sectors call (server.go:190-203, 237-250,
                      413-419, 454-460, 600-606, 1236-1242): the handler returns an error. *).

(** What a wrapping Contractor / Sectors records, in call order. *)
Inductive event :=
| EvCredit (pool : bool) (k : N) (amt : Z)         (* one deposit of a Credit*WithContract call *)
| EvRevise (c : N) (from_renter to_host : Z)       (* the revision persisted by that same call *)
| EvDebit (a : N) (cost : Z)                       (* a DebitAccount call that returned nil *)
| EvAttach (a p : N) | EvDetach (a p : N)          (* entries handed to AttachPools / DetachPools *)
| EvRead (sector : N) | EvStore (sector : N).      (* Sectors.ReadSector / StoreSector *)

#[global] Instance event_eq_dec : EqDecision event.
Proof. solve_decision. Defined.

(** [ROk payload]: balances for fund, deposits for replenish, [] otherwise *)
Inductive res := ROk (payload : list Z) | RErr.

Definition fail (s : st) : st * (list event * res) := (s, ([], RErr)).

(** ** core: PayWithContract (core rhp/v4/rhp.go:844-860; AccountFunding usage, no collateral) *)
Definition pay (c : contract) (amount : Z) : option contract :=
  if decide (c_renter c < amount) then None
  else Some (Contract (c_rkey c) (N.succ (c_revnum c)) (c_renter c - amount) (c_host c + amount) (c_revisable c)).

Definition rev_msg (cid : N) (c : contract) : msg :=
  MRevision cid (c_revnum c) (c_renter c) (c_host c).

Definition sum_amounts (deps : list (N * Z)) : Z := fold_right (λ d acc, d.2 + acc) 0 deps.

(** ** Contractor: Credit{Accounts,Pools}WithContract (testutil/host.go:279-305, 392-418) *)
Fixpoint credit_all (m : gmap N Z) (deps : list (N * Z)) : gmap N Z * list Z :=
  match deps with
  | [] => (m, [])
  | (k, amt) :: deps' =>
      let b := bal m k + amt in
      let '(m', bs) := credit_all (<[k := b]> m) deps' in (m', b :: bs)
  end.

Definition credit_with_contract (pool : bool) (s : st) (deps : list (N * Z)) (cid : N)
    (rev : contract) (rsig : sig) : option (st * list Z * list event) :=
  match contracts s !! cid with
  | None => None                                              (* contract not found *)
  | Some existing =>
      if decide (c_revnum rev ≤ c_revnum existing)%N then None (* revision number must be greater *)
      else if negb (verify (c_rkey existing) (rev_msg cid rev) rsig) then None
      else
        let evs := map (λ d, EvCredit pool d.1 d.2) deps
                   ++ [EvRevise cid (c_renter existing - c_renter rev) (c_host rev - c_host existing)] in
        let cs := <[cid := rev]> (contracts s) in
        if pool then
          let '(m', bs) := credit_all (pools s) deps in
          Some (St (accounts s) m' (attached s) cs (sectors s), bs, evs)
        else
          let '(m', bs) := credit_all (accounts s) deps in
          Some (St m' (pools s) (attached s) cs (sectors s), bs, evs)
  end.

(** ** Contractor: DebitAccount (testutil/host.go:307-357) *)
(** first loop: accumulate pools until the cost is covered *)
Fixpoint drawable_upto (ps : gmap N Z) (cost drawable : Z) (l : list N) : Z :=
  match l with
  | [] => drawable
  | p :: l' => if decide (cost ≤ drawable) then drawable
               else drawable_upto ps cost (drawable + bal ps p) l'
  end.

Definition take_from (balance remaining : Z) : Z :=
  if decide (remaining < balance) then remaining else balance.

(** second loop: drain the pools in attachment order *)
Fixpoint drain (ps : gmap N Z) (remaining : Z) (l : list N) : gmap N Z * Z :=
  match l with
  | [] => (ps, remaining)
  | p :: l' =>
      if decide (remaining = 0) then (ps, remaining)
      else let b := bal ps p in
           if decide (b = 0) then drain ps remaining l'
           else let t := take_from b remaining in
                drain (<[p := b - t]> ps) (remaining - t) l'
  end.

Definition debit (s : st) (a : N) (cost : Z) : option st :=
  let own := bal (accounts s) a in
  let l := links s a in
  if decide (drawable_upto (pools s) cost own l < cost) then None   (* ErrNotEnoughFunds, nothing touched *)
  else
    let '(accts', remaining) :=
      if decide (own = 0) then (accounts s, cost)
      else let t := take_from own cost in (<[a := own - t]> (accounts s), cost - t) in
    let '(pools', _) := drain (pools s) remaining l in
    Some (St accts' pools' (attached s) (contracts s) (sectors s)).

(** ** Contractor: AttachPools / DetachPools (testutil/host.go:420-462) *)
Definition attach_one (att : gmap N (list N)) (e : entry) : gmap N (list N) :=
  let l := default [] (att !! e_acct e) in
  if bool_decide (e_pool e ∈ l) then att else <[e_acct e := l ++ [e_pool e]]> att.

Fixpoint remove_first (p : N) (l : list N) : list N :=
  match l with
  | [] => []
  | x :: l' => if decide (x = p) then l' else x :: remove_first p l'
  end.

Definition detach_one (att : gmap N (list N)) (e : entry) : gmap N (list N) :=
  let l' := remove_first (e_pool e) (default [] (att !! e_acct e)) in
  if decide (l' = []) then delete (e_acct e) att else <[e_acct e := l']> att.

(** ** Handlers *)
(** handleRPCFundAccounts (server.go:413-452) *)
Definition fund (s : st) (cid : N) (deps : list (N * Z)) (rsig : sig) : st * (list event * res) :=
  if decide (deps = []) then fail s                                      (* Validate: no deposits *)
  else if existsb (λ d, bool_decide (d.2 = 0)) deps then fail s          (* Validate: zero amount *)
  else match contracts s !! cid with
  | None => fail s                                                       (* lock: contract not found *)
  | Some existing =>
    if negb (c_revisable existing) then fail s                           (* lockContractForRevision: not revisable *)
    else match pay existing (sum_amounts deps) with
    | None => fail s                                                     (* insufficient renter funds *)
    | Some rev =>
      if negb (verify (c_rkey existing) (rev_msg cid rev) rsig) then fail s  (* ErrInvalidSignature *)
      else match credit_with_contract false s deps cid rev rsig with
           | None => fail s
           | Some (s', bs, evs) => (s', (evs, ROk bs))
           end
    end
  end.

(** deposits of a replenish request (server.go, after the repair of F13): each
    deposit is computed against the balance read before the batch plus what the
    batch already deposits into the same key *)
Fixpoint replenish_deposits (target : Z) (pending : gmap N Z) (l : list (N * Z)) : list (N * Z) :=
  match l with
  | [] => []
  | (k, b) :: l' =>
      let b' := b + bal pending k in
      let d := if decide (target < b') then 0 else target - b' in     (* SubWithUnderflow *)
      (k, d) :: replenish_deposits target (<[k := bal pending k + d]> pending) l'
  end.

(** the function as it was before the repair (kept for C15_replenish_prefix_refuted) *)
Definition replenish_deposits_prefix (target : Z) (l : list (N * Z)) : list (N * Z) :=
  map (λ kb, (kb.1, if decide (target < kb.2) then 0 else target - kb.2)) l.

(** handleRPCReplenishAccounts / handleRPCReplenishPools (server.go:454-530, 532-608) *)
Definition replenish (pool : bool) (s : st) (cid : N) (keys : list N) (target : Z)
    (chal rsig : sig) : st * (list event * res) :=
  if decide (keys = []) then fail s                                      (* Validate *)
  else if decide (target = 0) then fail s                                (* Validate *)
  else match contracts s !! cid with
  | None => fail s
  | Some existing =>
    if negb (c_revisable existing) then fail s                           (* lockContractForRevision: not revisable *)
    else if negb (verify (c_rkey existing) (MChallenge cid keys target (c_revnum existing)) chal) then fail s
    else
      let m := if pool then pools s else accounts s in
      let deps := replenish_deposits target ∅ (map (λ k, (k, bal m k)) keys) in
      if decide (sum_amounts deps = 0) then (s, ([], ROk (map snd deps)))   (* nothing to deposit *)
      else match pay existing (sum_amounts deps) with
      | None => fail s
      | Some rev =>
        if negb (verify (c_rkey existing) (rev_msg cid rev) rsig) then fail s
        else match credit_with_contract pool s deps cid rev rsig with
             | None => fail s
             | Some (s', _, evs) => (s', (evs, ROk (map snd deps)))
             end
      end
  end.

(** RPCAttachPoolsRequest.Validate / RPCDetachPoolsRequest.Validate (core validation.go:316-365) *)
Definition entry_bad (e : entry) : bool := bool_decide (e_acct e = e_pool e) || e_expired e.

Definition attach_sig_ok (e : entry) : bool :=
  verify (e_pool e) (MAttach (e_acct e) (e_pool e) (e_vu e)) (e_sig e).
Definition detach_sig_ok (e : entry) : bool :=
  verify (e_pool e) (MDetach (e_acct e) (e_pool e) (e_vu e)) (e_sig e)
  || verify (e_acct e) (MDetach (e_acct e) (e_pool e) (e_vu e)) (e_sig e).

(** handleRPCAttachPools (server.go) + AttachPools *)
Definition attach (s : st) (es : list entry) : st * (list event * res) :=
  if decide (es = []) then fail s
  else if existsb entry_bad es then fail s
  else if negb (forallb attach_sig_ok es) then fail s                    (* ErrInvalidSignature *)
  else if negb (forallb (λ e, bool_decide (is_Some (pools s !! e_pool e))) es) then fail s  (* ErrPoolNotFound *)
  else (St (accounts s) (pools s) (fold_left attach_one es (attached s)) (contracts s) (sectors s),
        (map (λ e, EvAttach (e_acct e) (e_pool e)) es, ROk [])).

(** handleRPCDetachPools (server.go) + DetachPools *)
Definition detach (s : st) (es : list entry) : st * (list event * res) :=
  if decide (es = []) then fail s
  else if existsb entry_bad es then fail s
  else if negb (forallb detach_sig_ok es) then fail s
  else (St (accounts s) (pools s) (fold_left detach_one es (attached s)) (contracts s) (sectors s),
        (map (λ e, EvDetach (e_acct e) (e_pool e)) es, ROk [])).

(** AccountToken.Validate (core validation.go:29-39) *)
Definition token_ok (a : N) (t : token) : bool :=
  negb (t_expired t) && verify a (MToken a (t_vu t)) (t_sig t).

(** handleRPCReadSector (server.go:190-235) and handleRPCVerifySector (server.go:1236-1263):
    validate, existence check, debit, read *)
Definition read_like (s : st) (a : N) (tok : token) (sector : N) (cost : Z) : st * (list event * res) :=
  if negb (token_ok a tok) then fail s
  else if negb (bool_decide (sector ∈ sectors s)) then fail s           (* ErrSectorNotFound *)
  else match debit s a cost with
       | None => fail s
       | Some s' => (s', ([EvDebit a cost; EvRead sector], ROk []))
       end.

(** handleRPCWriteSector (server.go:237-267): validate, debit, store *)
Definition write (s : st) (a : N) (tok : token) (sector : N) (cost : Z) : st * (list event * res) :=
  if negb (token_ok a tok) then fail s
  else match debit s a cost with
       | None => fail s
       | Some s' =>
           (St (accounts s') (pools s') (attached s') (contracts s') ({[sector]} ∪ sectors s'),
            ([EvDebit a cost; EvStore sector], ROk []))
       end.

(** the environment: contract [c] stops being revisable (proof height reached, or renewed) *)
Definition kill (c : contract) : contract :=
  Contract (c_rkey c) (c_revnum c) (c_renter c) (c_host c) false.
Definition expire (s : st) (c : N) : st * (list event * res) :=
  match contracts s !! c with
  | None => (s, ([], ROk []))
  | Some con => (St (accounts s) (pools s) (attached s) (<[c := kill con]> (contracts s)) (sectors s), ([], ROk []))
  end.

Definition step (s : st) (o : op) : st * (list event * res) :=
  match o with
  | Fund c deps rsig => fund s c deps rsig
  | Replenish pool c keys target chal rsig => replenish pool s c keys target chal rsig
  | Attach es => attach s es
  | Detach es => detach s es
  | ReadSec a tok sector cost => read_like s a tok sector cost
  | VerifySec a tok sector cost => read_like s a tok sector cost
  | WriteSec a tok sector cost => write s a tok sector cost
  | Expire c => expire s c
  | Cut _ => fail s
  end.

Fixpoint run (s : st) (ops : list op) : st * list (list event * res) :=
  match ops with
  | [] => (s, [])
  | o :: ops' => let '(s1, out) := step s o in
                 let '(s2, outs) := run s1 ops' in (s2, out :: outs)
  end.

Definition events_of (outs : list (list event * res)) : list event := concat (map fst outs).

(** ** Accounting over a trace and over a state *)
Definition credited (evs : list event) : Z :=
  fold_right (λ e acc, match e with EvCredit _ _ amt => amt + acc | _ => acc end) 0 evs.
Definition debited (evs : list event) : Z :=
  fold_right (λ e acc, match e with EvDebit _ c => c + acc | _ => acc end) 0 evs.
Definition moved_from_renter (evs : list event) : Z :=
  fold_right (λ e acc, match e with EvRevise _ r _ => r + acc | _ => acc end) 0 evs.
Definition moved_to_host (evs : list event) : Z :=
  fold_right (λ e acc, match e with EvRevise _ _ h => h + acc | _ => acc end) 0 evs.

Definition msum {A} (f : A → Z) (m : gmap N A) : Z := map_fold (λ _ v acc, f v + acc) 0 m.
Definition total (s : st) : Z := msum id (accounts s) + msum id (pools s).
Definition renter_total (s : st) : Z := msum c_renter (contracts s).
Definition host_total (s : st) : Z := msum c_host (contracts s).

(** own balance plus all attached pools: the drawable funds of the property text *)
Definition pool_sum (ps : gmap N Z) (l : list N) : Z := fold_right (λ p acc, bal ps p + acc) 0 l.
Definition drawable (s : st) (a : N) : Z := bal (accounts s) a + pool_sum (pools s) (links s a).

(** what an operation charges: account and priced cost *)
Definition charge (o : op) : option (N * Z) :=
  match o with
  | ReadSec a _ _ c | WriteSec a _ _ c | VerifySec a _ _ c => Some (a, c)
  | _ => None
  end.

(** the renter's revision signature carried by a crediting request *)
Definition rsig_of (o : op) : sig :=
  match o with
  | Fund _ _ rsig | Replenish _ _ _ _ _ rsig => rsig
  | _ => NoSig
  end.

Definition is_service (e : event) : bool :=
  match e with EvRead _ | EvStore _ => true | _ => false end.

(** amounts of a request are currencies *)
Definition wf_op (o : op) : Prop :=
  match o with
  | Fund _ deps _ => Forall (λ d, 0 ≤ d.2) deps
  | Replenish _ _ _ target _ _ => 0 ≤ target
  | ReadSec _ _ _ c | WriteSec _ _ _ c | VerifySec _ _ _ c => 0 ≤ c
  | _ => True
  end.
