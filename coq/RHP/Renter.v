(** * RHP/Renter.v — the renter-side RPC functions of rhp/v4/rpc.go (C10)

    Executable model, definitions only. Every client function is a total
    decision function from (request parameters, the renter's view of the
    contract, the host's response) to [Ok result | Err].

    Two layers, the second defined through the first:

    - [*_decide]: the control flow of the Go function with its checks in source
      order, over numbers and over the *outcomes* of core's verifiers (booleans).
      This is what [Run/Run_C10.v] evaluates on the cases written by the harness
      (which computes those booleans by calling core's verifiers itself).
    - [client_*]: the same function over symbolic response terms (DESIGN 3.3):
      leaves, sector roots and contract roots are terms, the Merkle root is a
      free constructor, signatures are [Sig k m]. The verifier outcomes are
      computed from the terms and handed to [*_decide]. The theorems of
      [RenterProofs.v] are about [client_*].

    Line numbers refer to rhp/v4/rpc.go of the repaired tree (fix commits
    def394a, 84b7403, ae0d4c7, 00e2f00). *)
From stdpp Require Import prelude.
From Coq Require Import NArith.
Open Scope N_scope.

Inductive result (A : Type) := Ok (a : A) | Err.
Arguments Ok {A} a.
Arguments Err {A}.

(** ** Constants of go.sia.tech/core/rhp/v4 *)
Definition sector_size : N := 4194304.        (* SectorSize = 1 << 22 *)
Definition leaf_size : N := 64.               (* LeafSize *)
Definition leaves_per_sector : N := 65536.    (* LeavesPerSector *)
Definition max_sector_batch : N := 262144.    (* MaxSectorBatchSize = (1<<40)/SectorSize *)
Definition max_account_batch : N := 1000.     (* MaxAccountBatchSize *)
Definition temp_sector_duration : N := 432.   (* TempSectorDuration = 144*3 *)
Definition two64 : N := 18446744073709551616.

Definition round4k (n : N) : N := (n + 4095) / 4096 * 4096.   (* round4KiB *)

(** ** The numeric part of a revision and of a price table *)
Record view (R : Type) := mk_view {
  v_revnum : N; v_filesize : N; v_capacity : N; v_root : R;
  v_renter : N;  (* RenterOutput.Value *)
  v_host : N;    (* HostOutput.Value *)
  v_missed : N;  (* MissedHostValue *)
  v_exp : N      (* ExpirationHeight *)
}.
Arguments mk_view {R}. Arguments v_revnum {R}. Arguments v_filesize {R}. Arguments v_capacity {R}.
Arguments v_root {R}. Arguments v_renter {R}. Arguments v_host {R}. Arguments v_missed {R}. Arguments v_exp {R}.

Record prices := mk_nprices {
  p_storage : N; p_ingress : N; p_egress : N; p_free : N; p_collateral : N; p_tip : N
}.

Record usage := mk_usage {
  u_rpc : N; u_storage : N; u_egress : N; u_ingress : N; u_funding : N; u_collateral : N
}.
Definition usage0 : usage := mk_usage 0 0 0 0 0 0.
(* Usage.RenterCost *)
Definition renter_cost (u : usage) : N := u_rpc u + u_storage u + u_egress u + u_ingress u + u_funding u.

(** PayWithContract (core rhp.go:844-861) *)
Definition pay {R} (v : view R) (u : usage) : option (view R) :=
  if v_renter v <? renter_cost u then None
  else if v_missed v <? u_collateral u then None
  else Some (mk_view (v_revnum v + 1) (v_filesize v) (v_capacity v) (v_root v)
                     (v_renter v - renter_cost u) (v_host v + renter_cost u)
                     (v_missed v - u_collateral u) (v_exp v)).

Definition set_root {R} (v : view R) (r : R) : view R :=
  mk_view (v_revnum v) (v_filesize v) (v_capacity v) r (v_renter v) (v_host v) (v_missed v) (v_exp v).
Definition set_size {R} (v : view R) (fs cap : N) : view R :=
  mk_view (v_revnum v) fs cap (v_root v) (v_renter v) (v_host v) (v_missed v) (v_exp v).

(** the RPC*Cost functions of core rhp.go:159-204 *)
Definition read_cost (egress length : N) : N := egress * round4k length.
Definition write_usage (storage ingress length : N) : usage :=
  mk_usage 0 (storage * sector_size * temp_sector_duration) 0 (ingress * round4k length) 0 0.
Definition verify_cost (egress : N) : N := egress * sector_size.
Definition roots_usage (p : prices) (n : N) : usage := mk_usage 0 0 (p_egress p * round4k (32 * n)) 0 0 0.
Definition free_usage (p : prices) (n : N) : usage := mk_usage (p_free p * n) 0 0 0 0 0.
Definition append_usage (p : prices) (sectors duration : N) : usage :=
  mk_usage 0 (p_storage p * sector_size * sectors * duration) 0 (p_ingress p * round4k (32 * sectors)) 0
           (p_collateral p * sector_size * sectors * duration).
Definition funding_usage (amount : N) : usage := mk_usage 0 0 0 0 amount 0.

(** ReviseFor* (core rhp.go:863-906) *)
Definition revise_roots {R} (v : view R) (p : prices) (n : N) : option (view R * usage) :=
  let u := roots_usage p n in v' ← pay v u; Some (v', u).
Definition revise_free {R} (v : view R) (p : prices) (newroot : R) (deletions : N) : option (view R * usage) :=
  let u := free_usage p deletions in
  v' ← pay (set_size v (v_filesize v - sector_size * deletions) (v_capacity v)) u;
  Some (set_root v' newroot, u).
Definition revise_append {R} (v : view R) (p : prices) (newroot : R) (appended : N) : option (view R * usage) :=
  let growth := appended - N.min appended ((v_capacity v - v_filesize v) / sector_size) in
  let duration := (v_exp v + two64 - p_tip p) mod two64 in     (* uint64 subtraction *)
  let u := append_usage p growth duration in
  v' ← pay (set_root (set_size v (v_filesize v + sector_size * appended) (v_capacity v + sector_size * growth)) newroot) u;
  Some (v', u).
Definition revise_fund {R} (v : view R) (amount : N) : option (view R * usage) :=
  let u := funding_usage amount in v' ← pay v u; Some (v', u).

Definition sum_N (l : list N) : N := foldr N.add 0 l.
Definition len {A} (l : list A) : N := N.of_nat (length l).

(** ** Layer 1: decision functions over verifier outcomes *)

(** RPCReadSector, rpc.go:469-511. [written] is what reached the caller's writer. *)
Definition read_decide (auth : bool) (egress offset length : N) (dec : bool) (datalen avail : N)
    (proof_ok : bool) : result (N * N) :=
  if negb auth then Err                                     (* 477 req.Validate: prices, token *)
  else if length =? 0 then Err                              (* validation.go:49 *)
  else if (sector_size <? offset) || (sector_size - offset <? length) then Err
  else if negb ((offset + length) mod leaf_size =? 0) then Err
  else if negb dec then Err                                 (* 492 ReadResponse *)
  else if negb (datalen =? length) then Err                 (* 494 fix def394a *)
  else if avail <? datalen then Err                         (* 501-504 read error / short read *)
  else if negb (datalen mod leaf_size =? 0) then Err        (* 501 ReaderRoot: not a multiple of leaves *)
  else if negb proof_ok then Err                            (* 505 rpv.Verify *)
  else Ok (datalen, read_cost egress length).

(** RPCWriteSector, rpc.go:514-568 *)
Definition write_decide (auth : bool) (storage ingress length : N) (dec root_eq : bool) : result usage :=
  if length =? 0 then Err                                   (* 515 *)
  else if sector_size <? length then Err                    (* 517 *)
  else if negb auth then Err                                (* 526 req.Validate *)
  else if negb (length mod leaf_size =? 0) then Err         (* validation.go:67 *)
  else if negb dec then Err                                 (* 558 *)
  else if negb root_eq then Err                             (* 560 resp.Root != root *)
  else Ok (write_usage storage ingress length).

(** RPCVerifySector, rpc.go:571-589 *)
Definition verify_decide (egress : N) (dec proof_ok : bool) : result N :=
  if negb dec then Err else if negb proof_ok then Err (* 582 VerifyLeafProof *) else Ok (verify_cost egress).

(** RPCSectorRoots, rpc.go:1010-1051 *)
Definition roots_decide {R} (v : view R) (p : prices) (auth : bool) (offset length : N)
    (dec : bool) (nroots : N) (proof_ok : bool) (sig_ok : view R → bool) : result (view R * usage) :=
  match revise_roots v p length with                       (* 1011 ReviseForSectorRoots *)
  | None => Err
  | Some (v', u) =>
    if negb auth then Err                                   (* 1026 req.Validate: prices *)
    else if length =? 0 then Err
    else let n := v_filesize v' / sector_size in
      if (n <? offset) || (n - offset <? length) then Err
      else if max_sector_batch <? length then Err
      else if negb dec then Err                             (* 1032 *)
      else if negb (nroots =? length) then Err              (* 1034 fix 84b7403 *)
      else if negb proof_ok then Err                        (* 1036 VerifySectorRootsProof *)
      else if negb (sig_ok v') then Err                     (* 1041 host signature *)
      else Ok (v', u)
  end.

(** RPCAppendSectors, rpc.go:666-727 *)
Definition append_decide {R} (v : view R) (p : prices) (k : N) (dec1 : bool) (naccepted ntrue : N)
    (newroot : R) (proof_ok dec3 : bool) (sig_ok : view R → bool) : result (view R * usage) :=
  if negb dec1 then Err                                     (* 685 *)
  else if negb (naccepted =? k) then Err                    (* 687 len(resp.Accepted) != len(roots) *)
  else if negb proof_ok then Err                            (* 697 VerifyAppendSectorsProof *)
  else match revise_append v p newroot ntrue with           (* 701 ReviseForAppendSectors *)
       | None => Err
       | Some (v', u) =>
         if negb dec3 then Err                              (* 716 *)
         else if negb (sig_ok v') then Err                  (* 718 host signature *)
         else Ok (v', u)
       end.

(** the normalisation of RPCFreeSectors, rpc.go:598-602: sort descending, Compact *)
Fixpoint insert_desc (x : N) (l : list N) : list N :=
  match l with
  | [] => [x]
  | y :: t => if y <? x then x :: l else if y =? x then l else y :: insert_desc x t
  end.
Definition normalize (l : list N) : list N := foldr insert_desc [] l.

(** RPCFreeSectors, rpc.go:592-663. [idxs] is the normalised list. *)
Definition free_decide {R} (v : view R) (p : prices) (idxs : list N) (dec1 : bool)
    (newroot : R) (proof_ok dec3 : bool) (sig_ok : view R → bool) : result (view R * usage) :=
  let n := v_filesize v / sector_size in
  if match idxs with i :: _ => n <=? i | [] => false end then Err   (* 605 fix 00e2f00 *)
  else if negb dec1 then Err                                (* 628 *)
  else if negb proof_ok then Err                            (* 630 VerifyFreeSectorsProof *)
  else match revise_free v p newroot (len idxs) with        (* 634 ReviseForFreeSectors *)
       | None => Err
       | Some (v', u) =>
         if negb dec3 then Err                              (* 650 *)
         else if negb (sig_ok v') then Err                  (* 655 host signature *)
         else Ok (v', u)
       end.

(** RPCFundAccounts, rpc.go:730-778 *)
Definition fund_decide {R} (v : view R) (amounts : list N) (accts_ok dec : bool) (nbalances : N)
    (sig_ok : view R → bool) : result (view R * usage) :=
  match revise_fund v (sum_N amounts) with                  (* 735 ReviseForFundAccounts *)
  | None => Err
  | Some (v', u) =>
    if len amounts =? 0 then Err                            (* 748 req.Validate *)
    else if max_account_batch <? len amounts then Err
    else if negb accts_ok then Err
    else if existsb (N.eqb 0) amounts then Err
    else if negb dec then Err                               (* 753 *)
    else if negb (nbalances =? len amounts) then Err        (* 758 *)
    else if negb (sig_ok v') then Err                       (* 760 host signature *)
    else Ok (v', u)
  end.

(** RPCReplenishAccounts, rpc.go:781-858. The zero-cost branch returns the
    caller's revision unchanged ([None] as the revised view). *)
Definition replenish_decide {R} (v : view R) (naccounts target : N) (dec1 : bool) (deposits : list N)
    (dec3 : bool) (sig_ok : view R → bool) : result (option (view R) * usage) :=
  if naccounts =? 0 then Err                                (* 790 req.Validate *)
  else if max_account_batch <? naccounts then Err
  else if target =? 0 then Err
  else if negb dec1 then Err                                (* 807 *)
  else if negb (len deposits =? naccounts) then Err         (* 809 fix ae0d4c7 *)
  else if existsb (fun d => target <? d) deposits then Err  (* 813-817 *)
  else let total := sum_N deposits in
    if total =? 0 then Ok (None, usage0)                    (* 819-825 *)
    else if target * naccounts <? total then Err            (* 826 *)
    else match revise_fund v total with                     (* 830 ReviseForReplenish *)
         | None => Err
         | Some (v', u) =>
           if negb dec3 then Err                            (* 846 *)
           else if negb (sig_ok v') then Err                (* 848 host signature *)
           else Ok (Some v', u)
         end.

(** RPCLatestRevision (rpc.go:1003) and RPCSettings (rpc.go:462): whatever decodes is returned. *)
Definition pass_decide (dec : bool) : result unit := if dec then Ok () else Err.

(** RPCFormContract, rpc.go:1065-1196. [host_sum] is the value of the inputs the host
    offered, [host_cost] what it must fund (fc.TotalCollateral), [id_eq] whether the
    last transaction of the final set has the ID of the renter's own transaction. *)
Definition form_decide (funded dec1 : bool) (host_sum host_cost : N) (dec3 : bool) (nset ncontracts : N)
    (id_eq sig_ok : bool) (cost : N) : result N :=
  if negb funded then Err                                   (* 1073 FundV2Transaction *)
  else if negb dec1 then Err                                (* 1111 *)
  else if host_sum <? host_cost then Err                    (* 1123 *)
  else if negb dec3 then Err                                (* 1153 *)
  else if nset =? 0 then Err                                (* 1158 *)
  else if negb (ncontracts =? 1) then Err                   (* 1163 *)
  else if negb id_eq then Err                               (* 1171 transaction ID mismatch *)
  else if negb sig_ok then Err                              (* 1178 host signature over the renter's sighash *)
  else Ok cost.

(** RPCRenewContract (rpc.go:1198-1341) and rpcRefreshContract (rpc.go:311-463, both
    refresh RPCs) have the same final checks. *)
Definition renew_decide (funded dec1 : bool) (host_sum host_cost : N) (dec3 : bool) (nset nres : N)
    (is_renewal rsig_ok csig_ok : bool) (cost : N) : result N :=
  if negb funded then Err                                   (* 1210 / 334 *)
  else if negb dec1 then Err                                (* 1241 / 365 *)
  else if host_sum <? host_cost then Err                    (* 1254 / 378 *)
  else if negb dec3 then Err                                (* 1295 / 419 *)
  else if nset =? 0 then Err                                (* 1300 / 424 *)
  else if negb (nres =? 1) then Err                         (* 1305 / 429 *)
  else if negb is_renewal then Err                          (* 1311 / 435 *)
  else if negb rsig_ok then Err                             (* 1317 / 441 renewal signature *)
  else if negb csig_ok then Err                             (* 1320 / 444 contract signature *)
  else Ok cost.

(** ** Layer 2: symbolic terms (DESIGN 3.3) *)

Definition leaf := N.                                  (* 64 bytes of data, by name *)
Inductive ldig := HL (l : leaf) | HX (n : N).          (* 32 bytes at leaf level: the hash of a leaf, or anything else *)
Inductive sroot := SR (ls : list ldig) | SX (n : N).   (* the Merkle root over leaf digests (a sector root), or anything else *)
Inductive croot := CR (rs : list sroot) | CX (n : N).  (* the Merkle root over sector roots (FileMerkleRoot), or anything else *)
Global Instance ldig_eq_dec : EqDecision ldig. Proof. solve_decision. Defined.
Global Instance sroot_eq_dec : EqDecision sroot. Proof. solve_decision. Defined.
Global Instance croot_eq_dec : EqDecision croot. Proof. solve_decision. Defined.

Definition key := N.
Global Instance prices_eq_dec : EqDecision prices. Proof. solve_decision. Defined.
(* ContractSigHash and HostPrices.SigHash are injective and domain separated *)
(* [MRenewal hk rk v rest]: RenewalSigHash of the renewal whose new contract is (hk, rk, v) and
   whose remaining fields (final outputs, rollovers) are named [rest] *)
Inductive msg := MRev (hk rk : key) (v : view croot) | MPrices (p : prices)
               | MRenewal (hk rk : key) (v : view croot) (rest : N) | MOther (n : N).
Inductive sig := Sig (k : key) (m : msg) | SigX (n : N).
Global Instance view_eq_dec : EqDecision (view croot). Proof. solve_decision. Defined.
Global Instance msg_eq_dec : EqDecision msg. Proof. solve_decision. Defined.
Global Instance sig_eq_dec : EqDecision sig. Proof. solve_decision. Defined.
Definition verify_sig (k : key) (m : msg) (s : sig) : bool := bool_decide (s = Sig k m).

(** A price table as the caller holds it: the numbers, the signature on them and
    whether it is still unexpired. HostPrices.Validate (core validation.go:17-25)
    against a key [k]. *)
Record signed_prices := mk_signed_prices { sp_prices : prices; sp_sig : sig; sp_fresh : bool }.
Definition prices_valid (k : key) (sp : signed_prices) : bool :=
  sp_fresh sp && verify_sig k (MPrices (sp_prices sp)) (sp_sig sp).

(** The transport: every revising client function below takes the authenticated
    key [t] of the peer on the other end of the transport (TransportClient.PeerKey).
    rpc.go never consults it in these functions: the price table (RPCSectorRoots,
    rpc.go:1026) and the host signature on the revision (rpc.go:655, 718, 760,
    848, 1041) are checked against contract.Revision.HostPublicKey = [c_hk],
    whoever the peer is. [t] is therefore an unused argument, kept so that the
    theorems quantify over it explicitly. *)

(** the renter's view of a contract, rpc.go:179-184 *)
Record contract := mk_contract { c_view : view croot; c_hk : key; c_rk : key; c_rsig : sig; c_hsig : sig }.
Definition sighash (c : contract) (v : view croot) : msg := MRev (c_hk c) (c_rk c) v.
Definition host_signed (c : contract) (v : view croot) (s : sig) : bool := verify_sig (c_hk c) (sighash c v) s.

(** Idealised Merkle proofs (law L6): a range proof names the digests left and
    right of the range; it verifies iff the claimed data completed by them
    hashes to the root. The compressed subtree hashes of the wire format are
    abstracted to the digest lists they commit to. *)
Definition slice {A} (l : list A) (start n : N) : list A := take (N.to_nat n) (drop (N.to_nat start) l).

Definition verify_range (pre post : list ldig) (data : list leaf) (start end_ : N) (root : sroot) : bool :=
  bool_decide (root = SR (pre ++ (HL <$> data) ++ post)) && (len pre =? start) && (len data =? end_ - start)
  && (len (pre ++ (HL <$> data) ++ post) =? leaves_per_sector).

Definition verify_roots (pre post roots : list sroot) (n start end_ : N) (root : croot) : bool :=
  bool_decide (root = CR (pre ++ roots ++ post)) && (len pre =? start) && (len roots =? end_ - start)
  && (len (pre ++ roots ++ post) =? n).

Definition verify_append (n : N) (old appended : list sroot) (oldroot newroot : croot) : bool :=
  bool_decide (oldroot = CR old) && (len old =? n) && bool_decide (newroot = CR (old ++ appended)).

(** core's meaning of freeing (merkle.go convertFreeActions): swap index i-th
    freed with the i-th position from the end, then trim *)
Definition swap_at {A} (l : list A) (i j : nat) : list A :=
  match l !! i, l !! j with
  | Some x, Some y => <[j := x]> (<[i := y]> l)
  | _, _ => l
  end.
Fixpoint free_swaps {A} (l : list A) (idxs : list N) (last : nat) : list A :=
  match idxs with
  | [] => l
  | i :: t => free_swaps (swap_at l (N.to_nat i) last) t (pred last)
  end.
Definition free_apply {A} (l : list A) (idxs : list N) : list A :=
  take (length l - length idxs) (free_swaps l idxs (pred (length l))).

(** the list model used by the harness monitor: overwrite with the last, drop the last *)
Definition swap_remove {A} (l : list A) (i : nat) : list A :=
  match last l with
  | Some x => take (pred (length l)) (<[i := x]> l)
  | None => l
  end.
Definition swap_remove_all {A} (l : list A) (idxs : list N) : list A :=
  fold_left (fun l i => swap_remove l (N.to_nat i)) idxs l.

Definition verify_free (n : N) (old : list sroot) (idxs : list N) (oldroot newroot : croot) : bool :=
  bool_decide (oldroot = CR old) && (len old =? n) && forallb (fun i => i <? n) idxs
  && bool_decide (newroot = CR (free_apply old idxs)).

(** *** What core's verifiers really are: only total and sound on a legal request.

    [verify_roots] and [verify_free] above are the *facts* a proof establishes. core's
    functions compute them only inside their contract; outside it they panic or answer
    without looking at the data. The client functions below call the core versions, and
    it is the client's own request validation (RPCSectorRoots: req.Validate, rpc.go:1026
    and the root count, 1034; RPCFreeSectors: the normalisation and the range check of
    fix 00e2f00, rpc.go:605) that keeps every call inside the contract
    (RenterProofs.v: [roots_verifier_called_inside_its_contract],
    [free_verifier_called_inside_its_contract]). *)
Inductive vres := VTrue | VFalse | VOutside.   (* VOutside: panic ("illegal proof range", index out of range) *)
Definition vres_ok (v : vres) : bool := match v with VTrue => true | _ => false end.

(** rhp2.VerifySectorRangeProof (core rhp/v2/merkle.go:438-468) *)
Definition core_verify_roots (pre post roots : list sroot) (n start end_ : N) (root : croot) : vres :=
  if n =? 0 then                                            (* 439: numRoots == 0: len(proof) == 0, *)
    (if (len pre =? 0) && (len post =? 0) then VTrue else VFalse)   (* the roots are not looked at *)
  else if negb (len roots =? end_ - start) then VOutside    (* 441 panic: number of roots does not match range *)
  else if (n <? end_) || (end_ <=? start) then VOutside     (* 443 panic: illegal proof range *)
  else if verify_roots pre post roots n start end_ root then VTrue else VFalse.

(** rhp2.VerifyDiffProof through VerifyFreeSectorsProof: indexes slices by the freed
    indices and by numSectors - i - 1 *)
Definition core_verify_free (n : N) (old : list sroot) (idxs : list N) (oldroot newroot : croot) : vres :=
  if (n <? len idxs) || negb (forallb (fun i => i <? n) idxs) then VOutside
  else if verify_free n old idxs oldroot newroot then VTrue else VFalse.

(** *** RPCReadSector *)
Record read_params := mk_read_params {
  rp_auth : bool; rp_egress : N; rp_root : sroot; rp_offset : N; rp_length : N }.
(** the response: the proof, DataLength, and the bytes that follow on the
    stream until it ends: whole leaves plus [rr_tail] < 64 further bytes *)
Record read_resp := mk_read_resp {
  rr_pre : list ldig; rr_post : list ldig; rr_datalen : N; rr_stream : list leaf; rr_tail : N }.
Record read_result := mk_read_result { rd_delivered : list leaf; rd_usage : N }.

Definition read_start (p : read_params) : N := rp_offset p / leaf_size.
Definition read_end (p : read_params) : N := (rp_offset p + rp_length p + leaf_size - 1) / leaf_size.

Definition client_read (p : read_params) (r : option read_resp) : result read_result :=
  match r with
  | None => match read_decide (rp_auth p) (rp_egress p) (rp_offset p) (rp_length p) false 0 0 false with
            | Ok (_, u) => Ok (mk_read_result [] u) | Err => Err end
  | Some r =>
    let data := take (N.to_nat (rr_datalen r / leaf_size)) (rr_stream r) in
    let avail := leaf_size * len (rr_stream r) + rr_tail r in
    match read_decide (rp_auth p) (rp_egress p) (rp_offset p) (rp_length p) true (rr_datalen r) avail
            (verify_range (rr_pre r) (rr_post r) data (read_start p) (read_end p) (rp_root p)) with
    | Ok (_, u) => Ok (mk_read_result data u)
    | Err => Err
    end
  end.

(** *** RPCWriteSector: the caller sends [wp_data] whole leaves and [wp_extra] < 64 more bytes *)
Record write_params := mk_write_params {
  wp_auth : bool; wp_storage : N; wp_ingress : N; wp_data : list leaf; wp_extra : N }.
Record write_result := mk_write_result { wr_root : sroot; wr_usage : usage }.
Definition wp_length (p : write_params) : N := leaf_size * len (wp_data p) + wp_extra p.
(** the sector the host must store: the data padded with zero leaves *)
Definition padded (data : list leaf) : list leaf :=
  data ++ replicate (N.to_nat leaves_per_sector - length data) 0.
Definition local_root (data : list leaf) : sroot := SR (HL <$> padded data).   (* 543-553 ReadSectorRoot *)

Definition client_write (p : write_params) (r : option sroot) : result write_result :=
  let '(dec, eq, root) := match r with
                          | None => (false, false, SX 0)
                          | Some root => (true, bool_decide (root = local_root (wp_data p)), root)
                          end in
  match write_decide (wp_auth p) (wp_storage p) (wp_ingress p) (wp_length p) dec eq with
  | Ok u => Ok (mk_write_result root u)
  | Err => Err
  end.

(** *** RPCVerifySector: [vp_index] is the leaf index drawn locally (rpc.go:576) *)
Record verify_params := mk_verify_params { vp_egress : N; vp_root : sroot; vp_index : N }.
Record verify_resp := mk_verify_resp { vr_pre : list ldig; vr_post : list ldig; vr_leaf : leaf }.

Definition client_verify (p : verify_params) (r : option verify_resp) : result N :=
  match r with
  | None => verify_decide (vp_egress p) false false
  | Some r => verify_decide (vp_egress p) true
                (verify_range (vr_pre r) (vr_post r) [vr_leaf r] (vp_index p) (vp_index p + 1) (vp_root p))
  end.

(** *** the revising RPCs *)
Record rev_result := mk_rev_result { rr_view : view croot; rr_rsig : sig; rr_hsig : sig; rr_usage : usage }.
Definition signed_result (c : contract) (v : view croot) (hs : sig) (u : usage) : rev_result :=
  mk_rev_result v (Sig (c_rk c) (sighash c v)) hs u.
Definition num_sectors_up (c : contract) : N := (v_filesize (c_view c) + sector_size - 1) / sector_size.

(** RPCSectorRoots *)
Record roots_resp := mk_roots_resp { or_pre : list sroot; or_post : list sroot; or_roots : list sroot; or_sig : sig }.
Definition client_roots (t : key) (c : contract) (sp : signed_prices) (offset length : N) (r : option roots_resp)
  : result (rev_result * list sroot) :=
  let p := sp_prices sp in
  let auth := prices_valid (c_hk c) sp in                   (* 1026: the contract's key, not [t] *)
  match r with
  | None => match roots_decide (c_view c) p auth offset length false 0 false (fun _ => false) with
            | Ok (v', u) => Ok (signed_result c v' (SigX 0) u, []) | Err => Err end
  | Some r =>
    match roots_decide (c_view c) p auth offset length true (len (or_roots r))
            (vres_ok (core_verify_roots (or_pre r) (or_post r) (or_roots r) (num_sectors_up c) offset (offset + length) (v_root (c_view c))))
            (fun v' => host_signed c v' (or_sig r)) with
    | Ok (v', u) => Ok (signed_result c v' (or_sig r) u, or_roots r)
    | Err => Err
    end
  end.

(** RPCAppendSectors: [pick] is the loop of rpc.go:690-695 *)
Fixpoint pick {A} (roots : list A) (accepted : list bool) : list A :=
  match roots, accepted with
  | r :: rs, a :: acs => if a then r :: pick rs acs else pick rs acs
  | _, _ => []
  end.
Record append_resp := mk_append_resp { ar_accepted : list bool; ar_old : list sroot; ar_newroot : croot }.
Definition client_append (t : key) (c : contract) (p : prices) (roots : list sroot) (r1 : option append_resp) (r3 : option sig)
  : result (rev_result * list sroot) :=
  match r1 with
  | None => match append_decide (c_view c) p (len roots) false 0 0 (CX 0) false false (fun _ => false) with
            | Ok (v', u) => Ok (signed_result c v' (SigX 0) u, []) | Err => Err end
  | Some r =>
    let appended := pick roots (ar_accepted r) in
    let hs := default (SigX 0) r3 in
    match append_decide (c_view c) p (len roots) true (len (ar_accepted r)) (len appended) (ar_newroot r)
            (verify_append (num_sectors_up c) (ar_old r) appended (v_root (c_view c)) (ar_newroot r))
            (bool_decide (is_Some r3)) (fun v' => host_signed c v' hs) with
    | Ok (v', u) => Ok (signed_result c v' hs u, appended)
    | Err => Err
    end
  end.

(** RPCFreeSectors *)
Record free_resp := mk_free_resp { fr_old : list sroot; fr_newroot : croot }.
Definition client_free (t : key) (c : contract) (p : prices) (idxs : list N) (r1 : option free_resp) (r3 : option sig)
  : result rev_result :=
  let norm := normalize idxs in
  match r1 with
  | None => match free_decide (c_view c) p norm false (CX 0) false false (fun _ => false) with
            | Ok (v', u) => Ok (signed_result c v' (SigX 0) u) | Err => Err end
  | Some r =>
    let hs := default (SigX 0) r3 in
    match free_decide (c_view c) p norm true (fr_newroot r)
            (vres_ok (core_verify_free (v_filesize (c_view c) / sector_size) (fr_old r) norm (v_root (c_view c)) (fr_newroot r)))
            (bool_decide (is_Some r3)) (fun v' => host_signed c v' hs) with
    | Ok (v', u) => Ok (signed_result c v' hs u)
    | Err => Err
    end
  end.

(** RPCFundAccounts: deposits are (account, amount), account 0 is the zero account *)
Record fund_resp := mk_fund_resp { fd_balances : list N; fd_sig : sig }.
Definition client_fund (t : key) (c : contract) (deposits : list (N * N)) (r : option fund_resp)
  : result (rev_result * list (N * N)) :=
  let amounts := deposits.*2 in
  let accts_ok := negb (existsb (N.eqb 0) (deposits.*1)) in
  match r with
  | None => match fund_decide (c_view c) amounts accts_ok false 0 (fun _ => false) with
            | Ok (v', u) => Ok (signed_result c v' (SigX 0) u, []) | Err => Err end
  | Some r =>
    match fund_decide (c_view c) amounts accts_ok true (len (fd_balances r)) (fun v' => host_signed c v' (fd_sig r)) with
    | Ok (v', u) => Ok (signed_result c v' (fd_sig r) u, zip (deposits.*1) (fd_balances r))
    | Err => Err
    end
  end.

(** RPCReplenishAccounts: the response lists (account, amount) *)
Definition client_replenish (t : key) (c : contract) (accounts : list N) (target : N) (r1 : option (list (N * N))) (r3 : option sig)
  : result (rev_result * list (N * N)) :=
  let na := if existsb (N.eqb 0) accounts then 0 else len accounts in   (* an empty account fails req.Validate like no account *)
  match r1 with
  | None => match replenish_decide (c_view c) na target false [] false (fun _ => false) with
            | Ok _ => Err | Err => Err end
  | Some deposits =>
    let hs := default (SigX 0) r3 in
    match replenish_decide (c_view c) na target true (deposits.*2) (bool_decide (is_Some r3)) (fun v' => host_signed c v' hs) with
    | Ok (Some v', u) => Ok (signed_result c v' hs u, deposits)
    | Ok (None, u) => Ok (mk_rev_result (c_view c) (c_rsig c) (c_hsig c) u, deposits)   (* 822: the caller's revision *)
    | Err => Err
    end
  end.

(** RPCLatestRevision / RPCSettings: no verification at all *)
Definition client_pass {A} (r : option A) : result A :=
  match r with Some a => Ok a | None => Err end.

(** *** Forming, renewing and refreshing a contract

    The renter builds the new contract [mine] (core's NewContract / RenewContract /
    RefreshContract*, law L4, not transcribed: the contract is a given term) with keys
    [hk], [rk], signs it, and at the end holds the host's final transaction set. What the
    call returns must be [mine] with a host signature over exactly [mine]. *)
Record contract_result := mk_contract_result {
  cr_hk : key; cr_rk : key; cr_view : view croot; cr_rsig : sig; cr_hsig : sig; cr_cost : N }.

(** a contract object as it appears inside a transaction *)
Record contract_obj := mk_contract_obj { co_hk : key; co_rk : key; co_view : view croot; co_rsig : sig; co_hsig : sig }.
Definition co_body (c : contract_obj) : key * key * view croot := (co_hk c, co_rk c, co_view c).

(** the last transaction of the final response of RPCFormContract: its contracts and
    everything else that enters the transaction ID ([ft_rest]); the ID is injective *)
Record form_final := mk_form_final { ff_nset : N; ff_contracts : list contract_obj; ff_rest : N }.
Definition txid (bodies : list (key * key * view croot)) (rest : N) := (bodies, rest).

Definition client_form (t : key) (hk rk : key) (mine : view croot) (my_rest : N) (funded : bool) (host_cost cost : N)
    (r1 : option N) (r3 : option form_final) : result contract_result :=
  let sum := default 0 r1 in
  let '(dec3, nset, contracts, rest) := match r3 with
      | Some f => (true, ff_nset f, ff_contracts f, ff_rest f) | None => (false, 0, [], 0) end in
  let hs := match contracts with c :: _ => co_hsig c | [] => SigX 0 end in
  match form_decide funded (bool_decide (is_Some r1)) sum host_cost dec3 nset (len contracts)
          (bool_decide (txid (co_body <$> contracts) rest = txid [(hk, rk, mine)] my_rest))
          (verify_sig hk (MRev hk rk mine) hs) cost with      (* 1177: fc.HostSignature := the host's; fc is the renter's *)
  | Ok c => Ok (mk_contract_result hk rk mine (Sig rk (MRev hk rk mine)) hs c)
  | Err => Err
  end.

(** a resolution inside the last transaction of the final response of renew / refresh *)
Inductive resolution :=
| ResRenewal (newc : contract_obj) (rest : N) (rsig_host : sig)
| ResOther.
Record renew_final := mk_renew_final { rf_nset : N; rf_resolutions : list resolution }.

(** [c] is the existing contract: its [c_hk] is the key both signatures are checked
    against (rpc.go:1317,1320 / 441,444), whatever the transport key [t] *)
Definition client_renew (t : key) (c : contract) (mine : view croot) (my_rest : N) (funded : bool) (host_cost cost : N)
    (r1 : option N) (r3 : option renew_final) : result contract_result :=
  let hk := c_hk c in let rk := c_rk c in
  let sum := default 0 r1 in
  let '(dec3, nset, ress) := match r3 with
      | Some f => (true, rf_nset f, rf_resolutions f) | None => (false, 0, []) end in
  let '(is_renewal, rsig, csig) := match ress with
      | ResRenewal nc _ rs :: _ => (true, rs, co_hsig nc) | _ => (false, SigX 0, SigX 0) end in
  match renew_decide funded (bool_decide (is_Some r1)) sum host_cost dec3 nset (len ress) is_renewal
          (verify_sig hk (MRenewal hk rk mine my_rest) rsig)
          (verify_sig hk (MRev hk rk mine) csig) cost with
  (* fix 2ab6a23: the renter's own contract with the host's signature copied in *)
  | Ok k => Ok (mk_contract_result hk rk mine (Sig rk (MRev hk rk mine)) csig k)
  | Err => Err
  end.
