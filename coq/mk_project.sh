#!/bin/sh
# regenerates _CoqProject and the Makefile from the files present (Props files
# are compiled by bin/check itself so that their Print Assumptions output is captured)
cd "$(dirname "$0")"
{ echo "-Q . CV"; echo "-arg -w -arg -notation-overridden,-deprecated-hint-without-locality,-deprecated-instance-without-locality,-ambiguous-paths"; find Base KV Chain Wallet RHP Net Run -name '*.v' | sort; } > _CoqProject.new
if ! cmp -s _CoqProject.new _CoqProject 2>/dev/null; then mv _CoqProject.new _CoqProject; coq_makefile -f _CoqProject -o Makefile >/dev/null; else rm _CoqProject.new; fi
[ -f Makefile ] || coq_makefile -f _CoqProject -o Makefile >/dev/null
