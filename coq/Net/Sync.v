(** * Net/Sync.v — C11: one honest node facing arbitrary peers (definitions only).

    A node = the manager model ([Chain/Manager.v]) + the syncer's *decision logic*:
      syncer/syncer.go      344-384  resync, ban (+ per-subnet strikes)
                            784-864  syncLoop: one sync round per unsynced peer
      syncer/peer.go        145-157  SendHeaders: every header validated against our own state
                            166-182  SendCheckpoint: v2, requested id, commitment = supplied state
                                     (+ ValidateOrphan against the supplied state: repair C11-1)
                            353-380  RelayV2Header handler
                            382-435  RelayV2BlockOutline handler
                            437-452  RelayV2TransactionSet handler
      syncer/parallel_sync.go 36-51  requests of [bpr] blocks
                            53-104   workFn: below the require height blocks must match the
                                     validated headers; at or above it checkpoint + ValidateBlock
                            115-133  in-order submission through AddBlocks / AddValidatedV2Blocks,
                                     ban on error

    Peers are arbitrary message senders: a message is an arbitrary term over the block
    universe (ids outside the universe = undecodable / never-seen objects).  Hashes are
    symbolic, so what a hash covers is *bound*:
      - a block id covers parent, nonce, timestamp and the commitment field, nothing else;
        two terms with the same [hid] are the same header with different bodies;
      - a v2 commitment covers (parent state, miner address, transactions): [cstate t] is the
        unique state for which the commitment check of [t]'s body succeeds, if any;
      - a v2 block's miner payout *value* and V2.Height are covered by neither: they are
        checked by ValidateOrphan only ([hdr_ok]).

    Not modelled (exercised by the harness): sockets, encodings, timeouts, goroutines, the
    worker pool of parallelSync (which peer serves which request, re-queueing on failure).
    A sync round is one atomic message carrying the answers the node used. *)
From stdpp Require Import gmap.
From Coq Require Import NArith ZArith List.
From CV Require Import Chain.Manager Net.Converge.
Import ListNotations.
Open Scope N_scope.

(** a consensus state, symbolically: the full state after block [b] of the universe (a state
    *is* the chain it summarises), or anything else *)
Inductive sterm := StOf (b : N) | StJunk (n : N).
Definition sterm_eqb (s t : sterm) : bool :=
  match s, t with
  | StOf a, StOf b => a =? b
  | StJunk a, StJunk b => a =? b
  | _, _ => false
  end.

(** what the syncer looks at beyond the manager's labels *)
Record xblk := XB {
  pow_ok : bool;             (* id.CmpWork(parent.PoWTarget()) >= 0 *)
  hv_ok  : bool;             (* consensus.ValidateHeader against the parent's state: linkage is
                                checked separately; timestamp and work *)
  isv2   : bool;             (* Block.V2 != nil with exactly one miner payout *)
  hid    : N;                (* the block whose header (id) this term carries; [hid t = t] for
                                the canonical body *)
  cstate : option sterm;     (* the state s with V2.Commitment = s.Commitment(addr, txns) *)
}.
Definition xuniverse := gmap N xblk.

(** ** Messages *)

(** answer to one block request of a sync round *)
Inductive cresp :=
| CFail                                        (* error, timeout, short or long answer *)
| CBlocks (bs : list N)                        (* SendV2Blocks below the require height *)
| CInstant (cp : N) (st : sterm) (junk_ok : bool) (bs : list N).
                                               (* SendCheckpoint answer, then SendV2Blocks;
                                                  [junk_ok]: what validation against a state
                                                  outside the universe would say (the
                                                  adversary's choice) *)

(** how a relayed outline gets completed (peer.go:406-423) *)
Inductive completion :=
| Complete                 (* nothing missing (after consulting our pool) *)
| FetchedOk                (* missing transactions requested from the peer: right ones came *)
| FetchFailed              (* SendTransactions failed *)
| FetchedWrong.            (* still incomplete after the peer's answer *)

Inductive msg :=
| MConnect (p : N)                                        (* handshake done: peer added, unsynced *)
| MSync (p : N) (a : N) (hs : list N) (rem0 : bool) (rs : list cresp)
                                                          (* one sync round with p: SendHeaders from our
                                                             history id [a] answered [hs] (remaining = 0?),
                                                             then one answer per request *)
| MNoHistory (p : N)                                      (* every history id refused: "no common history" *)
| MHeader (p : N) (h : N)                                 (* RelayV2Header *)
| MOutline (p : N) (b : N) (c : completion)               (* RelayV2BlockOutline denoting block term b *)
| MTxns (p : N) (basis : N) (empty : bool)                (* RelayV2TransactionSet *)
| MGarbage (p : N).                                       (* undecodable request / unknown RPC id *)

(** what the node does besides changing its chain *)
Inductive action :=
| Ban (p : N) | BanSubnet (level : N) (subnet : N)
| Resync (p : N) | Synced (p : N) | Drop (p : N)          (* setErr without ban *)
| Relay (b : N)
| Submit (validated : bool) (l : list N) (out : outcome).

Record pstate := PS { p_synced : bool; p_gone : bool }.

Record node := Node {
  n_mgr : mgr;
  n_peers : gmap N pstate;
  n_strikes : gmap (N * N) N;        (* (level, subnet) -> strikes *)
}.

Definition node0 : node := Node init ∅ ∅.

Section Sync.
  Context (U : universe) (X : xuniverse) (P : params).
  (** [fixcp = true]: SendCheckpoint also runs ValidateOrphan on the checkpoint block against the
      supplied state (repair C11-1); [false]: the code before the repair *)
  Context (fixcp : bool).
  (** the four subnets (/32 /24 /16 /8) of a peer's address *)
  Context (subnets : N → list N).

  Definition xget (t : N) : xblk :=
    match X !! t with Some x => x | None => XB false false false t None end.
  Definition par (t : N) : N := match U !! t with Some B => parent B | None => 0 end.
  Definition hdr_okb (t : N) : bool := match U !! t with Some B => hdr_ok B | None => false end.
  Definition body_okb (t : N) : bool := match U !! t with Some B => body_ok B | None => false end.
  Definition inU (t : N) : bool := match U !! t with Some _ => true | None => false end.

  Definition full_state (m : mgr) (b : N) : bool :=
    match known m !! b with Some (KI (Some SFull) _ _) => true | _ => false end.

  (** *** ban (syncer.go:351-384): Ban(addr), then one strike per subnet; a subnet whose strikes
      reach its maximum (2, 8, 64, 512) is banned and its counter deleted *)
  Definition max_strikes (level : N) : N :=
    match level with 0 => 2 | 1 => 8 | 2 => 64 | _ => 512 end.
  Fixpoint strike (st : gmap (N * N) N) (level : N) (subs : list N) : gmap (N * N) N * list action :=
    match subs with
    | [] => (st, [])
    | s :: rest =>
        let c := default 0 (st !! (level, s)) in
        let '(st1, acts1) :=
          if max_strikes level <=? c + 1 then (delete (level, s) st, [BanSubnet level s])
          else (<[(level, s) := c + 1]> st, []) in
        let '(st2, acts2) := strike st1 (level + 1) rest in
        (st2, acts1 ++ acts2)
    end.
  Definition set_peer (n : node) (p : N) (f : pstate → pstate) : node :=
    match n_peers n !! p with
    | Some ps => Node (n_mgr n) (<[p := f ps]> (n_peers n)) (n_strikes n)
    | None => n
    end.
  Definition do_ban (n : node) (p : N) : node * list action :=
    let n1 := set_peer n p (λ ps, PS (p_synced ps) true) in          (* p.setErr(ErrPeerBanned) *)
    let '(st, acts) := strike (n_strikes n1) 0 (subnets p) in
    (Node (n_mgr n1) (n_peers n1) st, Ban p :: acts).
  (** resync (syncer.go:344-349) *)
  Definition do_resync (n : node) (p : N) : node * list action :=
    (set_peer n p (λ ps, PS false (p_gone ps)), [Resync p]).
  Definition do_synced (n : node) (p : N) : node * list action :=
    (set_peer n p (λ ps, PS true (p_gone ps)), [Synced p]).
  Definition do_drop (n : node) (p : N) : node * list action :=
    (set_peer n p (λ ps, PS (p_synced ps) true), [Drop p]).
  Definition with_mgr (n : node) (m : mgr) : node := Node m (n_peers n) (n_strikes n).

  Definition live (n : node) (p : N) : bool :=
    match n_peers n !! p with Some ps => negb (p_gone ps) | None => false end.
  Definition unsynced (n : node) (p : N) : bool :=
    match n_peers n !! p with Some ps => negb (p_gone ps) && negb (p_synced ps) | None => false end.

  (** *** AddBlocks on block *terms*: a term whose id is already stored with a supplement (or
      is an applied, pruned best-chain block) is skipped whatever its body (manager.go:264-272) *)
  Definition canon (m : mgr) (t : N) : N :=
    let b := hid (xget t) in
    if has_supp m b || (has_state m b && on_best m b) then b else t.
  Definition add_terms (m : mgr) (l : list N) : mgr * outcome * bool :=
    add_blocks U m (map (canon m) l).

  (** *** SendHeaders (peer.go:149-154): ValidateHeader against our own state, header by header *)
  Fixpoint headers_ok (cur : N) (hs : list N) : bool :=
    match hs with
    | [] => true
    | h :: rest => inU h && (par h =? cur) && hv_ok (xget h) && (hid (xget h) =? h) && headers_ok h rest
    end.

  (** *** SendCheckpoint (peer.go:171-180) *)
  Definition orphan_ok (st : sterm) (cp : N) (junk_ok : bool) : bool :=
    match st with
    | StOf p => (par cp =? p) && hdr_okb cp          (* ValidateOrphan against the true parent state *)
    | StJunk _ => junk_ok
    end.
  Definition checkpoint_ok (base cp : N) (st : sterm) (junk_ok : bool) : bool :=
    isv2 (xget cp) &&                                 (* 173 "checkpoint is not a v2 block" *)
    (hid (xget cp) =? base) &&                        (* 175 "checkpoint has wrong index" *)
    match cstate (xget cp) with                       (* 177 "checkpoint has wrong commitment" *)
    | Some s => sterm_eqb s st
    | None => false
    end &&
    (if fixcp then orphan_ok st cp junk_ok else true).
  (** consensus.ApplyBlock(state, checkpoint) (parallel_sync.go:62): the true state after the block
      exactly when the state was its true parent state and the unbound fields are right *)
  Definition derive (st : sterm) (cp : N) : sterm :=
    match st with
    | StOf p => if (par cp =? p) && hdr_okb cp then StOf (hid (xget cp)) else StJunk cp
    | StJunk _ => StJunk cp
    end.
  (** consensus.ValidateBlock(cs, b) then ApplyBlock (parallel_sync.go:72-79) *)
  Definition vblock (cs : sterm) (junk_ok : bool) (b : N) : bool :=
    match cs with
    | StOf p => (par b =? p) && hdr_okb b && body_okb b
    | StJunk _ => junk_ok
    end.
  Definition after (cs : sterm) (b : N) : sterm :=
    match cs with StOf _ => StOf b | StJunk _ => StJunk b end.
  Fixpoint vblocks (cs : sterm) (junk_ok : bool) (bs : list N) : bool :=
    match bs with
    | [] => true
    | b :: rest => vblock cs junk_ok b && vblocks (after cs b) junk_ok rest
    end.

  Definition eqb_ids (a b : list N) : bool :=
    (Nat.eqb (length a) (length b)) && forallb (λ p, fst p =? snd p) (combine a b).

  (** *** one request of a sync round (parallel_sync.go:53-104, 117-130).
      Result: the manager afterwards, whether the round goes on, whether the peer is banned,
      the submission made. *)
  Inductive req_result := RNext | RFail | RBan.
  Definition do_request (m : mgr) (base : N) (bh : N) (hj : list N) (r : cresp)
    : mgr * req_result * list action :=
    match r with
    | CFail => (m, RFail, [])
    | CBlocks bs =>
        if reqh P <=? bh then (m, RFail, [])                               (* wrong kind of answer *)
        else if negb (eqb_ids (map (λ t, hid (xget t)) bs) hj) then (m, RFail, [])
                                                    (* 84-95: count and block ids must match the headers *)
        else let '(m', out, _) := add_terms m bs in
             match out with
             | Ok => (m', RNext, [Submit false bs Ok])
             | o => (m', RBan, [Submit false bs o])                        (* 125-129 *)
             end
    | CInstant cp st junk_ok bs =>
        if negb (reqh P <=? bh) then (m, RFail, [])
        else if negb (checkpoint_ok base cp st junk_ok) then (m, RFail, [])   (* 58-61 *)
        else if negb (Nat.eqb (length bs) (length hj)) then (m, RFail, [])   (* 66 *)
        else if negb (hid (xget (List.last bs 0)) =? List.last hj 0) then (m, RFail, [])   (* 68 *)
        else if negb (vblocks (derive st cp) junk_ok bs) then (m, RBan, [])  (* 72-76: ban, error *)
        else let '(m', out, _) := add_validated U m bs in
             match out with
             | Ok => (m', RNext, [Submit true bs Ok])
             | o => (m', RBan, [Submit true bs o])
             end
    end.

  Fixpoint do_requests (m : mgr) (base : N) (bh : N) (hcs : list (list N)) (rs : list cresp)
    : mgr * req_result * list action :=
    match hcs with
    | [] => (m, RNext, [])
    | hj :: hrest =>
        match rs with
        | [] => (m, RFail, [])                                   (* no answer: "all peers failed" *)
        | r :: rrest =>
            match do_request m base bh hj r with
            | (m', RNext, acts) =>
                let '(m'', res, acts') := do_requests m' (List.last hj base) (bh + bpr P) hrest rrest in
                (m'', res, acts ++ acts')
            | other => other
            end
        end
    end.

  (** *** the handlers *)
  Definition step (n : node) (mg : msg) : node * list action :=
    let m := n_mgr n in
    match mg with
    | MConnect p =>
        match n_peers n !! p with
        | Some ps => if p_gone ps then (Node m (<[p := PS false false]> (n_peers n)) (n_strikes n), [])
                     else (n, [])
        | None => (Node m (<[p := PS false false]> (n_peers n)) (n_strikes n), [])
        end
    | MGarbage p => (n, [])                              (* the stream is closed; nothing else happens *)
    | MNoHistory p => if unsynced n p then do_drop n p else (n, [])      (* syncer.go:836, 845 *)
    | MSync p a hs rem0 rs =>
        if negb (unsynced n p) then (n, [])                               (* 798 *)
        else if negb (bool_decide (a ∈ history m) && has_state m a) then (n, [])   (* 811-826 *)
        else if negb (headers_ok a hs) then do_drop n p                   (* peer.go:151, syncer.go:845 *)
        else match hs with
             | [] => do_synced n p                                        (* 846-847 *)
             | _ =>
                 let '(m', res, acts) := do_requests m a (hgt U a) (chunks P hs) rs in
                 let n1 := with_mgr n m' in
                 match res with
                 | RNext => if rem0 then let '(n2, a2) := do_synced n1 p in (n2, acts ++ a2 ++ [Relay (List.last hs a)])
                            else (n1, acts)                               (* 855-860 *)
                 | RFail => (n1, acts)                                    (* 854 "sync failed" *)
                 | RBan => let '(n2, a2) := do_ban n1 p in (n2, acts ++ a2)
                 end
             end
    | MHeader p h =>
        if negb (live n p) then (n, [])
        else if negb (inU h && has_state m (par h)) then do_resync n p    (* peer.go:357-361 *)
        else if has_state m h then (n, [])                                (* 363 already seen *)
        else if negb (pow_ok (xget h)) then do_ban n p                    (* 365 *)
        else if negb (par h =? tip m) then do_resync n p                  (* 367-372 *)
        else let '(n1, a1) := do_resync n p in (n1, a1 ++ [Relay h])      (* 373-380 + repair C12-2 *)
    | MOutline p b c =>
        if negb (live n p) then (n, [])
        else if negb (inU b && has_state m (par b)) then do_resync n p    (* 386-390 *)
        else if full_state m (par b) && has_state m (hid (xget b)) then (n, [])
                                                     (* 391-393: the id is only meaningful against the
                                                        parent's full state *)
        else if negb (par b =? tip m) then do_resync n p                  (* 396-401, before the work
                                                                             check: repair C11-2 *)
        else if negb (pow_ok (xget b)) then do_ban n p                    (* 394 *)
        else match c with
             | FetchFailed => do_resync n p                               (* 411-417 *)
             | FetchedWrong => do_ban n p                                 (* 419-422 *)
             | Complete | FetchedOk =>
                 let '(m', out, _) := add_terms m [b] in                  (* 424 *)
                 let n1 := with_mgr n m' in
                 match out with
                 | Ok => (n1, [Submit false [b] Ok; Relay b])
                 | o => let '(n2, a2) := do_ban n1 p in (n2, Submit false [b] o :: a2)   (* 425 *)
                 end
             end
    | MTxns p basis empty =>
        if negb (live n p) then (n, [])
        else if negb (has_body m basis) then do_resync n p                (* 441-442 *)
        else if empty then do_ban n p                                     (* 443-444 *)
        else (n, [])                                                      (* pool only *)
    end.

  Fixpoint run (n : node) (ms : list msg) : node * list action :=
    match ms with
    | [] => (n, [])
    | mg :: rest => let '(n1, a1) := step n mg in
                    let '(n2, a2) := run n1 rest in (n2, a1 ++ a2)
    end.
End Sync.
