(** * Net/MgrLiveProofs.v — liveness proofs for the manager model (definitions in Net/MgrLive.v). *)
From Coq Require Import NArith ZArith List Lia ZifyBool ZifyNat ZifyN.
From stdpp Require Import gmap.
From CV Require Import Chain.Manager Chain.ManagerProofs Net.MgrLive.
Import ListNotations.
Open Scope N_scope.

Section LiveProofs.
  Context (U : universe) (HWF : WF U).

  (** ** [all_body] is preserved by everything except pruning *)
  Lemma all_body_init : all_body init.
  Proof. intros b k. cbn [init known]. intros [<- <-]%lookup_singleton_Some. done. Qed.

  Lemma all_body_insert m b s su l :
    all_body m → all_body (Mgr (<[b := KI s true su]> (known m)) l).
  Proof.
    intros H x k. cbn. destruct (decide (x = b)) as [->|Hne].
    - rewrite lookup_insert. by intros [= <-].
    - rewrite lookup_insert_ne by done. apply H.
  Qed.

  Lemma all_body_store_hdr m b : all_body m → all_body (store_hdr m b).
  Proof. apply all_body_insert. Qed.

  Lemma all_body_store_validated m b : all_body m → all_body (store_validated m b).
  Proof.
    intros H. unfold store_validated.
    destruct (has_state m b && on_best m b); [done|]. by apply all_body_insert.
  Qed.

  Lemma all_body_fold l : ∀ m, all_body m → all_body (fold_left store_validated l m).
  Proof.
    induction l as [|b l IH]; intros m H; cbn [fold_left]; [done|].
    by apply IH, all_body_store_validated.
  Qed.

  Lemma all_body_revert_tip m : all_body m → all_body (revert_tip U m).1.
  Proof.
    intros H. unfold revert_tip. destruct (best m) as [|t rest]; [done|].
    destruct (U !! t); [|done]. destruct (_ && _); [|done].
    destruct (has_supp m t); done.
  Qed.

  Lemma all_body_apply_tip m b : all_body m → all_body (apply_tip U m b).1.
  Proof.
    intros H. unfold apply_tip. destruct (U !! b) as [B|]; [|done].
    destruct (negb (has_body m b)); [done|].
    destruct (negb (parent B =? tip m)); [done|].
    destruct (has_supp m b); [done|].
    destruct (body_ok B); [|done]. cbn [fst]. by apply all_body_insert.
  Qed.

  Lemma all_body_do_reverts n : ∀ m, all_body m → all_body (do_reverts U m n).1.
  Proof.
    induction n as [|n IH]; intros m H; cbn [do_reverts]; [done|].
    pose proof (all_body_revert_tip m H) as H1.
    destruct (revert_tip U m) as [m1 [| |]]; cbn [fst] in *; auto.
  Qed.

  Lemma all_body_do_applies l : ∀ m, all_body m → all_body (do_applies U m l).1.
  Proof.
    induction l as [|b l IH]; intros m H; cbn [do_applies]; [done|].
    pose proof (all_body_apply_tip m b H) as H1.
    destruct (apply_tip U m b) as [m1 [| |]]; cbn [fst] in *; auto.
  Qed.

  Lemma all_body_reorg_to m t : all_body m → all_body (reorg_to U m t).1.
  Proof.
    intros H. unfold reorg_to.
    destruct (rpath U m (fuel_of m) (tip m) t) as [[rv app]|]; [|done].
    pose proof (all_body_do_reverts (length rv) m H) as H1.
    destruct (do_reverts U m (length rv)) as [m1 [| |]]; cbn [fst] in *; auto.
    by apply all_body_do_applies.
  Qed.

  Lemma all_body_maybe_reorg m cs : all_body m → all_body (maybe_reorg U m cs).1.1.
  Proof.
    intros H. unfold maybe_reorg. destruct (heavier U cs (tip m)); [|done].
    pose proof (all_body_reorg_to m cs H) as H1.
    destruct (reorg_to U m cs) as [m1 [| |]]; cbn [fst] in *; auto.
    pose proof (all_body_reorg_to m1 (tip m) H1) as H2.
    destruct (reorg_to U m1 (tip m)) as [m2 [| |]]; cbn [fst] in *; auto.
  Qed.

  Lemma all_body_add_loop l : ∀ m cs, all_body m → all_body (add_loop U m cs l).1.
  Proof.
    induction l as [|b l IH]; intros m cs H; cbn [add_loop]; [done|].
    destruct (U !! b) as [B|]; [|done].
    destruct (has_supp m b); [by apply IH|].
    destruct (has_state m b && on_best m b); [by apply IH|].
    destruct (negb _); [done|]. destruct (future B); [done|].
    destruct (negb _); [done|]. by apply IH, all_body_store_hdr.
  Qed.

  Lemma all_body_add_blocks m l : all_body m → all_body (add_blocks U m l).1.1.
  Proof.
    intros H. unfold add_blocks. destruct l as [|b0 l']; [done|].
    pose proof (all_body_add_loop (b0 :: l') m (tip m) H) as H1.
    destruct (add_loop U m (tip m) (b0 :: l')) as [m1 [cs|]]; cbn [fst] in *; [|done].
    by apply all_body_maybe_reorg.
  Qed.

  Lemma all_body_add_validated m l : all_body m → all_body (add_validated U m l).1.1.
  Proof.
    intros H. unfold add_validated. destruct l as [|b0 l']; [done|].
    destruct (U !! b0) as [B0|]; [|done].
    destruct (negb _); [done|].
    by apply all_body_maybe_reorg, all_body_fold.
  Qed.

  (** ** Best-chain blocks of an unpruned node *)
  Lemma best_has_supp m b : MInv U m → all_body m → b ∈ best m → has_supp m b = true.
  Proof.
    intros HI Hab Hin. destruct (I_best U m HI b Hin) as (k & Hk & _ & Hbs & _).
    apply has_supp_true. exists k. pose proof (Hab b k Hk) as Hb.
    split_and!; [done|done|congruence].
  Qed.

  Lemma best_has_state m b : MInv U m → b ∈ best m → has_state m b = true.
  Proof.
    intros HI Hin. destruct (I_best U m HI b Hin) as (k & Hk & Hs & _).
    apply has_state_true. exists k. rewrite Hs. eauto.
  Qed.

  Lemma tip_on_best m : MInv U m → tip m ∈ best m.
  Proof.
    intros HI. pose proof (chain_nonempty U _ (I_chain U m HI)) as Hne.
    unfold tip. destruct (best m); [done|]. cbn. apply elem_of_cons; auto.
  Qed.

  Lemma hangs_state m c : MInv U m → hangs U m c → has_state m c = true.
  Proof.
    intros HI (p & a & Hl & Hh & Ha & Hp). destruct p as [|x p]; cbn in Hh; subst c.
    - by apply best_has_state.
    - apply Hp. apply elem_of_cons; auto.
  Qed.

  Lemma hangs_best m c : c ∈ best m → hangs U m c.
  Proof.
    intros Hin. exists [], c. split_and!; try done.
    intros x Hx. by apply elem_of_nil in Hx.
  Qed.

  (** ** Applies never fail on applicable blocks *)
  Definition applicable (m : mgr) (x : N) : Prop :=
    has_body m x = true ∧
    (has_supp m x = true ∨ ∃ B, U !! x = Some B ∧ body_ok B = true).

  Lemma do_applies_live app : ∀ m,
    lp U (reverse app) (tip m) → (∀ x, x ∈ app → applicable m x) →
    ∃ m', do_applies U m app = (m', Ok).
  Proof.
    induction app as [|b app IH]; intros m Hl Ha; [by eexists|].
    rewrite reverse_cons in Hl. apply lp_snoc in Hl as (Hl & Hg & [B HB] & Hp).
    cbn [do_applies]. unfold apply_tip. rewrite HB.
    destruct (Ha b) as [Hbo Hsb]; [apply elem_of_cons; auto|].
    rewrite Hbo. cbn [negb].
    rewrite <- (par_eq U _ _ HB), Hp, N.eqb_refl. cbn [negb].
    destruct (has_supp m b) eqn:Hs.
    - apply IH; cbn [tip best hd]; [done|].
      intros x Hx. destruct (Ha x) as [? ?]; [by apply elem_of_cons; right|].
      split; [by rewrite (has_body_known m)|by rewrite (has_supp_known m)].
    - destruct Hsb as [?|(B' & HB' & Hok)]; [done|]. simplify_eq. rewrite Hok.
      apply IH; cbn [tip best hd]; [done|].
      intros x Hx. destruct (Ha x) as [Hxb Hxs]; [by apply elem_of_cons; right|].
      unfold applicable, has_body, has_supp in *. cbn [known].
      destruct (decide (x = b)) as [->|Hne].
      + rewrite lookup_insert. cbn. auto.
      + rewrite lookup_insert_ne by done. auto.
  Qed.

  (** ** A target hanging on the best chain is reached *)
  Lemma reorg_to_live m t :
    MInv U m → all_body m → hangs U m t →
    ∃ m', reorg_to U m t = (m', Ok) ∧ tip m' = t ∧ MInv U m' ∧ upg m m'.
  Proof.
    intros HI Hab (p & a & Hlp & Hhd & Hin & Happl).
    pose proof (I_chain U m HI) as Hc.
    apply elem_of_list_split in Hin as (r & rest & Hb).
    rewrite Hb in Hc. destruct (chain_split_at U _ _ _ Hc) as [Hlr Hca].
    assert (is_Some (U !! a)) as HUa.
    { eapply chain_elem_U; [exact HWF|exact Hca|]. apply elem_of_cons; auto. }
    assert (hd a r = tip m) as Ht by (unfold tip; rewrite Hb; symmetry; apply hd_app_cons).
    assert (∀ x, x ∈ r → has_hdr m x = true) as Hhr.
    { intros x Hx. apply has_body_hdr, has_supp_body, best_has_supp; try done.
      rewrite Hb. apply elem_of_app; auto. }
    assert (∀ x, x ∈ p → has_hdr m x = true) as Hhp.
    { intros x Hx. apply has_body_hdr. by apply Happl. }
    destruct (rpath_complete U HWF m (fuel_of m) (tip m) t r p a)
      as (r' & p' & E & Hlenr & Hlenp); try done.
    { unfold fuel_of.
      pose proof (len_le_size m r (lp_NoDup U HWF _ _ Hlr) Hhr).
      pose proof (len_le_size m p (lp_NoDup U HWF _ _ Hlp) Hhp). lia. }
    destruct (rpath_sound U HWF _ _ _ _ _ _ E) as (c2 & Hr2 & Hlr2 & Hp2 & Hlp2 & _ & _).
    rewrite <- Hb in Hc.
    destruct (chain_split U HWF (best m) r' c2 Hc Hr2 Hlr2) as (rest2 & Hb2).
    assert (∃ m', reorg_to U m t = (m', Ok)) as [m' Em'].
    { unfold reorg_to. rewrite E. rewrite do_reverts_ok.
      - rewrite Hb2, drop_app. apply do_applies_live; cbn [tip best hd]; [done|].
        intros x Hx.
        destruct (lp_prefix U (reverse p') p c2 a Hlp2 Hlp) as (l3 & Hp3 & _).
        { by rewrite Hhd. }
        { by rewrite reverse_length. }
        assert (x ∈ p) as Hxp.
        { rewrite Hp3. apply elem_of_app. left. by apply elem_of_reverse. }
        destruct (Happl x Hxp) as (Hxb & _ & Hxs).
        split; [by rewrite (has_body_known m)|]. by rewrite (has_supp_known m).
      - rewrite Hb2, app_length. lia.
      - intros x Hx. rewrite Hb2, take_app in Hx.
        destruct (lp_elem U _ _ _ Hlr2 Hx) as [Hg HUx].
        assert (has_supp m x = true) as Hsx.
        { apply best_has_supp; try done. rewrite Hb2. apply elem_of_app; auto. }
        split_and!; try done.
        apply has_supp_true in Hsx as (k & Hk & _).
        by apply (I_known U m HI x k Hk). }
    exists m'. pose proof (reorg_to_spec U HWF m t HI) as Hs. rewrite Em' in Hs.
    destruct Hs as (? & ? & ?). done.
  Qed.

  (** ** The reorg tail *)
  Lemma maybe_reorg_live m cs :
    MInv U m → all_body m → hangs U m cs →
    ∃ m', maybe_reorg U m cs = (m', Ok, heavier U cs (tip m)) ∧
          MInv U m' ∧ all_body m' ∧ hangs U m' cs ∧
          (if heavier U cs (tip m) then tip m' = cs else m' = m).
  Proof.
    intros HI Hab Hh. unfold maybe_reorg. destruct (heavier U cs (tip m)) eqn:Hhv.
    - destruct (reorg_to_live m cs HI Hab Hh) as (m' & E & Ht & HI' & Hu).
      rewrite E. exists m'. split_and!; try done.
      + pose proof (all_body_reorg_to m cs Hab) as H. by rewrite E in H.
      + apply hangs_best. rewrite <- Ht. by apply tip_on_best.
    - exists m. done.
  Qed.

  (** ** Storing a block on top of a hanging block *)
  Lemma okb_inv b : okb U b = true →
    ∃ B, U !! b = Some B ∧ hdr_ok B = true ∧ body_ok B = true ∧ future B = false.
  Proof.
    unfold okb. destruct (U !! b) as [B|]; [|done].
    intros [[? ?]%andb_true_iff ?%negb_true_iff]%andb_true_iff. eauto.
  Qed.

  Lemma last_cons {A} (l : list A) : ∀ b d, List.last (b :: l) d = List.last l b.
  Proof.
    induction l as [|x l IH]; intros b d; [done|].
    change (List.last (x :: l) d = List.last (x :: l) b). by rewrite !IH.
  Qed.

  Lemma appl_insert_self m b B s su l :
    U !! b = Some B → body_ok B = true →
    appl U (Mgr (<[b := KI (Some s) true su]> (known m)) l) b.
  Proof.
    intros HB Hok. unfold appl, has_body, has_state, has_supp. cbn [known].
    rewrite lookup_insert. cbn. split_and!; eauto.
  Qed.

  Lemma appl_insert m b B s su l x :
    U !! b = Some B → body_ok B = true →
    appl U m x → appl U (Mgr (<[b := KI (Some s) true su]> (known m)) l) x.
  Proof.
    intros HB Hok Hx. destruct (decide (x = b)) as [->|Hne].
    - by eapply appl_insert_self.
    - unfold appl, has_body, has_state, has_supp in *. cbn [known].
      by rewrite lookup_insert_ne.
  Qed.

  Lemma hangs_push m c b B :
    hangs U m c → b ≠ genesis → U !! b = Some B → parent B = c → appl U m b →
    hangs U m b.
  Proof.
    intros (p & a & Hl & Hh & Ha & Hp) Hg HB Hpar Hb.
    exists (b :: p), a. split_and!; [|done|done|].
    - cbn [lp]. split_and!; eauto. rewrite (par_eq U _ _ HB). congruence.
    - intros x [->|Hx]%elem_of_cons; auto.
  Qed.

  Lemma hangs_insert m c b B s su :
    hangs U m c → b ≠ genesis → U !! b = Some B → parent B = c → body_ok B = true →
    hangs U (Mgr (<[b := KI (Some s) true su]> (known m)) (best m)) b.
  Proof.
    intros (p & a & Hl & Hh & Ha & Hp) Hg HB Hpar Hok.
    eapply hangs_push; eauto; [|by eapply appl_insert_self].
    exists p, a. split_and!; try done.
    intros x Hx. eapply appl_insert; eauto.
  Qed.

  Lemma supp_appl m b : MInv U m → has_supp m b = true → appl U m b.
  Proof.
    intros HI Hs. split_and!; [by apply has_supp_body| |by left].
    apply has_supp_true in Hs as (k & Hk & _ & Hsu).
    destruct (I_supp U m HI b k Hk Hsu) as (_ & Hst & _).
    apply has_state_true. exists k. rewrite Hst. eauto.
  Qed.

  (** ** The ingestion loop accepts a chain of acceptable blocks *)
  Lemma add_loop_live l : ∀ m cs c,
    MInv U m → all_body m → hangs U m c → lp U (reverse l) c →
    (∀ x, x ∈ l → okb U x = true) →
    ∃ m', add_loop U m cs l = (m', Some (List.last l cs)) ∧
          MInv U m' ∧ all_body m' ∧ best m' = best m ∧ hangs U m' (List.last l c).
  Proof.
    induction l as [|b l IH]; intros m cs c HI Hab Hh Hl Hok.
    { exists m. done. }
    rewrite reverse_cons in Hl. apply lp_snoc in Hl as (Hl & Hg & _ & Hp).
    destruct (okb_inv b) as (B & HB & Hho & Hbo & Hfu); [apply Hok, elem_of_cons; auto|].
    rewrite (par_eq U _ _ HB) in Hp.
    assert (∀ x, x ∈ l → okb U x = true) as Hok'
      by (intros x Hx; apply Hok, elem_of_cons; auto).
    rewrite !last_cons. cbn [add_loop]. rewrite HB.
    destruct (has_supp m b) eqn:Hs.
    { apply IH; try done. eapply hangs_push; eauto. by apply supp_appl. }
    destruct (has_state m b && on_best m b) eqn:Hob.
    { apply IH; try done. apply hangs_best.
      apply andb_true_iff in Hob as [_ Hob]. unfold on_best in Hob.
      by apply bool_decide_eq_true in Hob. }
    assert (has_state m (parent B) = true) as Hps by (rewrite Hp; by apply hangs_state).
    replace (if parent B =? cs then true else has_state m (parent B)) with true
      by (destruct (_ =? _); done).
    cbn [negb]. rewrite Hfu, Hho. cbn [negb].
    destruct (MInv_store_hdr U m b B HI HB Hho Hs Hob Hps) as [HI1 _].
    destruct (IH (store_hdr m b) b b HI1) as (m' & E & ? & ? & Hb' & ?); try done.
    - by apply all_body_store_hdr.
    - unfold store_hdr. eapply hangs_insert; eauto.
    - exists m'. done.
  Qed.

  (** AddBlocks of a chain of acceptable blocks (ascending list l, hanging on c) *)
  Lemma add_blocks_live m c l :
    MInv U m → all_body m → hangs U m c → l ≠ [] →
    lp U (reverse l) c → (∀ x, x ∈ l → okb U x = true) →
    ∃ m', add_blocks U m l = (m', Ok, heavier U (List.last l c) (tip m)) ∧
          MInv U m' ∧ all_body m' ∧ hangs U m' (List.last l c) ∧
          (if heavier U (List.last l c) (tip m) then tip m' = List.last l c
           else best m' = best m).
  Proof.
    intros HI Hab Hh Hne Hl Hok. destruct l as [|b0 l']; [done|]. unfold add_blocks.
    destruct (add_loop_live (b0 :: l') m (tip m) c HI Hab Hh Hl Hok)
      as (m1 & E & HI1 & Hab1 & Hb1 & Hh1).
    rewrite E.
    replace (List.last (b0 :: l') (tip m)) with (List.last (b0 :: l') c)
      by (by rewrite !last_cons).
    assert (tip m1 = tip m) as Ht1 by (unfold tip; by rewrite Hb1).
    destruct (maybe_reorg_live m1 _ HI1 Hab1 Hh1) as (m' & E' & HI' & Hab' & Hh' & Hc).
    rewrite Ht1 in E', Hc. exists m'. split_and!; try done.
    destruct (heavier U (List.last (b0 :: l') c) (tip m)); [done|]. by subst m'.
  Qed.

  (** okb chains satisfy the documented precondition of AddValidatedV2Blocks *)
  Lemma okb_validated_pre c l :
    lp U (reverse l) c → (∀ x, x ∈ l → okb U x = true) → validated_pre U l.
  Proof.
    revert c. induction l as [|b l IH]; intros c Hl Hok; [done|].
    rewrite reverse_cons in Hl. apply lp_snoc in Hl as (Hl & _ & _ & _).
    destruct (okb_inv b) as (B & HB & Hho & Hbo & _); [apply Hok, elem_of_cons; auto|].
    cbn [validated_pre]. split_and!; [eauto| |].
    - destruct l as [|b' l]; [done|].
      rewrite reverse_cons in Hl. by apply lp_snoc in Hl as (_ & _ & _ & ?).
    - apply (IH b); [done|]. intros x Hx. apply Hok, elem_of_cons; auto.
  Qed.

  Lemma fold_hangs l : ∀ m c,
    hangs U m c → lp U (reverse l) c → (∀ x, x ∈ l → okb U x = true) →
    hangs U (fold_left store_validated l m) (List.last l c).
  Proof.
    induction l as [|b l IH]; intros m c Hh Hl Hok; [done|].
    rewrite reverse_cons in Hl. apply lp_snoc in Hl as (Hl & Hg & _ & Hp).
    destruct (okb_inv b) as (B & HB & Hho & Hbo & Hfu); [apply Hok, elem_of_cons; auto|].
    rewrite (par_eq U _ _ HB) in Hp.
    rewrite last_cons. cbn [fold_left]. apply IH; [|done|].
    - unfold store_validated. destruct (has_state m b && on_best m b) eqn:Hob.
      + (* already applied on the best chain: skipped, and [b] itself is on [best m] *)
        apply hangs_best. apply andb_true_iff in Hob as [_ Hob]. unfold on_best in Hob.
        by apply bool_decide_eq_true in Hob.
      + eapply hangs_insert; eauto.
    - intros x Hx. apply Hok, elem_of_cons; auto.
  Qed.

  (** the same through AddValidatedV2Blocks *)
  Lemma add_validated_live m c l :
    MInv U m → all_body m → hangs U m c → l ≠ [] →
    lp U (reverse l) c → (∀ x, x ∈ l → okb U x = true) →
    ∃ m', add_validated U m l = (m', Ok, heavier U (List.last l c) (tip m)) ∧
          MInv U m' ∧ all_body m' ∧ hangs U m' (List.last l c) ∧
          (if heavier U (List.last l c) (tip m) then tip m' = List.last l c
           else best m' = best m).
  Proof.
    intros HI Hab Hh Hne Hl Hok. destruct l as [|b0 l']; [done|]. unfold add_validated.
    pose proof Hl as Hl0. rewrite reverse_cons in Hl0.
    apply lp_snoc in Hl0 as (_ & Hg & [B0 HB0] & Hp).
    rewrite HB0. rewrite (par_eq U _ _ HB0) in Hp.
    pose proof (hangs_state m c HI Hh) as Hsc. rewrite Hp, Hsc. cbn [negb].
    destruct (store_validated_fold U (b0 :: l') m HI (okb_validated_pre c _ Hl Hok))
      as (HI1 & Hb1 & _).
    { intros b [= <-]. by rewrite (par_eq U _ _ HB0), Hp. }
    pose proof (all_body_fold (b0 :: l') m Hab) as Hab1.
    pose proof (fold_hangs (b0 :: l') m c Hh Hl Hok) as Hh1.
    replace (List.last (b0 :: l') b0) with (List.last (b0 :: l') c)
      by (by rewrite !last_cons).
    assert (tip (fold_left store_validated (b0 :: l') m) = tip m) as Ht1
      by (unfold tip; by rewrite Hb1).
    destruct (maybe_reorg_live _ _ HI1 Hab1 Hh1) as (m' & E' & HI' & Hab' & Hh' & Hc).
    rewrite Ht1 in E', Hc. exists m'. split_and!; try done.
    destruct (heavier U (List.last (b0 :: l') c) (tip m)); [done|]. by subst m'.
  Qed.

End LiveProofs.

(** * Example: the hypotheses of [add_blocks_live] are met by a concrete state *)
Section Ex.
  (** genesis 0; main chain 1-2; a heavier fork 3-4-5 from block 1 *)
  Definition exU : universe := list_to_map [
    (0, Blk 0 0 true false true 0 10);
    (1, Blk 0 1 true false true 10 10);
    (2, Blk 1 2 true false true 20 10);
    (3, Blk 1 2 true false true 21 10);
    (4, Blk 3 3 true false true 32 10);
    (5, Blk 4 4 true false true 44 10) ].

  Example exU_wf : WF exU.
  Proof. apply wfb_sound. vm_compute. reflexivity. Qed.

  Definition exm : mgr := mrun exU [AddBlocks [1; 2]].

  Example exm_best : best exm = [2; 1; 0].
  Proof. vm_compute. reflexivity. Qed.

  Example exm_inv : MInv exU exm.
  Proof. apply mrun_inv; [apply exU_wf|]. repeat constructor. Qed.

  Example exm_all_body : all_body exm.
  Proof.
    unfold exm, mrun. cbn [fold_left mstep].
    apply all_body_add_blocks, all_body_init.
  Qed.

  Example exm_hangs : hangs exU exm 1.
  Proof. apply hangs_best. rewrite exm_best. set_solver. Qed.

  Example ex_fork_lp : lp exU (reverse [3; 4; 5]) 1.
  Proof. vm_compute. split_and!; eauto; done. Qed.

  Example ex_fork_okb : ∀ x, x ∈ [3; 4; 5] → okb exU x = true.
  Proof.
    intros x Hx. repeat (apply elem_of_cons in Hx as [->|Hx]; [vm_compute; reflexivity|]).
    by apply elem_of_nil in Hx.
  Qed.

  (** the fork is adopted: Ok, listeners notified, new tip 5 *)
  Example ex_add_blocks_live :
    ∃ m', add_blocks exU exm [3; 4; 5] = (m', Ok, true) ∧
          MInv exU m' ∧ all_body m' ∧ hangs exU m' 5 ∧ tip m' = 5.
  Proof.
    destruct (add_blocks_live exU exU_wf exm 1 [3; 4; 5])
      as (m' & E & HI & Hab & Hh & Ht);
      [apply exm_inv|apply exm_all_body|apply exm_hangs|done|apply ex_fork_lp|apply ex_fork_okb|].
    assert (heavier exU (List.last [3; 4; 5] 1) (tip exm) = true) as Hhv
      by (vm_compute; reflexivity).
    rewrite Hhv in E, Ht. cbn [List.last] in *. eauto 10.
  Qed.

  (** the same fork through AddValidatedV2Blocks *)
  Example ex_add_validated_live :
    ∃ m', add_validated exU exm [3; 4; 5] = (m', Ok, true) ∧
          MInv exU m' ∧ all_body m' ∧ hangs exU m' 5 ∧ tip m' = 5.
  Proof.
    destruct (add_validated_live exU exU_wf exm 1 [3; 4; 5])
      as (m' & E & HI & Hab & Hh & Ht);
      [apply exm_inv|apply exm_all_body|apply exm_hangs|done|apply ex_fork_lp|apply ex_fork_okb|].
    assert (heavier exU (List.last [3; 4; 5] 1) (tip exm) = true) as Hhv
      by (vm_compute; reflexivity).
    rewrite Hhv in E, Ht. cbn [List.last] in *. eauto 10.
  Qed.
End Ex.
