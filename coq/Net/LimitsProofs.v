(** * Net/LimitsProofs.v — proofs about the transition system of Net/Limits.v (C18).

    Structure: (1) first-match list lemmas; (2) inversion tactics for [step]; (3) the
    invariant [inv] (unique ids, every request belongs to a known connection, slot counters
    = owners, counters within their limits, WaitGroup counter = members) preserved by every
    label, hence true in every reachable state = under every interleaving; (4) the property
    theorems; (5) examples showing the hypotheses are met by non-trivial states. *)
From Coq Require Import NArith ZArith List Bool Lia.
Import ListNotations.
From CV Require Import Net.Limits.

(* ------------------------------------------------------------------ *)

Section FirstLemmas.
  Context {A : Type}.
  Implicit Types (P Q : A -> bool) (w : A -> nat) (l : list A).

  Lemma sum_app w l l' : sum w (l ++ l') = sum w l + sum w l'.
  Proof. induction l; simpl; lia. Qed.

  Lemma sum_fupd P f w l x :
    ffind P l = Some x -> sum w (fupd P f l) + w x = sum w l + w (f x).
  Proof.
    induction l as [|a t IH]; simpl; [discriminate|].
    destruct (P a) eqn:E; intros H.
    - injection H as <-. simpl. lia.
    - simpl. specialize (IH H). lia.
  Qed.

  Lemma fupd_none P f l : ffind P l = None -> fupd P f l = l.
  Proof.
    induction l as [|a t IH]; simpl; auto. destruct (P a); [discriminate|].
    intros H. now rewrite IH.
  Qed.

  Lemma sum_map w (g : A -> A) l : (forall x, w (g x) = w x) -> sum w (map g l) = sum w l.
  Proof. intros H. induction l; simpl; try rewrite H; try rewrite IHl; auto. Qed.

  Lemma sum_ext w w' l : (forall x, w x = w' x) -> sum w l = sum w' l.
  Proof. intros H. induction l; simpl; auto. Qed.

  Lemma ffind_fupd_same P f l x :
    ffind P l = Some x -> P (f x) = true -> ffind P (fupd P f l) = Some (f x).
  Proof.
    induction l as [|a t IH]; simpl; [discriminate|].
    destruct (P a) eqn:E; intros H Hf.
    - injection H as <-. simpl. now rewrite Hf.
    - simpl. rewrite E. auto.
  Qed.

  Lemma ffind_fupd_other P P' f l :
    (forall y, P y = true -> P' y = false /\ P' (f y) = false) ->
    ffind P' (fupd P f l) = ffind P' l.
  Proof.
    intros H. induction l as [|a t IH]; simpl; auto.
    destruct (P a) eqn:E; simpl.
    - destruct (H a E) as [-> ->]. reflexivity.
    - now rewrite IH.
  Qed.

  Lemma ffind_app P l l' :
    ffind P (l ++ l') = match ffind P l with Some x => Some x | None => ffind P l' end.
  Proof. induction l; simpl; auto. destruct (P a); auto. Qed.

  Lemma ffind_some P l x : ffind P l = Some x -> In x l /\ P x = true.
  Proof.
    induction l as [|a t IH]; simpl; [discriminate|].
    destruct (P a) eqn:E; intros H.
    - injection H as <-. auto.
    - destruct (IH H). auto.
  Qed.

  Lemma ffind_none P l x : ffind P l = None -> In x l -> P x = false.
  Proof.
    induction l as [|a t IH]; simpl; [tauto|].
    destruct (P a) eqn:E; [discriminate|]. intros H [<-|Hi]; auto.
  Qed.

  Lemma ffind_map P (g : A -> A) l :
    (forall x, P (g x) = P x) -> ffind P (map g l) = option_map g (ffind P l).
  Proof. intros H. induction l; simpl; auto. rewrite H. destruct (P a); auto. Qed.

  Lemma sum_zero w l x : sum w l = 0 -> In x l -> w x = 0.
  Proof. induction l; simpl; [tauto|]. intros H [<-|Hi]; [lia|]. apply IHl; auto; lia. Qed.

  Lemma sum_pos w l : 0 < sum w l -> exists x, In x l /\ 0 < w x.
  Proof.
    induction l; simpl; [lia|]. intros H.
    destruct (w a) eqn:E.
    - destruct IHl as (x & Hi & Hx); [lia|]. eauto.
    - exists a. split; auto. lia.
  Qed.

  Lemma in_fupd P f l y : In y (fupd P f l) -> In y l \/ exists x, In x l /\ P x = true /\ y = f x.
  Proof.
    induction l as [|a t IH]; simpl; [tauto|].
    destruct (P a) eqn:E; simpl.
    - intros [<-|Hi]; [right; exists a; auto|auto].
    - intros [<-|Hi]; auto. destruct (IH Hi) as [?|(x & ? & ? & ?)]; auto. right. exists x. auto.
  Qed.

  Lemma map_fupd {B} (k : A -> B) P f l : (forall x, k (f x) = k x) -> map k (fupd P f l) = map k l.
  Proof. intros H. induction l; simpl; auto. destruct (P a); simpl; rewrite ?H, ?IHl; auto. Qed.
End FirstLemmas.

Lemma count_fupd {A} (P Q : A -> bool) f l x :
  ffind P l = Some x -> count Q (fupd P f l) + b2n (Q x) = count Q l + b2n (Q (f x)).
Proof. apply (sum_fupd P f (fun x => b2n (Q x))). Qed.

(* ------------------------------------------------------------------ *)

Ltac split_bools :=
  repeat match goal with
  | H : _ && _ = true |- _ => apply andb_prop in H; destruct H
  | H : negb _ = true |- _ => apply negb_true_iff in H
  | H : negb _ = false |- _ => apply negb_false_iff in H
  | H : N.eqb _ _ = true |- _ => apply N.eqb_eq in H
  | H : N.eqb _ _ = false |- _ => apply N.eqb_neq in H
  | H : Nat.eqb _ _ = true |- _ => apply Nat.eqb_eq in H
  | H : Nat.ltb _ _ = true |- _ => apply Nat.ltb_lt in H
  | H : Nat.leb _ _ = true |- _ => apply Nat.leb_le in H
  | H : Z.ltb _ _ = true |- _ => apply Z.ltb_lt in H
  | H : Z.leb _ _ = true |- _ => apply Z.leb_le in H
  | H : Z.ltb _ _ = false |- _ => apply Z.ltb_ge in H
  | H : Bool.eqb _ _ = true |- _ => apply eqb_prop in H
  end.

(** turn [is_x (r_st y) = true] into [r_st y = X] *)
Ltac status_facts :=
  repeat match goal with
  | H : is_waiting (r_st ?y) = true |- _ => destruct (r_st y) eqn:?; simpl in H; try discriminate H; clear H
  | H : is_held (r_st ?y) = true |- _ => destruct (r_st y) eqn:?; simpl in H; try discriminate H; clear H
  | H : is_pending (r_st ?y) = true |- _ => destruct (r_st y) eqn:?; simpl in H; try discriminate H; clear H
  | H : is_run (c_st ?x) = true |- _ => destruct (c_st x) eqn:?; simpl in H; try discriminate H; clear H
  | H : is_pend (c_st ?x) = true |- _ => destruct (c_st x) eqn:?; simpl in H; try discriminate H; clear H
  end.

Ltac step_inv H :=
  unfold step in H; cbv zeta in H;
  repeat match type of H with
  | (match ?e with _ => _ end) = Some _ => let E := fresh "E" in destruct e eqn:E; try discriminate H
  end;
  injection H as H; try subst; split_bools; status_facts.

Lemma isc_id c x : isc c x = true -> c_id x = c.
Proof. unfold isc. intros H. now apply N.eqb_eq in H. Qed.
Lemma isr_id r y : isr r y = true -> r_id y = r.
Proof. unfold isr. intros H. now apply N.eqb_eq in H. Qed.

Lemma ffind_isc_fupd c c0 f l :
  (forall x, c_id (f x) = c_id x) ->
  ffind (isc c) (fupd (isc c0) f l) =
  if N.eqb c c0 then option_map f (ffind (isc c) l) else ffind (isc c) l.
Proof.
  intros Hid. destruct (N.eqb c c0) eqn:E.
  - apply N.eqb_eq in E. subst c0. destruct (ffind (isc c) l) eqn:F; simpl.
    + apply ffind_fupd_same; auto. unfold isc. rewrite Hid. apply ffind_some in F. apply F.
    + now rewrite fupd_none.
  - apply ffind_fupd_other. intros y Hy. apply isc_id in Hy. unfold isc. rewrite Hid, Hy.
    apply N.eqb_neq in E. split; apply N.eqb_neq; congruence.
Qed.

Lemma ffind_isr_fupd r r0 f l :
  (forall x, r_id (f x) = r_id x) ->
  ffind (isr r) (fupd (isr r0) f l) =
  if N.eqb r r0 then option_map f (ffind (isr r) l) else ffind (isr r) l.
Proof.
  intros Hid. destruct (N.eqb r r0) eqn:E.
  - apply N.eqb_eq in E. subst r0. destruct (ffind (isr r) l) eqn:F; simpl.
    + apply ffind_fupd_same; auto. unfold isr. rewrite Hid. apply ffind_some in F. apply F.
    + now rewrite fupd_none.
  - apply ffind_fupd_other. intros y Hy. apply isr_id in Hy. unfold isr. rewrite Hid, Hy.
    apply N.eqb_neq in E. split; apply N.eqb_neq; congruence.
Qed.

Lemma count_app {A} (Q : A -> bool) l l' : count Q (l ++ l') = count Q l + count Q l'.
Proof. apply sum_app. Qed.

(** invariants *)
Definition conn_ok (s : state) (y : rpc) : Prop :=
  exists x, ffind (isc (r_conn y)) (conns s) = Some x /\ (in_loop (r_st y) = true -> c_st x = CRun).

Record inv (cfg : config) (s : state) : Prop := mk_inv {
  i_nodup_c : NoDup (map c_id (conns s));
  i_nodup_r : NoDup (map r_id (rpcs s));
  i_conn : Forall (conn_ok s) (rpcs s);
  i_slots : forall c x, ffind (isc c) (conns s) = Some x -> c_slots x = count (on_conn c holds_peer) (rpcs s);
  i_slots_le : forall c x, ffind (isc c) (conns s) = Some x -> c_slots x <= max_rpc cfg;
  i_sub : forall k, subcnt s k = if subnet_on cfg then count (on_sub k holds_sub) (rpcs s) else 0;
  i_sub_le : subnet_on cfg = true -> forall k, (Z.of_nat (subcnt s k) <= max_subnet cfg)%Z;
  i_tg : tg_count s = tg_extra s + count (fun x => is_run (c_st x)) (conns s)
                                 + count (fun y => is_running (r_st y)) (rpcs s)
}.

Lemma fresh_conn_count s c P :
  Forall (conn_ok s) (rpcs s) -> ffind (isc c) (conns s) = None -> count (on_conn c P) (rpcs s) = 0.
Proof.
  intros H Hn. induction H as [|y t Hy _ IH]; simpl; auto.
  unfold count in *. simpl. rewrite IH.
  destruct Hy as (x & Hx & _). unfold on_conn.
  destruct (N.eqb (r_conn y) c) eqn:E; simpl; auto.
  apply N.eqb_eq in E. congruence.
Qed.

(** replace every [count Q (fupd P f l)] by a variable constrained by [count_fupd] *)
Ltac pose_counts :=
  repeat match goal with
  | |- context [count ?Q (fupd ?P ?f ?l)] =>
    match goal with
    | E : ffind P l = Some ?y |- _ =>
      let HC := fresh "HC" in let n := fresh "n" in
      pose proof (count_fupd P Q f l y E) as HC;
      set (n := count Q (fupd P f l)) in *; clearbody n
    end
  end.

Ltac conn_cases Hf :=
  rewrite ffind_isc_fupd in Hf by (intros; reflexivity);
  match type of Hf with
  | (if N.eqb ?a ?b then _ else _) = _ =>
    let E := fresh "Ecc" in destruct (N.eqb a b) eqn:E;
    [apply N.eqb_eq in E; subst; match goal with E' : ffind _ _ = Some _ |- _ => rewrite E' in Hf end; simpl in Hf; injection Hf as <-
    |apply N.eqb_neq in E]
  end.


Lemma abandon_keeps c (P : rstatus -> bool) c' :
  P Pending = false -> P Waiting = false -> P Abandoned = false ->
  forall y, b2n (on_conn c' P (abandon c y)) = b2n (on_conn c' P y).
Proof.
  intros H1 H2 H3 y. unfold abandon, on_conn.
  destruct (N.eqb (r_conn y) c && (is_pending (r_st y) || is_waiting (r_st y))) eqn:E; auto.
  simpl. apply andb_prop in E. destruct E as [_ E].
  destruct (r_st y); simpl in E; try discriminate; rewrite ?H1, ?H2, ?H3; auto.
Qed.

(** normalise a lookup in the new connection list to a lookup in the old one *)
Ltac norm_lookup Hf :=
  match type of Hf with
  | ffind (isc ?c') (fupd (isc ?c) ?g ?l) = Some ?x' =>
    rewrite ffind_isc_fupd in Hf by (intros; reflexivity);
    let E := fresh "Ecc" in destruct (N.eqb c' c) eqn:E;
    [ apply N.eqb_eq in E; subst c';
      match goal with E' : ffind (isc c) l = Some _ |- _ => rewrite E' in Hf end;
      simpl in Hf; injection Hf as <-
    | apply N.eqb_neq in E ]
  | ffind (isc ?c') (?l ++ [?new]) = Some ?x' =>
    rewrite ffind_app in Hf;
    let F := fresh "F" in destruct (ffind (isc c') l) eqn:F;
    [ injection Hf as <-
    | simpl in Hf;
      let G := fresh "G" in destruct (isc c' new) eqn:G; [|discriminate Hf];
      injection Hf as <-; apply isc_id in G; simpl in G; subst c' ]
  | _ => idtac
  end.

Ltac simp_status :=
  unfold on_conn, on_sub, set_rst in *; simpl in *;
  repeat match goal with
  | H : r_st ?y = _ |- _ => rewrite H in *
  | H : r_conn ?y = _ |- _ => rewrite H in *
  | H : c_st ?y = _ |- _ => rewrite H in *
  end; simpl in *;
  repeat match goal with
  | |- context [N.eqb ?a ?a] => rewrite (N.eqb_refl a) in *
  | H : context [N.eqb ?a ?a] |- _ => rewrite (N.eqb_refl a) in *
  | H : ?a <> ?b |- _ => (rewrite (proj2 (N.eqb_neq a b) H) in * ) || (rewrite (proj2 (N.eqb_neq b a) (not_eq_sym H)) in * )
  end; simpl in *; rewrite ?andb_false_r, ?andb_true_r in *; simpl in *.

Lemma step_slots cfg s l s' : inv cfg s -> step cfg s l = Some s' ->
  forall c x, ffind (isc c) (conns s') = Some x -> c_slots x = count (on_conn c holds_peer) (rpcs s').
Proof.
  intros I H. pose proof (i_slots _ _ I) as IS. pose proof (i_conn _ _ I) as IC.
  destruct l; step_inv H; intros c' x' Hf; simpl in *.
  all: norm_lookup Hf.
  all: try (rewrite (fresh_conn_count _ _ _ IC) by assumption; reflexivity).
  all: repeat match goal with E : ffind (isc ?c) (conns _) = Some ?x |- _ => apply IS in E end.
  all: pose_counts; rewrite ?count_app; unfold count in *; rewrite ?(sum_map _ (abandon _)) by (apply abandon_keeps; reflexivity);
       fold (@count rpc) in *; simpl in *.
  all: simp_status; lia.
Qed.

Lemma step_slots_le cfg s l s' : inv cfg s -> step cfg s l = Some s' ->
  forall c x, ffind (isc c) (conns s') = Some x -> c_slots x <= max_rpc cfg.
Proof.
  intros I H. pose proof (i_slots_le _ _ I) as IS.
  destruct l; step_inv H; intros c' x' Hf; simpl in *.
  all: norm_lookup Hf.
  all: repeat match goal with E : ffind (isc ?c) (conns _) = Some ?x |- _ => apply IS in E end.
  all: simpl in *; try lia.
Qed.

Lemma upd_eq f k v k' : upd f k v k' = if N.eqb k' k then v else f k'.
Proof. reflexivity. Qed.

Lemma abandon_keeps_sub c (P : rstatus -> bool) k :
  P Pending = false -> P Waiting = false -> P Abandoned = false ->
  forall y, b2n (on_sub k P (abandon c y)) = b2n (on_sub k P y).
Proof.
  intros H1 H2 H3 y. unfold abandon, on_sub.
  destruct (N.eqb (r_conn y) c && (is_pending (r_st y) || is_waiting (r_st y))) eqn:E; auto.
  simpl. apply andb_prop in E. destruct E as [_ E].
  destruct (r_st y); simpl in E; try discriminate; rewrite ?H1, ?H2, ?H3; auto.
Qed.

Lemma step_sub cfg s l s' : inv cfg s -> step cfg s l = Some s' ->
  forall k, subcnt s' k = if subnet_on cfg then count (on_sub k holds_sub) (rpcs s') else 0.
Proof.
  intros I H. pose proof (i_sub _ _ I) as IS.
  destruct l; unfold step in H; destruct (subnet_on cfg) eqn:Eon; step_inv H; intros k; simpl in *; rewrite ?upd_eq.
  all: try (rewrite IS; reflexivity).
  all: try (pose proof (IS k) as ISk; pose proof (IS (r_sub r0)) as ISr).
  all: pose_counts; rewrite ?count_app; unfold count in *;
       rewrite ?(sum_map _ (abandon _)) by (apply abandon_keeps_sub; reflexivity);
       fold (@count rpc) in *; simpl in *.
  all: try (rewrite IS; simp_status; lia).
  all: try (destruct (N.eqb k (r_sub r0)) eqn:Ek; [apply N.eqb_eq in Ek; subst k|apply N.eqb_neq in Ek]; simp_status; lia).
Qed.

Lemma step_sub_le cfg s l s' : inv cfg s -> step cfg s l = Some s' ->
  subnet_on cfg = true -> forall k, (Z.of_nat (subcnt s' k) <= max_subnet cfg)%Z.
Proof.
  intros I H Hon. pose proof (i_sub_le _ _ I Hon) as IS.
  destruct l; unfold step in H; rewrite ?Hon in H; step_inv H; intros k; simpl in *; rewrite ?upd_eq.
  all: try apply IS.
  all: destruct (N.eqb k (r_sub r0)); try apply IS.
  - lia.
  - specialize (IS (r_sub r0)). lia.
Qed.

Lemma abandon_running c y : b2n (is_running (r_st (abandon c y))) = b2n (is_running (r_st y)).
Proof.
  unfold abandon.
  destruct (N.eqb (r_conn y) c && (is_pending (r_st y) || is_waiting (r_st y))) eqn:E; auto.
  apply andb_prop in E. destruct E as [_ E]. destruct (r_st y); simpl in *; auto; discriminate.
Qed.

Lemma step_tg cfg s l s' : inv cfg s -> step cfg s l = Some s' ->
  tg_count s' = tg_extra s' + count (fun x => is_run (c_st x)) (conns s')
                            + count (fun y => is_running (r_st y)) (rpcs s').
Proof.
  intros I H. pose proof (i_tg _ _ I) as IS.
  destruct l; step_inv H; simpl in *.
  all: pose_counts; rewrite ?count_app; unfold count in *;
       rewrite ?(sum_map _ (abandon _)) by (apply abandon_running);
       fold (@count rpc) in *; fold (@count conn) in *; simpl in *.
  all: simp_status; try lia.
Qed.

Lemma ffind_isc_none_notin c l : ffind (isc c) l = None -> ~ In c (map c_id l).
Proof.
  intros H Hi. apply in_map_iff in Hi. destruct Hi as (x & Hx & Hi).
  pose proof (ffind_none _ _ _ H Hi) as F. unfold isc in F. rewrite Hx, N.eqb_refl in F. discriminate.
Qed.
Lemma ffind_isr_none_notin r l : ffind (isr r) l = None -> ~ In r (map r_id l).
Proof.
  intros H Hi. apply in_map_iff in Hi. destruct Hi as (x & Hx & Hi).
  pose proof (ffind_none _ _ _ H Hi) as F. unfold isr in F. rewrite Hx, N.eqb_refl in F. discriminate.
Qed.
Lemma nodup_snoc {A} (l : list A) a : NoDup l -> ~ In a l -> NoDup (l ++ [a]).
Proof.
  intros H Hn. induction H; simpl.
  - constructor; auto. constructor.
  - constructor.
    + rewrite in_app_iff. simpl. intros [?|[?|[]]]; [auto|]. subst. apply Hn. now left.
    + apply IHNoDup. intros Hi. apply Hn. now right.
Qed.

Lemma step_nodup_c cfg s l s' : inv cfg s -> step cfg s l = Some s' -> NoDup (map c_id (conns s')).
Proof.
  intros I H. pose proof (i_nodup_c _ _ I) as IS.
  destruct l; step_inv H; simpl in *; rewrite ?map_fupd by (intros; reflexivity); auto.
  all: rewrite map_app; simpl; apply nodup_snoc; auto; now apply ffind_isc_none_notin.
Qed.

Lemma abandon_id c y : r_id (abandon c y) = r_id y.
Proof. unfold abandon. destruct (_ && _); reflexivity. Qed.

Lemma step_nodup_r cfg s l s' : inv cfg s -> step cfg s l = Some s' -> NoDup (map r_id (rpcs s')).
Proof.
  intros I H. pose proof (i_nodup_r _ _ I) as IS.
  destruct l; step_inv H; simpl in *; rewrite ?map_fupd by (intros; reflexivity); auto.
  - rewrite map_app; simpl; apply nodup_snoc; auto; now apply ffind_isr_none_notin.
  - rewrite map_map. erewrite map_ext; [exact IS|]. intros; apply abandon_id.
Qed.

Definition conn_okl (cl : list conn) (y : rpc) : Prop :=
  exists x, ffind (isc (r_conn y)) cl = Some x /\ (in_loop (r_st y) = true -> c_st x = CRun).
Lemma conn_ok_l s y : conn_ok s y <-> conn_okl (conns s) y.
Proof. reflexivity. Qed.

Lemma okl_app cl n y : conn_okl cl y -> conn_okl (cl ++ [n]) y.
Proof. intros (x & Hx & Hr). exists x. split; auto. rewrite ffind_app, Hx. reflexivity. Qed.

Lemma okl_fupd cl c g y :
  conn_okl cl y -> (forall x, c_id (g x) = c_id x) ->
  (forall x, ffind (isc c) cl = Some x -> c_st x = CRun -> r_conn y = c -> in_loop (r_st y) = true -> c_st (g x) = CRun) ->
  conn_okl (fupd (isc c) g cl) y.
Proof.
  intros (x & Hx & Hr) Hid Hg. unfold conn_okl. rewrite ffind_isc_fupd by auto.
  destruct (N.eqb (r_conn y) c) eqn:E.
  - apply N.eqb_eq in E. rewrite Hx. simpl. exists (g x). split; auto. intros Hl. subst c. auto.
  - exists x. auto.
Qed.

Lemma okl_rst_out cl st y : conn_okl cl y -> in_loop st = false -> conn_okl cl (set_rst st y).
Proof. intros (x & Hx & _) Hs. exists x. simpl. split; auto. rewrite Hs. discriminate. Qed.

Lemma okl_rst_in cl st y x : ffind (isc (r_conn y)) cl = Some x -> c_st x = CRun -> conn_okl cl (set_rst st y).
Proof. intros Hx Hr. exists x. simpl. auto. Qed.

Lemma okl_abandon cl c y : conn_okl cl y -> conn_okl cl (abandon c y).
Proof.
  intros H. unfold abandon. destruct (_ && _); auto. apply okl_rst_out; auto.
Qed.

Lemma abandon_not_in_loop c y :
  r_conn y = c -> is_held (r_st y) = false -> in_loop (r_st (abandon c y)) = false.
Proof.
  intros Hc Hh. unfold abandon. rewrite Hc, N.eqb_refl. simpl.
  destruct (r_st y) eqn:E; simpl in *; rewrite ?E; auto; try discriminate.
Qed.

Lemma count_zero_in {A} (Q : A -> bool) l x : count Q l = 0 -> In x l -> Q x = false.
Proof.
  intros H Hi. pose proof (sum_zero _ _ _ H Hi) as Hz. simpl in Hz. destruct (Q x); auto; discriminate.
Qed.

Lemma ffind_isr_unique l r y : NoDup (map r_id l) -> In y l -> isr r y = true -> ffind (isr r) l = Some y.
Proof.
  induction l as [|a t IH]; simpl; [tauto|]. intros Hn [<-|Hi] Hr.
  - now rewrite Hr.
  - inversion Hn; subst. destruct (isr r a) eqn:E.
    + exfalso. apply isr_id in E. apply isr_id in Hr. apply H1. apply in_map_iff. exists y. split; auto. congruence.
    + auto.
Qed.
Lemma ffind_isc_unique l c x : NoDup (map c_id l) -> In x l -> isc c x = true -> ffind (isc c) l = Some x.
Proof.
  induction l as [|a t IH]; simpl; [tauto|]. intros Hn [<-|Hi] Hr.
  - now rewrite Hr.
  - inversion Hn; subst. destruct (isc c a) eqn:E.
    + exfalso. apply isc_id in E. apply isc_id in Hr. apply H1. apply in_map_iff. exists x. split; auto. congruence.
    + auto.
Qed.
Lemma abandon_conn c y : r_conn (abandon c y) = r_conn y.
Proof. unfold abandon. destruct (_ && _); reflexivity. Qed.

Lemma step_conn cfg s l s' : inv cfg s -> step cfg s l = Some s' -> Forall (conn_ok s') (rpcs s').
Proof.
  intros I H. pose proof (i_conn _ _ I) as IS. pose proof (i_nodup_r _ _ I) as ND. rewrite Forall_forall in *.
  setoid_rewrite conn_ok_l in IS. setoid_rewrite conn_ok_l.
  destruct l; step_inv H; simpl in *; intros y' Hin.
  all: try (apply IS; assumption).
  all: try (apply okl_app; apply IS; assumption).
  all: try (apply in_fupd in Hin; destruct Hin as [Hin|(y0 & Hin & Hp & ->)]).
  all: try (apply in_app_iff in Hin; destruct Hin as [Hin|[<-|[]]]).
  all: try (apply in_map_iff in Hin; destruct Hin as (y0 & <- & Hin)).
  all: try (apply okl_fupd; [| intros; reflexivity | intros x0 Hx0 Hrun Hc Hl; simpl; try congruence ]).
  all: try (apply okl_abandon).
  all: try (apply IS; assumption).
  all: try (apply okl_rst_out; [apply IS; assumption | reflexivity]).
  - exists c0. simpl. split; auto. discriminate.
  - rewrite (ffind_isr_unique _ _ _ ND Hin Hp) in E0. injection E0 as ->.
    match goal with Hc : r_conn _ = c |- _ => eapply okl_rst_in; [rewrite Hc; eassumption|assumption] end.
  - rewrite (ffind_isr_unique _ _ _ ND Hin Hp) in E0. injection E0 as ->.
    match goal with Hc : r_conn _ = c |- _ => eapply okl_rst_in; [rewrite Hc; eassumption|assumption] end.
  - exfalso. rewrite abandon_conn in Hc.
    match goal with Hz0 : count (on_conn c is_held) _ = 0 |- _ => pose proof (count_zero_in _ _ _ Hz0 Hin) as Hz end.
    unfold on_conn in Hz. rewrite Hc, N.eqb_refl in Hz. simpl in Hz.
    rewrite (abandon_not_in_loop _ _ Hc Hz) in Hl. discriminate.
Qed.

Lemma inv_step cfg s l s' : inv cfg s -> step cfg s l = Some s' -> inv cfg s'.
Proof.
  intros I H. constructor.
  - eapply step_nodup_c; eauto.
  - eapply step_nodup_r; eauto.
  - eapply step_conn; eauto.
  - eapply step_slots; eauto.
  - eapply step_slots_le; eauto.
  - eapply step_sub; eauto.
  - eapply step_sub_le; eauto.
  - eapply step_tg; eauto.
Qed.

Lemma inv_init cfg : inv cfg init.
Proof.
  constructor; simpl; try constructor; try discriminate; intros; try lia.
  - destruct (subnet_on cfg); reflexivity.
  - pose proof H as H'. unfold subnet_on in H'. apply Z.ltb_lt in H'. lia.
Qed.

Lemma inv_run cfg tr : forall s s', inv cfg s -> run cfg s tr = Some s' -> inv cfg s'.
Proof.
  induction tr as [|l t IH]; simpl; intros s s' I H.
  - now injection H as <-.
  - destruct (step cfg s l) eqn:E; [|discriminate]. eapply IH; [|eassumption]. eapply inv_step; eauto.
Qed.

(* ------------------------------------------------------------------ *)

Lemma count_le {A} (Q Q' : A -> bool) l : (forall x, Q x = true -> Q' x = true) -> count Q l <= count Q' l.
Proof.
  intros H. unfold count. induction l; simpl; auto.
  specialize (H a). destruct (Q a), (Q' a); simpl; try lia; specialize (H eq_refl); discriminate.
Qed.

Lemma count_pos_in {A} (Q : A -> bool) l x : In x l -> Q x = true -> 0 < count Q l.
Proof.
  unfold count. induction l; simpl; [tauto|]. intros [<-|Hi] Hq.
  - rewrite Hq. simpl. lia.
  - specialize (IHl Hi Hq). lia.
Qed.

Definition reachable cfg s := exists tr, run cfg init tr = Some s.
Lemma reachable_inv cfg s : reachable cfg s -> inv cfg s.
Proof. intros (tr & H). eapply inv_run; [apply inv_init|eassumption]. Qed.

(** T1 *)
Theorem peer_limit cfg tr s c : run cfg init tr = Some s -> handlers_on_conn s c <= max_rpc cfg.
Proof.
  intros H. assert (I : inv cfg s) by (apply reachable_inv; eexists; eauto).
  unfold handlers_on_conn. destruct (ffind (isc c) (conns s)) eqn:F.
  - rewrite <- (i_slots_le _ _ I _ _ F), (i_slots _ _ I _ _ F).
    apply count_le. intros y. unfold on_conn. destruct (N.eqb (r_conn y) c); simpl; auto.
    destruct (r_st y); simpl; auto.
  - rewrite (fresh_conn_count _ _ _ (i_conn _ _ I) F). lia.
Qed.

(** T2 *)
Theorem subnet_limit cfg tr s : run cfg init tr = Some s ->
  ((0 < max_subnet cfg)%Z -> forall k, (Z.of_nat (handlers_on_subnet s k) <= max_subnet cfg)%Z) /\
  ((max_subnet cfg <= 0)%Z -> forall s0 c r, step cfg s0 (LSubDrop c r) = None).
Proof.
  intros H. assert (I : inv cfg s) by (apply reachable_inv; eexists; eauto). split.
  - intros Hpos k. assert (Hon : subnet_on cfg = true) by (apply Z.ltb_lt; auto).
    pose proof (i_sub_le _ _ I Hon k) as Hle. rewrite (i_sub _ _ I), Hon in Hle. exact Hle.
  - intros Hle s0 c r. unfold step.
    assert (Hoff : subnet_on cfg = false) by (apply Z.ltb_ge; auto). rewrite Hoff.
    destruct (ffind (isc c) (conns s0)); auto. destruct (ffind (isr r) (rpcs s0)); auto.
    now rewrite !andb_false_r.
Qed.

(** T3 *)
Theorem slots_returned cfg tr s : run cfg init tr = Some s ->
  (forall c x, ffind (isc c) (conns s) = Some x -> c_slots x = count (on_conn c holds_peer) (rpcs s)) /\
  (forall k, subcnt s k = if subnet_on cfg then count (on_sub k holds_sub) (rpcs s) else 0).
Proof.
  intros H. assert (I : inv cfg s) by (apply reachable_inv; eexists; eauto).
  split; [apply (i_slots _ _ I)|apply (i_sub _ _ I)].
Qed.

(* ------------------------------------------------------------------ *)

Definition statusl (l : list rpc) (r : N) : option rstatus := option_map r_st (ffind (isr r) l).
Lemma status_of_l s r : status_of s r = statusl (rpcs s) r.
Proof. reflexivity. Qed.

Lemma statusl_fupd l r r0 st :
  statusl (fupd (isr r0) (set_rst st) l) r =
  if N.eqb r r0 then option_map (fun _ => st) (statusl l r) else statusl l r.
Proof.
  unfold statusl. rewrite ffind_isr_fupd by reflexivity.
  destruct (N.eqb r r0); auto. destruct (ffind (isr r) l); reflexivity.
Qed.

Lemma statusl_app l n r :
  statusl (l ++ [n]) r = match statusl l r with Some st => Some st | None => if isr r n then Some (r_st n) else None end.
Proof.
  unfold statusl. rewrite ffind_app. destruct (ffind (isr r) l); simpl; auto. destruct (isr r n); auto.
Qed.

Lemma statusl_abandon l c r :
  statusl (map (abandon c) l) r = option_map (fun y => r_st (abandon c y)) (ffind (isr r) l).
Proof.
  unfold statusl. rewrite ffind_map.
  - destruct (ffind (isr r) l); reflexivity.
  - intros x. unfold isr. now rewrite abandon_id.
Qed.

Ltac norm_status :=
  rewrite ?status_of_l in *; simpl rpcs in *;
  rewrite ?statusl_fupd, ?statusl_app, ?statusl_abandon in *.

(** (1) no request ever vanishes from the books *)
Lemma bp_no_vanish cfg s l s' r st :
  step cfg s l = Some s' -> status_of s r = Some st -> exists st', status_of s' r = Some st'.
Proof.
  intros H Hs. destruct l; step_inv H; norm_status; eauto.
  all: try (destruct (N.eqb r _); rewrite ?Hs; simpl; eauto).
  - rewrite Hs. eauto.
  - unfold statusl in Hs. destruct (ffind (isr r) (rpcs s)); simpl in *; eauto; discriminate.
Qed.

(** (2) blocked on the per-peer slot: stays blocked, gets the slot, or the loop exits on Stop *)
Lemma bp_waiting cfg s l s' r :
  step cfg s l = Some s' -> status_of s r = Some Waiting ->
  status_of s' r = Some Waiting \/
  (exists c, l = LAcquire c r /\ status_of s' r = Some Held) \/
  (exists c, l = LLoopExit c /\ stopped s = true /\ status_of s' r = Some Abandoned).
Proof.
  intros H Hs. destruct l; step_inv H; norm_status; auto.
  all: try (match goal with |- context [N.eqb ?r1 ?r0] => destruct (N.eqb r1 r0) eqn:Er; [apply N.eqb_eq in Er; subst|]; auto end).
  all: try (unfold statusl in Hs; match goal with E : ffind (isr _) _ = Some _ |- _ => rewrite E in Hs end; simpl in Hs; congruence).
  - rewrite Hs. auto.
  - right. left. eexists. split; eauto. rewrite Hs. reflexivity.
  - (* LLoopExit *)
    unfold statusl in Hs. destruct (ffind (isr r) (rpcs s)) as [y|] eqn:F; [|discriminate]. simpl in Hs. injection Hs as Hs.
    simpl. unfold abandon. destruct (N.eqb (r_conn y) c) eqn:Ec; simpl; [|left; congruence].
    rewrite Hs. simpl.
    right. right. exists c. split; auto. split; auto.
    match goal with Hc : (if count (on_conn c is_waiting) _ =? 0 then _ else _) = true |- _ =>
      destruct (count (on_conn c is_waiting) (rpcs s) =? 0) eqn:Ez; auto end.
    exfalso. apply Nat.eqb_eq in Ez. apply ffind_some in F. destruct F as [Fi _].
    pose proof (count_zero_in _ _ _ Ez Fi) as Hz. unfold on_conn in Hz. rewrite Ec, Hs in Hz. discriminate.
Qed.

(** (3) the only way a request is discarded while its loop runs: the subnet is over budget *)
Lemma bp_dropped cfg s l s' r :
  step cfg s l = Some s' -> status_of s r <> Some Dropped -> status_of s' r = Some Dropped ->
  exists c y, l = LSubDrop c r /\ ffind (isr r) (rpcs s) = Some y /\ r_st y = Held /\
              (0 < max_subnet cfg <= Z.of_nat (subcnt s (r_sub y)))%Z.
Proof.
  intros H Hs Hd. destruct l; step_inv H; norm_status; try contradiction.
  all: try (match goal with H : context [N.eqb ?r1 ?r0] |- _ => destruct (N.eqb r1 r0) eqn:Er; [apply N.eqb_eq in Er; subst|]; try contradiction end).
  all: try (match type of Hd with context [statusl ?l0 ?r1] => destruct (statusl l0 r1) end; simpl in Hd; try contradiction; discriminate).
  - destruct (statusl (rpcs s) r); [congruence|]. destruct (isr _ _); simpl in Hd; discriminate.
  - exists (r_conn r1), r1. repeat split; auto. unfold subnet_on in *. split_bools. assumption.
  - exfalso. unfold statusl in Hs. destruct (ffind (isr r) (rpcs s)) as [y|]; simpl in *; [|discriminate].
    unfold abandon in Hd. destruct (_ && _) in Hd; simpl in Hd; congruence.
Qed.

(** (4) a request is abandoned only when its loop returns, i.e. on Stop or a connection error *)
Lemma bp_abandoned cfg s l s' r :
  step cfg s l = Some s' -> status_of s r <> Some Abandoned -> status_of s' r = Some Abandoned ->
  exists c x, l = LLoopExit c /\ ffind (isc c) (conns s) = Some x /\ (stopped s = true \/ c_err x = true).
Proof.
  intros H Hs Hd. destruct l; step_inv H; norm_status; try contradiction.
  all: try (match goal with H : context [N.eqb ?r1 ?r0] |- _ => destruct (N.eqb r1 r0) eqn:Er; [apply N.eqb_eq in Er; subst|]; try contradiction end).
  all: try (match type of Hd with context [statusl ?l0 ?r1] => destruct (statusl l0 r1) end; simpl in Hd; try contradiction; discriminate).
  - destruct (statusl (rpcs s) r); [congruence|]. destruct (isr _ _); simpl in Hd; discriminate.
  - exists c, c0. repeat split; auto.
    match goal with Hc : (if ?b then _ else _) = true |- _ => destruct b; auto end.
Qed.

(** (5) once the channel has room the blocked request gets the slot: the step is enabled *)
Lemma bp_served cfg s r y x :
  inv cfg s -> ffind (isr r) (rpcs s) = Some y -> r_st y = Waiting ->
  ffind (isc (r_conn y)) (conns s) = Some x -> c_slots x < max_rpc cfg ->
  exists s', step cfg s (LAcquire (r_conn y) r) = Some s' /\ status_of s' r = Some Held.
Proof.
  intros I Fy Hw Fx Hlt. pose proof (i_conn _ _ I) as IC. rewrite Forall_forall in IC.
  destruct (ffind_some _ _ _ Fy) as [Hin _]. destruct (IC _ Hin) as (x' & Fx' & Hrun).
  rewrite Fx in Fx'. injection Fx' as <-. rewrite Hw in Hrun. specialize (Hrun eq_refl).
  unfold step. rewrite Fx, Fy, Hrun, Hw, N.eqb_refl. simpl.
  apply Nat.ltb_lt in Hlt. rewrite Hlt. eexists. split; [reflexivity|].
  norm_status. rewrite N.eqb_refl. unfold statusl. rewrite Fy. reflexivity.
Qed.

(* ------------------------------------------------------------------ *)

(** (a) Stop returns only when nothing is left in the group *)
Lemma stop_return_empty cfg tr s s' :
  run cfg init tr = Some s -> step cfg s LStopReturn = Some s' ->
  s' = s /\ stopped s = true /\ running_loops s = 0 /\ running_handlers s = 0 /\ tg_extra s = 0.
Proof.
  intros H Hs. assert (I : inv cfg s) by (apply reachable_inv; eexists; eauto).
  step_inv Hs. pose proof (i_tg _ _ I) as T. unfold running_loops, running_handlers.
  repeat split; auto; lia.
Qed.

(** (b) nothing joins after Stop, and Stop is permanent *)
Lemma add_after_stop_fails cfg s : stopped s = true ->
  step cfg s (LTgAdd true) = None /\
  (forall r, step cfg s (LHStart r true) = None) /\
  (forall c, step cfg s (LLoopStart c true) = None) /\
  (forall c k inb, step cfg s (LAllow c k inb true) = None) /\
  (forall c k inb, step cfg s (LConnAtomic c k inb true) = None).
Proof.
  intros Hs. unfold step. rewrite Hs. simpl. repeat split; auto; intros.
  - destruct (ffind _ _); auto. destruct (r_st _); auto.
  - destruct (ffind _ _); auto. destruct (c_st _); auto.
  - destruct (ffind _ _); auto. destruct (_ && _); auto.
  - destruct (ffind _ _); auto. destruct (_ && _); auto.
Qed.

Lemma stopped_stays cfg s l s' : step cfg s l = Some s' -> stopped s = true -> stopped s' = true.
Proof. intros H Hs. destruct l; step_inv H; simpl; auto. Qed.

(** (c) progress: a measure of what still holds the group *)
Definition mu_r (y : rpc) : nat := match r_st y with Running | Held => 1 | _ => 0 end.
Definition mu_c (x : conn) : nat := match c_st x with CRun => if c_err x then 1 else 2 | _ => 0 end.
Definition mu (s : state) : nat := tg_extra s + sum mu_c (conns s) + sum mu_r (rpcs s).

Lemma abandon_mu c y : mu_r (abandon c y) = mu_r y.
Proof.
  unfold abandon. destruct (N.eqb (r_conn y) c && _) eqn:E; auto.
  apply andb_prop in E. destruct E as [_ E]. unfold mu_r. destruct (r_st y); simpl in *; auto; discriminate.
Qed.

Lemma sum_le_count {A} (w : A -> nat) (Q : A -> bool) l :
  (forall x, Q x = true -> 1 <= w x) -> count Q l <= sum w l.
Proof.
  intros H. unfold count. induction l; simpl; auto. specialize (H a).
  destruct (Q a); simpl; [specialize (H eq_refl)|]; lia.
Qed.

Ltac pose_sums :=
  repeat match goal with
  | |- context [sum ?w (fupd ?P ?f ?l)] =>
    match goal with
    | E : ffind P l = Some ?y |- _ =>
      let HC := fresh "HS" in let n := fresh "m" in
      pose proof (sum_fupd P f w l y E) as HC;
      set (n := sum w (fupd P f l)) in *; clearbody n
    end
  end.

Lemma progress cfg s : inv cfg s -> stopped s = true -> 0 < mu s ->
  exists l s', step cfg s l = Some s' /\ mu s' < mu s.
Proof.
  intros I Hst Hmu. pose proof (i_tg _ _ I) as T.
  destruct (tg_extra s) as [|e] eqn:Ee.
  2:{ exists LTgDone. unfold step. rewrite Ee. destruct (tg_count s) eqn:Et; [lia|].
      eexists. split; [reflexivity|]. unfold mu. simpl. rewrite Ee. lia. }
  destruct (sum mu_r (rpcs s)) as [|m] eqn:Er.
  - (* only loops are left *)
    assert (Hc : 0 < sum mu_c (conns s)) by (unfold mu in Hmu; lia).
    apply sum_pos in Hc. destruct Hc as (x & Hin & Hx).
    assert (Hrun : c_st x = CRun) by (unfold mu_c in Hx; destruct (c_st x); auto; lia).
    assert (Fx : ffind (isc (c_id x)) (conns s) = Some x)
      by (apply ffind_isc_unique; [apply (i_nodup_c _ _ I)|auto|unfold isc; apply N.eqb_refl]).
    assert (Hheld : count (on_conn (c_id x) is_held) (rpcs s) = 0).
    { destruct (count (on_conn (c_id x) is_held) (rpcs s)) eqn:Ec; auto. exfalso.
      assert (Hp : 0 < sum (fun y => b2n (on_conn (c_id x) is_held y)) (rpcs s)) by (unfold count in Ec; lia).
      apply sum_pos in Hp. destruct Hp as (y & Hy & Hq).
      pose proof (sum_zero _ _ _ Er Hy) as Hz. unfold on_conn in Hq. unfold mu_r in Hz.
      destruct (r_st y); simpl in *; rewrite ?andb_false_r in Hq; simpl in Hq; try lia. }
    assert (Htg : 0 < tg_count s).
    { pose proof (count_pos_in (fun x => is_run (c_st x)) _ _ Hin) as Hp. simpl in Hp. rewrite Hrun in Hp. specialize (Hp eq_refl). lia. }
    assert (Hexit : forall b, b = true ->
              (if count (on_conn (c_id x) is_waiting) (rpcs s) =? 0 then c_err x else stopped s) = b ->
              exists l s', step cfg s l = Some s' /\ mu s' < mu s).
    { intros b -> Hb. exists (LLoopExit (c_id x)). unfold step. rewrite Fx, Hrun, Hheld, Hb. simpl.
      destruct (tg_count s) eqn:Et; [lia|]. eexists. split; [reflexivity|].
      unfold mu. simpl. rewrite (sum_map mu_r) by apply abandon_mu.
      pose_sums. change (mu_c (set_cst CExiting x)) with 0 in HS. lia. }
    destruct (count (on_conn (c_id x) is_waiting) (rpcs s) =? 0) eqn:Ew.
    + destruct (c_err x) eqn:Eerr.
      * apply (Hexit true); auto. 
      * exists (LPeerErr (c_id x)). unfold step. rewrite Fx, Hrun. eexists. split; [reflexivity|].
        unfold mu. simpl. pose_sums.
        assert (V1 : mu_c (set_cerr x) = 1) by (unfold mu_c; simpl; rewrite Hrun; reflexivity).
        assert (V2 : mu_c x = 2) by (unfold mu_c; rewrite Hrun, Eerr; reflexivity). lia.
    + apply (Hexit true); auto.
  - (* a handler is running, or a loop sits between its two slot operations *)
    assert (Hp : 0 < sum mu_r (rpcs s)) by lia.
    apply sum_pos in Hp. destruct Hp as (y & Hin & Hy).
    assert (Fy : ffind (isr (r_id y)) (rpcs s) = Some y)
      by (apply ffind_isr_unique; [apply (i_nodup_r _ _ I)|auto|unfold isr; apply N.eqb_refl]).
    unfold mu_r in Hy. destruct (r_st y) eqn:Est; try lia.
    + (* Held *)
      pose proof (i_conn _ _ I) as IC. rewrite Forall_forall in IC. destruct (IC _ Hin) as (x & Fx & Hrun).
      rewrite Est in Hrun. specialize (Hrun eq_refl).
      destruct (subnet_on cfg) eqn:Eon.
      * destruct (Z.of_nat (subcnt s (r_sub y)) <? max_subnet cfg)%Z eqn:Elt.
        -- exists (LSubOk (r_conn y) (r_id y)). unfold step. rewrite Fx, Fy, Hrun, Est, N.eqb_refl, Eon, Elt. simpl.
           eexists. split; [reflexivity|]. unfold mu. simpl. pose_sums. assert (V2 : mu_r y = 1) by (unfold mu_r; rewrite Est; reflexivity). unfold mu_r at 3 in HS. simpl in HS. lia.
        -- exists (LSubDrop (r_conn y) (r_id y)). unfold step. rewrite Fx, Fy, Hrun, Est, N.eqb_refl, Eon. simpl.
           apply Z.ltb_ge in Elt. apply Z.leb_le in Elt. rewrite Elt.
           pose proof (i_slots _ _ I _ _ Fx) as Hs.
           assert (Hpos : 0 < count (on_conn (r_conn y) holds_peer) (rpcs s)).
           { eapply count_pos_in; eauto. unfold on_conn. rewrite N.eqb_refl, Est. reflexivity. }
           destruct (c_slots x) eqn:Esl; [lia|].
           eexists. split; [reflexivity|]. unfold mu. simpl. pose_sums.
           assert (V2 : mu_r y = 1) by (unfold mu_r; rewrite Est; reflexivity).
           change (mu_r (set_rst Dropped y)) with 0 in *. change (mu_c (set_slots n x)) with (mu_c x) in *. lia.
      * exists (LSubOk (r_conn y) (r_id y)). unfold step. rewrite Fx, Fy, Hrun, Est, N.eqb_refl, Eon. simpl.
        eexists. split; [reflexivity|]. unfold mu. simpl. pose_sums. assert (V2 : mu_r y = 1) by (unfold mu_r; rewrite Est; reflexivity). unfold mu_r at 3 in HS. simpl in HS. lia.
    + (* Running *)
      exists (LHDone (r_id y)). unfold step. rewrite Fy, Est.
      assert (Htg : 0 < tg_count s).
      { pose proof (count_pos_in (fun y => is_running (r_st y)) _ _ Hin) as Hp. simpl in Hp. rewrite Est in Hp. specialize (Hp eq_refl). lia. }
      destruct (tg_count s) eqn:Et; [lia|]. eexists. split; [reflexivity|].
      unfold mu. simpl. pose_sums. assert (V2 : mu_r y = 1) by (unfold mu_r; rewrite Est; reflexivity). unfold mu_r at 3 in HS. simpl in HS. lia.
Qed.

Lemma run_app cfg tr1 : forall s s1 tr2, run cfg s tr1 = Some s1 -> run cfg s (tr1 ++ tr2) = run cfg s1 tr2.
Proof.
  induction tr1 as [|l t IH]; simpl; intros s s1 tr2 H.
  - now injection H as <-.
  - destruct (step cfg s l); [|discriminate]. eauto.
Qed.

Lemma drain_stopped cfg n : forall s, mu s <= n -> inv cfg s -> stopped s = true ->
  exists tr s', run cfg s tr = Some s' /\ mu s' = 0 /\ stopped s' = true /\ inv cfg s'.
Proof.
  induction n as [|n IH]; intros s Hn I Hs.
  - exists [], s. simpl. split; [reflexivity|]. split; [lia|]. split; auto.
  - destruct (mu s) eqn:Em.
    + exists [], s. simpl. auto.
    + destruct (progress cfg s I Hs) as (l & s1 & Hstep & Hlt); [lia|].
      destruct (IH s1) as (tr & s' & Hrun & Hz & Hst & I'); [lia|eapply inv_step; eauto|eapply stopped_stays; eauto|].
      exists (l :: tr), s'. simpl. rewrite Hstep. auto.
Qed.

Lemma mu_zero_stop cfg s : inv cfg s -> stopped s = true -> mu s = 0 -> step cfg s LStopReturn = Some s.
Proof.
  intros I Hs Hm. unfold step. rewrite Hs. simpl.
  pose proof (i_tg _ _ I) as T. unfold mu in Hm.
  assert (C1 : count (fun x => is_run (c_st x)) (conns s) <= sum mu_c (conns s)).
  { apply sum_le_count. intros x Hx. unfold mu_c. destruct (c_st x); try discriminate. destruct (c_err x); lia. }
  assert (C2 : count (fun y => is_running (r_st y)) (rpcs s) <= sum mu_r (rpcs s)).
  { apply sum_le_count. intros y Hy. unfold mu_r. destruct (r_st y); try discriminate. lia. }
  assert (Z : tg_count s = 0) by lia. now rewrite Z.
Qed.

(** from every reachable state Stop can complete: no deadlock in the model *)
Theorem stop_can_complete cfg tr s : run cfg init tr = Some s ->
  exists tr' s', run cfg s tr' = Some s' /\ step cfg s' LStopReturn = Some s'.
Proof.
  intros H. assert (I : inv cfg s) by (apply reachable_inv; eexists; eauto).
  assert (Hb : step cfg s LStopBegin = Some (with_stopped s)) by reflexivity.
  assert (I1 : inv cfg (with_stopped s)) by (eapply inv_step; eauto).
  destruct (drain_stopped cfg (mu (with_stopped s)) (with_stopped s)) as (t & s' & Hr & Hz & Hst & I');
    [lia|exact I1|reflexivity|].
  exists (LStopBegin :: t), s'. simpl. split; auto. apply (mu_zero_stop cfg); auto.
Qed.

(* ------------------------------------------------------------------ *)

Definition in_cap cfg s := (Z.of_nat (dir_count true s) <= Z.max 0 (max_in cfg))%Z.
Definition out_inv cfg s :=
  count (dir_pend false) (conns s) <= 1 /\
  (count (dir_pend false) (conns s) = 1 -> (Z.of_nat (dir_count false s) < max_out cfg)%Z) /\
  (Z.of_nat (dir_count false s) <= Z.max 0 (max_out cfg))%Z.
Definition is_add (l : label) : bool := match l with LAdd _ _ => true | _ => false end.

Ltac simp_dir :=
  unfold dir_member, dir_pend, set_cst, set_cerr, set_slots in *; simpl in *;
  repeat match goal with
  | H : c_st ?y = _ |- _ => rewrite H in *
  end; simpl in *; rewrite ?andb_false_r, ?andb_true_r in *; simpl in *.

Lemma in_cap_step cfg s l s' :
  in_cap cfg s -> step cfg s l = Some s' -> (recheck cfg = true \/ is_add l = false) -> in_cap cfg s'.
Proof.
  unfold in_cap, dir_count. intros C H Hr.
  destruct l; step_inv H; simpl in *; auto.
  all: pose_counts; rewrite ?count_app; unfold max_dir, dir_count, count in *; simpl in *.
  all: simp_dir.
  all: try (destruct (c_inb c0); simpl in *; lia).
  all: try (destruct inb; simpl in *; split_bools; simpl in *; lia).
  all: try (destruct Hr as [Hr|Hr]; [|discriminate]; rewrite Hr in *; destruct (c_inb c0); simpl in *;
            try (symmetry in E1; apply Z.ltb_lt in E1); lia).
  all: lia.
Qed.

Lemma out_step cfg s l s' : out_inv cfg s -> step cfg s l = Some s' -> out_inv cfg s'.
Proof.
  unfold out_inv, dir_count. intros (C1 & C2 & C3) H.
  destruct l; step_inv H; simpl in *; auto.
  all: pose_counts; rewrite ?count_app; unfold max_dir, dir_count, count in *; simpl in *.
  all: simp_dir.
  all: try (destruct (c_inb c0); simpl in *; lia).
  all: try (destruct inb; simpl in *; split_bools; simpl in *; lia).
  all: lia.
Qed.

Lemma caps_init cfg : in_cap cfg init /\ out_inv cfg init.
Proof. unfold in_cap, out_inv, dir_count, count; simpl. lia. Qed.

Lemma caps_run cfg tr : forall s s',
  in_cap cfg s -> out_inv cfg s -> (recheck cfg = true \/ forallb (fun l => negb (is_add l)) tr = true) ->
  run cfg s tr = Some s' -> in_cap cfg s' /\ out_inv cfg s'.
Proof.
  induction tr as [|l t IH]; simpl; intros s s' Ci Co Hr H.
  - injection H as <-. auto.
  - destruct (step cfg s l) eqn:E; [|discriminate].
    eapply IH; [| |  |eassumption].
    + eapply in_cap_step; eauto. destruct Hr as [Hr|Hr]; auto. right.
      apply andb_prop in Hr. destruct Hr as [Hr _]. now apply negb_true_iff in Hr.
    + eapply out_step; eauto.
    + destruct Hr as [Hr|Hr]; auto. right. apply andb_prop in Hr. apply Hr.
Qed.

(** the caps of the repaired code (addPeer compares again under the lock) *)
Theorem peer_caps cfg tr s : recheck cfg = true -> run cfg init tr = Some s ->
  (Z.of_nat (dir_count true s) <= Z.max 0 (max_in cfg))%Z /\
  (Z.of_nat (dir_count false s) <= Z.max 0 (max_out cfg))%Z.
Proof.
  intros Hr H. destruct (caps_init cfg) as [Ci Co].
  destruct (caps_run cfg tr init s Ci Co (or_introl Hr) H) as [C1 (_ & _ & C2)]. auto.
Qed.

(** check-and-insert as one step: the caps hold whatever addPeer does *)
Theorem peer_caps_atomic cfg tr s : forallb (fun l => negb (two_step l)) tr = true -> run cfg init tr = Some s ->
  (Z.of_nat (dir_count true s) <= Z.max 0 (max_in cfg))%Z /\
  (Z.of_nat (dir_count false s) <= Z.max 0 (max_out cfg))%Z.
Proof.
  intros Ha H. destruct (caps_init cfg) as [Ci Co].
  assert (Hb : forallb (fun l => negb (is_add l)) tr = true).
  { clear H. induction tr as [|l t IH]; simpl in *; auto. apply andb_prop in Ha. destruct Ha as [Hl Ht].
    rewrite IH by auto. destruct l; simpl in *; auto. }
  destruct (caps_run cfg tr init s Ci Co (or_intror Hb) H) as [C1 (_ & _ & C2)]. auto.
Qed.

(** the code before the repair: two simultaneous inbound connections both pass allowConnect
    while the peer set is still empty, then both are inserted *)
Definition cfg_f12 : config := mk_config 1 0 1 1 false.
Definition trace_f12 : list label :=
  [LAllow 1 0 true true; LAllow 2 0 true true; LAdd 1 true; LAdd 2 true].
Theorem peer_caps_refuted :
  exists cfg tr s, recheck cfg = false /\ run cfg init tr = Some s /\
    (Z.of_nat (dir_count true s) > Z.max 0 (max_in cfg))%Z.
Proof.
  exists cfg_f12, trace_f12.
  destruct (run cfg_f12 init trace_f12) as [s|] eqn:E; [|vm_compute in E; discriminate].
  exists s. split; [reflexivity|]. split; [reflexivity|].
  vm_compute in E. injection E as <-. vm_compute. reflexivity.
Qed.

(* ------------------------------------------------------------------ *)
(** * Examples: the hypotheses of the theorems are met by non-trivial states *)

(** per-peer limit 1, per-subnet limit 1, two inbound peers on the same subnet 7 *)
Definition ex_cfg : config := mk_config 1 1 2 1 true.
Definition ex_full : list label :=
  [LAllow 1 7 true true; LAdd 1 true; LLoopStart 1 true;
   LSend 1 10; LSend 1 11; LAccept 1 10; LAcquire 1 10; LSubOk 1 10; LHStart 10 true; LAccept 1 11].

(** request 10 is being served, request 11 is blocked on the full per-peer channel: the limit is
    tight, the blocked request is neither admitted nor dropped *)
Example ex_backpressure :
  exists s, run ex_cfg init ex_full = Some s /\
    handlers_on_conn s 1 = max_rpc ex_cfg /\ status_of s 11 = Some Waiting /\
    step ex_cfg s (LAcquire 1 11) = None /\ step ex_cfg s (LSubDrop 1 11) = None /\ step ex_cfg s LQuiet = Some s.
Proof. eexists. split; [vm_compute; reflexivity|]. vm_compute. repeat split. Qed.

(** ... and is admitted as soon as the handler has returned its slots *)
Example ex_served_after_release :
  exists s, run ex_cfg init (ex_full ++ [LHDone 10; LRelSub 10; LRelPeer 10; LAcquire 1 11; LSubOk 1 11; LHStart 11 true]) = Some s /\
    status_of s 10 = Some Ended /\ status_of s 11 = Some Running /\
    (forall x, conn_of s 1 = Some x -> c_slots x = 1) /\ subcnt s 7 = 1.
Proof.
  eexists. split; [vm_compute; reflexivity|]. vm_compute. repeat split.
  intros x H. injection H as <-. reflexivity.
Qed.

(** a second peer of the same subnet is over the subnet budget: dropped, slot returned at once *)
Example ex_subnet_drop :
  exists s s', run ex_cfg init (ex_full ++ [LAllow 2 7 true true; LAdd 2 true; LLoopStart 2 true; LSend 2 20; LAccept 2 20; LAcquire 2 20]) = Some s /\
    step ex_cfg s (LSubOk 2 20) = None /\ step ex_cfg s (LSubDrop 2 20) = Some s' /\
    status_of s' 20 = Some Dropped /\ (forall x, conn_of s' 2 = Some x -> c_slots x = 0) /\
    handlers_on_subnet s' 7 = 1.
Proof.
  eexists. eexists. split; [vm_compute; reflexivity|]. vm_compute. repeat split.
  intros x H. injection H as <-. reflexivity.
Qed.

(** with the subnet limit disabled (0 or negative) the same request is admitted *)
Example ex_subnet_disabled :
  forall lim, In lim [0%Z; (-1)%Z] ->
  accepts (mk_config 1 lim 2 1 true) init
    (ex_full ++ [LAllow 2 7 true true; LAdd 2 true; LLoopStart 2 true; LSend 2 20; LAccept 2 20; LAcquire 2 20; LSubOk 2 20]) = true.
Proof. intros lim [<-|[<-|[]]]; vm_compute; reflexivity. Qed.

(** Stop while a handler runs and a request is blocked: Stop cannot return, Add fails, the loop
    leaves through the tg.Done branch, and Stop returns once the handler is done *)
Example ex_stop_waits :
  exists s s', run ex_cfg init (ex_full ++ [LStopBegin]) = Some s /\
    step ex_cfg s LStopReturn = None /\ step ex_cfg s (LTgAdd true) = None /\
    run ex_cfg s [LLoopExit 1; LHDone 10; LStopReturn; LRelSub 10; LRelPeer 10; LPeerRemove 1] = Some s' /\
    status_of s' 11 = Some Abandoned /\ inbound_peers s' = 0 /\ subcnt s' 7 = 0.
Proof. eexists. eexists. split; [vm_compute; reflexivity|]. vm_compute. repeat split. Qed.

(** the repaired addPeer refuses the second of two simultaneous connections (cap 1) *)
Example ex_recheck_refuses :
  exists s, run (mk_config 1 0 1 1 true) init
    [LAllow 1 0 true true; LAllow 2 0 true true; LAdd 1 true; LAdd 2 false] = Some s /\ inbound_peers s = 1.
Proof. eexists. split; vm_compute; reflexivity. Qed.
Example ex_recheck_needed :
  step (mk_config 1 0 1 1 true) init (LAllow 1 0 true true) <> None /\
  accepts (mk_config 1 0 1 1 true) init [LAllow 1 0 true true; LAllow 2 0 true true; LAdd 1 true; LAdd 2 true] = false.
Proof. split; [discriminate|vm_compute; reflexivity]. Qed.

(** one-step connect: the second attempt is refused at the check *)
Example ex_atomic :
  one_step_only [LConnAtomic 1 0 true true; LConnAtomic 2 0 true false] = true /\
  accepts (mk_config 1 0 1 1 false) init [LConnAtomic 1 0 true true; LConnAtomic 2 0 true false] = true.
Proof. split; vm_compute; reflexivity. Qed.

(* ------------------------------------------------------------------ *)
(** * The statements of Props/C18.v *)

Theorem backpressure_not_drop cfg tr s l s' r :
  run cfg init tr = Some s -> step cfg s l = Some s' ->
  (forall st, status_of s r = Some st -> exists st', status_of s' r = Some st') /\
  (status_of s r = Some Waiting ->
     status_of s' r = Some Waiting \/
     (exists c, l = LAcquire c r /\ status_of s' r = Some Held) \/
     (exists c, l = LLoopExit c /\ stopped s = true /\ status_of s' r = Some Abandoned)) /\
  (status_of s r <> Some Dropped -> status_of s' r = Some Dropped ->
     exists c y, l = LSubDrop c r /\ rpc_of s r = Some y /\ r_st y = Held /\
                 (0 < max_subnet cfg <= Z.of_nat (subcnt s (r_sub y)))%Z) /\
  (status_of s r <> Some Abandoned -> status_of s' r = Some Abandoned ->
     exists c x, l = LLoopExit c /\ conn_of s c = Some x /\ (stopped s = true \/ c_err x = true)) /\
  (forall y x, rpc_of s r = Some y -> r_st y = Waiting -> conn_of s (r_conn y) = Some x ->
     c_slots x < max_rpc cfg ->
     exists s2, step cfg s (LAcquire (r_conn y) r) = Some s2 /\ status_of s2 r = Some Held).
Proof.
  intros H Hs. assert (I : inv cfg s) by (apply reachable_inv; eexists; eauto).
  split; [intros st; eapply bp_no_vanish; eauto|].
  split; [eapply bp_waiting; eauto|].
  split; [eapply bp_dropped; eauto|].
  split; [eapply bp_abandoned; eauto|].
  intros y x. apply bp_served; auto.
Qed.

Theorem stop_waits cfg tr s : run cfg init tr = Some s ->
  (forall s', step cfg s LStopReturn = Some s' ->
     s' = s /\ stopped s = true /\ running_loops s = 0 /\ running_handlers s = 0 /\ tg_extra s = 0) /\
  (stopped s = true ->
     step cfg s (LTgAdd true) = None /\
     (forall r, step cfg s (LHStart r true) = None) /\
     (forall c, step cfg s (LLoopStart c true) = None) /\
     (forall c k inb, step cfg s (LAllow c k inb true) = None) /\
     (forall c k inb, step cfg s (LConnAtomic c k inb true) = None) /\
     (forall l s', step cfg s l = Some s' -> stopped s' = true)) /\
  (exists tr' s', run cfg s tr' = Some s' /\ step cfg s' LStopReturn = Some s').
Proof.
  intros H. split; [intros s'; eapply stop_return_empty; eauto|]. split.
  - intros Hs. destruct (add_after_stop_fails cfg s Hs) as (A & B & C & D & E).
    repeat (split; auto). intros l s' Hl. eapply stopped_stays; eauto.
  - eapply stop_can_complete; eauto.
Qed.
