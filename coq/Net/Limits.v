(** * Net/Limits.v — C18: limits and shutdown as a labelled transition system.

    Definitions only (no proofs).  One label = one atomic step of the Go code: a
    mutex-protected region or a single channel / WaitGroup operation.

      syncer/syncer.go (line numbers of the repaired file, fix "re-check the inbound peer limit")
        allowConnect  582-622   one region under s.mu (tg.Add, count peers, compare)
        addPeer       388-416   one region under s.mu (compare again, insert into s.peers)
        acquireInflight / releaseInflight 439-462  regions under s.inflightMu
        runPeer       464-522   tg.Add | acceptRPC | select{inflight<- , <-tg.Done}
                                | acquireInflight -> go handler / <-inflight; continue
                                | return (done(), then the deferred delete(s.peers))
        handler goroutine 505-520  tg.Add | handleRPC | done() | releaseInflight | <-inflight
      threadgroup/threadgroup.go
        Add 29-39 (fails once closed) | done = wg.Done | Stop 78-88 = close(closed) ; wg.Wait()

    "Every schedule" = every sequence of labels: [step] says which labels are enabled in a
    state, [run] folds it over a sequence.  What is *not* here: the Go scheduler, the
    network, timeouts, goroutine stacks.  Those are exercised by the harness. *)
From Coq Require Import NArith ZArith List Bool Lia.
Import ListNotations.

(** ** Configuration (syncer options) *)
Record config := mk_config {
  max_rpc    : nat;   (* WithMaxInflightRPCs: capacity of the per-connection channel *)
  max_subnet : Z;     (* WithMaxInflightRPCsPerSubnet: <= 0 disables (acquireInflight:440) *)
  max_in     : Z;     (* WithMaxInboundPeers *)
  max_out    : Z;     (* WithMaxOutboundPeers *)
  recheck    : bool   (* addPeer compares the inbound count again under s.mu
                         (false = the code before the repair, true = the repaired code) *)
}.

(** ** State *)
(** a connection: allowed and shaking hands | in s.peers, runPeer not yet in the thread
    group | loop running | loop returned, entry not yet deleted | gone *)
Inductive cstatus := CPend | CAdded | CRun | CExiting | CGone.

(** a request (one stream opened by the remote):
    Pending  sent, not yet returned by acceptRPC
    Waiting  accepted, runPeer blocked in the select on the per-peer slot
    Held     per-peer slot taken, subnet slot not yet tried
    Spawned  both slots taken, handler goroutine started, not yet in the thread group
    Running  handler in the thread group (handleRPC executing)
    Finishing  done() called (or tg.Add failed): still owns both slots
    SubReleased  releaseInflight done: still owns the per-peer slot
    Ended    <-inflight done
    Dropped  subnet over budget: slot returned, stream closed
    Abandoned  the loop returned (shutdown / connection error) before serving it *)
Inductive rstatus :=
  Pending | Waiting | Held | Spawned | Running | Finishing | SubReleased | Ended | Dropped | Abandoned.

Record conn := mk_conn {
  c_id : N; c_sub : N; c_inb : bool; c_st : cstatus;
  c_err : bool;       (* p.Err() != nil / transport closed *)
  c_slots : nat       (* len(inflight) *)
}.
Record rpc := mk_rpc { r_id : N; r_conn : N; r_sub : N; r_st : rstatus }.

Record state := mk_state {
  conns : list conn;
  rpcs : list rpc;
  subcnt : N -> nat;  (* s.inflightSubnet (absent key = 0) *)
  stopped : bool;     (* tg.closed is closed *)
  tg_count : nat;     (* the WaitGroup counter *)
  tg_extra : nat      (* of which: members that are neither a runPeer loop nor a handler
                         (Run, the accept/peer/sync loops, plain users of a ThreadGroup) *)
}.

Definition init : state := mk_state [] [] (fun _ => 0) false 0 0.

(** ** Labels *)
Inductive label :=
(* connections *)
| LAllow (c sub : N) (inb ok : bool)   (* allowConnect returned nil (ok) / an error *)
| LAdd (c : N) (ok : bool)             (* addPeer inserted the peer (ok) / refused *)
| LAbort (c : N)                       (* handshake failed between the two *)
| LConnAtomic (c sub : N) (inb ok : bool) (* idealised: check and insert in one region *)
(* runPeer *)
| LLoopStart (c : N) (ok : bool)       (* s.tg.Add() at the top of runPeer *)
| LSend (c r : N)                      (* the remote opens a stream and writes the id *)
| LAccept (c r : N)                    (* acceptRPC returns *)
| LAcquire (c r : N)                   (* inflight <- struct{}{} *)
| LSubOk (c r : N)                     (* acquireInflight = true; go handler *)
| LSubDrop (c r : N)                   (* acquireInflight = false; <-inflight; close; continue *)
| LPeerErr (c : N)                     (* transport closed: remote, p.Close(), setErr *)
| LLoopExit (c : N)                    (* return: done() *)
| LPeerRemove (c : N)                  (* deferred delete(s.peers, addr) *)
(* handler goroutine *)
| LHStart (r : N) (ok : bool)          (* s.tg.Add() in the handler *)
| LHDone (r : N)                       (* handleRPC returned; done() *)
| LRelSub (r : N)                      (* deferred releaseInflight(subnet) *)
| LRelPeer (r : N)                     (* deferred <-inflight *)
(* thread group used directly *)
| LTgAdd (ok : bool) | LTgDone | LStopBegin | LStopReturn
(* observation: nothing internal can move (used by trace validation only) *)
| LQuiet.

(** ** Lists with first-match lookup and update *)
Section First.
  Context {A : Type}.
  Fixpoint ffind (P : A -> bool) (l : list A) : option A :=
    match l with [] => None | x :: t => if P x then Some x else ffind P t end.
  Fixpoint fupd (P : A -> bool) (f : A -> A) (l : list A) : list A :=
    match l with [] => [] | x :: t => if P x then f x :: t else x :: fupd P f t end.
  Fixpoint sum (w : A -> nat) (l : list A) : nat :=
    match l with [] => 0 | x :: t => w x + sum w t end.
End First.
Definition b2n (b : bool) : nat := if b then 1 else 0.
Definition count {A} (Q : A -> bool) (l : list A) : nat := sum (fun x => b2n (Q x)) l.

Definition isc (c : N) (x : conn) : bool := N.eqb (c_id x) c.
Definition isr (r : N) (x : rpc) : bool := N.eqb (r_id x) r.

Definition set_cst (st : cstatus) (x : conn) := mk_conn (c_id x) (c_sub x) (c_inb x) st (c_err x) (c_slots x).
Definition set_cerr (x : conn) := mk_conn (c_id x) (c_sub x) (c_inb x) (c_st x) true (c_slots x).
Definition set_slots (n : nat) (x : conn) := mk_conn (c_id x) (c_sub x) (c_inb x) (c_st x) (c_err x) n.
Definition set_rst (st : rstatus) (x : rpc) := mk_rpc (r_id x) (r_conn x) (r_sub x) st.

(** ** Status classes *)
Definition member (st : cstatus) : bool :=          (* has an entry in s.peers *)
  match st with CAdded | CRun | CExiting => true | _ => false end.
Definition is_pend (st : cstatus) : bool := match st with CPend => true | _ => false end.
Definition is_run (st : cstatus) : bool := match st with CRun => true | _ => false end.
Definition can_send (st : cstatus) : bool := match st with CAdded | CRun => true | _ => false end.

Definition holds_peer (st : rstatus) : bool :=      (* owns a slot of the per-peer channel *)
  match st with Held | Spawned | Running | Finishing | SubReleased => true | _ => false end.
Definition holds_sub (st : rstatus) : bool :=       (* owns a subnet slot *)
  match st with Spawned | Running | Finishing => true | _ => false end.
Definition is_handler (st : rstatus) : bool :=      (* a handler goroutine exists *)
  match st with Spawned | Running | Finishing | SubReleased => true | _ => false end.
Definition is_running (st : rstatus) : bool := match st with Running => true | _ => false end.
Definition is_held (st : rstatus) : bool := match st with Held => true | _ => false end.
Definition is_waiting (st : rstatus) : bool := match st with Waiting => true | _ => false end.
Definition is_pending (st : rstatus) : bool := match st with Pending => true | _ => false end.
Definition in_loop (st : rstatus) : bool :=         (* occupies the runPeer loop *)
  match st with Waiting | Held => true | _ => false end.
Definition transient (st : rstatus) : bool :=       (* a goroutine step is enabled regardless of anything *)
  match st with Held | Spawned | Finishing | SubReleased => true | _ => false end.

Definition on_conn (c : N) (P : rstatus -> bool) (x : rpc) : bool := N.eqb (r_conn x) c && P (r_st x).
Definition on_sub (k : N) (P : rstatus -> bool) (x : rpc) : bool := N.eqb (r_sub x) k && P (r_st x).

(** peers of one direction, as counted by allowConnect:591-598 *)
Definition dir_member (inb : bool) (x : conn) : bool := Bool.eqb (c_inb x) inb && member (c_st x).
Definition dir_pend (inb : bool) (x : conn) : bool := Bool.eqb (c_inb x) inb && is_pend (c_st x).
Definition dir_count (inb : bool) (s : state) : nat := count (dir_member inb) (conns s).
Definition max_dir (cfg : config) (inb : bool) : Z := if inb then max_in cfg else max_out cfg.

Definition subnet_on (cfg : config) : bool := (0 <? max_subnet cfg)%Z.

Definition upd (f : N -> nat) (k : N) (v : nat) : N -> nat := fun x => if N.eqb x k then v else f x.

Definition with_conns (s : state) (l : list conn) :=
  mk_state l (rpcs s) (subcnt s) (stopped s) (tg_count s) (tg_extra s).
Definition with_rpcs (s : state) (l : list rpc) :=
  mk_state (conns s) l (subcnt s) (stopped s) (tg_count s) (tg_extra s).
Definition with_sub (s : state) (f : N -> nat) :=
  mk_state (conns s) (rpcs s) f (stopped s) (tg_count s) (tg_extra s).
Definition with_tg (s : state) (n e : nat) :=
  mk_state (conns s) (rpcs s) (subcnt s) (stopped s) n e.
Definition with_stopped (s : state) :=
  mk_state (conns s) (rpcs s) (subcnt s) true (tg_count s) (tg_extra s).

(** abandon what a returning loop leaves behind *)
Definition abandon (c : N) (x : rpc) : rpc :=
  if N.eqb (r_conn x) c && (is_pending (r_st x) || is_waiting (r_st x)) then set_rst Abandoned x else x.

(** nothing internal is enabled: every running loop is either out of work or blocked on a
    full per-peer channel, and no goroutine is between two of its steps *)
Definition conn_quiet (cfg : config) (s : state) (x : conn) : bool :=
  match c_st x with
  | CPend | CGone => true              (* the handshake is the remote's move *)
  | CAdded | CExiting => false         (* runPeer is about to start / to delete its entry *)
  | CRun =>
    negb (c_err x) &&
    ((count (on_conn (c_id x) (fun st => is_pending st || is_waiting st)) (rpcs s) =? 0)
     || (negb (stopped s) && (max_rpc cfg <=? c_slots x)))
  end.
Definition quiescent (cfg : config) (s : state) : bool :=
  forallb (conn_quiet cfg s) (conns s) && (count (fun x => transient (r_st x)) (rpcs s) =? 0).

(** ** The step function.  [None] = the label is not enabled in this state. *)
Definition step (cfg : config) (s : state) (l : label) : option state :=
  match l with
  | LAllow c sub inb ok =>
      (* allowConnect:586 tg.Add fails once stopped; :612-616 the comparison.  peerLoop
         (the only caller for outbound) is sequential: one outbound attempt at a time *)
      match ffind (isc c) (conns s) with
      | Some _ => None
      | None =>
        if negb inb && negb (count (dir_pend false) (conns s) =? 0) then None else
        let allowed := negb (stopped s) && (Z.of_nat (dir_count inb s) <? max_dir cfg inb)%Z in
        if Bool.eqb ok allowed then
          if ok then Some (with_conns s (conns s ++ [mk_conn c sub inb CPend false 0])) else Some s
        else None
      end
  | LAdd c ok =>
      (* addPeer:397-413: with [recheck] the inbound count is compared again before the insertion *)
      match ffind (isc c) (conns s) with
      | Some x =>
        if is_pend (c_st x) then
          let allowed := if recheck cfg && c_inb x
                         then (Z.of_nat (dir_count true s) <? max_in cfg)%Z else true in
          if Bool.eqb ok allowed then
            if ok then Some (with_conns s (fupd (isc c) (set_cst CAdded) (conns s)))
            else Some (with_conns s (fupd (isc c) (set_cst CGone) (conns s)))
          else None
        else None
      | None => None
      end
  | LAbort c =>
      match ffind (isc c) (conns s) with
      | Some x => if is_pend (c_st x) then Some (with_conns s (fupd (isc c) (set_cst CGone) (conns s))) else None
      | None => None
      end
  | LConnAtomic c sub inb ok =>
      match ffind (isc c) (conns s) with
      | Some _ => None
      | None =>
        if negb inb && negb (count (dir_pend false) (conns s) =? 0) then None else
        let allowed := negb (stopped s) && (Z.of_nat (dir_count inb s) <? max_dir cfg inb)%Z in
        if Bool.eqb ok allowed then
          if ok then Some (with_conns s (conns s ++ [mk_conn c sub inb CAdded false 0])) else Some s
        else None
      end
  | LLoopStart c ok =>
      (* runPeer:474-478 *)
      match ffind (isc c) (conns s) with
      | Some x =>
        match c_st x with
        | CAdded =>
          if Bool.eqb ok (negb (stopped s)) then
            if ok then Some (with_tg (with_conns s (fupd (isc c) (set_cst CRun) (conns s))) (S (tg_count s)) (tg_extra s))
            else Some (with_conns s (fupd (isc c) (set_cst CExiting) (conns s)))
          else None
        | _ => None
        end
      | None => None
      end
  | LSend c r =>
      match ffind (isc c) (conns s), ffind (isr r) (rpcs s) with
      | Some x, None =>
        if can_send (c_st x) && negb (c_err x)
        then Some (with_rpcs s (rpcs s ++ [mk_rpc r c (c_sub x) Pending])) else None
      | _, _ => None
      end
  | LAccept c r =>
      (* runPeer:483-490: p.Err() == nil, acceptRPC succeeded; the loop is sequential *)
      match ffind (isc c) (conns s), ffind (isr r) (rpcs s) with
      | Some x, Some y =>
        if is_run (c_st x) && negb (c_err x) && N.eqb (r_conn y) c && is_pending (r_st y)
           && (count (on_conn c in_loop) (rpcs s) =? 0)
        then Some (with_rpcs s (fupd (isr r) (set_rst Waiting) (rpcs s))) else None
      | _, _ => None
      end
  | LAcquire c r =>
      (* runPeer:491-492: the send succeeds iff the channel is not full *)
      match ffind (isc c) (conns s), ffind (isr r) (rpcs s) with
      | Some x, Some y =>
        if is_run (c_st x) && N.eqb (r_conn y) c && is_waiting (r_st y) && (c_slots x <? max_rpc cfg)
        then Some (with_rpcs (with_conns s (fupd (isc c) (set_slots (S (c_slots x))) (conns s)))
                             (fupd (isr r) (set_rst Held) (rpcs s)))
        else None
      | _, _ => None
      end
  | LSubOk c r =>
      (* acquireInflight:439-450 returns true; runPeer:505 go func *)
      match ffind (isc c) (conns s), ffind (isr r) (rpcs s) with
      | Some x, Some y =>
        if is_run (c_st x) && N.eqb (r_conn y) c && is_held (r_st y) then
          if subnet_on cfg then
            if (Z.of_nat (subcnt s (r_sub y)) <? max_subnet cfg)%Z then
              Some (with_sub (with_rpcs s (fupd (isr r) (set_rst Spawned) (rpcs s)))
                             (upd (subcnt s) (r_sub y) (S (subcnt s (r_sub y)))))
            else None
          else Some (with_rpcs s (fupd (isr r) (set_rst Spawned) (rpcs s)))
        else None
      | _, _ => None
      end
  | LSubDrop c r =>
      (* acquireInflight returns false; runPeer:498-503 *)
      match ffind (isc c) (conns s), ffind (isr r) (rpcs s) with
      | Some x, Some y =>
        if is_run (c_st x) && N.eqb (r_conn y) c && is_held (r_st y) && subnet_on cfg
           && (max_subnet cfg <=? Z.of_nat (subcnt s (r_sub y)))%Z then
          match c_slots x with
          | S n => Some (with_rpcs (with_conns s (fupd (isc c) (set_slots n) (conns s)))
                                   (fupd (isr r) (set_rst Dropped) (rpcs s)))
          | O => None   (* <-inflight on an empty channel blocks *)
          end
        else None
      | _, _ => None
      end
  | LPeerErr c =>
      match ffind (isc c) (conns s) with
      | Some x => match c_st x with
                  | CGone => None
                  | _ => Some (with_conns s (fupd (isc c) set_cerr (conns s)))
                  end
      | None => None
      end
  | LLoopExit c =>
      (* runPeer:484 / 488-489 (error, loop idle) or :493-494 (select took <-tg.Done()) *)
      match ffind (isc c) (conns s) with
      | Some x =>
        if is_run (c_st x) && (count (on_conn c is_held) (rpcs s) =? 0)
           && (if count (on_conn c is_waiting) (rpcs s) =? 0 then c_err x else stopped s) then
          match tg_count s with
          | S n => Some (with_tg (with_rpcs (with_conns s (fupd (isc c) (set_cst CExiting) (conns s)))
                                            (map (abandon c) (rpcs s))) n (tg_extra s))
          | O => None
          end
        else None
      | None => None
      end
  | LPeerRemove c =>
      match ffind (isc c) (conns s) with
      | Some x => match c_st x with
                  | CExiting => Some (with_conns s (fupd (isc c) (set_cst CGone) (conns s)))
                  | _ => None
                  end
      | None => None
      end
  | LHStart r ok =>
      (* handler:509-512 *)
      match ffind (isr r) (rpcs s) with
      | Some y =>
        match r_st y with
        | Spawned =>
          if Bool.eqb ok (negb (stopped s)) then
            if ok then Some (with_tg (with_rpcs s (fupd (isr r) (set_rst Running) (rpcs s))) (S (tg_count s)) (tg_extra s))
            else Some (with_rpcs s (fupd (isr r) (set_rst Finishing) (rpcs s)))
          else None
        | _ => None
        end
      | None => None
      end
  | LHDone r =>
      match ffind (isr r) (rpcs s) with
      | Some y =>
        match r_st y, tg_count s with
        | Running, S n => Some (with_tg (with_rpcs s (fupd (isr r) (set_rst Finishing) (rpcs s))) n (tg_extra s))
        | _, _ => None
        end
      | None => None
      end
  | LRelSub r =>
      (* releaseInflight:453-462: decrements without looking *)
      match ffind (isr r) (rpcs s) with
      | Some y =>
        match r_st y with
        | Finishing =>
          let s' := with_rpcs s (fupd (isr r) (set_rst SubReleased) (rpcs s)) in
          if subnet_on cfg then Some (with_sub s' (upd (subcnt s) (r_sub y) (pred (subcnt s (r_sub y))))) else Some s'
        | _ => None
        end
      | None => None
      end
  | LRelPeer r =>
      (* <-inflight: blocks on an empty channel *)
      match ffind (isr r) (rpcs s) with
      | Some y =>
        match r_st y, ffind (isc (r_conn y)) (conns s) with
        | SubReleased, Some x =>
          match c_slots x with
          | S n => Some (with_rpcs (with_conns s (fupd (isc (r_conn y)) (set_slots n) (conns s)))
                                   (fupd (isr r) (set_rst Ended) (rpcs s)))
          | O => None
          end
        | _, _ => None
        end
      | None => None
      end
  | LTgAdd ok =>
      if Bool.eqb ok (negb (stopped s)) then
        if ok then Some (with_tg s (S (tg_count s)) (S (tg_extra s))) else Some s
      else None
  | LTgDone =>
      match tg_count s, tg_extra s with
      | S n, S e => Some (with_tg s n e)
      | _, _ => None
      end
  | LStopBegin => Some (with_stopped s)
  | LStopReturn => if stopped s && (tg_count s =? 0) then Some s else None
  | LQuiet => if quiescent cfg s then Some s else None
  end.

Fixpoint run (cfg : config) (s : state) (tr : list label) : option state :=
  match tr with
  | [] => Some s
  | l :: t => match step cfg s l with Some s' => run cfg s' t | None => None end
  end.

Definition accepts (cfg : config) (s : state) (tr : list label) : bool :=
  match run cfg s tr with Some _ => true | None => false end.

(** ** Observables of a state (what the theorems and the harness talk about) *)
Definition status_of (s : state) (r : N) : option rstatus := option_map r_st (ffind (isr r) (rpcs s)).
Definition handlers_on_conn (s : state) (c : N) : nat := count (on_conn c is_handler) (rpcs s).
Definition handlers_on_subnet (s : state) (k : N) : nat := count (on_sub k holds_sub) (rpcs s).
Definition running_handlers (s : state) : nat := count (fun x => is_running (r_st x)) (rpcs s).
Definition running_loops (s : state) : nat := count (fun x => is_run (c_st x)) (conns s).
(** owners of slots: a per-peer slot is owned from [LAcquire] until [LRelPeer] / [LSubDrop]
    (the loop between its two slot operations, or a handler goroutine); a subnet slot from
    [LSubOk] until [LRelSub] *)
Definition peer_slot_owners (s : state) (c : N) : nat := count (on_conn c holds_peer) (rpcs s).
Definition subnet_slot_owners (s : state) (k : N) : nat := count (on_sub k holds_sub) (rpcs s).
Definition inbound_peers (s : state) : nat := dir_count true s.
Definition outbound_peers (s : state) : nat := dir_count false s.
Definition conn_of (s : state) (c : N) : option conn := ffind (isc c) (conns s).
Definition rpc_of (s : state) (r : N) : option rpc := ffind (isr r) (rpcs s).
(** traces that use the idealised one-step connect only / never insert in a second step *)
Definition two_step (l : label) : bool := match l with LAllow _ _ _ _ | LAdd _ _ => true | _ => false end.
Definition one_step_only (tr : list label) : bool := forallb (fun l => negb (two_step l)) tr.
