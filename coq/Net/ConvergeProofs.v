(** * Net/ConvergeProofs.v — C12: proofs about the pull model of [Net/Converge.v].

    - the attach point the syncer finds is a common ancestor, and the peer's read side
      (Headers / BlocksForHistory) answers with exactly the chain above it;
    - under *separation* (one tip [H] is sufficiently heavier than every other tip) every
      node converges to [H] within as many fair rounds as the network is wide, under every
      interleaving;
    - without separation every configuration still reaches, along edges, a configuration in
      which no tip is sufficiently heavier than a neighbour's, and from then on no tip moves;
    - the literal statement "honest nodes always converge to one tip" is refuted by two
      nodes holding sibling blocks of equal work (the 20 % rule). *)
From Coq Require Import NArith ZArith List Lia ZifyBool ZifyNat ZifyN.
From stdpp Require Import gmap.
From CV Require Import Chain.Manager Chain.ManagerProofs Net.MgrLive Net.MgrLiveProofs Net.Converge.
Import ListNotations.
Open Scope N_scope.

(** a configuration of honest nodes that never pruned, whose chains consist of blocks the
    entry points accept, and whose chains fit one SendHeaders batch and the history sample *)
Record good_cfg (U : universe) (P : params) (cfg : net) : Prop := {
  gc_inv : ∀ i m, cfg !! i = Some m → MInv U m ∧ all_body m;
  gc_ok  : ∀ i m b, cfg !! i = Some m → b ∈ best m → b ≠ genesis → acceptable U b = true;
  gc_len : ∀ i m, cfg !! i = Some m →
             N.of_nat (length (best m)) ≤ maxh P ∧ tip_height m ≤ 7 + 2 ^ 23;
}.
(** ... in which every node is on [H] or [H] is sufficiently heavier than its tip *)
Definition sep_cfg (U : universe) (P : params) (H : N) (cfg : net) : Prop :=
  good_cfg U P cfg ∧ ∀ i m, cfg !! i = Some m → tip m = H ∨ heavier U H (tip m) = true.

(** ** Generic list facts *)
Lemma hd_reverse_last {A} (l : list A) : ∀ c, hd c (reverse l) = List.last l c.
Proof.
  induction l as [|x l IH] using rev_ind; intros c; [done|].
  rewrite reverse_snoc. cbn [hd]. by rewrite last_last.
Qed.

Lemma last_app_ne {A} (l1 l2 : list A) c :
  l2 ≠ [] → List.last (l1 ++ l2) c = List.last l2 (List.last l1 c).
Proof.
  intros Hne. destruct l2 as [|x l2 _] using rev_ind; [done|].
  by rewrite app_assoc, !last_last.
Qed.

Lemma last_in {A} (l : list A) c : l ≠ [] → List.last l c ∈ l.
Proof.
  intros Hne. destruct l as [|x l _] using rev_ind; [done|].
  rewrite last_last. apply elem_of_app. right. by apply elem_of_list_singleton.
Qed.

Lemma map_insert_same {A B} (f : A → B) (l : list A) : ∀ i x y,
  l !! i = Some x → f y = f x → map f (<[i:=y]> l) = map f l.
Proof.
  induction l as [|z l IH]; intros i x y Hi Hf; [done|].
  destruct i as [|i]; cbn in *.
  - simplify_eq. by rewrite Hf.
  - f_equal. eauto.
Qed.

Lemma map_eq_lookup {A B} (f : A → B) (l1 : list A) : ∀ l2 i y,
  map f l1 = map f l2 → l2 !! i = Some y → ∃ x, l1 !! i = Some x ∧ f x = f y.
Proof.
  induction l1 as [|z l1 IH]; intros l2 i y He Hi; destruct l2 as [|z2 l2]; try done.
  cbn in He. injection He as Hz He. destruct i as [|i]; cbn in *.
  - simplify_eq. eauto.
  - eauto.
Qed.

(** ** The read side of chain.Manager *)
Lemma above_aux_spec l : ∀ a acc r,
  above_aux l a acc = Some r →
  ∃ pre rest, l = pre ++ a :: rest ∧ r = reverse pre ++ acc ∧ a ∉ pre.
Proof.
  induction l as [|x l IH]; intros a acc r H; [done|].
  cbn [above_aux] in H. destruct (N.eqb_spec x a) as [->|Hne].
  - injection H as <-. exists [], l. split_and!; try done. by intros ?%elem_of_nil.
  - destruct (IH _ _ _ H) as (pre & rest & -> & -> & Hni).
    exists (x :: pre), rest. split_and!; [done| |].
    + by rewrite reverse_cons, <- app_assoc.
    + intros [?|?]%elem_of_cons; [congruence|done].
Qed.

Lemma above_aux_complete l : ∀ a acc, a ∈ l → is_Some (above_aux l a acc).
Proof.
  induction l as [|x l IH]; intros a acc Hin; [by apply elem_of_nil in Hin|].
  cbn [above_aux]. destruct (N.eqb_spec x a) as [->|Hne]; [eauto|].
  apply IH. apply elem_of_cons in Hin as [?|?]; [congruence|done].
Qed.

Lemma above_spec m a l :
  above m a = Some l → ∃ rest, best m = reverse l ++ a :: rest.
Proof.
  intros H. destruct (above_aux_spec _ _ _ _ H) as (pre & rest & Hb & -> & _).
  exists rest. by rewrite app_nil_r, reverse_involutive.
Qed.

Lemma above_complete m a : a ∈ best m → ∃ l, above m a = Some l.
Proof. intros Hin. by destruct (above_aux_complete (best m) a [] Hin) as [l Hl]; eauto. Qed.

Lemma above_none m a : a ∉ best m → above m a = None.
Proof.
  intros Hni. destruct (above m a) as [l|] eqn:E; [|done].
  destruct (above_spec _ _ _ E) as (rest & Hb). exfalso. apply Hni. rewrite Hb.
  apply elem_of_app. right. apply elem_of_cons. auto.
Qed.

Lemma find_all_false {A} (f : A → bool) l : (∀ x, x ∈ l → f x = false) → find f l = None.
Proof.
  induction l as [|x l IH]; intros H; [done|]. cbn.
  rewrite (H x) by (apply elem_of_cons; auto). apply IH. intros y Hy. apply H, elem_of_cons. auto.
Qed.

Lemma tried_before_spec hist mj x :
  x ∈ tried_before hist mj → x ∈ hist ∧ on_best mj x = false.
Proof.
  induction hist as [|y hist IH]; cbn [tried_before]; [by intros ?%elem_of_nil|].
  destruct (on_best mj y) eqn:E; [by intros ?%elem_of_nil|].
  intros [->|Hx]%elem_of_cons.
  - split; [apply elem_of_cons; auto|done].
  - destruct (IH Hx). split; [apply elem_of_cons; auto|done].
Qed.

Lemma hist_offset_31 : hist_offset (N.of_nat 31) = 7 + 2 ^ 23.
Proof. vm_compute. reflexivity. Qed.

Lemma hist_entry_in m i : best m ≠ [] → hist_entry m i ∈ best m.
Proof.
  intros Hne. unfold hist_entry, tip_height. apply elem_of_list_In, nth_In.
  destruct (best m); [done|]. cbn [length]. lia.
Qed.

Lemma history_in m x : best m ≠ [] → x ∈ history m → x ∈ best m.
Proof.
  intros Hne Hx. unfold history in Hx. apply elem_of_list_In, in_map_iff in Hx as (i & <- & _).
  by apply hist_entry_in.
Qed.

(** ** Chunks *)
Lemma chunks_aux_spec n : (0 < n)%nat → ∀ fuel l, (length l ≤ fuel)%nat →
  concat (chunks_aux fuel n l) = l ∧ ∀ c, c ∈ chunks_aux fuel n l → c ≠ [].
Proof.
  intros Hn. induction fuel as [|f IH]; intros l Hl.
  - destruct l; [|cbn in Hl; lia]. split; [done|]. by intros c ?%elem_of_nil.
  - cbn [chunks_aux]. destruct l as [|x l]; [split; [done|by intros c ?%elem_of_nil]|].
    destruct (IH (skipn n (x :: l))) as [Hc Hne].
    { rewrite skipn_length. cbn [length] in *. lia. }
    split.
    + cbn [concat]. rewrite Hc. apply firstn_skipn.
    + intros c [->|Hc']%elem_of_cons; [|auto].
      destruct n; [lia|]. done.
Qed.

Lemma chunks_spec P l : 0 < bpr P →
  concat (chunks P l) = l ∧ ∀ c, c ∈ chunks P l → c ≠ [].
Proof. intros Hb. apply chunks_aux_spec; lia. Qed.

Section CP.
  Context (U : universe) (HWF : WF U).

  (** ** The work order *)
  Lemma heavier_inv x y : heavier U x y = true →
    ∃ X Y, U !! x = Some X ∧ U !! y = Some Y ∧
           (tw Y + diff Y / 5 < tw X)%Z ∧ (0 ≤ diff Y / 5)%Z ∧ (0 ≤ diff X / 5)%Z.
  Proof.
    unfold heavier. destruct (U !! x) as [X|] eqn:HX; [|done].
    destruct (U !! y) as [Y|] eqn:HY; [|done]. intros H.
    pose proof (wf_diff U HWF _ _ HX). pose proof (wf_diff U HWF _ _ HY).
    pose proof (Z.div_pos (diff X) 5). pose proof (Z.div_pos (diff Y) 5).
    exists X, Y. split_and!; try done; lia.
  Qed.

  Lemma heavier_twof x y : heavier U x y = true → (twof U y < twof U x)%Z.
  Proof.
    intros (X & Y & HX & HY & ? & ? & ?)%heavier_inv. unfold twof. rewrite HX, HY. lia.
  Qed.

  Lemma heavier_trans a b c :
    heavier U a b = true → heavier U b c = true → heavier U a c = true.
  Proof.
    intros (A & B & HA & HB & ? & ? & ?)%heavier_inv (B' & C & HB' & HC & ? & ? & ?)%heavier_inv.
    simplify_eq. unfold heavier. rewrite HA, HC. lia.
  Qed.

  Lemma heavier_asym a b : heavier U a b = true → heavier U b a = false.
  Proof.
    intros (A & B & HA & HB & ? & ? & ?)%heavier_inv. unfold heavier. rewrite HA, HB. lia.
  Qed.

  (** [heavier _ c] is monotone in the total work of its first argument *)
  Lemma heavier_mono x y c :
    heavier U x c = true → (twof U x ≤ twof U y)%Z → is_Some (U !! y) → heavier U y c = true.
  Proof.
    intros (X & C & HX & HC & ? & ? & ?)%heavier_inv Hle [Y HY].
    unfold twof in Hle. rewrite HX, HY in Hle. unfold heavier. rewrite HY, HC. lia.
  Qed.

  Context (HW : WFW U).

  (** a block is sufficiently heavier than each of its strict ancestors *)
  Lemma lp_heavier p : ∀ y, lp U p y → p ≠ [] → heavier U (hd y p) y = true.
  Proof.
    induction p as [|x p IH]; intros y Hl Hne; [done|]. cbn [hd].
    cbn [lp] in Hl. destruct Hl as (Hg & [X HX] & Hp & Hl).
    pose proof (HW x X HX Hg) as Hh. rewrite <- (par_eq U _ _ HX), Hp in Hh.
    destruct p as [|x' p]; [done|]. cbn [hd] in Hh.
    eapply heavier_trans; [exact Hh|]. by apply (IH y).
  Qed.

  Lemma best_below_tip m x :
    MInv U m → x ∈ best m → x = tip m ∨ heavier U (tip m) x = true.
  Proof.
    intros HI Hin. apply elem_of_list_split in Hin as (r & rest & Hb).
    pose proof (I_chain U m HI) as Hc. rewrite Hb in Hc.
    destruct (chain_split_at U _ _ _ Hc) as [Hl _].
    assert (tip m = hd x r) as -> by (unfold tip; rewrite Hb; apply hd_app_cons).
    destruct r as [|t r]; [by left|right]. by apply lp_heavier.
  Qed.

  (** every block of a chain whose tip is [H] or lighter-than-[H] is [H] or lighter-than-[H] *)
  Lemma below_sep m H x :
    MInv U m → tip m = H ∨ heavier U H (tip m) = true → x ∈ best m →
    x = H ∨ heavier U H x = true.
  Proof.
    intros HI Hs Hin. destruct (best_below_tip m x HI Hin) as [->|Hh]; [done|].
    destruct Hs as [<-|Hs]; [by right|]. right. by eapply heavier_trans.
  Qed.

  Lemma best_twof_le m x : MInv U m → x ∈ best m → (twof U x ≤ twof U (tip m))%Z.
  Proof.
    intros HI Hin. destruct (best_below_tip m x HI Hin) as [->|Hh]; [lia|].
    apply heavier_twof in Hh. lia.
  Qed.

  (** ** The attach point (C12_attach_point_is_common_ancestor) *)
  Lemma genesis_in_history m : MInv U m → tip_height m ≤ 7 + 2 ^ 23 → genesis ∈ history m.
  Proof.
    intros HI Hth. unfold history. apply elem_of_list_In, in_map_iff.
    exists 31%nat. split; [|apply in_seq; lia].
    unfold hist_entry. rewrite hist_offset_31, N.min_r by done.
    destruct (I_chain U m HI) as (l0 & Hb & _). unfold tip_height. rewrite Hb, app_length.
    cbn [length].
    replace (N.to_nat (N.of_nat (length l0 + 1) - 1)) with (length l0) by lia.
    apply nth_middle.
  Qed.

  Lemma attach_some mi mj :
    MInv U mi → MInv U mj → tip_height mi ≤ 7 + 2 ^ 23 →
    is_Some (find_attach (history mi) mj).
  Proof.
    intros HIi HIj Hth. unfold find_attach.
    destruct (find _ _) eqn:E; [eauto|]. exfalso.
    pose proof (find_none _ _ E genesis) as Hn. cbv beta in Hn.
    unfold on_best in Hn. rewrite bool_decide_eq_true_2 in Hn by (by apply (genesis_on_best U)).
    assert (true = false) by (apply Hn, elem_of_list_In; by apply genesis_in_history). done.
  Qed.

  Lemma attach_spec mi mj a :
    MInv U mi → MInv U mj → find_attach (history mi) mj = Some a →
    a ∈ best mi ∧ a ∈ best mj ∧
    (∀ x, x ∈ tried_before (history mi) mj → x ∈ best mi ∧ x ∉ best mj) ∧
    ∃ l rest, above mj a = Some l ∧ best mj = reverse l ++ a :: rest ∧
      ∀ max, headers mj a max = Some (take_n max l, N.of_nat (length l - length (take_n max l))) ∧
             blocks_for_history mj [a] max = (take_n max l, N.of_nat (length l - length (take_n max l))).
  Proof.
    intros HIi HIj E. pose proof (chain_nonempty U _ (I_chain U mi HIi)) as Hne.
    apply find_some in E as [Hin Hob]. apply elem_of_list_In in Hin.
    unfold on_best in Hob. apply bool_decide_eq_true in Hob.
    split_and!; [by apply history_in|done| |].
    - intros x (Hx & Hf)%tried_before_spec. split; [by apply history_in|].
      unfold on_best in Hf. by apply bool_decide_eq_false in Hf.
    - destruct (above_complete mj a Hob) as [l El].
      destruct (above_spec _ _ _ El) as [rest Hb]. exists l, rest. split_and!; try done.
      intros max. unfold headers, blocks_for_history, attach_of. cbn [find].
      rewrite (best_has_state U mj a HIj Hob). unfold on_best.
      rewrite bool_decide_eq_true_2 by done. cbn [andb]. rewrite El. done.
  Qed.

  Lemma bfh_no_common mj hist max :
    MInv U mj → (∀ id, id ∈ hist → (has_state mj id && on_best mj id) = false) →
    ∃ l, best mj = reverse l ++ [genesis] ∧
         blocks_for_history mj hist max = (take_n max l, N.of_nat (length l - length (take_n max l))).
  Proof.
    intros HI Hall. unfold blocks_for_history, attach_of. rewrite find_all_false by done.
    destruct (above_complete mj genesis (genesis_on_best U mj HI)) as [l El].
    destruct (above_spec _ _ _ El) as [rest Hb]. rewrite El. exists l. split; [|done].
    pose proof (I_chain U mj HI) as Hc. rewrite Hb in Hc.
    destruct (chain_split_at U _ _ _ Hc) as [_ Hc'].
    pose proof (chain_ht U HWF _ Hc') as Hh. cbn [hd length] in Hh.
    rewrite (ht_genesis U HWF) in Hh. destruct rest; [done|cbn in Hh; lia].
  Qed.

  (** ** One pull, characterised *)
  Context (P : params) (Hbpr : 0 < bpr P).

  Lemma submit_live m bh c l :
    MInv U m → all_body m → hangs U m c → l ≠ [] →
    lp U (reverse l) c → (∀ x, x ∈ l → okb U x = true) →
    ∃ m', submit U P m bh l = (m', Ok, heavier U (List.last l c) (tip m)) ∧
          MInv U m' ∧ all_body m' ∧ hangs U m' (List.last l c) ∧
          (if heavier U (List.last l c) (tip m) then tip m' = List.last l c
           else best m' = best m).
  Proof.
    intros. unfold submit.
    destruct (reqh P <=? bh); [by apply add_validated_live|by apply add_blocks_live].
  Qed.

  Lemma reverse_ne {A} (l : list A) : l ≠ [] → reverse l ≠ [].
  Proof. intros Hne Hr. apply Hne. by rewrite <- (reverse_involutive l), Hr. Qed.

  Lemma submit_all_live cs : ∀ m bh c,
    MInv U m → all_body m → hangs U m c →
    (∀ ch, ch ∈ cs → ch ≠ []) →
    lp U (reverse (concat cs)) c →
    (∀ x, x ∈ concat cs → okb U x = true) →
    ∃ m', submit_all U P m bh cs = (m', Ok) ∧ MInv U m' ∧ all_body m' ∧
      (tip m' = tip m ∨ (tip m' ∈ concat cs ∧ heavier U (tip m') (tip m) = true)) ∧
      (concat cs ≠ [] → heavier U (List.last (concat cs) c) (tip m) = true →
         tip m' = List.last (concat cs) c) ∧
      ((∀ x, x ∈ concat cs → heavier U x (tip m) = false) → best m' = best m).
  Proof.
    induction cs as [|ch cs IH]; intros m bh c HI Hab Hh Hne Hl Hok.
    { exists m. cbn. split_and!; try done; auto. }
    cbn [concat] in *. rewrite reverse_app in Hl. apply lp_app in Hl as [Hl2 Hl1].
    rewrite hd_reverse_last in Hl2.
    assert (ch ≠ []) as Hch by (apply Hne, elem_of_cons; auto).
    destruct (submit_live m bh c ch) as (m1 & E & HI1 & Hab1 & Hh1 & Hc1); try done.
    { intros x Hx. apply Hok, elem_of_app. auto. }
    cbn [submit_all]. rewrite E.
    destruct (IH m1 (bh + bpr P) (List.last ch c)) as (m' & E' & HI' & Hab' & HA & HB & HC);
      try done.
    { intros ch' Hch'. apply Hne, elem_of_cons. auto. }
    { intros x Hx. apply Hok, elem_of_app. auto. }
    exists m'. split_and!; try done.
    - (* where the tip went *)
      destruct (heavier U (List.last ch c) (tip m)) eqn:Hhv.
      + right. destruct HA as [->|[Hin Hhh]].
        * rewrite Hc1. split; [|done]. apply elem_of_app. left. by apply last_in.
        * split; [apply elem_of_app; auto|]. eapply heavier_trans; [exact Hhh|]. by rewrite Hc1.
      + assert (tip m1 = tip m) as Ht1 by (unfold tip; by rewrite Hc1).
        rewrite Ht1 in HA. destruct HA as [?|[? ?]]; [by left|right].
        split; [apply elem_of_app; auto|done].
    - (* a heavier end of the batch is adopted *)
      intros _ Hlast. destruct (decide (concat cs = [])) as [Hemp|Hne2].
      + assert (cs = []) as ->.
        { destruct cs as [|ch2 cs']; [done|]. exfalso. cbn in Hemp.
          apply app_eq_nil in Hemp as [? _]. eapply (Hne ch2); [|done].
          apply elem_of_cons. right. apply elem_of_cons. auto. }
        cbn in E'. injection E' as <-. cbn [concat] in *. rewrite app_nil_r in *.
        by rewrite Hlast in Hc1.
      + rewrite last_app_ne in * by done. apply HB; [done|].
        destruct (heavier U (List.last ch c) (tip m)) eqn:Hhv.
        * rewrite Hc1. rewrite <- hd_reverse_last. apply lp_heavier; [done|].
          by apply reverse_ne.
        * assert (tip m1 = tip m) as -> by (unfold tip; by rewrite Hc1). done.
    - (* nothing heavier: nothing moves *)
      intros Hall.
      rewrite (Hall (List.last ch c)) in Hc1 by (apply elem_of_app; left; by apply last_in).
      assert (tip m1 = tip m) as Ht1 by (unfold tip; by rewrite Hc1).
      rewrite HC; [done|]. intros x Hx. rewrite Ht1. apply Hall, elem_of_app. auto.
  Qed.

  Definition good_node (m : mgr) : Prop :=
    MInv U m ∧ all_body m ∧
    (∀ b, b ∈ best m → b ≠ genesis → acceptable U b = true) ∧
    N.of_nat (length (best m)) ≤ maxh P ∧ tip_height m ≤ 7 + 2 ^ 23.

  Lemma pull_spec mi mj : good_node mi → good_node mj →
    MInv U (pull U P mi mj) ∧ all_body (pull U P mi mj) ∧
    (tip (pull U P mi mj) = tip mi ∨
     (tip (pull U P mi mj) ∈ best mj ∧ heavier U (tip (pull U P mi mj)) (tip mi) = true)) ∧
    (heavier U (tip mj) (tip mi) = true → tip (pull U P mi mj) = tip mj) ∧
    ((∀ x, x ∈ best mj → heavier U x (tip mi) = false) → best (pull U P mi mj) = best mi).
  Proof.
    intros (HIi & Habi & Hoki & Hli & Hti) (HIj & Habj & Hokj & Hlj & Htj).
    destruct (attach_some mi mj HIi HIj Hti) as [a Ea].
    destruct (attach_spec mi mj a HIi HIj Ea) as (Hai & Haj & _ & l & rest & El & Hb & Hhd).
    unfold pull. rewrite Ea. destruct (Hhd (maxh P)) as [Hh _]. rewrite Hh. clear Hh Hhd.
    assert (take_n (maxh P) l = l) as ->.
    { unfold take_n. apply firstn_all2. rewrite Hb, app_length, reverse_length in Hlj.
      cbn [length] in Hlj. lia. }
    destruct (chunks_spec P l Hbpr) as [Hcc Hcne].
    pose proof (I_chain U mj HIj) as Hc. rewrite Hb in Hc.
    destruct (chain_split_at U _ _ _ Hc) as [Hlp _].
    assert (∀ x, x ∈ l → x ∈ best mj) as Hsub.
    { intros x Hx. rewrite Hb. apply elem_of_app. left. by apply elem_of_reverse. }
    assert (tip mj = List.last l a) as Htj'.
    { unfold tip. rewrite Hb, hd_app_cons. apply hd_reverse_last. }
    destruct (submit_all_live (chunks P l) mi (hgt U a) a)
      as (m' & E & HI' & Hab' & HA & HB & HC); try done.
    { by apply hangs_best. }
    { by rewrite Hcc. }
    { rewrite Hcc. intros x Hx. change (acceptable U x = true). apply Hokj; [auto|].
      eapply (lp_elem U (reverse l)); [exact Hlp|]. by apply elem_of_reverse. }
    rewrite E. cbn [fst]. rewrite Hcc in HA, HB, HC. split_and!; try done.
    - destruct HA as [?|[? ?]]; [by left|right]. auto.
    - intros Hhv. rewrite Htj' in *. destruct l as [|x0 l0].
      + exfalso. cbn in Hhv.
        destruct (best_below_tip mi a HIi Hai) as [->|Hh].
        * by rewrite (heavier_irrefl U HWF) in Hhv.
        * apply heavier_asym in Hh. congruence.
      + by apply HB.
    - intros Hall. apply HC. auto.
  Qed.

  Lemma pull_adopts mi mj : good_node mi → good_node mj →
    heavier U (tip mj) (tip mi) = true → tip (pull U P mi mj) = tip mj.
  Proof. intros Hi Hj. by destruct (pull_spec mi mj Hi Hj) as (_ & _ & _ & ? & _). Qed.

  Lemma pull_stays mi mj : good_node mi → good_node mj →
    (∀ x, x ∈ best mj → heavier U x (tip mi) = false) → best (pull U P mi mj) = best mi.
  Proof. intros Hi Hj. by destruct (pull_spec mi mj Hi Hj) as (_ & _ & _ & _ & ?). Qed.

  Lemma pull_cases mi mj : good_node mi → good_node mj →
    tip (pull U P mi mj) = tip mi ∨
    (tip (pull U P mi mj) ∈ best mj ∧ heavier U (tip (pull U P mi mj)) (tip mi) = true).
  Proof. intros Hi Hj. by destruct (pull_spec mi mj Hi Hj) as (_ & _ & ? & _). Qed.

  (** every pull leaves the tip where it was or moves it to a block with more total work *)
  Lemma pull_progress mi mj : good_node mi → good_node mj →
    tip (pull U P mi mj) = tip mi ∨ (twof U (tip mi) < twof U (tip (pull U P mi mj)))%Z.
  Proof.
    intros Hi Hj. destruct (pull_cases mi mj Hi Hj) as [?|[_ Hh]]; [by left|right].
    by apply heavier_twof.
  Qed.

  (** the chain below a block of [best m] is a suffix of [best m] *)
  Lemma chain_suffix m l' :
    MInv U m → chain U l' → hd genesis l' ∈ best m → ∃ r, best m = r ++ l'.
  Proof.
    intros HI Hc' Hin. apply elem_of_list_split in Hin as (r & rest & Hb).
    pose proof (I_chain U m HI) as Hc. rewrite Hb in Hc.
    destruct (chain_split_at U _ _ _ Hc) as [_ Hc2].
    exists r. rewrite Hb. f_equal. symmetry. by apply (chain_det U HWF).
  Qed.

  Lemma pull_best mi mj : good_node mi → good_node mj →
    best (pull U P mi mj) = best mi ∨ ∃ r, best mj = r ++ best (pull U P mi mj).
  Proof.
    intros Hi Hj. destruct (pull_spec mi mj Hi Hj) as (HI' & _ & HA & _).
    destruct HA as [Ht|[Hin _]].
    - left. apply (chain_det U HWF); [apply (I_chain U _ HI')|apply (I_chain U mi), Hi|done].
    - right. apply chain_suffix; [apply Hj|apply (I_chain U _ HI')|done].
  Qed.

  Lemma pull_good mi mj : good_node mi → good_node mj → good_node (pull U P mi mj).
  Proof.
    intros Hi Hj. destruct (pull_spec mi mj Hi Hj) as (HI' & Hab' & _).
    destruct (pull_best mi mj Hi Hj) as [He|[r He]].
    - unfold good_node, tip_height. rewrite He. split_and!; try done; apply Hi.
    - destruct Hj as (_ & _ & Hok & Hlen & Hth). unfold good_node, tip_height in *.
      rewrite He, app_length in Hlen, Hth. split_and!; try done; [|lia|lia].
      intros b Hb. apply Hok. rewrite He. apply elem_of_app. auto.
  Qed.

  (** ** Configurations *)
  Lemma good_cfg_nodes cfg : good_cfg U P cfg ↔ ∀ i m, cfg !! i = Some m → good_node m.
  Proof.
    split.
    - intros [H1 H2 H3] i m Hi. destruct (H1 i m Hi), (H3 i m Hi). unfold good_node.
      split_and!; eauto.
    - intros H. split.
      + intros i m Hi. destruct (H i m Hi) as (? & ? & _). done.
      + intros i m b Hi. destruct (H i m Hi) as (_ & _ & Hok & _). apply Hok.
      + intros i m Hi. destruct (H i m Hi) as (_ & _ & _ & ? & ?). done.
  Qed.

  Lemma pull_step_length cfg e : length (pull_step U P cfg e) = length cfg.
  Proof.
    unfold pull_step. destruct (cfg !! e.1); [|done]. destruct (cfg !! e.2); [|done].
    apply insert_length.
  Qed.

  Lemma run_sched_length s : ∀ cfg, length (run_sched U P cfg s) = length cfg.
  Proof.
    induction s as [|e s IH]; intros cfg; [done|]. unfold run_sched in *. cbn [fold_left].
    by rewrite IH, pull_step_length.
  Qed.

  Lemma run_sched_app cfg s1 s2 :
    run_sched U P cfg (s1 ++ s2) = run_sched U P (run_sched U P cfg s1) s2.
  Proof. unfold run_sched. apply fold_left_app. Qed.

  Lemma run_sched_cons cfg e s :
    run_sched U P cfg (e :: s) = run_sched U P (pull_step U P cfg e) s.
  Proof. done. Qed.

  (** what a node of the configuration after one step is *)
  Lemma pull_step_lookup cfg e k m :
    pull_step U P cfg e !! k = Some m →
    cfg !! k = Some m ∨
    (k = e.1 ∧ ∃ mi mj, cfg !! e.1 = Some mi ∧ cfg !! e.2 = Some mj ∧ m = pull U P mi mj).
  Proof.
    unfold pull_step, net in *. destruct (cfg !! e.1) as [mi|] eqn:Ei; [|by left].
    destruct (cfg !! e.2) as [mj|] eqn:Ej; [|by left].
    destruct (decide (e.1 = k)) as [<-|Hne].
    - rewrite list_lookup_insert by (by eapply lookup_lt_Some). intros [= <-].
      right. eauto 10.
    - rewrite list_lookup_insert_ne by done. by left.
  Qed.

  Lemma pull_step_lookup_ne cfg e k : k ≠ e.1 → pull_step U P cfg e !! k = cfg !! k.
  Proof.
    intros Hne. unfold pull_step, net in *. destruct (cfg !! e.1) as [mi|]; [|done].
    destruct (cfg !! e.2) as [mj|]; [|done]. by rewrite list_lookup_insert_ne.
  Qed.

  Lemma pull_step_lookup_eq cfg e mi mj :
    cfg !! e.1 = Some mi → cfg !! e.2 = Some mj →
    pull_step U P cfg e !! e.1 = Some (pull U P mi mj).
  Proof.
    intros Ei Ej. unfold pull_step, net in *. rewrite Ei, Ej.
    apply list_lookup_insert. by eapply lookup_lt_Some.
  Qed.

  (** a property of nodes that every pull preserves is preserved by every schedule *)
  Lemma pull_step_pres (Q : mgr → Prop) cfg e :
    (∀ mi mj, Q mi → Q mj → Q (pull U P mi mj)) →
    (∀ i m, cfg !! i = Some m → Q m) →
    ∀ i m, pull_step U P cfg e !! i = Some m → Q m.
  Proof.
    intros HQ Hc i m Hi.
    destruct (pull_step_lookup _ _ _ _ Hi) as [?|(-> & mi & mj & ? & ? & ->)]; eauto.
  Qed.

  Lemma run_sched_pres (Q : mgr → Prop) s :
    (∀ mi mj, Q mi → Q mj → Q (pull U P mi mj)) →
    ∀ cfg, (∀ i m, cfg !! i = Some m → Q m) →
    ∀ i m, run_sched U P cfg s !! i = Some m → Q m.
  Proof.
    intros HQ. induction s as [|e s IH]; intros cfg Hc; [done|].
    rewrite run_sched_cons. apply IH. by apply pull_step_pres.
  Qed.

  Lemma good_cfg_step cfg e : good_cfg U P cfg → good_cfg U P (pull_step U P cfg e).
  Proof. rewrite !good_cfg_nodes. apply pull_step_pres, pull_good. Qed.

  Lemma good_cfg_run cfg s : good_cfg U P cfg → good_cfg U P (run_sched U P cfg s).
  Proof. rewrite !good_cfg_nodes. apply run_sched_pres, pull_good. Qed.

  (** ** Convergence under separation *)
  Definition sep_node (H : N) (m : mgr) : Prop :=
    good_node m ∧ (tip m = H ∨ heavier U H (tip m) = true).

  Lemma sep_cfg_nodes H cfg : sep_cfg U P H cfg ↔ ∀ i m, cfg !! i = Some m → sep_node H m.
  Proof.
    unfold sep_cfg, sep_node. rewrite good_cfg_nodes. split.
    - intros [H1 H2] i m Hi. eauto.
    - intros H0. split; intros i m Hi; by destruct (H0 i m Hi).
  Qed.

  Lemma pull_sep H mi mj : sep_node H mi → sep_node H mj →
    sep_node H (pull U P mi mj) ∧
    (tip mi = H → tip (pull U P mi mj) = H) ∧
    (tip mj = H → tip (pull U P mi mj) = H).
  Proof.
    intros [Hgi Hsi] [Hgj Hsj].
    destruct (pull_spec mi mj Hgi Hgj) as (HI' & _ & HA & HB & _).
    assert (MInv U mj) as HIj by apply Hgj.
    assert (tip (pull U P mi mj) = tip mi ∨
            (heavier U (tip (pull U P mi mj)) (tip mi) = true ∧
             (tip (pull U P mi mj) = H ∨ heavier U H (tip (pull U P mi mj)) = true))) as HA'.
    { destruct HA as [?|[Hin ?]]; [by left|right]. split; [done|].
      by apply (below_sep mj). }
    assert (tip mi = H → tip (pull U P mi mj) = H) as Hstay.
    { intros Hi. destruct HA' as [->|[Hh [?|Hh2]]]; [done|done|].
      rewrite Hi in Hh. apply heavier_asym in Hh. congruence. }
    split_and!; [split; [by apply pull_good|]|done|].
    - destruct HA' as [->|[_ ?]]; done.
    - intros Hj. destruct Hsi as [?|Hh]; [auto|]. rewrite <- Hj. apply HB. by rewrite Hj.
  Qed.

  Lemma sep_cfg_step H cfg e : sep_cfg U P H cfg → sep_cfg U P H (pull_step U P cfg e).
  Proof.
    rewrite !sep_cfg_nodes. apply pull_step_pres. intros mi mj Hi Hj.
    by destruct (pull_sep H mi mj Hi Hj).
  Qed.

  Lemma sep_cfg_run H cfg s : sep_cfg U P H cfg → sep_cfg U P H (run_sched U P cfg s).
  Proof.
    rewrite !sep_cfg_nodes. apply run_sched_pres. intros mi mj Hi Hj.
    by destruct (pull_sep H mi mj Hi Hj).
  Qed.

  Definition on_tip (H : N) (cfg : net) (i : nat) : Prop :=
    ∃ m, cfg !! i = Some m ∧ tip m = H.

  Lemma on_tip_step H cfg e i :
    sep_cfg U P H cfg → on_tip H cfg i → on_tip H (pull_step U P cfg e) i.
  Proof.
    rewrite sep_cfg_nodes. intros Hs (m & Hi & Ht).
    destruct (decide (i = e.1)) as [->|Hne].
    - destruct (cfg !! e.2) as [mj|] eqn:Ej.
      + exists (pull U P m mj). split; [by apply pull_step_lookup_eq|].
        destruct (pull_sep H m mj) as (_ & Hst & _); eauto.
      + exists m. split; [|done]. unfold pull_step. by rewrite Hi, Ej.
    - exists m. by rewrite pull_step_lookup_ne.
  Qed.

  Lemma on_tip_run H s : ∀ cfg i,
    sep_cfg U P H cfg → on_tip H cfg i → on_tip H (run_sched U P cfg s) i.
  Proof.
    induction s as [|e s IH]; intros cfg i Hs Hi; [done|].
    rewrite run_sched_cons. apply IH; [by apply sep_cfg_step|by apply on_tip_step].
  Qed.

  (** in a round that contains the pull (i, j), node i ends on [H] if node j started on it *)
  Lemma on_tip_round H cfg s i j :
    sep_cfg U P H cfg → on_tip H cfg j → (i < length cfg)%nat → (i, j) ∈ s →
    on_tip H (run_sched U P cfg s) i.
  Proof.
    intros Hs Hj Hi (s1 & s2 & ->)%elem_of_list_split.
    rewrite run_sched_app, run_sched_cons.
    pose proof (sep_cfg_run H cfg s1 Hs) as Hs1.
    pose proof (on_tip_run H s1 cfg j Hs Hj) as (mj & Ej & Htj).
    set (cfg1 := run_sched U P cfg s1) in *.
    assert (is_Some (cfg1 !! i)) as [mi Ei].
    { apply lookup_lt_is_Some. unfold cfg1. by rewrite run_sched_length. }
    apply on_tip_run; [by apply sep_cfg_step|].
    exists (pull U P mi mj). split; [by apply (pull_step_lookup_eq cfg1 (i, j))|].
    pose proof (proj1 (sep_cfg_nodes H cfg1) Hs1) as Hn1.
    destruct (pull_sep H mi mj) as (_ & _ & Had); eauto.
  Qed.

  Lemma converge_rounds E H k0 rounds : ∀ cfg,
    sep_cfg U P H cfg → on_tip H cfg k0 →
    (∀ e, e ∈ E → (e.1 < length cfg)%nat ∧ (e.2 < length cfg)%nat) →
    (∀ s, s ∈ rounds → fair E s) →
    ∀ i, (i < length cfg)%nat → within E k0 (length rounds) i →
         on_tip H (run_sched U P cfg (concat rounds)) i.
  Proof.
    induction rounds as [|s rounds IH] using rev_ind; intros cfg Hs Hk HE Hfair i Hi Hw.
    { cbn in Hw. by subst i. }
    rewrite concat_app, run_sched_app. cbn [concat]. rewrite app_nil_r.
    rewrite app_length in Hw. cbn [length] in Hw.
    replace (length rounds + 1)%nat with (S (length rounds)) in Hw by lia. cbn [within] in Hw.
    assert (∀ s', s' ∈ rounds → fair E s') as Hfair'.
    { intros s' Hs'. apply Hfair, elem_of_app. auto. }
    pose proof (sep_cfg_run H cfg (concat rounds) Hs) as Hs1.
    destruct Hw as [Hw|(j & Hw & Hadj)].
    - apply on_tip_run; [done|]. by apply IH.
    - assert (j < length cfg)%nat as Hj.
      { destruct Hadj as [Hin|Hin]; apply HE in Hin; cbn in Hin; lia. }
      apply (on_tip_round H _ s i j); try done.
      + by apply IH.
      + by rewrite run_sched_length.
      + apply (Hfair s); [|done]. apply elem_of_app. right. by apply elem_of_list_singleton.
  Qed.

  (** ** Stability *)
  (** no pull along the relation [R] would move a tip *)
  Definition quiet (R : nat → nat → Prop) (cfg : net) : Prop :=
    ∀ i j mi mj, R i j → cfg !! i = Some mi → cfg !! j = Some mj →
      heavier U (tip mj) (tip mi) = false.

  Lemma quiet_tips R c1 c2 : tips c1 = tips c2 → quiet R c1 → quiet R c2.
  Proof.
    intros Ht Hq i j mi mj HR Ei Ej.
    destruct (map_eq_lookup tip c1 c2 i mi Ht Ei) as (mi' & Ei' & <-).
    destruct (map_eq_lookup tip c1 c2 j mj Ht Ej) as (mj' & Ej' & <-). eauto.
  Qed.

  Lemma pull_quiet mi mj : good_node mi → good_node mj →
    heavier U (tip mj) (tip mi) = false → best (pull U P mi mj) = best mi.
  Proof.
    intros Hi Hj Hq. destruct (pull_spec mi mj Hi Hj) as (_ & _ & _ & _ & HC). apply HC.
    intros x Hx. destruct (heavier U x (tip mi)) eqn:Hh; [|done].
    assert (MInv U mj) as HIj by apply Hj.
    rewrite (heavier_mono x (tip mj) (tip mi)) in Hq; [done|done| |].
    - by apply best_twof_le.
    - apply (chain_elem_U U HWF (best mj)); [apply (I_chain U mj HIj)|by apply (tip_on_best U)].
  Qed.

  Lemma quiet_step R cfg e :
    good_cfg U P cfg → quiet R cfg → R e.1 e.2 → tips (pull_step U P cfg e) = tips cfg.
  Proof.
    rewrite good_cfg_nodes. intros Hg Hq He. unfold pull_step, net in *.
    destruct (cfg !! e.1) as [mi|] eqn:Ei; [|done].
    destruct (cfg !! e.2) as [mj|] eqn:Ej; [|done].
    unfold tips. eapply map_insert_same; [exact Ei|]. unfold tip.
    rewrite pull_quiet; eauto.
  Qed.

  Lemma quiet_run R more : ∀ cfg,
    good_cfg U P cfg → quiet R cfg → (∀ e, e ∈ more → R e.1 e.2) →
    tips (run_sched U P cfg more) = tips cfg.
  Proof.
    induction more as [|e more IH]; intros cfg Hg Hq HR; [done|].
    rewrite run_sched_cons.
    assert (tips (pull_step U P cfg e) = tips cfg) as Ht.
    { apply (quiet_step R); [done|done|]. apply HR, elem_of_cons. auto. }
    rewrite <- Ht. apply IH.
    - by apply good_cfg_step.
    - eapply quiet_tips; [symmetry; exact Ht|done].
    - intros e' He'. apply HR, elem_of_cons. auto.
  Qed.

  (** termination: tips only move to blocks of the initial chains with more total work *)
  Definition in_set (S : list N) (cfg : net) : Prop :=
    ∀ i m, cfg !! i = Some m → good_node m ∧ ∀ x, x ∈ best m → x ∈ S.

  Lemma in_set_step S cfg e : in_set S cfg → in_set S (pull_step U P cfg e).
  Proof.
    unfold in_set. intros Hc.
    apply (pull_step_pres (λ m, good_node m ∧ ∀ x, x ∈ best m → x ∈ S) cfg e); [|done].
    intros mi mj [Hi Hsi] [Hj Hsj]. split; [by apply pull_good|].
    destruct (pull_best mi mj Hi Hj) as [->|[r He]]; [done|].
    intros x Hx. apply Hsj. rewrite He. apply elem_of_app. auto.
  Qed.

  Lemma in_set_init cfg : good_cfg U P cfg → in_set (concat (map best cfg)) cfg.
  Proof.
    rewrite good_cfg_nodes. intros Hg i m Hi. split; [eauto|]. intros x Hx.
    apply elem_of_list_In, in_concat. exists (best m). split; [|by apply elem_of_list_In].
    apply in_map, elem_of_list_In. by eapply elem_of_list_lookup_2.
  Qed.

  Lemma twof_bound (S : list N) : ∃ M, ∀ x, x ∈ S → (twof U x ≤ M)%Z.
  Proof.
    induction S as [|y S [M IH]]; [exists 0%Z; by intros x ?%elem_of_nil|].
    exists (Z.max (twof U y) M). intros x [->|Hx]%elem_of_cons; [lia|].
    specialize (IH x Hx). lia.
  Qed.

  Definition rank (M : Z) (m : mgr) : nat := Z.to_nat (M - twof U (tip m)).
  Definition mu (M : Z) (cfg : list mgr) : nat := sum_list_with (rank M) cfg.

  Lemma mu_insert M cfg : ∀ i x y,
    cfg !! i = Some x → (rank M y < rank M x)%nat → (mu M (<[i:=y]> cfg) < mu M cfg)%nat.
  Proof.
    unfold mu. induction cfg as [|z cfg IH]; intros i x y Hi Hr; [done|].
    destruct i as [|i]; cbn in *.
    - simplify_eq. lia.
    - apply Nat.add_lt_mono_l. by apply (IH i x y).
  Qed.

  Definition prod_edge (cfg : net) (e : nat * nat) : bool :=
    match cfg !! e.1, cfg !! e.2 with
    | Some mi, Some mj => heavier U (tip mj) (tip mi)
    | _, _ => false
    end.
  Definition swap (e : nat * nat) : nat * nat := (e.2, e.1).

  Lemma stabilise E S M : (∀ x, x ∈ S → (twof U x ≤ M)%Z) →
    ∀ n cfg, in_set S cfg → (mu M cfg < n)%nat →
    ∃ sched, (∀ e, e ∈ sched → adjacent E e.1 e.2) ∧
             quiet (adjacent E) (run_sched U P cfg sched).
  Proof.
    intros HM. induction n as [|n IH]; intros cfg Hin Hmu; [lia|].
    destruct (find (prod_edge cfg) (E ++ map swap E)) as [e|] eqn:Ef.
    - apply find_some in Ef as [He Hp]. unfold prod_edge in Hp.
      destruct (cfg !! e.1) as [mi|] eqn:Ei; [|done].
      destruct (cfg !! e.2) as [mj|] eqn:Ej; [|done].
      destruct (Hin _ _ Ei) as [Hgi _]. destruct (Hin _ _ Ej) as [Hgj Hsj].
      destruct (pull_spec mi mj Hgi Hgj) as (_ & _ & _ & HB & _).
      specialize (HB Hp).
      destruct (IH (pull_step U P cfg e)) as (sched & Hadj & Hq).
      { by apply in_set_step. }
      { assert (mu M (pull_step U P cfg e) < mu M cfg)%nat; [|lia].
        unfold pull_step, net in *. rewrite Ei, Ej. eapply mu_insert; [exact Ei|].
        unfold rank. rewrite HB. apply heavier_twof in Hp.
        assert (twof U (tip mj) ≤ M)%Z; [|lia].
        apply HM, Hsj. apply (tip_on_best U). apply Hgj. }
      exists (e :: sched). split; [|by rewrite run_sched_cons].
      intros e' [->|He']%elem_of_cons; [|auto].
      apply in_app_iff in He as [He|He].
      + left. apply elem_of_list_In. by destruct e.
      + apply in_map_iff in He as ([a b] & <- & He). right. cbn. by apply elem_of_list_In.
    - exists []. split; [by intros e ?%elem_of_nil|].
      change (quiet (adjacent E) cfg). intros i j mi mj Hadj Ei Ej.
      pose proof (find_none _ _ Ef (i, j)) as Hn. unfold prod_edge in Hn. cbn in Hn.
      rewrite Ei, Ej in Hn. apply Hn, in_app_iff.
      destruct Hadj as [Hadj|Hadj]; [left; by apply elem_of_list_In|right].
      apply in_map_iff. exists (j, i). split; [done|by apply elem_of_list_In].
  Qed.

  Lemma stable_otherwise_sec E cfg : good_cfg U P cfg →
    ∃ sched, (∀ e, e ∈ sched → adjacent E e.1 e.2) ∧
      good_cfg U P (run_sched U P cfg sched) ∧
      quiescent U E (run_sched U P cfg sched) ∧
      ∀ more, (∀ e, e ∈ more → adjacent E e.1 e.2) →
        tips (run_sched U P (run_sched U P cfg sched) more) = tips (run_sched U P cfg sched).
  Proof.
    intros Hg. destruct (twof_bound (concat (map best cfg))) as [M HM].
    destruct (stabilise E _ M HM (S (mu M cfg)) cfg) as (sched & Hadj & Hq);
      [by apply in_set_init|lia|].
    pose proof (good_cfg_run cfg sched Hg) as Hg'.
    exists sched. split_and!; try done.
    intros more Hm. by apply (quiet_run (adjacent E)).
  Qed.
End CP.

(** * The C12 theorems, closed *)
Lemma attach_point_is_common_ancestor :
  ∀ U mi mj, WF U → MInv U mi → MInv U mj →
    (tip_height mi ≤ 7 + 2 ^ 23 → is_Some (find_attach (history mi) mj)) ∧
    (∀ a, find_attach (history mi) mj = Some a →
       a ∈ best mi ∧ a ∈ best mj ∧
       (∀ x, x ∈ tried_before (history mi) mj → x ∈ best mi ∧ x ∉ best mj) ∧
       ∃ l rest, above mj a = Some l ∧ best mj = reverse l ++ a :: rest ∧
         ∀ max, headers mj a max = Some (take_n max l, N.of_nat (length l - length (take_n max l))) ∧
                blocks_for_history mj [a] max = (take_n max l, N.of_nat (length l - length (take_n max l)))) ∧
    (∀ hist max, (∀ id, id ∈ hist → (has_state mj id && on_best mj id) = false) →
       ∃ l, best mj = reverse l ++ [genesis] ∧
            blocks_for_history mj hist max = (take_n max l, N.of_nat (length l - length (take_n max l)))).
Proof.
  intros U mi mj HWF HIi HIj. split_and!.
  - by apply (attach_some U).
  - intros a. by apply (attach_spec U).
  - intros hist max. by apply (bfh_no_common U).
Qed.

(** the hypothesis that the edges of [E] join nodes of the configuration is not in the
    informal statement; without it the theorem is false ([within] may route through an
    index that holds no node): see [convergence_needs_edges_in_range] below *)
Lemma convergence_under_separation :
  ∀ U P E cfg H k0 rounds,
    WF U → WFW U → 0 < bpr P →
    sep_cfg U P H cfg → (∃ m, cfg !! k0 = Some m ∧ tip m = H) →
    (∀ e, e ∈ E → (e.1 < length cfg)%nat ∧ (e.2 < length cfg)%nat) →
    (∀ i, (i < length cfg)%nat → within E k0 (length rounds) i) →
    (∀ s, s ∈ rounds → fair E s) →
    (∀ m, m ∈ run_sched U P cfg (concat rounds) → tip m = H) ∧
    (∀ pre suf, concat rounds = pre ++ suf → sep_cfg U P H (run_sched U P cfg pre)).
Proof.
  intros U P E cfg H k0 rounds HWF HW Hbpr Hs Hk HE Hw Hfair. split.
  - intros m (i & Hi)%elem_of_list_lookup.
    assert (i < length cfg)%nat as Hlt.
    { apply lookup_lt_Some in Hi. by rewrite run_sched_length in Hi. }
    destruct (converge_rounds U HWF HW P Hbpr E H k0 rounds cfg Hs Hk HE Hfair i Hlt (Hw i Hlt))
      as (m' & Hi' & Ht).
    unfold net in *. rewrite Hi in Hi'. by injection Hi' as <-.
  - intros pre suf _. by apply sep_cfg_run.
Qed.

Lemma stable_otherwise :
  ∀ U P E cfg, WF U → WFW U → 0 < bpr P → good_cfg U P cfg →
    ∃ sched, (∀ e, e ∈ sched → adjacent E e.1 e.2) ∧
      good_cfg U P (run_sched U P cfg sched) ∧
      quiescent U E (run_sched U P cfg sched) ∧
      ∀ more, (∀ e, e ∈ more → adjacent E e.1 e.2) →
        tips (run_sched U P (run_sched U P cfg sched) more) = tips (run_sched U P cfg sched).
Proof. intros U P E cfg HWF HW Hbpr. by apply stable_otherwise_sec. Qed.

(** ** Boolean tests (usable on concrete universes and configurations) *)
Definition wfwb (U : universe) : bool :=
  forallb (λ bB : N * blk, (bB.1 =? genesis) || heavier U bB.1 (parent bB.2)) (map_to_list U).

Lemma wfwb_sound U : wfwb U = true → WFW U.
Proof.
  unfold wfwb. rewrite forallb_forall. intros Hall b B HB Hg.
  assert (In (b, B) (map_to_list U)) as Hin by (by apply elem_of_list_In, elem_of_map_to_list).
  specialize (Hall (b, B) Hin). cbn in Hall.
  rewrite orb_true_iff in Hall. destruct Hall as [Heq|?]; [|done].
  by apply N.eqb_eq in Heq.
Qed.

Definition node_okb (U : universe) (P : params) (m : mgr) : bool :=
  forallb (λ b, (b =? genesis) || acceptable U b) (best m) &&
  (N.of_nat (length (best m)) <=? maxh P) && (tip_height m <=? 7 + 2 ^ 23).

Lemma node_okb_sound U P m :
  MInv U m → all_body m → node_okb U P m = true → good_node U P m.
Proof.
  intros HI Hab [[Hall Hl]%andb_true_iff Ht]%andb_true_iff. unfold good_node.
  split_and!; try done; [|lia|lia].
  rewrite forallb_forall in Hall. intros b Hb Hg.
  apply elem_of_list_In in Hb. specialize (Hall b Hb). rewrite orb_true_iff in Hall.
  destruct Hall as [Heq|?]; [|done]. by apply N.eqb_eq in Heq.
Qed.

Lemma good_cfg_Forall U P cfg : Forall (good_node U P) cfg → good_cfg U P cfg.
Proof.
  rewrite Forall_lookup. intros H.
  split.
  - intros i m Hi. destruct (H i m Hi) as (? & ? & _). done.
  - intros i m b Hi. destruct (H i m Hi) as (_ & _ & Hok & _). apply Hok.
  - intros i m Hi. destruct (H i m Hi) as (_ & _ & _ & ? & ?). done.
Qed.

Lemma sep_cfg_Forall U P H cfg :
  Forall (good_node U P) cfg →
  forallb (λ m, (tip m =? H) || heavier U H (tip m)) cfg = true →
  sep_cfg U P H cfg.
Proof.
  intros Hg Hall. split; [by apply good_cfg_Forall|].
  rewrite forallb_forall in Hall. intros i m Hi.
  assert (In m cfg) as Hin by (apply elem_of_list_In; by eapply elem_of_list_lookup_2).
  specialize (Hall m Hin). rewrite orb_true_iff in Hall.
  destruct Hall as [Heq|?]; [left|by right]. by apply N.eqb_eq in Heq.
Qed.

(** a node that ingested one batch from genesis *)
Lemma fresh_node_inv U l : WF U → MInv U (add_blocks U init l).1.1 ∧ all_body (add_blocks U init l).1.1.
Proof.
  intros HWF. split.
  - apply (mrun_inv U HWF [AddBlocks l]). repeat constructor.
  - apply all_body_add_blocks, all_body_init.
Qed.

(** * A pre-validated batch whose prefix is already on our best chain
    AddValidatedV2Blocks skips the blocks it already has on the best chain and goes on
    ([store_validated], fix b5712b1): the rest of the batch is stored and, if its last block
    is sufficiently heavier than our tip, adopted. *)
Lemma last_indep {A} (l : list A) c d : l ≠ [] → List.last l c = List.last l d.
Proof. intros Hne. destruct l as [|x l _] using rev_ind; [done|]. by rewrite !last_last. Qed.

Lemma known_prefix_batch_adopted :
  ∀ U m c pre suf,
    WF U → MInv U m → all_body m →
    c ∈ best m → (∀ x, x ∈ pre → x ∈ best m) →
    suf ≠ [] → lp U (reverse (pre ++ suf)) c →
    (∀ x, x ∈ pre ++ suf → okb U x = true) →
    heavier U (List.last suf c) (tip m) = true →
    ∃ m', add_validated U m (pre ++ suf) = (m', Ok, true) ∧ tip m' = List.last suf c ∧
          MInv U m' ∧ all_body m' ∧ (∀ x, x ∈ suf → x ∈ best m').
Proof.
  intros U m c pre suf HWF HI Hab Hc _ Hne Hl Hok Hhv.
  destruct (add_validated_live U HWF m c (pre ++ suf)) as (m' & E & HI' & Hab' & _ & Ht);
    try done.
  { by apply hangs_best. }
  { intros He. apply app_eq_nil in He as [_ ?]. done. }
  rewrite last_app_ne in E, Ht by done.
  rewrite (last_indep suf (List.last pre c) c) in E, Ht by done.
  rewrite Hhv in E, Ht. exists m'. split_and!; try done.
  rewrite reverse_app in Hl. apply lp_app in Hl as [Hl _].
  destruct (chain_split U HWF (best m') (reverse suf) (hd c (reverse pre)) (I_chain U m' HI'))
    as (rest & Hb); [|done|].
  - rewrite hd_reverse_last. fold (tip m'). rewrite Ht. by apply last_indep.
  - intros x Hx. rewrite Hb. apply elem_of_app. left. by apply elem_of_reverse.
Qed.

(** the same through the syncer's [submit], for a request at or above the require height *)
Lemma submit_known_prefix U P m bh c pre suf :
  WF U → MInv U m → all_body m → reqh P ≤ bh →
  c ∈ best m → (∀ x, x ∈ pre → x ∈ best m) →
  suf ≠ [] → lp U (reverse (pre ++ suf)) c →
  (∀ x, x ∈ pre ++ suf → okb U x = true) →
  heavier U (List.last suf c) (tip m) = true →
  ∃ m', submit U P m bh (pre ++ suf) = (m', Ok, true) ∧ tip m' = List.last suf c ∧
        MInv U m' ∧ all_body m' ∧ (∀ x, x ∈ suf → x ∈ best m').
Proof.
  intros HWF HI Hab Hr. unfold submit. replace (reqh P <=? bh) with true by lia.
  by apply known_prefix_batch_adopted.
Qed.

(** the seeded variant: the store loop *returns* at the first block that is already on the
    best chain (reporting success) instead of continuing *)
Fixpoint store_until_known (m : mgr) (batch : list N) : mgr * bool :=
  match batch with
  | [] => (m, false)
  | b :: rest =>
      if has_state m b && on_best m b then (m, true)
      else store_until_known
             (Mgr (<[b := KI (Some SFull) true true]> (known m)) (best m)) rest
  end.
Definition add_validated_stop (U : universe) (m : mgr) (batch : list N) : mgr * outcome * bool :=
  match batch with
  | [] => (m, Ok, false)
  | b0 :: _ =>
      match U !! b0 with
      | None => (m, Err, false)
      | Some B0 =>
          if negb (has_state m (parent B0)) then (m, Err, false)
          else match store_until_known m batch with
               | (m1, true) => (m1, Ok, false)                    (* "return nil" *)
               | (m1, false) => maybe_reorg U m1 (List.last batch b0)
               end
      end
  end.

Section KnownPrefix.
  (** genesis 0; trunk 1-2-3; our own block 4 on 3; the peer's fork 5-6 on 3 *)
  Definition kpU : universe := list_to_map [
    (0, Blk 0 0 true false true 10 10);
    (1, Blk 0 1 true false true 20 10);
    (2, Blk 1 2 true false true 30 10);
    (3, Blk 2 3 true false true 40 10);
    (4, Blk 3 4 true false true 50 10);
    (5, Blk 3 4 true false true 51 10);
    (6, Blk 5 5 true false true 62 10) ].
  Definition kpm : mgr := (add_blocks kpU init [1; 2; 3; 4]).1.1.

  Lemma kpU_wf : WF kpU.
  Proof. apply wfb_sound. vm_compute. reflexivity. Qed.
  Lemma kpm_best : best kpm = [4; 3; 2; 1; 0].
  Proof. vm_compute. reflexivity. Qed.

  Lemma kp_hyps :
    WF kpU ∧ MInv kpU kpm ∧ all_body kpm ∧
    1 ∈ best kpm ∧ (∀ x, x ∈ [2; 3] → x ∈ best kpm) ∧
    [5; 6] ≠ [] ∧ lp kpU (reverse ([2; 3] ++ [5; 6])) 1 ∧
    (∀ x, x ∈ [2; 3] ++ [5; 6] → okb kpU x = true) ∧
    heavier kpU (List.last [5; 6] 1) (tip kpm) = true.
  Proof.
    split_and!.
    - apply kpU_wf.
    - apply fresh_node_inv, kpU_wf.
    - apply fresh_node_inv, kpU_wf.
    - rewrite kpm_best. set_solver.
    - rewrite kpm_best. set_solver.
    - done.
    - vm_compute. split_and!; eauto; done.
    - intros x Hx. cbn [app] in Hx.
      repeat (apply elem_of_cons in Hx as [->|Hx]; [vm_compute; reflexivity|]).
      by apply elem_of_nil in Hx.
    - vm_compute. reflexivity.
  Qed.

  (** the theorem applies, and the result is the peer's chain *)
  Example kp_adopted :
    ∃ m', add_validated kpU kpm ([2; 3] ++ [5; 6]) = (m', Ok, true) ∧ tip m' = 6 ∧
          MInv kpU m' ∧ all_body m' ∧ (∀ x, x ∈ [5; 6] → x ∈ best m').
  Proof.
    destruct kp_hyps as (? & ? & ? & ? & ? & ? & ? & ? & ?).
    by apply (known_prefix_batch_adopted kpU kpm 1 [2; 3] [5; 6]).
  Qed.

  Example kp_adopted_computed :
    ∃ m', add_validated kpU kpm ([2; 3] ++ [5; 6]) = (m', Ok, true) ∧
          best m' = [6; 5; 3; 2; 1; 0].
  Proof. eexists. vm_compute. split; reflexivity. Qed.

  Example kp_stop_computed :
    ∃ m', add_validated_stop kpU kpm ([2; 3] ++ [5; 6]) = (m', Ok, false) ∧
          best m' = [4; 3; 2; 1; 0] ∧ has_hdr m' 5 = false.
  Proof. eexists. vm_compute. split_and!; reflexivity. Qed.

  (** returning at the first known block loses the batch: the call reports success, stores
      nothing and stays on the lighter chain, although every hypothesis under which the real
      entry point adopts the batch holds *)
  Lemma stop_at_known_block_refuted :
    ∃ U m c pre suf,
      WF U ∧ MInv U m ∧ all_body m ∧
      c ∈ best m ∧ (∀ x, x ∈ pre → x ∈ best m) ∧
      suf ≠ [] ∧ lp U (reverse (pre ++ suf)) c ∧
      (∀ x, x ∈ pre ++ suf → okb U x = true) ∧
      heavier U (List.last suf c) (tip m) = true ∧
      (∃ m', add_validated U m (pre ++ suf) = (m', Ok, true) ∧ tip m' = List.last suf c) ∧
      (∃ m', add_validated_stop U m (pre ++ suf) = (m', Ok, false) ∧
             best m' = best m ∧ tip m' ≠ List.last suf c).
  Proof.
    exists kpU, kpm, 1, [2; 3], [5; 6].
    destruct kp_hyps as (? & ? & ? & ? & ? & ? & ? & ? & ?).
    split_and!; try done.
    - destruct kp_adopted as (m' & ? & ? & _). eauto.
    - destruct kp_stop_computed as (m' & E & Hb & _). exists m'. split_and!; [done| |].
      + by rewrite Hb, kpm_best.
      + unfold tip. rewrite Hb. cbn. done.
  Qed.
End KnownPrefix.

(** * The literal statement is false: two sibling blocks of equal work (F11) *)
Section Refute.
  Definition refU : universe := list_to_map [
    (0, Blk 0 0 true false true 1 1);
    (1, Blk 0 1 true false true 2 2);
    (2, Blk 0 1 true false true 2 2) ].
  Definition refP : params := Params 10000 100 1000.
  Definition refcfg : net := [(add_blocks refU init [1]).1.1; (add_blocks refU init [2]).1.1].

  Lemma refU_wf : WF refU.
  Proof. apply wfb_sound. vm_compute. reflexivity. Qed.
  Lemma refU_wfw : WFW refU.
  Proof. apply wfwb_sound. vm_compute. reflexivity. Qed.

  Lemma refcfg_nodes : Forall (good_node refU refP) refcfg.
  Proof.
    repeat (apply Forall_cons_2; [|]); [| |apply Forall_nil_2];
      (apply node_okb_sound; [apply fresh_node_inv, refU_wf|apply fresh_node_inv, refU_wf|
                              vm_compute; reflexivity]).
  Qed.

  Lemma refcfg_tips : tips refcfg = [1; 2].
  Proof. vm_compute. reflexivity. Qed.

  Lemma refcfg_quiet : quiet refU (λ _ _, True) refcfg.
  Proof.
    assert (∀ i m, refcfg !! i = Some m → tip m = 1 ∨ tip m = 2) as Ht.
    { intros i m Hi. assert (tip m ∈ tips refcfg) as Hin.
      { unfold tips. apply elem_of_list_In, in_map, elem_of_list_In.
        by eapply elem_of_list_lookup_2. }
      rewrite refcfg_tips in Hin. set_solver. }
    intros i j mi mj _ Ei Ej.
    destruct (Ht i mi Ei) as [->| ->], (Ht j mj Ej) as [->| ->]; vm_compute; reflexivity.
  Qed.

  Lemma literal_statement_refuted :
    ∃ U P E cfg, WF U ∧ WFW U ∧ 0 < bpr P ∧ good_cfg U P cfg ∧ E = [(0%nat, 1%nat)] ∧
      (∃ t1 t2, tips cfg = [t1; t2] ∧ t1 ≠ t2) ∧
      ∀ sched, tips (run_sched U P cfg sched) = tips cfg.
  Proof.
    exists refU, refP, [(0%nat, 1%nat)], refcfg.
    pose proof (good_cfg_Forall _ _ _ refcfg_nodes) as Hg.
    split_and!; try done.
    - apply refU_wf.
    - apply refU_wfw.
    - exists 1, 2. split; [apply refcfg_tips|done].
    - intros sched.
      apply (quiet_run refU refU_wf refU_wfw refP eq_refl (λ _ _, True)); try done.
      apply refcfg_quiet.
  Qed.
End Refute.

(** * Example: the hypotheses of the theorems are met by a concrete network *)
Section Ex.
  (** genesis 0; chain 1-2-3; a fork 4 on genesis.  Three nodes on a line: node 0 holds
      the chain, node 1 the fork, node 2 only genesis. *)
  Definition cxU : universe := list_to_map [
    (0, Blk 0 0 true false true 10 10);
    (1, Blk 0 1 true false true 20 10);
    (2, Blk 1 2 true false true 30 10);
    (3, Blk 2 3 true false true 40 10);
    (4, Blk 0 1 true false true 21 10) ].
  Definition cxP : params := Params 10000 2 1000.
  Definition cxE : list (nat * nat) := [(0, 1); (1, 2)]%nat.
  Definition cxcfg : net :=
    [(add_blocks cxU init [1; 2; 3]).1.1; (add_blocks cxU init [4]).1.1; init].
  Definition cxs : list (nat * nat) := [(1, 0); (0, 1); (2, 1); (1, 2)]%nat.

  Example cxU_wf : WF cxU.
  Proof. apply wfb_sound. vm_compute. reflexivity. Qed.
  Example cxU_wfw : WFW cxU.
  Proof. apply wfwb_sound. vm_compute. reflexivity. Qed.

  Example cxcfg_tips : tips cxcfg = [3; 4; 0].
  Proof. vm_compute. reflexivity. Qed.

  Example cxcfg_nodes : Forall (good_node cxU cxP) cxcfg.
  Proof.
    repeat (apply Forall_cons_2; [|]); [| | |apply Forall_nil_2].
    1,2: (apply node_okb_sound; [apply fresh_node_inv, cxU_wf|apply fresh_node_inv, cxU_wf|
                                 vm_compute; reflexivity]).
    apply node_okb_sound; [apply MInv_init, cxU_wf|apply all_body_init|vm_compute; reflexivity].
  Qed.

  Example cxcfg_good : good_cfg cxU cxP cxcfg.
  Proof. apply good_cfg_Forall, cxcfg_nodes. Qed.

  Example cxcfg_sep : sep_cfg cxU cxP 3 cxcfg.
  Proof. apply sep_cfg_Forall; [apply cxcfg_nodes|vm_compute; reflexivity]. Qed.

  Example cxs_fair : fair cxE cxs.
  Proof. intros i j [Hin|Hin]; unfold cxE, cxs in *; set_solver. Qed.

  Example cx_within : ∀ i, (i < length cxcfg)%nat → within cxE 0 2 i.
  Proof.
    intros i Hi. cbn in Hi. destruct i as [|[|[|i]]]; [| | |lia]; cbn [within].
    - left. by left.
    - left. right. exists 0%nat. split; [done|]. right. unfold cxE. set_solver.
    - right. exists 1%nat. split.
      + right. exists 0%nat. split; [done|]. right. unfold cxE. set_solver.
      + right. unfold cxE. set_solver.
  Qed.

  (** two fair rounds bring every node to block 3, whatever else happens in between *)
  Example cx_converges :
    (∀ m, m ∈ run_sched cxU cxP cxcfg (concat [cxs; cxs]) → tip m = 3).
  Proof.
    apply (convergence_under_separation cxU cxP cxE cxcfg 3 0%nat [cxs; cxs]).
    - apply cxU_wf.
    - apply cxU_wfw.
    - done.
    - apply cxcfg_sep.
    - eexists. split; [done|]. vm_compute. reflexivity.
    - intros e He. unfold cxE in He. cbn [length cxcfg]. set_solver by lia.
    - apply cx_within.
    - intros s Hs. assert (s = cxs) as -> by set_solver. apply cxs_fair.
  Qed.

  Example cx_converges_computed :
    tips (run_sched cxU cxP cxcfg (concat [cxs; cxs])) = [3; 3; 3].
  Proof. vm_compute. reflexivity. Qed.

  (** [stable_otherwise] applies to the same network *)
  Example cx_stable :
    ∃ sched, (∀ e, e ∈ sched → adjacent cxE e.1 e.2) ∧
      good_cfg cxU cxP (run_sched cxU cxP cxcfg sched) ∧
      quiescent cxU cxE (run_sched cxU cxP cxcfg sched) ∧
      ∀ more, (∀ e, e ∈ more → adjacent cxE e.1 e.2) →
        tips (run_sched cxU cxP (run_sched cxU cxP cxcfg sched) more) =
        tips (run_sched cxU cxP cxcfg sched).
  Proof. apply stable_otherwise; [apply cxU_wf|apply cxU_wfw|done|apply cxcfg_good]. Qed.

  (** the range hypothesis on [E] in [convergence_under_separation] is needed: nodes 0
      (on block 3) and 1 (on genesis) joined only through the index 5, which holds no
      node, satisfy every other hypothesis and never converge *)
  Definition nrE : list (nat * nat) := [(0, 5); (5, 1)]%nat.
  Definition nrs : list (nat * nat) := [(0, 5); (5, 0); (5, 1); (1, 5)]%nat.
  Definition nrcfg : net := [(add_blocks cxU init [1; 2; 3]).1.1; init].

  Example nrcfg_nodes : Forall (good_node cxU cxP) nrcfg.
  Proof.
    repeat (apply Forall_cons_2; [|]); [| |apply Forall_nil_2].
    - apply node_okb_sound; [apply fresh_node_inv, cxU_wf|apply fresh_node_inv, cxU_wf|
                             vm_compute; reflexivity].
    - apply node_okb_sound; [apply MInv_init, cxU_wf|apply all_body_init|vm_compute; reflexivity].
  Qed.

  Example nrs_fair : fair nrE nrs.
  Proof. intros i j [Hin|Hin]; unfold nrE, nrs in *; set_solver. Qed.

  Example nr_within : ∀ i, (i < length nrcfg)%nat → within nrE 0 2 i.
  Proof.
    intros i Hi. cbn in Hi. destruct i as [|[|i]]; [| |lia]; cbn [within].
    - left. by left.
    - right. exists 5%nat. split.
      + right. exists 0%nat. split; [done|]. right. unfold nrE. set_solver.
      + right. unfold nrE. set_solver.
  Qed.

  Example nr_tips : tips (run_sched cxU cxP nrcfg (concat [nrs; nrs])) = [3; 0].
  Proof. vm_compute. reflexivity. Qed.

  Example convergence_needs_edges_in_range :
    ∃ U P E cfg H k0 rounds,
      WF U ∧ WFW U ∧ 0 < bpr P ∧
      sep_cfg U P H cfg ∧ (∃ m, cfg !! k0 = Some m ∧ tip m = H) ∧
      (∀ i, (i < length cfg)%nat → within E k0 (length rounds) i) ∧
      (∀ s, s ∈ rounds → fair E s) ∧
      ¬ (∀ m, m ∈ run_sched U P cfg (concat rounds) → tip m = H).
  Proof.
    exists cxU, cxP, nrE, nrcfg, 3, 0%nat, [nrs; nrs].
    split_and!.
    - apply cxU_wf.
    - apply cxU_wfw.
    - done.
    - apply sep_cfg_Forall; [apply nrcfg_nodes|vm_compute; reflexivity].
    - eexists. split; [done|]. vm_compute. reflexivity.
    - apply nr_within.
    - intros s' Hs'. assert (s' = nrs) as -> by set_solver. apply nrs_fair.
    - intros Hall.
      assert (In 0 (tips (run_sched cxU cxP nrcfg (concat [nrs; nrs])))) as Hin
        by (rewrite nr_tips; cbn; auto).
      unfold tips in Hin. apply in_map_iff in Hin as (m & Hm & Hin).
      apply elem_of_list_In, Hall in Hin. congruence.
  Qed.
End Ex.
