(** * Net/MgrLive.v — liveness of the manager model [Chain/Manager.v] (used by C11 and C12).

    [Chain/ManagerProofs.v] proves safety (the invariant [MInv]).  The syncer properties
    also need the converse direction: a chain of valid blocks that hangs on our best chain
    and whose last block is [heavier] than our tip *is* adopted when it is submitted, through
    either entry point (AddBlocks, manager.go:251-319 / AddValidatedV2Blocks, 324-370).

    The only extra hypothesis is that the node never pruned ([all_body]: every stored block
    still has its body), which the node models of Net/Sync.v and Net/Converge.v preserve
    (they never call PruneBlocks). *)
From Coq Require Import NArith ZArith List Lia ZifyBool ZifyNat ZifyN.
From stdpp Require Import gmap.
From CV Require Import Chain.Manager Chain.ManagerProofs.
Import ListNotations.
Open Scope N_scope.

Section Live.
  Context (U : universe).

  (** no pruning ever happened *)
  Definition all_body (m : mgr) : Prop := ∀ b k, known m !! b = Some k → kbody k = true.

  (** a block that AddBlocks accepts and applyTip validates *)
  Definition okb (b : N) : bool :=
    match U !! b with
    | Some B => hdr_ok B && body_ok B && negb (future B)
    | None => false
    end.

  (** stored, and applyTip will succeed on it *)
  Definition appl (m : mgr) (x : N) : Prop :=
    has_body m x = true ∧ has_state m x = true ∧
    (has_supp m x = true ∨ ∃ B, U !! x = Some B ∧ body_ok B = true).

  (** [c] hangs on the best chain of [m] through stored, applicable blocks
      ([p] is tip-first, [hd a p = c]; [p = []] means [c] itself is on the best chain) *)
  Definition hangs (m : mgr) (c : N) : Prop :=
    ∃ p a, lp U p a ∧ hd a p = c ∧ a ∈ best m ∧ ∀ x, x ∈ p → appl m x.
End Live.
