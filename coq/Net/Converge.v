(** * Net/Converge.v — C12: honest nodes pulling from each other (definitions only).

    n manager models ([Chain/Manager.v]) over one block universe; a connected topology;
    steps in which node i pulls from a neighbour j, as the syncer's syncLoop does
    (syncer/syncer.go:784-864 with parallel_sync.go:17-239) against the peer's
    handlers (syncer/peer.go:275-305), which answer from the peer's chain.Manager
    (chain/manager.go:157-241: History, Headers, BlocksForHistory).

    Honest peers only: every answer is computed from the peer's manager model.  The
    checks the syncer applies to answers (header linkage/work, block = header, checkpoint
    binding, ValidateBlock) are modelled in Net/Sync.v; on answers computed from a manager
    satisfying [MInv] they all pass, so here a pull goes straight to the two entry points.

    Not modelled (exercised by the harness): sockets, timeouts, goroutine scheduling, the
    worker pool and re-queueing of parallelSync, the synced/resync flags and relays that
    decide *when* a pull happens.  The model says what one pull does; schedules are
    arbitrary lists of pulls. *)
From stdpp Require Import gmap.
From Coq Require Import NArith ZArith List.
From CV Require Import Chain.Manager.
Import ListNotations.
Open Scope N_scope.

(** syncer configuration that matters here *)
Record params := Params {
  maxh : N;   (* config.MaxSendHeaders (syncer.go:167: 10000), SendHeaders batch *)
  bpr  : N;   (* blocks per SendV2Blocks request (parallel_sync.go:37; after the repair: config.MaxSendBlocks) *)
  reqh : N;   (* Network.HardforkV2.RequireHeight: base height >= reqh switches to checkpoint sync *)
}.

(** ** chain.Manager's read side *)

(** height of the tip = length of the best chain - 1 ([best] is tip first, genesis last) *)
Definition tip_height (m : mgr) : N := N.of_nat (length (best m)) - 1.

(** manager.go:165-174
      offset := uint64(i); if offset >= 10 { offset = 7 + 1<<(i-8) }
      if offset > tipHeight { offset = tipHeight }; return tipHeight - offset *)
Definition hist_offset (i : N) : N := if i <? 10 then i else 7 + 2 ^ (i - 8).

(** the block at height tipHeight - offset is at position offset of [best] *)
Definition hist_entry (m : mgr) (i : N) : N :=
  nth (N.to_nat (N.min (hist_offset i) (tip_height m))) (best m) genesis.

(** manager.go:175-183: 32 ids (a genesis-rooted node has every BestIndex) *)
Definition history (m : mgr) : list N :=
  map (λ i, hist_entry m (N.of_nat i)) (seq 0 32).

(** the blocks of the best chain above [a], in ascending order; [None] if [a] is not on
    the best chain *)
Fixpoint above_aux (l : list N) (a : N) (acc : list N) : option (list N) :=
  match l with
  | [] => None
  | x :: r => if x =? a then Some acc else above_aux r a (x :: acc)
  end.
Definition above (m : mgr) (a : N) : option (list N) := above_aux (best m) a [].

Definition take_n (n : N) (l : list N) : list N := firstn (N.to_nat n) l.

(** Headers (manager.go:189-206): error unless BestIndex(index.Height) = index; up to
    [max] consecutive headers above it and the number remaining up to the tip *)
Definition headers (m : mgr) (a : N) (max : N) : option (list N * N) :=
  match above m a with
  | None => None                          (* "index ... is not on our best chain" *)
  | Some l => let r := take_n max l in
              Some (r, N.of_nat (length l - length r))
  end.

(** BlocksForHistory (manager.go:213-241): the attach point is the first id of the
    history whose state we have and which is on *our best chain* (215-224); genesis if
    there is none *)
Definition attach_of (m : mgr) (hist : list N) : N :=
  match find (λ id, has_state m id && on_best m id) hist with
  | Some a => a
  | None => genesis
  end.
Definition blocks_for_history (m : mgr) (hist : list N) (max : N) : list N * N :=
  match above m (attach_of m hist) with
  | Some l => let r := take_n max l in (r, N.of_nat (length l - length r))
  | None => ([], 0)                       (* not reachable: the attach point is on the best chain *)
  end.

Section Pull.
  Context (U : universe) (P : params).

  Definition hgt (b : N) : N := match U !! b with Some B => height B | None => 0 end.

  (** syncer.go:818-836: the ids of our history are tried in order; the peer's Headers
      fails ("EOF") for an index that is not on its best chain; the first one that is
      answered is the attach point.  [None] = "no common history" (the peer is dropped). *)
  Definition find_attach (hist : list N) (mj : mgr) : option N :=
    find (λ id, on_best mj id) hist.
  (** the ids tried before the attach point (each costs one failed SendHeaders) *)
  Fixpoint tried_before (hist : list N) (mj : mgr) : list N :=
    match hist with
    | [] => []
    | id :: r => if on_best mj id then [] else id :: tried_before r mj
    end.

  (** parallel_sync.go:36-51: the header batch is cut into requests of [bpr] blocks *)
  Fixpoint chunks_aux (fuel : nat) (n : nat) (l : list N) : list (list N) :=
    match fuel with
    | O => []
    | S f => match l with
             | [] => []
             | _ => firstn n l :: chunks_aux f n (skipn n l)
             end
    end.
  Definition chunks (l : list N) : list (list N) :=
    chunks_aux (length l) (N.to_nat (bpr P)) l.

  (** parallel_sync.go:117-130: a finished request is handed to AddValidatedV2Blocks when
      its base height is at or above the require height (57, 120), else to AddBlocks *)
  Definition submit (m : mgr) (base_height : N) (chunk : list N) : mgr * outcome * bool :=
    if reqh P <=? base_height then add_validated U m chunk else add_blocks U m chunk.

  (** requests are submitted in order (finished counter, 210-223); the first error ends
      the sync (125-129).  Returns the submissions that were made, for the correspondence. *)
  Fixpoint submit_all (m : mgr) (bh : N) (cs : list (list N)) : mgr * outcome :=
    match cs with
    | [] => (m, Ok)
    | c :: rest =>
        match submit m bh c with
        | (m', Ok, _) => submit_all m' (bh + bpr P) rest
        | (m', o, _) => (m', o)
        end
    end.

  (** one pull of node [mi] from neighbour [mj] *)
  Definition pull (mi mj : mgr) : mgr :=
    match find_attach (history mi) mj with
    | None => mi
    | Some a =>
        match headers mj a (maxh P) with
        | Some (hs, _) => (submit_all mi (hgt a) (chunks hs)).1
        | None => mi
        end
    end.

  (** what the harness can observe of a pull: the ids tried, the attach point, the header
      batch, and the submissions (pre-validated?, blocks) *)
  Fixpoint subs_of (bh : N) (cs : list (list N)) : list (bool * list N) :=
    match cs with
    | [] => []
    | c :: rest => (reqh P <=? bh, c) :: subs_of (bh + bpr P) rest
    end.
  Definition pull_trace (mi mj : mgr) : list N * option N * list N * list (bool * list N) :=
    let h := history mi in
    match find_attach h mj with
    | None => (tried_before h mj, None, [], [])
    | Some a =>
        match headers mj a (maxh P) with
        | Some (hs, _) => (tried_before h mj, Some a, hs, subs_of (hgt a) (chunks hs))
        | None => (tried_before h mj, Some a, [], [])
        end
    end.

  (** ** Networks *)
  Definition net := list mgr.

  (** node [e.1] pulls from node [e.2] *)
  Definition pull_step (cfg : net) (e : nat * nat) : net :=
    match cfg !! e.1, cfg !! e.2 with
    | Some mi, Some mj => <[e.1 := pull mi mj]> cfg
    | _, _ => cfg
    end.
  Definition run_sched (cfg : net) (sched : list (nat * nat)) : net :=
    fold_left pull_step sched cfg.

  Definition tips (cfg : net) : list N := map tip cfg.

  (** ** Vocabulary of the C12 theorems (predicates only) *)

  (** the work law the 20 % rule relies on (consensus/state.go:217-237: "an entire additional
      block will definitely qualify"): a block is [heavier] than its parent.  Checked by the
      harness on every generated tree. *)
  Definition WFW : Prop :=
    ∀ b B, U !! b = Some B → b ≠ genesis → heavier U b (parent B) = true.

  (** a block AddBlocks accepts and applyTip validates (same as Net/MgrLive.v [okb]) *)
  Definition acceptable (b : N) : bool :=
    match U !! b with
    | Some B => hdr_ok B && body_ok B && negb (future B)
    | None => false
    end.

  (** topology: undirected edges between node indices *)
  Definition adjacent (E : list (nat * nat)) (i j : nat) : Prop := (i, j) ∈ E ∨ (j, i) ∈ E.
  (** a fair round: every node pulls at least once from every neighbour, in any order and
      interleaved with any other pulls *)
  Definition fair (E : list (nat * nat)) (s : list (nat * nat)) : Prop :=
    ∀ i j, adjacent E i j → (i, j) ∈ s.
  (** [within E k d i]: node [i] is at most [d] hops away from node [k] *)
  Fixpoint within (E : list (nat * nat)) (k : nat) (d : nat) (i : nat) : Prop :=
    match d with
    | O => i = k
    | S d' => within E k d' i ∨ ∃ j, within E k d' j ∧ adjacent E i j
    end.

  (** no node's tip is sufficiently heavier than a neighbour's *)
  Definition quiescent (E : list (nat * nat)) (cfg : net) : Prop :=
    ∀ i j mi mj, adjacent E i j → cfg !! i = Some mi → cfg !! j = Some mj →
      heavier U (tip mj) (tip mi) = false.
End Pull.
