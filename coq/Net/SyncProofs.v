(** * Net/SyncProofs.v — C11: proofs about the node model of [Net/Sync.v].

    - safety: whatever the peers send, the manager keeps the C01 invariant, is never pruned,
      never loses work, and [AddValidatedV2Blocks] is only ever called with batches that
      satisfy its documented precondition (with the repair C11-1; without it: refuted);
    - bans: a [Ban] names the sender of a message the node itself judged invalid; a peer
      sending only data of valid chains is never banned; each listed misbehaviour that
      reaches its handler is banned;
    - progress: one sync round with an honest peer that offers a sufficiently heavier valid
      chain adopts it, from every state reachable under arbitrary earlier messages. *)
From Coq Require Import NArith ZArith List Lia ZifyBool ZifyNat ZifyN.
From stdpp Require Import gmap.
From CV Require Import Chain.Manager Chain.ManagerProofs Net.MgrLive Net.MgrLiveProofs
  Net.Converge Net.Sync.
Import ListNotations.
Open Scope N_scope.

(** well-formedness of the syncer-level labels: what symbolic hashing gives *)
Record WFX (U : universe) (X : xuniverse) (P : params) : Prop := {
  (* a fully valid block term is the canonical body of its id *)
  wx_canon : ∀ t B, U !! t = Some B → hdr_ok B = true → body_ok B = true → hid (xget X t) = t;
  (* ValidateBlock checks the v2 commitment against the true parent state *)
  wx_commit : ∀ t B, U !! t = Some B → hdr_ok B = true → body_ok B = true →
               isv2 (xget X t) = true → cstate (xget X t) = Some (StOf (parent B));
  (* the id covers the commitment field and the commitment binds the state (injective hash) *)
  wx_bind : ∀ t t' s s', hid (xget X t) = hid (xget X t') →
               cstate (xget X t) = Some s → cstate (xget X t') = Some s' → s = s';
  (* at or above the require height a header-valid block is a v2 block *)
  wx_v2 : ∀ t B, U !! t = Some B → hdr_ok B = true → reqh P ≤ height B → isv2 (xget X t) = true;
  (* a header-valid block meets its target *)
  wx_pow : ∀ t B, U !! t = Some B → hdr_ok B = true → pow_ok (xget X t) = true ∧ hv_ok (xget X t) = true;
}.

(** the node never pruned and its manager satisfies the C01 invariant *)
Definition NInv (U : universe) (n : node) : Prop := MInv U (n_mgr n) ∧ all_body (n_mgr n).

(** rounds whose requests all take the same path (all below the require height, or all at or
    above it); a round that straddles the require height with more than one request is outside
    the theorems (checks/C11.json says so) *)
Definition uniform (U : universe) (P : params) (mg : msg) : Prop :=
  match mg with
  | MSync _ a hs _ _ => reqh P ≤ hgt U a ∨ hgt U a + N.of_nat (length hs) ≤ reqh P
  | _ => True
  end.

Definition sender (mg : msg) : N :=
  match mg with
  | MConnect p | MSync p _ _ _ _ | MNoHistory p | MHeader p _ | MOutline p _ _ | MTxns p _ _ | MGarbage p => p
  end.

(** The genesis block is nobody's child: its parent field does not name another block of the
    universe (the genesis ParentID is the zero id; in the model [par] of an unknown id is 0 =
    [genesis]).  [WF] leaves the parent field of genesis unconstrained, and a universe in which
    genesis is labelled valid and "hangs" on a block at or above the require height lets a peer
    walk an instant-sync round down to genesis, for which no commitment is bound ([wx_v2] says
    nothing at height 0): see [groot_needed] below for the concrete attack.
    The theorems about the instant-sync path therefore assume [GRoot]. *)
Definition GRoot (U : universe) : Prop := par U genesis = genesis.

(** the tip's work never decreases and the tip only moves to a sufficiently heavier block *)
Definition mono (U : universe) (m m' : mgr) : Prop :=
  (twof U (tip m) ≤ twof U (tip m'))%Z ∧
  (tip m' ≠ tip m → heavier U (tip m') (tip m) = true).

(** ** Vocabulary of the ban theorems *)

(** the situations in which the node itself judges the current message invalid *)
Definition judged_invalid (U : universe) (X : xuniverse) (P : params) (subnets : N → list N)
    (n : node) (mg : msg) : Prop :=
  match mg with
  | MHeader p h => pow_ok (xget X h) = false
  | MOutline p b c =>
      pow_ok (xget X b) = false ∨ c = FetchedWrong ∨ (add_terms U X (n_mgr n) [b]).1.2 ≠ Ok
  | MTxns p basis empty => empty = true
  | MSync p a hs rem0 rs =>
      (do_requests U X P true (n_mgr n) a (hgt U a) (chunks P hs) rs).1.2 = RBan
  | MConnect _ | MNoHistory _ | MGarbage _ => False
  end.

(** an honest answer list for the requests [hcs] of a round: request by request, with the base
    of the request (the attach point, then the last block of the previous request) and the
    base height the syncer computes ([hgt a + bpr * index]) *)
Fixpoint honest_rs (U : universe) (P : params) (base bh : N) (hcs : list (list N))
    (rs : list cresp) : Prop :=
  match hcs, rs with
  | hj :: hrest, r :: rrest =>
      (r = CFail ∨
       (bh < reqh P ∧ r = CBlocks hj) ∨
       (reqh P ≤ bh ∧ ∃ j, r = CInstant base (StOf (par U base)) j hj)) ∧
      honest_rs U P (List.last hj base) (bh + bpr P) hrest rrest
  | _, _ => True
  end.

(** a message as a peer that only sends data of valid chains produces it *)
Definition honest_msg (U : universe) (X : xuniverse) (P : params) (m : mgr) (mg : msg) : Prop :=
  match mg with
  | MConnect _ | MNoHistory _ | MGarbage _ => True
  | MHeader p h => inU U h = true → okb U h = true
  | MOutline p b c =>
      (c = Complete ∨ c = FetchedOk ∨ c = FetchFailed) ∧ (inU U b = true → okb U b = true)
  | MTxns p basis empty => empty = false
  | MSync p a hs rem0 rs =>
      lp U (reverse hs) a ∧ (∀ x, x ∈ hs → okb U x = true) ∧
      uniform U P mg ∧ honest_rs U P a (hgt U a) (chunks P hs) rs
  end.

(** the listed misbehaviours, each with the conditions under which its handler is reached *)
Inductive listed (U : universe) (X : xuniverse) (P : params) (n : node) : msg → Prop :=
| L_header p h :
    live n p = true → inU U h = true → has_state (n_mgr n) (par U h) = true →
    has_state (n_mgr n) h = false →
    pow_ok (xget X h) = false → listed U X P n (MHeader p h)
| L_outline_work p b c :
    live n p = true → inU U b = true → has_state (n_mgr n) (par U b) = true →
    (full_state (n_mgr n) (par U b) && has_state (n_mgr n) (hid (xget X b))) = false →
    par U b = tip (n_mgr n) →
    pow_ok (xget X b) = false → listed U X P n (MOutline p b c)
| L_outline_missing p b :
    live n p = true → inU U b = true → has_state (n_mgr n) (par U b) = true →
    (full_state (n_mgr n) (par U b) && has_state (n_mgr n) (hid (xget X b))) = false →
    par U b = tip (n_mgr n) →
    pow_ok (xget X b) = true → listed U X P n (MOutline p b FetchedWrong)
| L_outline_invalid p b c :
    live n p = true → inU U b = true → has_state (n_mgr n) (par U b) = true →
    (full_state (n_mgr n) (par U b) && has_state (n_mgr n) (hid (xget X b))) = false →
    par U b = tip (n_mgr n) →
    pow_ok (xget X b) = true → (c = Complete ∨ c = FetchedOk) →
    (add_terms U X (n_mgr n) [b]).1.2 ≠ Ok → listed U X P n (MOutline p b c)
| L_txns_empty p basis :
    live n p = true → has_body (n_mgr n) basis = true → listed U X P n (MTxns p basis true)
| L_sync p a hs rem0 rs :
    unsynced n p = true →
    (bool_decide (a ∈ history (n_mgr n)) && has_state (n_mgr n) a) = true →
    headers_ok U X a hs = true → hs ≠ [] →
    (do_requests U X P true (n_mgr n) a (hgt U a) (chunks P hs) rs).1.2 = RBan →
    listed U X P n (MSync p a hs rem0 rs).

(** ** Generic list facts *)
Lemma sy_hd_reverse_last {A} (l : list A) : ∀ c, hd c (reverse l) = List.last l c.
Proof.
  induction l as [|x l IH] using rev_ind; intros c; [done|].
  rewrite reverse_snoc. cbn [hd]. by rewrite last_last.
Qed.

Lemma sy_last_app_ne {A} (l1 l2 : list A) c :
  l2 ≠ [] → List.last (l1 ++ l2) c = List.last l2 (List.last l1 c).
Proof.
  intros Hne. destruct l2 as [|x l2 _] using rev_ind; [done|].
  by rewrite app_assoc, !last_last.
Qed.

Lemma sy_last_in {A} (l : list A) c : l ≠ [] → List.last l c ∈ l.
Proof.
  intros Hne. destruct l as [|x l _] using rev_ind; [done|].
  rewrite last_last. apply elem_of_app. right. by apply elem_of_list_singleton.
Qed.

Lemma sy_last_default {A} (l : list A) c d : l ≠ [] → List.last l c = List.last l d.
Proof.
  intros Hne. destruct l as [|x l _] using rev_ind; [done|]. by rewrite !last_last.
Qed.

Lemma sy_reverse_ne {A} (l : list A) : l ≠ [] → reverse l ≠ [].
Proof. intros Hne Hr. apply Hne. by rewrite <- (reverse_involutive l), Hr. Qed.

Lemma sterm_eqb_eq s t : sterm_eqb s t = true → s = t.
Proof. destruct s, t; cbn; try done; intros ?%N.eqb_eq; by subst. Qed.
Lemma sterm_eqb_refl s : sterm_eqb s s = true.
Proof. destruct s; cbn; apply N.eqb_refl. Qed.

(** ** Chunks *)
Lemma sy_chunks_aux_spec n : (0 < n)%nat → ∀ fuel l, (length l ≤ fuel)%nat →
  concat (chunks_aux fuel n l) = l ∧ ∀ c, c ∈ chunks_aux fuel n l → c ≠ [].
Proof.
  intros Hn. induction fuel as [|f IH]; intros l Hl.
  - destruct l; [|cbn in Hl; lia]. split; [done|]. by intros c ?%elem_of_nil.
  - cbn [chunks_aux]. destruct l as [|x l]; [split; [done|by intros c ?%elem_of_nil]|].
    destruct (IH (skipn n (x :: l))) as [Hc Hne].
    { rewrite skipn_length. cbn [length] in *. lia. }
    split.
    + cbn [concat]. rewrite Hc. apply firstn_skipn.
    + intros c [->|Hc']%elem_of_cons; [|auto].
      destruct n; [lia|]. done.
Qed.

Lemma sy_chunks_spec P l : 0 < bpr P →
  concat (chunks P l) = l ∧ ∀ c, c ∈ chunks P l → c ≠ [].
Proof. intros Hb. apply sy_chunks_aux_spec; lia. Qed.

(** the i-th request exists only if [bpr * i] headers precede it *)
Lemma sy_chunks_aux_index n : ∀ fuel l i c,
  chunks_aux fuel n l !! i = Some c → (n * i < length l)%nat.
Proof.
  induction fuel as [|f IH]; intros l i c H; [done|].
  cbn [chunks_aux] in H. destruct l as [|x l]; [done|].
  destruct i as [|i]; [cbn; lia|].
  cbn in H. apply IH in H. rewrite skipn_length in H. cbn [length] in *. lia.
Qed.

Lemma sy_chunks_index P l i c :
  chunks P l !! i = Some c → bpr P * N.of_nat i < N.of_nat (length l).
Proof. intros H%sy_chunks_aux_index. lia. Qed.

(** ** The sampled history consists of best-chain blocks *)
Lemma sy_history_in m x : best m ≠ [] → x ∈ history m → x ∈ best m.
Proof.
  intros Hne Hx. unfold history in Hx. apply elem_of_list_In, in_map_iff in Hx as (i & <- & _).
  unfold hist_entry, tip_height. apply elem_of_list_In, nth_In.
  destruct (best m); [done|]. cbn [length]. lia.
Qed.

(** ** Bookkeeping never touches the manager and only produces its own actions *)
Section Book.
  Context (subnets : N → list N).

  Lemma set_peer_mgr n p f : n_mgr (set_peer n p f) = n_mgr n.
  Proof. unfold set_peer. by destruct (n_peers n !! p). Qed.

  Lemma strike_acts subs : ∀ st lvl x,
    x ∈ (strike st lvl subs).2 → ∃ l s, x = BanSubnet l s.
  Proof.
    induction subs as [|s subs IH]; intros st lvl x; cbn [strike]; [by intros ?%elem_of_nil|].
    destruct (max_strikes lvl <=? default 0 (st !! (lvl, s)) + 1).
    - destruct (strike (delete (lvl, s) st) (lvl + 1) subs) as [st2 a2] eqn:E. cbn.
      intros [->|Hx]%elem_of_cons; [eauto|]. apply (IH (delete (lvl, s) st) (lvl + 1)).
      by rewrite E.
    - destruct (strike _ (lvl + 1) subs) as [st2 a2] eqn:E. cbn.
      intros Hx. eapply IH. by rewrite E.
  Qed.

  Lemma do_ban_mgr n p : n_mgr (do_ban subnets n p).1 = n_mgr n.
  Proof.
    unfold do_ban. destruct (strike _ 0 (subnets p)) as [st acts]. cbn. apply set_peer_mgr.
  Qed.
  Lemma do_ban_acts n p x :
    x ∈ (do_ban subnets n p).2 → x = Ban p ∨ ∃ l s, x = BanSubnet l s.
  Proof.
    unfold do_ban. destruct (strike _ 0 (subnets p)) as [st acts] eqn:E. cbn.
    intros [->|Hx]%elem_of_cons; [by left|right]. eapply strike_acts. by rewrite E.
  Qed.
  Lemma do_ban_ban n p : Ban p ∈ (do_ban subnets n p).2.
  Proof.
    unfold do_ban. destruct (strike _ 0 (subnets p)) as [st acts]. cbn. apply elem_of_cons. auto.
  Qed.
End Book.

(** ** The work order *)
Section Work.
  Context (U : universe) (HWF : WF U).

  Lemma sy_heavier_inv x y : heavier U x y = true →
    ∃ X Y, U !! x = Some X ∧ U !! y = Some Y ∧
           (tw Y + diff Y / 5 < tw X)%Z ∧ (0 ≤ diff Y / 5)%Z ∧ (0 ≤ diff X / 5)%Z.
  Proof.
    unfold heavier. destruct (U !! x) as [X|] eqn:HX; [|done].
    destruct (U !! y) as [Y|] eqn:HY; [|done]. intros H.
    pose proof (wf_diff U HWF _ _ HX). pose proof (wf_diff U HWF _ _ HY).
    pose proof (Z.div_pos (diff X) 5). pose proof (Z.div_pos (diff Y) 5).
    exists X, Y. split_and!; try done; lia.
  Qed.

  Lemma sy_heavier_twof x y : heavier U x y = true → (twof U y < twof U x)%Z.
  Proof.
    intros (X & Y & HX & HY & ? & ? & ?)%sy_heavier_inv. unfold twof. rewrite HX, HY. lia.
  Qed.

  Lemma sy_heavier_trans a b c :
    heavier U a b = true → heavier U b c = true → heavier U a c = true.
  Proof.
    intros (A & B & HA & HB & ? & ? & ?)%sy_heavier_inv (B' & C & HB' & HC & ? & ? & ?)%sy_heavier_inv.
    simplify_eq. unfold heavier. rewrite HA, HC. lia.
  Qed.

  (** under the work law a block is sufficiently heavier than each strict ancestor *)
  Lemma sy_lp_heavier : WFW U → ∀ p y, lp U p y → p ≠ [] → heavier U (hd y p) y = true.
  Proof.
    intros HW. induction p as [|x p IH]; intros y Hl Hne; [done|]. cbn [hd].
    cbn [lp] in Hl. destruct Hl as (Hg & [X HX] & Hp & Hl).
    pose proof (HW x X HX Hg) as Hh. rewrite <- (par_eq U _ _ HX), Hp in Hh.
    destruct p as [|x' p]; [done|]. cbn [hd] in Hh.
    eapply sy_heavier_trans; [exact Hh|]. by apply (IH y).
  Qed.

  Lemma mono_refl m m' : best m' = best m → mono U m m'.
  Proof. intros He. unfold mono, tip. rewrite He. split; [lia|done]. Qed.

  Lemma mono_trans m1 m2 m3 : mono U m1 m2 → mono U m2 m3 → mono U m1 m3.
  Proof.
    intros [H1 H1'] [H2 H2']. split; [lia|]. intros Hne.
    destruct (decide (tip m2 = tip m1)) as [E1|N1].
    - rewrite E1 in *. auto.
    - destruct (decide (tip m3 = tip m2)) as [E2|N2].
      + rewrite E2. auto.
      + eapply sy_heavier_trans; eauto.
  Qed.

  Lemma mono_of_spec m m' (out : outcome) nt :
    (nt = true → out = Ok ∧ heavier U (tip m') (tip m) = true) →
    (nt = false → best m' = best m) → mono U m m'.
  Proof.
    intros Ht Hf. destruct nt.
    - destruct Ht as [_ Hh]; [done|]. split; [|done]. apply sy_heavier_twof in Hh. lia.
    - apply mono_refl. auto.
  Qed.
End Work.

(** * The node *)
Section SP.
  Context (U : universe) (X : xuniverse) (P : params) (subnets : N → list N).
  Context (HWF : WF U) (HX : WFX U X P).

  Notation stepT := (step U X P true subnets).
  Notation runT := (run U X P true subnets).

  Lemma par_par t : Sync.par U t = ManagerProofs.par U t.
  Proof. reflexivity. Qed.
  Lemma hgt_ht t : hgt U t = ht U t.
  Proof. reflexivity. Qed.

  (** ** The two entry points keep [NInv] and the work order *)
  Lemma add_blocks_safe m l : MInv U m → all_body m →
    MInv U (add_blocks U m l).1.1 ∧ all_body (add_blocks U m l).1.1 ∧
    mono U m (add_blocks U m l).1.1.
  Proof.
    intros HI Hab. pose proof (add_blocks_spec U HWF m l HI) as H.
    pose proof (all_body_add_blocks U m l Hab) as Hb.
    destruct (add_blocks U m l) as [[m' out] nt]. cbn in *.
    destruct H as (? & ? & ? & ? & Ht & Hf). split_and!; try done.
    eapply mono_of_spec; eauto.
  Qed.

  Lemma add_terms_safe m l : MInv U m → all_body m →
    MInv U (add_terms U X m l).1.1 ∧ all_body (add_terms U X m l).1.1 ∧
    mono U m (add_terms U X m l).1.1.
  Proof. apply add_blocks_safe. Qed.

  Lemma add_validated_safe m l : MInv U m → all_body m → validated_pre U l →
    MInv U (add_validated U m l).1.1 ∧ all_body (add_validated U m l).1.1 ∧
    mono U m (add_validated U m l).1.1.
  Proof.
    intros HI Hab Hpre. pose proof (add_validated_spec U HWF m l HI Hpre) as H.
    pose proof (all_body_add_validated U m l Hab) as Hb.
    destruct (add_validated U m l) as [[m' out] nt]. cbn in *.
    destruct H as (? & ? & ? & ? & Ht & Hf). split_and!; try done.
    eapply mono_of_spec; eauto.
  Qed.

  (** ** Validation against a true state *)
  Definition fullv (b : N) : Prop := ∃ B, U !! b = Some B ∧ hdr_ok B = true ∧ body_ok B = true.

  Lemma vblock_inv p j b : vblock U (StOf p) j b = true → par U b = p ∧ fullv b.
  Proof.
    unfold vblock, hdr_okb, body_okb, fullv.
    intros [[Hp Hh]%andb_true_iff Hb]%andb_true_iff. apply N.eqb_eq in Hp.
    destruct (U !! b) as [B|]; [eauto|done].
  Qed.

  (** blocks validated one after the other from a true state satisfy the documented
      precondition of AddValidatedV2Blocks *)
  Lemma vblocks_pre j bs : ∀ base, vblocks U (StOf base) j bs = true →
    validated_pre U bs ∧ match bs with [] => True | b :: _ => par U b = base end.
  Proof.
    induction bs as [|b bs IH]; intros base H; [done|].
    cbn [vblocks after] in H. apply andb_true_iff in H as [[Hp Hv]%vblock_inv H].
    destruct (IH b H) as [Hpre Hl]. split; [|done].
    cbn [validated_pre]. split_and!; done.
  Qed.

  (** ... and, when genesis is nobody's child, form a segment hanging on the base *)
  Lemma vblocks_lp (HG : GRoot U) j bs : ∀ base, base ≠ genesis →
    vblocks U (StOf base) j bs = true →
    lp U (reverse bs) base ∧ ∀ x, x ∈ bs → fullv x.
  Proof.
    induction bs as [|b bs IH]; intros base Hg H.
    { split; [done|]. by intros x ?%elem_of_nil. }
    cbn [vblocks after] in H. apply andb_true_iff in H as [[Hp Hv]%vblock_inv H].
    assert (b ≠ genesis) as Hgb by (intros ->; congruence).
    destruct (IH b Hgb H) as [Hl Hall]. split.
    - rewrite reverse_cons. apply lp_snoc. split_and!; try done.
      destruct Hv as (B & -> & _). eauto.
    - intros x [->|Hx]%elem_of_cons; auto.
  Qed.

  (** a fully valid block at or above the require height: the base of an instant-sync request *)
  Definition vbase (b : N) : Prop :=
    ∃ B, U !! b = Some B ∧ hdr_ok B = true ∧ body_ok B = true ∧ reqh P ≤ height B.

  Lemma vbase_not_genesis b : 0 < reqh P → vbase b → b ≠ genesis.
  Proof.
    intros Hr (B & HB & _ & _ & Hh) ->. destruct (wf_gen U HWF) as (G0 & HG0 & H0).
    simplify_eq. lia.
  Qed.

  (** the core of C11_prevalidated_sound: with the repair, a checkpoint that passes
      SendCheckpoint's checks for a valid v2 base was checked against the base's true parent
      state, and the state derived from it is the true state after the base *)
  Lemma instant_base base cp st j :
    vbase base → checkpoint_ok U X true base cp st j = true →
    st = StOf (par U base) ∧ derive U X st cp = StOf base.
  Proof.
    intros (B & HB & Hh & Hb & Hht). unfold checkpoint_ok.
    intros [[[Hv2 Hid]%andb_true_iff Hcs]%andb_true_iff Ho]%andb_true_iff.
    apply N.eqb_eq in Hid.
    destruct (cstate (xget X cp)) as [s|] eqn:Ecs; [|done]. apply sterm_eqb_eq in Hcs. subst s.
    pose proof (wx_canon U X P HX base B HB Hh Hb) as Hcan.
    pose proof (wx_v2 U X P HX base B HB Hh Hht) as Hv2b.
    pose proof (wx_commit U X P HX base B HB Hh Hb Hv2b) as Hcb.
    assert (st = StOf (parent B)) as ->.
    { eapply (wx_bind U X P HX cp base); [congruence|done|done]. }
    unfold par at 1. rewrite HB. split; [done|].
    cbn [orphan_ok] in Ho. unfold derive. rewrite Ho. by rewrite Hid.
  Qed.

  Lemma instant_pre base cp st j bs :
    vbase base → checkpoint_ok U X true base cp st j = true →
    vblocks U (derive U X st cp) j bs = true → validated_pre U bs.
  Proof.
    intros Hvb Hc Hv. destruct (instant_base base cp st j Hvb Hc) as [_ Hd].
    rewrite Hd in Hv. by apply vblocks_pre in Hv as [? _].
  Qed.

  (** ** One request, one round: safety *)
  Definition all_low (bh : N) (hcs : list (list N)) : Prop :=
    ∀ i hj, hcs !! i = Some hj → bh + bpr P * N.of_nat i < reqh P.
  (** the round is entirely instant (and the current base is a valid v2 block), or entirely
      below the require height *)
  Definition round_ok (base bh : N) (hcs : list (list N)) : Prop :=
    (reqh P ≤ bh ∧ vbase base) ∨ all_low bh hcs.

  Lemma low_tail bh hj hrest : all_low bh (hj :: hrest) → all_low (bh + bpr P) hrest.
  Proof. intros H i c Hi. specialize (H (S i) c Hi). lia. Qed.
  Lemma low_head bh hj hrest : all_low bh (hj :: hrest) → bh < reqh P.
  Proof. intros H. specialize (H 0%nat hj eq_refl). lia. Qed.

  Lemma do_requests_acts fx hcs : ∀ m base bh rs x,
    x ∈ (do_requests U X P fx m base bh hcs rs).2 → ∃ v l o, x = Submit v l o.
  Proof.
    assert (∀ m base bh hj r x, x ∈ (do_request U X P fx m base bh hj r).2 →
              ∃ v l o, x = Submit v l o) as H1.
    { intros m base bh hj r x. destruct r as [|bs|cp st j bs]; cbn [do_request].
      - by intros ?%elem_of_nil.
      - destruct (reqh P <=? bh); [by intros ?%elem_of_nil|].
        destruct (negb _); [by intros ?%elem_of_nil|].
        destruct (add_terms U X m bs) as [[m' out] nt].
        destruct out; cbn; intros ->%elem_of_list_singleton; eauto.
      - destruct (negb (reqh P <=? bh)); [by intros ?%elem_of_nil|].
        destruct (negb (checkpoint_ok _ _ _ _ _ _ _)); [by intros ?%elem_of_nil|].
        destruct (negb (Nat.eqb _ _)); [by intros ?%elem_of_nil|].
        destruct (negb (_ =? _)); [by intros ?%elem_of_nil|].
        destruct (negb (vblocks _ _ _ _)); [by intros ?%elem_of_nil|].
        destruct (add_validated U m bs) as [[m' out] nt].
        destruct out; cbn; intros ->%elem_of_list_singleton; eauto. }
    induction hcs as [|hj hrest IH]; intros m base bh rs x; cbn [do_requests].
    { by intros ?%elem_of_nil. }
    destruct rs as [|r rrest]; [by intros ?%elem_of_nil|].
    pose proof (H1 m base bh hj r) as Hr.
    destruct (do_request U X P fx m base bh hj r) as [[m1 res1] acts1].
    destruct res1; [|exact (Hr x)|exact (Hr x)].
    pose proof (IH m1 (List.last hj base) (bh + bpr P) rrest) as Hrest.
    destruct (do_requests U X P fx m1 _ _ hrest rrest) as [[m2 res2] acts2]. cbn in *.
    intros [?|?]%elem_of_app; eauto.
  Qed.

  (** ** Bans *)
  Ltac no_ban :=
    let Hx := fresh "Hx" in
    intros Hx; repeat (apply elem_of_cons in Hx as [Hx|Hx]; [done|]); by apply elem_of_nil in Hx.

  Lemma ban_sound fx n mg q :
    Ban q ∈ (step U X P fx subnets n mg).2 →
    q = sender mg ∧ (fx = true → judged_invalid U X P subnets n mg).
  Proof.
    assert (∀ n' p, Ban q ∈ (do_ban subnets n' p).2 → q = p) as Hb.
    { intros n' p [[= ->]|(? & ? & [=])]%do_ban_acts. done. }
    destruct mg as [p|p a hs rem0 rs|p|p h|p b c|p basis empty|p];
      cbn [step sender judged_invalid].
    - destruct (n_peers n !! p) as [ps|]; [destruct (p_gone ps)|]; no_ban.
    - destruct (unsynced n p); cbn [negb]; [|no_ban].
      destruct (bool_decide (a ∈ history (n_mgr n)) && has_state (n_mgr n) a); cbn [negb]; [|no_ban].
      destruct (headers_ok U X a hs); cbn [negb]; [|no_ban].
      destruct hs as [|h0 hs']; [no_ban|].
      pose proof (do_requests_acts fx (chunks P (h0 :: hs')) (n_mgr n) a (hgt U a) rs) as Ha.
      destruct (do_requests U X P fx (n_mgr n) a (hgt U a) (chunks P (h0 :: hs')) rs)
        as [[m' res] acts] eqn:E. cbn in Ha.
      assert (Ban q ∈ acts → False) as Hna.
      { intros (? & ? & ? & [=])%Ha. }
      destruct res.
      + destruct rem0; cbn.
        * intros [?|Hx]%elem_of_app; [done|]. revert Hx. no_ban.
        * done.
      + done.
      + pose proof (Hb (with_mgr n m') p) as Hb'.
        destruct (do_ban subnets (with_mgr n m') p) as [n2 a2]. cbn in *.
        intros [?|Hx]%elem_of_app; [done|]. split; [auto|]. intros ->. by rewrite E.
    - destruct (unsynced n p); no_ban.
    - destruct (live n p); cbn [negb]; [|no_ban].
      destruct (inU U h && has_state (n_mgr n) (par U h)); cbn [negb]; [|no_ban].
      destruct (has_state (n_mgr n) h); [no_ban|].
      destruct (pow_ok (xget X h)); cbn [negb]; [|intros ->%Hb; done].
      destruct (par U h =? tip (n_mgr n)); cbn [negb]; no_ban.
    - destruct (live n p); cbn [negb]; [|no_ban].
      destruct (inU U b && has_state (n_mgr n) (par U b)); cbn [negb]; [|no_ban].
      destruct (full_state (n_mgr n) (par U b) && has_state (n_mgr n) (hid (xget X b))); [no_ban|].
      destruct (par U b =? tip (n_mgr n)); cbn [negb]; [|no_ban].
      destruct (pow_ok (xget X b)); cbn [negb]; [|intros ->%Hb; auto].
      destruct c; [| |no_ban|intros ->%Hb; auto].
      all: destruct (add_terms U X (n_mgr n) [b]) as [[m' out] nt]; cbn [fst snd].
      all: destruct out; [no_ban| |].
      all: pose proof (Hb (with_mgr n m') p) as Hb';
           destruct (do_ban subnets (with_mgr n m') p) as [n2 a2]; cbn in *;
           intros [?|Hx]%elem_of_cons; [done|]; split; [auto|]; intros _; right; right; done.
    - destruct (live n p); cbn [negb]; [|no_ban].
      destruct (has_body (n_mgr n) basis); cbn [negb]; [|no_ban].
      destruct empty; [intros ->%Hb; done|no_ban].
    - no_ban.
  Qed.

  (** [RBan] only arises from a block that fails the node's own validation or from a submission
      the manager rejected *)
  Lemma rban_cause fx m base bh hj r m' acts :
    do_request U X P fx m base bh hj r = (m', RBan, acts) →
    (∃ cp st j bs, r = CInstant cp st j bs ∧ vblocks U (derive U X st cp) j bs = false) ∨
    (∃ v l o, Submit v l o ∈ acts ∧ o ≠ Ok).
  Proof.
    destruct r as [|bs|cp st j bs]; cbn [do_request].
    - done.
    - destruct (reqh P <=? bh); [done|]. destruct (negb _); [done|].
      destruct (add_terms U X m bs) as [[m1 out] nt].
      destruct out; intros [= <- <-]; right; eexists _, _, _;
        (split; [by apply elem_of_list_singleton|done]).
    - destruct (negb (reqh P <=? bh)); [done|].
      destruct (negb (checkpoint_ok _ _ _ _ _ _ _)); [done|].
      destruct (negb (Nat.eqb _ _)); [done|].
      destruct (negb (_ =? _)); [done|].
      destruct (vblocks U (derive U X st cp) j bs) eqn:Hv; cbn [negb].
      + destruct (add_validated U m bs) as [[m1 out] nt].
        destruct out; intros [= <- <-]; right; eexists _, _, _;
          (split; [by apply elem_of_list_singleton|done]).
      + intros _. left. eauto 10.
  Qed.

  (** ... and conversely each of the two reaches [RBan] *)
  Lemma rban_reached_instant fx m base bh hj cp st j bs :
    reqh P ≤ bh → checkpoint_ok U X fx base cp st j = true →
    length bs = length hj → hid (xget X (List.last bs 0)) = List.last hj 0 →
    vblocks U (derive U X st cp) j bs = false →
    do_request U X P fx m base bh hj (CInstant cp st j bs) = (m, RBan, []).
  Proof using Type.
    intros Hle Hck Hlen Hlast Hv. cbn [do_request].
    rewrite (proj2 (N.leb_le _ _) Hle). cbn [negb]. rewrite Hck. cbn [negb].
    rewrite Hlen, Nat.eqb_refl. cbn [negb]. rewrite Hlast, N.eqb_refl. cbn [negb].
    by rewrite Hv.
  Qed.

  Lemma rban_reached_blocks fx m base bh hj bs :
    bh < reqh P → eqb_ids (map (λ t, hid (xget X t)) bs) hj = true →
    (add_terms U X m bs).1.2 ≠ Ok →
    ∃ o, o ≠ Ok ∧
      do_request U X P fx m base bh hj (CBlocks bs) =
        ((add_terms U X m bs).1.1, RBan, [Submit false bs o]).
  Proof using Type.
    intros Hlt Hid Hout. cbn [do_request].
    rewrite (proj2 (N.leb_gt _ _) Hlt). rewrite Hid. cbn [negb].
    destruct (add_terms U X m bs) as [[m' out] nt]. cbn in *.
    destruct out; [done|exists Err|exists Panic]; done.
  Qed.

  (** each listed misbehaviour that reaches its handler is banned *)
  Lemma ban_listed n mg : listed U X P n mg → Ban (sender mg) ∈ (stepT n mg).2.
  Proof.
    assert (∀ n' p (pre : list action),
              Ban p ∈ (let '(n2, a2) := do_ban subnets n' p in (n2, pre ++ a2)).2) as Hb.
    { intros n' p pre. pose proof (do_ban_ban subnets n' p) as H.
      destruct (do_ban subnets n' p) as [n2 a2]. cbn in *. apply elem_of_app. auto. }
    destruct 1 as [p h H1 H2 H3 H4 H5|p b c H1 H2 H3 H4 H5 H6|p b H1 H2 H3 H4 H5 H6
                  |p b c H1 H2 H3 H4 H5 H6 Hc H7|p basis H1 H2|p a hs rem0 rs H1 H2 H3 H4 H5];
      cbn [step sender].
    - rewrite H1, H2, H3, H4, H5. cbn. apply do_ban_ban.
    - rewrite H1, H2, H3, H4, H5, N.eqb_refl, H6. cbn. apply do_ban_ban.
    - rewrite H1, H2, H3, H4, H5, N.eqb_refl, H6. cbn. apply do_ban_ban.
    - rewrite H1, H2, H3, H4, H5, N.eqb_refl, H6. cbn [negb andb].
      destruct Hc as [-> | ->].
      all: destruct (add_terms U X (n_mgr n) [b]) as [[m' out] nt]; cbn in H7.
      all: destruct out; [done| |].
      all: apply (Hb (with_mgr n m') p [Submit false [b] _]).
    - rewrite H1, H2. cbn. apply do_ban_ban.
    - rewrite H1, H2, H3. cbn [negb]. destruct hs as [|h0 hs']; [done|].
      destruct (do_requests U X P true (n_mgr n) a (hgt U a) (chunks P (h0 :: hs')) rs)
        as [[m' res] acts]. cbn in H5. subst res. apply Hb.
  Qed.

  Context (Hbpr : 0 < bpr P) (Hreq : 0 < reqh P).

  Lemma do_request_safe (HG : GRoot U) m base bh hj hrest r :
    MInv U m → all_body m → round_ok base bh (hj :: hrest) →
    match do_request U X P true m base bh hj r with
    | (m', res, acts) =>
        MInv U m' ∧ all_body m' ∧ mono U m m' ∧
        (∀ l o, Submit true l o ∈ acts → validated_pre U l) ∧
        (res = RNext → round_ok (List.last hj base) (bh + bpr P) hrest)
    end.
  Proof.
    intros HI Hab HGb.
    assert (MInv U m ∧ all_body m ∧ mono U m m ∧
            (∀ l o, Submit true l o ∈ ([] : list action) → validated_pre U l)) as Hsame.
    { split_and!; first [done|by apply mono_refl|by intros l o ?%elem_of_nil]. }
    destruct r as [|bs|cp st j bs]; cbn [do_request].
    - destruct Hsame as (? & ? & ? & ?). split_and!; done.
    - destruct (N.leb_spec (reqh P) bh) as [Hle|Hlt].
      { destruct Hsame as (? & ? & ? & ?). split_and!; done. }
      destruct (negb _).
      { destruct Hsame as (? & ? & ? & ?). split_and!; done. }
      destruct (add_terms_safe m bs HI Hab) as (HI' & Hab' & Hm').
      destruct (add_terms U X m bs) as [[m' out] nt]. cbn in HI', Hab', Hm'.
      assert (∀ o' l o, Submit true l o ∈ [Submit false bs o'] → validated_pre U l) as Hsub.
      { intros o' l o [=]%elem_of_list_singleton. }
      destruct out; (split_and!; [done|done|done|apply Hsub|]); try done.
      intros _. right. destruct HGb as [[? _]|Hl]; [lia|]. by eapply low_tail.
    - destruct (N.leb_spec (reqh P) bh) as [Hle|Hlt]; cbn [negb].
      2:{ destruct Hsame as (? & ? & ? & ?). split_and!; done. }
      destruct HGb as [[_ Hvb]|Hl]; [|apply low_head in Hl; lia].
      destruct (checkpoint_ok U X true base cp st j) eqn:Hck; cbn [negb].
      2:{ destruct Hsame as (? & ? & ? & ?). split_and!; done. }
      destruct (Nat.eqb_spec (length bs) (length hj)) as [Hlen|]; cbn [negb].
      2:{ destruct Hsame as (? & ? & ? & ?). split_and!; done. }
      destruct (N.eqb_spec (hid (xget X (List.last bs 0))) (List.last hj 0)) as [Hlast|]; cbn [negb].
      2:{ destruct Hsame as (? & ? & ? & ?). split_and!; done. }
      destruct (vblocks U (derive U X st cp) j bs) eqn:Hvb'; cbn [negb].
      2:{ destruct Hsame as (? & ? & ? & ?). split_and!; done. }
      pose proof (instant_pre base cp st j bs Hvb Hck Hvb') as Hpre.
      destruct (instant_base base cp st j Hvb Hck) as [_ Hd]. rewrite Hd in Hvb'.
      destruct (add_validated_safe m bs HI Hab Hpre) as (HI' & Hab' & Hm').
      destruct (add_validated U m bs) as [[m' out] nt]. cbn in HI', Hab', Hm'.
      assert (∀ o' l o, Submit true l o ∈ [Submit true bs o'] → validated_pre U l) as Hsub.
      { intros o' l o [= <- _]%elem_of_list_singleton. done. }
      destruct out; (split_and!; [done|done|done|apply Hsub|]); try done.
      intros _. left. split; [lia|].
      pose proof (vbase_not_genesis base Hreq Hvb) as Hgb.
      destruct (vblocks_lp HG j bs base Hgb Hvb') as [Hlp Hall].
      destruct bs as [|b0 bs'].
      { destruct hj; [|done]. exact Hvb. }
      assert (hj ≠ []) as Hhj by (destruct hj; done).
      set (bs := b0 :: bs') in *.
      assert (bs ≠ []) as Hbs by done.
      rewrite (sy_last_default hj base 0 Hhj), <- Hlast.
      pose proof (sy_last_in bs 0 Hbs) as Hin.
      destruct (Hall _ Hin) as (B & HB & Hh & Hb).
      rewrite (wx_canon U X P HX _ B HB Hh Hb).
      exists B. split_and!; try done.
      pose proof (lp_ht U HWF _ _ Hlp) as Hht. rewrite sy_hd_reverse_last in Hht.
      rewrite (sy_last_default bs base 0 Hbs) in Hht.
      rewrite (ht_eq U _ _ HB) in Hht.
      destruct Hvb as (B0 & HB0 & _ & _ & Hh0). rewrite (ht_eq U _ _ HB0) in Hht. lia.
  Qed.

  Lemma do_requests_safe (HG : GRoot U) hcs : ∀ m base bh rs,
    MInv U m → all_body m → round_ok base bh hcs →
    match do_requests U X P true m base bh hcs rs with
    | (m', res, acts) =>
        MInv U m' ∧ all_body m' ∧ mono U m m' ∧
        (∀ l o, Submit true l o ∈ acts → validated_pre U l)
    end.
  Proof.
    induction hcs as [|hj hrest IH]; intros m base bh rs HI Hab HGb; cbn [do_requests].
    { split_and!; first [done|by apply mono_refl|by intros l o ?%elem_of_nil]. }
    destruct rs as [|r rrest].
    { split_and!; first [done|by apply mono_refl|by intros l o ?%elem_of_nil]. }
    pose proof (do_request_safe HG m base bh hj hrest r HI Hab HGb) as H1.
    destruct (do_request U X P true m base bh hj r) as [[m1 res1] acts1].
    destruct H1 as (HI1 & Hab1 & Hm1 & Hs1 & Hn1).
    destruct res1; [|done|done].
    pose proof (IH m1 (List.last hj base) (bh + bpr P) rrest HI1 Hab1 (Hn1 eq_refl)) as H2.
    destruct (do_requests U X P true m1 _ _ hrest rrest) as [[m2 res2] acts2].
    destruct H2 as (HI2 & Hab2 & Hm2 & Hs2). split_and!; try done.
    - by eapply mono_trans.
    - intros l o [?|?]%elem_of_app; eauto.
  Qed.

  (** a uniform round starts in [round_ok] *)
  Lemma uniform_round_ok m p a hs rem0 rs :
    MInv U m → a ∈ best m → uniform U P (MSync p a hs rem0 rs) → round_ok a (hgt U a) (chunks P hs).
  Proof.
    intros HI Hin [Hu|Hu].
    - left. split; [done|]. destruct (I_best U m HI a Hin) as (k & _ & _ & _ & [->|(B & HB & Hh & Hb)]).
      + rewrite hgt_ht, (ht_genesis U HWF) in Hu. lia.
      + exists B. split_and!; try done. unfold hgt in Hu. by rewrite HB in Hu.
    - right. intros i c Hi%sy_chunks_index. lia.
  Qed.

  (** ** One message: safety *)
  Ltac lit_acts :=
    let x := fresh "x" in let Hx := fresh "Hx" in
    intros x Hx; repeat (apply elem_of_cons in Hx as [->|Hx]; [done|]); by apply elem_of_nil in Hx.

  Lemma step_safe (HG : GRoot U) n mg :
    NInv U n → uniform U P mg →
    NInv U (stepT n mg).1 ∧ mono U (n_mgr n) (n_mgr (stepT n mg).1) ∧
    (∀ l o, Submit true l o ∈ (stepT n mg).2 → validated_pre U l).
  Proof.
    intros [HI Hab] Hu.
    assert (∀ (r : node * list action), n_mgr r.1 = n_mgr n →
              (∀ x, x ∈ r.2 → ∀ l o, x ≠ Submit true l o) →
              NInv U r.1 ∧ mono U (n_mgr n) (n_mgr r.1) ∧
              (∀ l o, Submit true l o ∈ r.2 → validated_pre U l)) as keep.
    { intros [n' acts] He Ha. cbn in *. unfold NInv. rewrite He. split_and!; [done|done| |].
      - by apply mono_refl.
      - intros l o Hin. by destruct (Ha _ Hin l o). }
    assert (∀ n' p x, x ∈ (do_ban subnets n' p).2 → ∀ l o, x ≠ Submit true l o) as Hbn.
    { intros n' p x [->|(? & ? & ->)]%do_ban_acts; done. }
    assert (∀ m' p acts, MInv U m' → all_body m' → mono U (n_mgr n) m' →
              (∀ l o, Submit true l o ∈ acts → validated_pre U l) →
              NInv U (let '(n2, a2) := do_ban subnets (with_mgr n m') p in (n2, acts ++ a2)).1 ∧
              mono U (n_mgr n) (n_mgr (let '(n2, a2) := do_ban subnets (with_mgr n m') p in (n2, acts ++ a2)).1) ∧
              (∀ l o, Submit true l o ∈ (let '(n2, a2) := do_ban subnets (with_mgr n m') p in (n2, acts ++ a2)).2 →
                  validated_pre U l)) as Hban.
    { intros m' p acts HI' Hab' Hm' Hs'.
      pose proof (do_ban_mgr subnets (with_mgr n m') p) as Hbm.
      pose proof (Hbn (with_mgr n m') p) as Hba.
      destruct (do_ban subnets (with_mgr n m') p) as [n2 a2]. cbn in *.
      unfold NInv. rewrite Hbm. split_and!; [done|done|done|].
      intros l o [?|Hx]%elem_of_app; [eauto|]. by destruct (Hba _ Hx l o). }
    destruct mg as [p|p a hs rem0 rs|p|p h|p b c|p basis empty|p]; cbn [step].
    - (* MConnect *)
      destruct (n_peers n !! p) as [ps|]; [destruct (p_gone ps)|]; apply keep; first [done|lit_acts].
    - (* MSync *)
      destruct (unsynced n p); cbn [negb]; [|apply keep; [done|lit_acts]].
      destruct (bool_decide (a ∈ history (n_mgr n)) && has_state (n_mgr n) a) eqn:Hh; cbn [negb];
        [|apply keep; [done|lit_acts]].
      destruct (headers_ok U X a hs); cbn [negb];
        [|apply keep; [apply set_peer_mgr|lit_acts]].
      destruct hs as [|h0 hs']; [apply keep; [apply set_peer_mgr|lit_acts]|].
      apply andb_true_iff in Hh as [Hin%bool_decide_eq_true _].
      apply sy_history_in in Hin; [|apply (chain_nonempty U), (I_chain U _ HI)].
      pose proof (uniform_round_ok _ p a (h0 :: hs') rem0 rs HI Hin Hu) as HG0.
      pose proof (do_requests_safe HG (chunks P (h0 :: hs')) (n_mgr n) a (hgt U a) rs HI Hab HG0) as H.
      destruct (do_requests U X P true (n_mgr n) a (hgt U a) (chunks P (h0 :: hs')) rs)
        as [[m' res] acts].
      destruct H as (HI' & Hab' & Hm' & Hs').
      destruct res.
      + destruct rem0.
        * cbn. unfold NInv. rewrite set_peer_mgr. cbn. split_and!; [done|done|done|].
          intros l o [?|Hx]%elem_of_app; [eauto|].
          apply elem_of_cons in Hx as [?|Hx]; [done|]. by apply elem_of_list_singleton in Hx.
        * cbn. split_and!; done.
      + cbn. split_and!; done.
      + by apply Hban.
    - (* MNoHistory *)
      destruct (unsynced n p); apply keep; first [apply set_peer_mgr|done|lit_acts].
    - (* MHeader *)
      destruct (live n p); cbn [negb]; [|apply keep; [done|lit_acts]].
      destruct (inU U h && has_state (n_mgr n) (par U h)); cbn [negb];
        [|apply keep; [apply set_peer_mgr|lit_acts]].
      destruct (has_state (n_mgr n) h); [apply keep; [done|lit_acts]|].
      destruct (pow_ok (xget X h)); cbn [negb]; [|apply keep; [apply do_ban_mgr|apply Hbn]].
      destruct (par U h =? tip (n_mgr n)); cbn [negb];
        apply keep; first [apply set_peer_mgr|lit_acts].
    - (* MOutline *)
      destruct (live n p); cbn [negb]; [|apply keep; [done|lit_acts]].
      destruct (inU U b && has_state (n_mgr n) (par U b)); cbn [negb];
        [|apply keep; [apply set_peer_mgr|lit_acts]].
      destruct (full_state (n_mgr n) (par U b) && has_state (n_mgr n) (hid (xget X b)));
        [apply keep; [done|lit_acts]|].
      destruct (par U b =? tip (n_mgr n)); cbn [negb];
        [|apply keep; [apply set_peer_mgr|lit_acts]].
      destruct (pow_ok (xget X b)); cbn [negb]; [|apply keep; [apply do_ban_mgr|apply Hbn]].
      destruct (add_terms_safe (n_mgr n) [b] HI Hab) as (HI' & Hab' & Hm').
      destruct c.
      3:{ apply keep; [apply set_peer_mgr|lit_acts]. }
      3:{ apply keep; [apply do_ban_mgr|apply Hbn]. }
      all: destruct (add_terms U X (n_mgr n) [b]) as [[m' out] nt]; cbn in HI', Hab', Hm'.
      all: destruct out.
      all: try (unfold NInv; cbn; split_and!; [done|done|done|];
                intros l o Hx; apply elem_of_cons in Hx as [?|Hx]; [done|];
                by apply elem_of_list_singleton in Hx).
      all: pose proof (do_ban_mgr subnets (with_mgr n m') p) as Hbm;
           pose proof (Hbn (with_mgr n m') p) as Hba;
           destruct (do_ban subnets (with_mgr n m') p) as [n2 a2]; cbn in *;
           unfold NInv; rewrite Hbm; (split_and!; [done|done|done|]);
           intros l o Hx; apply elem_of_cons in Hx as [?|Hx]; [done|];
           by destruct (Hba _ Hx l o).
    - (* MTxns *)
      destruct (live n p); cbn [negb]; [|apply keep; [done|lit_acts]].
      destruct (has_body (n_mgr n) basis); cbn [negb];
        [|apply keep; [apply set_peer_mgr|lit_acts]].
      destruct empty; apply keep; first [apply do_ban_mgr|apply Hbn|done|lit_acts].
    - (* MGarbage *)
      apply keep; [done|lit_acts].
  Qed.

  Lemma run_safe (HG : GRoot U) msgs : ∀ n,
    NInv U n → Forall (uniform U P) msgs →
    NInv U (runT n msgs).1 ∧ mono U (n_mgr n) (n_mgr (runT n msgs).1) ∧
    (∀ l o, Submit true l o ∈ (runT n msgs).2 → validated_pre U l).
  Proof.
    induction msgs as [|mg msgs IH]; intros n Hn Hu; cbn [run].
    { split_and!; [done|apply mono_refl; done|]. by intros l o ?%elem_of_nil. }
    apply Forall_cons in Hu as [Hu1 Hu].
    destruct (step_safe HG n mg Hn Hu1) as (Hn1 & Hm1 & Hs1).
    destruct (stepT n mg) as [n1 a1]. cbn in Hn1, Hm1, Hs1.
    destruct (IH n1 Hn1 Hu) as (Hn2 & Hm2 & Hs2).
    destruct (runT n1 msgs) as [n2 a2]. cbn in *. split_and!; [done| |].
    - by eapply mono_trans.
    - intros l o [?|?]%elem_of_app; eauto.
  Qed.

  (** ** Honest peers *)
  Lemma canon_id m t : hid (xget X t) = t → canon X m t = t.
  Proof. unfold canon. intros ->. by destruct (_ || _). Qed.

  Lemma okb_fullv b : okb U b = true → fullv b.
  Proof. intros (B & ? & ? & ? & _)%okb_inv. by exists B. Qed.

  Lemma okb_canon b : okb U b = true → hid (xget X b) = b.
  Proof. intros (B & HB & Hh & Hb & _)%okb_inv. by eapply (wx_canon U X P HX). Qed.

  Lemma map_canon_ok m l : (∀ x, x ∈ l → okb U x = true) → map (canon X m) l = l.
  Proof.
    induction l as [|x l IH]; intros H; cbn [map]; [done|].
    rewrite canon_id, IH; [done| |].
    - intros y Hy. apply H, elem_of_cons. auto.
    - apply okb_canon, H, elem_of_cons. auto.
  Qed.

  Lemma eqb_ids_ok l : (∀ x, x ∈ l → okb U x = true) →
    eqb_ids (map (λ t, hid (xget X t)) l) l = true.
  Proof.
    intros H. unfold eqb_ids. rewrite map_length, Nat.eqb_refl. cbn [andb].
    induction l as [|x l IH]; [done|]. cbn [map combine forallb fst snd].
    rewrite okb_canon, N.eqb_refl by (apply H, elem_of_cons; auto). cbn [andb].
    apply IH. intros y Hy. apply H, elem_of_cons. auto.
  Qed.

  Lemma vblocks_ok j l : ∀ base, lp U (reverse l) base → (∀ x, x ∈ l → okb U x = true) →
    vblocks U (StOf base) j l = true.
  Proof.
    induction l as [|b l IH]; intros base Hl Hok; [done|].
    rewrite reverse_cons in Hl. apply lp_snoc in Hl as (Hl & _ & _ & Hp).
    destruct (okb_inv U b) as (B & HB & Hh & Hb & _); [apply Hok, elem_of_cons; auto|].
    cbn [vblocks after]. rewrite IH; [|done|intros y Hy; apply Hok, elem_of_cons; auto].
    unfold vblock, hdr_okb, body_okb. rewrite par_par, Hp, N.eqb_refl, HB, Hh, Hb. done.
  Qed.

  Lemma headers_ok_honest hs : ∀ a, lp U (reverse hs) a → (∀ x, x ∈ hs → okb U x = true) →
    headers_ok U X a hs = true.
  Proof.
    induction hs as [|h hs IH]; intros a Hl Hok; [done|].
    rewrite reverse_cons in Hl. apply lp_snoc in Hl as (Hl & _ & _ & Hp).
    destruct (okb_inv U h) as (B & HB & Hh & Hb & _); [apply Hok, elem_of_cons; auto|].
    cbn [headers_ok]. rewrite IH; [|done|intros y Hy; apply Hok, elem_of_cons; auto].
    destruct (wx_pow U X P HX h B HB Hh) as [_ Hhv].
    rewrite par_par, Hp, N.eqb_refl, Hhv, (wx_canon U X P HX h B HB Hh Hb), N.eqb_refl.
    unfold inU. by rewrite HB.
  Qed.

  Lemma checkpoint_honest fx base j :
    vbase base → checkpoint_ok U X fx base base (StOf (par U base)) j = true.
  Proof.
    intros (B & HB & Hh & Hb & Hht). unfold checkpoint_ok.
    pose proof (wx_v2 U X P HX base B HB Hh Hht) as Hv2.
    rewrite Hv2, (wx_canon U X P HX base B HB Hh Hb), N.eqb_refl,
      (wx_commit U X P HX base B HB Hh Hb Hv2).
    unfold orphan_ok, hdr_okb, par. rewrite HB, sterm_eqb_refl, N.eqb_refl, Hh.
    by destruct fx.
  Qed.

  Lemma derive_honest base : vbase base → derive U X (StOf (par U base)) base = StOf base.
  Proof.
    intros (B & HB & Hh & Hb & Hht). unfold derive, hdr_okb.
    rewrite N.eqb_refl, HB, Hh. cbn [andb]. by rewrite (wx_canon U X P HX base B HB Hh Hb).
  Qed.

  Definition honest_r (base bh : N) (hj : list N) (r : cresp) : Prop :=
    r = CFail ∨ (bh < reqh P ∧ r = CBlocks hj) ∨
    (reqh P ≤ bh ∧ ∃ j, r = CInstant base (StOf (par U base)) j hj).

  Lemma do_request_honest fx m base bh hj hrest r :
    MInv U m → all_body m → hangs U m base → hj ≠ [] →
    lp U (reverse hj) base → (∀ x, x ∈ hj → okb U x = true) →
    round_ok base bh (hj :: hrest) → honest_r base bh hj r →
    (r = CFail ∧ do_request U X P fx m base bh hj r = (m, RFail, [])) ∨
    (r ≠ CFail ∧ ∃ m' v, do_request U X P fx m base bh hj r = (m', RNext, [Submit v hj Ok]) ∧
       MInv U m' ∧ all_body m' ∧ hangs U m' (List.last hj base) ∧
       (if heavier U (List.last hj base) (tip m) then tip m' = List.last hj base
        else best m' = best m) ∧
       round_ok (List.last hj base) (bh + bpr P) hrest).
  Proof.
    intros HI Hab Hh Hne Hl Hok HGb [->|[[Hlt ->]|[Hle [j ->]]]].
    - left. done.
    - right. split; [done|]. cbn [do_request].
      destruct (N.leb_spec (reqh P) bh); [lia|]. rewrite eqb_ids_ok by done. cbn [negb].
      unfold add_terms. rewrite map_canon_ok by done.
      destruct (add_blocks_live U HWF m base hj HI Hab Hh Hne Hl Hok)
        as (m' & E & HI' & Hab' & Hh' & Hc).
      rewrite E. exists m', false. split_and!; try done.
      right. destruct HGb as [[? _]|Hlow]; [lia|]. by eapply low_tail.
    - right. split; [done|].
      destruct HGb as [[_ Hvb]|Hlow]; [|apply low_head in Hlow; lia].
      cbn [do_request]. destruct (N.leb_spec (reqh P) bh); [|lia]. cbn [negb].
      rewrite checkpoint_honest by done. cbn [negb]. rewrite Nat.eqb_refl. cbn [negb].
      rewrite okb_canon, N.eqb_refl by (apply Hok; by apply sy_last_in). cbn [negb].
      rewrite derive_honest by done. rewrite vblocks_ok by done. cbn [negb].
      destruct (add_validated_live U HWF m base hj HI Hab Hh Hne Hl Hok)
        as (m' & E & HI' & Hab' & Hh' & Hc).
      rewrite E. exists m', true. split_and!; try done.
      left. split; [lia|].
      destruct (okb_inv U (List.last hj base)) as (B & HB & Hhd & Hbd & _).
      { apply Hok. by apply sy_last_in. }
      exists B. split_and!; try done.
      pose proof (lp_ht U HWF _ _ Hl) as Hht. rewrite sy_hd_reverse_last in Hht.
      rewrite (ht_eq U _ _ HB) in Hht.
      destruct Hvb as (B0 & HB0 & _ & _ & Hh0). rewrite (ht_eq U _ _ HB0) in Hht. lia.
  Qed.

  Lemma do_requests_honest fx hcs : ∀ m base bh rs,
    MInv U m → all_body m → hangs U m base →
    (∀ c, c ∈ hcs → c ≠ []) →
    lp U (reverse (concat hcs)) base → (∀ x, x ∈ concat hcs → okb U x = true) →
    round_ok base bh hcs → honest_rs U P base bh hcs rs →
    ∃ m' res acts, do_requests U X P fx m base bh hcs rs = (m', res, acts) ∧
      res ≠ RBan ∧ MInv U m' ∧ all_body m' ∧
      ((∀ r, r ∈ rs → r ≠ CFail) → (length hcs ≤ length rs)%nat →
         res = RNext ∧
         (WFW U → concat hcs ≠ [] → heavier U (List.last (concat hcs) base) (tip m) = true →
            tip m' = List.last (concat hcs) base)).
  Proof.
    induction hcs as [|hj hrest IH]; intros m base bh rs HI Hab Hh Hne Hl Hok HGb Hrs.
    { exists m, RNext, []. cbn. split_and!; try done. }
    cbn [do_requests]. destruct rs as [|r rrest].
    { exists m, RFail, []. split_and!; try done. intros _ Hlen. cbn in Hlen. lia. }
    cbn [honest_rs] in Hrs. destruct Hrs as [Hr Hrs].
    cbn [concat] in *. rewrite reverse_app in Hl. apply lp_app in Hl as [Hl2 Hl1].
    rewrite sy_hd_reverse_last in Hl2.
    assert (hj ≠ []) as Hhj by (apply Hne, elem_of_cons; auto).
    destruct (do_request_honest fx m base bh hj hrest r) as [[-> E]|(Hnf & m1 & v & E & HI1 & Hab1 & Hh1 & Hc1 & HG1)];
      try done.
    { intros x Hx. apply Hok, elem_of_app. auto. }
    { rewrite E. exists m, RFail, []. split_and!; try done.
      intros Hall. destruct (Hall CFail); [apply elem_of_cons; auto|done]. }
    rewrite E.
    destruct (IH m1 (List.last hj base) (bh + bpr P) rrest) as (m' & res & acts & E' & Hres & HI' & Hab' & Hprog);
      try done.
    { intros c Hc. apply Hne, elem_of_cons. auto. }
    { intros x Hx. apply Hok, elem_of_app. auto. }
    rewrite E'. exists m', res, ([Submit v hj Ok] ++ acts). split_and!; try done.
    intros Hall Hlen. destruct Hprog as [-> Htip].
    { intros r' Hr'. apply Hall, elem_of_cons. auto. }
    { cbn [length] in Hlen. lia. }
    split; [done|]. intros HW _ Hlast.
    destruct (decide (concat hrest = [])) as [Hemp|Hne2].
    - assert (hrest = []) as ->.
      { destruct hrest as [|c2 hrest']; [done|]. exfalso. cbn in Hemp.
        apply app_eq_nil in Hemp as [? _]. eapply (Hne c2); [|done].
        apply elem_of_cons. right. apply elem_of_cons. auto. }
      cbn in E'. injection E' as <- _. cbn [concat] in *. rewrite app_nil_r in *.
      by rewrite Hlast in Hc1.
    - rewrite sy_last_app_ne in * by done. apply Htip; [done|done|].
      destruct (heavier U (List.last hj base) (tip m)) eqn:Hhv.
      + rewrite Hc1. rewrite <- sy_hd_reverse_last. apply (sy_lp_heavier U HWF HW); [done|].
        by apply sy_reverse_ne.
      + assert (tip m1 = tip m) as -> by (unfold tip; by rewrite Hc1). done.
  Qed.

  (** what an honest round does to the node *)
  Lemma honest_round fx n p a hs rem0 rs :
    NInv U n → hs ≠ [] →
    honest_msg U X P (n_mgr n) (MSync p a hs rem0 rs) →
    (bool_decide (a ∈ history (n_mgr n)) && has_state (n_mgr n) a) = true →
    headers_ok U X a hs = true ∧
    ∃ m' res acts,
      do_requests U X P fx (n_mgr n) a (hgt U a) (chunks P hs) rs = (m', res, acts) ∧
      res ≠ RBan ∧ MInv U m' ∧ all_body m' ∧
      ((∀ r, r ∈ rs → r ≠ CFail) → (length (chunks P hs) ≤ length rs)%nat →
         res = RNext ∧
         (WFW U → heavier U (List.last hs a) (tip (n_mgr n)) = true → tip m' = List.last hs a)).
  Proof.
    intros [HI Hab] Hne (Hl & Hok & Hu & Hrs) Hh.
    split; [by apply headers_ok_honest|].
    apply andb_true_iff in Hh as [Hin%bool_decide_eq_true _].
    apply sy_history_in in Hin; [|apply (chain_nonempty U), (I_chain U _ HI)].
    destruct (sy_chunks_spec P hs Hbpr) as [Hcc Hcne].
    destruct (do_requests_honest fx (chunks P hs) (n_mgr n) a (hgt U a) rs)
      as (m' & res & acts & E & Hres & HI' & Hab' & Hprog); try done.
    { by apply hangs_best. }
    { by rewrite Hcc. }
    { by rewrite Hcc. }
    { by eapply uniform_round_ok. }
    exists m', res, acts. split_and!; try done.
    intros Hall Hlen. destruct (Hprog Hall Hlen) as [-> Htip]. split; [done|].
    intros HW Hhv. rewrite Hcc in Htip. by apply Htip.
  Qed.

  Lemma honest_never_banned n mg q :
    NInv U n → honest_msg U X P (n_mgr n) mg → Ban q ∉ (stepT n mg).2.
  Proof.
    intros Hn Hhon. pose proof Hn as [HI Hab].
    destruct mg as [p|p a hs rem0 rs|p|p h|p b c|p basis empty|p]; cbn [step].
    - destruct (n_peers n !! p) as [ps|]; [destruct (p_gone ps)|]; no_ban.
    - destruct (unsynced n p); cbn [negb]; [|no_ban].
      destruct (bool_decide (a ∈ history (n_mgr n)) && has_state (n_mgr n) a) eqn:Hh; cbn [negb];
        [|no_ban].
      destruct (headers_ok U X a hs); cbn [negb]; [|no_ban].
      destruct hs as [|h0 hs']; [no_ban|].
      destruct (honest_round true n p a (h0 :: hs') rem0 rs Hn) as (_ & m' & res & acts & E & Hres & _);
        try done.
      pose proof (do_requests_acts true (chunks P (h0 :: hs')) (n_mgr n) a (hgt U a) rs) as Ha.
      rewrite E in *. cbn in Ha.
      assert (Ban q ∈ acts → False) as Hna.
      { intros (? & ? & ? & [=])%Ha. }
      destruct res; [|done|done].
      destruct rem0; cbn; [|done].
      intros [?|Hx]%elem_of_app; [done|]. revert Hx. no_ban.
    - destruct (unsynced n p); no_ban.
    - cbn in Hhon.
      destruct (live n p); cbn [negb]; [|no_ban].
      destruct (inU U h) eqn:HinU; cbn [andb negb]; [|no_ban].
      destruct (has_state (n_mgr n) (par U h)); cbn [negb]; [|no_ban].
      destruct (has_state (n_mgr n) h); [no_ban|].
      destruct (okb_inv U h (Hhon eq_refl)) as (B & HB & Hhd & _).
      destruct (wx_pow U X P HX h B HB Hhd) as [-> _]. cbn [negb].
      destruct (par U h =? tip (n_mgr n)); cbn [negb]; no_ban.
    - cbn in Hhon. destruct Hhon as [Hc Hhon].
      destruct (live n p); cbn [negb]; [|no_ban].
      destruct (inU U b) eqn:HinU; cbn [andb negb]; [|no_ban].
      destruct (has_state (n_mgr n) (par U b)); cbn [negb]; [|no_ban].
      destruct (full_state (n_mgr n) (par U b) && has_state (n_mgr n) (hid (xget X b))) eqn:Hfs;
        [no_ban|].
      destruct (N.eqb_spec (par U b) (tip (n_mgr n))) as [Hp|]; cbn [negb]; [|no_ban].
      specialize (Hhon eq_refl).
      destruct (okb_inv U b Hhon) as (B & HB & Hhd & Hbd & _).
      destruct (wx_pow U X P HX b B HB Hhd) as [-> _]. cbn [negb].
      destruct Hc as [->|[->| ->]]; [| |no_ban].
      all: unfold add_terms; rewrite (map_canon_ok (n_mgr n) [b])
             by (by intros x ->%elem_of_list_singleton).
      all: assert (b ≠ genesis) as Hgb.
      1,3: intros ->; rewrite (okb_canon _ Hhon), Hp in Hfs;
           pose proof (tip_on_best U _ HI) as Ht;
           destruct (I_best U _ HI _ Ht) as (k & Hk & Hst & _);
           rewrite (best_has_state U _ _ HI (genesis_on_best U _ HI)) in Hfs;
           unfold full_state in Hfs; rewrite Hk in Hfs; destruct k as [st ? ?]; cbn in Hst;
           by subst st.
      all: destruct (add_blocks_live U HWF (n_mgr n) (tip (n_mgr n)) [b] HI Hab) as (m' & E & _);
           [by apply hangs_best, (tip_on_best U)|done
           |change (lp U [b] (tip (n_mgr n))); cbn [lp hd]; rewrite <- par_par; split_and!; eauto
           |by intros x ->%elem_of_list_singleton|].
      all: rewrite E; no_ban.
    - cbn in Hhon. subst empty.
      destruct (live n p); cbn [negb]; [|no_ban].
      destruct (has_body (n_mgr n) basis); cbn [negb]; no_ban.
    - no_ban.
  Qed.

  (** ** Progress with an honest peer *)
  Lemma honest_progress n p a hs rem0 rs :
    WFW U → NInv U n → unsynced n p = true → hs ≠ [] →
    honest_msg U X P (n_mgr n) (MSync p a hs rem0 rs) → (∀ r, r ∈ rs → r ≠ CFail) →
    length rs = length (chunks P hs) →
    (bool_decide (a ∈ history (n_mgr n)) && has_state (n_mgr n) a) = true →
    heavier U (List.last hs a) (tip (n_mgr n)) = true →
    tip (n_mgr (stepT n (MSync p a hs rem0 rs)).1) = List.last hs a ∧
    NInv U (stepT n (MSync p a hs rem0 rs)).1.
  Proof.
    intros HW Hn Hun Hne Hhon Hnf Hlen Hh Hhv.
    destruct (honest_round true n p a hs rem0 rs Hn Hne Hhon Hh)
      as (Hho & m' & res & acts & E & _ & HI' & Hab' & Hprog).
    destruct Hprog as [-> Htip]; [done|lia|]. specialize (Htip HW Hhv).
    cbn [step]. rewrite Hun, Hh, Hho. cbn [negb].
    destruct hs as [|h0 hs']; [done|]. rewrite E.
    destruct rem0; cbn; unfold NInv; rewrite ?set_peer_mgr; cbn; done.
  Qed.
End SP.

(** * The theorems of Props/C11.v *)

(** 1. safety, whatever the peers send.  ([GRoot U] is an addition to the intended statement: see
    its definition and [groot_needed].) *)
Theorem safety :
  ∀ U X P subnets n0 msgs,
    WF U → WFX U X P → GRoot U → 0 < bpr P → 0 < reqh P → NInv U n0 →
    Forall (uniform U P) msgs →
    let n := (run U X P true subnets n0 msgs).1 in
    NInv U n ∧
    (∀ b B, b ∈ best (n_mgr n) → b ≠ genesis → U !! b = Some B →
       hdr_ok B = true ∧ body_ok B = true) ∧
    (twof U (tip (n_mgr n0)) ≤ twof U (tip (n_mgr n)))%Z ∧
    (tip (n_mgr n) ≠ tip (n_mgr n0) → heavier U (tip (n_mgr n)) (tip (n_mgr n0)) = true).
Proof.
  intros U X P subnets n0 msgs HWF HX HG Hb Hr Hn Hu n.
  destruct (run_safe U X P subnets HWF HX Hb Hr HG msgs n0 Hn Hu) as (Hn' & [Hm1 Hm2] & _).
  fold n in Hn', Hm1, Hm2. split_and!; try done.
  intros b B Hin Hg HB. destruct Hn' as [HI _].
  destruct (I_best U _ HI b Hin) as (k & _ & _ & _ & [?|(B' & HB' & ? & ?)]); [done|].
  by simplify_eq.
Qed.

(** 2. the instant-sync path establishes the documented precondition of AddValidatedV2Blocks *)
Theorem prevalidated_sound :
  ∀ U X P subnets n0 msgs,
    WF U → WFX U X P → GRoot U → 0 < bpr P → 0 < reqh P → NInv U n0 →
    Forall (uniform U P) msgs →
    ∀ l out, Submit true l out ∈ (run U X P true subnets n0 msgs).2 → validated_pre U l.
Proof.
  intros U X P subnets n0 msgs HWF HX HG Hb Hr Hn Hu.
  by destruct (run_safe U X P subnets HWF HX Hb Hr HG msgs n0 Hn Hu) as (_ & _ & ?).
Qed.

(** 3a *)
Theorem ban_sound_fixed :
  ∀ U X P subnets n mg q,
    Ban q ∈ (step U X P true subnets n mg).2 →
    q = sender mg ∧ judged_invalid U X P subnets n mg.
Proof. intros U X P subnets n mg q H. destruct (ban_sound U X P subnets true n mg q H). auto. Qed.

(** 4, from any state reached under arbitrary earlier (uniform) messages *)
Theorem honest_progress_after_garbage :
  ∀ U X P subnets n0 msgs p a hs rem0 rs,
    WF U → WFX U X P → GRoot U → WFW U → 0 < bpr P → 0 < reqh P →
    NInv U n0 → Forall (uniform U P) msgs →
    let n := (run U X P true subnets n0 msgs).1 in
    unsynced n p = true → hs ≠ [] →
    honest_msg U X P (n_mgr n) (MSync p a hs rem0 rs) → (∀ r, r ∈ rs → r ≠ CFail) →
    length rs = length (chunks P hs) →
    (bool_decide (a ∈ history (n_mgr n)) && has_state (n_mgr n) a) = true →
    heavier U (List.last hs a) (tip (n_mgr n)) = true →
    tip (n_mgr (step U X P true subnets n (MSync p a hs rem0 rs)).1) = List.last hs a ∧
    NInv U (step U X P true subnets n (MSync p a hs rem0 rs)).1.
Proof.
  intros U X P subnets n0 msgs p a hs rem0 rs HWF HX HG HW Hb Hr Hn Hu n.
  destruct (run_safe U X P subnets HWF HX Hb Hr HG msgs n0 Hn Hu) as (Hn' & _).
  intros. by apply honest_progress.
Qed.

(** * Concrete witnesses *)
Ltac in_list_map H :=
  apply elem_of_list_to_map_2 in H;
  repeat (apply elem_of_cons in H as [[= -> ->]|H]; [|]);
  [..|by apply elem_of_nil in H].

(** ** 2'. The code before repair C11-1 *)
Module Unbound.
  (** genesis 0; a valid v2 block 1; 500 = the header of 1 with a tampered miner payout
      (ValidateOrphan fails, the commitment check succeeds); 2 and 3 are mined on the bogus state
      the tampered block leads to: header-valid, body-invalid *)
  Definition U : universe := list_to_map [
    (0, Blk 0 0 true false true 1 1);
    (1, Blk 0 1 true false true 2 2);
    (500, Blk 0 1 false false false 2 2);
    (2, Blk 1 2 true false false 4 3);
    (3, Blk 2 3 true false false 7 4) ].
  Definition X : xuniverse := list_to_map [
    (0, XB true true false 0 None);
    (1, XB true true true 1 (Some (StOf 0)));
    (500, XB true true true 1 (Some (StOf 0)));
    (2, XB true true true 2 None);
    (3, XB true true true 3 None) ].
  Definition P : params := Params 10000 100 1.
  Definition n0 : node := Node (add_blocks U init [1]).1.1 ∅ ∅.
  Definition msgs : list msg :=
    [MConnect 7; MSync 7 1 [2; 3] true [CInstant 500 (StOf 0) true [2; 3]]].

  Lemma U_wf : WF U.
  Proof. apply wfb_sound. vm_compute. reflexivity. Qed.

  Lemma X_wf : WFX U X P.
  Proof.
    split.
    - intros t B H. unfold U in H. in_list_map H; vm_compute; congruence.
    - intros t B H. unfold U in H. in_list_map H; vm_compute; congruence.
    - intros t t' s s'. unfold xget.
      destruct (X !! t) as [x|] eqn:E; [|done]. destruct (X !! t') as [x'|] eqn:E'; [|done].
      unfold X in E, E'. in_list_map E; in_list_map E'; vm_compute; congruence.
    - intros t B H. unfold U in H. in_list_map H; vm_compute; try congruence; by intros _ [].
    - intros t B H. unfold U in H. in_list_map H; vm_compute; try congruence; by intros _.
  Qed.

  Lemma U_groot : GRoot U.
  Proof. vm_compute. reflexivity. Qed.

  Lemma n0_inv : NInv U n0.
  Proof.
    split.
    - apply (mstep_inv U U_wf init (AddBlocks [1]) (MInv_init U U_wf) I).
    - apply (all_body_add_blocks U init [1]), all_body_init.
  Qed.

  Lemma msgs_uniform : Forall (uniform U P) msgs.
  Proof. constructor; [done|]. constructor; [|constructor]. left. vm_compute. done. Qed.

  Lemma run_unfixed :
    run U X P false (λ _, []) n0 msgs =
      ((run U X P false (λ _, []) n0 msgs).1, [Submit true [2; 3] Ok; Synced 7; Relay 3]) ∧
    best (n_mgr (run U X P false (λ _, []) n0 msgs).1) = [3; 2; 1; 0].
  Proof. split; vm_compute; reflexivity. Qed.

  (** with the repair the same round only fails (the checkpoint is refused) *)
  Lemma run_fixed :
    (run U X P true (λ _, []) n0 msgs).2 = [] ∧
    best (n_mgr (run U X P true (λ _, []) n0 msgs).1) = [1; 0].
  Proof. split; vm_compute; reflexivity. Qed.
End Unbound.

Theorem unbound_checkpoint_refuted :
  ∃ U X P subnets n0 msgs,
    WF U ∧ WFX U X P ∧ GRoot U ∧ 0 < bpr P ∧ 0 < reqh P ∧ NInv U n0 ∧
    Forall (uniform U P) msgs ∧
    let r := run U X P false subnets n0 msgs in
    (∃ l, Submit true l Ok ∈ r.2 ∧ ¬ validated_pre U l) ∧
    (∃ b B, b ∈ best (n_mgr r.1) ∧ U !! b = Some B ∧ body_ok B = false).
Proof.
  exists Unbound.U, Unbound.X, Unbound.P, (λ _, []), Unbound.n0, Unbound.msgs.
  split_and!; [apply Unbound.U_wf|apply Unbound.X_wf|apply Unbound.U_groot|done|done
              |apply Unbound.n0_inv|apply Unbound.msgs_uniform|].
  destruct Unbound.run_unfixed as [E Hb]. cbv zeta. split.
  - exists [2; 3]. split.
    + rewrite E. apply elem_of_cons. by left.
    + intros [(B & HB & _ & Hbo) _]. vm_compute in HB. injection HB as <-. done.
  - exists 2, (Blk 1 2 true false false 4 3). rewrite Hb. split_and!; [|done|done].
    apply elem_of_cons. right. apply elem_of_cons. by left.
Qed.

(** ** Why [GRoot]: an instant-sync round walked down to a genesis that "hangs" on a block *)
Module Root.
  (** genesis 0 is labelled valid and its parent field names block 1; 1 is a valid v2 block;
      2 is a heavy, header-valid, body-invalid child of genesis; 600 is a term carrying the
      genesis header whose commitment is over a made-up state *)
  Definition U : universe := list_to_map [
    (0, Blk 1 0 true false true 1 1);
    (1, Blk 0 1 true false true 2 2);
    (2, Blk 0 1 true false false 50 3);
    (600, Blk 1 2 false false false 1 1) ].
  Definition X : xuniverse := list_to_map [
    (0, XB true true false 0 None);
    (1, XB true true true 1 (Some (StOf 0)));
    (2, XB true true true 2 None);
    (600, XB true true true 0 (Some (StJunk 0))) ].
  Definition P : params := Params 10000 1 1.
  Definition n0 : node := Node (add_blocks U init [1]).1.1 ∅ ∅.
  Definition msgs : list msg :=
    [MConnect 7;
     MSync 7 1 [0; 2] true [CInstant 1 (StOf 0) false [0]; CInstant 600 (StJunk 0) true [2]]].

  Lemma U_wf : WF U.
  Proof. apply wfb_sound. vm_compute. reflexivity. Qed.

  Lemma X_wf : WFX U X P.
  Proof.
    split.
    - intros t B H. unfold U in H. in_list_map H; vm_compute; congruence.
    - intros t B H. unfold U in H. in_list_map H; vm_compute; congruence.
    - intros t t' s s'. unfold xget.
      destruct (X !! t) as [x|] eqn:E; [|done]. destruct (X !! t') as [x'|] eqn:E'; [|done].
      unfold X in E, E'. in_list_map E; in_list_map E'; vm_compute; congruence.
    - intros t B H. unfold U in H. in_list_map H; vm_compute; try congruence; by intros _ [].
    - intros t B H. unfold U in H. in_list_map H; vm_compute; try congruence; by intros _.
  Qed.

  Lemma n0_inv : NInv U n0.
  Proof.
    split.
    - apply (mstep_inv U U_wf init (AddBlocks [1]) (MInv_init U U_wf) I).
    - apply (all_body_add_blocks U init [1]), all_body_init.
  Qed.

  Lemma msgs_uniform : Forall (uniform U P) msgs.
  Proof. constructor; [done|]. constructor; [|constructor]. left. vm_compute. done. Qed.

  Lemma run_fixed :
    (run U X P true (λ _, []) n0 msgs).2 =
      [Submit true [0] Ok; Submit true [2] Ok; Synced 7; Relay 2] ∧
    best (n_mgr (run U X P true (λ _, []) n0 msgs).1) = [2; 0].
  Proof. split; vm_compute; reflexivity. Qed.
End Root.

Theorem groot_needed :
  ∃ U X P subnets n0 msgs,
    WF U ∧ WFX U X P ∧ ¬ GRoot U ∧ 0 < bpr P ∧ 0 < reqh P ∧ NInv U n0 ∧
    Forall (uniform U P) msgs ∧
    let r := run U X P true subnets n0 msgs in
    (∃ l, Submit true l Ok ∈ r.2 ∧ ¬ validated_pre U l) ∧
    (∃ b B, b ∈ best (n_mgr r.1) ∧ U !! b = Some B ∧ body_ok B = false).
Proof.
  exists Root.U, Root.X, Root.P, (λ _, []), Root.n0, Root.msgs.
  split_and!; [apply Root.U_wf|apply Root.X_wf|by vm_compute|done|done
              |apply Root.n0_inv|apply Root.msgs_uniform|].
  destruct Root.run_fixed as [E Hb]. cbv zeta. split.
  - exists [2]. split.
    + rewrite E. apply elem_of_cons. right. apply elem_of_cons. by left.
    + intros [(B & HB & _ & Hbo) _]. vm_compute in HB. injection HB as <-. done.
  - exists 2, (Blk 0 1 true false false 50 3). rewrite Hb. split_and!; [|done|done].
    apply elem_of_cons. by left.
Qed.

(** ** Non-vacuity: the hypotheses of the honest-peer theorems and of [listed] are met *)
Module Honest.
  (** the universe of Net/MgrLiveProofs.v: main chain 1-2, a heavier fork 3-4-5 from block 1,
      every block valid; the node is on [2; 1; 0] and the peer offers the fork *)
  Definition X : xuniverse := list_to_map [
    (0, XB true true false 0 None);
    (1, XB true true true 1 (Some (StOf 0)));
    (2, XB true true true 2 (Some (StOf 1)));
    (3, XB true true true 3 (Some (StOf 1)));
    (4, XB true true true 4 (Some (StOf 3)));
    (5, XB true true true 5 (Some (StOf 4))) ].
  (** two blocks per request; every request below / at or above the require height *)
  Definition Plow : params := Params 10000 2 100.
  Definition Pinst : params := Params 10000 2 1.
  Definition n : node := Node exm {[ 7 := PS false false ]} ∅.
  Definition sync_low : msg := MSync 7 1 [3; 4; 5] true [CBlocks [3; 4]; CBlocks [5]].
  Definition sync_inst : msg :=
    MSync 7 1 [3; 4; 5] true [CInstant 1 (StOf 0) false [3; 4]; CInstant 4 (StOf 3) false [5]].

  Lemma X_wf P : P = Plow ∨ P = Pinst → WFX exU X P.
  Proof.
    intros HP. split.
    - intros t B H. unfold exU in H. in_list_map H; vm_compute; congruence.
    - intros t B H. unfold exU in H. in_list_map H; vm_compute; congruence.
    - intros t t' s s'. unfold xget.
      destruct (X !! t) as [x|] eqn:E; [|done]. destruct (X !! t') as [x'|] eqn:E'; [|done].
      unfold X in E, E'. in_list_map E; in_list_map E'; vm_compute; congruence.
    - intros t B H. unfold exU in H.
      destruct HP as [-> | ->]; in_list_map H; vm_compute; try congruence; by intros _ [].
    - intros t B H. unfold exU in H. in_list_map H; vm_compute; try congruence; by intros _.
  Qed.

  Lemma U_wfw : WFW exU.
  Proof. intros b B H Hg. unfold exU in H. in_list_map H; try done; vm_compute; reflexivity. Qed.

  Lemma U_groot : GRoot exU.
  Proof. vm_compute. reflexivity. Qed.

  Lemma n_inv : NInv exU n.
  Proof. split; [apply exm_inv|apply exm_all_body]. Qed.

  Lemma honest_low : honest_msg exU X Plow (n_mgr n) sync_low.
  Proof.
    split_and!; [apply ex_fork_lp|apply ex_fork_okb|right; by vm_compute|].
    vm_compute. split_and!; try done; right; left; done.
  Qed.

  Lemma honest_inst : honest_msg exU X Pinst (n_mgr n) sync_inst.
  Proof.
    split_and!; [apply ex_fork_lp|apply ex_fork_okb|left; by vm_compute|].
    vm_compute. split_and!; try done; right; right; (split; [done|by exists false]).
  Qed.

  (** every hypothesis of [honest_progress] holds, in both paths; hence the fork is adopted *)
  Lemma progress_low :
    tip (n_mgr (step exU X Plow true (λ _, []) n sync_low).1) = 5 ∧
    NInv exU (step exU X Plow true (λ _, []) n sync_low).1.
  Proof.
    apply (honest_progress exU X Plow (λ _, []) exU_wf (X_wf Plow (or_introl eq_refl)));
      [done|done|apply U_wfw|apply n_inv|by vm_compute|done|apply honest_low| |by vm_compute
      |by vm_compute|by vm_compute].
    intros r Hr. repeat (apply elem_of_cons in Hr as [->|Hr]; [done|]). by apply elem_of_nil in Hr.
  Qed.

  Lemma progress_inst :
    tip (n_mgr (step exU X Pinst true (λ _, []) n sync_inst).1) = 5 ∧
    NInv exU (step exU X Pinst true (λ _, []) n sync_inst).1.
  Proof.
    apply (honest_progress exU X Pinst (λ _, []) exU_wf (X_wf Pinst (or_intror eq_refl)));
      [done|done|apply U_wfw|apply n_inv|by vm_compute|done|apply honest_inst| |by vm_compute
      |by vm_compute|by vm_compute].
    intros r Hr. repeat (apply elem_of_cons in Hr as [->|Hr]; [done|]). by apply elem_of_nil in Hr.
  Qed.

  (** what the two rounds do, computed *)
  Lemma round_low :
    (step exU X Plow true (λ _, []) n sync_low).2 =
      [Submit false [3; 4] Ok; Submit false [5] Ok; Synced 7; Relay 5].
  Proof. vm_compute. reflexivity. Qed.
  Lemma round_inst :
    (step exU X Pinst true (λ _, []) n sync_inst).2 =
      [Submit true [3; 4] Ok; Submit true [5] Ok; Synced 7; Relay 5].
  Proof. vm_compute. reflexivity. Qed.
End Honest.

Module Listed.
  (** the universe of [Unbound] plus 9: a child of block 1 with an invalid header whose id does
      not meet the target *)
  Definition U : universe := list_to_map [
    (0, Blk 0 0 true false true 1 1);
    (1, Blk 0 1 true false true 2 2);
    (500, Blk 0 1 false false false 2 2);
    (2, Blk 1 2 true false false 4 3);
    (3, Blk 2 3 true false false 7 4);
    (9, Blk 1 2 false false false 3 1) ].
  Definition X : xuniverse := list_to_map [
    (0, XB true true false 0 None);
    (1, XB true true true 1 (Some (StOf 0)));
    (500, XB true true true 1 (Some (StOf 0)));
    (2, XB true true true 2 None);
    (3, XB true true true 3 None);
    (9, XB false false true 9 None) ].
  Definition Plow : params := Params 10000 100 100.
  Definition Pinst : params := Params 10000 100 1.
  Definition n : node := Node (add_blocks U init [1]).1.1 {[ 7 := PS false false ]} ∅.

  Lemma U_wf : WF U.
  Proof. apply wfb_sound. vm_compute. reflexivity. Qed.

  Lemma X_wf P : P = Plow ∨ P = Pinst → WFX U X P.
  Proof.
    intros HP. split.
    - intros t B H. unfold U in H. in_list_map H; vm_compute; congruence.
    - intros t B H. unfold U in H. in_list_map H; vm_compute; congruence.
    - intros t t' s s'. unfold xget.
      destruct (X !! t) as [x|] eqn:E; [|done]. destruct (X !! t') as [x'|] eqn:E'; [|done].
      unfold X in E, E'. in_list_map E; in_list_map E'; vm_compute; congruence.
    - intros t B H. unfold U in H.
      destruct HP as [-> | ->]; in_list_map H; vm_compute; try congruence; by intros _ [].
    - intros t B H. unfold U in H. in_list_map H; vm_compute; try congruence; by intros _.
  Qed.

  Lemma n_inv : NInv U n.
  Proof.
    split.
    - apply (mstep_inv U U_wf init (AddBlocks [1]) (MInv_init U U_wf) I).
    - apply (all_body_add_blocks U init [1]), all_body_init.
  Qed.

  (** a relayed header with insufficient work *)
  Lemma listed_header P : listed U X P n (MHeader 7 9).
  Proof. apply L_header; vm_compute; reflexivity. Qed.

  (** a relayed outline of the body-invalid block 2 *)
  Lemma listed_outline P : listed U X P n (MOutline 7 2 Complete).
  Proof. apply L_outline_invalid; try (vm_compute; reflexivity); [by left|by vm_compute]. Qed.

  (** a sync round serving the body-invalid block 2, below / at the require height *)
  Lemma listed_sync_low : listed U X Plow n (MSync 7 1 [2] true [CBlocks [2]]).
  Proof. apply L_sync; try (vm_compute; reflexivity); done. Qed.
  Lemma listed_sync_inst :
    listed U X Pinst n (MSync 7 1 [2] true [CInstant 1 (StOf 0) false [2]]).
  Proof. apply L_sync; try (vm_compute; reflexivity); done. Qed.

  Lemma banned_sync_inst :
    (step U X Pinst true (λ _, [10; 11]) n (MSync 7 1 [2] true [CInstant 1 (StOf 0) false [2]])).2
      = [Ban 7].
  Proof. vm_compute. reflexivity. Qed.
End Listed.

(** * The remaining statements, in the argument order of Props/C11.v *)
Theorem step_safe_thm :
  ∀ U X P subnets n mg,
    WF U → WFX U X P → GRoot U → 0 < bpr P → 0 < reqh P → NInv U n → uniform U P mg →
    let n' := (step U X P true subnets n mg).1 in
    NInv U n' ∧
    (twof U (tip (n_mgr n)) ≤ twof U (tip (n_mgr n')))%Z ∧
    (tip (n_mgr n') ≠ tip (n_mgr n) → heavier U (tip (n_mgr n')) (tip (n_mgr n)) = true) ∧
    (∀ l out, Submit true l out ∈ (step U X P true subnets n mg).2 → validated_pre U l).
Proof.
  intros U X P subnets n mg HWF HX HG Hb Hr Hn Hu n'.
  destruct (step_safe U X P subnets HWF HX Hb Hr HG n mg Hn Hu) as (? & [? ?] & ?). done.
Qed.

Theorem rban_cause_thm :
  ∀ U X P fixcp m base bh hj r m' acts,
    do_request U X P fixcp m base bh hj r = (m', RBan, acts) →
    (∃ cp st j bs, r = CInstant cp st j bs ∧ vblocks U (derive U X st cp) j bs = false) ∨
    (∃ v l o, Submit v l o ∈ acts ∧ o ≠ Ok).
Proof. exact rban_cause. Qed.

Theorem honest_never_banned_thm :
  ∀ U X P subnets n mg q,
    WF U → WFX U X P → 0 < bpr P → 0 < reqh P → NInv U n →
    honest_msg U X P (n_mgr n) mg → Ban q ∉ (step U X P true subnets n mg).2.
Proof. intros U X P subnets n mg q HWF HX Hb Hr. by apply honest_never_banned. Qed.

Theorem ban_listed_thm :
  ∀ U X P subnets n mg, listed U X P n mg → Ban (sender mg) ∈ (step U X P true subnets n mg).2.
Proof. exact ban_listed. Qed.

Theorem rban_reached_instant_thm :
  ∀ U X P fixcp m base bh hj cp st j bs,
    reqh P ≤ bh → checkpoint_ok U X fixcp base cp st j = true →
    length bs = length hj → hid (xget X (List.last bs 0)) = List.last hj 0 →
    vblocks U (derive U X st cp) j bs = false →
    do_request U X P fixcp m base bh hj (CInstant cp st j bs) = (m, RBan, []).
Proof. exact rban_reached_instant. Qed.

Theorem rban_reached_blocks_thm :
  ∀ U X P fixcp m base bh hj bs,
    bh < reqh P → eqb_ids (map (λ t, hid (xget X t)) bs) hj = true →
    (add_terms U X m bs).1.2 ≠ Ok →
    ∃ o, o ≠ Ok ∧
      do_request U X P fixcp m base bh hj (CBlocks bs) =
        ((add_terms U X m bs).1.1, RBan, [Submit false bs o]).
Proof. exact rban_reached_blocks. Qed.

Theorem honest_progress_thm :
  ∀ U X P subnets n p a hs rem0 rs,
    WF U → WFX U X P → WFW U → 0 < bpr P → 0 < reqh P → NInv U n →
    unsynced n p = true → hs ≠ [] →
    honest_msg U X P (n_mgr n) (MSync p a hs rem0 rs) → (∀ r, r ∈ rs → r ≠ CFail) →
    length rs = length (chunks P hs) →
    (bool_decide (a ∈ history (n_mgr n)) && has_state (n_mgr n) a) = true →
    heavier U (List.last hs a) (tip (n_mgr n)) = true →
    tip (n_mgr (step U X P true subnets n (MSync p a hs rem0 rs)).1) = List.last hs a ∧
    NInv U (step U X P true subnets n (MSync p a hs rem0 rs)).1.
Proof. intros U X P subnets n p a hs rem0 rs HWF HX HW Hb Hr. by apply honest_progress. Qed.

(** non-vacuity of the honest-peer theorems and of [listed], as one statement *)
Theorem nonvacuous :
  (∃ U X P n p a hs rem0 rs,
     WF U ∧ WFX U X P ∧ GRoot U ∧ WFW U ∧ 0 < bpr P ∧ 0 < reqh P ∧ NInv U n ∧
     unsynced n p = true ∧ hs ≠ [] ∧
     honest_msg U X P (n_mgr n) (MSync p a hs rem0 rs) ∧ (∀ r, r ∈ rs → r ≠ CFail) ∧
     length rs = length (chunks P hs) ∧
     (bool_decide (a ∈ history (n_mgr n)) && has_state (n_mgr n) a) = true ∧
     heavier U (List.last hs a) (tip (n_mgr n)) = true ∧
     hgt U a + N.of_nat (length hs) ≤ reqh P ∧ (1 < length rs)%nat) ∧
  (∃ U X P n p a hs rem0 rs,
     WF U ∧ WFX U X P ∧ GRoot U ∧ WFW U ∧ 0 < bpr P ∧ 0 < reqh P ∧ NInv U n ∧
     unsynced n p = true ∧ hs ≠ [] ∧
     honest_msg U X P (n_mgr n) (MSync p a hs rem0 rs) ∧ (∀ r, r ∈ rs → r ≠ CFail) ∧
     length rs = length (chunks P hs) ∧
     (bool_decide (a ∈ history (n_mgr n)) && has_state (n_mgr n) a) = true ∧
     heavier U (List.last hs a) (tip (n_mgr n)) = true ∧
     reqh P ≤ hgt U a ∧ (1 < length rs)%nat) ∧
  (∃ U X P n p h, WF U ∧ WFX U X P ∧ NInv U n ∧ listed U X P n (MHeader p h)) ∧
  (∃ U X P n p b c, WF U ∧ WFX U X P ∧ NInv U n ∧ listed U X P n (MOutline p b c)) ∧
  (∃ U X P n p a hs rem0 rs, WF U ∧ WFX U X P ∧ NInv U n ∧
     hgt U a + N.of_nat (length hs) ≤ reqh P ∧ listed U X P n (MSync p a hs rem0 rs)) ∧
  (∃ U X P n p a hs rem0 rs, WF U ∧ WFX U X P ∧ NInv U n ∧
     reqh P ≤ hgt U a ∧ listed U X P n (MSync p a hs rem0 rs)).
Proof.
  assert (∀ rs : list cresp, rs = [CBlocks [3; 4]; CBlocks [5]] ∨
            rs = [CInstant 1 (StOf 0) false [3; 4]; CInstant 4 (StOf 3) false [5]] →
            ∀ r, r ∈ rs → r ≠ CFail) as Hnf.
  { intros rs [-> | ->] r Hr;
      repeat (apply elem_of_cons in Hr as [->|Hr]; [done|]); by apply elem_of_nil in Hr. }
  split_and!.
  - exists exU, Honest.X, Honest.Plow, Honest.n, 7, 1, [3; 4; 5], true,
      [CBlocks [3; 4]; CBlocks [5]].
    split_and!; [apply exU_wf|apply Honest.X_wf; by left|apply Honest.U_groot|apply Honest.U_wfw
                |done|done|apply Honest.n_inv|by vm_compute|done|apply Honest.honest_low
                |apply Hnf; by left|by vm_compute|by vm_compute|by vm_compute|by vm_compute
                |cbn; lia].
  - exists exU, Honest.X, Honest.Pinst, Honest.n, 7, 1, [3; 4; 5], true,
      [CInstant 1 (StOf 0) false [3; 4]; CInstant 4 (StOf 3) false [5]].
    split_and!; [apply exU_wf|apply Honest.X_wf; by right|apply Honest.U_groot|apply Honest.U_wfw
                |done|done|apply Honest.n_inv|by vm_compute|done|apply Honest.honest_inst
                |apply Hnf; by right|by vm_compute|by vm_compute|by vm_compute|by vm_compute
                |cbn; lia].
  - exists Listed.U, Listed.X, Listed.Pinst, Listed.n, 7, 9.
    split_and!; [apply Listed.U_wf|apply Listed.X_wf; by right|apply Listed.n_inv
                |apply Listed.listed_header].
  - exists Listed.U, Listed.X, Listed.Pinst, Listed.n, 7, 2, Complete.
    split_and!; [apply Listed.U_wf|apply Listed.X_wf; by right|apply Listed.n_inv
                |apply Listed.listed_outline].
  - exists Listed.U, Listed.X, Listed.Plow, Listed.n, 7, 1, [2], true, [CBlocks [2]].
    split_and!; [apply Listed.U_wf|apply Listed.X_wf; by left|apply Listed.n_inv|by vm_compute
                |apply Listed.listed_sync_low].
  - exists Listed.U, Listed.X, Listed.Pinst, Listed.n, 7, 1, [2], true,
      [CInstant 1 (StOf 0) false [2]].
    split_and!; [apply Listed.U_wf|apply Listed.X_wf; by right|apply Listed.n_inv|by vm_compute
                |apply Listed.listed_sync_inst].
Qed.

(** * The batch-acceptance rule of workFn (parallel_sync.go:66-70, 84-95)

    A request that is accepted ([RNext]) handed the manager exactly the blocks of the header
    chunk it was asked for.  Hypotheses actually needed: [WFX] (valid terms are canonical, the
    commitment binds the state); for the instant path, that the base is a fully valid block at
    or above the require height (what [instant_base] needs; [do_requests_safe] maintains it) and
    that the chunk passed SendHeaders' checks ([headers_ok]: parent-linked from the base,
    canonical ids).  [WF], [GRoot] and [0 < reqh P] are not needed. *)
Section Batch.
  Context (U : universe) (X : xuniverse) (P : params) (HX : WFX U X P).

  Lemma eqb_ids_eq (a : list N) : ∀ b, eqb_ids a b = true → a = b.
  Proof.
    unfold eqb_ids. induction a as [|x a IH]; intros [|y b]; cbn; try done.
    intros [Hl [Hxy Hf]%andb_true_iff]%andb_true_iff. apply N.eqb_eq in Hxy. subst y.
    f_equal. apply IH. by rewrite Hl, Hf.
  Qed.

  (** parent-linked from [base], front to back *)
  Fixpoint linked (base : N) (l : list N) : Prop :=
    match l with
    | [] => True
    | x :: r => par U x = base ∧ linked x r
    end.

  Lemma linked_snoc l : ∀ base x,
    linked base (l ++ [x]) ↔ linked base l ∧ par U x = List.last l base.
  Proof.
    induction l as [|y l IH]; intros base x; cbn [app linked].
    - cbn. tauto.
    - rewrite IH. rewrite (last_cons l y base). tauto.
  Qed.

  (** two parent-linked lists of the same length with the same last element are equal *)
  Lemma linked_eq l1 : ∀ l2 b1 b2,
    linked b1 l1 → linked b2 l2 → length l1 = length l2 →
    (l1 ≠ [] → List.last l1 0 = List.last l2 0) → l1 = l2.
  Proof.
    induction l1 as [|x l1 IH] using rev_ind; intros l2 b1 b2 H1 H2 Hlen Hlast.
    { destruct l2; [done|cbn in Hlen; lia]. }
    destruct l2 as [|y l2 _] using rev_ind.
    { rewrite app_length in Hlen. cbn in Hlen. lia. }
    rewrite !app_length in Hlen. cbn in Hlen.
    rewrite !last_last in Hlast. specialize (Hlast ltac:(by destruct l1)). subst y.
    apply linked_snoc in H1 as [H1 Hp1]. apply linked_snoc in H2 as [H2 Hp2].
    f_equal. apply (IH l2 b1 b2); [done|done|lia|].
    intros Hne. assert (l2 ≠ []) as Hne2 by (destruct l2; [destruct l1; [done|cbn in Hlen; lia]|done]).
    rewrite (sy_last_default l1 0 b1 Hne), (sy_last_default l2 0 b2 Hne2). congruence.
  Qed.

  Lemma headers_ok_linked hs : ∀ a, headers_ok U X a hs = true →
    linked a hs ∧ ∀ h, h ∈ hs → hid (xget X h) = h.
  Proof.
    induction hs as [|h hs IH]; intros a H.
    { split; [done|]. by intros h ?%elem_of_nil. }
    cbn [headers_ok] in H.
    apply andb_true_iff in H as [[[[_ Hp]%andb_true_iff _]%andb_true_iff Hid]%andb_true_iff H].
    apply N.eqb_eq in Hp, Hid. destruct (IH h H) as [Hl Hall]. split; [done|].
    intros h' [->|?]%elem_of_cons; auto.
  Qed.

  Lemma vblocks_linked j bs : ∀ base, vblocks U (StOf base) j bs = true →
    linked base bs ∧ ∀ x, x ∈ bs → hid (xget X x) = x.
  Proof.
    induction bs as [|b bs IH]; intros base H.
    { split; [done|]. by intros x ?%elem_of_nil. }
    cbn [vblocks after] in H. apply andb_true_iff in H as [Hv H].
    unfold vblock, hdr_okb, body_okb in Hv.
    apply andb_true_iff in Hv as [[Hp Hh]%andb_true_iff Hb]. apply N.eqb_eq in Hp.
    destruct (U !! b) as [B|] eqn:HB; [|done].
    destruct (IH b H) as [Hl Hall]. split; [done|].
    intros x [->|?]%elem_of_cons; [|auto]. by eapply (wx_canon U X P HX).
  Qed.

  Lemma map_hid_id l : (∀ x, x ∈ l → hid (xget X x) = x) → map (λ t, hid (xget X t)) l = l.
  Proof.
    induction l as [|x l IH]; intros H; cbn [map]; [done|].
    rewrite H, IH; [done| |]; [intros y Hy|]; try apply H; apply elem_of_cons; auto.
  Qed.

  Lemma accepted_batch m base bh hj r m' acts :
    headers_ok U X base hj = true →
    (reqh P ≤ bh → ∃ B, U !! base = Some B ∧ hdr_ok B = true ∧ body_ok B = true ∧
                        reqh P ≤ height B) →
    do_request U X P true m base bh hj r = (m', RNext, acts) →
    ∃ v bs, acts = [Submit v bs Ok] ∧ map (λ t, hid (xget X t)) bs = hj ∧ (v = true → bs = hj).
  Proof.
    intros Hhs Hbase. destruct r as [|bs|cp st j bs]; cbn [do_request].
    - done.
    - destruct (reqh P <=? bh); [done|].
      destruct (eqb_ids (map (λ t, hid (xget X t)) bs) hj) eqn:Hid; cbn [negb]; [|done].
      apply eqb_ids_eq in Hid.
      destruct (add_terms U X m bs) as [[m1 out] nt].
      destruct out; intros [= <- <-]. exists false, bs. done.
    - destruct (N.leb_spec (reqh P) bh) as [Hle|]; cbn [negb]; [|done].
      destruct (checkpoint_ok U X true base cp st j) eqn:Hck; cbn [negb]; [|done].
      destruct (Nat.eqb_spec (length bs) (length hj)) as [Hlen|]; cbn [negb]; [|done].
      destruct (N.eqb_spec (hid (xget X (List.last bs 0))) (List.last hj 0)) as [Hlast|];
        cbn [negb]; [|done].
      destruct (vblocks U (derive U X st cp) j bs) eqn:Hv; cbn [negb]; [|done].
      destruct (instant_base U X P HX base cp st j (Hbase Hle) Hck) as [_ Hd].
      rewrite Hd in Hv.
      destruct (vblocks_linked j bs base Hv) as [Hlb Hcb].
      destruct (headers_ok_linked hj base Hhs) as [Hlh Hch].
      assert (bs = hj) as ->.
      { apply (linked_eq bs hj base base Hlb Hlh Hlen). intros Hne.
        rewrite <- Hlast. symmetry. apply Hcb. by apply sy_last_in. }
      destruct (add_validated U m hj) as [[m1 out] nt].
      destruct out; intros [= <- <-]. exists true, hj. split_and!; [done| |done].
      by apply map_hid_id.
  Qed.

  (** the acceptance rule with the last-id comparison (parallel_sync.go:68) replaced by "the
      first block attaches to the base" *)
  Definition do_request_attach (fixcp : bool) (m : mgr) (base bh : N) (hj : list N) (r : cresp)
    : mgr * req_result * list action :=
    match r with
    | CInstant cp st junk_ok bs =>
        if negb (reqh P <=? bh) then (m, RFail, [])
        else if negb (checkpoint_ok U X fixcp base cp st junk_ok) then (m, RFail, [])
        else if negb (Nat.eqb (length bs) (length hj)) then (m, RFail, [])
        else if negb (match bs with [] => true | b :: _ => par U b =? base end) then (m, RFail, [])
        else if negb (vblocks U (derive U X st cp) junk_ok bs) then (m, RBan, [])
        else let '(m', out, _) := add_validated U m bs in
             match out with
             | Ok => (m', RNext, [Submit true bs Ok])
             | o => (m', RBan, [Submit true bs o])
             end
    | other => do_request U X P fixcp m base bh hj other
    end.
End Batch.

Theorem accepted_batch_is_header_chunk :
  ∀ U X P m base bh hj r m' acts,
    WFX U X P →
    headers_ok U X base hj = true →
    (reqh P ≤ bh → ∃ B, U !! base = Some B ∧ hdr_ok B = true ∧ body_ok B = true ∧
                        reqh P ≤ height B) →
    do_request U X P true m base bh hj r = (m', RNext, acts) →
    ∃ v bs, acts = [Submit v bs Ok] ∧ map (λ t, hid (xget X t)) bs = hj ∧ (v = true → bs = hj).
Proof. intros U X P m base bh hj r m' acts HX. by apply accepted_batch. Qed.

Module Attach.
  (** genesis 0; 1 a valid v2 block; two valid forks 2-3 and 4-5 on block 1 *)
  Definition U : universe := list_to_map [
    (0, Blk 0 0 true false true 1 1);
    (1, Blk 0 1 true false true 2 2);
    (2, Blk 1 2 true false true 4 2);
    (3, Blk 2 3 true false true 6 2);
    (4, Blk 1 2 true false true 4 2);
    (5, Blk 4 3 true false true 6 2) ].
  Definition X : xuniverse := list_to_map [
    (0, XB true true false 0 None);
    (1, XB true true true 1 (Some (StOf 0)));
    (2, XB true true true 2 (Some (StOf 1)));
    (3, XB true true true 3 (Some (StOf 2)));
    (4, XB true true true 4 (Some (StOf 1)));
    (5, XB true true true 5 (Some (StOf 4))) ].
  Definition P : params := Params 10000 100 1.
  Definition Plow : params := Params 10000 100 100.
  Definition m : mgr := (add_blocks U init [1]).1.1.

  Lemma U_wf : WF U.
  Proof. apply wfb_sound. vm_compute. reflexivity. Qed.

  Lemma X_wf P' : P' = P ∨ P' = Plow → WFX U X P'.
  Proof.
    intros HP. split.
    - intros t B H. unfold U in H. in_list_map H; vm_compute; congruence.
    - intros t B H. unfold U in H. in_list_map H; vm_compute; congruence.
    - intros t t' s s'. unfold xget.
      destruct (X !! t) as [x|] eqn:E; [|done]. destruct (X !! t') as [x'|] eqn:E'; [|done].
      unfold X in E, E'. in_list_map E; in_list_map E'; vm_compute; congruence.
    - intros t B H. unfold U in H.
      destruct HP as [-> | ->]; in_list_map H; vm_compute; try congruence; by intros _ [].
    - intros t B H. unfold U in H. in_list_map H; vm_compute; try congruence; by intros _.
  Qed.

  Lemma m_inv : MInv U m ∧ all_body m.
  Proof.
    split.
    - apply (mstep_inv U U_wf init (AddBlocks [1]) (MInv_init U U_wf) I).
    - apply (all_body_add_blocks U init [1]), all_body_init.
  Qed.
End Attach.

(** the hypotheses of [accepted_batch_is_header_chunk] are met in both paths *)
Theorem accepted_batch_nonvacuous :
  (∃ U X P m base bh hj r m' acts,
     WFX U X P ∧ headers_ok U X base hj = true ∧
     (reqh P ≤ bh → ∃ B, U !! base = Some B ∧ hdr_ok B = true ∧ body_ok B = true ∧
                         reqh P ≤ height B) ∧
     reqh P ≤ bh ∧ (1 < length hj)%nat ∧
     do_request U X P true m base bh hj r = (m', RNext, acts)) ∧
  (∃ U X P m base bh hj r m' acts,
     WFX U X P ∧ headers_ok U X base hj = true ∧
     (reqh P ≤ bh → ∃ B, U !! base = Some B ∧ hdr_ok B = true ∧ body_ok B = true ∧
                         reqh P ≤ height B) ∧
     bh < reqh P ∧ (1 < length hj)%nat ∧
     do_request U X P true m base bh hj r = (m', RNext, acts)).
Proof.
  split.
  - exists Attach.U, Attach.X, Attach.P, Attach.m, 1, 1, [2; 3], (CInstant 1 (StOf 0) false [2; 3]).
    eexists _, _. split_and!; [apply Attach.X_wf; by left|by vm_compute| |by vm_compute|cbn; lia
                              |vm_compute; reflexivity].
    intros _. exists (Blk 0 1 true false true 2 2). by vm_compute.
  - exists Attach.U, Attach.X, Attach.Plow, Attach.m, 1, 1, [2; 3], (CBlocks [2; 3]).
    eexists _, _. split_and!; [apply Attach.X_wf; by right|by vm_compute| |by vm_compute|cbn; lia
                              |vm_compute; reflexivity].
    intros H. exfalso. revert H. by vm_compute.
Qed.

(** without the last-id comparison a valid sibling chain is accepted for a header chunk it
    does not equal (the real rule refuses the same answer) *)
Theorem attach_only_rule_refuted :
  ∃ U X P m base bh hj r m' bs,
    WF U ∧ WFX U X P ∧ GRoot U ∧ 0 < reqh P ∧ MInv U m ∧ all_body m ∧
    headers_ok U X base hj = true ∧
    (∃ B, U !! base = Some B ∧ hdr_ok B = true ∧ body_ok B = true ∧ reqh P ≤ height B) ∧
    reqh P ≤ bh ∧
    do_request_attach U X P true m base bh hj r = (m', RNext, [Submit true bs Ok]) ∧
    validated_pre U bs ∧
    map (λ t, hid (xget X t)) bs ≠ hj ∧
    do_request U X P true m base bh hj r = (m, RFail, []).
Proof.
  exists Attach.U, Attach.X, Attach.P, Attach.m, 1, 1, [2; 3], (CInstant 1 (StOf 0) false [4; 5]).
  eexists _, [4; 5].
  split_and!; [apply Attach.U_wf|apply Attach.X_wf; by left|by vm_compute|done
              |apply Attach.m_inv|apply Attach.m_inv|by vm_compute| |by vm_compute
              |vm_compute; reflexivity| |by vm_compute|vm_compute; reflexivity].
  - exists (Blk 0 1 true false true 2 2). by vm_compute.
  - vm_compute. split_and!; eauto 10.
Qed.

(** * "Known" does not mean "validated"

    The instant path runs ValidateBlock on every block of the answer, whatever the store
    already holds for its id: an accepted request passed [vblocks] in full.  With [instant_base]
    (the derived state is the true state after the base) this makes every block handed to
    AddValidatedV2Blocks fully valid independently of [known m] ([instant_pre]). *)
Theorem instant_validates_known_blocks :
  ∀ U X P fixcp m base bh hj cp st j bs m' acts,
    do_request U X P fixcp m base bh hj (CInstant cp st j bs) = (m', RNext, acts) →
    reqh P ≤ bh ∧ checkpoint_ok U X fixcp base cp st j = true ∧
    vblocks U (derive U X st cp) j bs = true ∧ acts = [Submit true bs Ok].
Proof.
  intros U X P fixcp m base bh hj cp st j bs m' acts. cbn [do_request].
  destruct (N.leb_spec (reqh P) bh) as [Hle|]; cbn [negb]; [|done].
  destruct (checkpoint_ok U X fixcp base cp st j); cbn [negb]; [|done].
  destruct (negb (Nat.eqb _ _)); [done|]. destruct (negb (_ =? _)); [done|].
  destruct (vblocks U (derive U X st cp) j bs); cbn [negb]; [|done].
  destruct (add_validated U m bs) as [[m1 out] nt]. destruct out; intros [= <- <-]. done.
Qed.

(** the rule this excludes: ValidateBlock skipped for blocks whose id already has a state *)
Section Skip.
  Context (U : universe) (X : xuniverse) (P : params) (subnets : N → list N).

  Fixpoint vblocks_skip (m : mgr) (cs : sterm) (junk_ok : bool) (bs : list N) : bool :=
    match bs with
    | [] => true
    | b :: rest => (has_state m b || vblock U cs junk_ok b) && vblocks_skip m (after cs b) junk_ok rest
    end.

  Definition do_request_skip (m : mgr) (base bh : N) (hj : list N) (r : cresp)
    : mgr * req_result * list action :=
    match r with
    | CInstant cp st junk_ok bs =>
        if negb (reqh P <=? bh) then (m, RFail, [])
        else if negb (checkpoint_ok U X true base cp st junk_ok) then (m, RFail, [])
        else if negb (Nat.eqb (length bs) (length hj)) then (m, RFail, [])
        else if negb (hid (xget X (List.last bs 0)) =? List.last hj 0) then (m, RFail, [])
        else if negb (vblocks_skip m (derive U X st cp) junk_ok bs) then (m, RBan, [])
        else let '(m', out, _) := add_validated U m bs in
             match out with
             | Ok => (m', RNext, [Submit true bs Ok])
             | o => (m', RBan, [Submit true bs o])
             end
    | other => do_request U X P true m base bh hj other
    end.

  Fixpoint do_requests_skip (m : mgr) (base bh : N) (hcs : list (list N)) (rs : list cresp)
    : mgr * req_result * list action :=
    match hcs with
    | [] => (m, RNext, [])
    | hj :: hrest =>
        match rs with
        | [] => (m, RFail, [])
        | r :: rrest =>
            match do_request_skip m base bh hj r with
            | (m', RNext, acts) =>
                let '(m'', res, acts') :=
                  do_requests_skip m' (List.last hj base) (bh + bpr P) hrest rrest in
                (m'', res, acts ++ acts')
            | other => other
            end
        end
    end.

  (** [step] with [do_requests_skip] in the sync round; every other handler unchanged *)
  Definition step_skip (n : node) (mg : msg) : node * list action :=
    let m := n_mgr n in
    match mg with
    | MSync p a hs rem0 rs =>
        if negb (unsynced n p) then (n, [])
        else if negb (bool_decide (a ∈ history m) && has_state m a) then (n, [])
        else if negb (headers_ok U X a hs) then do_drop n p
        else match hs with
             | [] => do_synced n p
             | _ =>
                 let '(m', res, acts) := do_requests_skip m a (hgt U a) (chunks P hs) rs in
                 let n1 := with_mgr n m' in
                 match res with
                 | RNext => if rem0 then let '(n2, a2) := do_synced n1 p in
                                         (n2, acts ++ a2 ++ [Relay (List.last hs a)])
                            else (n1, acts)
                 | RFail => (n1, acts)
                 | RBan => let '(n2, a2) := do_ban subnets n1 p in (n2, acts ++ a2)
                 end
             end
    | other => step U X P true subnets n other
    end.

  Fixpoint run_skip (n : node) (ms : list msg) : node * list action :=
    match ms with
    | [] => (n, [])
    | mg :: rest => let '(n1, a1) := step_skip n mg in
                    let '(n2, a2) := run_skip n1 rest in (n2, a1 ++ a2)
    end.
End Skip.

(** ** Two peers: pre-seed an invalid block by relay, then serve a chain through it *)
Module Preseed.
  (** genesis 0; 1 a valid v2 block, the victim's tip; 2 on 1: header-valid, body-invalid (its
      commitment is honestly over its parent state, its transactions mint coins); 3, 4, 5 on
      2: header-valid, body-invalid by ancestry *)
  Definition U : universe := list_to_map [
    (0, Blk 0 0 true false true 1 1);
    (1, Blk 0 1 true false true 2 2);
    (2, Blk 1 2 true false false 4 3);
    (3, Blk 2 3 true false false 7 4);
    (4, Blk 3 4 true false false 11 5);
    (5, Blk 4 5 true false false 16 6) ].
  Definition X : xuniverse := list_to_map [
    (0, XB true true false 0 None);
    (1, XB true true true 1 (Some (StOf 0)));
    (2, XB true true true 2 (Some (StOf 1)));
    (3, XB true true true 3 None);
    (4, XB true true true 4 None);
    (5, XB true true true 5 None) ].
  Definition P : params := Params 10000 100 1.
  Definition n0 : node := Node (add_blocks U init [1]).1.1 ∅ ∅.
  Definition subnets : N → list N := λ p, [p].
  (** peer 7 relays the outline of 2 (stored header-validated, rejected by applyTip); peer 8
      then serves 2-3-4-5 through the checkpoint path *)
  Definition msgs : list msg :=
    [MConnect 7; MSync 7 1 [] true []; MOutline 7 2 Complete; MConnect 8;
     MSync 8 1 [2; 3; 4; 5] true [CInstant 1 (StOf 0) true [2; 3; 4; 5]]].
  (** the same, peer 8 serving block 2 only *)
  Definition msgs1 : list msg :=
    [MConnect 7; MSync 7 1 [] true []; MOutline 7 2 Complete; MConnect 8;
     MSync 8 1 [2] true [CInstant 1 (StOf 0) true [2]]].

  Lemma U_wf : WF U.
  Proof. apply wfb_sound. vm_compute. reflexivity. Qed.

  Lemma X_wf : WFX U X P.
  Proof.
    split.
    - intros t B H. unfold U in H. in_list_map H; vm_compute; congruence.
    - intros t B H. unfold U in H. in_list_map H; vm_compute; congruence.
    - intros t t' s s'. unfold xget.
      destruct (X !! t) as [x|] eqn:E; [|done]. destruct (X !! t') as [x'|] eqn:E'; [|done].
      unfold X in E, E'. in_list_map E; in_list_map E'; vm_compute; congruence.
    - intros t B H. unfold U in H. in_list_map H; vm_compute; try congruence; by intros _ [].
    - intros t B H. unfold U in H. in_list_map H; vm_compute; try congruence; by intros _.
  Qed.

  Lemma n0_inv : NInv U n0.
  Proof.
    split.
    - apply (mstep_inv U U_wf init (AddBlocks [1]) (MInv_init U U_wf) I).
    - apply (all_body_add_blocks U init [1]), all_body_init.
  Qed.

  Lemma msgs_uniform : Forall (uniform U P) msgs ∧ Forall (uniform U P) msgs1.
  Proof.
    assert (reqh P ≤ hgt U 1) as H by (by vm_compute).
    split; repeat (constructor; [first [done|by left]|]); constructor.
  Qed.

  Lemma run_real :
    (run U X P true subnets n0 msgs).2 = [Synced 7; Submit false [2] Err; Ban 7; Ban 8] ∧
    best (n_mgr (run U X P true subnets n0 msgs).1) = [1; 0] ∧
    known (n_mgr (run U X P true subnets n0 msgs).1) !! 2 = Some (KI (Some SHdr) true false) ∧
    (run U X P true subnets n0 msgs1).2 = [Synced 7; Submit false [2] Err; Ban 7; Ban 8] ∧
    best (n_mgr (run U X P true subnets n0 msgs1).1) = [1; 0].
  Proof. split_and!; vm_compute; reflexivity. Qed.

  Lemma run_skipped :
    (run_skip U X P subnets n0 msgs1).2 =
      [Synced 7; Submit false [2] Err; Ban 7; Submit true [2] Ok; Synced 8; Relay 2] ∧
    best (n_mgr (run_skip U X P subnets n0 msgs1).1) = [2; 1; 0] ∧
    (* in the model 3, 4, 5 are invalid against the state after 2 whatever the store holds, so
       the longer answer is still refused after block 2 was skipped *)
    (run_skip U X P subnets n0 msgs).2 = [Synced 7; Submit false [2] Err; Ban 7; Ban 8].
  Proof. split_and!; vm_compute; reflexivity. Qed.
End Preseed.

Theorem preseeded_invalid_block_example :
  WF Preseed.U ∧ WFX Preseed.U Preseed.X Preseed.P ∧ GRoot Preseed.U ∧
  NInv Preseed.U Preseed.n0 ∧ Forall (uniform Preseed.U Preseed.P) Preseed.msgs ∧
  let r := run Preseed.U Preseed.X Preseed.P true Preseed.subnets Preseed.n0 Preseed.msgs in
  r.2 = [Synced 7; Submit false [2] Err; Ban 7; Ban 8] ∧
  best (n_mgr r.1) = [1; 0] ∧
  Ban 7 ∈ r.2 ∧ Ban 8 ∈ r.2 ∧
  has_state (n_mgr r.1) 2 = true ∧ has_supp (n_mgr r.1) 2 = false ∧
  (∀ l o, Submit true l o ∉ r.2).
Proof.
  split_and!; [apply Preseed.U_wf|apply Preseed.X_wf|by vm_compute|apply Preseed.n0_inv
              |apply Preseed.msgs_uniform|].
  destruct Preseed.run_real as (E & Hb & Hk & _). cbv zeta. rewrite E, Hb.
  unfold has_state, has_supp. rewrite Hk. split_and!; try done.
  - apply elem_of_cons. right. apply elem_of_cons. right. apply elem_of_cons. by left.
  - apply elem_of_cons. right. apply elem_of_cons. right. apply elem_of_cons. right.
    apply elem_of_cons. by left.
  - intros l o Hx. repeat (apply elem_of_cons in Hx as [Hx|Hx]; [done|]). by apply elem_of_nil in Hx.
Qed.

(** with ValidateBlock skipped for ids that already have a state ([run_skip]) the pre-seeded
    block is handed to AddValidatedV2Blocks and adopted; the real rule bans both peers *)
Theorem skip_known_rule_refuted :
  ∃ U X P subnets n0 msgs,
    WF U ∧ WFX U X P ∧ GRoot U ∧ 0 < bpr P ∧ 0 < reqh P ∧ NInv U n0 ∧
    Forall (uniform U P) msgs ∧
    best (n_mgr (run U X P true subnets n0 msgs).1) = [1; 0] ∧
    let r := run_skip U X P subnets n0 msgs in
    best (n_mgr r.1) = [2; 1; 0] ∧
    (∃ l, Submit true l Ok ∈ r.2 ∧ ¬ validated_pre U l) ∧
    (∃ b B, b ∈ best (n_mgr r.1) ∧ U !! b = Some B ∧ body_ok B = false).
Proof.
  exists Preseed.U, Preseed.X, Preseed.P, Preseed.subnets, Preseed.n0, Preseed.msgs1.
  split_and!; [apply Preseed.U_wf|apply Preseed.X_wf|by vm_compute|done|done|apply Preseed.n0_inv
              |apply Preseed.msgs_uniform|apply Preseed.run_real|].
  destruct Preseed.run_skipped as (E & Hb & _). cbv zeta. rewrite E, Hb. split_and!; [done| |].
  - exists [2]. split.
    + do 3 (apply elem_of_cons; right). apply elem_of_cons. by left.
    + intros [(B & HB & _ & Hbo) _]. vm_compute in HB. injection HB as <-. done.
  - exists 2, (Blk 1 2 true false false 4 3). split_and!; [|done|done]. apply elem_of_cons. by left.
Qed.
