(** * KV/Model.v — the key-value layer of chain/db.go (C17)

    Executable models, no proofs:
    - [sp]   the two-map specification (a committed image and the session view);
             BoltChainDB is this by definition (bbolt is trusted);
    - [mem]  chain.MemDB, transcribed from chain/db.go (three maps);
    - [cache] chain.CacheDB over an arbitrary [backend].
    Buckets, keys and values are numbers; value 0 stands for the empty (zero-length,
    non-nil) byte string, which the chain store does write; a nil value is never
    written, so Go's nil result is [None]. *)
From stdpp Require Import gmap.
From Coq Require Import NArith.

Notation bkt := (gmap N N).

Inductive op :=
| Create (b : N) | Put (b k v : N) | Del (b k : N)
| Get (b k : N) | Iter (b : N) | Has (b : N) | Flush | Cancel.

(** Results in the vocabulary of the harness. [MBool] answers create (ok?) and
    has; [MNoBucket] is "Bucket(name) returned nil". *)
Inductive mres :=
| MUnit | MBool (x : bool) | MNoBucket | MVal (o : option N) | MList (m : bkt) | MErr.

(** ** Specification *)
Record sp := Sp { com : gmap N bkt; cur : gmap N bkt }.
Definition sp_init : sp := Sp ∅ ∅.

Definition sp_step (s : sp) (o : op) : sp * mres :=
  match o with
  | Create b => match cur s !! b with
                | Some _ => (s, MBool false)
                | None => (Sp (com s) (<[b := ∅]> (cur s)), MBool true)
                end
  | Put b k v => match cur s !! b with
                 | None => (s, MNoBucket)
                 | Some m => (Sp (com s) (<[b := <[k := v]> m]> (cur s)), MBool true)
                 end
  | Del b k => match cur s !! b with
               | None => (s, MNoBucket)
               | Some m => (Sp (com s) (<[b := delete k m]> (cur s)), MBool true)
               end
  | Get b k => match cur s !! b with
               | None => (s, MNoBucket)
               | Some m => (s, MVal (m !! k))
               end
  | Iter b => match cur s !! b with
              | None => (s, MNoBucket)
              | Some m => (s, MList m)
              end
  | Has b => (s, MBool (bool_decide (is_Some (cur s !! b))))
  | Flush => (Sp (cur s) (cur s), MUnit)
  | Cancel => (Sp (com s) (com s), MUnit)
  end.

(** ** MemDB (chain/db.go:79-204, with the repairs of commits 8bc24bf..f42cf7a) *)
Record mem := Mem { buckets : gmap N bkt; puts : gmap N bkt; dels : gmap N (gset N) }.
Definition mem_init : mem := Mem ∅ ∅ ∅.

(** [Bucket(name) != nil] *)
Definition mem_has (m : mem) (b : N) : bool :=
  bool_decide (is_Some (buckets m !! b)) || bool_decide (is_Some (puts m !! b))
  || bool_decide (is_Some (dels m !! b)).

Definition sub (g : gmap N bkt) (b : N) : bkt := default ∅ (g !! b).
Definition subd (g : gmap N (gset N)) (b : N) : gset N := default ∅ (g !! b).

(** [MemDB.get] *)
Definition mem_get (m : mem) (b k : N) : option N :=
  match sub (puts m) b !! k with
  | Some v => Some v
  | None => if bool_decide (k ∈ subd (dels m) b) then None else sub (buckets m) b !! k
  end.

(** [MemDB.put]; [None] is the "bucket does not exist" error *)
Definition mem_put (m : mem) (b k v : N) : option mem :=
  let go (ps : bkt) :=
    Some (Mem (buckets m) (<[b := <[k := v]> ps]> (puts m))
              (match dels m !! b with
               | Some d => <[b := d ∖ {[k]}]> (dels m)
               | None => dels m end)) in
  match puts m !! b with
  | Some ps => go ps
  | None => match buckets m !! b with None => None | Some _ => go ∅ end
  end.

(** [MemDB.delete] *)
Definition mem_delete (m : mem) (b k : N) : option mem :=
  let go (d : gset N) :=
    Some (Mem (buckets m)
              (match puts m !! b with
               | Some ps => <[b := delete k ps]> (puts m)
               | None => puts m end)
              (<[b := d ∪ {[k]}]> (dels m))) in
  match dels m !! b with
  | Some d => go d
  | None => match buckets m !! b with None => None | Some _ => go ∅ end
  end.

(** [memBucket.Iter]: the pending puts, then the committed entries that are
    neither overwritten nor deleted *)
Definition mem_iter (m : mem) (b : N) : bkt :=
  sub (puts m) b ∪ filter (λ kv, kv.1 ∉ subd (dels m) b) (sub (buckets m) b).

(** [MemDB.CreateBucket] *)
Definition mem_create (m : mem) (b : N) : mem * bool :=
  if mem_has m b then (m, false)
  else (Mem (buckets m) (<[b := ∅]> (puts m)) (<[b := ∅]> (dels m)), true).

(** [MemDB.Flush] *)
Definition flush_puts (bs ps : gmap N bkt) : gmap N bkt :=
  merge (λ ob op, match op with Some p => Some (p ∪ default ∅ ob) | None => ob end) bs ps.
Definition flush_dels (bs : gmap N bkt) (ds : gmap N (gset N)) : gmap N bkt :=
  merge (λ ob od, match od with
                  | Some d => Some (filter (λ kv, kv.1 ∉ d) (default ∅ ob))
                  | None => ob end) bs ds.
Definition mem_flush (m : mem) : mem :=
  Mem (flush_dels (flush_puts (buckets m) (puts m)) (dels m)) ∅ ∅.

(** [MemDB.Cancel] *)
Definition mem_cancel (m : mem) : mem := Mem (buckets m) ∅ ∅.

Definition mem_step (m : mem) (o : op) : mem * mres :=
  match o with
  | Create b => let '(m', ok) := mem_create m b in (m', MBool ok)
  | Put b k v => if mem_has m b then
                   match mem_put m b k v with Some m' => (m', MBool true) | None => (m, MErr) end
                 else (m, MNoBucket)
  | Del b k => if mem_has m b then
                 match mem_delete m b k with Some m' => (m', MBool true) | None => (m, MErr) end
               else (m, MNoBucket)
  | Get b k => if mem_has m b then (m, MVal (mem_get m b k)) else (m, MNoBucket)
  | Iter b => if mem_has m b then (m, MList (mem_iter m b)) else (m, MNoBucket)
  | Has b => (m, MBool (mem_has m b))
  | Flush => (mem_flush m, MUnit)
  | Cancel => (mem_cancel m, MUnit)
  end.

(** ** CacheDB over any backend (chain/db.go:206-346) *)
Record backend := Backend {
  bst : Type;
  b_step : bst → op → bst * mres;
}.
Definition sp_backend : backend := Backend sp sp_step.
Definition mem_backend : backend := Backend mem mem_step.

Section cache.
  Context (B : backend).
  Record cache := Cache { cmem : mem; cback : bst B }.

  Definition back_has (s : bst B) (b : N) : bool :=
    match snd (b_step B s (Has b)) with MBool x => x | _ => false end.

  (** [CacheDB.Bucket]: nil when the backend has no such bucket; otherwise the
      overlay bucket is created on demand *)
  Definition cache_bucket (c : cache) (b : N) : option cache :=
    if back_has (cback c) b then
      Some (if mem_has (cmem c) b then c else Cache (fst (mem_create (cmem c) b)) (cback c))
    else None.

  (** [CacheDB.Flush]: puts (not deleted), then deletes, bucket by bucket, then
      the overlay is cleared (its bucket entries stay) and the backend flushed *)
  Definition back_apply (s : bst B) (o : op) : bst B := fst (b_step B s o).
  Definition flush_bucket_puts (d : gset N) (b : N) (s : bst B) (kvs : list (N * N)) : bst B :=
    fold_left (λ s kv, if bool_decide (kv.1 ∈ d) then s else back_apply s (Put b kv.1 kv.2)) kvs s.
  Definition flush_bucket_dels (b : N) (s : bst B) (ks : list N) : bst B :=
    fold_left (λ s k, back_apply s (Del b k)) ks s.
  Definition cache_flush (c : cache) : cache :=
    let m := cmem c in
    let s1 := fold_left (λ s bp, flush_bucket_puts (subd (dels m) bp.1) bp.1 s (map_to_list bp.2))
                        (map_to_list (puts m)) (cback c) in
    let s2 := fold_left (λ s bd, flush_bucket_dels bd.1 s (elements bd.2))
                        (map_to_list (dels m)) s1 in
    Cache (Mem (fmap (λ _, ∅) (buckets m)) (fmap (λ _, ∅) (puts m)) (fmap (λ _, ∅) (dels m)))
          (back_apply s2 Flush).

  Definition cache_step (c : cache) (o : op) : cache * mres :=
    match o with
    | Create b =>
        match b_step B (cback c) (Create b) with
        | (s', MBool true) =>
            let '(m', ok) := mem_create (cmem c) b in (Cache m' s', MBool ok)
        | (s', _) => (Cache (cmem c) s', MBool false)
        end
    | Has b => match cache_bucket c b with
               | Some c' => (c', MBool true) | None => (c, MBool false) end
    | Get b k =>
        match cache_bucket c b with
        | None => (c, MNoBucket)
        | Some c' =>
            match mem_get (cmem c') b k with
            | Some v => (c', MVal (Some v))
            | None =>
                if bool_decide (k ∈ subd (dels (cmem c')) b) then (c', MVal None)
                else match snd (b_step B (cback c') (Get b k)) with
                     | MVal o => (c', MVal o) | _ => (c', MErr) end
            end
        end
    | Put b k v =>
        match cache_bucket c b with
        | None => (c, MNoBucket)
        | Some c' => match mem_put (cmem c') b k v with
                     | Some m' => (Cache m' (cback c'), MBool true)
                     | None => (c', MErr) end
        end
    | Del b k =>
        match cache_bucket c b with
        | None => (c, MNoBucket)
        | Some c' => match mem_delete (cmem c') b k with
                     | Some m' => (Cache m' (cback c'), MBool true)
                     | None => (c', MErr) end
        end
    | Iter b =>
        match cache_bucket c b with
        | None => (c, MNoBucket)
        | Some c' =>
            match snd (b_step B (cback c') (Iter b)) with
            | MList bm =>
                let m := cmem c' in
                (c', MList (mem_iter m b ∪
                            filter (λ kv, sub (puts m) b !! kv.1 = None ∧ kv.1 ∉ subd (dels m) b) bm))
            | _ => (c', MErr)
            end
        end
    | Flush => (cache_flush c, MUnit)
    | Cancel => (Cache (mem_cancel (cmem c)) (back_apply (cback c) Cancel), MUnit)
    end.

  Definition cache_init (s0 : bst B) : cache := Cache mem_init s0.
End cache.

Arguments Cache {B} _ _.
Arguments cmem {B} _.
Arguments cback {B} _.

(** a CacheDB over [B] is itself a backend ("the write-caching wrapper (over any backend)") *)
Definition cache_backend (B : backend) : backend := Backend (cache B) (cache_step B).

(** Running an operation list, collecting results. *)
Fixpoint run_ops {S : Type} (step : S → op → S * mres) (s : S) (ops : list op) : list mres :=
  match ops with
  | [] => []
  | o :: ops' => let '(s', r) := step s o in r :: run_ops step s' ops'
  end.

Definition final {S : Type} (step : S → op → S * mres) (s : S) (ops : list op) : S :=
  fold_left (λ s o, fst (step s o)) ops s.
