(** * KV/StackProofs.v — the write-caching wrapper over *any* backend, including itself (C17)

    "the write-caching wrapper (over any backend)": the backends that refine the two-map
    specification are closed under wrapping in a CacheDB.  Hence a CacheDB on a CacheDB on a
    MemDB (or on Bolt), to any depth, answers every operation sequence like the specification. *)
From stdpp Require Import gmap.
From Coq Require Import NArith.
From CV Require Import KV.Model KV.Proofs KV.CacheProofs.

(** CacheDB over the specification simulates the specification ([Q_step]) *)
Lemma bsim_cache_sp : bsim (cache_backend sp_backend) sp_backend Q.
Proof. intros c s o HQ. exact (Q_step c s o HQ). Qed.

(** wrapping preserves simulations ([cache_step_rel]) *)
Lemma bsim_cache_lift B1 B2 T :
  bsim B1 B2 T → bsim (cache_backend B1) (cache_backend B2) (CT T).
Proof. intros Hsim c1 c2 o HCT. exact (cache_step_rel B1 B2 T c1 c2 o Hsim HCT). Qed.

Lemma bsim_trans B1 B2 B3 T12 T23 :
  bsim B1 B2 T12 → bsim B2 B3 T23 →
  bsim B1 B3 (λ s1 s3, ∃ s2, T12 s1 s2 ∧ T23 s2 s3).
Proof.
  intros H12 H23 s1 s3 o (s2 & Ha & Hb).
  destruct (H12 s1 s2 o Ha) as [Hr1 Ht1]. destruct (H23 s2 s3 o Hb) as [Hr2 Ht2].
  split; [congruence|]. by exists (fst (b_step B2 s2 o)).
Qed.

(** the relation between a CacheDB over a refining backend and the specification *)
Definition wrapT {B : backend} (T : bst B → sp → Prop) (c : cache B) (s : sp) : Prop :=
  ∃ c2 : cache sp_backend, @CT B sp_backend T c c2 ∧ Q c2 s.

(** Closure: if [B] simulates the specification, so does a CacheDB over [B] *)
Theorem cache_preserves_refinement (B : backend) (T : bst B → sp → Prop) :
  bsim B sp_backend T → bsim (cache_backend B) sp_backend (wrapT T).
Proof.
  intros Hsim. exact (bsim_trans _ _ _ _ _ (bsim_cache_lift B sp_backend T Hsim) bsim_cache_sp).
Qed.

Lemma wrapT_init (B : backend) (T : bst B → sp → Prop) s0 :
  T s0 sp_init → wrapT T (cache_init B s0) sp_init.
Proof. intros HT. exists (cache_init sp_backend sp_init). split; [by split|exact Q_init]. Qed.

(** a simulation of the specification gives equal results on every sequence *)
Lemma bsim_run (B : backend) (T : bst B → sp → Prop) s0 ops :
  bsim B sp_backend T → T s0 sp_init →
  run_ops (b_step B) s0 ops = run_ops sp_step sp_init ops.
Proof.
  intros Hsim. generalize sp_init. revert s0.
  induction ops as [|o ops IH]; intros s0 s HT; [done|]. cbn.
  destruct (Hsim s0 s o HT) as [Hr HT']. cbn in Hr, HT'.
  destruct (b_step B s0 o) as [s0' r], (sp_step s o) as [s' r']. cbn in *. rewrite Hr.
  f_equal. by apply IH.
Qed.

(** two levels over MemDB: what the harness runs as CacheDB(CacheDB(MemDB)) *)
Theorem cachedb_stacked_refines_spec ops :
  run_ops (cache_step (cache_backend mem_backend))
          (cache_init (cache_backend mem_backend) (cache_init mem_backend mem_init)) ops =
  run_ops sp_step sp_init ops.
Proof.
  pose (T1 := @wrapT mem_backend R). pose (T2 := @wrapT (cache_backend mem_backend) T1).
  apply (bsim_run (cache_backend (cache_backend mem_backend)) T2).
  - apply (cache_preserves_refinement (cache_backend mem_backend) T1).
    apply (cache_preserves_refinement mem_backend R). exact bsim_mem_sp.
  - apply (wrapT_init (cache_backend mem_backend) T1). apply (wrapT_init mem_backend R). exact R_init.
Qed.

(** non-vacuity: a concrete run through two wrappers *)
Example stacked_run :
  run_ops (cache_step (cache_backend mem_backend))
          (cache_init (cache_backend mem_backend) (cache_init mem_backend mem_init))
    [Create 1; Put 1 2 3; Get 1 2; Flush; Del 1 2; Get 1 2; Cancel; Get 1 2; Has 1; Has 2]%N =
  run_ops sp_step sp_init
    [Create 1; Put 1 2 3; Get 1 2; Flush; Del 1 2; Get 1 2; Cancel; Get 1 2; Has 1; Has 2]%N.
Proof. vm_compute. done. Qed.
