(** * KV/CacheProofs.v — CacheDB refines the two-map specification (C17)

    1. [cachedb_refines_spec]: CacheDB over a backend that is the specification;
    2. [cachedb_over_memdb_refines_spec]: CacheDB over MemDB, by a compositionality
       lemma (CacheDB uses its backend only through [b_step]) and [R_step];
    3. [backends_agree]: the four models return the same results. *)
From stdpp Require Import gmap.
From Coq Require Import NArith.
From CV Require Import KV.Model KV.Proofs.

(** ** A fold whose step only touches the observations that belong to its own key

    [key a] is the key of a list element, [proj k] the fold key an observation point
    belongs to, [I] an invariant of the fold. *)
Lemma fold_keyed {S A K K1 O : Type}
    (key : A → K1) (proj : K → K1) (f : S → A → S) (obs : S → K → O)
    (g : A → K → O → O) (I : S → Prop) (l : list A) :
  (∀ s a, a ∈ l → I s → I (f s a)) →
  (∀ s a k, a ∈ l → I s → proj k ≠ key a → obs (f s a) k = obs s k) →
  (∀ s a k, a ∈ l → I s → proj k = key a → obs (f s a) k = g a k (obs s k)) →
  NoDup (key <$> l) →
  ∀ s, I s →
    I (fold_left f l s) ∧
    (∀ k, proj k ∉ key <$> l → obs (fold_left f l s) k = obs s k) ∧
    (∀ a k, a ∈ l → proj k = key a → obs (fold_left f l s) k = g a k (obs s k)).
Proof.
  induction l as [|a l IH]; intros HI Hother Hown Hnd s Hs.
  - cbn. split; [done|]. split; [done|]. intros a k Ha. by apply elem_of_nil in Ha.
  - rewrite fmap_cons in Hnd. apply NoDup_cons in Hnd as [Hnotin Hnd].
    assert (Ha : a ∈ a :: l) by apply elem_of_list_here.
    assert (Hfs : I (f s a)) by (by apply HI).
    destruct (IH (λ s' a' Hin, HI s' a' (elem_of_list_further _ _ _ Hin))
                 (λ s' a' k Hin, Hother s' a' k (elem_of_list_further _ _ _ Hin))
                 (λ s' a' k Hin, Hown s' a' k (elem_of_list_further _ _ _ Hin))
                 Hnd (f s a) Hfs) as (IHinv & IHother & IHown).
    cbn. split; [exact IHinv|]. split.
    + intros k Hk. apply not_elem_of_cons in Hk as [Hne Hk].
      rewrite IHother by done. by apply Hother.
    + intros a' k Ha' Hpk. apply elem_of_cons in Ha' as [->|Ha'].
      * rewrite IHother by (by rewrite Hpk). by apply Hown.
      * rewrite (IHown a' k Ha' Hpk). f_equal. apply Hother; [done..|].
        rewrite Hpk. intros Heq. apply Hnotin. rewrite <- Heq.
        apply elem_of_list_fmap. eauto.
Qed.

(** ** What put and delete do to the delete set and the pending puts *)
Lemma mem_put_spec_dels m b k v :
  mem_has m b = true → disj m → paired m →
  ∃ m', mem_put m b k v = Some m' ∧ buckets m' = buckets m ∧ disj m' ∧ paired m' ∧
        (∀ b', mem_has m' b' = mem_has m b') ∧
        (∀ b' k', mem_get m' b' k' =
                  if decide (b = b' ∧ k = k') then Some v else mem_get m b' k') ∧
        (∀ b', subd (dels m') b' =
               if decide (b = b') then subd (dels m) b ∖ {[k]} else subd (dels m) b').
Proof.
  intros Hh Hd Hp.
  destruct (mem_put_spec m b k v Hh Hd Hp) as (m' & Hex & Hb' & Hd' & Hp' & Hh' & Hg').
  exists m'. repeat (split; [done|]).
  intros b'. unfold mem_put in Hex.
  assert (Hds : dels m' = match dels m !! b with
                          | Some d => <[b := d ∖ {[k]}]> (dels m) | None => dels m end).
  { destruct (puts m !! b) as [ps|]; [by injection Hex as <-|].
    destruct (buckets m !! b) as [bb|]; [by injection Hex as <-|done]. }
  rewrite Hds. unfold subd. destruct (dels m !! b) as [d|] eqn:E.
  - destruct (decide (b = b')) as [<-|]; simplify_map_eq; done.
  - destruct (decide (b = b')) as [<-|]; [rewrite E; cbn; set_solver|done].
Qed.

Lemma mem_delete_spec_dels m b k :
  mem_has m b = true → disj m → paired m →
  ∃ m', mem_delete m b k = Some m' ∧ buckets m' = buckets m ∧ disj m' ∧ paired m' ∧
        (∀ b', mem_has m' b' = mem_has m b') ∧
        (∀ b' k', mem_get m' b' k' =
                  if decide (b = b' ∧ k = k') then None else mem_get m b' k') ∧
        (∀ b', subd (dels m') b' =
               if decide (b = b') then subd (dels m) b ∪ {[k]} else subd (dels m) b').
Proof.
  intros Hh Hd Hp.
  destruct (mem_delete_spec m b k Hh Hd Hp) as (m' & Hex & Hb' & Hd' & Hp' & Hh' & Hg').
  exists m'. repeat (split; [done|]).
  intros b'. unfold mem_delete in Hex.
  assert (Hds : dels m' = <[b := subd (dels m) b ∪ {[k]}]> (dels m)).
  { unfold subd. destruct (dels m !! b) as [d|]; [by injection Hex as <-|].
    destruct (buckets m !! b) as [bb|]; [by injection Hex as <-|done]. }
  rewrite Hds. apply subd_insert.
Qed.

(** ** The specification as a backend: pointwise view of Put / Del *)
Definition lk (s : sp) (b k : N) : option N := sub (cur s) b !! k.
Global Arguments lk : simpl never.

(** same committed image, same buckets in the session view *)
Definition same_dom (s0 s : sp) : Prop :=
  com s = com s0 ∧ ∀ b, is_Some (cur s !! b) ↔ is_Some (cur s0 !! b).

Lemma same_dom_refl s : same_dom s s.
Proof. by split. Qed.

Lemma same_dom_trans s0 s1 s2 : same_dom s0 s1 → same_dom s1 s2 → same_dom s0 s2.
Proof.
  intros [Hc1 Hd1] [Hc2 Hd2]. split; [congruence|]. intros b. by rewrite Hd2, Hd1.
Qed.

Lemma sp_put_dom s b k v : same_dom s (fst (sp_step s (Put b k v))).
Proof.
  cbn. destruct (cur s !! b) as [mb|] eqn:Hc; cbn; [|apply same_dom_refl].
  split; [done|]. intros b'; cbn. destruct (decide (b = b')) as [<-|].
  - rewrite lookup_insert, Hc. split; eauto.
  - by rewrite lookup_insert_ne.
Qed.

Lemma sp_put_lk s b k v b' k' :
  is_Some (cur s !! b) →
  lk (fst (sp_step s (Put b k v))) b' k' =
  if decide (b = b' ∧ k = k') then Some v else lk s b' k'.
Proof.
  intros [mb Hc]. unfold lk. cbn. rewrite Hc. cbn. rewrite sub_insert.
  destruct (decide (b = b')) as [<-|].
  - destruct (decide (k = k')) as [<-|].
    + rewrite decide_True by done. by rewrite lookup_insert.
    + rewrite decide_False by tauto. rewrite lookup_insert_ne by done.
      unfold sub. by rewrite Hc.
  - rewrite decide_False by tauto. done.
Qed.

Lemma sp_del_dom s b k : same_dom s (fst (sp_step s (Del b k))).
Proof.
  cbn. destruct (cur s !! b) as [mb|] eqn:Hc; cbn; [|apply same_dom_refl].
  split; [done|]. intros b'; cbn. destruct (decide (b = b')) as [<-|].
  - rewrite lookup_insert, Hc. split; eauto.
  - by rewrite lookup_insert_ne.
Qed.

Lemma sp_del_lk s b k b' k' :
  lk (fst (sp_step s (Del b k))) b' k' =
  if decide (b = b' ∧ k = k') then None else lk s b' k'.
Proof.
  unfold lk. cbn. destruct (cur s !! b) as [mb|] eqn:Hc; cbn.
  - rewrite sub_insert. destruct (decide (b = b')) as [<-|].
    + destruct (decide (k = k')) as [<-|].
      * rewrite decide_True by done. by rewrite lookup_delete.
      * rewrite decide_False by tauto. rewrite lookup_delete_ne by done.
        unfold sub. by rewrite Hc.
    + rewrite decide_False by tauto. done.
  - destruct (decide (b = b' ∧ k = k')) as [[<- <-]|]; [|done].
    unfold sub. rewrite Hc. cbn. apply lookup_empty.
Qed.

(** ** The four folds of [cache_flush] over the specification backend *)

(** puts of one bucket *)
Lemma flush_bucket_puts_sp d b s p :
  is_Some (cur s !! b) →
  same_dom s (flush_bucket_puts sp_backend d b s (map_to_list p)) ∧
  ∀ b' k, lk (flush_bucket_puts sp_backend d b s (map_to_list p)) b' k =
          if decide (b' = b) then
            match p !! k with
            | Some v => if bool_decide (k ∈ d) then lk s b k else Some v
            | None => lk s b k end
          else lk s b' k.
Proof.
  intros Hb. unfold flush_bucket_puts.
  set (f := λ (s : bst sp_backend) (kv : N * N),
              if bool_decide (kv.1 ∈ d) then s else back_apply sp_backend s (Put b kv.1 kv.2)).
  destruct (fold_keyed (S := sp) (K := N * N)
              (λ kv : N * N, (b, kv.1)) id f
              (λ s bk, lk s bk.1 bk.2)
              (λ kv _ o, if bool_decide (kv.1 ∈ d) then o else Some kv.2)
              (same_dom s) (map_to_list p)) with (s := s) as (Hinv & Hother & Hown).
  - intros s' kv _ Hs'. unfold f. case_bool_decide; [done|].
    eapply same_dom_trans; [exact Hs'|]. apply sp_put_dom.
  - intros s' kv [b' k'] _ Hs' Hne. unfold f; cbn in *. case_bool_decide; [done|].
    unfold back_apply; cbn -[sp_step]. rewrite sp_put_lk by (apply Hs', Hb).
    rewrite decide_False; [done|]. intros [<- <-]. done.
  - intros s' kv [b' k'] _ Hs' Heq. unfold f; cbn in *. injection Heq as -> ->.
    case_bool_decide; [done|].
    unfold back_apply; cbn -[sp_step]. rewrite sp_put_lk by (apply Hs', Hb).
    by rewrite decide_True.
  - replace ((λ kv : N * N, (b, kv.1)) <$> map_to_list p)
      with ((λ k : N, (b, k)) <$> (map_to_list p).*1) by (by rewrite <- list_fmap_compose).
    apply NoDup_fmap_2; [intros k1 k2 Hk; by injection Hk|]. apply NoDup_fst_map_to_list.
  - apply same_dom_refl.
  - split; [exact Hinv|]. intros b' k.
    destruct (decide (b' = b)) as [->|Hne].
    + destruct (p !! k) as [v|] eqn:Hpk.
      * apply elem_of_map_to_list in Hpk. apply (Hown (k, v) (b, k) Hpk). done.
      * apply (Hother (b, k)). cbn. intros Hin.
        apply elem_of_list_fmap in Hin as ([k1 v1] & Heq & Hin). cbn in Heq. injection Heq as <-.
        apply elem_of_map_to_list in Hin. congruence.
    + apply (Hother (b', k)). cbn. intros Hin.
      apply elem_of_list_fmap in Hin as ([k1 v1] & Heq & Hin). cbn in Heq. congruence.
Qed.

(** deletes of one bucket *)
Lemma flush_bucket_dels_sp b s (D : gset N) :
  same_dom s (flush_bucket_dels sp_backend b s (elements D)) ∧
  ∀ b' k, lk (flush_bucket_dels sp_backend b s (elements D)) b' k =
          if decide (b' = b) then (if bool_decide (k ∈ D) then None else lk s b k)
          else lk s b' k.
Proof.
  unfold flush_bucket_dels.
  set (f := λ (s : bst sp_backend) (k : N), back_apply sp_backend s (Del b k)).
  destruct (fold_keyed (S := sp) (K := N * N)
              (λ k : N, (b, k)) id f
              (λ s bk, lk s bk.1 bk.2)
              (λ _ _ _, None)
              (same_dom s) (elements D)) with (s := s) as (Hinv & Hother & Hown).
  - intros s' k _ Hs'. unfold f.
    eapply same_dom_trans; [exact Hs'|]. apply sp_del_dom.
  - intros s' k0 [b' k'] _ Hs' Hne. unfold f; cbn in *.
    unfold back_apply; cbn -[sp_step]. rewrite sp_del_lk.
    rewrite decide_False; [done|]. intros [<- <-]. done.
  - intros s' k0 [b' k'] _ Hs' Heq. unfold f; cbn in *. injection Heq as -> ->.
    unfold back_apply; cbn -[sp_step]. rewrite sp_del_lk.
    by rewrite decide_True.
  - apply NoDup_fmap_2; [intros k1 k2 Hk; by injection Hk|]. apply NoDup_elements.
  - apply same_dom_refl.
  - split; [exact Hinv|]. intros b' k.
    destruct (decide (b' = b)) as [->|Hne].
    + case_bool_decide as Hin.
      * apply elem_of_elements in Hin. apply (Hown k (b, k) Hin). done.
      * apply (Hother (b, k)). cbn. intros Hin'.
        apply elem_of_list_fmap in Hin' as (k1 & Heq & Hin'). injection Heq as <-.
        by apply elem_of_elements in Hin'.
    + apply (Hother (b', k)). cbn. intros Hin.
      apply elem_of_list_fmap in Hin as (k1 & Heq & Hin). congruence.
Qed.

(** all puts *)
Lemma flush_all_puts_sp (ps : gmap N bkt) (ds : gmap N (gset N)) s :
  (∀ b, is_Some (ps !! b) → is_Some (cur s !! b)) →
  same_dom s (fold_left (λ s bp, flush_bucket_puts sp_backend (subd ds bp.1) bp.1 s
                                   (map_to_list bp.2)) (map_to_list ps) s) ∧
  ∀ b k, lk (fold_left (λ s bp, flush_bucket_puts sp_backend (subd ds bp.1) bp.1 s
                                  (map_to_list bp.2)) (map_to_list ps) s) b k =
         match sub ps b !! k with
         | Some v => if bool_decide (k ∈ subd ds b) then lk s b k else Some v
         | None => lk s b k end.
Proof.
  intros Hex.
  set (f := λ (s : bst sp_backend) (bp : N * bkt),
              flush_bucket_puts sp_backend (subd ds bp.1) bp.1 s (map_to_list bp.2)).
  assert (Hexl : ∀ s' bp, bp ∈ map_to_list ps → same_dom s s' → is_Some (cur s' !! bp.1)).
  { intros s' [b p] Hin Hs'. apply elem_of_map_to_list in Hin. apply Hs', Hex. cbn. eauto. }
  destruct (fold_keyed (S := sp) (K := N * N)
              (λ bp : N * bkt, bp.1) (λ bk : N * N, bk.1) f
              (λ s bk, lk s bk.1 bk.2)
              (λ bp bk o, match bp.2 !! bk.2 with
                          | Some v => if bool_decide (bk.2 ∈ subd ds bp.1) then o else Some v
                          | None => o end)
              (same_dom s) (map_to_list ps)) with (s := s) as (Hinv & Hother & Hown).
  - intros s' bp Hin Hs'. unfold f.
    eapply same_dom_trans; [exact Hs'|]. apply flush_bucket_puts_sp. by apply Hexl.
  - intros s' bp [b' k'] Hin Hs' Hne. unfold f; cbn in *.
    destruct (flush_bucket_puts_sp (subd ds bp.1) bp.1 s' bp.2 (Hexl _ _ Hin Hs')) as [_ Hlk].
    rewrite Hlk. by rewrite decide_False.
  - intros s' bp [b' k'] Hin Hs' Heq. unfold f; cbn in *. subst b'.
    destruct (flush_bucket_puts_sp (subd ds bp.1) bp.1 s' bp.2 (Hexl _ _ Hin Hs')) as [_ Hlk].
    rewrite Hlk. by rewrite decide_True.
  - apply NoDup_fst_map_to_list.
  - apply same_dom_refl.
  - split; [exact Hinv|]. intros b k. unfold sub.
    destruct (ps !! b) as [p|] eqn:Hp; cbn.
    + apply elem_of_map_to_list in Hp. apply (Hown (b, p) (b, k) Hp). done.
    + rewrite lookup_empty. apply (Hother (b, k)). cbn. intros Hin.
      apply elem_of_list_fmap in Hin as ([b1 p1] & Heq & Hin). cbn in Heq. subst b1.
      apply elem_of_map_to_list in Hin. congruence.
Qed.

(** all deletes *)
Lemma flush_all_dels_sp (ds : gmap N (gset N)) s :
  same_dom s (fold_left (λ s bd, flush_bucket_dels sp_backend bd.1 s (elements bd.2))
                        (map_to_list ds) s) ∧
  ∀ b k, lk (fold_left (λ s bd, flush_bucket_dels sp_backend bd.1 s (elements bd.2))
                       (map_to_list ds) s) b k =
         if bool_decide (k ∈ subd ds b) then None else lk s b k.
Proof.
  set (f := λ (s : bst sp_backend) (bd : N * gset N),
              flush_bucket_dels sp_backend bd.1 s (elements bd.2)).
  destruct (fold_keyed (S := sp) (K := N * N)
              (λ bd : N * gset N, bd.1) (λ bk : N * N, bk.1) f
              (λ s bk, lk s bk.1 bk.2)
              (λ bd bk o, if bool_decide (bk.2 ∈ bd.2) then None else o)
              (same_dom s) (map_to_list ds)) with (s := s) as (Hinv & Hother & Hown).
  - intros s' bd Hin Hs'. unfold f.
    eapply same_dom_trans; [exact Hs'|]. apply flush_bucket_dels_sp.
  - intros s' bd [b' k'] Hin Hs' Hne. unfold f; cbn in *.
    destruct (flush_bucket_dels_sp bd.1 s' bd.2) as [_ Hlk].
    rewrite Hlk. by rewrite decide_False.
  - intros s' bd [b' k'] Hin Hs' Heq. unfold f; cbn in *. subst b'.
    destruct (flush_bucket_dels_sp bd.1 s' bd.2) as [_ Hlk].
    rewrite Hlk. by rewrite decide_True.
  - apply NoDup_fst_map_to_list.
  - apply same_dom_refl.
  - split; [exact Hinv|]. intros b k. unfold subd.
    destruct (ds !! b) as [D|] eqn:Hd; cbn.
    + apply elem_of_map_to_list in Hd. apply (Hown (b, D) (b, k) Hd). done.
    + rewrite bool_decide_eq_false_2 by set_solver. apply (Hother (b, k)). cbn. intros Hin.
      apply elem_of_list_fmap in Hin as ([b1 D1] & Heq & Hin). cbn in Heq. subst b1.
      apply elem_of_map_to_list in Hin. congruence.
Qed.

(** ** The simulation relation between CacheDB over the specification and the specification *)

(** what a reader of the cache sees: the overlay's put, else deleted, else the backend *)
Definition view (m : mem) (bk : sp) (b k : N) : option N :=
  match mem_get m b k with
  | Some v => Some v
  | None => if bool_decide (k ∈ subd (dels m) b) then None else lk bk b k
  end.

Record Q (c : cache sp_backend) (s : sp) : Prop := {
  Q_com : com (cback c) = com s;
  Q_bk : buckets (cmem c) = ∅;
  Q_has : ∀ b, is_Some (cur (cback c) !! b) ↔ is_Some (cur s !! b);
  Q_mem : ∀ b, mem_has (cmem c) b = true → is_Some (cur (cback c) !! b);
  Q_get : ∀ b mb, cur s !! b = Some mb → ∀ k, view (cmem c) (cback c) b k = mb !! k;
  Q_disj : disj (cmem c);
  Q_paired : paired (cmem c);
}.

Lemma Q_init : Q (cache_init sp_backend sp_init) sp_init.
Proof.
  split; cbn; try done.
  intros b; cbn. rewrite !lookup_empty. intros [[? ?]|[? ?]]; done.
Qed.

(** creating a fresh overlay bucket changes nothing a reader can see *)
Lemma mem_create_fresh m b :
  mem_has m b = false → disj m → paired m →
  ∃ m', mem_create m b = (m', true) ∧ buckets m' = buckets m ∧ disj m' ∧ paired m' ∧
        (∀ b', mem_has m' b' = true ↔ b' = b ∨ mem_has m b' = true) ∧
        (∀ b' k, mem_get m' b' k = mem_get m b' k) ∧
        (∀ b', sub (puts m') b' = sub (puts m) b') ∧
        (∀ b', subd (dels m') b' = subd (dels m) b').
Proof.
  intros Hf Hd Hp. unfold mem_create. rewrite Hf. eexists; split; [done|].
  apply mem_has_false in Hf as (Hb0 & Hp0 & Hd0). cbn.
  assert (Hsp : ∀ b', sub (<[b := ∅]> (puts m)) b' = sub (puts m) b').
  { intros b'. rewrite sub_insert. destruct (decide (b = b')) as [<-|]; [|done].
    unfold sub. by rewrite Hp0. }
  assert (Hsd : ∀ b', subd (<[b := ∅]> (dels m)) b' = subd (dels m) b').
  { intros b'. rewrite subd_insert. destruct (decide (b = b')) as [<-|]; [|done].
    unfold subd. by rewrite Hd0. }
  split; [done|]. split; [|split; [|split; [|split; [|split]]]].
  - intros b' k; cbn. rewrite Hsp, Hsd. apply Hd.
  - intros b'; cbn. destruct (decide (b = b')) as [<-|].
    + rewrite !lookup_insert. right; eauto.
    + rewrite !lookup_insert_ne by done. apply Hp.
  - intros b'. rewrite !mem_has_true; cbn. destruct (decide (b = b')) as [<-|].
    + rewrite !lookup_insert. split; eauto.
    + rewrite !lookup_insert_ne by done. split; [tauto|]. intros [->|?]; [done|tauto].
  - intros b' k. unfold mem_get; cbn. by rewrite Hsp, Hsd.
  - exact Hsp.
  - exact Hsd.
Qed.

Lemma back_has_sp (s : sp) b : back_has sp_backend s b = bool_decide (is_Some (cur s !! b)).
Proof. done. Qed.

Lemma Q_bucket_none c s b :
  Q c s → cur s !! b = None → cache_bucket sp_backend c b = None.
Proof.
  intros HQ Hc. unfold cache_bucket. rewrite back_has_sp.
  rewrite bool_decide_eq_false_2; [done|].
  rewrite (Q_has _ _ HQ), Hc. by intros [? ?].
Qed.

Lemma Q_bucket_some c s b mb :
  Q c s → cur s !! b = Some mb →
  ∃ c', cache_bucket sp_backend c b = Some c' ∧ cback c' = cback c ∧
        mem_has (cmem c') b = true ∧ Q c' s.
Proof.
  intros HQ Hc. unfold cache_bucket. rewrite back_has_sp.
  assert (Hbb : is_Some (cur (cback c) !! b)) by (apply (Q_has _ _ HQ); eauto).
  rewrite bool_decide_eq_true_2 by done.
  destruct (mem_has (cmem c) b) eqn:Hh.
  - exists c. done.
  - destruct (mem_create_fresh (cmem c) b Hh (Q_disj _ _ HQ) (Q_paired _ _ HQ))
      as (m' & Hcr & Hb' & Hd' & Hp' & Hh' & Hg' & Hsp' & Hsd').
    rewrite Hcr. cbn. eexists; split; [done|]. cbn. split; [done|].
    split; [apply Hh'; by left|].
    split; cbn.
    + apply (Q_com _ _ HQ).
    + rewrite Hb'. apply (Q_bk _ _ HQ).
    + apply (Q_has _ _ HQ).
    + intros b' [->|Hm]%Hh'; [done|]. by apply (Q_mem _ _ HQ).
    + intros b' mb' Hl k. unfold view. rewrite Hg', Hsd'. apply (Q_get _ _ HQ b' mb' Hl k).
    + done.
    + done.
Qed.

(** ** Flush: the backend ends up with exactly the view, the overlay is cleared *)
Lemma sub_fmap_empty (g : gmap N bkt) b : sub ((λ _, ∅) <$> g) b = ∅.
Proof. unfold sub. rewrite lookup_fmap. by destruct (g !! b). Qed.
Lemma subd_fmap_empty (g : gmap N (gset N)) b : subd ((λ _, ∅) <$> g) b = ∅.
Proof. unfold subd. rewrite lookup_fmap. by destruct (g !! b). Qed.

Lemma Q_flush c s : Q c s → Q (cache_flush sp_backend c) (Sp (cur s) (cur s)).
Proof.
  intros HQ. pose proof HQ as [Hcom Hbk Hhas Hmem Hget Hdj Hpr].
  unfold cache_flush.
  set (s1 := fold_left _ (map_to_list (puts (cmem c))) (cback c)).
  set (s2 := fold_left _ (map_to_list (dels (cmem c))) s1).
  destruct (flush_all_puts_sp (puts (cmem c)) (dels (cmem c)) (cback c)) as [Hd1 Hl1].
  { intros b Hb. apply Hmem, mem_has_true. right; left; done. }
  fold s1 in Hd1, Hl1.
  destruct (flush_all_dels_sp (dels (cmem c)) s1) as [Hd2 Hl2].
  fold s2 in Hd2, Hl2.
  assert (Hdom : same_dom (cback c) s2) by (eapply same_dom_trans; eassumption).
  assert (Hview : ∀ b k, lk s2 b k = view (cmem c) (cback c) b k).
  { intros b k. rewrite Hl2, Hl1. unfold view, mem_get. rewrite Hbk.
    assert (sub ∅ b !! k = None) as -> by (unfold sub; rewrite lookup_empty; apply lookup_empty).
    destruct (sub (puts (cmem c)) b !! k) as [v|] eqn:Hp.
    - assert (k ∉ subd (dels (cmem c)) b) as Hn by (apply Hdj; rewrite Hp; eauto).
      by rewrite !bool_decide_eq_false_2 by done.
    - by case_bool_decide. }
  assert (Hcur : cur s2 = cur s).
  { apply map_eq. intros b. destruct (cur s !! b) as [mb|] eqn:Hc.
    - assert (is_Some (cur s2 !! b)) as [mb2 Hc2] by (apply Hdom, Hhas; eauto).
      rewrite Hc2. f_equal. apply map_eq; intros k.
      rewrite <- (Hget b mb Hc k), <- Hview. unfold lk, sub. by rewrite Hc2.
    - apply eq_None_not_Some. intros Hs%Hdom%Hhas. rewrite Hc in Hs. by destruct Hs. }
  unfold back_apply; cbn. rewrite Hcur.
  split; cbn.
  - done.
  - rewrite Hbk. apply fmap_empty.
  - done.
  - intros b Hb. apply Hhas, Hmem. apply mem_has_true in Hb. apply mem_has_true. cbn in Hb.
    rewrite !lookup_fmap, !fmap_is_Some in Hb. done.
  - intros b mb Hc k. unfold view, mem_get; cbn.
    rewrite !sub_fmap_empty, subd_fmap_empty, !lookup_empty.
    rewrite bool_decide_eq_false_2 by set_solver. unfold lk, sub; cbn. by rewrite Hc.
  - intros b k; cbn. rewrite sub_fmap_empty, lookup_empty. by intros [? ?].
  - intros b; cbn. rewrite !lookup_fmap, !fmap_is_Some. apply Hpr.
Qed.

(** ** One step *)
Lemma Q_step c s o :
  Q c s →
  snd (cache_step sp_backend c o) = snd (sp_step s o) ∧
  Q (fst (cache_step sp_backend c o)) (fst (sp_step s o)).
Proof.
  intros HQ. pose proof HQ as [Hcom Hbk Hhas Hmem Hget Hdj Hpr].
  destruct o as [b|b k v|b k|b k|b|b| |]; unfold cache_step, sp_step.
  - (* Create *)
    cbn [b_step sp_backend]. unfold sp_step.
    destruct (cur s !! b) as [mb|] eqn:Hc.
    + assert (is_Some (cur (cback c) !! b)) as [mb' Hc'] by (apply Hhas; eauto).
      rewrite Hc'. cbn. split; [done|]. destruct c; done.
    + assert (cur (cback c) !! b = None) as Hc'.
      { apply eq_None_not_Some. intros Hs%Hhas. rewrite Hc in Hs. by destruct Hs. }
      rewrite Hc'.
      assert (mem_has (cmem c) b = false) as Hf.
      { destruct (mem_has (cmem c) b) eqn:E; [|done].
        apply Hmem in E as [? ?]. congruence. }
      destruct (mem_create_fresh (cmem c) b Hf Hdj Hpr)
        as (m' & Hcr & Hb' & Hd' & Hp' & Hh' & Hg' & Hsp' & Hsd').
      rewrite Hcr. cbn. split; [done|]. split; cbn.
      * done.
      * by rewrite Hb'.
      * intros b'. destruct (decide (b = b')) as [<-|].
        -- rewrite !lookup_insert. split; eauto.
        -- rewrite !lookup_insert_ne by done. apply Hhas.
      * intros b' [->|Hm]%Hh'; [rewrite lookup_insert; eauto|].
        destruct (decide (b = b')) as [<-|]; [rewrite lookup_insert; eauto|].
        rewrite lookup_insert_ne by done. by apply Hmem.
      * intros b' mb' Hl k. unfold view. rewrite Hg', Hsd'.
        destruct (decide (b = b')) as [<-|].
        -- rewrite lookup_insert in Hl. injection Hl as <-.
           unfold mem_get, lk. cbn [cur]. rewrite sub_insert, decide_True by done.
           assert (sub (puts (cmem c)) b = ∅) as -> by
             (apply mem_has_false in Hf as (_ & Hp0 & _); unfold sub; by rewrite Hp0).
           assert (subd (dels (cmem c)) b = ∅) as -> by
             (apply mem_has_false in Hf as (_ & _ & Hd0); unfold subd; by rewrite Hd0).
           rewrite !lookup_empty, Hbk. rewrite !bool_decide_eq_false_2 by set_solver.
           unfold sub. rewrite lookup_empty. cbn. by rewrite lookup_empty.
        -- rewrite lookup_insert_ne in Hl by done. rewrite <- (Hget b' mb' Hl k).
           unfold view, lk. cbn [cur]. rewrite sub_insert, decide_False by done. done.
      * done.
      * done.
  - (* Put *)
    destruct (cur s !! b) as [mb|] eqn:Hc.
    + destruct (Q_bucket_some c s b mb HQ Hc) as (c' & -> & Hback & Hhas' & HQ').
      destruct (mem_put_spec_dels (cmem c') b k v Hhas' (Q_disj _ _ HQ') (Q_paired _ _ HQ'))
        as (m' & -> & Hb' & Hd' & Hp' & Hh' & Hg' & Hs').
      cbn. split; [done|]. split; cbn.
      * apply (Q_com _ _ HQ').
      * rewrite Hb'. apply (Q_bk _ _ HQ').
      * intros b'. rewrite (Q_has _ _ HQ'). destruct (decide (b = b')) as [<-|].
        -- rewrite lookup_insert, Hc. split; eauto.
        -- by rewrite lookup_insert_ne.
      * intros b'. rewrite Hh'. apply (Q_mem _ _ HQ').
      * intros b' mb' Hl k'. unfold view. rewrite Hg', Hs'.
        destruct (decide (b = b')) as [<-|].
        -- rewrite lookup_insert in Hl. injection Hl as <-.
           destruct (decide (k = k')) as [<-|].
           ++ rewrite decide_True by done. by rewrite lookup_insert.
           ++ rewrite decide_False by tauto. rewrite lookup_insert_ne by done.
              rewrite <- (Q_get _ _ HQ' b mb Hc k'). unfold view.
              destruct (mem_get (cmem c') b k'); [done|].
              repeat case_bool_decide; try done; set_solver.
        -- rewrite decide_False by tauto. rewrite lookup_insert_ne in Hl by done.
           apply (Q_get _ _ HQ' b' mb' Hl k').
      * done.
      * done.
    + rewrite (Q_bucket_none c s b HQ Hc). done.
  - (* Del *)
    destruct (cur s !! b) as [mb|] eqn:Hc.
    + destruct (Q_bucket_some c s b mb HQ Hc) as (c' & -> & Hback & Hhas' & HQ').
      destruct (mem_delete_spec_dels (cmem c') b k Hhas' (Q_disj _ _ HQ') (Q_paired _ _ HQ'))
        as (m' & -> & Hb' & Hd' & Hp' & Hh' & Hg' & Hs').
      cbn. split; [done|]. split; cbn.
      * apply (Q_com _ _ HQ').
      * rewrite Hb'. apply (Q_bk _ _ HQ').
      * intros b'. rewrite (Q_has _ _ HQ'). destruct (decide (b = b')) as [<-|].
        -- rewrite lookup_insert, Hc. split; eauto.
        -- by rewrite lookup_insert_ne.
      * intros b'. rewrite Hh'. apply (Q_mem _ _ HQ').
      * intros b' mb' Hl k'. unfold view. rewrite Hg', Hs'.
        destruct (decide (b = b')) as [<-|].
        -- rewrite lookup_insert in Hl. injection Hl as <-.
           destruct (decide (k = k')) as [<-|].
           ++ rewrite decide_True by done. rewrite lookup_delete.
              by rewrite bool_decide_eq_true_2 by set_solver.
           ++ rewrite decide_False by tauto. rewrite lookup_delete_ne by done.
              rewrite <- (Q_get _ _ HQ' b mb Hc k'). unfold view.
              destruct (mem_get (cmem c') b k'); [done|].
              repeat case_bool_decide; try done; set_solver.
        -- rewrite decide_False by tauto. rewrite lookup_insert_ne in Hl by done.
           apply (Q_get _ _ HQ' b' mb' Hl k').
      * done.
      * done.
    + rewrite (Q_bucket_none c s b HQ Hc). done.
  - (* Get *)
    destruct (cur s !! b) as [mb|] eqn:Hc.
    + destruct (Q_bucket_some c s b mb HQ Hc) as (c' & -> & Hback & Hhas' & HQ').
      pose proof (Q_get _ _ HQ' b mb Hc k) as Hv. unfold view in Hv.
      destruct (mem_get (cmem c') b k) as [v|] eqn:Hg.
      * cbn. split; [by rewrite Hv|done].
      * case_bool_decide as Hin.
        -- cbn. split; [by rewrite Hv|done].
        -- assert (is_Some (cur (cback c') !! b)) as [mb' Hc'] by (apply (Q_has _ _ HQ'); eauto).
           cbn [b_step sp_backend]. unfold sp_step. rewrite Hc'. cbn.
           split; [|done]. rewrite <- Hv. unfold lk, sub. by rewrite Hc'.
    + rewrite (Q_bucket_none c s b HQ Hc). done.
  - (* Iter *)
    destruct (cur s !! b) as [mb|] eqn:Hc.
    + destruct (Q_bucket_some c s b mb HQ Hc) as (c' & -> & Hback & Hhas' & HQ').
      assert (is_Some (cur (cback c') !! b)) as [mb' Hc'] by (apply (Q_has _ _ HQ'); eauto).
      cbn [b_step sp_backend]. unfold sp_step. rewrite Hc'. cbn.
      split; [|done]. f_equal. apply map_eq; intros k.
      rewrite <- (Q_get _ _ HQ' b mb Hc k). unfold view.
      destruct (mem_get (cmem c') b k) as [v|] eqn:Hg.
      * apply lookup_union_Some_l. by rewrite mem_iter_lookup.
      * rewrite lookup_union_r by (by rewrite mem_iter_lookup).
        assert (sub (puts (cmem c')) b !! k = None) as Hpk.
        { unfold mem_get in Hg. destruct (sub (puts (cmem c')) b !! k); done. }
        assert (lk (cback c') b k = mb' !! k) as -> by (unfold lk, sub; by rewrite Hc').
        case_bool_decide as Hin.
        -- apply map_filter_lookup_None. right. intros x _ [_ Hn]. by apply Hn.
        -- destruct (mb' !! k) as [x|] eqn:Hx.
           ++ apply map_filter_lookup_Some. done.
           ++ apply map_filter_lookup_None. by left.
    + rewrite (Q_bucket_none c s b HQ Hc). done.
  - (* Has *)
    destruct (cur s !! b) as [mb|] eqn:Hc.
    + destruct (Q_bucket_some c s b mb HQ Hc) as (c' & -> & Hback & Hhas' & HQ').
      cbn. done.
    + rewrite (Q_bucket_none c s b HQ Hc). cbn. done.
  - (* Flush *)
    cbn. split; [done|]. by apply Q_flush.
  - (* Cancel *)
    cbn. split; [done|]. split; cbn.
    + done.
    + done.
    + by rewrite Hcom.
    + intros b. rewrite mem_has_true; cbn. rewrite Hbk, !lookup_empty.
      intros [[? ?]|[[? ?]|[? ?]]]; done.
    + intros b mb Hl k. unfold view, mem_get, lk, sub, subd; cbn. rewrite !lookup_empty; cbn.
      rewrite lookup_empty. rewrite bool_decide_eq_false_2 by set_solver.
      rewrite Hbk, lookup_empty; cbn. rewrite lookup_empty. rewrite Hcom, Hl. done.
    + intros b k; cbn. unfold sub. rewrite lookup_empty; cbn. rewrite lookup_empty. by intros [? ?].
    + intros b; cbn. rewrite !lookup_empty. intros [[? ?]|[? ?]]; done.
Qed.

(** ** Refinement for every operation sequence *)
Lemma Q_run c s ops :
  Q c s → run_ops (cache_step sp_backend) c ops = run_ops sp_step s ops.
Proof.
  revert c s. induction ops as [|o ops IH]; intros c s HQ; [done|]. cbn.
  destruct (Q_step c s o HQ) as [Hr HQ'].
  destruct (cache_step sp_backend c o) as [c' r], (sp_step s o) as [s' r']. cbn in *. subst r'.
  f_equal. by apply IH.
Qed.

Lemma Q_final c s ops :
  Q c s → Q (final (cache_step sp_backend) c ops) (final sp_step s ops).
Proof.
  revert c s. induction ops as [|o ops IH]; intros c s HQ; [done|]. cbn.
  apply IH. by apply Q_step.
Qed.

Theorem cachedb_refines_spec ops :
  run_ops (cache_step sp_backend) (cache_init sp_backend sp_init) ops =
  run_ops sp_step sp_init ops.
Proof. apply Q_run, Q_init. Qed.

(** ** Compositionality: CacheDB uses its backend only through [b_step] *)

(** a simulation between two backends: related states answer every operation alike *)
Definition bsim (B1 B2 : backend) (T : bst B1 → bst B2 → Prop) : Prop :=
  ∀ s1 s2 o, T s1 s2 →
    snd (b_step B1 s1 o) = snd (b_step B2 s2 o) ∧
    T (fst (b_step B1 s1 o)) (fst (b_step B2 s2 o)).

(** the same overlay over related backends *)
Definition CT {B1 B2 : backend} (T : bst B1 → bst B2 → Prop)
    (c1 : cache B1) (c2 : cache B2) : Prop :=
  cmem c1 = cmem c2 ∧ T (cback c1) (cback c2).

Lemma fold_left_rel {S1 S2 A : Type} (T : S1 → S2 → Prop)
    (f1 : S1 → A → S1) (f2 : S2 → A → S2) (l : list A) :
  (∀ s1 s2 a, T s1 s2 → T (f1 s1 a) (f2 s2 a)) →
  ∀ s1 s2, T s1 s2 → T (fold_left f1 l s1) (fold_left f2 l s2).
Proof.
  intros Hf. induction l as [|a l IH]; intros s1 s2 HT; [done|].
  cbn. apply IH. by apply Hf.
Qed.

Lemma back_apply_rel B1 B2 T s1 s2 o :
  bsim B1 B2 T → T s1 s2 → T (back_apply B1 s1 o) (back_apply B2 s2 o).
Proof. intros Hsim HT. unfold back_apply. by apply Hsim. Qed.

Lemma back_has_rel B1 B2 T s1 s2 b :
  bsim B1 B2 T → T s1 s2 → back_has B1 s1 b = back_has B2 s2 b.
Proof.
  intros Hsim HT. unfold back_has. destruct (Hsim s1 s2 (Has b) HT) as [Hr _]. by rewrite Hr.
Qed.

Lemma cache_bucket_rel B1 B2 T (c1 : cache B1) (c2 : cache B2) b :
  bsim B1 B2 T → CT T c1 c2 →
  match cache_bucket B1 c1 b, cache_bucket B2 c2 b with
  | Some c1', Some c2' => CT T c1' c2'
  | None, None => True
  | _, _ => False
  end.
Proof.
  intros Hsim [Hm HT]. unfold cache_bucket.
  rewrite (back_has_rel B1 B2 T _ _ b Hsim HT), Hm.
  destruct (back_has B2 (cback c2) b); [|done].
  destruct (mem_has (cmem c2) b); [by split|].
  split; cbn; [done|exact HT].
Qed.

Lemma cache_flush_rel B1 B2 T (c1 : cache B1) (c2 : cache B2) :
  bsim B1 B2 T → CT T c1 c2 → CT T (cache_flush B1 c1) (cache_flush B2 c2).
Proof.
  intros Hsim [Hm HT]. unfold cache_flush. rewrite Hm. split; cbn; [done|].
  apply back_apply_rel; [done|].
  apply fold_left_rel.
  { intros s1 s2 bd Hs. unfold flush_bucket_dels. apply fold_left_rel; [|done].
    intros s1' s2' k Hs'. by apply back_apply_rel. }
  apply fold_left_rel; [|done].
  intros s1 s2 bp Hs. unfold flush_bucket_puts. apply fold_left_rel; [|done].
  intros s1' s2' kv Hs'. case_bool_decide; [done|]. by apply back_apply_rel.
Qed.

Lemma cache_step_rel B1 B2 T (c1 : cache B1) (c2 : cache B2) o :
  bsim B1 B2 T → CT T c1 c2 →
  snd (cache_step B1 c1 o) = snd (cache_step B2 c2 o) ∧
  CT T (fst (cache_step B1 c1 o)) (fst (cache_step B2 c2 o)).
Proof.
  intros Hsim HCT.
  assert (Hbucket := λ b, cache_bucket_rel B1 B2 T c1 c2 b Hsim HCT).
  destruct o as [b|b k v|b k|b k|b|b| |]; unfold cache_step.
  - (* Create *)
    destruct HCT as [Hm HT].
    destruct (Hsim _ _ (Create b) HT) as [Hr Hs].
    destruct (b_step B1 (cback c1) (Create b)) as [s1' r1],
             (b_step B2 (cback c2) (Create b)) as [s2' r2]. cbn in Hr, Hs. subst r2.
    rewrite Hm.
    destruct r1 as [|[|]| | | |]; try (split; [done|by split]).
    destruct (mem_create (cmem c2) b) as [m' ok]. split; [done|by split].
  - (* Put *)
    specialize (Hbucket b).
    destruct (cache_bucket B1 c1 b) as [c1'|], (cache_bucket B2 c2 b) as [c2'|]; try done.
    destruct Hbucket as [Hm' HT']. rewrite Hm'.
    destruct (mem_put (cmem c2') b k v) as [m'|]; (split; [done|by split]).
  - (* Del *)
    specialize (Hbucket b).
    destruct (cache_bucket B1 c1 b) as [c1'|], (cache_bucket B2 c2 b) as [c2'|]; try done.
    destruct Hbucket as [Hm' HT']. rewrite Hm'.
    destruct (mem_delete (cmem c2') b k) as [m'|]; (split; [done|by split]).
  - (* Get *)
    specialize (Hbucket b).
    destruct (cache_bucket B1 c1 b) as [c1'|], (cache_bucket B2 c2 b) as [c2'|]; try done.
    destruct Hbucket as [Hm' HT']. rewrite Hm'.
    destruct (mem_get (cmem c2') b k) as [x|]; [split; [done|by split]|].
    case_bool_decide; [split; [done|by split]|].
    destruct (Hsim _ _ (Get b k) HT') as [Hr _]. rewrite Hr.
    destruct (snd (b_step B2 (cback c2') (Get b k))); (split; [done|by split]).
  - (* Iter *)
    specialize (Hbucket b).
    destruct (cache_bucket B1 c1 b) as [c1'|], (cache_bucket B2 c2 b) as [c2'|]; try done.
    destruct Hbucket as [Hm' HT'].
    destruct (Hsim _ _ (Iter b) HT') as [Hr _]. rewrite Hr, Hm'.
    destruct (snd (b_step B2 (cback c2') (Iter b))); (split; [done|by split]).
  - (* Has *)
    specialize (Hbucket b).
    destruct (cache_bucket B1 c1 b) as [c1'|], (cache_bucket B2 c2 b) as [c2'|]; try done.
  - (* Flush *)
    split; [done|]. cbn. by apply cache_flush_rel.
  - (* Cancel *)
    destruct HCT as [Hm HT]. split; [done|]. cbn. split; cbn; [by rewrite Hm|].
    by apply back_apply_rel.
Qed.

Lemma CT_run B1 B2 T (c1 : cache B1) (c2 : cache B2) ops :
  bsim B1 B2 T → CT T c1 c2 →
  run_ops (cache_step B1) c1 ops = run_ops (cache_step B2) c2 ops.
Proof.
  intros Hsim. revert c1 c2. induction ops as [|o ops IH]; intros c1 c2 HCT; [done|]. cbn.
  destruct (cache_step_rel B1 B2 T c1 c2 o Hsim HCT) as [Hr HCT'].
  destruct (cache_step B1 c1 o) as [c1' r], (cache_step B2 c2 o) as [c2' r']. cbn in *. subst r'.
  f_equal. by apply IH.
Qed.

(** MemDB and the specification are related backends ([R_step] of Proofs.v) *)
Lemma bsim_mem_sp : bsim mem_backend sp_backend R.
Proof. intros m s o HR. apply R_step, HR. Qed.

Theorem cachedb_over_memdb_refines_spec ops :
  run_ops (cache_step mem_backend) (cache_init mem_backend mem_init) ops =
  run_ops sp_step sp_init ops.
Proof.
  rewrite <- cachedb_refines_spec.
  apply (CT_run mem_backend sp_backend R); [exact bsim_mem_sp|].
  split; [done|]. exact R_init.
Qed.

(** ** All four models agree *)
Theorem backends_agree ops :
  run_ops mem_step mem_init ops = run_ops sp_step sp_init ops ∧
  run_ops (cache_step mem_backend) (cache_init mem_backend mem_init) ops =
    run_ops sp_step sp_init ops ∧
  run_ops (cache_step sp_backend) (cache_init sp_backend sp_init) ops =
    run_ops sp_step sp_init ops.
Proof.
  split; [apply memdb_refines_spec|].
  split; [apply cachedb_over_memdb_refines_spec|apply cachedb_refines_spec].
Qed.

(** a concrete run through CacheDB over MemDB: unflushed writes and deletes are visible,
    a second create is refused, cancel discards only the unflushed window *)
Example cache_over_mem_run :
  run_ops (cache_step mem_backend) (cache_init mem_backend mem_init)
    [Create 1; Create 1; Put 1 2 3; Get 1 2; Flush; Del 1 2; Get 1 2;
     Cancel; Get 1 2; Has 1; Has 7; Get 7 0]%N =
  [MBool true; MBool false; MBool true; MVal (Some 3); MUnit; MBool true; MVal None;
   MUnit; MVal (Some 3); MBool true; MBool false; MNoBucket]%N.
Proof. vm_compute. done. Qed.

(** iteration sees flushed and unflushed entries, minus the unflushed deletes *)
Example cache_over_mem_iter :
  match last (run_ops (cache_step mem_backend) (cache_init mem_backend mem_init)
                [Create 1; Put 1 2 3; Put 1 4 5; Flush; Put 1 6 7; Del 1 2; Iter 1]%N) with
  | Some (MList m) => map_to_list m
  | _ => []
  end ≡ₚ [(4, 5); (6, 7)]%N.
Proof. vm_compute. done. Qed.

(** the general form: CacheDB over any backend that simulates the specification *)
Theorem cachedb_over_refining_backend (B : backend) (T : bst B → sp → Prop) (s0 : bst B) ops :
  bsim B sp_backend T → T s0 sp_init →
  run_ops (cache_step B) (cache_init B s0) ops = run_ops sp_step sp_init ops.
Proof.
  intros Hsim HT. rewrite <- cachedb_refines_spec.
  apply (CT_run B sp_backend T); [exact Hsim|]. by split.
Qed.

(** non-vacuity: MemDB is such a backend *)
Example cachedb_over_refining_backend_mem ops :
  run_ops (cache_step mem_backend) (cache_init mem_backend mem_init) ops =
  run_ops sp_step sp_init ops.
Proof. exact (cachedb_over_refining_backend mem_backend R mem_init ops bsim_mem_sp R_init). Qed.
