(** * KV/Proofs.v — MemDB refines the two-map specification (C17) *)
From stdpp Require Import gmap.
From Coq Require Import NArith.
From CV Require Import KV.Model.

(** ** Pointwise characterisations *)
Lemma mem_iter_lookup m b k : mem_iter m b !! k = mem_get m b k.
Proof.
  unfold mem_iter, mem_get.
  destruct (sub (puts m) b !! k) as [v|] eqn:Hp.
  - erewrite lookup_union_Some_l; eauto.
  - rewrite lookup_union_r by done.
    case_bool_decide as Hd.
    + apply map_filter_lookup_None. right. intros x _ Hn. by apply Hn.
    + destruct (sub (buckets m) b !! k) as [x|] eqn:Hb.
      * apply map_filter_lookup_Some. done.
      * apply map_filter_lookup_None. by left.
Qed.

Lemma flush_puts_lookup bs ps b :
  flush_puts bs ps !! b =
  match ps !! b with Some p => Some (p ∪ default ∅ (bs !! b)) | None => bs !! b end.
Proof. unfold flush_puts. rewrite lookup_merge. destruct (bs !! b), (ps !! b); done. Qed.

Lemma flush_dels_lookup bs ds b :
  flush_dels bs ds !! b =
  match ds !! b with
  | Some d => Some (filter (λ kv, kv.1 ∉ d) (default ∅ (bs !! b)))
  | None => bs !! b end.
Proof. unfold flush_dels. rewrite lookup_merge. destruct (bs !! b), (ds !! b); done. Qed.

(** ** Invariants of a MemDB and the simulation relation *)
Definition disj (m : mem) : Prop :=
  ∀ b k, is_Some (sub (puts m) b !! k) → k ∉ subd (dels m) b.

(** the pending maps of a bucket are created together, or on top of a committed bucket *)
Definition paired (m : mem) : Prop :=
  ∀ b, (is_Some (puts m !! b) ∨ is_Some (dels m !! b)) →
       is_Some (buckets m !! b) ∨ (is_Some (puts m !! b) ∧ is_Some (dels m !! b)).

Record R (m : mem) (s : sp) : Prop := {
  R_com : com s = buckets m;
  R_has : ∀ b, mem_has m b = true ↔ is_Some (cur s !! b);
  R_get : ∀ b mb, cur s !! b = Some mb → ∀ k, mem_get m b k = mb !! k;
  R_disj : disj m;
  R_paired : paired m;
}.

Lemma mem_has_true m b :
  mem_has m b = true ↔ is_Some (buckets m !! b) ∨ is_Some (puts m !! b) ∨ is_Some (dels m !! b).
Proof. unfold mem_has. rewrite !orb_true_iff, !bool_decide_eq_true. tauto. Qed.

Lemma mem_has_false m b :
  mem_has m b = false ↔ buckets m !! b = None ∧ puts m !! b = None ∧ dels m !! b = None.
Proof.
  unfold mem_has. rewrite !orb_false_iff, !bool_decide_eq_false, <- !eq_None_not_Some. tauto.
Qed.

Lemma R_init : R mem_init sp_init.
Proof.
  split; try done.
  - intros b. rewrite mem_has_true; cbn. rewrite !lookup_empty.
    split; [intros [[? ?]|[[? ?]|[? ?]]]; done|]. intros [? ?]; done.
  - intros b; cbn. rewrite !lookup_empty. intros [[? ?]|[? ?]]; done.
Qed.

(** [R] determines the session view: it is the image a flush would commit *)
Lemma R_view m s : R m s → cur s = buckets (mem_flush m).
Proof.
  intros HR. apply map_eq; intros b. cbn.
  rewrite flush_dels_lookup, flush_puts_lookup.
  destruct (cur s !! b) as [mb|] eqn:Hc.
  - pose proof (R_get _ _ HR b mb Hc) as Hg.
    assert (mem_has m b = true) as Hh by (apply (R_has _ _ HR); eauto).
    assert (∀ X, (∀ k, X !! k = mem_get m b k) → Some mb = Some X) as Hext.
    { intros X HX. f_equal. apply map_eq; intros k. by rewrite HX, Hg. }
    unfold mem_get, sub, subd in *.
    destruct (dels m !! b) as [d|] eqn:Hd; cbn.
    + apply Hext; intros k.
      destruct (puts m !! b) as [p|] eqn:Hp; cbn.
      * destruct (p !! k) as [v|] eqn:Hpk.
        -- apply map_filter_lookup_Some. split; [by erewrite lookup_union_Some_l|].
           cbn. pose proof (R_disj _ _ HR b k) as Hdj. unfold sub, subd in Hdj.
           rewrite Hp, Hd in Hdj. cbn in Hdj. apply Hdj. eauto.
        -- case_bool_decide as Hin.
           ++ apply map_filter_lookup_None. right. intros x _ Hn. by apply Hn.
           ++ destruct (default ∅ (buckets m !! b) !! k) as [x|] eqn:Hb.
              ** apply map_filter_lookup_Some. split; [|done]. by rewrite lookup_union_r.
              ** apply map_filter_lookup_None. left. by rewrite lookup_union_r.
      * rewrite lookup_empty. case_bool_decide as Hin.
        -- apply map_filter_lookup_None. right. intros x _ Hn. by apply Hn.
        -- destruct (default ∅ (buckets m !! b) !! k) as [x|] eqn:Hb.
           ++ apply map_filter_lookup_Some. done.
           ++ apply map_filter_lookup_None. by left.
    + destruct (puts m !! b) as [p|] eqn:Hp; cbn.
      * apply Hext; intros k. rewrite bool_decide_eq_false_2 by set_solver.
        destruct (p !! k) as [v|] eqn:Hpk.
        -- cbn. rewrite Hpk. by erewrite lookup_union_Some_l.
        -- cbn. rewrite Hpk. by rewrite lookup_union_r.
      * apply mem_has_true in Hh as [[bb Hb]|[[? ?]|[? ?]]]; try congruence.
        rewrite Hb. apply Hext; intros k. cbn. rewrite lookup_empty.
        rewrite bool_decide_eq_false_2 by set_solver. by rewrite Hb.
  - assert (mem_has m b = false) as Hh.
    { destruct (mem_has m b) eqn:E; [|done]. apply (R_has _ _ HR) in E as [? ?]. congruence. }
    apply mem_has_false in Hh as (-> & -> & ->). done.
Qed.

Lemma sub_insert (g : gmap N bkt) b x b' :
  sub (<[b := x]> g) b' = if decide (b = b') then x else sub g b'.
Proof. unfold sub. destruct (decide (b = b')) as [->|]; by simplify_map_eq. Qed.
Lemma subd_insert (g : gmap N (gset N)) b x b' :
  subd (<[b := x]> g) b' = if decide (b = b') then x else subd g b'.
Proof. unfold subd. destruct (decide (b = b')) as [->|]; by simplify_map_eq. Qed.

(** *** put *)
Lemma mem_put_spec m b k v :
  mem_has m b = true → disj m → paired m →
  ∃ m', mem_put m b k v = Some m' ∧ buckets m' = buckets m ∧ disj m' ∧ paired m' ∧
        (∀ b', mem_has m' b' = mem_has m b') ∧
        (∀ b' k', mem_get m' b' k' =
                  if decide (b = b' ∧ k = k') then Some v else mem_get m b' k').
Proof.
  intros Hh Hd Hp.
  set (ds' := match dels m !! b with Some d => <[b := d ∖ {[k]}]> (dels m) | None => dels m end).
  assert (Hsd : ∀ b', subd ds' b' = if decide (b = b') then subd (dels m) b ∖ {[k]} else subd (dels m) b').
  { intros b'. unfold ds', subd. destruct (dels m !! b) as [d|] eqn:E.
    - destruct (decide (b = b')) as [<-|]; simplify_map_eq; done.
    - destruct (decide (b = b')) as [<-|]; [rewrite E; cbn; set_solver|done]. }
  assert (Hdd : ∀ b', is_Some (ds' !! b') ↔ is_Some (dels m !! b')).
  { intros b'. unfold ds'. destruct (dels m !! b) as [d|] eqn:E; [|done].
    destruct (decide (b = b')) as [<-|]; simplify_map_eq; [|done]. split; eauto. }
  assert (Hex : mem_put m b k v =
     Some (Mem (buckets m) (<[b := <[k := v]> (sub (puts m) b)]> (puts m)) ds')
     ∧ (puts m !! b = None → is_Some (buckets m !! b))).
  { unfold mem_put, sub. destruct (puts m !! b) as [ps|] eqn:Hpp; [done|].
    destruct (buckets m !! b) as [bb|] eqn:Hb; [split; [done|eauto]|].
    exfalso. apply mem_has_true in Hh as [[? ?]|[[? ?]|Hdl]]; try congruence.
    destruct (Hp b) as [[? ?]|[[? ?] _]]; [by right|congruence..]. }
  destruct Hex as [Hex Hnew].
  eexists; split; [exact Hex|]. split; [done|]. split; [|split; [|split]].
  - intros b' k'; cbn. rewrite sub_insert, Hsd. destruct (decide (b = b')) as [<-|]; [|apply Hd].
    destruct (decide (k = k')) as [<-|]; [set_solver|].
    rewrite lookup_insert_ne by done. intros H%Hd. set_solver.
  - intros b'; cbn. rewrite Hdd. destruct (decide (b = b')) as [<-|].
    + rewrite lookup_insert. intros _.
      destruct (puts m !! b) as [ps|] eqn:Hpp.
      * destruct (Hp b) as [?|[_ ?]]; [left; eauto|by left|right; eauto].
      * left. by apply Hnew.
    + rewrite lookup_insert_ne by done. apply Hp.
  - intros b'. apply eq_true_iff_eq. rewrite !mem_has_true; cbn. rewrite Hdd.
    destruct (decide (b = b')) as [<-|]; [|by rewrite lookup_insert_ne].
    rewrite lookup_insert. apply mem_has_true in Hh. split; [tauto|]. intros _. right; left; eauto.
  - intros b' k'. unfold mem_get; cbn. rewrite sub_insert, Hsd.
    destruct (decide (b = b')) as [<-|].
    + destruct (decide (k = k')) as [<-|].
      * rewrite lookup_insert. rewrite decide_True by done. done.
      * rewrite lookup_insert_ne by done. rewrite decide_False by tauto.
        destruct (sub (puts m) b !! k'); [done|].
        repeat case_bool_decide; try done; set_solver.
    + rewrite decide_False by tauto. done.
Qed.

(** *** delete *)
Lemma mem_delete_spec m b k :
  mem_has m b = true → disj m → paired m →
  ∃ m', mem_delete m b k = Some m' ∧ buckets m' = buckets m ∧ disj m' ∧ paired m' ∧
        (∀ b', mem_has m' b' = mem_has m b') ∧
        (∀ b' k', mem_get m' b' k' =
                  if decide (b = b' ∧ k = k') then None else mem_get m b' k').
Proof.
  intros Hh Hd Hp.
  set (ps' := match puts m !! b with Some ps => <[b := delete k ps]> (puts m) | None => puts m end).
  assert (Hsp : ∀ b', sub ps' b' = if decide (b = b') then delete k (sub (puts m) b) else sub (puts m) b').
  { intros b'. unfold ps', sub. destruct (puts m !! b) as [d|] eqn:E.
    - destruct (decide (b = b')) as [<-|]; simplify_map_eq; done.
    - destruct (decide (b = b')) as [<-|]; [rewrite E; cbn; by rewrite delete_empty|done]. }
  assert (Hpp : ∀ b', is_Some (ps' !! b') ↔ is_Some (puts m !! b')).
  { intros b'. unfold ps'. destruct (puts m !! b) as [d|] eqn:E; [|done].
    destruct (decide (b = b')) as [<-|]; simplify_map_eq; [|done]. split; eauto. }
  assert (Hex : mem_delete m b k =
     Some (Mem (buckets m) ps' (<[b := subd (dels m) b ∪ {[k]}]> (dels m)))
     ∧ (dels m !! b = None → is_Some (buckets m !! b))).
  { unfold mem_delete, subd. destruct (dels m !! b) as [ds|] eqn:Hdd; [done|].
    destruct (buckets m !! b) as [bb|] eqn:Hb; [split; [cbn; by rewrite union_empty_l_L|eauto]|].
    exfalso. apply mem_has_true in Hh as [[? ?]|[Hpl|[? ?]]]; try congruence.
    destruct (Hp b) as [[? ?]|[_ [? ?]]]; [by left|congruence..]. }
  destruct Hex as [Hex Hnew].
  eexists; split; [exact Hex|]. split; [done|]. split; [|split; [|split]].
  - intros b' k'; cbn. rewrite subd_insert, Hsp. destruct (decide (b = b')) as [<-|]; [|apply Hd].
    destruct (decide (k = k')) as [<-|]; [rewrite lookup_delete; by intros [? ?]|].
    rewrite lookup_delete_ne by done. intros H%Hd. set_solver.
  - intros b'; cbn. rewrite Hpp. destruct (decide (b = b')) as [<-|].
    + rewrite lookup_insert. intros _.
      destruct (dels m !! b) as [ds|] eqn:Hdd.
      * destruct (Hp b) as [?|[? _]]; [right; eauto|by left|right; eauto].
      * left. by apply Hnew.
    + rewrite lookup_insert_ne by done. apply Hp.
  - intros b'. apply eq_true_iff_eq. rewrite !mem_has_true; cbn. rewrite Hpp.
    destruct (decide (b = b')) as [<-|]; [|by rewrite lookup_insert_ne].
    rewrite lookup_insert. apply mem_has_true in Hh. split; [tauto|]. intros _. right; right; eauto.
  - intros b' k'. unfold mem_get; cbn. rewrite subd_insert, Hsp.
    destruct (decide (b = b')) as [<-|].
    + destruct (decide (k = k')) as [<-|].
      * rewrite lookup_delete. rewrite decide_True by done.
        rewrite bool_decide_eq_true_2 by set_solver. done.
      * rewrite lookup_delete_ne by done. rewrite decide_False by tauto.
        destruct (sub (puts m) b !! k'); [done|].
        repeat case_bool_decide; try done; set_solver.
    + rewrite decide_False by tauto. done.
Qed.

(** *** one step *)
Lemma R_step m s o :
  R m s →
  snd (mem_step m o) = snd (sp_step s o) ∧ R (fst (mem_step m o)) (fst (sp_step s o)).
Proof.
  intros HR. pose proof HR as [Hcom Hhas Hget Hdj Hpr].
  assert (Hnone : ∀ b, cur s !! b = None → mem_has m b = false).
  { intros b Hc. destruct (mem_has m b) eqn:E; [|done]. apply Hhas in E as [? ?]; congruence. }
  assert (Hsome : ∀ b mb, cur s !! b = Some mb → mem_has m b = true).
  { intros b mb Hc. apply Hhas. eauto. }
  destruct o as [b|b k v|b k|b k|b|b| |]; cbn.
  - (* Create *)
    unfold mem_create. destruct (cur s !! b) as [mb|] eqn:Hc.
    + rewrite (Hsome _ _ Hc). done.
    + pose proof (Hnone _ Hc) as Hf. rewrite Hf. cbn. split; [done|].
      apply mem_has_false in Hf as (Hb & Hp & Hd).
      split; cbn.
      * done.
      * intros b'. rewrite mem_has_true; cbn. destruct (decide (b = b')) as [<-|].
        -- rewrite !lookup_insert. split; eauto.
        -- rewrite !lookup_insert_ne by done. rewrite <- Hhas, mem_has_true. done.
      * intros b' mb' Hl k. unfold mem_get; cbn. rewrite sub_insert, subd_insert.
        destruct (decide (b = b')) as [<-|].
        -- rewrite lookup_insert in Hl. injection Hl as <-. rewrite !lookup_empty.
           rewrite bool_decide_eq_false_2 by set_solver. unfold sub. by rewrite Hb.
        -- rewrite lookup_insert_ne in Hl by done. apply (Hget _ _ Hl).
      * intros b' k. cbn. rewrite sub_insert, subd_insert.
        destruct (decide (b = b')) as [<-|]; [rewrite lookup_empty; by intros [? ?]|apply Hdj].
      * intros b'; cbn. destruct (decide (b = b')) as [<-|].
        -- rewrite !lookup_insert. right; eauto.
        -- rewrite !lookup_insert_ne by done. apply Hpr.
  - (* Put *)
    destruct (cur s !! b) as [mb|] eqn:Hc.
    + rewrite (Hsome _ _ Hc).
      destruct (mem_put_spec m b k v (Hsome _ _ Hc) Hdj Hpr) as (m' & -> & Hb' & Hd' & Hp' & Hh' & Hg').
      cbn. split; [done|]. split; cbn; try done.
      * congruence.
      * intros b'. rewrite Hh', Hhas. destruct (decide (b = b')) as [<-|].
        -- rewrite lookup_insert, Hc. split; eauto.
        -- by rewrite lookup_insert_ne.
      * intros b' mb' Hl k'. rewrite Hg'. destruct (decide (b = b')) as [<-|].
        -- rewrite lookup_insert in Hl. injection Hl as <-.
           destruct (decide (k = k')) as [<-|].
           ++ rewrite decide_True by done. by rewrite lookup_insert.
           ++ rewrite decide_False by tauto. rewrite lookup_insert_ne by done. by apply Hget.
        -- rewrite decide_False by tauto. rewrite lookup_insert_ne in Hl by done. by apply Hget.
    + rewrite (Hnone _ Hc). done.
  - (* Del *)
    destruct (cur s !! b) as [mb|] eqn:Hc.
    + rewrite (Hsome _ _ Hc).
      destruct (mem_delete_spec m b k (Hsome _ _ Hc) Hdj Hpr) as (m' & -> & Hb' & Hd' & Hp' & Hh' & Hg').
      cbn. split; [done|]. split; cbn; try done.
      * congruence.
      * intros b'. rewrite Hh', Hhas. destruct (decide (b = b')) as [<-|].
        -- rewrite lookup_insert, Hc. split; eauto.
        -- by rewrite lookup_insert_ne.
      * intros b' mb' Hl k'. rewrite Hg'. destruct (decide (b = b')) as [<-|].
        -- rewrite lookup_insert in Hl. injection Hl as <-.
           destruct (decide (k = k')) as [<-|].
           ++ rewrite decide_True by done. by rewrite lookup_delete.
           ++ rewrite decide_False by tauto. rewrite lookup_delete_ne by done. by apply Hget.
        -- rewrite decide_False by tauto. rewrite lookup_insert_ne in Hl by done. by apply Hget.
    + rewrite (Hnone _ Hc). done.
  - (* Get *)
    destruct (cur s !! b) as [mb|] eqn:Hc.
    + rewrite (Hsome _ _ Hc). cbn. split; [|done]. f_equal. by apply Hget.
    + rewrite (Hnone _ Hc). done.
  - (* Iter *)
    destruct (cur s !! b) as [mb|] eqn:Hc.
    + rewrite (Hsome _ _ Hc). cbn. split; [|done]. f_equal.
      apply map_eq; intros k. rewrite mem_iter_lookup. by apply Hget.
    + rewrite (Hnone _ Hc). done.
  - (* Has *)
    split; [|done]. f_equal. apply eq_true_iff_eq. rewrite Hhas, bool_decide_eq_true. done.
  - (* Flush *)
    split; [done|]. pose proof (R_view _ _ HR) as Hv. cbn in Hv.
    split; cbn.
    + done.
    + intros b. rewrite mem_has_true; cbn. rewrite !lookup_empty, <- Hv.
      split; [intros [?|[[? ?]|[? ?]]]; done|]. eauto.
    + intros b mb Hl k. unfold mem_get, sub, subd; cbn. rewrite !lookup_empty; cbn.
      rewrite lookup_empty. rewrite bool_decide_eq_false_2 by set_solver.
      rewrite <- Hv, Hl. done.
    + intros b k; cbn. unfold sub. rewrite lookup_empty; cbn. rewrite lookup_empty. by intros [? ?].
    + intros b; cbn. rewrite !lookup_empty. intros [[? ?]|[? ?]]; done.
  - (* Cancel *)
    split; [done|]. split; cbn.
    + done.
    + intros b. rewrite mem_has_true; cbn. rewrite !lookup_empty, Hcom.
      split; [intros [?|[[? ?]|[? ?]]]; done|]. eauto.
    + intros b mb Hl k. unfold mem_get, sub, subd; cbn. rewrite !lookup_empty; cbn.
      rewrite lookup_empty. rewrite bool_decide_eq_false_2 by set_solver.
      rewrite <- Hcom, Hl. done.
    + intros b k; cbn. unfold sub. rewrite lookup_empty; cbn. rewrite lookup_empty. by intros [? ?].
    + intros b; cbn. rewrite !lookup_empty. intros [[? ?]|[? ?]]; done.
Qed.

(** ** Refinement for every operation sequence *)
Lemma R_run m s ops : R m s → run_ops mem_step m ops = run_ops sp_step s ops.
Proof.
  revert m s. induction ops as [|o ops IH]; intros m s HR; [done|]. cbn.
  destruct (R_step m s o HR) as [Hr HR'].
  destruct (mem_step m o) as [m' r], (sp_step s o) as [s' r']. cbn in *. subst r'.
  f_equal. by apply IH.
Qed.

Lemma R_final m s ops : R m s → R (final mem_step m ops) (final sp_step s ops).
Proof.
  revert m s. induction ops as [|o ops IH]; intros m s HR; [done|]. cbn.
  apply IH. by apply R_step.
Qed.

Theorem memdb_refines_spec ops : run_ops mem_step mem_init ops = run_ops sp_step sp_init ops.
Proof. apply R_run, R_init. Qed.

(** ** What the specification itself promises (the property, stated on [sp]) *)

(** a read returns the latest write or delete of the session, flushed or not *)
Lemma sp_read_your_write s b k v mb :
  cur s !! b = Some mb →
  snd (sp_step (fst (sp_step s (Put b k v))) (Get b k)) = MVal (Some v).
Proof. intros H. cbn. rewrite H. cbn. rewrite lookup_insert. cbn. by rewrite lookup_insert. Qed.

Lemma sp_read_your_delete s b k mb :
  cur s !! b = Some mb →
  snd (sp_step (fst (sp_step s (Del b k))) (Get b k)) = MVal None.
Proof. intros H. cbn. rewrite H. cbn. rewrite lookup_insert. cbn. by rewrite lookup_delete. Qed.

(** flush makes the session durable; cancel discards exactly the unflushed window *)
Lemma sp_flush_durable s : com (fst (sp_step s Flush)) = cur s ∧ cur (fst (sp_step s Flush)) = cur s.
Proof. done. Qed.
Lemma sp_cancel_exact s : cur (fst (sp_step s Cancel)) = com s ∧ com (fst (sp_step s Cancel)) = com s.
Proof. done. Qed.

(** only Flush changes the committed image *)
Lemma sp_com_stable s o : o ≠ Flush → com (fst (sp_step s o)) = com s.
Proof.
  destruct o as [b|b k v|b k|b k|b|b| |]; intros Ho; cbn; try done;
    destruct (cur s !! _); done.
Qed.
