"""Per-property configuration of bin/check: trusted base, assumptions, notes."""

# axioms a Props file may depend on (standard-library axioms only; each named in DESIGN.md section 7)
ALLOWED_AXIOMS = []

TRUSTED_COMMON = [
    "Coq 8.16.1 kernel and its vm_compute machine (no native_compute)",
    "hand-written Gallina model: tied to /repo only by the correspondence check on the generated cases",
    "the Go harness (generators, projection of real objects onto model terms, monitors, reference oracles)",
    "go.sia.tech/core v0.21.7 (consensus rules, Merkle accumulator, RHP4 arithmetic, crypto) is an oracle, not the subject",
]

NOT_YET = {}

PROPS = {
    "C17": {
        "technique": "Coq refinement proof (simulation relation, induction over operation lists) + differential correspondence of the model against the four real backends",
        "level_text": "Machine-checked refinement: for every operation sequence the MemDB model returns exactly the results of the two-map specification (theorem C17_memdb_refines_spec, unbounded), plus the read-your-writes / durability / cancel laws of the specification. The models of MemDB, CacheDB(MemDB), CacheDB(Bolt) and the specification (=Bolt) are validated against the real backends on exhaustive short and random long sequences evaluated inside Coq; an independent reference-map monitor supplies the replay.",
        "level_note": "Trusted: Coq kernel + vm_compute; the hand transcription of chain/db.go (tied by the correspondence run only on generated sequences over a 2x2x2 alphabet); bbolt; the CacheDB refinement is validated by correspondence and monitor, its proof covers MemDB.",
        "trusted": ["bbolt as a transactional key-value store (BoltChainDB is the specification by definition and is compared by the harness)"],
        "assumptions": ["values are non-empty byte strings (nil vs empty is backend specific; the chain store never writes empty values)",
                        "bucket handles are re-fetched by name for every operation (a bbolt handle dies with its transaction)",
                        "iteration order is not an observable (Go map order); iteration is compared as a duplicate-free set of pairs"],
        "explanation": "refinement theorems over all operation sequences for MemDB and CacheDB(spec backend) models; the models are validated against the four real backends on exhaustive short and random long sequences",
    },
}
