"""Per-property configuration of bin/check: one JSON file per property under /verif/checks/
(keys: technique, level_text, level_note, trusted, assumptions, explanation,
optional timeout_quick / timeout_thorough in seconds)."""
import glob, json, os

ROOT = os.path.dirname(os.path.dirname(os.path.abspath(__file__)))

# axioms a Props file may depend on (standard-library axioms only; each named in DESIGN.md section 7)
ALLOWED_AXIOMS = []

TRUSTED_COMMON = [
    "Coq 8.16.1 kernel and its vm_compute machine (no native_compute)",
    "hand-written Gallina model: tied to /repo only by the correspondence check on the generated cases",
    "the Go harness (generators, projection of real objects onto model terms, monitors, reference oracles)",
    "go.sia.tech/core v0.21.7 (consensus rules, Merkle accumulator, RHP4 arithmetic, crypto) is an oracle, not the subject",
]

# reasons for properties that have no check (yet)
NOT_YET = {}

PROPS = {}
for f in sorted(glob.glob(os.path.join(ROOT, "checks", "C*.json"))):
    PROPS[os.path.basename(f)[:-5]] = json.load(open(f))
