package wallet_test

// C07, illegal and extreme arguments (generalisation pass, class 4). Copy into
// /repo/wallet/ and run `go test -vet=off -count=1 -run TestC07Extreme ./wallet/`.
// On /repo HEAD 03fa3e3 the three tests fail; with /verif/fixes/C07-5..7.patch they pass.

import (
	"errors"
	"testing"

	"go.sia.tech/core/types"
	"go.sia.tech/coreutils/chain"
	"go.sia.tech/coreutils/testutil"
	"go.sia.tech/coreutils/wallet"
)

func c07Wallet(t *testing.T, opts ...wallet.Option) (*chain.Manager, *wallet.SingleAddressWallet) {
	t.Helper()
	pk := types.GeneratePrivateKey()
	ws := testutil.NewEphemeralWalletStore()
	network, genesis := testutil.V2Network()
	cs, gs, err := chain.NewDBStore(chain.NewMemDB(), network, genesis, nil)
	if err != nil {
		t.Fatal(err)
	}
	cm := chain.NewManager(cs, gs)
	w, err := wallet.NewSingleAddressWallet(pk, cm, ws, &testutil.MockSyncer{}, opts...)
	if err != nil {
		t.Fatal(err)
	}
	t.Cleanup(func() { w.Close() })
	mineAndSync(t, cm, ws, w, w.Address(), 3)
	mineAndSync(t, cm, ws, w, types.VoidAddress, network.MaturityDelay)
	return cm, w
}

// Redistribute(outputs, 0, fee) returns transactions whose outputs have the value
// zero; no pool accepts them, and their inputs stay reserved.
func TestC07ExtremeRedistributeZeroAmount(t *testing.T) {
	cm, w := c07Wallet(t)
	basis, txns, toSign, err := w.Redistribute(12, types.ZeroCurrency, types.ZeroCurrency)
	if err != nil {
		return // refused: fine
	}
	for i := range txns {
		w.SignV2Inputs(&txns[i], toSign[i])
		if _, err := cm.AddV2PoolTransactions(basis, []types.V2Transaction{txns[i]}); err != nil {
			t.Fatalf("Redistribute accepted a zero amount and returned a transaction the pool rejects: %v", err)
		}
	}
}

// An amount or a fee rate whose product with the number of outputs / the
// transaction weight exceeds 2^128 must be refused, not panic.
func TestC07ExtremeRedistributeOverflow(t *testing.T) {
	_, w := c07Wallet(t)
	max := types.NewCurrency(^uint64(0), ^uint64(0))
	for _, tc := range []struct {
		name        string
		amount, fee types.Currency
	}{{"amount", max, types.ZeroCurrency}, {"half amount", max.Div64(2), types.NewCurrency64(1)}, {"fee rate", types.Siacoins(1), max}} {
		func() {
			defer func() {
				if r := recover(); r != nil {
					t.Errorf("%s: Redistribute panicked: %v", tc.name, r)
				}
			}()
			_, txns, _, err := w.Redistribute(3, tc.amount, tc.fee)
			if err == nil {
				t.Errorf("%s: expected an error, got %d transactions", tc.name, len(txns))
			} else if !errors.Is(err, wallet.ErrNotEnoughFunds) {
				t.Errorf("%s: expected ErrNotEnoughFunds, got %v", tc.name, err)
			}
		}()
	}
	// nothing was reserved by the refused requests
	bal, _ := w.Balance()
	var txn types.V2Transaction
	if _, _, err := w.FundV2Transaction(&txn, bal.Confirmed, false); err != nil {
		t.Fatalf("the whole balance should still be fundable: %v", err)
	}
}

// A negative MaxDefragUTXOs makes every funding call that reaches the defrag
// step panic with a slice bound error; the option must refuse it like the
// duration options refuse non-positive values.
func TestC07ExtremeNegativeMaxDefragUTXOs(t *testing.T) {
	refused := false
	func() {
		defer func() { refused = recover() != nil }()
		wallet.WithMaxDefragUTXOs(-1)
	}()
	if refused {
		return
	}
	_, w := c07Wallet(t, wallet.WithMaxDefragUTXOs(-1), wallet.WithDefragThreshold(0))
	defer func() {
		if r := recover(); r != nil {
			t.Fatalf("FundV2Transaction panicked with MaxDefragUTXOs = -1: %v", r)
		}
	}()
	var txn types.V2Transaction
	if _, _, err := w.FundV2Transaction(&txn, types.Siacoins(1), false); err != nil {
		t.Fatal(err)
	}
}
