package coreutils_test

// Plain Go reproduction (copy to /repo/bolt_iter_delete_test.go and run
// `go test -run TestIterDeleteEveryBackend .`): deleting the key an iteration has just
// yielded - the pattern chain/migrate.go uses (`for id := range bucket.Iter() {
// bucket.delete(id) }`) - visits every key on MemDB and on both CacheDB stacks, but on the
// bare BoltChainDB it visits only every other key when the keys were written in the
// still-open transaction (they live in a materialised bbolt node; Bucket.Delete shifts the
// node's entries under the iterating cursor, whose Next() then skips one). Over keys that
// were flushed before (what migrate.go meets in practice) all backends agree.

import (
	"fmt"
	"path/filepath"
	"testing"

	"go.etcd.io/bbolt"
	coreutils "go.sia.tech/coreutils"
	"go.sia.tech/coreutils/chain"
)

func TestIterDeleteEveryBackend(t *testing.T) {
	open := map[string]func(t *testing.T) chain.DB{
		"MemDB":          func(t *testing.T) chain.DB { return chain.NewMemDB() },
		"CacheDB(MemDB)": func(t *testing.T) chain.DB { return chain.NewCacheDB(chain.NewMemDB()) },
		"BoltChainDB":    func(t *testing.T) chain.DB { return boltDB(t) },
		"CacheDB(Bolt)":  func(t *testing.T) chain.DB { return chain.NewCacheDB(boltDB(t)) },
	}
	for name, mk := range open {
		for _, flushed := range []bool{true, false} {
			t.Run(fmt.Sprintf("%s/flushed=%v", name, flushed), func(t *testing.T) {
				db := mk(t)
				defer db.Cancel()
				if _, err := db.CreateBucket([]byte("B")); err != nil {
					t.Fatal(err)
				}
				const n = 10
				for i := 0; i < n; i++ {
					db.Bucket([]byte("B")).Put([]byte{byte(i)}, []byte("v"))
				}
				if flushed {
					db.Flush()
				}
				visited := 0
				for k := range db.Bucket([]byte("B")).Iter() {
					visited++
					db.Bucket([]byte("B")).Delete(append([]byte(nil), k...))
				}
				left := 0
				for range db.Bucket([]byte("B")).Iter() {
					left++
				}
				if visited != n || left != 0 {
					t.Errorf("visited %d of %d keys, %d left after the loop", visited, n, left)
				}
			})
		}
	}
}

func boltDB(t *testing.T) chain.DB {
	bdb, err := bbolt.Open(filepath.Join(t.TempDir(), "db"), 0o600, nil)
	if err != nil {
		t.Fatal(err)
	}
	db := coreutils.NewBoltChainDB(bdb)
	t.Cleanup(func() { db.Cancel(); bdb.Close() })
	return db
}
