package rhp_test

// Reproduction for C08 (found by the generalisation pass, dimension "a block arrives
// between the two phases of an RPC"); copy into rhp/v4/ and run
//   go test -vet=off -count=1 -run TestC08BlockBetweenPhases ./rhp/v4/
//
// A renter starts RPCReplenishAccounts one block before the proof height of its
// contract, reads the host's deposit list and then simply waits (it may wait up to
// the RPC timeout, 10 minutes by default, i.e. about a block) until the chain tip
// has reached the proof height.  Only then does it send its signature.  The host
// evaluated "revisable" when it locked the contract and does not look at the chain
// again: it signs and persists the revision and credits the account, although
// consensus accepts no revision of this contract any more (the proof window is
// open).  The host's latest revision can never be confirmed, the account credit is
// not backed by anything the host can put on chain.

import (
	"context"
	"testing"

	"go.sia.tech/core/consensus"
	proto4 "go.sia.tech/core/rhp/v4"
	"go.sia.tech/core/types"
	rhp4 "go.sia.tech/coreutils/rhp/v4"
	"go.sia.tech/coreutils/testutil"
	"go.uber.org/zap"
	"lukechampine.com/frand"
)

func TestC08BlockBetweenPhases(t *testing.T) {
	n, genesis := testutil.V2Network()
	hostKey, renterKey := types.GeneratePrivateKey(), types.GeneratePrivateKey()
	cm, w := startTestNode(t, n, genesis)
	mineAndSync(t, cm, w.Address(), int(n.MaturityDelay+20), w)

	sr := testutil.NewEphemeralSettingsReporter()
	sr.Update(proto4.HostSettings{
		Release:             "test",
		AcceptingContracts:  true,
		WalletAddress:       w.Address(),
		MaxCollateral:       types.Siacoins(10000),
		MaxContractDuration: 1000,
		RemainingStorage:    100 * proto4.SectorSize,
		TotalStorage:        100 * proto4.SectorSize,
		Prices: proto4.HostPrices{
			ContractPrice: types.Siacoins(1).Div64(5),
			StoragePrice:  types.NewCurrency64(100),
			IngressPrice:  types.NewCurrency64(100),
			EgressPrice:   types.NewCurrency64(100),
			Collateral:    types.NewCurrency64(200),
		},
	})
	ss := testutil.NewEphemeralSectorStore()
	c := testutil.NewEphemeralContractor(cm)
	transport := testRenterHostPairSiaMux(t, hostKey, cm, w, c, sr, ss, zap.NewNop())

	settings, err := rhp4.RPCSettings(context.Background(), transport)
	if err != nil {
		t.Fatal(err)
	}
	fundAndSign := &fundAndSign{w, renterKey}
	formResult, err := rhp4.RPCFormContract(context.Background(), transport, cm, fundAndSign, cm.TipState(), settings.Prices, hostKey.PublicKey(), settings.WalletAddress, proto4.RPCFormContractParams{
		RenterPublicKey: renterKey.PublicKey(),
		RenterAddress:   w.Address(),
		Allowance:       types.Siacoins(100),
		Collateral:      types.Siacoins(200),
		ProofHeight:     cm.Tip().Height + 30,
	})
	if err != nil {
		t.Fatal(err)
	}
	contract := formResult.Contract

	// confirm the contract and go to one block below its proof height
	mineAndSync(t, cm, types.VoidAddress, int(contract.Revision.ProofHeight-cm.Tip().Height)-1, w, c)
	if cm.Tip().Height != contract.Revision.ProofHeight-1 {
		t.Fatalf("tip %d, proof height %d", cm.Tip().Height, contract.Revision.ProofHeight)
	}
	cs := cm.TipState()

	// first phase: request, the host's deposit list
	account := proto4.Account(frand.Entropy256())
	target := types.Siacoins(10)
	req := proto4.RPCReplenishAccountsRequest{Accounts: []proto4.Account{account}, Target: target, ContractID: contract.ID}
	req.ChallengeSignature = renterKey.SignHash(req.ChallengeSigHash(contract.Revision.RevisionNumber))
	stream, err := transport.DialStream(context.Background())
	if err != nil {
		t.Fatal(err)
	}
	defer stream.Close()
	if err := proto4.WriteRequest(stream, proto4.RPCReplenishAccountsID, &req); err != nil {
		t.Fatal(err)
	}
	var costResp proto4.RPCReplenishAccountsResponse
	if err := proto4.ReadResponse(stream, &costResp); err != nil {
		t.Fatal(err)
	}

	// the renter waits for the next block: the tip is now at the proof height
	mineAndSync(t, cm, types.VoidAddress, 1, w, c)

	// second phase: the renter's signature
	revised, _, err := proto4.ReviseForReplenish(contract.Revision, costResp.TotalCost())
	if err != nil {
		t.Fatal(err)
	}
	revised.RenterSignature = renterKey.SignHash(cs.ContractSigHash(revised))
	if err := proto4.WriteResponse(stream, &proto4.RPCReplenishAccountsSecondResponse{RenterSignature: revised.RenterSignature}); err != nil {
		t.Fatal(err)
	}
	var hostSig proto4.RPCReplenishAccountsThirdResponse
	replenishErr := proto4.ReadResponse(stream, &hostSig)

	latest, err := rhp4.RPCLatestRevision(context.Background(), transport, contract.ID)
	if err != nil {
		t.Fatal(err)
	}
	balance, err := rhp4.RPCAccountBalance(context.Background(), transport, account)
	if err != nil {
		t.Fatal(err)
	}
	t.Logf("replenish at tip %d (proof height %d): err=%v; latest revision %d, account balance %v", cm.Tip().Height, contract.Revision.ProofHeight, replenishErr, latest.Contract.RevisionNumber, balance)
	if latest.Contract.RevisionNumber == contract.Revision.RevisionNumber {
		if !balance.IsZero() {
			t.Fatalf("the revision was refused but the account was credited %v", balance)
		}
		return // refused: nothing changed
	}

	// the host holds a new latest revision: consensus must accept it on top of the on-chain contract
	_, fce, err := c.V2FileContractElement(contract.ID)
	if err != nil {
		t.Fatal(err)
	}
	txn := types.V2Transaction{FileContractRevisions: []types.V2FileContractRevision{{Parent: fce, Revision: latest.Contract}}}
	if err := consensus.ValidateV2Transaction(consensus.NewMidState(cm.TipState()), txn); err != nil {
		t.Fatalf("the host persisted revision %d and credited %v, but its latest revision is not acceptable to consensus: %v", latest.Contract.RevisionNumber, balance, err)
	}
}
