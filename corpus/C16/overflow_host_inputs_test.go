package rhp_test

// C16 corpus: a host that answers a form / renew / refresh request with inputs whose
// values overflow the currency type.  The renter function sums them with Currency.Add,
// which panics on overflow: the call does not fail, it takes the caller down, and the
// outputs it reserved are never released.  (Drop this file into rhp/v4/ to run it:
// go test -vet=off -count=1 -run TestC16HostInputsOverflow ./rhp/v4/ ; it uses the helpers
// of rpc_test.go.)

import (
	"context"
	"net"
	"testing"
	"time"

	proto4 "go.sia.tech/core/rhp/v4"
	"go.sia.tech/core/types"
	rhp4 "go.sia.tech/coreutils/rhp/v4"
	"go.sia.tech/coreutils/testutil"
)

// overflowHost is a TransportClient whose peer answers the first response of a
// formation with two inputs of the maximum value each.
type overflowHost struct {
	hostKey types.PublicKey
}

func (h *overflowHost) FrameSize() int           { return 4296 }
func (h *overflowHost) PeerKey() types.PublicKey { return h.hostKey }
func (h *overflowHost) Close() error             { return nil }
func (h *overflowHost) DialStream(context.Context) (net.Conn, error) {
	c1, c2 := net.Pipe()
	go func() {
		defer c2.Close()
		if _, err := proto4.ReadID(c2); err != nil {
			return
		}
		var req proto4.RPCFormContractRequest
		if err := proto4.ReadRequest(c2, &req); err != nil {
			return
		}
		in := func(b byte) types.V2SiacoinInput {
			return types.V2SiacoinInput{Parent: types.SiacoinElement{
				ID:            types.SiacoinOutputID{b},
				SiacoinOutput: types.SiacoinOutput{Value: types.MaxCurrency},
			}, SatisfiedPolicy: types.SatisfiedPolicy{Policy: types.PolicyPublicKey(h.hostKey)}}
		}
		proto4.WriteResponse(c2, &proto4.RPCFormContractResponse{HostInputs: []types.V2SiacoinInput{in(1), in(2)}})
		// wait for the renter to hang up
		c2.SetReadDeadline(time.Now().Add(5 * time.Second))
		c2.Read(make([]byte, 1))
	}()
	return c1, nil
}

func TestC16HostInputsOverflow(t *testing.T) {
	n, genesis := testutil.V2Network()
	hostKey, renterKey := types.GeneratePrivateKey(), types.GeneratePrivateKey()
	cm, w := startTestNode(t, n, genesis)
	mineAndSync(t, cm, w.Address(), int(n.MaturityDelay+10), w)

	before, err := w.SpendableOutputs()
	if err != nil {
		t.Fatal(err)
	}
	prices := proto4.HostPrices{
		ContractPrice: types.Siacoins(1).Div64(5),
		StoragePrice:  types.NewCurrency64(100),
		Collateral:    types.NewCurrency64(200),
		TipHeight:     cm.Tip().Height,
		ValidUntil:    time.Now().Add(time.Minute),
	}
	fs := &fundAndSign{w, renterKey}

	var callErr error
	panicked := func() (p any) {
		defer func() { p = recover() }()
		_, callErr = rhp4.RPCFormContract(context.Background(), &overflowHost{hostKey.PublicKey()}, cm, fs, cm.TipState(), prices, hostKey.PublicKey(), types.VoidAddress, proto4.RPCFormContractParams{
			RenterPublicKey: renterKey.PublicKey(),
			RenterAddress:   w.Address(),
			Allowance:       types.Siacoins(100),
			Collateral:      types.Siacoins(200),
			ProofHeight:     cm.Tip().Height + 50,
		})
		return nil
	}()
	after, err := w.SpendableOutputs()
	if err != nil {
		t.Fatal(err)
	}
	if panicked != nil {
		t.Errorf("RPCFormContract panicked (%v) instead of failing; spendable outputs %d -> %d", panicked, len(before), len(after))
	} else if callErr == nil {
		t.Error("RPCFormContract accepted host inputs whose sum overflows")
	}
	if len(after) != len(before) {
		t.Errorf("the failed formation left renter outputs reserved: %d spendable before, %d after", len(before), len(after))
	}
}
