package wallet_test

// Side finding of the C06 generalisation pass (class 4, extreme arguments of a read API),
// outside the property's wording: EphemeralWalletStore.WalletEvents computes
// end := offset+limit, which overflows for offset >= 1 and limit = math.MaxInt; the negative
// end passes the "end > n" clamp and events[start:end] panics with "slice bounds out of range".
// Copy into /repo/wallet/ and run: go test -run TestEventsHugeLimit ./wallet/

import (
	"math"
	"testing"

	"go.sia.tech/core/types"
	"go.sia.tech/coreutils/chain"
	"go.sia.tech/coreutils/testutil"
	"go.sia.tech/coreutils/wallet"
)

func TestEventsHugeLimit(t *testing.T) {
	pk := types.GeneratePrivateKey()
	addr := types.StandardUnlockHash(pk.PublicKey())
	network, genesis := testutil.Network()
	genesis.Transactions[0].SiacoinOutputs[0].Address = addr // one event in the genesis block
	cs, tipState, err := chain.NewDBStore(chain.NewMemDB(), network, genesis, nil)
	if err != nil {
		t.Fatal(err)
	}
	cm := chain.NewManager(cs, tipState)
	ws := testutil.NewEphemeralWalletStore()
	w, err := wallet.NewSingleAddressWallet(pk, cm, ws, nil)
	if err != nil {
		t.Fatal(err)
	}
	defer w.Close()
	rus, aus, err := cm.UpdatesSince(types.ChainIndex{}, 1000)
	if err != nil {
		t.Fatal(err)
	}
	if err := ws.UpdateChainState(func(tx wallet.UpdateTx) error { return w.UpdateChainState(tx, rus, aus) }); err != nil {
		t.Fatal(err)
	}
	all, err := w.Events(0, math.MaxInt)
	if err != nil || len(all) != 1 {
		t.Fatalf("expected the genesis event, got %d events, err %v", len(all), err)
	}
	rest, err := w.Events(1, math.MaxInt) // everything after the first event: nothing
	if err != nil || len(rest) != 0 {
		t.Fatalf("expected no further events, got %d, err %v", len(rest), err)
	}
}
