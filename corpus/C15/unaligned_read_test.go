package rhp_test

// Reproduction for C15 (goes into rhp/v4 of the repository, package rhp_test; it uses the helpers
// of rpc_test.go). A read request whose offset is not segment aligned but whose end is
// (offset 32, length 32) passes RPCReadSectorRequest.Validate, so the host debits the account
// and only then fails in Sectors.ReadSector: the renter pays for a read that is not carried out.

import (
	"bytes"
	"context"
	"testing"
	"time"

	proto4 "go.sia.tech/core/rhp/v4"
	"go.sia.tech/core/types"
	rhp4 "go.sia.tech/coreutils/rhp/v4"
	"go.sia.tech/coreutils/testutil"
	"go.uber.org/zap/zaptest"
	"lukechampine.com/frand"
)

func TestC15UnalignedReadIsNotCharged(t *testing.T) {
	n, genesis := testutil.V2Network()
	hostKey, renterKey := types.GeneratePrivateKey(), types.GeneratePrivateKey()
	cm, w := startTestNode(t, n, genesis)
	mineAndSync(t, cm, w.Address(), int(n.MaturityDelay+20), w)

	sr := testutil.NewEphemeralSettingsReporter()
	sr.Update(proto4.HostSettings{
		Release: "test", AcceptingContracts: true, WalletAddress: w.Address(),
		MaxCollateral: types.Siacoins(10000), MaxContractDuration: 1000,
		RemainingStorage: 100 * proto4.SectorSize, TotalStorage: 100 * proto4.SectorSize,
		Prices: proto4.HostPrices{
			ContractPrice: types.Siacoins(1).Div64(5), StoragePrice: types.NewCurrency64(100),
			IngressPrice: types.NewCurrency64(100), EgressPrice: types.NewCurrency64(100), Collateral: types.NewCurrency64(200),
		},
	})
	ss := testutil.NewEphemeralSectorStore()
	c := testutil.NewEphemeralContractor(cm)
	transport := testRenterHostPairSiaMux(t, hostKey, cm, w, c, sr, ss, zaptest.NewLogger(t))
	settings, err := rhp4.RPCSettings(context.Background(), transport)
	if err != nil {
		t.Fatal(err)
	}
	fs := &fundAndSign{w, renterKey}
	form, err := rhp4.RPCFormContract(context.Background(), transport, cm, fs, cm.TipState(), settings.Prices, hostKey.PublicKey(), settings.WalletAddress, proto4.RPCFormContractParams{
		RenterPublicKey: renterKey.PublicKey(), RenterAddress: w.Address(),
		Allowance: types.Siacoins(100), Collateral: types.Siacoins(200), ProofHeight: cm.Tip().Height + 50,
	})
	if err != nil {
		t.Fatal(err)
	}
	mineAndSync(t, cm, types.VoidAddress, 1, w, c)

	accountKey := types.GeneratePrivateKey()
	account := proto4.Account(accountKey.PublicKey())
	if _, err := rhp4.RPCFundAccounts(context.Background(), transport, cm.TipState(), renterKey, form.Contract, []proto4.AccountDeposit{{Account: account, Amount: types.Siacoins(25)}}); err != nil {
		t.Fatal(err)
	}
	token := proto4.NewAccountToken(accountKey, hostKey.PublicKey())
	data := frand.Bytes(4096)
	wr, err := rhp4.RPCWriteSector(context.Background(), transport, settings.Prices, token, bytes.NewReader(data), uint64(len(data)))
	if err != nil {
		t.Fatal(err)
	}
	before, _ := c.AccountBalance(account)

	// offset 32, length 32: the end of the range is segment aligned, the start is not
	stream, err := transport.DialStream(context.Background())
	if err != nil {
		t.Fatal(err)
	}
	defer stream.Close()
	stream.SetDeadline(time.Now().Add(10 * time.Second))
	req := proto4.RPCReadSectorRequest{Prices: settings.Prices, Token: token, Root: wr.Root, Offset: 32, Length: 32}
	if err := req.Validate(hostKey.PublicKey()); err != nil {
		t.Fatalf("the request is expected to pass the protocol's validation: %v", err)
	}
	if err := proto4.WriteRequest(stream, proto4.RPCReadSectorID, &req); err != nil {
		t.Fatal(err)
	}
	var resp proto4.RPCReadSectorResponse
	rerr := proto4.ReadResponse(stream, &resp)
	after, _ := c.AccountBalance(account)
	if rerr == nil {
		t.Fatal("an unaligned read was served")
	}
	if !after.Equals(before) {
		t.Fatalf("the read failed (%v) but the account was charged: %v -> %v", rerr, before, after)
	}
}
