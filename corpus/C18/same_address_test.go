package syncer_test

// C18, generalisation pass (history dependence): a remote node restarts (new UniqueID, same
// advertised address) and reconnects while the syncer still has its old, dying connection
// registered.  The peer map is keyed by the advertised address.
//
// Put this file into /repo/syncer and run: go test -vet=off -count=1 -run TestC18SameAddress ./syncer

import (
	"net"
	"testing"
	"time"

	"go.sia.tech/core/gateway"
	"go.sia.tech/coreutils/chain"
	"go.sia.tech/coreutils/syncer"
	"go.sia.tech/coreutils/testutil"
)

func TestC18SameAddressReconnect(t *testing.T) {
	n, genesis := testutil.Network()
	store, ts, err := chain.NewDBStore(chain.NewMemDB(), n, genesis, nil)
	if err != nil {
		t.Fatal(err)
	}
	cm := chain.NewManager(store, ts)
	l, err := net.Listen("tcp", "127.0.0.1:0")
	if err != nil {
		t.Fatal(err)
	}
	defer l.Close()
	s := syncer.New(l, cm, testutil.NewEphemeralPeerStore(), gateway.Header{
		GenesisID: genesis.ID(), UniqueID: gateway.GenerateUniqueID(), NetAddress: l.Addr().String(),
	}, syncer.WithSyncInterval(time.Hour), syncer.WithPeerDiscoveryInterval(time.Hour), syncer.WithMaxInboundPeers(8))
	runDone := make(chan error, 1)
	go func() { runDone <- s.Run() }()

	dial := func() *gateway.Transport {
		conn, err := net.Dial("tcp", l.Addr().String())
		if err != nil {
			t.Fatal(err)
		}
		tr, err := gateway.Dial(conn, gateway.Header{GenesisID: genesis.ID(), UniqueID: gateway.GenerateUniqueID(), NetAddress: "127.0.0.1:7777"})
		if err != nil {
			t.Fatalf("handshake: %v", err)
		}
		go func() {
			for {
				st, err := tr.AcceptStream()
				if err != nil {
					return
				}
				st.Close()
			}
		}()
		return tr
	}
	waitPeers := func(n int) bool {
		for d := time.Now().Add(3 * time.Second); time.Now().Before(d); time.Sleep(2 * time.Millisecond) {
			if len(s.Peers()) == n {
				return true
			}
		}
		return false
	}

	served := func(tr *gateway.Transport) bool {
		st, err := tr.DialStream()
		if err != nil {
			return false
		}
		defer st.Close()
		rpc := &gateway.RPCDiscoverIP{}
		st.SetDeadline(time.Now().Add(3 * time.Second))
		if err := st.WriteID(rpc); err != nil {
			return false
		}
		return st.ReadResponse(rpc) == nil
	}

	old := dial() // the node before its restart
	if !waitPeers(1) {
		t.Fatal("first connection not registered")
	}
	// the node restarts and reconnects (new UniqueID, same advertised address) before the syncer
	// has noticed that the old connection is gone
	fresh := dial()
	time.Sleep(50 * time.Millisecond)
	t.Logf("second connection from the same advertised address: served=%v, Peers() lists %d", served(fresh), len(s.Peers()))
	// now the old connection dies
	old.Close()
	time.Sleep(200 * time.Millisecond)
	if !served(fresh) {
		// the syncer refused the second connection while the first was registered: the node retries
		fresh = dial()
		time.Sleep(50 * time.Millisecond)
	}
	if !served(fresh) {
		t.Fatal("the restarted node cannot connect even after its old connection is gone")
	}
	// a connection that is being served has to be accounted for
	if got := len(s.Peers()); got != 1 {
		t.Errorf("one live inbound connection is being served but Peers() lists %d peers (it does not count against MaxInboundPeers and Run's shutdown does not close it)", got)
	}
	// and Close must not depend on the remote going away
	closed := make(chan error, 1)
	go func() { closed <- s.Close() }()
	select {
	case <-closed:
	case <-time.After(5 * time.Second):
		t.Errorf("Close did not return within 5s: the connection that is missing from the peer map is never closed by Run, its goroutine holds the thread group")
		fresh.Close()
		<-closed
	}
	select {
	case <-runDone:
	case <-time.After(5 * time.Second):
		t.Errorf("Run did not return")
	}
}
