package storeobs

import (
	"bytes"
	"crypto/sha256"
	"encoding/binary"
	"encoding/hex"
	"fmt"
	"math/bits"
	"sort"
	"strings"

	"go.sia.tech/core/consensus"
	"go.sia.tech/core/types"
	"go.sia.tech/coreutils/chain"
)

// The bucket names of chain/db.go (private there; the harness owns the DB it
// hands to NewDBStore and reads it through the public chain.DB interface).
var (
	BucketMainChain = []byte("MainChain")
	BucketSC        = []byte("SiacoinElements")
	BucketSF        = []byte("SiafundElements")
	BucketFC        = []byte("FileContracts")
	BucketTree      = []byte("Tree")
	BucketStates    = []byte("States")
	BucketBlocks    = []byte("Blocks")
	AllBuckets      = [][]byte{[]byte("Version"), []byte("Network"), BucketMainChain, BucketStates, BucketBlocks, BucketFC, BucketSC, BucketSF, BucketTree}
)

// A View is everything a store serves about its best chain, in canonical form.
type View struct {
	Height      uint64
	HasHeight   bool
	MainRaw     map[uint64]types.BlockID // the MainChain bucket
	Best        []string                 // BestIndex(h) for h = 0..MaxH
	Blocks      []string                 // per BestIndex: digest of block / digest of supplement
	States      []string                 // per BestIndex: digest of the stored state
	TipState    []byte
	NumLeaves   uint64                      // size of the element accumulator at the tip
	Tree        map[[2]uint64]types.Hash256 // the Tree bucket: (row, col) -> hash
	TreeCurrent bool                        // the store still maintains the Tree bucket at this height (<= require height)
	SC, SF      map[types.Hash256][]byte
	FC          map[types.Hash256][]byte
	FCWE        map[types.Hash256]uint64
	Exp         map[uint64][]types.Hash256 // expiration lists of the bucket (non-empty ones)
	ExpServed   map[uint64][]types.Hash256 // ExpiringFileContractIDs(h)
	SuppTxn     consensus.V1TransactionSupplement
	SuppBlock   consensus.V1BlockSupplement
	// answers to out-of-range, empty and duplicated arguments (digests), see extremeProbes
	Extreme []string
	Panic   string
}

func digest(b []byte) string {
	h := sha256.Sum256(b)
	return hex.EncodeToString(h[:10])
}

func iterBucket(db chain.DB, name []byte, fn func(k, v []byte)) {
	b := db.Bucket(name)
	if b == nil {
		return
	}
	for k, v := range b.Iter() {
		fn(append([]byte(nil), k...), append([]byte(nil), v...))
	}
}

func sortedIDs[V any](m map[types.Hash256]V) []types.Hash256 {
	ids := make([]types.Hash256, 0, len(m))
	for id := range m {
		ids = append(ids, id)
	}
	sort.Slice(ids, func(i, j int) bool { return bytes.Compare(ids[i][:], ids[j][:]) < 0 })
	return ids
}

// ProbeTxn is a v1 transaction naming the given elements as siacoin inputs,
// siafund inputs, revised contracts and proved contracts, plus one unknown id each.
func ProbeTxn(sc, sf, fc []types.Hash256) types.Transaction {
	var txn types.Transaction
	unknown := types.Hash256{0xEE, 0xEE, 1}
	for _, id := range append(append([]types.Hash256(nil), sc...), unknown) {
		txn.SiacoinInputs = append(txn.SiacoinInputs, types.SiacoinInput{ParentID: types.SiacoinOutputID(id)})
	}
	for _, id := range append(append([]types.Hash256(nil), sf...), unknown) {
		txn.SiafundInputs = append(txn.SiafundInputs, types.SiafundInput{ParentID: types.SiafundOutputID(id)})
	}
	for _, id := range append(append([]types.Hash256(nil), fc...), unknown) {
		txn.FileContractRevisions = append(txn.FileContractRevisions, types.FileContractRevision{ParentID: types.FileContractID(id)})
		txn.StorageProofs = append(txn.StorageProofs, types.StorageProof{ParentID: types.FileContractID(id)})
	}
	return txn
}

// TakeView dumps what the store serves. db is the database the store runs on,
// maxH the largest height of interest.
func TakeView(db chain.DB, st *chain.DBStore, maxH uint64) (v *View) {
	v = &View{Tree: map[[2]uint64]types.Hash256{}, MainRaw: map[uint64]types.BlockID{}, SC: map[types.Hash256][]byte{}, SF: map[types.Hash256][]byte{}, FC: map[types.Hash256][]byte{}, FCWE: map[types.Hash256]uint64{}, Exp: map[uint64][]types.Hash256{}, ExpServed: map[uint64][]types.Hash256{}}
	defer func() {
		if r := recover(); r != nil {
			v.Panic = fmt.Sprint(r)
		}
	}()
	iterBucket(db, BucketMainChain, func(k, val []byte) {
		if string(k) == "Height" {
			if len(val) == 8 {
				v.Height, v.HasHeight = binary.BigEndian.Uint64(val), true
			}
			return
		}
		if len(k) == 8 && len(val) == 32 {
			v.MainRaw[binary.BigEndian.Uint64(k)] = types.BlockID(val)
		}
	})
	iterBucket(db, BucketTree, func(k, val []byte) {
		if len(k) != 4 || len(val) != 32 {
			panic(fmt.Sprintf("Tree bucket entry with key %x and a %d-byte value", k, len(val)))
		}
		// treeKey (db.go:522-529): the top `row` bits are ones, then the column
		key := binary.BigEndian.Uint32(k)
		row := uint64(bits.LeadingZeros32(^key))
		col := uint64(key) & (1<<(32-row) - 1)
		v.Tree[[2]uint64{row, col}] = types.Hash256(val)
	})
	iterBucket(db, BucketSC, func(k, val []byte) { v.SC[types.Hash256(k)] = val })
	iterBucket(db, BucketSF, func(k, val []byte) { v.SF[types.Hash256(k)] = val })
	iterBucket(db, BucketFC, func(k, val []byte) {
		switch len(k) {
		case 32:
			v.FC[types.Hash256(k)] = val
			var fce types.FileContractElement
			d := types.NewBufDecoder(val)
			fce.DecodeFrom(d)
			if d.Err() != nil {
				panic(fmt.Sprintf("undecodable file contract element under %x: %v", k, d.Err()))
			}
			v.FCWE[types.Hash256(k)] = fce.FileContract.WindowEnd
		case 8:
			var ids []types.Hash256
			for i := 0; i+32 <= len(val); i += 32 {
				ids = append(ids, types.Hash256(val[i:i+32]))
			}
			if len(val)%32 != 0 {
				panic(fmt.Sprintf("expiration list under height %d has length %d", binary.BigEndian.Uint64(k), len(val)))
			}
			if len(ids) > 0 {
				v.Exp[binary.BigEndian.Uint64(k)] = ids
			}
		}
	})
	for h := uint64(0); h <= maxH; h++ {
		idx, ok := st.BestIndex(h)
		if !ok {
			v.Best = append(v.Best, "-")
			v.Blocks = append(v.Blocks, "-")
			v.States = append(v.States, "-")
		} else {
			v.Best = append(v.Best, idx.ID.String())
			b, bs, bok := st.Block(idx.ID)
			switch {
			case !bok:
				v.Blocks = append(v.Blocks, "no-body")
			case bs == nil:
				v.Blocks = append(v.Blocks, digest(Enc(types.V2Block(b)))+"/nil")
			default:
				v.Blocks = append(v.Blocks, digest(Enc(types.V2Block(b)))+"/"+digest(Enc(*bs)))
			}
			if cs, sok := st.State(idx.ID); sok {
				v.States = append(v.States, digest(Enc(cs)))
			} else {
				v.States = append(v.States, "no-state")
			}
		}
		if ids := st.ExpiringFileContractIDs(h); len(ids) > 0 {
			for _, id := range ids {
				v.ExpServed[h] = append(v.ExpServed[h], types.Hash256(id))
			}
		}
	}
	if tip, ok := st.BestIndex(v.Height); ok {
		if cs, ok := st.State(tip.ID); ok {
			v.TipState = Enc(cs)
			v.NumLeaves = cs.Elements.NumLeaves
			v.TreeCurrent = cs.Network != nil && v.Height <= cs.Network.HardforkV2.RequireHeight
		}
		v.SuppTxn = st.SupplementTipTransaction(ProbeTxn(sortedIDs(v.SC), sortedIDs(v.SF), sortedIDs(v.FC)))
		v.SuppBlock = st.SupplementTipBlock(types.Block{ParentID: tip.ID})
		v.Extreme = extremeProbes(st, v, tip.ID)
	}
	return v
}

// A Difference is one section in which two views differ.
type Difference struct {
	Section string
	Detail  string
	// for the expiration sections: every differing list is a permutation of its counterpart
	Permutation bool
}

func sameSet(a, b []types.Hash256) bool {
	if len(a) != len(b) {
		return false
	}
	x, y := append([]types.Hash256(nil), a...), append([]types.Hash256(nil), b...)
	less := func(s []types.Hash256) func(i, j int) bool {
		return func(i, j int) bool { return bytes.Compare(s[i][:], s[j][:]) < 0 }
	}
	sort.Slice(x, less(x))
	sort.Slice(y, less(y))
	for i := range x {
		if x[i] != y[i] {
			return false
		}
	}
	return true
}

func cmpBucket(name string, a, b map[types.Hash256][]byte) *Difference {
	for _, id := range sortedIDs(a) {
		w, ok := b[id]
		if !ok {
			return &Difference{Section: name, Detail: fmt.Sprintf("%v is stored but the twin does not have it", id)}
		}
		if !bytes.Equal(a[id], w) {
			return &Difference{Section: name, Detail: fmt.Sprintf("%v is stored as %x, the twin has %x", id, a[id], w)}
		}
	}
	for _, id := range sortedIDs(b) {
		if _, ok := a[id]; !ok {
			return &Difference{Section: name, Detail: fmt.Sprintf("%v is missing (the twin has it)", id)}
		}
	}
	return nil
}

func cmpLists(name string, a, b map[uint64][]types.Hash256) *Difference {
	hs := map[uint64]bool{}
	for h := range a {
		hs[h] = true
	}
	for h := range b {
		hs[h] = true
	}
	var keys []uint64
	for h := range hs {
		keys = append(keys, h)
	}
	sort.Slice(keys, func(i, j int) bool { return keys[i] < keys[j] })
	var d *Difference
	for _, h := range keys {
		x, y := a[h], b[h]
		eq := len(x) == len(y)
		for i := 0; eq && i < len(x); i++ {
			eq = x[i] == y[i]
		}
		if eq {
			continue
		}
		if d == nil {
			d = &Difference{Section: name, Permutation: true, Detail: fmt.Sprintf("height %d: %v, the twin has %v", h, short(x), short(y))}
		}
		if !sameSet(x, y) {
			d.Permutation = false
			d.Detail = fmt.Sprintf("height %d: %v, the twin has %v (not a permutation)", h, short(x), short(y))
			break
		}
	}
	return d
}

func short(ids []types.Hash256) string {
	s := make([]string, len(ids))
	for i, id := range ids {
		s[i] = hex.EncodeToString(id[:4])
	}
	return "[" + strings.Join(s, " ") + "]"
}

func cmpStrings(name string, a, b []string) *Difference {
	for i := 0; i < len(a) || i < len(b); i++ {
		x, y := "<none>", "<none>"
		if i < len(a) {
			x = a[i]
		}
		if i < len(b) {
			y = b[i]
		}
		if x != y {
			return &Difference{Section: name, Detail: fmt.Sprintf("height %d: %s, the twin has %s", i, x, y)}
		}
	}
	return nil
}

// Compare returns the sections in which the store's view differs from the
// twin's, in a fixed order (causes before consequences).
func Compare(a, b *View) (ds []Difference) {
	add := func(d *Difference) {
		if d != nil {
			ds = append(ds, *d)
		}
	}
	if a.Height != b.Height || a.HasHeight != b.HasHeight {
		add(&Difference{Section: "height", Detail: fmt.Sprintf("height %d, the twin has %d", a.Height, b.Height)})
	}
	add(cmpStrings("best-index", a.Best, b.Best))
	{
		var x, y []string
		var hs []uint64
		seen := map[uint64]bool{}
		for h := range a.MainRaw {
			if !seen[h] {
				seen[h] = true
				hs = append(hs, h)
			}
		}
		for h := range b.MainRaw {
			if !seen[h] {
				seen[h] = true
				hs = append(hs, h)
			}
		}
		sort.Slice(hs, func(i, j int) bool { return hs[i] < hs[j] })
		for _, h := range hs {
			p, pok := a.MainRaw[h]
			q, qok := b.MainRaw[h]
			x = append(x, fmt.Sprintf("%d:%v:%v", h, pok, p))
			y = append(y, fmt.Sprintf("%d:%v:%v", h, qok, q))
		}
		add(cmpStrings("main-chain-bucket", x, y))
	}
	add(cmpStrings("blocks-and-supplements", a.Blocks, b.Blocks))
	add(cmpStrings("states", a.States, b.States))
	if !bytes.Equal(a.TipState, b.TipState) {
		add(&Difference{Section: "tip-state", Detail: "the state stored for the tip differs from the twin's"})
	}
	{
		// the accumulator nodes whose leaves lie wholly inside the accumulator (stale nodes
		// above or to the right are allowed: revertElements never deletes)
		live := func(v *View) map[[2]uint64]types.Hash256 {
			m := map[[2]uint64]types.Hash256{}
			for k, h := range v.Tree {
				if (k[1]+1)<<k[0] <= v.NumLeaves {
					m[k] = h
				}
			}
			return m
		}
		x, y := live(a), live(b)
		if !a.TreeCurrent || !b.TreeCurrent {
			x, y = nil, nil
		}
		var keys [][2]uint64
		for k := range x {
			keys = append(keys, k)
		}
		for k := range y {
			if _, ok := x[k]; !ok {
				keys = append(keys, k)
			}
		}
		sort.Slice(keys, func(i, j int) bool {
			return keys[i][0] < keys[j][0] || keys[i][0] == keys[j][0] && keys[i][1] < keys[j][1]
		})
		for _, k := range keys {
			p, pok := x[k]
			q, qok := y[k]
			if pok != qok || p != q {
				add(&Difference{Section: "tree-live-nodes", Detail: fmt.Sprintf("accumulator node (row %d, col %d), live at %d leaves: stored %v (%v), the twin has %v (%v)", k[0], k[1], a.NumLeaves, pok, p, qok, q)})
				break
			}
		}
	}
	add(cmpBucket("siacoin-elements", a.SC, b.SC))
	add(cmpBucket("siafund-elements", a.SF, b.SF))
	add(cmpBucket("file-contracts", a.FC, b.FC))
	add(cmpLists("expiration-lists", a.Exp, b.Exp))
	add(cmpLists("expiring-ids-served", a.ExpServed, b.ExpServed))
	if a.Panic != "" || b.Panic != "" {
		// the buckets above were read before anything was served; what was served is incomplete
		if a.Panic != b.Panic {
			add(&Difference{Section: "panic", Detail: fmt.Sprintf("serving panicked with %q, the twin with %q", a.Panic, b.Panic)})
		}
		return
	}
	if !bytes.Equal(Enc(a.SuppTxn), Enc(b.SuppTxn)) {
		add(&Difference{Section: "supplement-tip-transaction", Detail: suppTxnDetail(a.SuppTxn, b.SuppTxn)})
	}
	add(cmpStrings("extreme-argument-answers", a.Extreme, b.Extreme))
	if !bytes.Equal(Enc(a.SuppBlock), Enc(b.SuppBlock)) {
		d := &Difference{Section: "supplement-tip-block", Detail: "the supplement of an empty child block differs from the twin's"}
		// a pure reordering of the expiring contracts (same elements, same proofs)?
		x, y := map[string]int{}, map[string]int{}
		for _, e := range a.SuppBlock.ExpiringFileContracts {
			x[string(Enc(e))]++
		}
		for _, e := range b.SuppBlock.ExpiringFileContracts {
			y[string(Enc(e))]++
		}
		d.Permutation = len(x) == len(y) && len(a.SuppBlock.Transactions) == len(b.SuppBlock.Transactions)
		for k, n := range x {
			if y[k] != n {
				d.Permutation = false
			}
		}
		if d.Permutation {
			d.Detail = "the expiring contracts of the next block are served in another order than the twin serves them (same elements, same proofs)"
		}
		add(d)
	}
	return
}

func suppTxnDetail(a, b consensus.V1TransactionSupplement) string {
	if len(a.SiacoinInputs) != len(b.SiacoinInputs) || len(a.SiafundInputs) != len(b.SiafundInputs) || len(a.RevisedFileContracts) != len(b.RevisedFileContracts) || len(a.StorageProofs) != len(b.StorageProofs) {
		return fmt.Sprintf("the probe transaction is supplemented with %d/%d/%d/%d elements, the twin supplies %d/%d/%d/%d", len(a.SiacoinInputs), len(a.SiafundInputs), len(a.RevisedFileContracts), len(a.StorageProofs), len(b.SiacoinInputs), len(b.SiafundInputs), len(b.RevisedFileContracts), len(b.StorageProofs))
	}
	for i := range a.SiacoinInputs {
		if !bytes.Equal(Enc(a.SiacoinInputs[i]), Enc(b.SiacoinInputs[i])) {
			return fmt.Sprintf("siacoin element %v is served as leaf %d with proof %v, the twin serves leaf %d with proof %v", a.SiacoinInputs[i].ID, a.SiacoinInputs[i].StateElement.LeafIndex, a.SiacoinInputs[i].StateElement.MerkleProof, b.SiacoinInputs[i].StateElement.LeafIndex, b.SiacoinInputs[i].StateElement.MerkleProof)
		}
	}
	for i := range a.SiafundInputs {
		if !bytes.Equal(Enc(a.SiafundInputs[i]), Enc(b.SiafundInputs[i])) {
			return fmt.Sprintf("siafund element %v is served with another proof or value than the twin serves", a.SiafundInputs[i].ID)
		}
	}
	for i := range a.RevisedFileContracts {
		if !bytes.Equal(Enc(a.RevisedFileContracts[i]), Enc(b.RevisedFileContracts[i])) {
			return fmt.Sprintf("file contract %v is served with another proof or value than the twin serves", a.RevisedFileContracts[i].ID)
		}
	}
	return "a storage proof supplement differs from the twin's"
}

// ProofKey renders the position and proof of an element.
func ProofKey(se types.StateElement) string {
	var sb strings.Builder
	fmt.Fprintf(&sb, "%d:", se.LeafIndex)
	for _, h := range se.MerkleProof {
		sb.WriteString(hex.EncodeToString(h[:]))
	}
	return sb.String()
}

// ServedProofs returns, per element the probe supplement served, its proof key.
func (v *View) ServedProofs() map[types.Hash256]string {
	m := map[types.Hash256]string{}
	for _, e := range v.SuppTxn.SiacoinInputs {
		m[types.Hash256(e.ID)] = ProofKey(e.StateElement)
	}
	for _, e := range v.SuppTxn.SiafundInputs {
		m[types.Hash256(e.ID)] = ProofKey(e.StateElement)
	}
	for _, e := range v.SuppTxn.RevisedFileContracts {
		m[types.Hash256(e.ID)] = ProofKey(e.StateElement)
	}
	for _, e := range v.SuppBlock.ExpiringFileContracts {
		m[types.Hash256(e.ID)] = ProofKey(e.StateElement)
	}
	return m
}

// extremeProbes asks the store with arguments outside the domain the node itself uses:
// heights beyond the tip and at the top of the range, unknown ids, an empty transaction, a
// transaction naming the same element several times and in several roles, a child block
// carrying such transactions.
func extremeProbes(st *chain.DBStore, v *View, tip types.BlockID) (out []string) {
	const maxH = ^uint64(0)
	add := func(name string, val any) { out = append(out, fmt.Sprintf("%s=%v", name, val)) }
	for _, h := range []uint64{v.Height + 1, v.Height + 1000, maxH, maxH - 1} {
		idx, ok := st.BestIndex(h)
		add(fmt.Sprintf("BestIndex(%d)", h-v.Height), fmt.Sprint(ok, idx.ID))
		add(fmt.Sprintf("ExpiringFileContractIDs(%d)", h-v.Height), len(st.ExpiringFileContractIDs(h)))
	}
	unknown := types.BlockID{0xEE, 0xEE, 2}
	_, _, bok := st.Block(unknown)
	_, sok := st.State(unknown)
	_, hok := st.Header(unknown)
	add("unknown-block", fmt.Sprint(bok, sok, hok))
	add("SupplementTipTransaction(empty)", digest(Enc(st.SupplementTipTransaction(types.Transaction{}))))
	var dup types.Transaction
	if ids := sortedIDs(v.SC); len(ids) > 0 {
		dup.SiacoinInputs = []types.SiacoinInput{{ParentID: types.SiacoinOutputID(ids[0])}, {ParentID: types.SiacoinOutputID(ids[0])}}
		dup.SiafundInputs = []types.SiafundInput{{ParentID: types.SiafundOutputID(ids[0])}} // a siacoin id in the siafund role
	}
	if ids := sortedIDs(v.FC); len(ids) > 0 {
		id := types.FileContractID(ids[len(ids)-1])
		dup.FileContractRevisions = []types.FileContractRevision{{ParentID: id}, {ParentID: id}}
		dup.StorageProofs = []types.StorageProof{{ParentID: id}, {ParentID: id}}
	}
	add("SupplementTipTransaction(duplicates)", digest(Enc(st.SupplementTipTransaction(dup))))
	{
		// (the expiring contracts are compared as a set here: their order is the business of the
		// ordinary sections and of the expiry-order finding)
		bs := st.SupplementTipBlock(types.Block{ParentID: tip, Transactions: []types.Transaction{dup, {}, dup}})
		var exp []string
		for _, e := range bs.ExpiringFileContracts {
			exp = append(exp, digest(Enc(e)))
		}
		sort.Strings(exp)
		bs.ExpiringFileContracts = nil
		add("SupplementTipBlock(child with such transactions)", digest(Enc(bs))+fmt.Sprint(exp))
	}
	return
}

// SortedIDs returns the keys of a bucket in the order the probes name them.
func SortedIDs(m map[types.Hash256][]byte) []types.Hash256 { return sortedIDs(m) }
