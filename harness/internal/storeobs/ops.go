package storeobs

import (
	"fmt"

	"verif/harness/internal/chaingen"

	"verif/harness/internal/mgrsim"
)

// DoOp performs one plan operation on the node: the manager calls of mgrsim plus
//
//	reopen  a clean restart in the middle of the history (flush, NewDBStore on the same
//	        database, new manager)
//	adds    AddBlocks with private copies of the blocks that are overwritten in place as
//	        soon as the call returns
//	addn    AddBlocks(first Height nodes) with AddBlocks(rest) started from the reorg
//	        callback the manager runs with its lock released
func DoOp(nd *Node, op mgrsim.Op) mgrsim.Obs {
	switch op.Kind {
	case "reopen":
		var o mgrsim.Obs
		func() {
			defer func() {
				if r := recover(); r != nil {
					o.Panic, o.ErrText = true, fmt.Sprint("panic: ", r)
				}
			}()
			if err := nd.Reopen(); err != nil {
				o.Panic, o.ErrText = true, "reopening the store in the middle of the history failed: "+err.Error()
			}
		}()
		return o
	case "adds":
		return nd.DoScribbled(op.Nodes)
	case "addn":
		k := int(op.Height)
		if k > len(op.Nodes) {
			k = len(op.Nodes)
		}
		return nd.DoNested(op.Nodes[:k], op.Nodes[k:])
	}
	return nd.Do(op)
}

// Spice turns some operations of a plan into the variants above and inserts clean reopens.
func Spice(pr interface{ Intn(int) int }, plan []mgrsim.Op, reopen bool) []mgrsim.Op {
	var out []mgrsim.Op
	for _, op := range plan {
		if op.Kind == "add" && len(op.Nodes) > 0 {
			switch pr.Intn(4) {
			case 0:
				op.Kind = "adds"
			case 1:
				if len(op.Nodes) >= 2 {
					op.Kind, op.Height = "addn", uint64(1+pr.Intn(len(op.Nodes)-1))
				}
			}
		}
		out = append(out, op)
		if reopen && pr.Intn(4) == 0 {
			out = append(out, mgrsim.Op{Kind: "reopen"})
		}
	}
	return out
}

// PlainOps is the plan as plain manager calls (what a catch-up run and the manager model
// replay): a nested submission is its two calls in sequence, an overwritten submission is an
// ordinary one, a clean reopen is no call.
func PlainOps(plan []mgrsim.Op) (out []mgrsim.Op) {
	for _, op := range plan {
		switch op.Kind {
		case "reopen":
		case "adds":
			out = append(out, mgrsim.Op{Kind: "add", Nodes: op.Nodes})
		case "addn":
			k := int(op.Height)
			if k > len(op.Nodes) {
				k = len(op.Nodes)
			}
			out = append(out, mgrsim.Op{Kind: "add", Nodes: op.Nodes[:k]})
			if k < len(op.Nodes) {
				out = append(out, mgrsim.Op{Kind: "add", Nodes: op.Nodes[k:]})
			}
		default:
			out = append(out, op)
		}
	}
	return
}

// NetParams overrides network parameters of the regime (parameter spread).
type NetParams struct {
	Allow    uint64 `json:"allow,omitempty"`
	Require  uint64 `json:"require,omitempty"`
	FinalCut uint64 `json:"final_cut,omitempty"`
	Maturity uint64 `json:"maturity,omitempty"`
}

func (p *NetParams) Apply(env *chaingen.Env) {
	if p == nil {
		return
	}
	if p.Require > 0 {
		env.Net.HardforkV2.AllowHeight, env.Net.HardforkV2.RequireHeight, env.Net.HardforkV2.FinalCutHeight = p.Allow, p.Require, p.FinalCut
	}
	if p.Maturity > 0 {
		env.Net.MaturityDelay = p.Maturity
	}
}
