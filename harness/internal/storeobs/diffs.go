// Package storeobs observes a real chain.DBStore for C02/C03: it exports the
// diff lists core hands to the store in the vocabulary of the Coq store model
// (coq/Chain/Store.v), takes canonical dumps of everything the store serves
// (through the public chain.DB / chain.Store interfaces only), builds the
// linear twins of a generated tree, compares a store against its twin and
// classifies the differences.
package storeobs

import (
	"bytes"
	"fmt"

	"go.sia.tech/core/consensus"
	"go.sia.tech/core/types"
)

// Enc encodes v with core's encoder.
func Enc(v types.EncoderTo) []byte {
	var buf bytes.Buffer
	e := types.NewEncoder(&buf)
	v.EncodeTo(e)
	e.Flush()
	return buf.Bytes()
}

// An EDiff is a siacoin or siafund element diff: the id, the bytes the store
// keeps for the element (proof stripped) and core's flags.
type EDiff struct {
	ID      types.Hash256
	Pay     []byte
	Created bool
	Spent   bool
}

// An FDiff is a v1 file contract element diff.
type FDiff struct {
	ID       types.Hash256
	Pay      []byte // the element of the diff as stored
	WE       uint64 // its WindowEnd
	Created  bool
	HasRev   bool
	RevPay   []byte // the element with FileContract := *Revision
	RevWE    uint64
	Resolved bool
}

// A TreeNode is one accumulator node core's ForEachTreeNode emits for a block.
type TreeNode struct {
	Row, Col uint64
	Hash     types.Hash256
}

// Diffs is what ApplyBlock / RevertBlock get from core, in core's order.
type Diffs struct {
	SC, SF []EDiff
	FC     []FDiff
	// Tree: the accumulator nodes of the update, in emission order; NumLeaves: the size of
	// the accumulator the update leads to (the state handed to the store with it)
	Tree      []TreeNode
	NumLeaves uint64
}

func scPay(e types.SiacoinElement) []byte {
	e = e.Copy()
	e.StateElement.MerkleProof = nil
	return Enc(e)
}

func sfPay(e types.SiafundElement) []byte {
	e = e.Copy()
	e.StateElement.MerkleProof = nil
	return Enc(e)
}

func fcPay(e types.FileContractElement) []byte {
	e = e.Copy()
	e.StateElement.MerkleProof = nil
	return Enc(e)
}

func export(sc []consensus.SiacoinElementDiff, sf []consensus.SiafundElementDiff, fc []consensus.FileContractElementDiff) (d Diffs) {
	for _, x := range sc {
		d.SC = append(d.SC, EDiff{ID: types.Hash256(x.SiacoinElement.ID), Pay: scPay(x.SiacoinElement), Created: x.Created, Spent: x.Spent})
	}
	for _, x := range sf {
		d.SF = append(d.SF, EDiff{ID: types.Hash256(x.SiafundElement.ID), Pay: sfPay(x.SiafundElement), Created: x.Created, Spent: x.Spent})
	}
	for _, x := range fc {
		f := FDiff{ID: types.Hash256(x.FileContractElement.ID), Pay: fcPay(x.FileContractElement), WE: x.FileContractElement.FileContract.WindowEnd, Created: x.Created, Resolved: x.Resolved}
		if x.Revision != nil {
			rev := x.FileContractElement.Copy()
			rev.FileContract = *x.Revision
			f.HasRev, f.RevPay, f.RevWE = true, fcPay(rev), rev.FileContract.WindowEnd
		}
		d.FC = append(d.FC, f)
	}
	return
}

// ApplyDiffs exports the diff lists of an apply update; s is the state after the block.
func ApplyDiffs(s consensus.State, cau consensus.ApplyUpdate) Diffs {
	d := export(cau.SiacoinElementDiffs(), cau.SiafundElementDiffs(), cau.FileContractElementDiffs())
	cau.ForEachTreeNode(func(row, col uint64, h types.Hash256) {
		d.Tree = append(d.Tree, TreeNode{row, col, h})
	})
	d.NumLeaves = s.Elements.NumLeaves
	return d
}

// RevertDiffs exports the diff lists of a revert update; s is the state reverted to.
func RevertDiffs(s consensus.State, cru consensus.RevertUpdate) Diffs {
	d := export(cru.SiacoinElementDiffs(), cru.SiafundElementDiffs(), cru.FileContractElementDiffs())
	cru.ForEachTreeNode(func(row, col uint64, h types.Hash256) {
		d.Tree = append(d.Tree, TreeNode{row, col, h})
	})
	d.NumLeaves = s.Elements.NumLeaves
	return d
}

// CheckL1 checks law L1 on one block: the revert diff lists are the apply diff
// lists reversed with the same flags, and every entry the store restores on
// revert (a spent element, a revised or resolved contract) carries the bytes
// the apply diff carried. (A created element has no leaf index yet in the
// revert diff; the store only deletes it.)
func CheckL1(app, rev Diffs) error {
	el := func(kind string, a, r []EDiff) error {
		if len(a) != len(r) {
			return fmt.Errorf("%s: %d apply diffs but %d revert diffs", kind, len(a), len(r))
		}
		for i := range a {
			x, y := a[i], r[len(r)-1-i]
			if x.ID != y.ID || x.Created != y.Created || x.Spent != y.Spent {
				return fmt.Errorf("%s: apply diff %d is (%v created=%v spent=%v) but the mirrored revert diff is (%v created=%v spent=%v)", kind, i, x.ID, x.Created, x.Spent, y.ID, y.Created, y.Spent)
			}
			if !x.Created && !bytes.Equal(x.Pay, y.Pay) {
				return fmt.Errorf("%s: element %v is restored on revert with other bytes than were spent", kind, x.ID)
			}
		}
		return nil
	}
	if err := el("siacoin", app.SC, rev.SC); err != nil {
		return err
	}
	if err := el("siafund", app.SF, rev.SF); err != nil {
		return err
	}
	if len(app.FC) != len(rev.FC) {
		return fmt.Errorf("file contracts: %d apply diffs but %d revert diffs", len(app.FC), len(rev.FC))
	}
	for i := range app.FC {
		x, y := app.FC[i], rev.FC[len(rev.FC)-1-i]
		if x.ID != y.ID || x.Created != y.Created || x.HasRev != y.HasRev || x.Resolved != y.Resolved || x.WE != y.WE || x.RevWE != y.RevWE {
			return fmt.Errorf("file contracts: apply diff %d of %v and its mirrored revert diff differ in flags or window ends", i, x.ID)
		}
		if !x.Created && !bytes.Equal(x.Pay, y.Pay) {
			return fmt.Errorf("file contracts: contract %v is restored on revert with other bytes than the block found", x.ID)
		}
	}
	return nil
}

// HasContractDiff reports whether the block touched a v1 contract.
func (d Diffs) HasContractDiff() bool { return len(d.FC) > 0 }

// Names interns ids and payloads as small numbers, in order of first appearance.
type Names struct {
	ids  map[types.Hash256]uint64
	pays map[string]uint64
	// IDs seen, per element kind, in order of first appearance (the probe of the Coq case)
	SC, SF, FC []types.Hash256
	seenSC     map[types.Hash256]bool
	seenSF     map[types.Hash256]bool
	seenFC     map[types.Hash256]bool
}

// NewNames returns an empty table.
func NewNames() *Names {
	return &Names{ids: map[types.Hash256]uint64{}, pays: map[string]uint64{}, seenSC: map[types.Hash256]bool{}, seenSF: map[types.Hash256]bool{}, seenFC: map[types.Hash256]bool{}}
}

// ID names an id.
func (n *Names) ID(h types.Hash256) uint64 {
	if v, ok := n.ids[h]; ok {
		return v
	}
	v := uint64(len(n.ids) + 1)
	n.ids[h] = v
	return v
}

// Pay names a payload.
func (n *Names) Pay(b []byte) uint64 {
	if v, ok := n.pays[string(b)]; ok {
		return v
	}
	v := uint64(len(n.pays) + 1)
	n.pays[string(b)] = v
	return v
}

// Note records the ids of a diff list for the probe.
func (n *Names) Note(d Diffs) {
	for _, e := range d.SC {
		if !n.seenSC[e.ID] {
			n.seenSC[e.ID] = true
			n.SC = append(n.SC, e.ID)
		}
	}
	for _, e := range d.SF {
		if !n.seenSF[e.ID] {
			n.seenSF[e.ID] = true
			n.SF = append(n.SF, e.ID)
		}
	}
	for _, e := range d.FC {
		if !n.seenFC[e.ID] {
			n.seenFC[e.ID] = true
			n.FC = append(n.FC, e.ID)
		}
	}
}

// Coq renders the diffs as a term of type [diffs].
func (d Diffs) Coq(n *Names) string {
	var b bytes.Buffer
	el := func(xs []EDiff) {
		b.WriteString("[")
		for i, x := range xs {
			if i > 0 {
				b.WriteString("; ")
			}
			fmt.Fprintf(&b, "ED %d %d %v %v", n.ID(x.ID), n.Pay(x.Pay), x.Created, x.Spent)
		}
		b.WriteString("]")
	}
	b.WriteString("DF ")
	el(d.SC)
	b.WriteString(" ")
	el(d.SF)
	b.WriteString(" [")
	for i, x := range d.FC {
		if i > 0 {
			b.WriteString("; ")
		}
		rev := "None"
		if x.HasRev {
			rev = fmt.Sprintf("(Some (%d, %d))", n.Pay(x.RevPay), x.RevWE)
		}
		fmt.Fprintf(&b, "FD %d %d %d %v %s %v", n.ID(x.ID), n.Pay(x.Pay), x.WE, x.Created, rev, x.Resolved)
	}
	b.WriteString("]")
	return b.String()
}
