package storeobs

import (
	"bytes"
	"fmt"
	"iter"
	"os"

	"go.sia.tech/coreutils/chain"
)

// An Image is the committed content of a database right after a Flush.
type Image struct {
	Data map[string]map[string][]byte
	Step int // index of the block step after which (or at the end of which) the commit happened
}

// Open returns a fresh MemDB holding the image (committed).
func (im *Image) Open() *chain.MemDB {
	db := chain.NewMemDB()
	for name, kv := range im.Data {
		b, err := db.CreateBucket([]byte(name))
		if err != nil {
			panic(err)
		}
		for k, v := range kv {
			if err := b.Put([]byte(k), append([]byte(nil), v...)); err != nil {
				panic(err)
			}
		}
	}
	if err := db.Flush(); err != nil {
		panic(err)
	}
	return db
}

// A RecDB is a chain.DB that forwards to another one and deep-copies the
// committed image at every Flush it receives.
type RecDB struct {
	Inner   chain.DB
	Images  []*Image
	names   map[string]bool
	StepNow func() int // the step a commit belongs to
	// aliasing monitor: every byte slice the database handed out (Get, Iter) since the last
	// check, with a copy of what it held then. The store may only change the database through
	// Put and Delete; a handed-out slice that changes was edited in place, i.e. data of the
	// database (for a map-backed DB: the committed image itself) was modified outside a commit.
	handed   []handedOut
	AliasErr string // the first violation seen
	// Writes counts the Put/Delete calls that reached the database; when it reaches
	// CrashAtWrite (> 0) the write is NOT performed and the call panics with CrashSignal:
	// the process stops in the middle of a step (or of a cache flush)
	Writes       int
	CrashAtWrite int
}

type handedOut struct {
	bucket string
	key    []byte
	slice  []byte // the very slice the database returned
	copy   []byte
}

func (r *RecDB) hand(bucket string, key, val []byte) {
	if len(val) == 0 {
		return
	}
	r.handed = append(r.handed, handedOut{bucket, append([]byte(nil), key...), val, append([]byte(nil), val...)})
}

// CheckHandedOut verifies that no slice handed out since the last check was modified in place.
func (r *RecDB) CheckHandedOut() {
	for _, h := range r.handed {
		if !bytes.Equal(h.slice, h.copy) && r.AliasErr == "" && os.Getenv("VERIF_C03_NOALIAS") == "" { // (switch: self-test of the live crash points)
			r.AliasErr = fmt.Sprintf("the bytes the database returned for key %x of bucket %s were modified in place (not through Put/Delete): %x became %x", h.key, h.bucket, h.copy, h.slice)
		}
	}
	r.handed = r.handed[:0]
}

type recBucket struct {
	inner chain.DBBucket
	r     *RecDB
	name  string
}

func (b recBucket) Get(key []byte) []byte {
	v := b.inner.Get(key)
	b.r.hand(b.name, key, v)
	return v
}

// CrashSignal is what the recording database panics with at CrashAtWrite.
const CrashSignal = "crashSignal: the process stops here"

func (b recBucket) tick() {
	b.r.Writes++
	if b.r.CrashAtWrite > 0 && b.r.Writes == b.r.CrashAtWrite {
		panic(CrashSignal)
	}
}
func (b recBucket) Put(key, value []byte) error { b.tick(); return b.inner.Put(key, value) }
func (b recBucket) Delete(key []byte) error     { b.tick(); return b.inner.Delete(key) }
func (b recBucket) Iter() iter.Seq2[[]byte, []byte] {
	return func(yield func([]byte, []byte) bool) {
		for k, v := range b.inner.Iter() {
			b.r.hand(b.name, k, v)
			if !yield(k, v) {
				return
			}
		}
	}
}

// NewRecDB wraps inner.
func NewRecDB(inner chain.DB) *RecDB {
	return &RecDB{Inner: inner, names: map[string]bool{}}
}

// Bucket implements chain.DB.
func (r *RecDB) Bucket(name []byte) chain.DBBucket {
	b := r.Inner.Bucket(name)
	if b == nil {
		return nil // a typed nil would not compare equal to nil in DBStore
	}
	return recBucket{b, r, string(name)}
}

// CreateBucket implements chain.DB.
func (r *RecDB) CreateBucket(name []byte) (chain.DBBucket, error) {
	b, err := r.Inner.CreateBucket(name)
	if err != nil {
		return nil, err
	}
	r.names[string(name)] = true
	return recBucket{b, r, string(name)}, nil
}

// Flush implements chain.DB: commit, then snapshot the committed image.
func (r *RecDB) Flush() error {
	r.CheckHandedOut()
	if err := r.Inner.Flush(); err != nil {
		return err
	}
	im := &Image{Data: map[string]map[string][]byte{}}
	for name := range r.names {
		kv := map[string][]byte{}
		if b := r.Inner.Bucket([]byte(name)); b != nil {
			for k, v := range b.Iter() {
				kv[string(k)] = append([]byte(nil), v...)
			}
		}
		im.Data[name] = kv
	}
	// reading through a BoltChainDB opened a transaction; nothing was written in it
	r.Inner.Cancel()
	if r.StepNow != nil {
		im.Step = r.StepNow()
	}
	r.Images = append(r.Images, im)
	return nil
}

// Cancel implements chain.DB.
func (r *RecDB) Cancel() {
	r.CheckHandedOut()
	r.Inner.Cancel()
}

// Committed reads what the database holds (call it when nothing is pending).
func (r *RecDB) Committed() map[string]map[string][]byte {
	out := map[string]map[string][]byte{}
	for name := range r.names {
		kv := map[string][]byte{}
		if b := r.Inner.Bucket([]byte(name)); b != nil {
			for k, v := range b.Iter() {
				kv[string(k)] = append([]byte(nil), v...)
			}
		}
		out[name] = kv
	}
	r.Inner.Cancel()
	return out
}

// DiffImage compares committed contents with an image; "" if equal.
func DiffImage(have map[string]map[string][]byte, im *Image) string {
	for name, kv := range im.Data {
		for k, v := range kv {
			if w, ok := have[name][k]; !ok {
				return fmt.Sprintf("bucket %s: key %x of the last commit is gone", name, k)
			} else if !bytes.Equal(v, w) {
				return fmt.Sprintf("bucket %s, key %x: the last commit stored %x, the database now holds %x", name, k, v, w)
			}
		}
		for k := range have[name] {
			if _, ok := kv[k]; !ok {
				return fmt.Sprintf("bucket %s: key %x was not in the last commit", name, k)
			}
		}
	}
	return ""
}
