package storeobs

import (
	"go.sia.tech/coreutils/chain"
)

// An Image is the committed content of a database right after a Flush.
type Image struct {
	Data map[string]map[string][]byte
	Step int // index of the block step after which (or at the end of which) the commit happened
}

// Open returns a fresh MemDB holding the image (committed).
func (im *Image) Open() *chain.MemDB {
	db := chain.NewMemDB()
	for name, kv := range im.Data {
		b, err := db.CreateBucket([]byte(name))
		if err != nil {
			panic(err)
		}
		for k, v := range kv {
			if err := b.Put([]byte(k), append([]byte(nil), v...)); err != nil {
				panic(err)
			}
		}
	}
	if err := db.Flush(); err != nil {
		panic(err)
	}
	return db
}

// A RecDB is a chain.DB that forwards to another one and deep-copies the
// committed image at every Flush it receives.
type RecDB struct {
	Inner   chain.DB
	Images  []*Image
	names   map[string]bool
	StepNow func() int // the step a commit belongs to
}

// NewRecDB wraps inner.
func NewRecDB(inner chain.DB) *RecDB {
	return &RecDB{Inner: inner, names: map[string]bool{}}
}

// Bucket implements chain.DB.
func (r *RecDB) Bucket(name []byte) chain.DBBucket {
	b := r.Inner.Bucket(name)
	if b == nil {
		return nil // a typed nil would not compare equal to nil in DBStore
	}
	return b
}

// CreateBucket implements chain.DB.
func (r *RecDB) CreateBucket(name []byte) (chain.DBBucket, error) {
	b, err := r.Inner.CreateBucket(name)
	if err == nil {
		r.names[string(name)] = true
	}
	return b, err
}

// Flush implements chain.DB: commit, then snapshot the committed image.
func (r *RecDB) Flush() error {
	if err := r.Inner.Flush(); err != nil {
		return err
	}
	im := &Image{Data: map[string]map[string][]byte{}}
	for name := range r.names {
		kv := map[string][]byte{}
		if b := r.Inner.Bucket([]byte(name)); b != nil {
			for k, v := range b.Iter() {
				kv[string(k)] = append([]byte(nil), v...)
			}
		}
		im.Data[name] = kv
	}
	// reading through a BoltChainDB opened a transaction; nothing was written in it
	r.Inner.Cancel()
	if r.StepNow != nil {
		im.Step = r.StepNow()
	}
	r.Images = append(r.Images, im)
	return nil
}

// Cancel implements chain.DB.
func (r *RecDB) Cancel() { r.Inner.Cancel() }
