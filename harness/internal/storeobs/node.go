package storeobs

import (
	"fmt"
	"sort"
	"time"

	"go.sia.tech/core/consensus"
	"go.sia.tech/core/types"
	"go.sia.tech/coreutils/chain"
	"verif/harness/internal/chaingen"
	"verif/harness/internal/mgrsim"
)

// A Rec is a chain.Store that forwards to a real DBStore and reports every
// ApplyBlock / RevertBlock (after the store performed it).
type Rec struct {
	*chain.DBStore
	After func(apply bool, index types.ChainIndex, d Diffs)
	// Before, if set, runs before the store performs a step
	Before func(apply bool)
	// Pending holds the step the store is performing (it stays set when the store panics)
	Pending *PendingStep
}

// A PendingStep is a store call in progress.
type PendingStep struct {
	Apply bool
	Index types.ChainIndex
	Diffs Diffs
}

// ApplyBlock implements chain.Store.
func (r *Rec) ApplyBlock(s consensus.State, cau consensus.ApplyUpdate) {
	d := ApplyDiffs(s, cau)
	r.Pending = &PendingStep{Apply: true, Index: s.Index, Diffs: d}
	if r.Before != nil {
		r.Before(true)
	}
	r.DBStore.ApplyBlock(s, cau)
	r.Pending = nil
	if r.After != nil {
		r.After(true, s.Index, d)
	}
}

// RevertBlock implements chain.Store.
func (r *Rec) RevertBlock(s consensus.State, cru consensus.RevertUpdate) {
	d := RevertDiffs(s, cru)
	idx := cru.ChainIndexElement().ChainIndex
	r.Pending = &PendingStep{Index: idx, Diffs: d}
	if r.Before != nil {
		r.Before(false)
	}
	r.DBStore.RevertBlock(s, cru)
	r.Pending = nil
	if r.After != nil {
		r.After(false, idx, d)
	}
}

// KindReviseResolve is the failure kind of a block that revises and resolves
// one v1 contract (core's diff then no longer carries the prior contract).
const KindReviseResolve = "c02-contract-revised-and-resolved-in-one-block"

// RevisedAndResolved returns a contract the diffs both revise and resolve.
func (d Diffs) RevisedAndResolved() (types.Hash256, bool) {
	for _, f := range d.FC {
		if f.HasRev && f.Resolved && !f.Created {
			return f.ID, true
		}
	}
	return types.Hash256{}, false
}

// A StepRec is one block step of the observed store.
type StepRec struct {
	Apply  bool
	Node   int // the block applied or reverted (tree index; -1 if unknown to the tree)
	Tip    int // the store's tip after the step (tree index; -1 below a checkpoint)
	Height uint64
	Diffs  Diffs // the diffs the store was handed for this step
	View   *View // what the store serves after the step
	// the ids SupplementTipTransaction returned for the cumulative probe of the case
	ProbeSC, ProbeSF, ProbeFC []types.Hash256
	// leaf index and number of proof entries of every element that probe was served
	ProbeProofs [][2]uint64
	// the Tree bucket entries that are new or changed after this step
	TreeChanges []TreeNode
	NoPrevView  bool // the step before this one was not observed (TreeChanges unknown)
	Call        int  // index of the manager call during which the step happened (-1: opening the store)
}

// A Node is a real manager over a recording store, fed from a tree.
type Node struct {
	T     *chaingen.Tree
	DB    chain.DB
	Inner *chain.DBStore
	Rec   *Rec
	Sim   *mgrsim.Sim
	Base  *chaingen.Node // nil: opened at genesis; else the checkpoint block
	MaxH  uint64
	Names *Names
	Steps []*StepRec
	Call  int
	// OnStep, if set, runs after a step was recorded (C03 flushes here)
	OnStep func(st *StepRec)
	// Quiet: the node is not observed between steps (no view, no probe: nothing of the store
	// is read by the harness until the caller does it); only the diffs handed to the store
	// are recorded
	Quiet bool
}

// MaxHeight returns the largest height in the tree.
func MaxHeight(t *chaingen.Tree) (h uint64) {
	for _, n := range t.Nodes {
		if n.Height > h {
			h = n.Height
		}
	}
	return
}

// InitialDiffs returns the diffs of the block that opening a store applies:
// genesis (base == nil) or the checkpoint block.
func InitialDiffs(t *chaingen.Tree, base *chaingen.Node) Diffs {
	if base == nil {
		bs := consensus.V1BlockSupplement{Transactions: make([]consensus.V1TransactionSupplement, len(t.Env.Genesis.Transactions))}
		cs, cau := consensus.ApplyBlock(t.Env.Net.GenesisState(), t.Env.Genesis, bs, time.Time{})
		return ApplyDiffs(cs, cau)
	}
	bs := consensus.V1BlockSupplement{Transactions: make([]consensus.V1TransactionSupplement, len(base.Block.Transactions))}
	cs, cau := consensus.ApplyBlock(base.Parent.FullState, base.Block, bs, time.Time{})
	return ApplyDiffs(cs, cau)
}

// OpenStore opens a DBStore on db at genesis or at a checkpoint.
func OpenStore(t *chaingen.Tree, db chain.DB, base *chaingen.Node) (*chain.DBStore, consensus.State, error) {
	if base == nil {
		return chain.NewDBStore(db, t.Env.Net, t.Env.Genesis, nil)
	}
	return chain.NewDBStoreAtCheckpoint(db, base.Parent.FullState, base.Block, nil)
}

// NewNode opens a store on db (genesis, or the checkpoint base) and starts a
// manager over the recording wrapper.
func NewNode(t *chaingen.Tree, db chain.DB, base *chaingen.Node) (*Node, error) {
	return NewNodeOpt(t, db, base, false)
}

// NewNodeOpt is NewNode with the Quiet switch.
func NewNodeOpt(t *chaingen.Tree, db chain.DB, base *chaingen.Node, quiet bool) (*Node, error) {
	inner, ts, err := OpenStore(t, db, base)
	if err != nil {
		return nil, err
	}
	n := &Node{T: t, DB: db, Inner: inner, Base: base, MaxH: MaxHeight(t) + 2, Names: NewNames(), Call: -1, Quiet: quiet}
	n.Rec = &Rec{DBStore: inner, After: n.after}
	n.Sim = mgrsim.NewSimOver(t, inner, n.Rec, ts)
	// the step that opening performed
	first := 0
	if base != nil {
		first = base.Idx
	}
	n.record(true, first, InitialDiffs(t, base))
	return n, nil
}

func (n *Node) after(apply bool, index types.ChainIndex, d Diffs) {
	idx := -1
	if x, ok := n.T.ByID[index.ID]; ok {
		idx = x.Idx
	}
	n.record(apply, idx, d)
}

func (n *Node) record(apply bool, idx int, d Diffs) {
	n.Names.Note(d)
	st := &StepRec{Apply: apply, Node: idx, Tip: -1, Diffs: d, Call: n.Call}
	if idx >= 0 {
		x := n.T.Nodes[idx]
		st.Height = x.Height
		if apply {
			st.Tip = idx
		} else if x.Parent != nil {
			st.Tip = x.Parent.Idx
		}
	}
	if n.Quiet {
		n.Steps = append(n.Steps, st)
		if n.OnStep != nil {
			n.OnStep(st)
		}
		return
	}
	st.View = TakeView(n.DB, n.Inner, n.MaxH)
	{
		var prev map[[2]uint64]types.Hash256
		if len(n.Steps) > 0 && n.Steps[len(n.Steps)-1].View != nil {
			prev = n.Steps[len(n.Steps)-1].View.Tree
		}
		st.NoPrevView = len(n.Steps) > 0 && n.Steps[len(n.Steps)-1].View == nil
		for k, h := range st.View.Tree {
			if st.NoPrevView {
				break // the step before was not observed: what changed is unknown
			}
			if old, ok := prev[k]; !ok || old != h {
				st.TreeChanges = append(st.TreeChanges, TreeNode{k[0], k[1], h})
			}
		}
		sort.Slice(st.TreeChanges, func(i, j int) bool {
			a, b := st.TreeChanges[i], st.TreeChanges[j]
			return a.Row < b.Row || a.Row == b.Row && a.Col < b.Col
		})
	}
	st.Probe(n.Inner, n.Names)
	n.Steps = append(n.Steps, st)
	if n.OnStep != nil {
		n.OnStep(st)
	}
}

// Do performs one manager call.
func (n *Node) Do(op mgrsim.Op) mgrsim.Obs {
	n.Call++
	return n.Sim.Call(op)
}

// A Lin is the view of a twin that saw one chain linearly, with the proofs of
// the harness's independent ledger for the elements of that chain.
type Lin struct {
	View   *View
	Proofs map[types.Hash256]string // nil when the twin was opened at a checkpoint
}

// Twins builds and caches the linear twins of a tree.
type Twins struct {
	T     *chaingen.Tree
	MaxH  uint64
	cache map[[2]int]*Lin
	Built int
}

// NewTwins returns an empty cache.
func NewTwins(t *chaingen.Tree) *Twins {
	return &Twins{T: t, MaxH: MaxHeight(t) + 2, cache: map[[2]int]*Lin{}}
}

func ledgerProofs(l *chaingen.Ledger) map[types.Hash256]string {
	m := map[types.Hash256]string{}
	for id, e := range l.SC {
		m[types.Hash256(id)] = ProofKey(e.StateElement)
	}
	for id, e := range l.SF {
		m[types.Hash256(id)] = ProofKey(e.StateElement)
	}
	for id, e := range l.FC {
		m[types.Hash256(id)] = ProofKey(e.StateElement)
	}
	return m
}

// Get returns the twin that was opened at base (nil = genesis; else a
// checkpoint block that is an ancestor of tip or tip itself) and then fed the
// blocks up to tip one by one.
func (tw *Twins) Get(base, tip *chaingen.Node) (l *Lin, err error) {
	b := 0
	if base != nil {
		b = base.Idx
	}
	if c, ok := tw.cache[[2]int{b, tip.Idx}]; ok {
		return c, nil
	}
	defer func() {
		if r := recover(); r != nil {
			l, err = nil, fmt.Errorf("twin: the linear node panicked: %v", r)
		}
	}()
	db := chain.NewMemDB()
	store, ts, err := OpenStore(tw.T, db, base)
	if err != nil {
		return nil, err
	}
	cm := chain.NewManager(store, ts)
	var ledger *chaingen.Ledger
	if base == nil {
		ledger = chaingen.NewLedger()
		chaingen.SyncLedger(cm, ledger)
	}
	snap := func(x *chaingen.Node) {
		key := [2]int{b, x.Idx}
		if _, ok := tw.cache[key]; ok {
			return
		}
		l := &Lin{View: TakeView(db, store, tw.MaxH)}
		if ledger != nil {
			l.Proofs = ledgerProofs(ledger)
		}
		tw.cache[key] = l
		tw.Built++
	}
	path := tw.T.Path(tip)
	if base == nil {
		snap(tw.T.Nodes[0])
	} else {
		// drop the part of the path up to and including the checkpoint
		i := 0
		for i < len(path) && path[i] != base {
			i++
		}
		if i == len(path) {
			return nil, fmt.Errorf("twin: checkpoint %d is not an ancestor of %d", base.Idx, tip.Idx)
		}
		path = path[i+1:]
		snap(base)
	}
	for _, x := range path {
		if err := cm.AddBlocks([]types.Block{x.Block}); err != nil {
			return nil, fmt.Errorf("twin: block %d rejected: %w", x.Idx, err)
		}
		if cm.Tip().ID != x.ID {
			return nil, fmt.Errorf("twin: block %d did not become the tip", x.Idx)
		}
		if ledger != nil {
			chaingen.SyncLedger(cm, ledger)
		}
		snap(x)
	}
	return tw.cache[[2]int{b, tip.Idx}], nil
}

// ExpModel is the documented behaviour of the expiration lists (append on
// apply, prepend on revert, swap-remove on delete), kept by the harness only
// to *classify* a history: F8Trigger reports the reverted blocks after which
// the lists are not what they were before the block was applied — the
// histories on which the known expiry-order finding can show.
type ExpModel struct {
	lists map[uint64][]types.Hash256
	stack []map[uint64][]types.Hash256
	R     uint64
}

// NewExpModel returns the model for a network with require height R.
func NewExpModel(R uint64) *ExpModel {
	return &ExpModel{lists: map[uint64][]types.Hash256{}, R: R}
}

// Lists returns the non-empty lists the documented operations have produced so far.
func (m *ExpModel) Lists() map[uint64][]types.Hash256 { return m.snapshot() }

func (m *ExpModel) snapshot() map[uint64][]types.Hash256 {
	c := map[uint64][]types.Hash256{}
	for h, l := range m.lists {
		if len(l) > 0 {
			c[h] = append([]types.Hash256(nil), l...)
		}
	}
	return c
}

func (m *ExpModel) del(id types.Hash256, we uint64) {
	l := m.lists[we]
	for i := range l {
		if l[i] == id {
			l = append([]types.Hash256(nil), l...)
			l[i] = l[len(l)-1]
			m.lists[we] = l[:len(l)-1]
			return
		}
	}
}

// Apply folds the apply diffs of a block at the given height.
func (m *ExpModel) Apply(height uint64, d Diffs) {
	m.stack = append(m.stack, m.snapshot())
	if height > m.R {
		return
	}
	for _, f := range d.FC {
		switch {
		case f.Created && f.Resolved:
		case f.Resolved:
			m.del(f.ID, f.WE)
		case f.HasRev:
			if f.RevWE != f.WE {
				m.del(f.ID, f.WE)
				m.lists[f.RevWE] = append(append([]types.Hash256(nil), m.lists[f.RevWE]...), f.ID)
			}
		default:
			m.lists[f.WE] = append(append([]types.Hash256(nil), m.lists[f.WE]...), f.ID)
		}
	}
}

// Revert folds the revert diffs of the block on top and reports whether the
// lists are now different from what they were before that block was applied.
func (m *ExpModel) Revert(height uint64, d Diffs) (trigger bool) {
	if height <= m.R+1 {
		for _, f := range d.FC {
			switch {
			case f.Created && f.Resolved:
			case f.Resolved:
				m.lists[f.WE] = append([]types.Hash256{f.ID}, m.lists[f.WE]...)
			case f.HasRev:
				if f.RevWE != f.WE {
					m.del(f.ID, f.RevWE)
					m.lists[f.WE] = append([]types.Hash256{f.ID}, m.lists[f.WE]...)
				}
			default:
				m.del(f.ID, f.WE)
			}
		}
	}
	if len(m.stack) == 0 {
		return false
	}
	before := m.stack[len(m.stack)-1]
	m.stack = m.stack[:len(m.stack)-1]
	now := m.snapshot()
	if len(before) != len(now) {
		return true
	}
	for h, l := range before {
		k := now[h]
		if len(k) != len(l) {
			return true
		}
		for i := range l {
			if l[i] != k[i] {
				return true
			}
		}
	}
	return false
}

// Probe asks the store to supplement a transaction naming every element the
// case has seen so far and records which ones it served, with the shape of
// their proofs.
func (st *StepRec) Probe(store *chain.DBStore, names *Names) {
	defer func() { recover() }()
	ts := store.SupplementTipTransaction(ProbeTxn(names.SC, names.SF, names.FC))
	for _, e := range ts.SiacoinInputs {
		st.ProbeSC = append(st.ProbeSC, types.Hash256(e.ID))
		st.ProbeProofs = append(st.ProbeProofs, [2]uint64{e.StateElement.LeafIndex, uint64(len(e.StateElement.MerkleProof))})
	}
	for _, e := range ts.SiafundInputs {
		st.ProbeSF = append(st.ProbeSF, types.Hash256(e.ID))
		st.ProbeProofs = append(st.ProbeProofs, [2]uint64{e.StateElement.LeafIndex, uint64(len(e.StateElement.MerkleProof))})
	}
	for _, e := range ts.RevisedFileContracts {
		st.ProbeFC = append(st.ProbeFC, types.Hash256(e.ID))
		st.ProbeProofs = append(st.ProbeProofs, [2]uint64{e.StateElement.LeafIndex, uint64(len(e.StateElement.MerkleProof))})
	}
}

// NewNodeFromImage reopens a store on db (a committed image of a node whose
// block steps so far were prior) and starts a manager over the recording
// wrapper; the prior steps are kept so that Judge can replay the whole history
// of the buckets.
func NewNodeFromImage(t *chaingen.Tree, db chain.DB, prior []*StepRec, names *Names) (*Node, error) {
	inner, ts, err := chain.NewDBStore(db, t.Env.Net, t.Env.Genesis, nil)
	if err != nil {
		return nil, err
	}
	n := &Node{T: t, DB: db, Inner: inner, MaxH: MaxHeight(t) + 2, Names: names, Call: 1000}
	n.Steps = append(n.Steps, prior...)
	n.Rec = &Rec{DBStore: inner, After: n.after}
	n.Sim = mgrsim.NewSimOver(t, inner, n.Rec, ts)
	return n, nil
}

// DoObserved performs one manager call and observes the node fully (C01's observation).
func (n *Node) DoObserved(op mgrsim.Op) mgrsim.Obs {
	n.Call++
	return n.Sim.Do(op)
}

// Reopen restarts the node cleanly in the middle of a history: the store is flushed,
// the same database is opened again (NewDBStore reads the tip from it) and a new manager
// takes over.
func (n *Node) Reopen() error {
	if err := n.Inner.Flush(); err != nil {
		return err
	}
	inner, ts, err := chain.NewDBStore(n.DB, n.T.Env.Net, n.T.Env.Genesis, nil)
	if err != nil {
		return err
	}
	n.Inner = inner
	n.Rec = &Rec{DBStore: inner, After: n.after, Before: n.Rec.Before}
	n.Sim = mgrsim.NewSimOver(n.T, inner, n.Rec, ts)
	return nil
}

func copyBlock(b types.Block) types.Block {
	var c types.Block
	d := types.NewBufDecoder(Enc(types.V2Block(b)))
	(*types.V2Block)(&c).DecodeFrom(d)
	if d.Err() != nil {
		panic(d.Err())
	}
	return c
}

// scribble overwrites everything a submitted block points to.
func scribble(bs []types.Block) {
	for i := range bs {
		b := &bs[i]
		for j := range b.MinerPayouts {
			b.MinerPayouts[j] = types.SiacoinOutput{Address: types.Address{0xBA, 0xD0}}
		}
		for j := range b.Transactions {
			b.Transactions[j] = types.Transaction{ArbitraryData: [][]byte{[]byte("scribbled")}}
		}
		if b.V2 != nil {
			for j := range b.V2.Transactions {
				b.V2.Transactions[j] = types.V2Transaction{ArbitraryData: []byte("scribbled")}
			}
			b.V2.Commitment = types.Hash256{0xBA, 0xD1}
			b.V2.Height = 1 << 40
		}
		b.ParentID, b.Nonce = types.BlockID{0xBA, 0xD2}, 42
	}
}

// DoScribbled submits private copies of the blocks and overwrites them in place as soon as
// the call returns: nothing the node keeps may point into the caller's memory.
func (n *Node) DoScribbled(nodes []int) (o mgrsim.Obs) {
	n.Call++
	var bs []types.Block
	for _, i := range nodes {
		bs = append(bs, copyBlock(n.T.Nodes[i].Block))
	}
	func() {
		defer func() {
			if r := recover(); r != nil {
				o.Panic, o.ErrText = true, fmt.Sprint("panic: ", r)
			}
		}()
		if err := n.Sim.CM.AddBlocks(bs); err != nil {
			o.Err, o.ErrText = true, err.Error()
		}
	}()
	scribble(bs)
	return
}

// DoNested submits first and, from inside the reorg callback the manager runs with its lock
// released at the end of that call, second: an operation started in the only window a
// manager call has.
func (n *Node) DoNested(first, second []int) (o mgrsim.Obs) {
	n.Call++
	blocks := func(ids []int) (bs []types.Block) {
		for _, i := range ids {
			bs = append(bs, n.T.Nodes[i].Block)
		}
		return
	}
	fired := false
	var nested any
	cancel := n.Sim.CM.OnReorg(func(types.ChainIndex) {
		if fired {
			return
		}
		fired = true
		// a panic here would unwind through the outer call while the manager's mutex is released
		// (the runtime then dies on the deferred Unlock): catch it and report it after the outer call
		defer func() {
			if r := recover(); r != nil {
				nested = r
			}
		}()
		n.Sim.CM.AddBlocks(blocks(second))
	})
	defer cancel()
	func() {
		defer func() {
			if r := recover(); r != nil {
				o.Panic, o.ErrText = true, fmt.Sprint("panic: ", r)
			}
		}()
		if err := n.Sim.CM.AddBlocks(blocks(first)); err != nil {
			o.Err, o.ErrText = true, err.Error()
		}
	}()
	if nested != nil {
		o.Panic, o.ErrText = true, fmt.Sprint("panic: ", nested)
		return
	}
	if !fired && !o.Panic { // no reorg happened: submit the second batch the ordinary way
		func() {
			defer func() {
				if r := recover(); r != nil {
					o.Panic, o.ErrText = true, fmt.Sprint("panic: ", r)
				}
			}()
			n.Sim.CM.AddBlocks(blocks(second))
		}()
	}
	return
}
