package storeobs

import (
	"bytes"
	"fmt"
	"strings"

	"go.sia.tech/core/types"
	"verif/harness/internal/chaingen"
)

// KindF8 is the failure kind of the known expiry-order finding (DESIGN F8).
const KindF8 = "c02-expiry-order-history-dependent"

// A Finding is a monitor failure at a step of a history.
type Finding struct {
	Kind   string
	Detail string
	Step   int
}

// Stats describes a judged history.
type Stats struct {
	Steps, Reverts        int
	RevertedContractBlock bool // a reverted block carried a v1 contract diff
	Trigger               bool // the expiration lists were not restored exactly by some revert (per the documented list behaviour)
	CrossRequire          bool // a block at or above the require height was reverted down to below it
	CrossAllow            bool
	Compared              int // block boundaries compared with a twin
	ProofsChecked         int
	RevertedKinds         map[string]int // transaction kinds inside reverted blocks
	ExpiryReverted        bool           // a reverted block expired >= 2 contracts of one list
	TriggerStep           int            // the first step at which Trigger became true (-1: never)
	// the expiration lists the documented operations produce for the whole history
	Documented      map[uint64][]types.Hash256
	FailedReorgs    int  // manager calls whose reorg failed half-way and was rolled back (applied steps undone in the same call)
	MixedBlocks     int  // applied blocks carrying v1 and v2 transactions
	FinalCut        bool // a block at or above the final-cut height was applied
	BelowCheckpoint int  // boundaries after a checkpoint node reverted its own checkpoint block (chain-level sections only)
}

// twinBase returns the checkpoint the twin for tip has to be opened at.
// TwinBase is the checkpoint the twin of tip has to be opened at (nil: genesis); false when
// the tip lies below the node's checkpoint.
func TwinBase(nd *Node, tip *chaingen.Node) (*chaingen.Node, bool) { return twinBase(nd, tip) }

func twinBase(nd *Node, tip *chaingen.Node) (*chaingen.Node, bool) {
	if nd.Base == nil {
		return nil, true
	}
	if tip.Height < nd.Base.Height {
		return nil, false
	}
	x := tip
	for x.Height > nd.Base.Height {
		x = x.Parent
	}
	return x, true
}

func sectionKind(sec string) string {
	switch sec {
	case "panic":
		return "c02-serving-panics"
	case "height":
		return "c02-height-differs"
	case "best-index", "main-chain-bucket":
		return "c02-best-index-differs"
	case "blocks-and-supplements":
		return "c02-stored-block-or-supplement-differs"
	case "states", "tip-state":
		return "c02-stored-state-differs"
	case "extreme-argument-answers":
		return "c02-answer-to-extreme-arguments-differs"
	case "tree-live-nodes":
		return "c02-accumulator-nodes-differ"
	case "siacoin-elements":
		return "c02-siacoin-elements-differ"
	case "siafund-elements":
		return "c02-siafund-elements-differ"
	case "file-contracts":
		return "c02-file-contract-elements-differ"
	case "expiration-lists", "expiring-ids-served":
		return "c02-expiration-lists-differ"
	case "supplement-tip-transaction":
		return "c02-transaction-supplement-or-proof-differs"
	case "supplement-tip-block":
		return "c02-block-supplement-differs"
	}
	return "c02-" + sec + "-differs"
}

// CompareWithTwin compares a view with the linear twin's and classifies the
// result. known is true for the expiry-order finding: the only differences are
// expiration lists (and the expiring contracts served for the next block) that
// are permutations of the twin's, and the history contains a reverted block
// after which the documented list operations do not restore the order.
// compareChainOnly compares the sections that do not come from the element buckets.
func compareChainOnly(v *View, lin *Lin) *Finding {
	for _, d := range Compare(v, lin.View) {
		switch d.Section {
		case "height", "best-index", "main-chain-bucket", "blocks-and-supplements", "states", "tip-state":
			return &Finding{Kind: sectionKind(d.Section), Detail: d.Section + ": " + d.Detail}
		}
	}
	return nil
}

func CompareWithTwin(v *View, lin *Lin, triggered bool, documented map[uint64][]types.Hash256) (f *Finding, known bool) {
	ds := Compare(v, lin.View)
	if len(ds) == 0 {
		return nil, false
	}
	allPerm := true
	var firstOther *Difference
	for i := range ds {
		d := &ds[i]
		orderOnly := (d.Section == "expiration-lists" || d.Section == "expiring-ids-served" || d.Section == "supplement-tip-block") && d.Permutation
		if !orderOnly {
			allPerm = false
			if firstOther == nil {
				firstOther = d
			}
		}
	}
	if allPerm && triggered && documented != nil {
		// the known finding excuses exactly the order the documented operations (append on
		// apply, prepend on revert, swap-remove on delete) produce, nothing else
		if d := cmpLists("expiration-lists", v.Exp, documented); d != nil {
			return &Finding{Kind: "c02-expiry-order-differs-without-cause", Detail: "expiration lists differ from the linear twin's, and not in the way the documented append/prepend/swap-remove behaviour reorders them: " + strings.Replace(d.Detail, "the twin has", "the documented operations give", 1) + " (twin: " + ds[0].Detail + ")"}, false
		}
	}
	if allPerm && triggered {
		return &Finding{Kind: KindF8, Detail: "after a reorg that reverted a block resolving or re-windowing a contract which shares its window end with others, the only served data differing from the linear twin are expiration lists in another order: " + ds[0].Detail}, true
	}
	if allPerm {
		return &Finding{Kind: "c02-expiry-order-differs-without-cause", Detail: "expiration lists are ordered differently from the linear twin although no revert in the history can reorder them under the documented append/prepend/swap-remove behaviour: " + ds[0].Detail}, false
	}
	return &Finding{Kind: sectionKind(firstOther.Section), Detail: firstOther.Section + ": " + firstOther.Detail}, false
}

// CheckProofs compares every proof the view serves with the independent ledger's.
func CheckProofs(v *View, lin *Lin, R uint64) (f *Finding, checked int) {
	if lin.Proofs == nil {
		return nil, 0
	}
	for id, k := range v.ServedProofs() {
		want, ok := lin.Proofs[id]
		if !ok {
			return &Finding{Kind: "c02-served-element-unknown-to-ledger", Detail: fmt.Sprintf("element %v is served but is not an unspent element of the chain according to the independent ledger", id)}, checked
		}
		if k != want {
			return &Finding{Kind: "c02-served-proof-differs-from-ledger", Detail: fmt.Sprintf("element %v is served with position/proof %s, the independent ledger (proofs maintained by core's updates) has %s", id, k, want)}, checked
		}
		checked++
	}
	if v.Height <= R && len(v.SC)+len(v.SF)+len(v.FC) != len(lin.Proofs) {
		return &Finding{Kind: "c02-element-set-differs-from-ledger", Detail: fmt.Sprintf("the buckets hold %d+%d+%d elements, the independent ledger %d", len(v.SC), len(v.SF), len(v.FC), len(lin.Proofs))}, checked
	}
	return nil, checked
}

// wellFormed checks that the apply diffs of a block fit the buckets they are
// applied to (the hypothesis of the Coq theorems, a law about core).
func wellFormed(prev *View, d Diffs) error {
	el := func(kind string, m map[types.Hash256][]byte, xs []EDiff) error {
		seen := map[types.Hash256]bool{}
		for _, e := range xs {
			if seen[e.ID] {
				return fmt.Errorf("%s element %v occurs twice in the diffs of one block", kind, e.ID)
			}
			seen[e.ID] = true
			have, ok := m[e.ID]
			switch {
			case e.Created && ok:
				return fmt.Errorf("%s element %v is created but already stored", kind, e.ID)
			case !e.Created && !ok:
				return fmt.Errorf("%s element %v is spent but not stored", kind, e.ID)
			case !e.Created && !bytes.Equal(have, e.Pay):
				return fmt.Errorf("%s element %v is spent with other bytes than stored", kind, e.ID)
			}
		}
		return nil
	}
	if err := el("siacoin", prev.SC, d.SC); err != nil {
		return err
	}
	if err := el("siafund", prev.SF, d.SF); err != nil {
		return err
	}
	seen := map[types.Hash256]bool{}
	for _, f := range d.FC {
		if seen[f.ID] {
			return fmt.Errorf("contract %v occurs twice in the diffs of one block", f.ID)
		}
		seen[f.ID] = true
		have, ok := prev.FC[f.ID]
		switch {
		case f.Created && ok:
			return fmt.Errorf("contract %v is created but already stored", f.ID)
		case !f.Created && !ok:
			return fmt.Errorf("contract %v is revised or resolved but not stored", f.ID)
		case !f.Created && !bytes.Equal(have, f.Pay):
			return fmt.Errorf("contract %v is revised or resolved, but the diff's element is not the stored one (revised and resolved in one block?)", f.ID)
		}
	}
	return nil
}

// Judge evaluates the monitors of C02 over the recorded steps: laws about
// core's diffs, then at every block boundary the comparison with the linear
// twin of the store's tip and the proofs of the independent ledger. It stops
// at the first finding (everything after a divergence is a consequence of it).
func Judge(nd *Node, tw *Twins) (_ *Finding, st Stats) {
	R := nd.T.Env.Net.HardforkV2.RequireHeight
	A := nd.T.Env.Net.HardforkV2.AllowHeight
	st = Stats{RevertedKinds: map[string]int{}, TriggerStep: -1}
	appliedInCall := map[[2]int]bool{}
	failedCall := map[int]bool{}
	belowCheckpoint := false
	em := NewExpModel(R)
	defer func() { st.Documented = em.Lists() }()
	applied := map[int]Diffs{}
	rr := map[types.Hash256]bool{}
	var maxH uint64
	for i, s := range nd.Steps {
		st.Steps++
		if s.Node < 0 {
			return &Finding{Kind: "c02-unknown-block-applied", Detail: "the store was handed a block the generator does not know", Step: i}, st
		}
		x := nd.T.Nodes[s.Node]
		if s.Apply {
			if prev, ok := applied[s.Node]; ok {
				if prev.Coq(NewNames()) != s.Diffs.Coq(NewNames()) {
					return &Finding{Kind: "c02-law-apply-diffs-not-deterministic", Detail: fmt.Sprintf("block %d was applied twice with different diff lists", s.Node), Step: i}, st
				}
			}
			applied[s.Node] = s.Diffs
			if id, ok := s.Diffs.RevisedAndResolved(); ok && x.Height <= R {
				// core's diff then carries the revised contract in place of the stored one: the
				// well-formedness law does not hold for this block (see KindReviseResolve)
				rr[id] = true
			} else if i > 0 && x.Height <= R && nd.Steps[i-1].View != nil {
				if err := wellFormed(nd.Steps[i-1].View, s.Diffs); err != nil {
					return &Finding{Kind: "c02-law-diffs-not-wellformed", Detail: fmt.Sprintf("block %d (kinds %v): %v", s.Node, x.Kinds, err), Step: i}, st
				}
			}
			em.Apply(x.Height, s.Diffs)
			appliedInCall[[2]int{s.Call, s.Node}] = true
			if len(x.Block.Transactions) > 0 && len(x.Block.V2Transactions()) > 0 {
				st.MixedBlocks++
			}
			if x.Height >= nd.T.Env.Net.HardforkV2.FinalCutHeight {
				st.FinalCut = true
			}
			if x.Height > maxH {
				maxH = x.Height
			}
		} else {
			st.Reverts++
			if appliedInCall[[2]int{s.Call, s.Node}] && !failedCall[s.Call] {
				failedCall[s.Call] = true
				st.FailedReorgs++
			}
			app, ok := applied[s.Node]
			if !ok {
				return &Finding{Kind: "c02-revert-of-unapplied-block", Detail: fmt.Sprintf("block %d was reverted but never applied", s.Node), Step: i}, st
			}
			if err := CheckL1(app, s.Diffs); err != nil {
				return &Finding{Kind: "c02-law-L1-violated", Detail: fmt.Sprintf("block %d: %v", s.Node, err), Step: i}, st
			}
			if s.Diffs.HasContractDiff() && x.Height <= R+1 {
				st.RevertedContractBlock = true
			}
			for _, k := range x.Kinds {
				st.RevertedKinds[k]++
			}
			perList := map[uint64]int{}
			for _, f := range s.Diffs.FC {
				if f.Resolved && !f.Created {
					perList[f.WE]++
				}
			}
			for we, n := range perList {
				if n >= 2 && we == x.Height {
					st.ExpiryReverted = true
				}
			}
			if em.Revert(x.Height, s.Diffs) {
				if !st.Trigger {
					st.TriggerStep = i
				}
				st.Trigger = true
			}
			if maxH >= R && x.Height <= R {
				st.CrossRequire = true
			}
			if maxH >= A && x.Height <= A {
				st.CrossAllow = true
			}
		}
		if nd.Base != nil && !s.Apply && nd.gateOn(s) {
			// The node was opened at a checkpoint at require height + 1 and has now reverted its own
			// checkpoint block: a reorg below the index the manager itself reports as the lowest
			// possible fork point (MinReorgIndex). revertElements then runs on element buckets that
			// never held the chain's elements (they are empty in a checkpoint store) and leaves the
			// block's spent elements in them. No node fed the best chain alone can be opened at the
			// same checkpoint, so there is no linear twin for these buckets: from here on only the
			// chain-level sections are compared with a store opened at the sibling checkpoint (the
			// buckets themselves stay compared, step by step, with the Coq store model).
			belowCheckpoint = true
		}
		if s.View == nil { // an unobserved step of a quiet node: only the laws about core's diffs are checked
			continue
		}
		// the store writes to the Tree bucket exactly what core's update emits (when the
		// height gate is open), and nothing otherwise
		{
			gate := x.Height <= R
			if !s.Apply {
				gate = x.Height <= R+1
			}
			emitted := map[[2]uint64]types.Hash256{}
			if gate {
				for _, t := range s.Diffs.Tree {
					emitted[[2]uint64{t.Row, t.Col}] = t.Hash
				}
			}
			for _, t := range s.TreeChanges {
				if h, ok := emitted[[2]uint64{t.Row, t.Col}]; !ok || h != t.Hash {
					return &Finding{Kind: "c02-tree-bucket-not-what-the-update-emits", Detail: fmt.Sprintf("%s of block %d changed Tree node (row %d, col %d) to %v; core's update emits %v (emitted: %v)", stepName(s), s.Node, t.Row, t.Col, t.Hash, h, ok), Step: i}, st
				}
			}
			for k, h := range emitted {
				if s.View.Tree[k] != h {
					return &Finding{Kind: "c02-tree-bucket-not-what-the-update-emits", Detail: fmt.Sprintf("%s of block %d: core's update emits Tree node (row %d, col %d) = %v, the bucket holds %v", stepName(s), s.Node, k[0], k[1], h, s.View.Tree[k]), Step: i}, st
				}
			}
		}
		// a panicking serving function is reported after the comparison of the buckets (the
		// cause is usually visible there), or on its own when there is no twin for this boundary
		var panicked *Finding
		if s.View.Panic != "" {
			panicked = &Finding{Kind: "c02-serving-panics", Detail: fmt.Sprintf("after %s of block %d a serving function of the store panicked: %s", stepName(s), s.Node, s.View.Panic), Step: i}
		}
		if s.Tip < 0 {
			if panicked != nil {
				return panicked, st
			}
			continue
		}
		tip := nd.T.Nodes[s.Tip]
		base, ok := twinBase(nd, tip)
		if !ok {
			if panicked != nil {
				return panicked, st
			}
			continue
		}
		lin, err := tw.Get(base, tip)
		if err != nil {
			return &Finding{Kind: "c02-twin-failed", Detail: err.Error(), Step: i}, st
		}
		st.Compared++
		if belowCheckpoint {
			st.BelowCheckpoint++
			if f := compareChainOnly(s.View, lin); f != nil {
				f.Step = i
				return f, st
			}
			if panicked != nil {
				return panicked, st
			}
			continue
		}
		if f, _ := CompareWithTwin(s.View, lin, st.Trigger, em.Lists()); f != nil {
			f.Step = i
			if len(rr) > 0 && (f.Kind == "c02-file-contract-elements-differ" || f.Kind == "c02-accumulator-nodes-differ") {
				confined, names := true, false
				var fcDetail string
				for _, d := range Compare(s.View, lin.View) {
					switch d.Section {
					case "tree-live-nodes", "expiration-lists", "expiring-ids-served", "supplement-tip-transaction", "supplement-tip-block", "extreme-argument-answers":
					case "file-contracts":
						fcDetail = d.Detail
						for id := range rr {
							if strings.Contains(d.Detail, id.String()) {
								names = true
							}
						}
					default:
						confined = false
					}
				}
				if confined && names {
					f.Kind = KindReviseResolve
					f.Detail = "a reverted block revised and resolved one contract; core's diff for it carries the revised contract in place of the prior one, so the store restored the revision (and core's revert update rewrote the contract's accumulator leaf with the revision's hash): file-contracts: " + fcDetail
				}
			}
			f.Detail = fmt.Sprintf("after %s of block %d (height %d, kinds %v; store tip %d): %s", stepName(s), s.Node, x.Height, x.Kinds, s.Tip, f.Detail)
			return f, st
		}
		if panicked != nil {
			return panicked, st
		}
		f, n := CheckProofs(s.View, lin, R)
		st.ProofsChecked += n
		if f != nil {
			f.Step = i
			f.Detail = fmt.Sprintf("after %s of block %d: %s", stepName(s), s.Node, f.Detail)
			return f, st
		}
	}
	return nil, st
}

func stepName(s *StepRec) string {
	if s.Apply {
		return "ApplyBlock"
	}
	return "RevertBlock"
}
