package storeobs

import (
	"fmt"
	"sort"
	"strings"

	"go.sia.tech/core/types"
)

func nlist(xs []uint64) string {
	s := make([]string, len(xs))
	for i, x := range xs {
		s[i] = fmt.Sprint(x)
	}
	return "[" + strings.Join(s, "; ") + "]"
}

func (n *Names) idList(ids []types.Hash256) string {
	xs := make([]uint64, len(ids))
	for i, id := range ids {
		xs[i] = n.ID(id)
	}
	return nlist(xs)
}

func (n *Names) bucket(m map[types.Hash256][]byte) string {
	type kv struct{ k, v uint64 }
	var kvs []kv
	for _, id := range sortedIDs(m) {
		kvs = append(kvs, kv{n.ID(id), n.Pay(m[id])})
	}
	sort.Slice(kvs, func(i, j int) bool { return kvs[i].k < kvs[j].k })
	s := make([]string, len(kvs))
	for i, e := range kvs {
		s[i] = fmt.Sprintf("(%d, %d)", e.k, e.v)
	}
	return "[" + strings.Join(s, "; ") + "]"
}

// CoqDump renders the abstract dump of a step; full adds the siacoin/siafund
// buckets, the main chain and the probe results.
func (n *Names) CoqDump(st *StepRec, blockName func(types.BlockID) uint64, full bool) string {
	v := st.View
	var fc []string
	{
		type e struct{ k, p, we uint64 }
		var es []e
		for _, id := range sortedIDs(v.FC) {
			es = append(es, e{n.ID(id), n.Pay(v.FC[id]), v.FCWE[id]})
		}
		sort.Slice(es, func(i, j int) bool { return es[i].k < es[j].k })
		for _, x := range es {
			fc = append(fc, fmt.Sprintf("(%d, (%d, %d))", x.k, x.p, x.we))
		}
	}
	var ex []string
	{
		var hs []uint64
		for h := range v.Exp {
			hs = append(hs, h)
		}
		sort.Slice(hs, func(i, j int) bool { return hs[i] < hs[j] })
		for _, h := range hs {
			ex = append(ex, fmt.Sprintf("(%d, %s)", h, n.idList(v.Exp[h])))
		}
	}
	var supb []types.Hash256
	for _, e := range v.SuppBlock.ExpiringFileContracts {
		supb = append(supb, types.Hash256(e.ID))
	}
	fullS := "None"
	if full {
		var mc []string
		var hs []uint64
		for h := range v.MainRaw {
			hs = append(hs, h)
		}
		sort.Slice(hs, func(i, j int) bool { return hs[i] < hs[j] })
		for _, h := range hs {
			mc = append(mc, fmt.Sprintf("(%d, %d)", h, blockName(v.MainRaw[h])))
		}
		fullS = fmt.Sprintf("(Some (%s, %s, [%s], (%s, %s, %s)))", n.bucket(v.SC), n.bucket(v.SF), strings.Join(mc, "; "),
			n.idList(st.ProbeSC), n.idList(st.ProbeSF), n.idList(st.ProbeFC))
	}
	proofS := "None"
	if full {
		var ps []string
		for _, p := range st.ProbeProofs {
			ps = append(ps, fmt.Sprintf("(%d, %d)", p[0], p[1]))
		}
		proofS = fmt.Sprintf("(Some (%d, [%s]))", v.NumLeaves, strings.Join(ps, "; "))
	}
	return fmt.Sprintf("mk_dump %d [%s] [%s] %s %s %s", v.Height, strings.Join(fc, "; "), strings.Join(ex, "; "), n.idList(supb), fullS, proofS)
}

// CoqCase renders a history of the node as a Run_C02 case. Blocks are named by
// their tree index (unknown blocks cannot occur: the store only sees tree blocks).
func (nd *Node) CoqCase() string {
	for _, st := range nd.Steps {
		if st.Node < 0 {
			return "" // the store was handed a block the tree does not know (reported by Judge): no case
		}
	}
	n := nd.Names
	blockName := func(id types.BlockID) uint64 {
		if x, ok := nd.T.ByID[id]; ok {
			return uint64(x.Idx)
		}
		return 999999
	}
	// apply diffs per block: the first apply of each block (L1 and determinism are checked by the monitors)
	blocks := map[int]Diffs{}
	var order []int
	for _, st := range nd.Steps {
		if st.Apply {
			if _, ok := blocks[st.Node]; !ok {
				blocks[st.Node] = st.Diffs
				order = append(order, st.Node)
			}
		}
	}
	var bl []string
	for _, idx := range order {
		bl = append(bl, fmt.Sprintf("(%d, (%d, %s))", idx, nd.T.Nodes[idx].Height, blocks[idx].Coq(n)))
	}
	var steps []string
	for i, st := range nd.Steps {
		full := i+1 == len(nd.Steps) || nd.Steps[i+1].Call != st.Call
		c := "CRevert"
		if st.Apply {
			c = "CApply"
		}
		steps = append(steps, fmt.Sprintf("(%s %d, %s)", c, st.Node, n.CoqDump(st, blockName, full)))
	}
	probe := fmt.Sprintf("(Probe %s %s %s)", n.idList(n.SC), n.idList(n.SF), n.idList(n.FC))
	var ts []string
	for _, st := range nd.Steps {
		if _, ok := st.Diffs.RevisedAndResolved(); ok {
			// known finding: core's revert update for such a block does not restore the old leaf
			// hash (law L1 fails for the accumulator); the Tree bucket is not recorded from here on
			break
		}
		if nd.Base != nil && nd.gateOn(st) {
			// a store opened at a checkpoint starts with an empty Tree bucket under an accumulator
			// that already has leaves: Run_C02's tree model (which starts from the empty accumulator
			// at genesis, as the theorems do) does not describe it. The only step of such a store
			// that touches the bucket is a revert of the checkpoint block at require height + 1;
			// the Tree bucket is not rendered from there on (the monitors of Judge still compare
			// it with core's update and with the twin).
			break
		}
		ts = append(ts, n.CoqTreeStep(st))
	}
	return fmt.Sprintf("mk_case %d\n [%s]\n %s\n [%s]\n [%s]", nd.T.Env.Net.HardforkV2.RequireHeight, strings.Join(bl, ";\n  "), probe, strings.Join(steps, ";\n  "), strings.Join(ts, ";\n  "))
}

// CoqTreeStep renders what happened to the Tree bucket in a step: the row-0
// nodes of core's update, the accumulator size it leads to, and the changed
// bucket entries.
func (n *Names) CoqTreeStep(st *StepRec) string {
	var ups, ch []string
	for _, t := range st.Diffs.Tree {
		if t.Row == 0 {
			ups = append(ups, fmt.Sprintf("(%d, %d)", t.Col, n.Pay(t.Hash[:])))
		}
	}
	for _, t := range st.TreeChanges {
		ch = append(ch, fmt.Sprintf("((%d%%nat, %d), %d)", t.Row, t.Col, n.Pay(t.Hash[:])))
	}
	return fmt.Sprintf("([%s], %d, [%s])", strings.Join(ups, "; "), st.Diffs.NumLeaves, strings.Join(ch, "; "))
}

// gateOn says whether the store touches its element and Tree buckets in the step
// (DBStore: apply iff the block's height <= require height, revert iff its parent's is).
func (nd *Node) gateOn(st *StepRec) bool {
	h := nd.T.Nodes[st.Node].Height
	r := nd.T.Env.Net.HardforkV2.RequireHeight
	if st.Apply {
		return h <= r
	}
	return h >= 1 && h-1 <= r
}
