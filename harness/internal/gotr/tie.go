package gotr

import (
	"fmt"
	"os"
	"os/exec"
	"path/filepath"
	"strings"
	"sync"

	"verif/harness/internal/out"
)

// VerifRoot is the root of the verification tree (where coq/ lives).
func VerifRoot() string {
	if v := os.Getenv("VERIF_ROOT"); v != "" {
		return v
	}
	if wd, err := os.Getwd(); err == nil { // bin/check runs the harness from the verification root
		if _, err := os.Stat(filepath.Join(wd, "coq", "_CoqProject")); err == nil {
			return wd
		}
	}
	return "/verif"
}

// StripCoqComments removes (nested) Coq comments and normalises white space.
func StripCoqComments(s string) string {
	var b strings.Builder
	depth := 0
	for i := 0; i < len(s); i++ {
		switch {
		case strings.HasPrefix(s[i:], "(*"):
			depth++
			i++
		case strings.HasPrefix(s[i:], "*)") && depth > 0:
			depth--
			i++
		case depth == 0:
			b.WriteByte(s[i])
		}
	}
	return strings.Join(strings.Fields(b.String()), " ")
}

// Coqc compiles file (relative to dir) with the CV load path.
func Coqc(dir, file string) (string, error) {
	cmd := exec.Command("coqc", "-Q", filepath.Join(VerifRoot(), "coq"), "CV", "-w", "-notation-overridden", file)
	cmd.Dir = dir
	outp, err := cmd.CombinedOutput()
	msg := string(outp)
	if len(msg) > 800 {
		msg = msg[len(msg)-800:]
	}
	return msg, err
}

// A comparison of one generated definition with the hand-written model on a finite domain.
type comparison struct {
	def    Def
	model  string // Coq term over the parameter names: the hand-written side
	what   string // the hand-written definitions involved, for messages
	domain [][]string
}

// Tie regenerates model functions of one property from the repository's source,
// compiles them into the run directory (<Prop>Gen.v) and has Coq compare them
// with the hand-written definitions on finite domains (one extra cases file per
// function, evaluated by bin/check like any other: a difference is a
// correspondence mismatch whose case names the function).
type Tie struct {
	Prop    string
	Res     *out.Result
	Repo    string
	Imports []string // CV modules holding the hand-written definitions, e.g. "Net.Converge"
	Prelude string   // extra vernacular after the imports of the generated module (Section variables are not supported here)
	files   map[string]*File
	defs    []Def
	cmps    []comparison
	proofs  []proof
}

// NewTie starts a tie for a property.
func NewTie(prop string, res *out.Result, repo string, imports ...string) *Tie {
	return &Tie{Prop: prop, Res: res, Repo: repo, Imports: imports, files: map[string]*File{}}
}

func (tie *Tie) note(s string) { tie.Res.Notes = append(tie.Res.Notes, s) }

// File parses a source file of the repository (cached).
func (tie *Tie) File(rel string) (*File, error) {
	if f, ok := tie.files[rel]; ok {
		return f, nil
	}
	f, err := Parse(filepath.Join(tie.Repo, rel))
	if err != nil {
		return nil, err
	}
	f.Path = rel
	tie.files[rel] = f
	return f, nil
}

// Add registers a generated definition; a definition whose source is outside the
// subset becomes a note in the evidence.
func (tie *Tie) Add(d Def) Def {
	if d.Err != nil {
		tie.Res.Count("model-tie:" + d.Name + ":translator-unsupported")
		tie.note(fmt.Sprintf("go/ast translator (gotr): %s is outside the translated subset (%s); %s is not regenerated on this run and the hand-written model stands alone", d.Source, strings.Join(strings.Fields(d.Err.Error()), " "), d.Name))
		return d
	}
	tie.defs = append(tie.defs, d)
	return d
}

// Func translates a function of a repository file and registers it.
func (tie *Tie) Func(rel, sel, name string, free []Param, opts ...func(*Tr)) Def {
	f, err := tie.File(rel)
	if err != nil {
		return tie.Add(Def{Name: name, Source: rel + ": " + sel, Err: err})
	}
	return tie.Add(f.Func(sel, name, free, opts...))
}

// Expr translates one expression of a function of a repository file and registers it.
func (tie *Tie) Expr(rel, sel, name string, find Finder, what string, params []Param, result Type, opts ...func(*Tr)) Def {
	f, err := tie.File(rel)
	if err != nil {
		return tie.Add(Def{Name: name, Source: rel + ": " + sel, Err: err})
	}
	return tie.Add(f.Expr(sel, name, find, what, params, result, opts...))
}

// Compare asks for `d args = model` (model: a Coq term of type N over d's parameter
// names, built from the hand-written definitions `what`) on every tuple of the domain.
func (tie *Tie) Compare(d Def, model, what string, domain [][]string) {
	if d.Err != nil {
		return
	}
	tie.cmps = append(tie.cmps, comparison{d, model, what, domain})
}

// Prove asks Coq to prove, on this run, that the regenerated definition equals the
// hand-written one for *all* arguments satisfying the stated bounds: statement is the
// lemma statement (over d's parameter names, universally quantified by this function),
// script the proof script. A proof that goes through is recorded in the evidence ("proved for
// all inputs on this run"); one that does not (a refactored source can need another script) is
// recorded as a note and leaves the comparison on the finite domain: never an alarm.
func (tie *Tie) Prove(d Def, statement, script string) {
	if d.Err != nil {
		return
	}
	tie.proofs = append(tie.proofs, proof{d, statement, script})
}

// splitIfs is available to every proof script: case analysis on the conditions of the
// regenerated ifs, innermost first, with the boolean tests turned into propositions.
const splitIfs = `Ltac split_ifs :=
  repeat match goal with
  | |- context [if ?b then _ else _] =>
      lazymatch b with
      | context [if _ then _ else _] => fail
      | _ => let E := fresh "E" in destruct b eqn:E
      end
  end;
  repeat match goal with
  | H : (_ <=? _) = true |- _ => apply N.leb_le in H
  | H : (_ <=? _) = false |- _ => apply N.leb_gt in H
  | H : (_ <? _) = true |- _ => apply N.ltb_lt in H
  | H : (_ <? _) = false |- _ => apply N.ltb_ge in H
  | H : (_ =? _) = true |- _ => apply N.eqb_eq in H
  | H : (_ =? _) = false |- _ => apply N.eqb_neq in H
  end.
`

type proof struct {
	def               Def
	statement, script string
}

func (tie *Tie) runProofs() {
	dir := tie.Res.Dir()
	type outcome struct {
		outp []byte
		err  error
	}
	results := make([]outcome, len(tie.proofs))
	var wg sync.WaitGroup
	for i, p := range tie.proofs { // write all proof files and check them concurrently
		name := fmt.Sprintf("gotr_%s_%s_proof.v", tie.Prop, p.def.Name)
		names := make([]string, len(p.def.Params))
		for i, q := range p.def.Params {
			names[i] = q.Name
		}
		var sb strings.Builder
		fmt.Fprintf(&sb, "(* for all inputs: %s regenerated from %s equals the hand-written model *)\n", p.def.Name, p.def.Source)
		sb.WriteString("From Coq Require Import NArith ZArith List Bool Lia ZifyN.\nImport ListNotations.\n")
		if len(tie.Imports) > 0 {
			fmt.Fprintf(&sb, "From CV Require Import %s.\n", strings.Join(tie.Imports, " "))
		}
		fmt.Fprintf(&sb, "Require Import %s.\nOpen Scope N_scope.\nLtac Zify.zify_post_hook ::= Z.div_mod_to_equations.\n%s", tie.GenModule(), splitIfs)
		fmt.Fprintf(&sb, "Lemma %s_equals_model : forall %s : N, %s.\nProof.\n%s\nQed.\nPrint Assumptions %s_equals_model.\n", p.def.Name, strings.Join(names, " "), p.statement, p.script, p.def.Name)
		os.WriteFile(filepath.Join(dir, name), []byte(sb.String()), 0o644)
		wg.Add(1)
		go func(i int, name string) {
			defer wg.Done()
			cmd := exec.Command("timeout", "120", "coqc", "-Q", filepath.Join(VerifRoot(), "coq"), "CV", "-w", "-notation-overridden", name)
			cmd.Dir = dir
			results[i].outp, results[i].err = cmd.CombinedOutput()
		}(i, name)
	}
	wg.Wait()
	for i, p := range tie.proofs {
		name := fmt.Sprintf("gotr_%s_%s_proof.v", tie.Prop, p.def.Name)
		names := make([]string, len(p.def.Params))
		for j, q := range p.def.Params {
			names[j] = q.Name
		}
		outp, err := results[i].outp, results[i].err
		if err == nil && strings.Contains(string(outp), "Closed under the global context") {
			tie.Res.Count("model-tie:" + p.def.Name + ":proved-equal-for-all-inputs")
			tie.Res.Explored["gotr_"+p.def.Name+"_proved"] = "forall " + strings.Join(names, " ") + ", " + p.statement
			tie.note(fmt.Sprintf("model tie (gotr): proved by Coq on this run, axiom-free, for all arguments: %s (%s; the definition regenerated from %s)", p.statement, name, p.def.Source))
		} else {
			msg := string(outp)
			if len(msg) > 500 {
				msg = msg[len(msg)-500:]
			}
			tie.Res.Count("model-tie:" + p.def.Name + ":not-proved")
			tie.note(fmt.Sprintf("model tie (gotr): the proof script for `%s` did not go through on the regenerated %s (%v %s); the comparison on the finite domain stands", p.statement, p.def.Name, err, strings.Join(strings.Fields(msg), " ")))
		}
	}
}

// GenModule is the name of the generated module.
func (tie *Tie) GenModule() string { return tie.Prop + "Gen" }

// GenText is the text of the generated module.
func (tie *Tie) GenText() string {
	var sb strings.Builder
	sb.WriteString("(* regenerated from the repository's source by harness/internal/gotr on this run; do not edit *)\n")
	sb.WriteString("From Coq Require Import NArith List Bool.\nImport ListNotations.\nOpen Scope N_scope.\n")
	if tie.Prelude != "" {
		sb.WriteString(tie.Prelude + "\n")
	}
	for _, d := range tie.defs {
		fmt.Fprintf(&sb, "\n(* %s *)\n", d.Source)
		for _, n := range d.Notes {
			fmt.Fprintf(&sb, "(* assumption: %s *)\n", strings.ReplaceAll(n, "*)", "* )"))
		}
		sb.WriteString(d.Text + "\n")
	}
	return sb.String()
}

// Finish writes and compiles the generated module and writes the comparison cases files.
func (tie *Tie) Finish() {
	if len(tie.defs) == 0 {
		return
	}
	dir := tie.Res.Dir()
	mod := tie.GenModule()
	os.WriteFile(filepath.Join(dir, mod+".v"), []byte(tie.GenText()), 0o644)
	if msg, err := Coqc(dir, mod+".v"); err != nil {
		tie.Res.Count("model-tie:regenerated-does-not-compile")
		tie.note(fmt.Sprintf("go/ast translator (gotr): the definitions regenerated for %s do not compile (%v: %s); the hand-written models stand alone on this run", tie.Prop, err, msg))
		return
	}
	if tie.Res.Explored == nil {
		tie.Res.Explored = map[string]any{}
	}
	tie.runProofs()
	for _, c := range tie.cmps {
		name := fmt.Sprintf("gotr_%s_%s.v", tie.Prop, c.def.Name)
		ctor := c.def.Name + "_regenerated_from_source_differs_from_model"
		names := make([]string, len(c.def.Params))
		binders := make([]string, len(c.def.Params))
		for i, p := range c.def.Params {
			names[i] = p.Name
			binders[i] = fmt.Sprintf("(%s : %s)", p.Name, coqType(p.Type))
		}
		var sb strings.Builder
		fmt.Fprintf(&sb, "(* %s regenerated from %s, compared with the hand-written %s *)\n", c.def.Name, c.def.Source, c.what)
		sb.WriteString("From Coq Require Import NArith ZArith List Bool.\nImport ListNotations.\n")
		if len(tie.Imports) > 0 {
			fmt.Fprintf(&sb, "From CV Require Import %s.\n", strings.Join(tie.Imports, " "))
		}
		fmt.Fprintf(&sb, "Require Import %s.\nOpen Scope N_scope.\n", mod)
		fmt.Fprintf(&sb, "Inductive case := %s %s.\n", ctor, strings.Join(binders, " "))
		fmt.Fprintf(&sb, "Definition check_case (c : case) : bool :=\n  match c with %s %s => N.eqb (%s.%s %s) (%s) end.\n", ctor, strings.Join(names, " "), mod, c.def.Name, strings.Join(names, " "), c.model)
		sb.WriteString("Fixpoint mismatches_from (i : N) (cs : list case) : list N :=\n  match cs with\n  | [] => []\n  | c :: cs' => if check_case c then mismatches_from (N.succ i) cs' else i :: mismatches_from (N.succ i) cs'\n  end.\n")
		sb.WriteString("Definition cases : list case := [\n")
		lines := make([]string, len(c.domain))
		for i, tup := range c.domain {
			lines[i] = ctor + " " + strings.Join(tup, " ")
		}
		sb.WriteString(strings.Join(lines, ";\n"))
		sb.WriteString("\n].\nDefinition M := Eval vm_compute in mismatches_from 0 cases.\nPrint M.\n")
		os.WriteFile(filepath.Join(dir, name), []byte(sb.String()), 0o644)
		tie.Res.CaseFiles = append(tie.Res.CaseFiles, name)
		tie.Res.CaseCount += len(c.domain)
		tie.Res.Count("model-tie:" + c.def.Name + ":regenerated-and-compared")
		tie.Res.Explored["gotr_"+c.def.Name] = fmt.Sprintf("regenerated from %s; compared with %s on %d argument tuples", c.def.Source, c.what, len(c.domain))
		tie.note(fmt.Sprintf("model tie (gotr): %s was regenerated from %s by the go/ast translator and is compared inside Coq with the hand-written %s on %d argument tuples (%s); a difference is a correspondence mismatch of that file", c.def.Name, c.def.Source, c.what, len(c.domain), name))
	}
}

// Grid is the cartesian product of value lists, as decimal strings.
func Grid(axes ...[]uint64) [][]string {
	res := [][]string{{}}
	for _, ax := range axes {
		var next [][]string
		for _, pre := range res {
			for _, v := range ax {
				next = append(next, append(append([]string(nil), pre...), fmt.Sprint(v)))
			}
		}
		res = next
	}
	return res
}

// Range is lo..hi inclusive.
func Range(lo, hi uint64) []uint64 {
	var r []uint64
	for v := lo; v <= hi; v++ {
		r = append(r, v)
		if v == ^uint64(0) {
			break
		}
	}
	return r
}
