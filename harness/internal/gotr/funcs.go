package gotr

import (
	"fmt"
	"go/ast"
	"go/parser"
	"go/token"
	"go/types"
	"strings"
)

// Def is one generated Gallina definition.
type Def struct {
	Name   string
	Text   string   // "Definition name (a b : N) : N := ... ."
	Params []Param  // in order
	Result []Type   // result types
	Source string   // where it came from: "chain/manager.go: Manager.History/histHeight"
	Notes  []string // modelling assumptions used
	Err    error    // non-nil: the source is outside the subset (Text is empty)
}

// File is a parsed Go source file.
type File struct {
	Fset *token.FileSet
	AST  *ast.File
	Path string
}

// Parse parses a Go source file.
func Parse(path string) (*File, error) {
	fset := token.NewFileSet()
	f, err := parser.ParseFile(fset, path, nil, 0)
	if err != nil {
		return nil, err
	}
	return &File{fset, f, path}, nil
}

// Find locates a function: "name" (top level), "Recv.name" (method) and, with a
// "/closure" suffix, the function literal assigned to the variable `closure`
// inside it (`closure := func(...) ... { ... }`).
func (f *File) Find(sel string) (*ast.FuncType, *ast.BlockStmt, error) {
	outer, closure, _ := strings.Cut(sel, "/")
	recv, name := "", outer
	if i := strings.Index(outer, "."); i >= 0 {
		recv, name = outer[:i], outer[i+1:]
	}
	for _, d := range f.AST.Decls {
		fd, ok := d.(*ast.FuncDecl)
		if !ok || fd.Name.Name != name || fd.Body == nil {
			continue
		}
		r := ""
		if fd.Recv != nil && len(fd.Recv.List) == 1 {
			r = strings.TrimPrefix(types.ExprString(fd.Recv.List[0].Type), "*")
		}
		if r != recv {
			continue
		}
		if closure == "" {
			return fd.Type, fd.Body, nil
		}
		var ft *ast.FuncType
		var body *ast.BlockStmt
		ast.Inspect(fd.Body, func(n ast.Node) bool {
			as, ok := n.(*ast.AssignStmt)
			if ok && ft == nil && len(as.Lhs) == 1 && len(as.Rhs) == 1 && types.ExprString(as.Lhs[0]) == closure {
				if fl, ok := as.Rhs[0].(*ast.FuncLit); ok {
					ft, body = fl.Type, fl.Body
				}
			}
			return ft == nil
		})
		if ft == nil {
			return nil, nil, fmt.Errorf("no function literal assigned to %s in %s", closure, outer)
		}
		return ft, body, nil
	}
	return nil, nil, fmt.Errorf("function %s not found in %s", outer, f.Path)
}

func coqType(t Type) string {
	if t == Bool {
		return "bool"
	}
	return "N"
}

func header(name string, params []Param, result []Type) string {
	var sb strings.Builder
	sb.WriteString("Definition " + name)
	for i := 0; i < len(params); {
		j := i
		for j < len(params) && coqType(params[j].Type) == coqType(params[i].Type) {
			j++
		}
		names := make([]string, 0, j-i)
		for _, p := range params[i:j] {
			names = append(names, p.Name)
		}
		fmt.Fprintf(&sb, " (%s : %s)", strings.Join(names, " "), coqType(params[i].Type))
		i = j
	}
	rs := make([]string, len(result))
	for i, r := range result {
		rs[i] = coqType(r)
	}
	sb.WriteString(" : " + strings.Join(rs, " * ") + " :=\n")
	return sb.String()
}

// Func translates a whole function (or closure) into a definition called name.
// free are the variables the code captures from its surroundings; they become
// additional parameters, after the function's own. Options may adjust the context.
func (f *File) Func(sel, name string, free []Param, opts ...func(*Tr)) (d Def) {
	d = Def{Name: name, Source: f.Path + ": " + sel}
	ft, body, err := f.Find(sel)
	if err != nil {
		d.Err = err
		return
	}
	t := New(f.Fset)
	for _, o := range opts {
		o(t)
	}
	d.Err = Catch(func() {
		for _, fl := range ft.Params.List {
			ty, ok := TypeOf(types.ExprString(fl.Type))
			if !ok {
				t.Fail(fl, "parameter type %s is not in the subset", types.ExprString(fl.Type))
			}
			for _, n := range fl.Names {
				d.Params = append(d.Params, Param{n.Name, ty})
			}
		}
		d.Params = append(d.Params, free...)
		for _, p := range d.Params {
			t.Env[p.Name] = p.Type
		}
		if ft.Results == nil || len(ft.Results.List) == 0 {
			t.Fail(ft, "the function returns nothing")
		}
		for _, fl := range ft.Results.List {
			ty, ok := TypeOf(types.ExprString(fl.Type))
			if !ok {
				t.Fail(fl, "result type %s is not in the subset", types.ExprString(fl.Type))
			}
			n := len(fl.Names)
			if n == 0 {
				n = 1
			}
			for ; n > 0; n-- {
				d.Result = append(d.Result, ty)
			}
		}
		t.Results = d.Result
		d.Text = header(name, d.Params, d.Result) + t.Block(body.List, "  ") + "."
	})
	d.Notes = t.Notes
	if d.Err != nil {
		d.Text = ""
	}
	return
}

// A Finder picks one expression out of a function body.
type Finder func(body *ast.BlockStmt) ast.Expr

// MakeLen finds the length argument of `v = make(T, len)` / `v := make(T, len)`.
func MakeLen(v string) Finder {
	return func(body *ast.BlockStmt) (found ast.Expr) {
		ast.Inspect(body, func(n ast.Node) bool {
			as, ok := n.(*ast.AssignStmt)
			if ok && found == nil {
				for i, l := range as.Lhs {
					if types.ExprString(l) == v && i < len(as.Rhs) {
						if c, ok := as.Rhs[i].(*ast.CallExpr); ok && types.ExprString(c.Fun) == "make" && len(c.Args) >= 2 {
							found = c.Args[1]
						}
					}
				}
			}
			return found == nil
		})
		return
	}
}

// AssignedTo finds the right-hand side of the first assignment to v.
func AssignedTo(v string) Finder {
	return func(body *ast.BlockStmt) (found ast.Expr) {
		ast.Inspect(body, func(n ast.Node) bool {
			as, ok := n.(*ast.AssignStmt)
			if ok && found == nil && len(as.Lhs) == len(as.Rhs) {
				for i, l := range as.Lhs {
					if types.ExprString(l) == v {
						found = as.Rhs[i]
					}
				}
			}
			return found == nil
		})
		return
	}
}

// Returned finds the operand of the (first) return statement.
func Returned() Finder {
	return func(body *ast.BlockStmt) (found ast.Expr) {
		ast.Inspect(body, func(n ast.Node) bool {
			if r, ok := n.(*ast.ReturnStmt); ok && found == nil && len(r.Results) == 1 {
				found = r.Results[0]
			}
			return found == nil
		})
		return
	}
}

// Expr translates one expression of a function that is not pure as a whole (it
// reads a database, say) into a definition over the given, typed variables.
func (f *File) Expr(sel, name string, find Finder, what string, params []Param, result Type, opts ...func(*Tr)) (d Def) {
	d = Def{Name: name, Source: f.Path + ": " + sel + " (" + what + ")", Params: params, Result: []Type{result}}
	_, body, err := f.Find(sel)
	if err != nil {
		d.Err = err
		return
	}
	e := find(body)
	if e == nil {
		d.Err = fmt.Errorf("%s: %s not found in %s", f.Path, what, sel)
		return
	}
	t := New(f.Fset)
	for _, o := range opts {
		o(t)
	}
	for _, p := range params {
		t.Env[p.Name] = p.Type
	}
	d.Err = Catch(func() {
		text, _ := t.Expr(e, result)
		d.Text = header(name, params, d.Result) + "  " + text + "."
	})
	d.Notes = t.Notes
	return
}
