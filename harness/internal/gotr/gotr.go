// Package gotr translates a small, pure, integer subset of Go into Gallina over
// N, so that a hand-written Coq model of such code can be tied to the source on
// every run (regenerate, compile next to the model, compare).
//
// Subset
//
//	types        uint64, uint32, uint16, uint8/byte (wrap-around made explicit with
//	             `mod 2 ^ w`), int (see below), bool, untyped integer constants
//	expressions  + - * / % << >> & | ^ &^, unary ^ and -, comparisons, && || !,
//	             conversions between the integer types, min, max, bits.Len64/32,
//	             bits.LeadingZeros64, parentheses; anything else through the hooks
//	statements   x := e, x = e, x op= e, x++/x--, var x T [= e], parallel assignment,
//	             if / else if / else, counted loops `for i := a; i < b; i++`,
//	             `for i := a; i <= b; i++`, `for i := range n` (as fuelled structural
//	             recursion), return (one or several results)
//
// Every Go assignment becomes a shadowing `let`, so statement order is kept.
// `int` values are modelled as unbounded naturals: exact as long as the Go value
// is non-negative and does not overflow (int subtraction is truncated in N; each
// use is listed in Def.Notes). Division by zero, shifts by negative counts and
// out-of-range conversions panic in Go and are not modelled.
//
// Anything outside the subset makes the translation fail with an error that
// names the position; callers turn that into a note in the evidence, never into
// an alarm.
package gotr

import (
	"bytes"
	"fmt"
	"go/ast"
	"go/printer"
	"go/token"
	"go/types"
	"sort"
	"strings"
)

// Type is the Go type of an expression as far as the translation cares.
type Type int

// The types of the subset.
const (
	Untyped Type = iota // untyped integer constant
	Int
	U8
	U16
	U32
	U64
	Bool
)

// Bits is the width of an unsigned type, 0 for the others.
func (t Type) Bits() int {
	switch t {
	case U8:
		return 8
	case U16:
		return 16
	case U32:
		return 32
	case U64:
		return 64
	}
	return 0
}

func (t Type) String() string {
	return [...]string{"untyped", "int", "uint8", "uint16", "uint32", "uint64", "bool"}[t]
}

// TypeOf maps a Go type name to a Type.
func TypeOf(name string) (Type, bool) {
	switch name {
	case "int", "uint", "int64", "int32":
		// signed and platform types are all modelled as naturals without wrap-around
		return Int, true
	case "uint8", "byte":
		return U8, true
	case "uint16":
		return U16, true
	case "uint32":
		return U32, true
	case "uint64":
		return U64, true
	case "bool":
		return Bool, true
	}
	return Untyped, false
}

// Param is a typed variable: a parameter of the generated function.
type Param struct {
	Name string
	Type Type
}

// Unsupported is the panic payload (and error) for code outside the subset.
type Unsupported struct{ Msg string }

func (u Unsupported) Error() string { return u.Msg }

// Catch runs f and turns an Unsupported panic into an error.
func Catch(f func()) (err error) {
	defer func() {
		if r := recover(); r != nil {
			u, ok := r.(Unsupported)
			if !ok {
				panic(r)
			}
			err = u
		}
	}()
	f()
	return nil
}

// Dialect says how the width-dependent operations are written. The default writes
// the wrap-around out (`(N.shiftl a k) mod 2 ^ 64`); a model that has its own named
// operations (C20: shl64 / shr64) overrides the entries.
type Dialect struct {
	Shl func(a, k string, bits int) string
	Shr func(a, k string, bits int) string
	// NoWrapBitops: & | ^ of in-range operands stay in range, so never wrapped (always true here).
}

// Tr is a translation context.
type Tr struct {
	Fset    *token.FileSet
	Env     map[string]Type // variables in scope
	Dialect Dialect
	// CallHook / IndexHook translate calls and index expressions the subset does not know
	// (external functions as Section variables, table lookups). They return ok=false to decline.
	CallHook  func(t *Tr, c *ast.CallExpr, want Type) (text string, typ Type, ok bool)
	IndexHook func(t *Tr, x *ast.IndexExpr, want Type) (text string, typ Type, ok bool)
	// Results are the result types of the function being translated (context for constants in returns).
	Results []Type
	// PanicValue, when non-empty, is the term a `panic(...)` statement is modelled as.
	PanicValue string
	// Notes collects the modelling assumptions the translation relied on.
	Notes []string
	fresh int
}

// New returns a context with the default dialect.
func New(fset *token.FileSet) *Tr {
	return &Tr{Fset: fset, Env: map[string]Type{}}
}

// Fail aborts the translation.
func (t *Tr) Fail(n ast.Node, format string, a ...any) {
	pos := ""
	if n != nil && t.Fset != nil {
		pos = t.Fset.Position(n.Pos()).String() + ": "
	}
	panic(Unsupported{pos + fmt.Sprintf(format, a...)})
}

// Src prints a node as Go source.
func (t *Tr) Src(n ast.Node) string {
	var b bytes.Buffer
	printer.Fprint(&b, t.Fset, n)
	return b.String()
}

func (t *Tr) note(s string) {
	for _, n := range t.Notes {
		if n == s {
			return
		}
	}
	t.Notes = append(t.Notes, s)
}

// Atom parenthesises s unless it is a single token or already one parenthesised group.
func Atom(s string) string {
	if !strings.ContainsAny(s, " ") {
		return s
	}
	if strings.HasPrefix(s, "(") && strings.HasSuffix(s, ")") && balanced(s[1:len(s)-1]) {
		return s
	}
	return "(" + s + ")"
}

func balanced(s string) bool {
	d := 0
	for _, c := range s {
		switch c {
		case '(':
			d++
		case ')':
			d--
			if d < 0 {
				return false
			}
		}
	}
	return d == 0
}

func pow2(bits int) string { return fmt.Sprintf("2 ^ %d", bits) }

func wrap(s string, typ Type) string {
	if b := typ.Bits(); b > 0 {
		return Atom(s) + " mod " + pow2(b)
	}
	return s
}

// Static is the type of e without context: Untyped for constant expressions.
func (t *Tr) Static(e ast.Expr) Type {
	switch x := e.(type) {
	case *ast.BasicLit:
		return Untyped
	case *ast.Ident:
		if x.Name == "true" || x.Name == "false" {
			return Bool
		}
		if ty, ok := t.Env[x.Name]; ok {
			return ty
		}
		t.Fail(e, "unknown variable %s", x.Name)
	case *ast.ParenExpr:
		return t.Static(x.X)
	case *ast.UnaryExpr:
		if x.Op == token.NOT {
			return Bool
		}
		return t.Static(x.X)
	case *ast.BinaryExpr:
		switch x.Op {
		case token.EQL, token.NEQ, token.LSS, token.LEQ, token.GTR, token.GEQ, token.LAND, token.LOR:
			return Bool
		case token.SHL, token.SHR:
			return t.Static(x.X)
		}
		if a := t.Static(x.X); a != Untyped {
			return a
		}
		return t.Static(x.Y)
	case *ast.CallExpr:
		name := types.ExprString(x.Fun)
		if ty, ok := TypeOf(name); ok && len(x.Args) == 1 {
			return ty
		}
		switch name {
		case "bits.Len64", "bits.Len32", "bits.Len", "bits.LeadingZeros64", "len":
			return Int
		case "min", "max":
			for _, a := range x.Args {
				if ty := t.Static(a); ty != Untyped {
					return ty
				}
			}
			return Untyped
		}
		if t.CallHook != nil {
			if _, ty, ok := t.CallHook(t, x, Untyped); ok {
				return ty
			}
		}
	case *ast.IndexExpr:
		if t.IndexHook != nil {
			if _, ty, ok := t.IndexHook(t, x, Untyped); ok {
				return ty
			}
		}
	}
	t.Fail(e, "unsupported expression %s", types.ExprString(e))
	return Untyped
}

// Expr translates an integer or boolean expression. want is the type the context
// gives to an untyped constant expression (Untyped: int).
func (t *Tr) Expr(e ast.Expr, want Type) (string, Type) {
	switch x := e.(type) {
	case *ast.BasicLit:
		if x.Kind != token.INT {
			break
		}
		if want == Untyped || want == Bool {
			want = Int
		}
		return x.Value, want
	case *ast.Ident:
		switch x.Name {
		case "true", "false":
			return x.Name, Bool
		}
		if ty, ok := t.Env[x.Name]; ok {
			return x.Name, ty
		}
		t.Fail(e, "unknown variable %s", x.Name)
	case *ast.ParenExpr:
		return t.Expr(x.X, want)
	case *ast.UnaryExpr:
		switch x.Op {
		case token.NOT:
			return "negb " + Atom(t.Cond(x.X)), Bool
		case token.XOR: // bitwise complement
			s, ty := t.Expr(x.X, want)
			if ty.Bits() == 0 {
				t.Fail(e, "bitwise complement of a non-unsigned value %s", types.ExprString(e))
			}
			return fmt.Sprintf("N.lxor %s (N.ones %d)", Atom(s), ty.Bits()), ty
		case token.SUB:
			s, ty := t.Expr(x.X, want)
			if ty.Bits() == 0 {
				t.Fail(e, "negative int values are not modelled: %s", types.ExprString(e))
			}
			return wrap(fmt.Sprintf("%s - %s", pow2(ty.Bits()), Atom(s)), ty), ty
		case token.ADD:
			return t.Expr(x.X, want)
		}
	case *ast.BinaryExpr:
		return t.binary(x, want)
	case *ast.CallExpr:
		return t.call(x, want)
	case *ast.IndexExpr:
		if t.IndexHook != nil {
			if s, ty, ok := t.IndexHook(t, x, want); ok {
				return s, ty
			}
		}
	}
	t.Fail(e, "unsupported expression %s", types.ExprString(e))
	return "", Untyped
}

// Cond translates a boolean expression.
func (t *Tr) Cond(e ast.Expr) string {
	s, ty := t.Expr(e, Bool)
	if ty != Bool {
		t.Fail(e, "not a boolean expression: %s", types.ExprString(e))
	}
	return s
}

func (t *Tr) binary(x *ast.BinaryExpr, want Type) (string, Type) {
	switch x.Op {
	case token.LAND:
		return Atom(t.Cond(x.X)) + " && " + Atom(t.Cond(x.Y)), Bool
	case token.LOR:
		return Atom(t.Cond(x.X)) + " || " + Atom(t.Cond(x.Y)), Bool
	case token.EQL, token.NEQ, token.LSS, token.LEQ, token.GTR, token.GEQ:
		ty := t.Static(x.X)
		if ty == Untyped {
			ty = t.Static(x.Y)
		}
		if ty == Bool {
			t.Fail(x, "comparison of booleans is not in the subset")
		}
		a, _ := t.Expr(x.X, ty)
		b, _ := t.Expr(x.Y, ty)
		a, b = Atom(a), Atom(b)
		switch x.Op {
		case token.EQL:
			return a + " =? " + b, Bool
		case token.NEQ:
			return "negb (" + a + " =? " + b + ")", Bool
		case token.LSS:
			return a + " <? " + b, Bool
		case token.LEQ:
			return a + " <=? " + b, Bool
		case token.GTR:
			return b + " <? " + a, Bool
		default:
			return b + " <=? " + a, Bool
		}
	case token.SHL, token.SHR:
		ty := t.Static(x.X)
		if ty == Untyped {
			ty = want
		}
		if ty == Untyped || ty == Bool {
			ty = Int
		}
		a, _ := t.Expr(x.X, ty)
		k, _ := t.Expr(x.Y, Int) // the count has its own type; any unsigned or non-negative int
		a, k = Atom(a), Atom(k)
		if x.Op == token.SHL {
			if t.Dialect.Shl != nil && ty.Bits() > 0 {
				return t.Dialect.Shl(a, k, ty.Bits()), ty
			}
			return wrap("N.shiftl "+a+" "+k, ty), ty
		}
		if t.Dialect.Shr != nil && ty.Bits() > 0 {
			return t.Dialect.Shr(a, k, ty.Bits()), ty
		}
		return "N.shiftr " + a + " " + k, ty
	}
	ty := t.Static(x.X)
	if ty == Untyped {
		ty = t.Static(x.Y)
	}
	if ty == Untyped {
		ty = want
	}
	if ty == Untyped || ty == Bool {
		ty = Int
	}
	a, _ := t.Expr(x.X, ty)
	b, _ := t.Expr(x.Y, ty)
	a, b = Atom(a), Atom(b)
	switch x.Op {
	case token.ADD:
		return wrap(a+" + "+b, ty), ty
	case token.MUL:
		return wrap(a+" * "+b, ty), ty
	case token.SUB:
		if ty.Bits() > 0 {
			return wrap(fmt.Sprintf("%s + %s - %s", a, pow2(ty.Bits()), b), ty), ty
		}
		if !(isConst(x.X) && isConst(x.Y)) {
			t.note(fmt.Sprintf("int subtraction %s is truncated at 0 in N: exact while the Go value is non-negative", types.ExprString(x)))
		}
		return a + " - " + b, ty
	case token.QUO:
		return a + " / " + b, ty
	case token.REM:
		return a + " mod " + b, ty
	case token.AND:
		return "N.land " + a + " " + b, ty
	case token.OR:
		return "N.lor " + a + " " + b, ty
	case token.XOR:
		return "N.lxor " + a + " " + b, ty
	case token.AND_NOT:
		return "N.ldiff " + a + " " + b, ty
	}
	t.Fail(x, "unsupported operator %s", x.Op)
	return "", Untyped
}

func isConst(e ast.Expr) bool {
	switch x := e.(type) {
	case *ast.BasicLit:
		return true
	case *ast.ParenExpr:
		return isConst(x.X)
	case *ast.BinaryExpr:
		return isConst(x.X) && isConst(x.Y)
	}
	return false
}

func (t *Tr) call(x *ast.CallExpr, want Type) (string, Type) {
	name := types.ExprString(x.Fun)
	if to, ok := TypeOf(name); ok && len(x.Args) == 1 && to != Bool { // conversion
		from := t.Static(x.Args[0])
		if from == Untyped {
			return t.Expr(x.Args[0], to)
		}
		s, _ := t.Expr(x.Args[0], from)
		switch {
		case to == from:
			return s, to
		case to.Bits() > 0 && (from == Int || from.Bits() > to.Bits()):
			if from == Int {
				t.note(fmt.Sprintf("conversion %s of an int: exact while the int is non-negative", types.ExprString(x)))
			}
			return wrap(s, to), to
		case to == Int:
			t.note(fmt.Sprintf("conversion %s to int: exact while the value fits", types.ExprString(x)))
			return s, to
		}
		return s, to // widening
	}
	switch name {
	case "bits.Len64", "bits.Len32", "bits.Len":
		if len(x.Args) == 1 {
			s, _ := t.Expr(x.Args[0], U64)
			return "N.size " + Atom(s), Int
		}
	case "bits.LeadingZeros64":
		if len(x.Args) == 1 {
			s, _ := t.Expr(x.Args[0], U64)
			return "64 - N.size " + Atom(s), Int
		}
	case "min", "max":
		if len(x.Args) >= 2 {
			ty := t.Static(x)
			if ty == Untyped {
				ty = want
			}
			if ty == Untyped || ty == Bool {
				ty = Int
			}
			op := "N." + name
			s, _ := t.Expr(x.Args[0], ty)
			for _, a := range x.Args[1:] {
				b, _ := t.Expr(a, ty)
				s = op + " " + Atom(s) + " " + Atom(b)
			}
			return s, ty
		}
	}
	if t.CallHook != nil {
		if s, ty, ok := t.CallHook(t, x, want); ok {
			return s, ty
		}
	}
	t.Fail(x, "unsupported call %s", types.ExprString(x))
	return "", Untyped
}

// ---- statements ----

// binding is one `let name := text in`.
type binding struct{ name, text string }

// AssignLets translates an assignment statement into its let lines (in order) and
// updates Env for new variables.
func (t *Tr) AssignLets(s *ast.AssignStmt) []string {
	var out []string
	for _, b := range t.assign(s) {
		out = append(out, fmt.Sprintf("let %s := %s in", b.name, b.text))
	}
	return out
}

func (t *Tr) assign(s *ast.AssignStmt) []binding {
	if len(s.Lhs) != len(s.Rhs) {
		t.Fail(s, "unsupported assignment %s", t.Src(s))
	}
	names := make([]string, len(s.Lhs))
	for i, l := range s.Lhs {
		id, ok := l.(*ast.Ident)
		if !ok {
			t.Fail(s, "unsupported assignment target in %s", t.Src(s))
		}
		names[i] = id.Name
	}
	texts := make([]string, len(s.Rhs))
	tys := make([]Type, len(s.Rhs))
	for i, r := range s.Rhs {
		switch s.Tok {
		case token.DEFINE:
			texts[i], tys[i] = t.Expr(r, Untyped)
		case token.ASSIGN:
			if names[i] == "_" {
				texts[i], tys[i] = t.Expr(r, Untyped)
				break
			}
			ty, ok := t.Env[names[i]]
			if !ok {
				t.Fail(s, "assignment to unknown variable %s", names[i])
			}
			texts[i], tys[i] = t.Expr(r, ty)
			tys[i] = ty
		default:
			op, ok := map[token.Token]token.Token{
				token.ADD_ASSIGN: token.ADD, token.SUB_ASSIGN: token.SUB, token.MUL_ASSIGN: token.MUL, token.QUO_ASSIGN: token.QUO, token.REM_ASSIGN: token.REM,
				token.AND_ASSIGN: token.AND, token.OR_ASSIGN: token.OR, token.XOR_ASSIGN: token.XOR, token.SHL_ASSIGN: token.SHL, token.SHR_ASSIGN: token.SHR, token.AND_NOT_ASSIGN: token.AND_NOT,
			}[s.Tok]
			if !ok || len(s.Lhs) != 1 {
				t.Fail(s, "unsupported assignment operator in %s", t.Src(s))
			}
			ty := t.Env[names[i]]
			texts[i], _ = t.Expr(&ast.BinaryExpr{X: s.Lhs[i], Op: op, Y: r, OpPos: s.TokPos}, ty)
			tys[i] = ty
		}
	}
	var out []binding
	if len(names) == 1 {
		if names[0] != "_" {
			out = append(out, binding{names[0], texts[0]})
		}
	} else {
		// parallel assignment: all right-hand sides see the old values
		tmp := make([]string, len(names))
		for i := range names {
			t.fresh++
			tmp[i] = fmt.Sprintf("%s_new%d", strings.TrimPrefix(names[i], "_"), t.fresh)
			out = append(out, binding{tmp[i], texts[i]})
		}
		for i := range names {
			if names[i] != "_" {
				out = append(out, binding{names[i], tmp[i]})
			}
		}
	}
	if s.Tok == token.DEFINE {
		for i, n := range names {
			if n != "_" {
				t.Env[n] = tys[i]
			}
		}
	}
	return out
}

// assigned lists the variables of the enclosing scope that stmts assign to.
func (t *Tr) assigned(stmts []ast.Stmt, local map[string]bool, acc *[]string) {
	add := func(n string) {
		if n == "_" || local[n] {
			return
		}
		for _, a := range *acc {
			if a == n {
				return
			}
		}
		*acc = append(*acc, n)
	}
	for _, st := range stmts {
		switch s := st.(type) {
		case *ast.AssignStmt:
			for _, l := range s.Lhs {
				if id, ok := l.(*ast.Ident); ok {
					if s.Tok == token.DEFINE {
						local[id.Name] = true
					} else {
						add(id.Name)
					}
				}
			}
		case *ast.IncDecStmt:
			if id, ok := s.X.(*ast.Ident); ok {
				add(id.Name)
			}
		case *ast.DeclStmt:
			if gd, ok := s.Decl.(*ast.GenDecl); ok {
				for _, sp := range gd.Specs {
					if vs, ok := sp.(*ast.ValueSpec); ok {
						for _, n := range vs.Names {
							local[n.Name] = true
						}
					}
				}
			}
		case *ast.IfStmt:
			inner := copySet(local)
			if s.Init != nil {
				t.assigned([]ast.Stmt{s.Init}, inner, acc)
			}
			t.assigned(s.Body.List, copySet(inner), acc)
			if s.Else != nil {
				t.assigned([]ast.Stmt{s.Else}, copySet(inner), acc)
			}
		case *ast.BlockStmt:
			t.assigned(s.List, copySet(local), acc)
		case *ast.ForStmt:
			inner := copySet(local)
			if s.Init != nil {
				t.assigned([]ast.Stmt{s.Init}, inner, acc)
			}
			if s.Post != nil {
				t.assigned([]ast.Stmt{s.Post}, inner, acc)
			}
			t.assigned(s.Body.List, copySet(inner), acc)
		case *ast.RangeStmt:
			inner := copySet(local)
			if id, ok := s.Key.(*ast.Ident); ok && s.Tok == token.DEFINE {
				inner[id.Name] = true
			}
			t.assigned(s.Body.List, inner, acc)
		}
	}
}

func copySet(m map[string]bool) map[string]bool {
	c := make(map[string]bool, len(m))
	for k, v := range m {
		c[k] = v
	}
	return c
}

func returns(stmts []ast.Stmt) bool {
	found := false
	for _, st := range stmts {
		ast.Inspect(st, func(n ast.Node) bool {
			if _, ok := n.(*ast.ReturnStmt); ok {
				found = true
			}
			if _, ok := n.(*ast.FuncLit); ok {
				return false
			}
			return true
		})
	}
	return found
}

func tuple(names []string) string {
	if len(names) == 1 {
		return names[0]
	}
	return "(" + strings.Join(names, ", ") + ")"
}

func tuplePat(names []string) string {
	if len(names) == 1 {
		return names[0]
	}
	return "'(" + strings.Join(names, ", ") + ")"
}

func (t *Tr) saveEnv() map[string]Type {
	c := make(map[string]Type, len(t.Env))
	for k, v := range t.Env {
		c[k] = v
	}
	return c
}

// Block translates a statement list that ends in a return on every path into one term.
// ind is the indentation of the generated lines.
func (t *Tr) Block(stmts []ast.Stmt, ind string) string {
	return t.block(stmts, "", ind)
}

// block translates stmts; when they fall off the end the result is tail (a term over the
// current variables), which must then be non-empty.
func (t *Tr) block(stmts []ast.Stmt, tail string, ind string) string {
	if len(stmts) == 0 {
		if tail == "" {
			panic(Unsupported{"a path through the function does not end in a return"})
		}
		return ind + tail
	}
	st, rest := stmts[0], stmts[1:]
	lets := func(bs []binding) string {
		var sb strings.Builder
		for _, b := range bs {
			sb.WriteString(fmt.Sprintf("%slet %s := %s in\n", ind, b.name, b.text))
		}
		return sb.String() + t.block(rest, tail, ind)
	}
	switch s := st.(type) {
	case *ast.ReturnStmt:
		if len(s.Results) == 0 {
			t.Fail(s, "bare return (named results) is not in the subset")
		}
		parts := make([]string, len(s.Results))
		for i, r := range s.Results {
			want := Untyped
			if i < len(t.Results) {
				want = t.Results[i]
			}
			parts[i], _ = t.Expr(r, want)
		}
		return ind + tuple(parts)
	case *ast.AssignStmt:
		return lets(t.assign(s))
	case *ast.IncDecStmt:
		id, ok := s.X.(*ast.Ident)
		if !ok {
			t.Fail(s, "unsupported statement %s", t.Src(s))
		}
		op := token.ADD
		if s.Tok == token.DEC {
			op = token.SUB
		}
		text, _ := t.Expr(&ast.BinaryExpr{X: id, Op: op, Y: &ast.BasicLit{Kind: token.INT, Value: "1"}}, t.Env[id.Name])
		return lets([]binding{{id.Name, text}})
	case *ast.DeclStmt:
		gd, ok := s.Decl.(*ast.GenDecl)
		if !ok || gd.Tok != token.VAR {
			t.Fail(s, "unsupported declaration %s", t.Src(s))
		}
		var bs []binding
		for _, sp := range gd.Specs {
			vs := sp.(*ast.ValueSpec)
			ty := Untyped
			if vs.Type != nil {
				var ok bool
				if ty, ok = TypeOf(types.ExprString(vs.Type)); !ok {
					t.Fail(s, "unsupported type in %s", t.Src(s))
				}
			}
			for i, n := range vs.Names {
				text, vt := "0", ty
				if ty == Bool {
					text = "false"
				}
				if i < len(vs.Values) {
					text, vt = t.Expr(vs.Values[i], ty)
					if ty != Untyped {
						vt = ty
					}
				} else if ty == Untyped {
					t.Fail(s, "declaration without type or value: %s", t.Src(s))
				}
				t.Env[n.Name] = vt
				bs = append(bs, binding{n.Name, text})
			}
		}
		return lets(bs)
	case *ast.BlockStmt:
		return t.block(append(append([]ast.Stmt(nil), s.List...), rest...), tail, ind)
	case *ast.IfStmt:
		return t.ifStmt(s, rest, tail, ind)
	case *ast.ForStmt, *ast.RangeStmt:
		return t.loop(st, rest, tail, ind)
	case *ast.ExprStmt:
		if c, ok := s.X.(*ast.CallExpr); ok && types.ExprString(c.Fun) == "panic" {
			if t.PanicValue == "" {
				t.Fail(s, "panic is not in the subset (no PanicValue given)")
			}
			t.note("a panic is modelled as the value " + t.PanicValue)
			return ind + t.PanicValue
		}
	}
	t.Fail(st, "unsupported statement %s", t.Src(st))
	return ""
}

func (t *Tr) ifStmt(s *ast.IfStmt, rest []ast.Stmt, tail string, ind string) string {
	if s.Init != nil {
		// if x := e; cond {...}: the init binds first (scope leak is harmless: lets shadow)
		return t.block(append([]ast.Stmt{s.Init, &ast.IfStmt{If: s.If, Cond: s.Cond, Body: s.Body, Else: s.Else}}, rest...), tail, ind)
	}
	cond := t.Cond(s.Cond)
	var els []ast.Stmt
	if s.Else != nil {
		els = []ast.Stmt{s.Else}
	}
	if returns(s.Body.List) || returns(els) {
		// some path returns: both branches continue with the rest of the function
		env := t.saveEnv()
		a := t.block(append(append([]ast.Stmt(nil), s.Body.List...), rest...), tail, ind+"  ")
		t.Env = env
		env2 := t.saveEnv()
		b := t.block(append(append([]ast.Stmt(nil), els...), rest...), tail, ind+"  ")
		t.Env = env2
		return fmt.Sprintf("%sif %s then (\n%s\n%s) else (\n%s\n%s)", ind, cond, a, ind, b, ind)
	}
	// no return inside: the branches only update variables of the enclosing scope
	var vars []string
	t.assigned([]ast.Stmt{&ast.IfStmt{Cond: s.Cond, Body: s.Body, Else: s.Else}}, map[string]bool{}, &vars)
	if len(vars) == 0 {
		return t.block(rest, tail, ind)
	}
	for _, v := range vars {
		if _, ok := t.Env[v]; !ok {
			t.Fail(s, "assignment to unknown variable %s", v)
		}
	}
	env := t.saveEnv()
	a := strings.TrimSpace(t.block(s.Body.List, tuple(vars), ""))
	t.Env = env
	env2 := t.saveEnv()
	b := strings.TrimSpace(t.block(els, tuple(vars), ""))
	t.Env = env2
	line := fmt.Sprintf("%slet %s := if %s then %s else %s in\n", ind, tuplePat(vars), cond, oneLine(a), oneLine(b))
	return line + t.block(rest, tail, ind)
}

func oneLine(s string) string {
	s = strings.Join(strings.Fields(s), " ")
	if strings.HasPrefix(s, "let ") || strings.HasPrefix(s, "if ") {
		return "(" + s + ")"
	}
	return s
}

// loop translates a counted loop into a local structural recursion on a fuel argument.
func (t *Tr) loop(st ast.Stmt, rest []ast.Stmt, tail string, ind string) string {
	var iv string      // loop variable
	var lo, hi string  // first value, bound
	var inclusive bool // i <= hi
	var body []ast.Stmt
	ity := Int
	switch s := st.(type) {
	case *ast.RangeStmt: // for i := range n  (n an integer)
		id, ok := s.Key.(*ast.Ident)
		if !ok || s.Value != nil || s.Tok != token.DEFINE {
			t.Fail(s, "unsupported range loop %s", t.Src(s.X))
		}
		h, hty := t.Expr(s.X, Int)
		if hty == Bool {
			t.Fail(s, "range over a non-integer")
		}
		iv, lo, hi, ity, body = id.Name, "0", h, hty, s.Body.List
	case *ast.ForStmt:
		init, ok := s.Init.(*ast.AssignStmt)
		cond, ok2 := s.Cond.(*ast.BinaryExpr)
		post, ok3 := s.Post.(*ast.IncDecStmt)
		if !ok || !ok2 || !ok3 || init.Tok != token.DEFINE || len(init.Lhs) != 1 || post.Tok != token.INC {
			t.Fail(s, "only counted loops `for i := a; i < b; i++` are in the subset")
		}
		id := init.Lhs[0].(*ast.Ident)
		if c, ok := cond.X.(*ast.Ident); !ok || c.Name != id.Name || types.ExprString(post.X) != id.Name || (cond.Op != token.LSS && cond.Op != token.LEQ) {
			t.Fail(s, "only counted loops `for i := a; i < b; i++` are in the subset")
		}
		ity = t.Static(cond.Y)
		if ity == Untyped {
			ity = t.Static(init.Rhs[0])
		}
		if ity == Untyped {
			ity = Int
		}
		lo, _ = t.Expr(init.Rhs[0], ity)
		hi, _ = t.Expr(cond.Y, ity)
		iv, inclusive, body = id.Name, cond.Op == token.LEQ, s.Body.List
		// the bound must not change inside the loop
		var boundVars []string
		ast.Inspect(cond.Y, func(n ast.Node) bool {
			if id, ok := n.(*ast.Ident); ok {
				boundVars = append(boundVars, id.Name)
			}
			return true
		})
		var as []string
		t.assigned(body, map[string]bool{}, &as)
		for _, a := range as {
			for _, b := range boundVars {
				if a == b {
					t.Fail(s, "the loop body changes its bound %s", b)
				}
			}
		}
	}
	if returns(body) {
		t.Fail(st, "return inside a loop is not in the subset")
	}
	ast.Inspect(&ast.BlockStmt{List: body}, func(n ast.Node) bool {
		if b, ok := n.(*ast.BranchStmt); ok {
			t.Fail(b, "break/continue/goto are not in the subset")
		}
		return true
	})
	var vars []string
	t.assigned(body, map[string]bool{iv: true}, &vars)
	for _, v := range vars {
		if v == iv {
			t.Fail(st, "the loop body changes its counter")
		}
		if _, ok := t.Env[v]; !ok {
			t.Fail(st, "assignment to unknown variable %s", v)
		}
	}
	sort.Strings(vars)
	for _, v := range vars {
		if t.Env[v] == Bool {
			t.Fail(st, "a boolean loop-carried variable (%s) is not in the subset", v)
		}
	}
	if len(vars) == 0 {
		return t.block(rest, tail, ind) // a loop without effect on the state
	}
	env := t.saveEnv()
	t.Env[iv] = ity
	step := wrap(iv+" + 1", ity)
	inner := t.block(body, fmt.Sprintf("loop fuel' %s %s", Atom(step), strings.Join(vars, " ")), ind+"        ")
	t.Env = env
	count := fmt.Sprintf("%s - %s", Atom(hi), Atom(lo))
	if inclusive {
		count = fmt.Sprintf("%s + 1 - %s", Atom(hi), Atom(lo))
	}
	retTy := "N"
	if len(vars) > 1 {
		retTy = strings.TrimSuffix(strings.Repeat("N * ", len(vars)), " * ")
	}
	var sb strings.Builder
	fmt.Fprintf(&sb, "%slet %s :=\n", ind, tuplePat(vars))
	fmt.Fprintf(&sb, "%s  (fix loop (fuel : nat) (%s %s : N) {struct fuel} : %s :=\n", ind, iv, strings.Join(vars, " "), retTy)
	fmt.Fprintf(&sb, "%s     match fuel with\n%s     | O => %s\n%s     | S fuel' =>\n%s\n%s     end)\n", ind, ind, tuple(vars), ind, inner, ind)
	fmt.Fprintf(&sb, "%s  (N.to_nat (%s)) %s %s in\n", ind, count, Atom(lo), strings.Join(vars, " "))
	return sb.String() + t.block(rest, tail, ind)
}
