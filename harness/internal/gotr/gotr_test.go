package gotr

import (
	"fmt"
	"os"
	"os/exec"
	"path/filepath"
	"strings"
	"testing"
)

type sample struct {
	name string
	args [][]uint64
	call func(a []uint64) string // the Go result as a Coq boolean test of the generated function's result `r`
}

func n1(f func(a []uint64) uint64) func([]uint64) string {
	return func(a []uint64) string { return fmt.Sprintf("N.eqb r %d", f(a)) }
}

var edge = []uint64{0, 1, 2, 3, 7, 8, 9, 10, 11, 31, 32, 33, 63, 64, 65, 255, 256, 1000, 1 << 31, 1<<32 - 1, 1 << 32, 1<<63 - 1, 1 << 63, ^uint64(0) - 1, ^uint64(0)}

func pairs(xs, ys []uint64) (r [][]uint64) {
	for _, x := range xs {
		for _, y := range ys {
			r = append(r, []uint64{x, y})
		}
	}
	return
}

func singles(xs []uint64) (r [][]uint64) {
	for _, x := range xs {
		r = append(r, []uint64{x})
	}
	return
}

func samples() []sample {
	small := Range(0, 40)
	return []sample{
		{"sHist", pairs(Range(0, 40), append(Range(0, 30), 1<<23+6, 1<<23+7, 1<<23+8, 1<<40, ^uint64(0))), n1(func(a []uint64) uint64 { return sHist(int(a[0]), a[1]) })},
		{"sWrapSub", pairs(edge, edge), n1(func(a []uint64) uint64 { return sWrapSub(a[0], a[1]) })},
		{"sMulAdd", pairs(edge, edge), n1(func(a []uint64) uint64 { return sMulAdd(a[0], a[1]) })},
		{"sRot", pairs(edge, Range(0, 64)), n1(func(a []uint64) uint64 { return sRot(a[0], int(a[1])) })},
		{"sKey", pairs(Range(0, 32), edge), n1(func(a []uint64) uint64 { return uint64(sKey(a[0], a[1])) })},
		{"sLen", pairs(edge, []uint64{4, 5, 6, 100, 1 << 40, 12345678901234}), func(a []uint64) string {
			if a[0] == a[1] {
				return "true" // -1 in Go: outside the model of int
			}
			return fmt.Sprintf("N.eqb r %d", sLen(a[0], a[1]))
		}},
		{"sMinMax", pairs(edge, edge), n1(func(a []uint64) uint64 { return sMinMax(a[0], a[1]) })},
		{"sIfElse", pairs(edge, edge), func(a []uint64) string {
			x, b := sIfElse(a[0], a[1])
			return fmt.Sprintf("N.eqb (fst r) %d && Bool.eqb (snd r) %v", x, b)
		}},
		{"sLoop", singles(append(small, 100, 257)), n1(func(a []uint64) uint64 { return sLoop(a[0]) })},
		{"sRange", singles(small), n1(func(a []uint64) uint64 { return uint64(sRange(int(a[0]))) })},
		{"sPop", singles(edge), n1(func(a []uint64) uint64 { return uint64(sPop(a[0])) })},
		{"sNot", singles(edge), n1(func(a []uint64) uint64 { return sNot(a[0]) })},
		{"sNeg", singles([]uint64{0, 1, 2, 255, 1 << 31, 1<<32 - 1}), n1(func(a []uint64) uint64 { return uint64(sNeg(uint32(a[0]))) })},
		{"sDivMod", pairs(edge, edge), n1(func(a []uint64) uint64 { return sDivMod(a[0], a[1]) })},
		{"sNested", pairs(edge, Range(0, 6)), n1(func(a []uint64) uint64 { return sNested(a[0], int(a[1])) })},
	}
}

// TestSemantics translates the sample functions from samples_test.go and has Coq evaluate
// the generated definitions on edge-case inputs against the results of the Go functions.
func TestSemantics(t *testing.T) {
	if _, err := exec.LookPath("coqc"); err != nil {
		t.Skip("coqc not available")
	}
	f, err := Parse("samples_test.go")
	if err != nil {
		t.Fatal(err)
	}
	var sb strings.Builder
	sb.WriteString("From Coq Require Import NArith List Bool.\nImport ListNotations.\nOpen Scope N_scope.\n")
	ss := samples()
	for _, s := range ss {
		d := f.Func(s.name, s.name, nil)
		if d.Err != nil {
			t.Fatalf("%s: %v", s.name, d.Err)
		}
		sb.WriteString(d.Text + "\n")
		tests := make([]string, len(s.args))
		for i, a := range s.args {
			strs := make([]string, len(a))
			for j, v := range a {
				strs[j] = fmt.Sprint(v)
			}
			tests[i] = fmt.Sprintf("(let r := %s %s in %s)", s.name, strings.Join(strs, " "), s.call(a))
		}
		fmt.Fprintf(&sb, "Definition ok_%s := Eval vm_compute in forallb (fun b : bool => b) [%s].\nPrint ok_%s.\n", s.name, strings.Join(tests, ";\n "), s.name)
	}
	dir := t.TempDir()
	os.WriteFile(filepath.Join(dir, "Samples.v"), []byte(sb.String()), 0o644)
	cmd := exec.Command("coqc", "Samples.v")
	cmd.Dir = dir
	outp, err := cmd.CombinedOutput()
	if err != nil {
		t.Fatalf("coqc: %v\n%s\n%s", err, outp, sb.String())
	}
	for _, s := range ss {
		if !strings.Contains(string(outp), "ok_"+s.name+" = true") {
			d := f.Func(s.name, s.name, nil)
			t.Errorf("%s: generated definition disagrees with the Go function\n%s", s.name, d.Text)
		}
	}
}

func TestRefusals(t *testing.T) {
	f, err := Parse("samples_test.go")
	if err != nil {
		t.Fatal(err)
	}
	for _, n := range []string{"sBad1", "sBad2", "sBad3"} {
		d := f.Func(n, n, nil)
		if d.Err == nil {
			t.Errorf("%s was translated although it is outside the subset:\n%s", n, d.Text)
		} else {
			t.Logf("%s refused: %v", n, d.Err)
		}
	}
	if d := f.Func("noSuchFunction", "x", nil); d.Err == nil {
		t.Error("missing function not reported")
	}
}

func TestGolden(t *testing.T) {
	if err := SelfCheck(); err != nil {
		t.Fatal(err)
	}
}
