package gotr

import "math/bits"

// Sample functions of the subset. They are compiled into the test binary (the Go
// side of the comparison) and translated from this very file (the Gallina side).

func sHist(i int, tipHeight uint64) uint64 {
	offset := uint64(i)
	if offset >= 10 {
		offset = 7 + 1<<(i-8)
	}
	if offset > tipHeight {
		offset = tipHeight
	}
	return tipHeight - offset
}

func sWrapSub(a, b uint64) uint64 { return a - b }

func sMulAdd(a, b uint64) uint64 { return a*b + 7 }

func sRot(a uint64, k int) uint64 { return a<<k | a>>(64-k) }

func sKey(row, col uint64) uint32 { return uint32(((1<<row)-1)<<(32-row) | col) }

func sLen(a, b uint64) int { return bits.Len64(a^b) - 1 }

func sMinMax(a, b uint64) uint64 { return max(a, 3) - min(a, b, 3) }

func sIfElse(a, b uint64) (uint64, bool) {
	if a > b {
		a, b = b, a
	} else if a == b {
		return 0, true
	}
	x := b - a
	return x, false
}

func sLoop(n uint64) uint64 {
	s := uint64(0)
	for i := uint64(0); i < n; i++ {
		s += i * i
		if s > 1000 {
			s -= 1000
		}
	}
	return s
}

func sRange(n int) int {
	c := 0
	for i := range n {
		c += i
	}
	return c
}

func sPop(x uint64) int {
	c := 0
	for i := 0; i < 64; i++ {
		if x>>i&1 == 1 {
			c++
		}
	}
	return c
}

func sNot(x uint64) uint64 { return ^x &^ 0xFF }

func sNeg(x uint32) uint32 { return -x + 1 }

func sDivMod(a, b uint64) uint64 {
	var q, r uint64 = a / (b | 1), a % (b | 1)
	return q*3 + r
}

func sNested(a uint64, n int) uint64 {
	acc := a
	for i := 1; i <= n; i++ {
		for j := 0; j < i; j++ {
			acc = acc*31 + uint64(j)
		}
		acc ^= acc >> 7
	}
	return acc
}

// outside the subset: must be refused with a message, not translated wrongly
func sBad1(xs []uint64) uint64 { return xs[0] }

func sBad2(a uint64) uint64 {
	for a > 1 {
		a /= 2
	}
	return a
}

func sBad3(a int) int { return -a }
