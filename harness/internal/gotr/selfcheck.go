package gotr

import (
	"fmt"
	"go/parser"
	"go/token"
	"strings"
)

// The self-check run by every Tie before it trusts the translator: a fixed source is
// translated and compared with the expected Gallina text (so that an accidental change of
// the translator shows up as a note "self-check failed", not as a false alarm about the
// repository).
const selfSrc = `package p

import "math/bits"

func hist(i int, tipHeight uint64) uint64 {
	offset := uint64(i)
	if offset >= 10 {
		offset = 7 + 1<<(i-8)
	}
	if offset > tipHeight {
		offset = tipHeight
	}
	return tipHeight - offset
}

func key(row, col uint64) uint32 { return uint32(((1<<row)-1)<<(32-row) | col) }

func plen(a, b uint64) int { return bits.Len64(a^b) - 1 }

func sum(n uint64) uint64 {
	s := uint64(0)
	for i := uint64(0); i < n; i++ {
		s += i
	}
	return s
}
`

var selfWant = map[string]string{
	"hist": `Definition hist (i tipHeight : N) : N :=
  let offset := i mod 2 ^ 64 in
  let offset := if 10 <=? offset then (let offset := (7 + ((N.shiftl 1 (i - 8)) mod 2 ^ 64)) mod 2 ^ 64 in offset) else offset in
  let offset := if tipHeight <? offset then (let offset := tipHeight in offset) else offset in
  (tipHeight + 2 ^ 64 - offset) mod 2 ^ 64.`,
	"key": `Definition key (row col : N) : N :=
  (N.lor ((N.shiftl ((((N.shiftl 1 row) mod 2 ^ 64) + 2 ^ 64 - 1) mod 2 ^ 64) ((32 + 2 ^ 64 - row) mod 2 ^ 64)) mod 2 ^ 64) col) mod 2 ^ 32.`,
	"plen": `Definition plen (a b : N) : N :=
  (N.size (N.lxor a b)) - 1.`,
	"sum": `Definition sum (n : N) : N :=
  let s := 0 in
  let s :=
    (fix loop (fuel : nat) (i s : N) {struct fuel} : N :=
       match fuel with
       | O => s
       | S fuel' =>
          let s := (s + i) mod 2 ^ 64 in
          loop fuel' ((i + 1) mod 2 ^ 64) s
       end)
    (N.to_nat (n - 0)) 0 s in
  s.`,
}

// SelfCheck translates the fixed source above and compares with the expected text.
func SelfCheck() error {
	fset := token.NewFileSet()
	af, err := parser.ParseFile(fset, "self.go", selfSrc, 0)
	if err != nil {
		return err
	}
	f := &File{fset, af, "self.go"}
	for _, name := range []string{"hist", "key", "plen", "sum"} {
		d := f.Func(name, name, nil)
		if d.Err != nil {
			return fmt.Errorf("gotr self-check: %s: %v", name, d.Err)
		}
		if norm(d.Text) != norm(selfWant[name]) {
			return fmt.Errorf("gotr self-check: %s translates to\n%s\nexpected\n%s", name, d.Text, selfWant[name])
		}
	}
	return nil
}

func norm(s string) string { return strings.Join(strings.Fields(s), " ") }
