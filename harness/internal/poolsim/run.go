package poolsim

import (
	"fmt"
	"strings"
	"time"

	"go.sia.tech/core/types"
	"go.sia.tech/coreutils"
	"go.sia.tech/coreutils/chain"
	"verif/harness/internal/chaingen"
	"verif/harness/internal/mgrsim"
)

// Res is the projected result of one call.
type Res struct {
	Kind    string // verdict | found | absent | panic | none | ids | ok | err
	Verdict int    // 0 added 1 known 2 error
	ID      types.TransactionID
	IDs     []types.TransactionID
	Basis   types.ChainIndex
	Form    []ATx
	Class   int // error class of a rebase
	Text    string
}

type bstepRec struct {
	Revert  bool
	Created []Created
	Num     uint64
}

type updRec struct {
	N       *chaingen.Node
	Applied bool
}

type rec struct {
	Op    string // add1 add2 chain look query mine txset parents update
	Set   []ATx
	Basis types.ChainIndex
	To    types.ChainIndex
	Steps []bstepRec
	Upd   []updRec
	LR    bool
	LR1   []ATx
	LR2   []ATx
	Tip   *NodeInfo
	V2    bool
	ID    types.TransactionID
	V2Ok  bool
	Arb   ATx
	Tx    ATx
	Res   Res
	NoObs bool
	ObsV1 []types.TransactionID
	ObsV2 []ATx
}

// A Runner drives one real manager over a world and records what it sees.
type Runner struct {
	W       *World
	Sim     *mgrsim.Sim
	CM      *chain.Manager
	Tip     *chaingen.Node
	Start   *chaingen.Node
	Known   map[*chaingen.Node]bool // nodes whose blocks the manager stored
	Applied map[*chaingen.Node]bool // nodes that were on the best chain at some time (full state, supplement)
	pendUpd []updRec
	// DeferNext: the next recorded call does not read the pool; the call after it is made first
	DeferNext bool
	// Quiet: while set, no recorded call reads the pool
	Quiet bool
	// CorruptIndex: the next UpdateV2TransactionSet / V2TransactionSet call is given an index whose
	// height contradicts the block it names (one shot)
	CorruptIndex bool
	deferred     []rec
	// Old1 / Old2: private copies of every transaction a submission got accepted, as submitted (with
	// the basis its proofs belong to): material for submitting the same objects again much later
	Old1 []OldTx
	Old2 []OldTx
	// Ops: every block submission made on the manager, in order (tree indices; blocks mined or built
	// during the history are tree nodes by then): the history as the store saw it
	Ops           []mgrsim.Op
	window        []windowRead // what the listeners read from inside notifications since the last observation
	lastRev       *chaingen.Node
	minedFromPool map[*chaingen.Node]bool           // blocks mined from the pool by coreutils.MineBlock and adopted
	elemNode      map[*chaingen.Node]*chaingen.Node // whose element accumulator the stored state of a block carries
	Meta          map[types.TransactionID]Meta
	NoCoq         string // reason why this history has no Coq case ("" = it has one)
	recs          []rec
	Fail          func(kind, detail string)
	Stats         map[string]int
	MW            uint64
}

// NewRunner starts a manager at genesis.
func NewRunner(w *World, fail func(kind, detail string)) *Runner {
	s := mgrsim.NewSim(w.T, nil)
	r := &Runner{W: w, Sim: s, CM: s.CM, Tip: w.T.Nodes[0], Start: w.T.Nodes[0], Known: map[*chaingen.Node]bool{w.T.Nodes[0]: true}, Applied: map[*chaingen.Node]bool{w.T.Nodes[0]: true},
		Meta: map[types.TransactionID]Meta{}, minedFromPool: map[*chaingen.Node]bool{}, elemNode: map[*chaingen.Node]*chaingen.Node{w.T.Nodes[0]: w.T.Nodes[0]}, Fail: fail, Stats: map[string]int{}, MW: 2_000_000}
	return r
}

// OldTx is a transaction that was accepted earlier.
type OldTx struct {
	V1    types.Transaction
	V2    types.V2Transaction
	Meta  Meta
	Basis types.ChainIndex
}

// windowRead is what a listener read from inside a notification (the manager's lock is released
// there, the call that notifies has not returned yet).
type windowRead struct {
	reorg  bool
	tip    types.ChainIndex
	v1, v2 [][]byte
	fault  string
}

// Listen registers a reorg listener and a pool listener that read the pool (both lists, then every
// listed transaction by id) from inside the notification. What they saw is compared with the first
// reading after the call returns (observe): nothing happens in between, so the two must be equal.
// While Quiet or DeferNext is set the listeners read nothing (those steps are about the absence of reads).
func (r *Runner) Listen() {
	cm := r.CM
	read := func(reorg bool, told *types.ChainIndex) {
		if r.Quiet || r.DeferNext {
			return
		}
		wr := windowRead{reorg: reorg}
		func() {
			defer func() {
				if p := recover(); p != nil {
					wr.fault = fmt.Sprint("a pool method panicked inside the notification: ", p)
				}
			}()
			wr.tip = cm.Tip()
			if told != nil && *told != wr.tip {
				wr.fault = fmt.Sprintf("the reorg listener was told tip %v, Tip() answers %v", *told, wr.tip)
			}
			v1, v2 := cm.PoolTransactions(), cm.V2PoolTransactions()
			for _, t := range v1 {
				wr.v1 = append(wr.v1, EncV1(t))
				if x, ok := cm.PoolTransaction(t.ID()); !ok || x.ID() != t.ID() {
					wr.fault = "inside the notification PoolTransaction does not find a transaction PoolTransactions lists"
				}
			}
			for _, t := range v2 {
				wr.v2 = append(wr.v2, EncV2(t))
				if x, ok := cm.V2PoolTransaction(t.ID()); !ok || x.ID() != t.ID() {
					wr.fault = "inside the notification V2PoolTransaction does not find a transaction V2PoolTransactions lists"
				}
			}
		}()
		r.window = append(r.window, wr)
		r.Stats["reads-inside-notifications"]++
	}
	cm.OnReorg(func(idx types.ChainIndex) { read(true, &idx) })
	cm.OnPoolChange(func() { read(false, nil) })
}

// checkWindow compares what the listeners saw during the last call with the reading made right after it.
func (r *Runner) checkWindow(v1 []types.Transaction, v2 []types.V2Transaction) {
	ws := r.window
	r.window = nil
	for _, wr := range ws {
		kind := map[bool]string{true: "reorg", false: "pool-change"}[wr.reorg]
		if wr.fault != "" {
			r.Fail("pool-read-inside-notification", kind+" listener: "+wr.fault)
			return
		}
		same := len(wr.v1) == len(v1) && len(wr.v2) == len(v2) && wr.tip == r.CM.Tip()
		for i := 0; same && i < len(v1); i++ {
			same = string(wr.v1[i]) == string(EncV1(v1[i]))
		}
		for i := 0; same && i < len(v2); i++ {
			same = string(wr.v2[i]) == string(EncV2(v2[i]))
		}
		if !same {
			r.Fail("pool-differs-inside-notification", fmt.Sprintf("the %s listener read %d v1 + %d v2 transactions at tip %v from inside the notification; right after the call returned the pool reports %d + %d at tip %v (contents, order or proofs differ): inside the notification the pool was not the valid continuation of the new tip that it is afterwards", kind, len(wr.v1), len(wr.v2), wr.tip, len(v1), len(v2), r.CM.Tip()))
			return
		}
	}
}

// meta returns what is known about a transaction that is pooled or confirmed (so its
// signatures are intact: a damaged copy with the same id may have been refused earlier).
func (r *Runner) meta(id types.TransactionID, dflt Meta) Meta {
	if m, ok := r.Meta[id]; ok {
		m.Corrupt = false
		return m
	}
	dflt.Corrupt = false
	return dflt
}

// MetaOf is meta for other packages.
func (r *Runner) MetaOf(id types.TransactionID, dflt Meta) Meta { return r.meta(id, dflt) }

// AbsBlock projects the transactions of a tree block (signed on its parent).
func (r *Runner) AbsBlock(n *chaingen.Node) (v1, v2 []ATx) {
	m := Meta{SignedAt: n.Height - 1, POK: true}
	// a block of the generator carries its own copies, signed on its parent (an id does not cover
	// the signatures, so a submitted transaction with the same id may be signed for another height);
	// a block mined from the pool carries the pool's copies
	pick := func(id types.TransactionID) Meta {
		if r.minedFromPool[n] {
			return r.meta(id, m)
		}
		return m
	}
	for _, t := range n.Block.Transactions {
		v1 = append(v1, r.W.AbsV1(t, pick(t.ID())))
	}
	for _, t := range n.Block.V2Transactions() {
		v2 = append(v2, r.W.AbsV2(t, pick(t.ID())))
	}
	return
}

// Pool reads both lists; a panic is reported. Every reading makes the manager revalidate its pool
// against the current tip: when calls are still waiting for their observation (DeferNext / Quiet
// steps, whose trace entries say "no query here"), this reading is recorded as a query of its own, so
// that the model revalidates at the same point of the history as the manager.
func (r *Runner) Pool() (v1 []types.Transaction, v2 []types.V2Transaction) {
	v1, v2 = r.readPool()
	if len(r.deferred) > 0 && !r.Quiet && !r.DeferNext {
		rc := rec{Op: "query", Res: Res{Kind: "none"}}
		r.record(&rc, v1, v2)
	}
	return
}

func (r *Runner) readPool() (v1 []types.Transaction, v2 []types.V2Transaction) {
	defer func() {
		if p := recover(); p != nil {
			r.Fail("pool-query-panic", fmt.Sprint("PoolTransactions/V2PoolTransactions panicked: ", p))
		}
	}()
	return r.CM.PoolTransactions(), r.CM.V2PoolTransactions()
}

// record appends the calls that waited for an observation and then rc with the lists just read.
func (r *Runner) record(rc *rec, v1 []types.Transaction, v2 []types.V2Transaction) {
	for _, t := range v1 {
		rc.ObsV1 = append(rc.ObsV1, t.ID())
	}
	for _, t := range v2 {
		rc.ObsV2 = append(rc.ObsV2, r.W.AbsV2(t, r.meta(t.ID(), Meta{POK: true})))
	}
	r.recs = append(r.recs, r.deferred...)
	r.deferred = nil
	r.recs = append(r.recs, *rc)
}

func (r *Runner) observe(rc *rec) {
	if r.DeferNext || r.Quiet {
		// the pool is not read now: the next call on the manager comes first; the trace entry says so
		// (ObsNone) and the model makes no query there either
		r.DeferNext = false
		c := *rc
		c.NoObs = true
		r.deferred = append(r.deferred, c)
		r.window = nil
		return
	}
	v1, v2 := r.readPool()
	r.checkWindow(v1, v2)
	r.record(rc, v1, v2)
}

// AssembleBlock builds a block on node n from the given transactions (all of them must fit).
func AssembleBlock(n *chaingen.Node, v1 []types.Transaction, v2 []types.V2Transaction) types.Block {
	cs := n.FullState
	b := types.Block{ParentID: cs.Index.ID, Timestamp: types.CurrentTimestamp(), MinerPayouts: []types.SiacoinOutput{{Value: cs.BlockReward(), Address: types.VoidAddress}}}
	for _, t := range v1 {
		b.Transactions = append(b.Transactions, t)
		b.MinerPayouts[0].Value = b.MinerPayouts[0].Value.Add(t.TotalFees())
	}
	if cs.Index.Height+1 >= cs.Network.HardforkV2.AllowHeight {
		b.V2 = &types.V2BlockData{Height: cs.Index.Height + 1}
		for _, t := range v2 {
			b.V2.Transactions = append(b.V2.Transactions, t)
			b.MinerPayouts[0].Value = b.MinerPayouts[0].Value.Add(t.MinerFee)
		}
		b.V2.Commitment = cs.Commitment(types.VoidAddress, b.Transactions, b.V2Transactions())
	}
	chaingen.FindNonce(cs, &b)
	return b
}

// Chain performs a block submission; the tip may move.
func (r *Runner) Chain(op mgrsim.Op) mgrsim.Obs {
	before := r.Tip
	if op.Kind == "addv" && len(op.Nodes) > 0 {
		// AddValidatedV2Blocks stores every block with an (empty) supplement and its full state
		if first := r.W.T.Nodes[op.Nodes[0]]; first.Parent != nil && r.Known[first.Parent] {
			for _, i := range op.Nodes {
				n := r.W.T.Nodes[i]
				if !r.Applied[n] {
					r.Known[n], r.Applied[n] = true, true
					r.elemNode[n] = n
					r.pendUpd = append(r.pendUpd, updRec{n, true})
				}
			}
		}
	}
	// what AddBlocks stores: blocks in order until one whose parent is unknown
	for _, i := range op.Nodes {
		if op.Kind != "add" {
			break
		}
		n := r.W.T.Nodes[i]
		if r.Applied[n] {
			continue // "already have this block" (it has a supplement)
		}
		if n.Parent == nil || !r.Known[n.Parent] || !n.HdrOK {
			break
		}
		// the header-derived state copies the accumulator of the parent's stored state; a block
		// that was stored but never applied is processed again and gets the parent's current one
		r.elemNode[n] = r.elemNode[n.Parent]
		if !r.Known[n] {
			r.Known[n] = true
			r.pendUpd = append(r.pendUpd, updRec{n, false})
		}
	}
	r.Ops = append(r.Ops, op)
	o := r.Sim.Do(op)
	if o.Panic {
		r.Fail("manager-panic", fmt.Sprintf("%v panicked: %s", op, o.ErrText))
		r.NoCoq = "panic"
		return o
	}
	after := r.W.T.ByID[r.CM.Tip().ID]
	if after == nil || !after.ChainValid() {
		r.Fail("tip-not-a-valid-tree-block", fmt.Sprintf("after %v the tip %v is not a valid block of the tree", op, r.CM.Tip()))
		r.NoCoq = "tip"
		return o
	}
	r.moved(before, after, o.Err)
	return o
}

func (r *Runner) moved(before, after *chaingen.Node, failed bool) {
	r.Tip = after
	rc := rec{Op: "chain", Tip: r.W.Info(after)}
	rev, app := TreePath(before, after)
	for _, x := range app {
		r.elemNode[x] = x
		if !r.Applied[x] {
			r.Applied[x] = true
			r.pendUpd = append(r.pendUpd, updRec{x, true})
		}
	}
	rc.Upd, r.pendUpd = r.pendUpd, nil
	if before == after {
		// (a failed reorg may have reverted and re-applied blocks: such histories have no Coq case)
		rc.Op = "store"
		rc.Res = Res{Kind: "none"}
		r.observe(&rc)
		return
	}
	for _, x := range rev {
		rc.Steps = append(rc.Steps, bstepRec{true, r.W.Info(x).Created, r.W.Info(x.Parent).Num})
	}
	for _, x := range app {
		rc.Steps = append(rc.Steps, bstepRec{false, r.W.Info(x).Created, r.W.Info(x).Num})
	}
	if len(rev) > 0 {
		r.lastRev = rev[0]
	}
	if r.lastRev != nil {
		// the re-offered transactions keep the proofs they had in their block: whether those
		// still verify at the new tip is decided by core on the generator's state of the tip
		rc.LR = true
		rc.LR1, rc.LR2 = r.AbsBlock(r.lastRev)
		for i, t := range r.lastRev.Block.V2Transactions() {
			ok := after.FullState.Elements.ValidateTransactionElements(t) == nil
			for j := range rc.LR2[i].Ins {
				rc.LR2[i].Ins[j].POK = ok
			}
		}
	}
	rc.Res = Res{Kind: "none"}
	r.observe(&rc)
}

// StoredState returns the state the manager's store holds for a known block: the
// full state if the block was ever applied, else the header-derived state, whose
// element accumulator is that of the nearest applied ancestor.
func (r *Runner) StoredElements(n *chaingen.Node) *chaingen.Node {
	if e, ok := r.elemNode[n]; ok && e != nil {
		return e
	}
	return r.W.T.Nodes[0]
}

// Mine calls coreutils.MineBlock on the node; the block is returned without being added.
func (r *Runner) MineOnly() (b types.Block, ok bool) {
	defer func() {
		if p := recover(); p != nil {
			r.Fail("mine-panic", fmt.Sprint("MineBlock panicked: ", p))
			ok = false
		}
	}()
	return coreutils.MineBlock(r.CM, types.VoidAddress, 10*time.Second)
}

// Adopt adds a mined block to the node and extends the tree with it.
func (r *Runner) Adopt(b types.Block) bool {
	before := r.Tip
	err := r.CM.AddBlocks([]types.Block{b})
	if err != nil || r.CM.Tip().ID != b.ID() {
		return false
	}
	n := r.W.T.AddBlock(b, "")
	if n != nil {
		r.Ops = append(r.Ops, mgrsim.Op{Kind: "add", Nodes: []int{n.Idx}})
		r.minedFromPool[n] = true
		r.elemNode[n] = r.elemNode[before]
		r.pendUpd = append(r.pendUpd, updRec{n, false})
	}
	if n == nil || !n.ChainValid() {
		r.Fail("mined-block-labelled-invalid", "a block mined from the pool and adopted by the node is rejected by a fresh linear node")
		r.NoCoq = "mined"
		return false
	}
	r.Known[n] = true
	r.moved(before, n, false)
	return true
}

func verdictOf(known bool, err error) int {
	switch {
	case err != nil:
		return 2
	case known:
		return 1
	}
	return 0
}

// Submit1 calls AddPoolTransactions.
func (r *Runner) Submit1(txs []types.Transaction, metas []Meta) (known bool, err error, panicked bool) {
	rc := rec{Op: "add1"}
	for i, t := range txs {
		if _, ok := r.Meta[t.ID()]; !ok {
			r.Meta[t.ID()] = metas[i]
		}
		rc.Set = append(rc.Set, r.W.AbsV1(t, metas[i]))
	}
	func() {
		defer func() {
			if p := recover(); p != nil {
				panicked = true
				rc.Res = Res{Kind: "panic", Text: fmt.Sprint(p)}
			}
		}()
		before, _ := r.Pool()
		was := map[types.TransactionID]bool{}
		for _, t := range before {
			was[t.ID()] = true
		}
		known, err = r.CM.AddPoolTransactions(txs)
		if err == nil && !known {
			// the pool now holds these copies (an id does not cover the signatures)
			for i, t := range txs {
				if !was[t.ID()] {
					r.Meta[t.ID()] = metas[i]
					r.Old1 = append(r.Old1, OldTx{V1: t, Meta: metas[i]})
				}
			}
		}
		rc.Res = Res{Kind: "verdict", Verdict: verdictOf(known, err)}
		if err != nil {
			rc.Res.Text = err.Error()
		}
	}()
	r.observe(&rc)
	return
}

// Submit2 calls AddV2PoolTransactions.
func (r *Runner) Submit2(basis types.ChainIndex, txs []types.V2Transaction, metas []Meta) (known bool, err error, panicked bool) {
	rc := rec{Op: "add2", Basis: basis}
	for i, t := range txs {
		if _, ok := r.Meta[t.ID()]; !ok {
			r.Meta[t.ID()] = metas[i]
		}
		rc.Set = append(rc.Set, r.W.AbsV2(t, metas[i]))
	}
	func() {
		defer func() {
			if p := recover(); p != nil {
				panicked = true
				rc.Res = Res{Kind: "panic", Text: fmt.Sprint(p)}
			}
		}()
		_, before := r.Pool()
		was := map[types.TransactionID]bool{}
		for _, t := range before {
			was[t.ID()] = true
		}
		known, err = r.CM.AddV2PoolTransactions(basis, txs)
		if err == nil && !known {
			for i, t := range txs {
				if !was[t.ID()] {
					r.Meta[t.ID()] = metas[i]
					r.Old2 = append(r.Old2, OldTx{V2: CopyV2(t), Meta: metas[i], Basis: basis})
				}
			}
		}
		rc.Res = Res{Kind: "verdict", Verdict: verdictOf(known, err)}
		if err != nil {
			rc.Res.Text = err.Error()
		}
	}()
	r.observe(&rc)
	return
}

// Submit1Quiet / Submit2Quiet submit without reading the pool before or after (Quiet must be set).
func (r *Runner) Submit1Quiet(txs []types.Transaction, metas []Meta) (known bool, err error, panicked bool) {
	rc := rec{Op: "add1"}
	for i, t := range txs {
		if _, ok := r.Meta[t.ID()]; !ok {
			r.Meta[t.ID()] = metas[i]
		}
		rc.Set = append(rc.Set, r.W.AbsV1(t, metas[i]))
	}
	func() {
		defer func() {
			if p := recover(); p != nil {
				panicked = true
				rc.Res = Res{Kind: "panic", Text: fmt.Sprint(p)}
			}
		}()
		known, err = r.CM.AddPoolTransactions(txs)
		rc.Res = Res{Kind: "verdict", Verdict: verdictOf(known, err)}
	}()
	r.observe(&rc)
	return
}

func (r *Runner) Submit2Quiet(basis types.ChainIndex, txs []types.V2Transaction, metas []Meta) (known bool, err error, panicked bool) {
	rc := rec{Op: "add2", Basis: basis}
	for i, t := range txs {
		if _, ok := r.Meta[t.ID()]; !ok {
			r.Meta[t.ID()] = metas[i]
		}
		rc.Set = append(rc.Set, r.W.AbsV2(t, metas[i]))
	}
	func() {
		defer func() {
			if p := recover(); p != nil {
				panicked = true
				rc.Res = Res{Kind: "panic", Text: fmt.Sprint(p)}
			}
		}()
		known, err = r.CM.AddV2PoolTransactions(basis, txs)
		rc.Res = Res{Kind: "verdict", Verdict: verdictOf(known, err)}
	}()
	r.observe(&rc)
	return
}

// Lookup1 / Lookup2 call PoolTransaction / V2PoolTransaction.
func (r *Runner) Lookup1(id types.TransactionID) (t types.Transaction, ok, panicked bool) {
	rc := rec{Op: "look", ID: id}
	func() {
		defer func() {
			if p := recover(); p != nil {
				panicked = true
				rc.Res = Res{Kind: "panic", Text: fmt.Sprint(p)}
			}
		}()
		t, ok = r.CM.PoolTransaction(id)
		if ok {
			rc.Res = Res{Kind: "found", ID: t.ID()}
		} else {
			rc.Res = Res{Kind: "absent"}
		}
	}()
	r.observe(&rc)
	return
}

func (r *Runner) Lookup2(id types.TransactionID) (t types.V2Transaction, ok, panicked bool) {
	rc := rec{Op: "look", V2: true, ID: id}
	func() {
		defer func() {
			if p := recover(); p != nil {
				panicked = true
				rc.Res = Res{Kind: "panic", Text: fmt.Sprint(p)}
			}
		}()
		t, ok = r.CM.V2PoolTransaction(id)
		if ok {
			rc.Res = Res{Kind: "found", ID: t.ID()}
		} else {
			rc.Res = Res{Kind: "absent"}
		}
	}()
	r.observe(&rc)
	return
}

// errRes projects a failed rebase: only "an error was returned" is observed (never the
// wording, nor which of several applicable errors). CorruptIndex (one shot) marks a call whose
// chain index has a height that contradicts its block: there any error is admissible.
func (r *Runner) errRes(err error) Res {
	k := "err"
	if r.CorruptIndex {
		k = "reject"
	}
	return Res{Kind: k, Text: err.Error()}
}

// TxSet calls V2TransactionSet.
func (r *Runner) TxSet(basis types.ChainIndex, t types.V2Transaction, m Meta) (idx types.ChainIndex, set []types.V2Transaction, err error, panicked bool) {
	if _, ok := r.Meta[t.ID()]; !ok {
		r.Meta[t.ID()] = m
	}
	rc := rec{Op: "txset", Basis: basis, Tx: r.W.AbsV2(t, m)}
	func() {
		defer func() {
			if p := recover(); p != nil {
				panicked = true
				rc.Res = Res{Kind: "panic", Text: fmt.Sprint(p)}
			}
		}()
		idx, set, err = r.CM.V2TransactionSet(basis, t)
		defer func() { r.CorruptIndex = false }()
		if err != nil {
			rc.Res = r.errRes(err)
		} else {
			rc.Res = Res{Kind: "ok", Basis: idx}
			for _, x := range set {
				rc.Res.Form = append(rc.Res.Form, r.W.AbsV2(x, r.meta(x.ID(), m)))
			}
		}
	}()
	r.observe(&rc)
	return
}

// Parents calls UnconfirmedParents.
func (r *Runner) Parents(t types.Transaction, m Meta) (ps []types.Transaction, panicked bool) {
	rc := rec{Op: "parents", Tx: r.W.AbsV1(t, m)}
	func() {
		defer func() {
			if p := recover(); p != nil {
				panicked = true
				rc.Res = Res{Kind: "panic", Text: fmt.Sprint(p)}
			}
		}()
		ps = r.CM.UnconfirmedParents(t)
		rc.Res = Res{Kind: "ids"}
		for _, x := range ps {
			rc.Res.IDs = append(rc.Res.IDs, x.ID())
		}
	}()
	r.observe(&rc)
	return
}

// Update calls UpdateV2TransactionSet.
func (r *Runner) Update(txs []types.V2Transaction, metas []Meta, from, to types.ChainIndex) (out []types.V2Transaction, err error, panicked bool) {
	rc := rec{Op: "update", Basis: from, To: to}
	for i, t := range txs {
		if _, ok := r.Meta[t.ID()]; !ok {
			r.Meta[t.ID()] = metas[i]
		}
		rc.Set = append(rc.Set, r.W.AbsV2(t, metas[i]))
	}
	func() {
		defer func() {
			if p := recover(); p != nil {
				panicked = true
				rc.Res = Res{Kind: "panic", Text: fmt.Sprint(p)}
			}
		}()
		out, err = r.CM.UpdateV2TransactionSet(txs, from, to)
		defer func() { r.CorruptIndex = false }()
		if err != nil {
			rc.Res = r.errRes(err)
		} else {
			rc.Res = Res{Kind: "ok", Basis: to}
			for _, x := range out {
				rc.Res.Form = append(rc.Res.Form, r.W.AbsV2(x, Meta{POK: true}))
			}
		}
	}()
	r.observe(&rc)
	return
}

// RecordMine records the transactions of a mined block as a model observation.
func (r *Runner) RecordMine(b types.Block) {
	rc := rec{Op: "mine", V2Ok: b.V2 != nil}
	rc.Res = Res{Kind: "ids"}
	for _, t := range b.Transactions {
		rc.Res.IDs = append(rc.Res.IDs, t.ID())
	}
	for i, t := range b.V2Transactions() {
		if i == 0 {
			rc.Arb = r.W.AbsV2(t, Meta{POK: true})
			rc.Arb.Lo, rc.Arb.Hi = 0, never
		}
		rc.Res.IDs = append(rc.Res.IDs, t.ID())
	}
	r.observe(&rc)
}

// LastReverted returns the block whose transactions the manager re-offers (nil: none yet).
func (r *Runner) LastReverted() *chaingen.Node { return r.lastRev }

// Steps returns the number of recorded calls.
func (r *Runner) Steps() int { return len(r.recs) }

// LastObs returns the lists observed after the last call.
func (r *Runner) LastObs() ([]types.TransactionID, []ATx) {
	if len(r.recs) == 0 {
		return nil, nil
	}
	l := r.recs[len(r.recs)-1]
	return l.ObsV1, l.ObsV2
}

// CoqCase renders the recorded history.
func (r *Runner) CoqCase() string {
	if len(r.deferred) > 0 {
		r.Quiet = false
		rc := rec{Op: "query", Res: Res{Kind: "none"}}
		r.observe(&rc)
	}
	nm := NewNames()
	// pass one: name transactions and the elements they mention, in order of appearance
	for _, rc := range r.recs {
		for _, a := range rc.Set {
			nm.Touch(a)
		}
		for _, a := range rc.LR1 {
			nm.Touch(a)
		}
		for _, a := range rc.LR2 {
			nm.Touch(a)
		}
		if rc.Op == "txset" || rc.Op == "parents" {
			nm.Touch(rc.Tx)
		}
		if rc.Op == "mine" && rc.V2Ok {
			nm.Touch(rc.Arb)
		}
		for _, a := range rc.Res.Form {
			nm.Touch(a)
		}
		for _, a := range rc.ObsV2 {
			nm.Touch(a)
		}
		for _, id := range rc.ObsV1 {
			nm.Tx(id)
		}
		for _, id := range rc.Res.IDs {
			nm.Tx(id)
		}
		if rc.Res.Kind == "found" {
			nm.Tx(rc.Res.ID)
		}
		if rc.Op == "look" {
			nm.Tx(rc.ID)
		}
	}
	for _, n := range r.W.T.Nodes {
		nm.Blk(n.ID)
	}
	blkStr := func(n *chaingen.Node, applied bool) string {
		in := r.W.Info(n)
		par := uint64(0)
		if n.Parent != nil {
			par = nm.Blk(n.Parent.ID)
		}
		var ids []string
		for _, t := range n.Block.V2Transactions() {
			if v, ok := nm.tx[t.ID()]; ok {
				ids = append(ids, fmt.Sprint(v))
			}
		}
		return fmt.Sprintf("(%d, B %d true true %v [%s] %s %d)", nm.Blk(n.ID), par, applied, strings.Join(ids, "; "), nm.CoqEls(in.Created), in.Num)
	}
	// the store also holds the state before genesis under the zero id (no header, no body)
	us := []string{"(0, B 0 false true false [] [] 0)", blkStr(r.W.T.Nodes[0], true)}
	updStr := func(us []updRec) string {
		var ss []string
		for _, u := range us {
			ss = append(ss, blkStr(u.N, u.Applied))
		}
		return "[" + strings.Join(ss, "; ") + "]"
	}
	var tr []string
	for _, rc := range r.recs {
		var op string
		switch rc.Op {
		case "add1":
			op = "CAdd1 " + nm.CoqTxs(rc.Set)
		case "add2":
			op = fmt.Sprintf("CAdd2 %s %s", nm.CoqIndex(rc.Basis), nm.CoqTxs(rc.Set))
		case "chain":
			var ss []string
			for _, s := range rc.Steps {
				ss = append(ss, fmt.Sprintf("S_ %v %s %d", s.Revert, nm.CoqEls(s.Created), s.Num))
			}
			lr := "None"
			if rc.LR {
				lr = fmt.Sprintf("(Some (%s, %s))", nm.CoqTxs(rc.LR1), nm.CoqTxs(rc.LR2))
			}
			op = fmt.Sprintf("CChain [%s] %s (%s) %s %s", strings.Join(ss, "; "), lr, nm.CoqLedger(rc.Tip), nm.CoqIndex(rc.Tip.Index), updStr(rc.Upd))
		case "store":
			op = "CStore " + updStr(rc.Upd)
		case "look":
			op = fmt.Sprintf("CLook %v %d", rc.V2, nm.Tx(rc.ID))
		case "query":
			op = "CQuery"
		case "mine":
			arb := "(T 0 true [] [] 0 0 0 0 true)"
			if rc.V2Ok {
				arb = "(" + nm.CoqTx(rc.Arb) + ")"
			}
			op = fmt.Sprintf("CMine %v %s", rc.V2Ok, arb)
		case "txset":
			op = fmt.Sprintf("CTxSet %s (%s)", nm.CoqIndex(rc.Basis), nm.CoqTx(rc.Tx))
		case "parents":
			op = fmt.Sprintf("CParents (%s)", nm.CoqTx(rc.Tx))
		case "update":
			op = fmt.Sprintf("CUpdate %s %s %s", nm.CoqTxs(rc.Set), nm.CoqIndex(rc.Basis), nm.CoqIndex(rc.To))
		}
		var res string
		switch rc.Res.Kind {
		case "verdict":
			res = fmt.Sprintf("XVerdict %d", rc.Res.Verdict)
		case "found":
			res = fmt.Sprintf("XFound %d", nm.Tx(rc.Res.ID))
		case "absent":
			res = "XAbsent"
		case "panic":
			res = "XPanic"
		case "none":
			res = "XNone"
		case "ids":
			res = "XIds " + nm.CoqIDs(rc.Res.IDs)
		case "ok":
			res = fmt.Sprintf("XOk %s %s", nm.CoqIndex(rc.Res.Basis), nm.CoqForm(rc.Res.Form))
		case "err":
			res = "XErr 0"
		case "reject":
			res = "XReject"
		}
		cmt := ""
		if rc.Res.Text != "" {
			cmt = " (* " + strings.ReplaceAll(strings.ReplaceAll(rc.Res.Text, "*)", "* )"), "(*", "( *") + " *)"
		}
		if rc.NoObs {
			tr = append(tr, fmt.Sprintf("(%s,\n    ObsNone (%s))%s", op, res, cmt))
		} else {
			tr = append(tr, fmt.Sprintf("(%s,\n    Obs (%s) %s %s)%s", op, res, nm.CoqIDs(rc.ObsV1), nm.CoqForm(rc.ObsV2), cmt))
		}
	}
	start := r.W.Info(r.Start)
	gen := r.W.Info(r.W.T.Nodes[0])
	md := MaxDist
	if !DistBounded {
		md = 5000 // no limit was found: larger than any path of a case
	}
	return fmt.Sprintf("mk_case %d %d %d\n  [%s]\n  %s (%s) %s\n  [%s]", r.MW, r.MW*CapBlocks/10, md, strings.Join(us, ";\n   "), nm.CoqIndex(gen.Index), nm.CoqLedger(start), nm.CoqIndex(start.Index), strings.Join(tr, ";\n   "))
}
