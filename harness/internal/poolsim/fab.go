package poolsim

import (
	"fmt"
	"strings"

	"go.sia.tech/core/types"
	"verif/harness/internal/chaingen"
	"verif/harness/internal/rng"
)

// A Submission is one generated call of AddPoolTransactions / AddV2PoolTransactions.
type Submission struct {
	Flavor string
	V2     bool
	Basis  types.ChainIndex
	V1     []types.Transaction
	V2s    []types.V2Transaction
	Metas  []Meta
}

// Flavors lists the kinds of submitted sets.
var Flavors = []string{
	"fresh-v1", "fresh-v2", "chain-v1", "chain-v2", "stale-v2", "conflict-v1", "conflict-v2",
	"set-conflict-v1", "set-conflict-v2", "set-invalid-v1", "set-invalid-v2", "partly-known-v1", "partly-known-v2",
	"known-v1", "known-v2", "child-only-v1", "child-only-v2", "builder", "wrong-basis-v2", "corrupt-proof-v2", "empty-v1", "empty-v2",
	"dup-v1", "dup-v2", "resubmit-v1", "resubmit-v2", "known-and-conflict-v1", "known-and-conflict-v2",
}

func (r *Runner) v1ok() bool {
	return r.Tip.Height+1 < r.W.Env.Net.HardforkV2.RequireHeight
}
func (r *Runner) v2ok() bool {
	return r.Tip.Height+1 >= r.W.Env.Net.HardforkV2.AllowHeight
}

// poolSpent returns the siacoin outputs spent by pooled transactions.
func poolSpent(v1 []types.Transaction, v2 []types.V2Transaction) map[types.SiacoinOutputID]bool {
	m := map[types.SiacoinOutputID]bool{}
	for _, t := range v1 {
		for _, in := range t.SiacoinInputs {
			m[in.ParentID] = true
		}
	}
	for _, t := range v2 {
		for _, in := range t.SiacoinInputs {
			m[in.Parent.ID] = true
		}
	}
	return m
}

// freeInputs returns spendable elements at node n not spent by the pool.
func (r *Runner) freeInputs(n *chaingen.Node) []types.SiacoinElement {
	v1, v2 := r.Pool()
	sp := poolSpent(v1, v2)
	var out []types.SiacoinElement
	for _, e := range r.W.Spendable(r.W.Info(n), types.Siacoins(40)) {
		if !sp[e.ID] {
			out = append(out, e)
		}
	}
	return out
}

// usedInputs returns spendable elements at the tip that a pooled transaction spends.
func (r *Runner) usedInputs() []types.SiacoinElement {
	v1, v2 := r.Pool()
	sp := poolSpent(v1, v2)
	var out []types.SiacoinElement
	for _, e := range r.W.Spendable(r.W.Info(r.Tip), types.Siacoins(40)) {
		if sp[e.ID] {
			out = append(out, e)
		}
	}
	return out
}

// fee: mostly a few siacoins, sometimes nothing at all (such a transaction is not re-offered after
// its block is reverted), one hasting (fee rate 0 after the division by the weight) or most of the input
func (r *Runner) fee(g *rng.R) types.Currency {
	switch g.Intn(12) {
	case 0:
		r.Stats["fee:none"]++
		return types.ZeroCurrency
	case 1:
		r.Stats["fee:one-hasting"]++
		return types.NewCurrency64(1)
	case 2:
		r.Stats["fee:most-of-the-input"]++
		return types.Siacoins(30)
	}
	r.Stats["fee:typical"]++
	return types.Siacoins(uint32(1 + g.Intn(5)))
}

// feeAndPay: the fee and the payment of a fabricated transfer (never more than half of the input)
func (r *Runner) feeAndPay(g *rng.R, value types.Currency) (f, pay types.Currency) {
	f, pay = r.fee(g), types.Siacoins(uint32(1+g.Intn(3)))
	if f.Add(pay).Cmp(value.Div64(2)) > 0 {
		if !f.IsZero() {
			f = value.Div64(4)
		}
		pay = value.Div64(4)
	}
	return
}

func (r *Runner) mkV1(g *rng.R, at *chaingen.Node, id types.SiacoinOutputID, value types.Currency, extra int) (types.Transaction, Meta) {
	e := r.W.Env
	f, pay := r.feeAndPay(g, value)
	t := e.V1Spend(at.FullState, id, value, f, pay, e.Payees[g.Intn(len(e.Payees))], extra, byte(g.Intn(250)))
	return t, Meta{SignedAt: at.Height, POK: true}
}

func (r *Runner) mkV2(g *rng.R, at *chaingen.Node, in types.SiacoinElement, extra int) (types.V2Transaction, Meta) {
	e := r.W.Env
	f, pay := r.feeAndPay(g, in.SiacoinOutput.Value)
	t := e.V2Spend(at.FullState, in, f, pay, e.Payees[g.Intn(len(e.Payees))], extra, byte(g.Intn(250)))
	return t, Meta{SignedAt: at.Height, POK: true}
}

// last output of a fabricated transfer is the change back to our key
func changeV1(t types.Transaction) (types.SiacoinOutputID, types.Currency) {
	i := len(t.SiacoinOutputs) - 1
	return t.SiacoinOutputID(i), t.SiacoinOutputs[i].Value
}

func corruptV1(t *types.Transaction) {
	if len(t.Signatures) > 0 {
		sig := append([]byte(nil), t.Signatures[0].Signature...)
		sig[0] ^= 1
		t.Signatures[0].Signature = sig
	}
}

func corruptV2(t *types.V2Transaction) {
	if len(t.SiacoinInputs) > 0 && len(t.SiacoinInputs[0].SatisfiedPolicy.Signatures) > 0 {
		sigs := append([]types.Signature(nil), t.SiacoinInputs[0].SatisfiedPolicy.Signatures...)
		sigs[0][0] ^= 1
		t.SiacoinInputs[0].SatisfiedPolicy.Signatures = sigs
	}
}

// Fabricate builds a submission of the given flavor at the current state, or
// returns nil when the state offers no material for it.
func (r *Runner) Fabricate(g *rng.R, flavor string) *Submission {
	tip := r.Tip
	s := &Submission{Flavor: flavor, Basis: r.W.Info(tip).Index}
	fillerW := 0
	if strings.HasPrefix(flavor, "filler-v2:") {
		fmt.Sscanf(flavor[len("filler-v2:"):], "%d", &fillerW)
		flavor = "filler-v2"
		s.Flavor = flavor
	}
	builderKind := ""
	if strings.HasPrefix(flavor, "builder:") {
		builderKind = flavor[len("builder:"):]
		flavor = "builder"
	}
	asBlock := -1
	if strings.HasPrefix(flavor, "spend-as-block:") {
		fmt.Sscanf(flavor[len("spend-as-block:"):], "%d", &asBlock)
		flavor = "spend-as-block"
		s.Flavor = flavor
	}
	slackArg := -1
	if strings.HasPrefix(flavor, "exact-fill-v2:") {
		fmt.Sscanf(flavor[len("exact-fill-v2:"):], "%d", &slackArg)
		flavor = "exact-fill-v2"
		s.Flavor = flavor
	}
	v2 := len(flavor) > 3 && flavor[len(flavor)-3:] == "-v2"
	s.V2 = v2
	if v2 && !r.v2ok() || !v2 && flavor != "builder" && !r.v1ok() {
		return nil
	}
	if flavor == "builder" && !r.v1ok() && !r.v2ok() {
		return nil
	}
	if flavor == "spend-as-block" {
		v2 = r.v2ok() && !r.v1ok()
		s.V2 = v2
	}
	if flavor == "merge-old-v1" && !r.v1ok() {
		return nil
	}
	free := r.freeInputs(tip)
	pick := func() (types.SiacoinElement, bool) {
		if len(free) == 0 {
			return types.SiacoinElement{}, false
		}
		i := g.Intn(len(free))
		e := free[i]
		free = append(free[:i:i], free[i+1:]...)
		return e, true
	}
	add1 := func(t types.Transaction, m Meta) { s.V1 = append(s.V1, t); s.Metas = append(s.Metas, m) }
	add2 := func(t types.V2Transaction, m Meta) { s.V2s = append(s.V2s, t); s.Metas = append(s.Metas, m) }
	fresh := func() bool {
		e, ok := pick()
		if !ok {
			return false
		}
		if v2 {
			t, m := r.mkV2(g, tip, e, 0)
			add2(t, m)
		} else {
			t, m := r.mkV1(g, tip, e.ID, e.SiacoinOutput.Value, 0)
			add1(t, m)
		}
		return true
	}
	pv1, pv2 := r.Pool()
	switch flavor {
	case "fresh-v1", "fresh-v2":
		if !fresh() {
			return nil
		}
	case "merge-old-v1":
		// a v1 transaction spending a free element together with the change output of the transaction accepted
		// first in this history (confirmed by now)
		if len(r.Old1) == 0 {
			return nil
		}
		q := r.Old1[0].V1
		oid, oval := changeV1(q)
		if _, ok := r.W.Info(tip).L.SC[oid]; !ok {
			return nil
		}
		e, ok := pick()
		if !ok || e.ID == oid {
			return nil
		}
		t := types.Transaction{SiacoinInputs: []types.SiacoinInput{{ParentID: e.ID, UnlockConditions: r.W.Env.UC}, {ParentID: oid, UnlockConditions: r.W.Env.UC}}, MinerFees: []types.Currency{types.Siacoins(2)}}
		t.SiacoinOutputs = []types.SiacoinOutput{{Address: r.W.Env.Addr, Value: e.SiacoinOutput.Value.Add(oval).Sub(types.Siacoins(2))}}
		r.W.Env.SignV1(tip.FullState, &t)
		add1(t, Meta{SignedAt: tip.Height, POK: true})
	case "spend-as-block":
		// a transaction spending an element that a transaction of tree block asBlock spends too (free at
		// the tip): when that block is applied, even transiently, this transaction may leave the pool
		if asBlock < 0 || asBlock >= len(r.W.T.Nodes) {
			return nil
		}
		spentThere := map[types.SiacoinOutputID]bool{}
		bn := r.W.T.Nodes[asBlock]
		for _, t := range bn.Block.Transactions {
			for _, in := range t.SiacoinInputs {
				spentThere[in.ParentID] = true
			}
		}
		for _, t := range bn.Block.V2Transactions() {
			for _, in := range t.SiacoinInputs {
				spentThere[in.Parent.ID] = true
			}
		}
		var cands []types.SiacoinElement
		for _, e := range free {
			if spentThere[e.ID] {
				cands = append(cands, e)
			}
		}
		if len(cands) == 0 {
			return nil
		}
		e := cands[g.Intn(len(cands))]
		if v2 {
			t, m := r.mkV2(g, tip, e, 0)
			add2(t, m)
		} else {
			t, m := r.mkV1(g, tip, e.ID, e.SiacoinOutput.Value, 0)
			add1(t, m)
		}
	case "resubmit-v1", "resubmit-v2":
		// a transaction that was accepted earlier in this history and is no longer pooled (confirmed, reverted,
		// evicted, invalidated), submitted again exactly as it was then (v2: with its old basis)
		pooled := map[types.TransactionID]bool{}
		for _, t := range pv1 {
			pooled[t.ID()] = true
		}
		for _, t := range pv2 {
			pooled[t.ID()] = true
		}
		if v2 {
			var cands []OldTx
			for _, o := range r.Old2 {
				if bn, ok := r.W.T.ByID[o.Basis.ID]; !pooled[o.V2.ID()] && ok && bn.ChainValid() {
					cands = append(cands, o)
				}
			}
			if len(cands) == 0 {
				return nil
			}
			o := cands[g.Intn(len(cands))]
			s.Basis = o.Basis
			add2(CopyV2(o.V2), o.Meta)
		} else {
			var cands []OldTx
			for _, o := range r.Old1 {
				if !pooled[o.V1.ID()] {
					cands = append(cands, o)
				}
			}
			if len(cands) == 0 {
				return nil
			}
			o := cands[g.Intn(len(cands))]
			add1(o.V1, o.Meta)
		}
		r.Stats["resubmitted-after-leaving"]++
	case "empty-v1", "empty-v2":
	case "dup-v1", "dup-v2":
		// the same transaction twice in one set: a fresh one, or (when there is one) a pooled one
		if v2 {
			if len(pv2) > 0 && g.Bool() {
				t := pv2[g.Intn(len(pv2))]
				m := r.meta(t.ID(), Meta{POK: true})
				add2(t, m)
				add2(CopyV2(t), m)
			} else if fresh() {
				add2(CopyV2(s.V2s[0]), s.Metas[0])
			} else {
				return nil
			}
		} else {
			if len(pv1) > 0 && g.Bool() {
				t := pv1[g.Intn(len(pv1))]
				m := r.meta(t.ID(), Meta{SignedAt: tip.Height, POK: true})
				add1(t, m)
				add1(t, m)
			} else if fresh() {
				add1(s.V1[0], s.Metas[0])
			} else {
				return nil
			}
		}
	case "chain-v1", "chain-v2":
		e, ok := pick()
		if !ok {
			return nil
		}
		n := 2 + g.Intn(2)
		if v2 {
			t, m := r.mkV2(g, tip, e, 0)
			add2(t, m)
			for i := 1; i < n; i++ {
				c, m := r.mkV2(g, tip, t.EphemeralSiacoinOutput(len(t.SiacoinOutputs)-1), 0)
				add2(c, m)
				t = c
			}
		} else {
			t, m := r.mkV1(g, tip, e.ID, e.SiacoinOutput.Value, 0)
			add1(t, m)
			for i := 1; i < n; i++ {
				id, val := changeV1(t)
				c, m := r.mkV1(g, tip, id, val, 0)
				add1(c, m)
				t = c
			}
		}
	case "stale-v2":
		// built at another known node near the tip, with that node's proofs and basis
		var cands []*chaingen.Node
		for _, x := range r.W.T.Nodes {
			if x == tip || !r.Known[x] || !x.ChainValid() || x.Height+1 < r.W.Env.Net.HardforkV2.AllowHeight {
				continue
			}
			rv, ap := TreePath(x, tip)
			if len(rv)+len(ap) <= 6 {
				cands = append(cands, x)
			}
		}
		if len(cands) == 0 {
			return nil
		}
		x := cands[g.Intn(len(cands))]
		fr := r.freeInputs(x)
		if len(fr) == 0 {
			return nil
		}
		s.Basis = r.W.Info(x).Index
		e := fr[g.Intn(len(fr))]
		t, m := r.mkV2(g, x, e, 0)
		add2(t, m)
		if g.Bool() { // with an ephemeral child
			c, m := r.mkV2(g, x, t.EphemeralSiacoinOutput(len(t.SiacoinOutputs)-1), 0)
			add2(c, m)
		}
	case "conflict-v1", "conflict-v2":
		used := r.usedInputs()
		if len(used) == 0 {
			return nil
		}
		e := used[g.Intn(len(used))]
		if v2 {
			t, m := r.mkV2(g, tip, e, 0)
			add2(t, m)
		} else {
			t, m := r.mkV1(g, tip, e.ID, e.SiacoinOutput.Value, 0)
			add1(t, m)
		}
	case "set-conflict-v1", "set-conflict-v2", "set-invalid-v1", "set-invalid-v2":
		n := 2 + g.Intn(4)
		k := g.Intn(n)
		used := r.usedInputs()
		conflict := flavor[:12] == "set-conflict"
		if conflict && len(used) == 0 {
			return nil
		}
		switch {
		case k == 0:
			r.Stats["set-defect-position:first"]++
		case k == n-1:
			r.Stats["set-defect-position:last"]++
		default:
			r.Stats["set-defect-position:middle"]++
		}
		for i := 0; i < n; i++ {
			if i == k && conflict {
				e := used[g.Intn(len(used))]
				if v2 {
					t, m := r.mkV2(g, tip, e, 0)
					add2(t, m)
				} else {
					t, m := r.mkV1(g, tip, e.ID, e.SiacoinOutput.Value, 0)
					add1(t, m)
				}
				continue
			}
			if !fresh() {
				return nil
			}
			if i == k {
				j := len(s.Metas) - 1
				s.Metas[j].Corrupt = true
				if v2 {
					corruptV2(&s.V2s[j])
				} else {
					corruptV1(&s.V1[j])
				}
			}
		}
	case "partly-known-v1", "partly-known-v2", "known-v1", "known-v2":
		// pooled transactions whose inputs are all confirmed can be resubmitted on their own
		tipL := r.W.Info(tip).L
		if v2 {
			for _, t := range pv2 {
				root := len(t.SiacoinInputs) > 0
				for _, in := range t.SiacoinInputs {
					if in.Parent.StateElement.LeafIndex == types.UnassignedLeafIndex {
						root = false
					}
				}
				if root && len(s.V2s) < 3 && g.Chance(2, 3) {
					add2(t, r.meta(t.ID(), Meta{POK: true}))
				}
			}
		} else {
			for _, t := range pv1 {
				root := len(t.SiacoinInputs) > 0
				for _, in := range t.SiacoinInputs {
					if _, ok := tipL.SC[in.ParentID]; !ok {
						root = false
					}
				}
				if root && len(s.V1) < 3 && g.Chance(2, 3) {
					add1(t, r.meta(t.ID(), Meta{SignedAt: tip.Height, POK: true}))
				}
			}
		}
		if len(s.Metas) == 0 {
			return nil
		}
		if flavor[:6] == "partly" {
			for i := 0; i < 1+g.Intn(2); i++ {
				if !fresh() {
					return nil
				}
			}
			// sometimes the new member first
			if g.Bool() && len(s.Metas) > 1 {
				l := len(s.Metas) - 1
				s.Metas[0], s.Metas[l] = s.Metas[l], s.Metas[0]
				if v2 {
					s.V2s[0], s.V2s[l] = s.V2s[l], s.V2s[0]
				} else {
					s.V1[0], s.V1[l] = s.V1[l], s.V1[0]
				}
			}
		}
	case "known-and-conflict-v1", "known-and-conflict-v2":
		// every kind of member in one set: a pooled transaction, a new one, one that double-spends an input
		// of another pooled transaction, another new one (any order of the first three)
		used := r.usedInputs()
		if len(used) == 0 {
			return nil
		}
		if v2 {
			var roots []types.V2Transaction
			for _, t := range pv2 {
				root := len(t.SiacoinInputs) > 0
				for _, in := range t.SiacoinInputs {
					root = root && in.Parent.StateElement.LeafIndex != types.UnassignedLeafIndex
				}
				if root {
					roots = append(roots, t)
				}
			}
			if len(roots) == 0 {
				return nil
			}
			kn := roots[g.Intn(len(roots))]
			add2(kn, r.meta(kn.ID(), Meta{POK: true}))
			if !fresh() {
				return nil
			}
			// (an input of another pooled transaction than the known member)
			var cand []types.SiacoinElement
			for _, e := range used {
				own := false
				for _, in := range kn.SiacoinInputs {
					own = own || in.Parent.ID == e.ID
				}
				if !own {
					cand = append(cand, e)
				}
			}
			if len(cand) == 0 {
				return nil
			}
			c, m := r.mkV2(g, tip, cand[g.Intn(len(cand))], 0)
			add2(c, m)
		} else {
			tipL := r.W.Info(tip).L
			var roots []types.Transaction
			for _, t := range pv1 {
				root := len(t.SiacoinInputs) > 0
				for _, in := range t.SiacoinInputs {
					_, ok := tipL.SC[in.ParentID]
					root = root && ok
				}
				if root {
					roots = append(roots, t)
				}
			}
			if len(roots) == 0 {
				return nil
			}
			kn := roots[g.Intn(len(roots))]
			add1(kn, r.meta(kn.ID(), Meta{SignedAt: tip.Height, POK: true}))
			if !fresh() {
				return nil
			}
			var cand []types.SiacoinElement
			for _, e := range used {
				own := false
				for _, in := range kn.SiacoinInputs {
					own = own || in.ParentID == e.ID
				}
				if !own {
					cand = append(cand, e)
				}
			}
			if len(cand) == 0 {
				return nil
			}
			e := cand[g.Intn(len(cand))]
			c, m := r.mkV1(g, tip, e.ID, e.SiacoinOutput.Value, 0)
			add1(c, m)
		}
		// any order of the three, then one more new member
		for i := len(s.Metas) - 1; i > 0; i-- {
			j := g.Intn(i + 1)
			s.Metas[i], s.Metas[j] = s.Metas[j], s.Metas[i]
			if v2 {
				s.V2s[i], s.V2s[j] = s.V2s[j], s.V2s[i]
			} else {
				s.V1[i], s.V1[j] = s.V1[j], s.V1[i]
			}
		}
		fresh()
		r.Stats["sets-mixing-known-new-and-conflicting-members"]++
	case "child-only-v1", "child-only-v2":
		if v2 {
			if len(pv2) == 0 {
				return nil
			}
			p := pv2[g.Intn(len(pv2))]
			if len(p.SiacoinOutputs) == 0 || p.SiacoinOutputs[len(p.SiacoinOutputs)-1].Address != r.W.Env.Addr {
				return nil
			}
			c, m := r.mkV2(g, tip, p.EphemeralSiacoinOutput(len(p.SiacoinOutputs)-1), 0)
			add2(c, m)
		} else {
			if len(pv1) == 0 {
				return nil
			}
			p := pv1[g.Intn(len(pv1))]
			if len(p.SiacoinOutputs) == 0 || p.SiacoinOutputs[len(p.SiacoinOutputs)-1].Address != r.W.Env.Addr {
				return nil
			}
			id, val := changeV1(p)
			if val.Cmp(types.Siacoins(20)) < 0 {
				return nil
			}
			c, m := r.mkV1(g, tip, id, val, 0)
			add1(c, m)
		}
	case "builder":
		// any transaction kind of the chain generator, built on a linear node at the tip
		b := r.W.Env.NewBuilder(chaingen.Blocks(r.W.T.Path(tip)))
		kind := chaingen.TxKinds[g.Intn(len(chaingen.TxKinds))]
		if builderKind != "" {
			kind = builderKind
		}
		if !b.AddTx(g, kind) {
			return nil
		}
		s.Flavor = "builder:" + kind
		b1, b2 := b.PoolOf()
		// revisions of one contract by several pooled transactions are ordered by core's revision
		// numbers, which the model does not track: the generator does not produce them
		revised := map[types.FileContractID]bool{}
		for _, t := range pv1 {
			for _, rv := range t.FileContractRevisions {
				revised[rv.ParentID] = true
			}
		}
		for _, t := range pv2 {
			for _, rv := range t.FileContractRevisions {
				revised[rv.Parent.ID] = true
			}
		}
		for _, t := range b1 {
			for _, rv := range t.FileContractRevisions {
				if revised[rv.ParentID] {
					return nil
				}
			}
		}
		for _, t := range b2 {
			for _, rv := range t.FileContractRevisions {
				if revised[rv.Parent.ID] {
					return nil
				}
			}
		}
		if len(b2) > 0 {
			s.V2 = true
			for _, t := range b2 {
				add2(t, Meta{SignedAt: tip.Height, POK: true})
			}
		} else {
			for _, t := range b1 {
				add1(t, Meta{SignedAt: tip.Height, POK: true})
			}
		}
	case "wrong-basis-v2":
		if !fresh() {
			return nil
		}
		switch g.Intn(3) {
		case 0: // an index the manager has never seen
			var id types.BlockID
			g.Bytes(id[:])
			s.Basis = types.ChainIndex{Height: tip.Height, ID: id}
		case 1: // a known block with a wrong height
			s.Basis = types.ChainIndex{Height: tip.Height + 1 + uint64(g.Intn(3)), ID: tip.ID}
		default: // another known block: the proofs do not belong to it
			var cands []*chaingen.Node
			for _, x := range r.W.T.Nodes {
				if x != tip && r.Known[x] && x.ChainValid() {
					cands = append(cands, x)
				}
			}
			if len(cands) == 0 {
				return nil
			}
			s.Basis = r.W.Info(cands[g.Intn(len(cands))]).Index
		}
	case "corrupt-proof-v2":
		if !fresh() {
			return nil
		}
		t := &s.V2s[0]
		se := t.SiacoinInputs[0].Parent.StateElement.Copy()
		if len(se.MerkleProof) == 0 {
			return nil
		}
		se.MerkleProof[g.Intn(len(se.MerkleProof))][0] ^= 1
		t.SiacoinInputs[0].Parent.StateElement = se
	case "filler-v2":
		// one input-less arbitrary-data transaction of the given weight
		t := types.V2Transaction{ArbitraryData: make([]byte, fillerW)}
		t.ArbitraryData[0], t.ArbitraryData[1] = 9, byte(g.Intn(250))
		add2(t, Meta{POK: true})
	case "filler-v1":
		e, ok := pick()
		if !ok {
			return nil
		}
		t, m := r.mkV1(g, tip, e.ID, e.SiacoinOutput.Value, 1_900_000)
		add1(t, m)
	case "heavy-chain-v1", "heavy-chain-v2":
		// a ~200 KB parent followed by a tiny child: with a filler in front of them the parent no
		// longer fits into a block while the child would
		e, ok := pick()
		if !ok {
			return nil
		}
		if v2 {
			p, m := r.mkV2(g, tip, e, 200_000)
			add2(p, m)
			c, m := r.mkV2(g, tip, p.EphemeralSiacoinOutput(len(p.SiacoinOutputs)-1), 0)
			add2(c, m)
		} else {
			p, m := r.mkV1(g, tip, e.ID, e.SiacoinOutput.Value, 200_000)
			add1(p, m)
			id, val := changeV1(p)
			c, m := r.mkV1(g, tip, id, val, 0)
			add1(c, m)
		}
	case "heavy-set-conflict-v1", "heavy-set-conflict-v2":
		// valid against the tip on its own: a chain of heavy new members over a free input, then a
		// member that double-spends an input of a pooled transaction -> refused as a whole
		used := r.usedInputs()
		e, ok := pick()
		if !ok || len(used) == 0 {
			return nil
		}
		n := 4 + g.Intn(2)
		if v2 {
			t, m := r.mkV2(g, tip, e, 500_000)
			add2(t, m)
			for i := 1; i < n; i++ {
				c, m := r.mkV2(g, tip, t.EphemeralSiacoinOutput(len(t.SiacoinOutputs)-1), 500_000)
				add2(c, m)
				t = c
			}
			d, m := r.mkV2(g, tip, used[g.Intn(len(used))], 0)
			add2(d, m)
		} else {
			t, m := r.mkV1(g, tip, e.ID, e.SiacoinOutput.Value, 500_000)
			add1(t, m)
			for i := 1; i < n; i++ {
				id, val := changeV1(t)
				c, m := r.mkV1(g, tip, id, val, 500_000)
				add1(c, m)
				t = c
			}
			u := used[g.Intn(len(used))]
			d, m := r.mkV1(g, tip, u.ID, u.SiacoinOutput.Value, 0)
			add1(d, m)
		}
	case "form-v1-require":
		// a v1 contract whose proof window ends exactly at the v2 require height
		req := r.W.Env.Net.HardforkV2.RequireHeight
		if tip.Height+3 > req {
			return nil
		}
		e, ok := pick()
		if !ok {
			return nil
		}
		ws := req - 1
		if ws <= tip.Height {
			ws = tip.Height + 1
		}
		if ws >= req {
			return nil
		}
		t := r.W.Env.V1Form(tip.FullState, e.ID, e.SiacoinOutput.Value, ws, req, byte(g.Intn(250)))
		add1(t, Meta{SignedAt: tip.Height, POK: true})
	case "exact-fill-v2":
		// input-less arbitrary-data transactions whose weights sum exactly to the block limit
		max := tip.FullState.MaxBlockWeight()
		mk := func(weight uint64, salt byte) types.V2Transaction {
			t := types.V2Transaction{ArbitraryData: make([]byte, weight)}
			t.ArbitraryData[0], t.ArbitraryData[1] = salt, byte(g.Intn(250))
			return t
		}
		slack := uint64(g.Intn(30)) // 0..11 overflows a block that carries MineBlock's own transaction uncounted
		if slackArg >= 0 {
			slack = uint64(slackArg)
		}
		s.V2 = true
		add2(mk(900000, 1), Meta{POK: true})
		add2(mk(900000, 2), Meta{POK: true})
		add2(mk(max-1800000-slack, 3), Meta{POK: true})
	default:
		return nil
	}
	// proofs against the claimed basis (an input bit of the model, decided by core on the
	// generator's own state of that block)
	if s.V2 {
		if bn, ok := r.W.T.ByID[s.Basis.ID]; ok && bn.ChainValid() {
			els := r.StoredElements(bn).FullState.Elements
			for i := range s.V2s {
				s.Metas[i].POK = els.ValidateTransactionElements(s.V2s[i]) == nil
			}
		}
	}
	return s
}

// Fill builds chains of large fee-paying transactions (distinct fee rates): each
// free input starts a chain of `depth` transactions, each spending the change of
// the previous one. One submission per chain.
func (r *Runner) Fill(g *rng.R, v2 bool, chains, depth, size int) []*Submission {
	tip := r.Tip
	if v2 && !r.v2ok() || !v2 && !r.v1ok() {
		return nil
	}
	free := r.freeInputs(tip)
	e := r.W.Env
	var out []*Submission
	k := 0
	for c := 0; c < chains && c < len(free); c++ {
		s := &Submission{Flavor: "fill", V2: v2, Basis: r.W.Info(tip).Index}
		in := free[c]
		id, val := in.ID, in.SiacoinOutput.Value
		for d := 0; d < depth; d++ {
			k++
			f := types.Siacoins(uint32(k*3 + g.Intn(3)))
			if v2 {
				t := e.V2Spend(tip.FullState, in, f, types.ZeroCurrency, e.Addr, size, byte(k))
				s.V2s = append(s.V2s, t)
				in = t.EphemeralSiacoinOutput(0)
			} else {
				t := e.V1Spend(tip.FullState, id, val, f, types.ZeroCurrency, e.Addr, size, byte(k))
				s.V1 = append(s.V1, t)
				id, val = t.SiacoinOutputID(0), t.SiacoinOutputs[0].Value
			}
			s.Metas = append(s.Metas, Meta{SignedAt: tip.Height, POK: true})
		}
		out = append(out, s)
	}
	return out
}
