package poolsim

import (
	"go.sia.tech/core/types"
	"verif/harness/internal/chaingen"
	"verif/harness/internal/mgrsim"
	"verif/harness/internal/rng"
)

// FailingReorg builds, on the block two below the tip, a heavier side chain whose second block has
// an invalid body, and submits it: the node reverts two blocks, applies the first side block, fails
// on the second and must return to the old tip. The first side block confirms a transaction that
// double-spends a confirmed input of a pooled transaction (when the pool offers one), so that this
// pooled transaction's input is spent transiently. It returns the side block that was applied
// transiently (nil when the state offers no material) and whether a pooled input was contested.
// Histories with such a step have no Coq case (the model has no failed reorgs).
func (r *Runner) FailingReorg(g *rng.R) (transient *chaingen.Node, contested bool) {
	tip := r.Tip
	if tip.Parent == nil || tip.Parent.Parent == nil {
		return nil, false
	}
	fork := tip.Parent.Parent
	if !fork.ChainValid() || !r.Applied[fork] {
		return nil, false
	}
	t := r.W.T
	fl := r.W.Info(fork).L
	v2 := fork.Height+1 >= r.W.Env.Net.HardforkV2.AllowHeight
	if !v2 && fork.Height+3 >= r.W.Env.Net.HardforkV2.RequireHeight {
		return nil, false
	}
	// an input of a pooled transaction that exists (unspent, ours, mature) at the fork point
	p1, p2 := r.Pool()
	var contest []types.SiacoinElement
	usable := func(id types.SiacoinOutputID) {
		if e, ok := fl.SC[id]; ok && e.SiacoinOutput.Address == r.W.Env.Addr && e.MaturityHeight <= fork.Height+1 && e.SiacoinOutput.Value.Cmp(types.Siacoins(40)) >= 0 {
			contest = append(contest, e.Copy())
		}
	}
	for _, x := range p1 {
		for _, in := range x.SiacoinInputs {
			usable(in.ParentID)
		}
	}
	for _, x := range p2 {
		for _, in := range x.SiacoinInputs {
			usable(in.Parent.ID)
		}
	}
	mk := func(at *chaingen.Node, e types.SiacoinElement) (v1 []types.Transaction, v2s []types.V2Transaction) {
		if v2 {
			x, _ := r.mkV2(g, at, e, 0)
			return nil, []types.V2Transaction{x}
		}
		x, _ := r.mkV1(g, at, e.ID, e.SiacoinOutput.Value, 0)
		return []types.Transaction{x}, nil
	}
	free := r.W.Spendable(r.W.Info(fork), types.Siacoins(40))
	if len(free) == 0 {
		return nil, false
	}
	first := free[g.Intn(len(free))]
	if len(contest) > 0 {
		first, contested = contest[g.Intn(len(contest))], true
	}
	a1, a2 := mk(fork, first)
	n1 := t.AddBlock(AssembleBlock(fork, a1, a2), "")
	if n1 == nil || !n1.ChainValid() {
		return nil, false
	}
	free = r.W.Spendable(r.W.Info(n1), types.Siacoins(40))
	if len(free) == 0 {
		return nil, false
	}
	b1, b2 := mk(n1, free[g.Intn(len(free))])
	n2 := t.AddBlock(AssembleBlock(n1, b1, b2), "")
	if n2 == nil || !n2.ChainValid() {
		return nil, false
	}
	bad := t.AddBodyCorruptedCopyOf(n2)
	if bad == nil || !bad.HdrOK || bad.BodyOK {
		return nil, false
	}
	d1 := t.AddOnInvalidAt(bad, g.U64())
	if d1 == nil || !d1.HdrOK {
		return nil, false
	}
	d2 := t.AddOnInvalidAt(d1, g.U64())
	if d2 == nil || !d2.HdrOK {
		return nil, false
	}
	r.NoCoq = "a reorg that fails and is rolled back (not part of the model)"
	r.Chain(mgrsim.Op{Kind: "add", Nodes: []int{n1.Idx}})
	if r.Tip != tip {
		return nil, false
	}
	r.Chain(mgrsim.Op{Kind: "add", Nodes: []int{bad.Idx, d1.Idx, d2.Idx}})
	if r.Tip != tip {
		r.Fail("tip-not-a-valid-tree-block", "after a reorg to a chain with an invalid block the node did not return to its old tip")
		return nil, false
	}
	return n1, contested
}
