package poolsim

import (
	"fmt"

	"go.sia.tech/core/types"
	"verif/harness/internal/chaingen"
	"verif/harness/internal/mgrsim"
	"verif/harness/internal/rng"
)

// Parameters of the implementation that the properties do not fix ("the supported distance", "when
// the pool is full"). They start at the repository's defaults; a harness that exercises the
// boundary measures them on the implementation under test first (ProbeDistance, ProbeCapacity) and
// every expectation and the Coq cases (c_md, c_capw) use the measured values.
var (
	// MaxDist: the largest number of blocks (reverted plus applied) a v2 set can be rebased over.
	MaxDist = 144
	// DistBounded is false when ProbeDistance found no limit within its longest line: then MaxDist is
	// only a lower bound and no rebase is expected to fail for its length.
	DistBounded = true
	// CapBlocks: the pool is full at CapBlocks * MaxBlockWeight.
	CapBlocks = uint64(10)
)

// TooFar says whether a rebase over a path of n blocks must be refused for its length.
func TooFar(n int) bool { return DistBounded && n > MaxDist }

// ProbeDistance measures the supported distance on a fresh manager over a line of empty blocks: the
// largest d for which a fresh transaction valid at block 2 is rebased forwards to block 2+d. The
// answer for every other shape of path (backwards, across forks, any split between the legs) must
// agree with it: that is what the harness then checks. It returns a note for the evidence.
func ProbeDistance(seed uint64) string {
	for _, n := range []int{150, 300, 600} {
		cs := Case{Seed: seed*7919 + uint64(n), Regime: 2, Opts: chaingen.GenOpts{Blocks: n, Branchiness: 0, TxPerBlock: 0}}
		var note string
		done := func() (done bool) {
			defer func() {
				if p := recover(); p != nil {
					note, done = fmt.Sprint("distance probe failed (", p, "): default 144 kept"), true
				}
			}()
			t := cs.Tree()
			w := NewWorld(t)
			r := NewRunner(w, func(string, string) {})
			var ids []int
			for i := 1; i <= n; i++ {
				ids = append(ids, i)
			}
			r.Chain(mgrsim.Op{Kind: "add", Nodes: ids})
			if r.Tip.Idx != n {
				note = "distance probe: the line was not adopted: default 144 kept"
				return true
			}
			base := t.Nodes[2]
			fr := r.freeInputs(base)
			if len(fr) == 0 {
				note = "distance probe: no spendable element at block 2: default 144 kept"
				return true
			}
			tx, _ := r.mkV2(rng.New(seed), base, fr[0], 0)
			ok := func(d int) bool {
				set := []types.V2Transaction{copyV2(tx)}
				_, err := r.CM.UpdateV2TransactionSet(set, w.Info(base).Index, w.Info(t.Nodes[2+d]).Index)
				return err == nil
			}
			if !ok(1) {
				note = "distance probe: a rebase over one block fails: default 144 kept"
				return true
			}
			hi := n - 2
			if ok(hi) {
				if n == 600 {
					MaxDist, DistBounded = hi, false
					note = fmt.Sprintf("no distance limit within %d blocks: no rebase is expected to fail for its length", hi)
					return true
				}
				return false // a longer line is needed
			}
			lo := 1 // ok(lo), !ok(hi)
			for hi-lo > 1 {
				mid := (lo + hi) / 2
				if ok(mid) {
					lo = mid
				} else {
					hi = mid
				}
			}
			MaxDist, DistBounded = lo, true
			note = fmt.Sprintf("supported distance measured on a line: %d blocks", lo)
			return true
		}()
		if done {
			return note
		}
	}
	return ""
}

func copyV2(t types.V2Transaction) types.V2Transaction { return CopyV2(t) }

// CopyV2 copies a v2 transaction through its encoding: no memory is shared with the original
// (types.V2Transaction.DeepCopy leaves the renewal of a resolution shared).
func CopyV2(t types.V2Transaction) types.V2Transaction {
	var c types.V2Transaction
	d := types.NewBufDecoder(EncV2(t))
	c.DecodeFrom(d)
	if d.Err() != nil {
		panic(d.Err())
	}
	return c
}

// ProbeCapacity measures when the pool is full: transactions of about half a block each are
// submitted one by one to a fresh manager until a reading shows that the pool shrank; the capacity
// is the multiple of the block weight limit between the pool weights before and after that
// submission. It returns a note for the evidence.
func ProbeCapacity(seed uint64) (note string) {
	defer func() {
		if p := recover(); p != nil {
			note = fmt.Sprint("capacity probe failed (", p, "): default of 10 blocks kept")
		}
	}()
	cs := Case{Seed: seed*7907 + 3, Regime: 2, Opts: chaingen.GenOpts{Blocks: 3, Branchiness: 0, TxPerBlock: 1}}
	t := cs.Tree()
	w := NewWorld(t)
	r := NewRunner(w, func(string, string) {})
	r.Chain(mgrsim.Op{Kind: "add", Nodes: []int{1, 2, 3}})
	tip := r.Tip
	free := r.freeInputs(tip)
	if len(free) == 0 {
		return "capacity probe: no spendable element: default of 10 blocks kept"
	}
	mbw := tip.FullState.MaxBlockWeight()
	size := int(mbw / 2)
	basis := w.Info(tip).Index
	weight := func() (n int, sum uint64) {
		_, v2 := r.Pool()
		for _, x := range v2 {
			sum += tip.FullState.V2TransactionWeight(x)
		}
		return len(v2), sum
	}
	e := w.Env
	// chains over the free inputs, extended round-robin by one transaction per submission
	chains := make([][]types.V2Transaction, len(free))
	ins := append([]types.SiacoinElement(nil), free...)
	k := 0
	for round := 0; round < 12; round++ {
		for c := range chains {
			if ins[c].SiacoinOutput.Value.Cmp(types.Siacoins(10)) < 0 {
				continue
			}
			k++
			n0, w0 := weight()
			x := e.V2Spend(tip.FullState, ins[c], types.Siacoins(1), types.ZeroCurrency, e.Addr, size, byte(k))
			chains[c] = append(chains[c], x)
			ins[c] = x.EphemeralSiacoinOutput(0)
			if _, err := r.CM.AddV2PoolTransactions(basis, chains[c]); err != nil {
				return fmt.Sprintf("capacity probe: a valid chain was refused (%v): default of 10 blocks kept", err)
			}
			n1, _ := weight()
			if n1 <= n0 {
				w1 := w0 + tip.FullState.V2TransactionWeight(x)
				blocks := w1 / mbw
				if blocks*mbw <= w0 || blocks == 0 {
					return fmt.Sprintf("capacity probe: the pool shrank between weights %d and %d, not at a multiple of the block weight: default of 10 blocks kept", w0, w1)
				}
				CapBlocks = blocks
				return fmt.Sprintf("pool capacity measured: full at %d block weights (the pool shrank when its weight went from %d to %d)", blocks, w0, w1)
			}
			if w0 > 40*mbw {
				CapBlocks = 1000
				return "no eviction up to 40 block weights: the pool is treated as never full"
			}
		}
	}
	CapBlocks = 1000
	return "capacity probe ran out of material without an eviction: the pool is treated as never full"
}
