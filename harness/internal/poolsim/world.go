// Package poolsim is shared by the pool properties C05, C13 and C14: a real
// chain.Manager driven over a generated fork tree, independent facts about
// every tree node (element ledger with proofs, created elements, number of
// leaves) obtained from linear twin nodes, fabrication of transaction sets,
// projection of real transactions onto the vocabulary of coq/Chain/Pool.v, and
// the monitors.
package poolsim

import (
	"bytes"
	"encoding/hex"
	"fmt"
	"sort"
	"strings"

	"go.sia.tech/core/consensus"
	"go.sia.tech/core/types"
	"go.sia.tech/coreutils/chain"
	"verif/harness/internal/chaingen"
)

// Created is one element a block created (what the manager's proof maps hold).
type Created struct {
	Key  string
	Cls  int
	Leaf uint64
}

// NodeInfo holds the independent facts about one valid tree node.
type NodeInfo struct {
	N       *chaingen.Node
	Index   types.ChainIndex
	L       *chaingen.Ledger              // unspent elements, proofs current at this node
	All     map[string]types.StateElement // every accumulator leaf we know (spent ones too), proofs current
	Created []Created                     // Created diffs of the block, in diff order
	Num     uint64                        // Elements.NumLeaves after the block
}

// A World is a tree with lazily computed node facts and element registries.
type World struct {
	T     *chaingen.Tree
	Env   *chaingen.Env
	infos map[*chaingen.Node]*NodeInfo
	// registries over every element ever seen (static attributes)
	ScMaturity map[types.SiacoinOutputID]uint64
	Fc1Start   map[types.FileContractID]uint64 // WindowStart of v1 contracts
}

// NewWorld wraps a tree.
func NewWorld(t *chaingen.Tree) *World {
	return &World{T: t, Env: t.Env, infos: map[*chaingen.Node]*NodeInfo{}, ScMaturity: map[types.SiacoinOutputID]uint64{}, Fc1Start: map[types.FileContractID]uint64{}}
}

func hx(b []byte) string { return hex.EncodeToString(b[:8]) }

// Element keys.
func ScKey(id types.SiacoinOutputID) string { return "sc:" + hx(id[:]) }
func SfKey(id types.SiafundOutputID) string { return "sf:" + hx(id[:]) }
func Fc1Key(id types.FileContractID) string { return "fc:" + hx(id[:]) }
func Fc2Key(id types.FileContractID, fc types.V2FileContract) string {
	var buf bytes.Buffer
	e := types.NewEncoder(&buf)
	fc.EncodeTo(e)
	e.Flush()
	h := types.HashBytes(buf.Bytes())
	return "v2fc:" + hx(id[:]) + ":" + hx(h[:])
}
func CiKey(ix types.ChainIndex) string { return fmt.Sprintf("ci:%d:%s", ix.Height, hx(ix.ID[:])) }

// Info returns the facts about n (which must be a valid node), computing them
// and those of its ancestors from a linear twin when needed.
func (w *World) Info(n *chaingen.Node) *NodeInfo {
	if in, ok := w.infos[n]; ok {
		return in
	}
	if !n.ChainValid() {
		panic("poolsim: Info of an invalid node")
	}
	// deepest cached ancestor
	var todo []*chaingen.Node
	a := n
	for a != nil && w.infos[a] == nil {
		todo = append(todo, a)
		a = a.Parent
	}
	for i, j := 0, len(todo)-1; i < j; i, j = i+1, j-1 {
		todo[i], todo[j] = todo[j], todo[i]
	}
	_, twin := w.Env.NewManager()
	if p := chaingen.Blocks(w.T.Path(n)); len(p) > 0 {
		if err := twin.AddBlocks(p); err != nil {
			panic(fmt.Sprintf("poolsim: twin rejected an honest path: %v", err))
		}
	}
	var from types.ChainIndex
	var prev *NodeInfo
	if a != nil {
		prev = w.infos[a]
		from = prev.Index
	}
	for _, x := range todo {
		_, aus, err := twin.UpdatesSince(from, 1)
		if err != nil || len(aus) != 1 {
			panic(fmt.Sprintf("poolsim: twin update stream: %v (%d)", err, len(aus)))
		}
		au := aus[0]
		in := &NodeInfo{N: x, Index: au.State.Index, Num: au.State.Elements.NumLeaves}
		if prev == nil {
			in.L = chaingen.NewLedger()
			in.All = map[string]types.StateElement{}
		} else {
			in.L = prev.L.Clone()
			in.All = make(map[string]types.StateElement, len(prev.All)+8)
			for k, se := range prev.All {
				se = se.Copy()
				au.UpdateElementProof(&se)
				in.All[k] = se
			}
		}
		in.L.Apply(au.ApplyUpdate, au.State.Index)
		for _, d := range au.SiacoinElementDiffs() {
			if d.Created {
				k := ScKey(d.SiacoinElement.ID)
				in.Created = append(in.Created, Created{k, 0, d.SiacoinElement.StateElement.LeafIndex})
				in.All[k] = d.SiacoinElement.StateElement.Copy()
				w.ScMaturity[d.SiacoinElement.ID] = d.SiacoinElement.MaturityHeight
			}
		}
		for _, d := range au.SiafundElementDiffs() {
			if d.Created {
				k := SfKey(d.SiafundElement.ID)
				in.Created = append(in.Created, Created{k, 1, d.SiafundElement.StateElement.LeafIndex})
				in.All[k] = d.SiafundElement.StateElement.Copy()
			}
		}
		for _, d := range au.FileContractElementDiffs() {
			if d.Created {
				k := Fc1Key(d.FileContractElement.ID)
				in.Created = append(in.Created, Created{k, 2, d.FileContractElement.StateElement.LeafIndex})
				in.All[k] = d.FileContractElement.StateElement.Copy()
				w.Fc1Start[d.FileContractElement.ID] = d.FileContractElement.FileContract.WindowStart
			}
		}
		for _, d := range au.V2FileContractElementDiffs() {
			if d.Created {
				k := Fc2Key(d.V2FileContractElement.ID, d.V2FileContractElement.V2FileContract)
				in.Created = append(in.Created, Created{k, 3, d.V2FileContractElement.StateElement.LeafIndex})
			}
			// accumulator leaf of the contract (whatever its version): keyed by id
			in.All["v2fcid:"+hx(d.V2FileContractElement.ID[:])] = d.V2FileContractElement.StateElement.Copy()
		}
		cie := au.ChainIndexElement()
		in.All[CiKey(cie.ChainIndex)] = cie.StateElement.Copy()
		w.infos[x] = in
		prev, from = in, in.Index
	}
	return w.infos[n]
}

// Elem looks an element of the unspent ledger up by key class.
func (in *NodeInfo) ScElem(id types.SiacoinOutputID) (types.SiacoinElement, bool) {
	e, ok := in.L.SC[id]
	return e, ok
}

// LedgerEntries lists (key, class, leaf) of every unspent element at the node,
// sorted by key.
func (in *NodeInfo) LedgerEntries() []Created {
	var out []Created
	for id, e := range in.L.SC {
		out = append(out, Created{ScKey(id), 0, e.StateElement.LeafIndex})
	}
	for id, e := range in.L.SF {
		out = append(out, Created{SfKey(id), 1, e.StateElement.LeafIndex})
	}
	for id, e := range in.L.FC {
		out = append(out, Created{Fc1Key(id), 2, e.StateElement.LeafIndex})
	}
	for id, e := range in.L.V2FC {
		out = append(out, Created{Fc2Key(id, e.V2FileContract), 3, e.StateElement.LeafIndex})
	}
	for ix, e := range in.L.CIE {
		out = append(out, Created{CiKey(ix), 3, e.StateElement.LeafIndex})
	}
	sort.Slice(out, func(i, j int) bool { return out[i].Key < out[j].Key })
	return out
}

// Spendable returns our mature unspent siacoin elements at the node, sorted by id.
func (w *World) Spendable(in *NodeInfo, min types.Currency) []types.SiacoinElement {
	var out []types.SiacoinElement
	for _, e := range in.L.SC {
		if e.SiacoinOutput.Address == w.Env.Addr && e.MaturityHeight <= in.Index.Height+1 && e.SiacoinOutput.Value.Cmp(min) >= 0 {
			out = append(out, e.Copy())
		}
	}
	sort.Slice(out, func(i, j int) bool { return bytes.Compare(out[i].ID[:], out[j].ID[:]) < 0 })
	return out
}

// Ancestors returns n, parent(n), ... genesis.
func Ancestors(n *chaingen.Node) []*chaingen.Node {
	var out []*chaingen.Node
	for ; n != nil; n = n.Parent {
		out = append(out, n)
	}
	return out
}

// TreePath returns the nodes reverted (from first) and applied (in order) when
// moving from a to b.
func TreePath(a, b *chaingen.Node) (revert, apply []*chaingen.Node) {
	for a.Height > b.Height {
		revert = append(revert, a)
		a = a.Parent
	}
	for b.Height > a.Height {
		apply = append(apply, b)
		b = b.Parent
	}
	for a != b {
		revert = append(revert, a)
		apply = append(apply, b)
		a, b = a.Parent, b.Parent
	}
	for i, j := 0, len(apply)-1; i < j; i, j = i+1, j-1 {
		apply[i], apply[j] = apply[j], apply[i]
	}
	return
}

// NewTwin returns a fresh manager that has applied the path to n.
func (w *World) NewTwin(n *chaingen.Node) *chain.Manager {
	_, twin := w.Env.NewManager()
	if p := chaingen.Blocks(w.T.Path(n)); len(p) > 0 {
		if err := twin.AddBlocks(p); err != nil {
			panic(fmt.Sprintf("poolsim: twin rejected an honest path: %v", err))
		}
	}
	return twin
}

// V1Supplement builds the supplement of a v1 transaction from the independent
// ledger of the node (what DBStore.SupplementTipTransaction returns for the tip).
func (w *World) V1Supplement(in *NodeInfo, txn types.Transaction) (ts consensus.V1TransactionSupplement) {
	if in.Index.Height >= w.Env.Net.HardforkV2.RequireHeight {
		return
	}
	for _, sci := range txn.SiacoinInputs {
		if e, ok := in.L.SC[sci.ParentID]; ok {
			ts.SiacoinInputs = append(ts.SiacoinInputs, e.Copy())
		}
	}
	for _, sfi := range txn.SiafundInputs {
		if e, ok := in.L.SF[sfi.ParentID]; ok {
			ts.SiafundInputs = append(ts.SiafundInputs, e.Copy())
		}
	}
	for _, fcr := range txn.FileContractRevisions {
		if e, ok := in.L.FC[fcr.ParentID]; ok {
			ts.RevisedFileContracts = append(ts.RevisedFileContracts, e.Copy())
		}
	}
	for _, sp := range txn.StorageProofs {
		if e, ok := in.L.FC[sp.ParentID]; ok {
			ws := e.FileContract.WindowStart
			if ws == 0 || ws-1 > in.Index.Height {
				continue
			}
			for _, a := range Ancestors(in.N) {
				if a.Height == ws-1 {
					ts.StorageProofs = append(ts.StorageProofs, consensus.V1StorageProofSupplement{FileContract: e.Copy(), WindowID: a.ID})
				}
			}
		}
	}
	return
}

func short(id types.TransactionID) string { return strings.ToLower(hx(id[:])) }
