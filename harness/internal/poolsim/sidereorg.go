package poolsim

import (
	"go.sia.tech/core/types"
	"verif/harness/internal/chaingen"
	"verif/harness/internal/mgrsim"
	"verif/harness/internal/rng"
)

// SideReorg builds a heavier sibling branch of the tip out of the pool itself and submits it: the
// first block (on the tip's parent) confirms some of the pooled transactions (a prefix of each list
// that is valid there, v2 proofs moved to that block with the independent ledger's elements checked
// by core) and a transaction that double-spends a confirmed input of another pooled transaction; the
// second block is empty. One reorg then confirms pooled transactions, invalidates one and un-confirms
// those of the reverted tip: the same transactions are mined on two sibling branches. It returns the
// number of pooled transactions the side block confirms, whether an input was contested, and whether
// the reorg took place.
func (r *Runner) SideReorg(g *rng.R) (confirmed int, contested, done bool) {
	tip := r.Tip
	fork := tip.Parent
	if fork == nil || !fork.ChainValid() || !r.Applied[fork] {
		return 0, false, false
	}
	hf := r.W.Env.Net.HardforkV2
	v2ok := fork.Height+1 >= hf.AllowHeight
	v1ok := fork.Height+1 < hf.RequireHeight
	p1, p2 := r.Pool()
	val := r.W.NewValidator(fork)
	var b1 []types.Transaction
	var b2 []types.V2Transaction
	taken := map[types.TransactionID]bool{}
	spent := map[types.SiacoinOutputID]bool{}
	if v1ok {
		for _, x := range p1 {
			if len(b1) >= 2 || val.V1(x) != nil {
				break
			}
			b1 = append(b1, x)
			taken[x.ID()] = true
			for _, in := range x.SiacoinInputs {
				spent[in.ParentID] = true
			}
		}
	}
	if v2ok && len(p2) > 0 {
		// the pool's copies carry proofs for the tip: move them to the fork point (one block back)
		cp := make([]types.V2Transaction, 0, len(p2))
		for _, x := range p2 {
			cp = append(cp, CopyV2(x))
		}
		if moved, err := r.CM.UpdateV2TransactionSet(cp, r.W.Info(tip).Index, r.W.Info(fork).Index); err == nil {
			for _, x := range moved {
				if len(b2) >= 2 || val.V2(x) != nil {
					break
				}
				b2 = append(b2, x)
				taken[x.ID()] = true
				for _, in := range x.SiacoinInputs {
					spent[in.Parent.ID] = true
				}
			}
		}
	}
	// a transaction that spends a confirmed input of a pooled transaction that is not taken
	fl := r.W.Info(fork).L
	var contest []types.SiacoinElement
	usable := func(id types.SiacoinOutputID) {
		if e, ok := fl.SC[id]; ok && !spent[id] && e.SiacoinOutput.Address == r.W.Env.Addr && e.MaturityHeight <= fork.Height+1 && e.SiacoinOutput.Value.Cmp(types.Siacoins(40)) >= 0 {
			contest = append(contest, e.Copy())
		}
	}
	for _, x := range p1 {
		if !taken[x.ID()] {
			for _, in := range x.SiacoinInputs {
				usable(in.ParentID)
			}
		}
	}
	for _, x := range p2 {
		if !taken[x.ID()] {
			for _, in := range x.SiacoinInputs {
				usable(in.Parent.ID)
			}
		}
	}
	if len(contest) > 0 {
		e := contest[g.Intn(len(contest))]
		if v2ok {
			x, _ := r.mkV2(g, fork, e, 0)
			if val.V2(x) == nil {
				b2, contested = append(b2, x), true
			}
		} else {
			x, _ := r.mkV1(g, fork, e.ID, e.SiacoinOutput.Value, 0)
			if val.V1(x) == nil {
				b1, contested = append(b1, x), true
			}
		}
	}
	if len(taken) == 0 && !contested {
		return 0, false, false
	}
	t := r.W.T
	n1 := t.AddBlock(AssembleBlock(fork, b1, b2), "")
	if n1 == nil || !n1.ChainValid() {
		return 0, false, false
	}
	n2 := t.AddBlock(AssembleBlock(n1, nil, nil), "")
	if n2 == nil || !n2.ChainValid() {
		return 0, false, false
	}
	// the block carries the pool's own copies (their signatures, the heights they were signed for)
	r.minedFromPool[n1] = true
	r.Chain(mgrsim.Op{Kind: "add", Nodes: []int{n1.Idx, n2.Idx}})
	return len(taken), contested, r.Tip == n2
}

// EmptyFork reorgs to n empty blocks built on the block `back` below the tip (n > back).
func (r *Runner) EmptyFork(back, n int) bool {
	fork := r.Tip
	for i := 0; i < back && fork.Parent != nil; i++ {
		fork = fork.Parent
	}
	if !fork.ChainValid() || !r.Applied[fork] {
		return false
	}
	var ids []int
	at := fork
	for i := 0; i < n; i++ {
		x := r.W.T.AddBlock(AssembleBlock(at, nil, nil), "")
		if x == nil || !x.ChainValid() {
			return false
		}
		ids = append(ids, x.Idx)
		at = x
	}
	r.Chain(mgrsim.Op{Kind: "add", Nodes: ids})
	return r.Tip == at
}

// ConfirmOld applies a block on the tip that confirms only the k-th v1 transaction accepted earlier.
func (r *Runner) ConfirmOld(k int) bool {
	if k >= len(r.Old1) {
		return false
	}
	tip := r.Tip
	if r.W.NewValidator(tip).V1(r.Old1[k].V1) != nil {
		return false
	}
	x := r.W.T.AddBlock(AssembleBlock(tip, []types.Transaction{r.Old1[k].V1}, nil), "")
	if x == nil || !x.ChainValid() {
		return false
	}
	r.minedFromPool[x] = true
	r.Chain(mgrsim.Op{Kind: "add", Nodes: []int{x.Idx}})
	return r.Tip == x
}

var _ = chaingen.TxKinds
