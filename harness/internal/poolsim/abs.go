package poolsim

import (
	"fmt"
	"sort"
	"strings"

	"go.sia.tech/core/consensus"
	"go.sia.tech/core/types"
)

// AIn / ATx mirror coq/Chain/Pool.v.
type AIn struct {
	Key  string // element key (named when rendered)
	Cls  int
	Role int // 0 spend, 1 revise, 2 ref
	Leaf uint64
	POK  bool
	Rev  uint64 // revision number a revision sets
}

type ATx struct {
	ID      types.TransactionID
	V2      bool
	Ins     []AIn
	Outs    []Created // Key, Cls (Leaf unused)
	Fee     string    // decimal
	Weight  uint64
	Lo, Hi  uint64
	Feeless bool
}

// Meta is what the harness knows about a real transaction beyond its bytes.
type Meta struct {
	SignedAt uint64 // height of the tip whose state signed it (v1 replay prefix)
	Corrupt  bool   // a signature was damaged on purpose: never valid
	POK      bool   // v2: proofs verify against the state they are claimed for
}

const never = 1 << 40

func maxu(a, b uint64) uint64 {
	if a > b {
		return a
	}
	return b
}
func minu(a, b uint64) uint64 {
	if a < b {
		return a
	}
	return b
}

// prefixClass is State.replayPrefix as a function of the tip height.
func (w *World) prefixClass(h uint64) int {
	n := w.Env.Net
	switch {
	case h >= n.HardforkV2.AllowHeight:
		return 3
	case h >= n.HardforkFoundation.Height:
		return 2
	case h >= n.HardforkASIC.Height:
		return 1
	}
	return 0
}

// prefixWindow returns the child heights at which a v1 signature made at tip
// height h stays valid.
func (w *World) prefixWindow(h uint64) (lo, hi uint64) {
	c := w.prefixClass(h)
	lo, hi = 0, never
	for x := h; ; x-- {
		if w.prefixClass(x) != c {
			lo = x + 2
			break
		}
		if x == 0 {
			lo = 1
			break
		}
	}
	for x := h; x < h+5000; x++ {
		if w.prefixClass(x) != c {
			hi = x // tip x-1 is the last with class c: child height x
			break
		}
	}
	return
}

// AbsV1 projects a v1 transaction.
func (w *World) AbsV1(txn types.Transaction, m Meta) ATx {
	cs := consensus.State{Network: w.Env.Net}
	a := ATx{ID: txn.ID(), Weight: cs.TransactionWeight(txn), Fee: txn.TotalFees().ExactString(), Feeless: len(txn.MinerFees) == 0}
	lo, hi := uint64(1), w.Env.Net.HardforkV2.RequireHeight-1
	if len(txn.Signatures) > 0 {
		plo, phi := w.prefixWindow(m.SignedAt)
		lo, hi = maxu(lo, plo), minu(hi, phi)
	}
	for _, in := range txn.SiacoinInputs {
		a.Ins = append(a.Ins, AIn{Key: ScKey(in.ParentID), Cls: 0, POK: true})
		if mh, ok := w.ScMaturity[in.ParentID]; ok {
			lo = maxu(lo, mh)
		}
	}
	for i := range txn.SiacoinOutputs {
		a.Outs = append(a.Outs, Created{Key: ScKey(txn.SiacoinOutputID(i)), Cls: 0})
	}
	for i, in := range txn.SiafundInputs {
		a.Ins = append(a.Ins, AIn{Key: SfKey(in.ParentID), Cls: 1, POK: true})
		a.Outs = append(a.Outs, Created{Key: ScKey(txn.SiafundClaimOutputID(i)), Cls: 0})
		w.ScMaturity[txn.SiafundClaimOutputID(i)] = never // immature as far as the pool is concerned
	}
	for i := range txn.SiafundOutputs {
		a.Outs = append(a.Outs, Created{Key: SfKey(txn.SiafundOutputID(i)), Cls: 1})
	}
	for i, fc := range txn.FileContracts {
		a.Outs = append(a.Outs, Created{Key: Fc1Key(txn.FileContractID(i)), Cls: 2})
		hi = minu(hi, fc.WindowStart)
		if _, ok := w.Fc1Start[txn.FileContractID(i)]; !ok {
			w.Fc1Start[txn.FileContractID(i)] = fc.WindowStart
		}
	}
	for _, rev := range txn.FileContractRevisions {
		a.Ins = append(a.Ins, AIn{Key: Fc1Key(rev.ParentID), Cls: 2, Role: 1, POK: true, Rev: rev.FileContract.RevisionNumber})
		hi = minu(hi, rev.FileContract.WindowStart)
		if ws, ok := w.Fc1Start[rev.ParentID]; ok {
			hi = minu(hi, ws)
		}
	}
	for _, sp := range txn.StorageProofs {
		a.Ins = append(a.Ins, AIn{Key: Fc1Key(sp.ParentID), Cls: 2, POK: true})
		if ws, ok := w.Fc1Start[sp.ParentID]; ok {
			lo = maxu(lo, ws)
		}
	}
	if m.Corrupt {
		lo, hi = 1, 0
	}
	a.Lo, a.Hi = lo, hi
	return a
}

// AbsV2 projects a v2 transaction (with its current StateElements).
func (w *World) AbsV2(txn types.V2Transaction, m Meta) ATx {
	cs := consensus.State{Network: w.Env.Net}
	txid := txn.ID()
	a := ATx{ID: txid, V2: true, Weight: cs.V2TransactionWeight(txn), Fee: txn.MinerFee.ExactString(), Feeless: txn.MinerFee.IsZero()}
	lo, hi := maxu(1, w.Env.Net.HardforkV2.AllowHeight), uint64(never)
	for _, in := range txn.SiacoinInputs {
		a.Ins = append(a.Ins, AIn{Key: ScKey(in.Parent.ID), Cls: 0, Leaf: in.Parent.StateElement.LeafIndex, POK: m.POK})
		lo = maxu(lo, in.Parent.MaturityHeight)
	}
	for i := range txn.SiacoinOutputs {
		a.Outs = append(a.Outs, Created{Key: ScKey(txn.SiacoinOutputID(txid, i)), Cls: 0})
		w.ScMaturity[txn.SiacoinOutputID(txid, i)] = 0
	}
	for _, in := range txn.SiafundInputs {
		a.Ins = append(a.Ins, AIn{Key: SfKey(in.Parent.ID), Cls: 1, Leaf: in.Parent.StateElement.LeafIndex, POK: m.POK})
		a.Outs = append(a.Outs, Created{Key: ScKey(in.Parent.ID.V2ClaimOutputID()), Cls: 0})
	}
	for i := range txn.SiafundOutputs {
		a.Outs = append(a.Outs, Created{Key: SfKey(txn.SiafundOutputID(txid, i)), Cls: 1})
	}
	for i, fc := range txn.FileContracts {
		a.Outs = append(a.Outs, Created{Key: Fc2Key(txn.V2FileContractID(txid, i), fc), Cls: 3})
		hi = minu(hi, fc.ProofHeight)
	}
	for _, rev := range txn.FileContractRevisions {
		a.Ins = append(a.Ins, AIn{Key: Fc2Key(rev.Parent.ID, rev.Parent.V2FileContract), Cls: 3, Role: 1, Leaf: rev.Parent.StateElement.LeafIndex, POK: m.POK, Rev: rev.Revision.RevisionNumber})
		hi = minu(hi, rev.Parent.V2FileContract.ProofHeight)
		hi = minu(hi, rev.Revision.ProofHeight)
	}
	for _, res := range txn.FileContractResolutions {
		a.Ins = append(a.Ins, AIn{Key: Fc2Key(res.Parent.ID, res.Parent.V2FileContract), Cls: 3, Leaf: res.Parent.StateElement.LeafIndex, POK: m.POK})
		switch r := res.Resolution.(type) {
		case *types.V2FileContractRenewal:
			hi = minu(hi, r.NewContract.ProofHeight)
		case *types.V2StorageProof:
			a.Ins = append(a.Ins, AIn{Key: CiKey(r.ProofIndex.ChainIndex), Cls: 3, Role: 2, Leaf: r.ProofIndex.StateElement.LeafIndex, POK: m.POK})
			lo = maxu(lo, res.Parent.V2FileContract.ProofHeight)
		case *types.V2FileContractExpiration:
			lo = maxu(lo, res.Parent.V2FileContract.ExpirationHeight+1)
		}
	}
	if m.Corrupt {
		lo, hi = 1, 0
	}
	a.Lo, a.Hi = lo, hi
	return a
}

// Names assigns small numbers to elements (class in the residue mod 4),
// transactions and blocks in order of first appearance.
type Names struct {
	el  map[string]uint64
	tx  map[types.TransactionID]uint64
	blk map[types.BlockID]uint64
}

func NewNames() *Names {
	return &Names{el: map[string]uint64{}, tx: map[types.TransactionID]uint64{}, blk: map[types.BlockID]uint64{{}: 0}}
}

func (n *Names) El(key string, cls int) uint64 {
	if v, ok := n.el[key]; ok {
		return v
	}
	v := uint64(len(n.el)+1)*4 + uint64(cls)
	n.el[key] = v
	return v
}

// HasEl reports whether the element is referenced by some named transaction.
func (n *Names) HasEl(key string) (uint64, bool) { v, ok := n.el[key]; return v, ok }

func (n *Names) Tx(id types.TransactionID) uint64 {
	if v, ok := n.tx[id]; ok {
		return v
	}
	v := uint64(len(n.tx) + 1)
	n.tx[id] = v
	return v
}

func (n *Names) Blk(id types.BlockID) uint64 {
	if v, ok := n.blk[id]; ok {
		return v
	}
	v := uint64(len(n.blk))
	n.blk[id] = v
	return v
}

// Touch names everything a transaction mentions (pass one of rendering).
func (n *Names) Touch(a ATx) {
	n.Tx(a.ID)
	for _, i := range a.Ins {
		n.El(i.Key, i.Cls)
	}
	for _, o := range a.Outs {
		n.El(o.Key, o.Cls)
	}
}

func leafStr(l uint64) string {
	if l == types.UnassignedLeafIndex {
		return "U_"
	}
	return fmt.Sprint(l)
}

// CoqTx renders a transaction.
func (n *Names) CoqTx(a ATx) string {
	var ins, outs []string
	for _, i := range a.Ins {
		if i.Role == 1 {
			ins = append(ins, fmt.Sprintf("Iv %d %s %v %d", n.El(i.Key, i.Cls), leafStr(i.Leaf), i.POK, i.Rev))
		} else {
			ins = append(ins, fmt.Sprintf("I %d %d %s %v", n.El(i.Key, i.Cls), i.Role, leafStr(i.Leaf), i.POK))
		}
	}
	for _, o := range a.Outs {
		outs = append(outs, fmt.Sprint(n.El(o.Key, o.Cls)))
	}
	return fmt.Sprintf("T %d %v [%s] [%s] %s %d %d %d %v", n.Tx(a.ID), a.V2, strings.Join(ins, "; "), strings.Join(outs, "; "), a.Fee, a.Weight, a.Lo, a.Hi, a.Feeless)
}

func (n *Names) CoqTxs(as []ATx) string {
	s := make([]string, len(as))
	for i, a := range as {
		s[i] = n.CoqTx(a)
	}
	return "[" + strings.Join(s, "; ") + "]"
}

// CoqEls renders the named elements of a list as (el, leaf) pairs.
func (n *Names) CoqEls(es []Created) string {
	var s []string
	for _, e := range es {
		if v, ok := n.HasEl(e.Key); ok {
			s = append(s, fmt.Sprintf("(%d, %d)", v, e.Leaf))
		}
	}
	return "[" + strings.Join(s, "; ") + "]"
}

// CoqLedger renders the ledger at a node restricted to named elements.
func (n *Names) CoqLedger(in *NodeInfo) string {
	// revision numbers of the named contracts
	var revs []string
	for id, e := range in.L.FC {
		if v, ok := n.HasEl(Fc1Key(id)); ok && e.FileContract.RevisionNumber != 0 {
			revs = append(revs, fmt.Sprintf("(%d, %d)", v, e.FileContract.RevisionNumber))
		}
	}
	for id, e := range in.L.V2FC {
		if v, ok := n.HasEl(Fc2Key(id, e.V2FileContract)); ok && e.V2FileContract.RevisionNumber != 0 {
			revs = append(revs, fmt.Sprintf("(%d, %d)", v, e.V2FileContract.RevisionNumber))
		}
	}
	sort.Strings(revs)
	return fmt.Sprintf("Lg %s %d %d [%s]", n.CoqEls(in.LedgerEntries()), in.Num, in.Index.Height, strings.Join(revs, "; "))
}

// CoqIndex renders a chain index.
func (n *Names) CoqIndex(ix types.ChainIndex) string {
	return fmt.Sprintf("(%d, %d)", ix.Height, n.Blk(ix.ID))
}

// Form is the observed shape of a v2 list: ids and leaf indices of the inputs.
func (n *Names) CoqForm(as []ATx) string {
	var s []string
	for _, a := range as {
		var ls []string
		for _, i := range a.Ins {
			ls = append(ls, leafStr(i.Leaf))
		}
		s = append(s, fmt.Sprintf("(%d, [%s])", n.Tx(a.ID), strings.Join(ls, "; ")))
	}
	return "[" + strings.Join(s, "; ") + "]"
}

func (n *Names) CoqIDs(ids []types.TransactionID) string {
	s := make([]string, len(ids))
	for i, id := range ids {
		s[i] = fmt.Sprint(n.Tx(id))
	}
	return "[" + strings.Join(s, "; ") + "]"
}
