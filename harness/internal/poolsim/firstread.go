package poolsim

import (
	"bytes"
	"fmt"

	"go.sia.tech/core/types"
)

// FirstReaders are the pool-reading calls that FirstRead can make as the very first pool operation
// after a state change (a block, a reorg, a submission) that was not followed by any reading.
var FirstReaders = []string{"v2-list", "lookup-v1", "lookup-v2", "mine", "partial-block", "parents", "txset"}

// FirstRead makes one reading call of the given kind directly on the manager (the caller has made
// sure that nothing read the pool since the state change: Runner.DeferNext / Quiet), then reads
// both lists and judges the first answer by them: nothing happens between the two readings, so the
// first must describe the same pool. last1/last2 are the lists as read before the state change
// (they supply ids to ask for), lastTip the index those copies' proofs belong to. It returns ""
// or what disagrees.
func (r *Runner) FirstRead(kind string, last1 []types.Transaction, last2 []types.V2Transaction, lastTip types.ChainIndex) (bad string) {
	defer func() {
		if p := recover(); p != nil {
			bad = fmt.Sprintf("%s panicked as the first pool-reading call after a state change: %v", kind, p)
		}
	}()
	if lr := r.lastRev; lr != nil {
		// transactions of the last reverted block may have re-entered the pool
		last1 = append(append([]types.Transaction(nil), last1...), lr.Block.Transactions...)
		last2 = append(append([]types.V2Transaction(nil), last2...), lr.Block.V2Transactions()...)
	}
	cm := r.CM
	type found struct {
		id types.TransactionID
		ok bool
		e  []byte
	}
	var f1, f2 []found
	var got1 []types.Transaction
	var got2 []types.V2Transaction
	var want []types.Hash256
	var blk types.Block
	var mined bool
	var setErr error
	var asked2 *types.V2Transaction
	switch kind {
	case "v2-list":
		got2 = cm.V2PoolTransactions()
		got1 = cm.PoolTransactions()
	case "lookup-v1":
		for _, x := range last1 {
			t, ok := cm.PoolTransaction(x.ID())
			f1 = append(f1, found{x.ID(), ok, EncV1(t)})
		}
	case "lookup-v2":
		for _, x := range last2 {
			t, ok := cm.V2PoolTransaction(x.ID())
			f2 = append(f2, found{x.ID(), ok, EncV2(t)})
		}
	case "mine":
		blk, mined = r.MineOnly()
	case "partial-block":
		for _, x := range last1 {
			want = append(want, x.MerkleLeafHash())
		}
		for _, x := range last2 {
			want = append(want, x.MerkleLeafHash())
		}
		got1, got2 = cm.TransactionsForPartialBlock(want)
	case "parents":
		if len(last1) == 0 {
			return ""
		}
		got1 = cm.UnconfirmedParents(last1[len(last1)-1])
	case "txset":
		if len(last2) == 0 {
			return ""
		}
		c := CopyV2(last2[len(last2)-1])
		asked2 = &c
		var set []types.V2Transaction
		_, set, setErr = cm.V2TransactionSet(lastTip, c)
		if setErr == nil && len(set) > 0 {
			got2 = set[:len(set)-1]
		}
	default:
		return ""
	}
	r.Stats["first-read:"+kind]++
	// the lists, read right after
	v1, v2 := r.Pool() // (recorded as a query when the step's own observation was deferred)
	e1, e2 := map[types.TransactionID][]byte{}, map[types.TransactionID][]byte{}
	for _, x := range v1 {
		e1[x.ID()] = EncV1(x)
	}
	for _, x := range v2 {
		e2[x.ID()] = EncV2(x)
	}
	where := "as the first pool-reading call after a state change "
	switch kind {
	case "v2-list":
		same := len(got1) == len(v1) && len(got2) == len(v2)
		for i := 0; same && i < len(v1); i++ {
			same = bytes.Equal(EncV1(got1[i]), EncV1(v1[i]))
		}
		for i := 0; same && i < len(v2); i++ {
			same = bytes.Equal(EncV2(got2[i]), EncV2(v2[i]))
		}
		if !same {
			return fmt.Sprintf(where+"V2PoolTransactions (then PoolTransactions) returned %d v2 + %d v1 transactions; the lists read again right after hold %d + %d (contents, order or proofs differ)", len(got2), len(got1), len(v2), len(v1))
		}
	case "lookup-v1", "lookup-v2":
		for _, f := range f1 {
			e, listed := e1[f.id]
			switch {
			case f.ok && !listed:
				return where + "PoolTransaction finds a transaction that the list read right after does not contain"
			case !f.ok && listed:
				return where + "PoolTransaction reports absence of a transaction that the list read right after contains"
			case f.ok && !bytes.Equal(e, f.e):
				return where + "PoolTransaction returns a transaction that differs from the listed copy"
			}
		}
		for _, f := range f2 {
			e, listed := e2[f.id]
			switch {
			case f.ok && !listed:
				return where + "V2PoolTransaction finds a transaction that the list read right after does not contain"
			case !f.ok && listed:
				return where + "V2PoolTransaction reports absence of a transaction that the list read right after contains"
			case f.ok && !bytes.Equal(e, f.e):
				return where + "V2PoolTransaction returns a transaction whose proofs differ from the listed copy"
			}
		}
	case "mine":
		if !mined {
			return ""
		}
		b2 := blk.V2Transactions()
		if len(b2) > 0 {
			b2 = b2[1:] // MineBlock's own arbitrary-data transaction
		}
		ok := len(blk.Transactions) <= len(v1) && len(b2) <= len(v2)
		for i := 0; ok && i < len(blk.Transactions); i++ {
			ok = bytes.Equal(EncV1(blk.Transactions[i]), EncV1(v1[i]))
		}
		for i := 0; ok && i < len(b2); i++ {
			ok = bytes.Equal(EncV2(b2[i]), EncV2(v2[i]))
		}
		if !ok {
			return fmt.Sprintf(where+"MineBlock assembled %d v1 + %d v2 pool transactions that are not prefixes of the lists read right after (%d + %d)", len(blk.Transactions), len(b2), len(v1), len(v2))
		}
	case "partial-block":
		asked := map[types.Hash256]bool{}
		for _, h := range want {
			asked[h] = true
		}
		n := 0
		for _, x := range v1 {
			if asked[x.MerkleLeafHash()] {
				n++
			}
		}
		for _, x := range v2 {
			if asked[x.MerkleLeafHash()] {
				n++
			}
		}
		ok := len(got1)+len(got2) == n
		for _, x := range got1 {
			ok = ok && bytes.Equal(e1[x.ID()], EncV1(x))
		}
		for _, x := range got2 {
			ok = ok && bytes.Equal(e2[x.ID()], EncV2(x))
		}
		if !ok {
			return fmt.Sprintf(where+"TransactionsForPartialBlock returned %d+%d transactions; %d of the requested hashes belong to transactions of the lists read right after", len(got1), len(got2), n)
		}
	case "parents":
		for _, x := range got1 {
			if !bytes.Equal(e1[x.ID()], EncV1(x)) {
				return where + "UnconfirmedParents returned a transaction that the list read right after does not contain"
			}
		}
	case "txset":
		if setErr != nil {
			return "" // (a stale copy may no longer be rebasable: judged by C13)
		}
		for _, x := range got2 {
			if !bytes.Equal(e2[x.ID()], EncV2(x)) {
				return where + "V2TransactionSet returned a parent that the list read right after does not contain (or with other proofs)"
			}
		}
		_ = asked2
	}
	return ""
}
