package poolsim

import (
	"bytes"
	"encoding/json"
	"fmt"
	"os"
	"path/filepath"
	"sort"
	"time"

	"go.sia.tech/core/consensus"
	"go.sia.tech/core/types"
	"verif/harness/internal/chaingen"
	"verif/harness/internal/mgrsim"
	"verif/harness/internal/rng"
)

// A Step is one call (or group of calls) of a history; it is replayable from
// the state it is executed in and its own seed.
type Step struct {
	Kind   string    `json:"kind"` // chain | submit | mine | fill | txset | update | prune
	Op     mgrsim.Op `json:"op,omitempty"`
	Flavor string    `json:"flavor,omitempty"`
	Seed   uint64    `json:"seed,omitempty"`
	N      int       `json:"n,omitempty"`
	Quiet  bool      `json:"quiet,omitempty"` // no pool method is called after this step (the next step comes first)
}

func (s Step) String() string {
	q := ""
	if s.Quiet {
		q = "~quiet"
	}
	switch s.Kind {
	case "chain":
		return s.Op.String() + q
	case "submit":
		return "submit(" + s.Flavor + ")" + q
	}
	return s.Kind + q
}

// A Case determines the tree and the history.
type Case struct {
	Seed   uint64           `json:"seed"`
	Regime int              `json:"regime"`
	Opts   chaingen.GenOpts `json:"opts"`
	Plan   []Step           `json:"plan"`
	// Extra: blocks added to the generated tree, in order (the new nodes get the next indices):
	// {"corrupt-copy", i}: a sibling of node i with a valid header and an invalid body;
	// {"on-invalid", i}: an empty header-valid block on top of node i (a block of an invalid chain)
	Extra []ExtraBlock `json:"extra,omitempty"`
}

// ExtraBlock: see Case.Extra.
type ExtraBlock struct {
	Kind string `json:"kind"`
	Of   int    `json:"of"`
}

// Tree regenerates the case's tree.
func (c Case) Tree() *chaingen.Tree {
	r := rng.New(c.Seed)
	env := chaingen.NewEnv(r, c.Regime)
	t := chaingen.Gen(r, env, c.Opts)
	for k, x := range c.Extra {
		if x.Of < 0 || x.Of >= len(t.Nodes) {
			continue
		}
		switch x.Kind {
		case "corrupt-copy":
			t.AddBodyCorruptedCopyOf(t.Nodes[x.Of])
		case "on-invalid":
			t.AddOnInvalidAt(t.Nodes[x.Of], uint64(k)+1)
		}
	}
	return t
}

// GenPlan interleaves a block-submission plan with pool submissions and mining.
func GenPlan(r *rng.R, t *chaingen.Tree, flavors []string, density int) []Step {
	var plan []Step
	// submit along a random walk of the tree so that the pool lives through reorgs:
	// path segments that end at random nodes, mostly in order of creation
	chainOps := mgrsim.GenPlan(r, t, false)
	for _, op := range chainOps {
		plan = append(plan, Step{Kind: "chain", Op: op})
		k := r.Intn(density + 1)
		for i := 0; i < k; i++ {
			switch {
			case r.Chance(1, 12):
				plan = append(plan, Step{Kind: "mine", Seed: r.U64()})
			default:
				plan = append(plan, Step{Kind: "submit", Flavor: flavors[r.Intn(len(flavors))], Seed: r.U64()})
			}
		}
	}
	return plan
}

// shrinkBudget bounds the time one harness run spends on shrinking failing cases.
const shrinkBudget = 120 * time.Second

var shrinkSpent time.Duration

// Shrink drops steps while the failure of the given kind persists.
func Shrink(c Case, kind string, fails func(Case) string) Case {
	// (bounded: histories over large trees are expensive to re-run, and the whole run shares one budget,
	// so a tree with many failing histories still reports in time)
	left := shrinkBudget - shrinkSpent
	if left <= 0 {
		return c
	}
	if left > 40*time.Second {
		left = 40 * time.Second
	}
	start := time.Now()
	defer func() { shrinkSpent += time.Since(start) }()
	deadline := start.Add(left)
	for changed := true; changed && time.Now().Before(deadline); {
		changed = false
		for i := range c.Plan {
			if time.Now().After(deadline) {
				break
			}
			d := c
			d.Plan = append(append([]Step(nil), c.Plan[:i]...), c.Plan[i+1:]...)
			if fails(d) == kind {
				c, changed = d, true
				break
			}
		}
		if changed {
			continue
		}
		for i := range c.Plan {
			if c.Plan[i].Kind != "chain" || len(c.Plan[i].Op.Nodes) <= 1 {
				continue
			}
			for j := range c.Plan[i].Op.Nodes {
				d := c
				d.Plan = append([]Step(nil), c.Plan...)
				nodes := append(append([]int(nil), c.Plan[i].Op.Nodes[:j]...), c.Plan[i].Op.Nodes[j+1:]...)
				d.Plan[i] = Step{Kind: "chain", Op: mgrsim.Op{Kind: c.Plan[i].Op.Kind, Nodes: nodes}}
				if fails(d) == kind {
					c, changed = d, true
					break
				}
			}
			if changed {
				break
			}
		}
	}
	return c
}

// EncV1 / EncV2 encode a transaction completely (Merkle proofs included).
func EncV1(t types.Transaction) []byte {
	var buf bytes.Buffer
	e := types.NewEncoder(&buf)
	t.EncodeTo(e)
	e.Flush()
	return buf.Bytes()
}

func EncV2(t types.V2Transaction) []byte {
	var buf bytes.Buffer
	e := types.NewEncoder(&buf)
	t.EncodeTo(e)
	e.Flush()
	return buf.Bytes()
}

// Validator validates transaction sequences with go.sia.tech/core on the
// generator's own state and ledger of a node (never the manager under test).
type Validator struct {
	W  *World
	In *NodeInfo
	MS *consensus.MidState
}

// NewValidator starts a fresh mid-state on the node's state.
func (w *World) NewValidator(n *chaingen.Node) *Validator {
	return &Validator{W: w, In: w.Info(n), MS: consensus.NewMidState(n.FullState)}
}

// V1 validates and applies a v1 transaction.
func (v *Validator) V1(t types.Transaction) error {
	ts := v.W.V1Supplement(v.In, t)
	var err error
	func() {
		defer func() {
			if p := recover(); p != nil {
				err = fmt.Errorf("core panicked: %v", p)
			}
		}()
		err = consensus.ValidateTransaction(v.MS, t, ts)
		if err == nil {
			v.MS.ApplyTransaction(t, ts)
		}
	}()
	return err
}

// V2 validates and applies a v2 transaction.
func (v *Validator) V2(t types.V2Transaction) error {
	var err error
	func() {
		defer func() {
			if p := recover(); p != nil {
				err = fmt.Errorf("core panicked: %v", p)
			}
		}()
		err = consensus.ValidateV2Transaction(v.MS, t)
		if err == nil {
			v.MS.ApplyV2Transaction(t)
		}
	}()
	return err
}

// ValidatePool validates v1 then v2 in order; returns the position and error of the first failure.
func (w *World) ValidatePool(n *chaingen.Node, v1 []types.Transaction, v2 []types.V2Transaction) (int, error) {
	v := w.NewValidator(n)
	for i, t := range v1 {
		if err := v.V1(t); err != nil {
			return i, fmt.Errorf("v1 transaction %d (%s): %w", i, short(t.ID()), err)
		}
	}
	for i, t := range v2 {
		if err := v.V2(t); err != nil {
			return len(v1) + i, fmt.Errorf("v2 transaction %d (%s): %w", i, short(t.ID()), err)
		}
	}
	return -1, nil
}

// Corpus loads the minimised earlier failures of a property (/verif/corpus/<prop>/*.json, the
// replay files written by Result.Fail), to be run first.
func Corpus(prop string) []Case {
	files, _ := filepath.Glob("/verif/corpus/" + prop + "/*.json")
	sort.Strings(files)
	var out []Case
	for _, f := range files {
		var rp struct {
			Replay struct {
				Case Case `json:"case"`
			} `json:"replay"`
		}
		if b, err := os.ReadFile(f); err == nil && json.Unmarshal(b, &rp) == nil && len(rp.Replay.Case.Plan) > 0 {
			out = append(out, rp.Replay.Case)
		}
	}
	return out
}

// QuietStretch marks a run of block submissions of the plan as quiet (no pool method is called
// between them): the pool submissions inside the run are dropped, and the run sometimes starts with
// a quiet conflicting submission (refused: the validation cache is discarded).
func QuietStretch(g *rng.R, plan []Step) []Step {
	var chainPos []int
	for i, s := range plan {
		if s.Kind == "chain" {
			chainPos = append(chainPos, i)
		}
	}
	if len(chainPos) < 3 {
		return plan
	}
	a := g.Intn(len(chainPos) - 1)
	b := a + 2 + g.Intn(len(chainPos)-a-1)
	if b > len(chainPos) {
		b = len(chainPos)
	}
	lo, hi := chainPos[a], chainPos[b-1]
	var out []Step
	for i, s := range plan {
		switch {
		case i < lo || i > hi:
			out = append(out, s)
		case s.Kind == "chain":
			if i == lo && g.Bool() {
				out = append(out, Step{Kind: "submit", Flavor: []string{"conflict-v2", "conflict-v1", "set-conflict-v2"}[g.Intn(3)], Seed: g.U64(), Quiet: true})
			}
			s.Quiet = true
			out = append(out, s)
		}
	}
	return out
}
