package mgrsim

import (
	"fmt"
	"go.sia.tech/core/consensus"
	"go.sia.tech/core/types"
	"go.sia.tech/coreutils/chain"
	"runtime/debug"
	"verif/harness/internal/chaingen"
)

// NewSimOver starts a manager over an existing store (added for C02/C03):
// inner is the DBStore used for observation, st the chain.Store handed to the
// manager (inner itself or a wrapper around it), ts the tip state the store
// reported when it was opened.
func NewSimOver(t *chaingen.Tree, inner *chain.DBStore, st chain.Store, ts consensus.State) *Sim {
	s := &Sim{T: t, Store: inner, CM: chain.NewManager(st, ts), full: map[types.BlockID][]byte{}}
	s.CM.OnReorg(func(types.ChainIndex) { s.notified++ })
	for _, n := range t.Nodes {
		if n.ChainValid() {
			s.full[n.ID] = encState(n.FullState)
		}
	}
	return s
}

// Call performs op like Do but observes only error, panic and notification
// (no per-block store scan).
func (s *Sim) Call(op Op) (o Obs) {
	if s.ext.on || op.Kind == "reopen" || op.Kind == "addv-bad" {
		return s.doExt(op, false)
	}
	before := s.notified
	func() {
		defer func() {
			if r := recover(); r != nil {
				o.Panic = true
				o.ErrText = fmt.Sprint("panic: ", r)
				o.Stack = string(debug.Stack())
			}
		}()
		var err error
		switch op.Kind {
		case "add":
			var bs []types.Block
			for _, i := range op.Nodes {
				bs = append(bs, s.T.Nodes[i].Block)
			}
			err = s.CM.AddBlocks(bs)
		case "addv":
			var bs []types.Block
			var css []consensus.State
			for _, i := range op.Nodes {
				bs = append(bs, s.T.Nodes[i].Block)
				css = append(css, s.T.Nodes[i].FullState)
			}
			err = s.CM.AddValidatedV2Blocks(bs, css)
		case "prune":
			s.CM.PruneBlocks(op.Height)
		}
		if err != nil {
			o.Err, o.ErrText = true, err.Error()
		}
	}()
	o.Notified = s.notified != before
	return
}
