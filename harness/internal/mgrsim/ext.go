package mgrsim

// Opt-in ways of driving and reading the node (generalisation pass, LESSONS.md):
//
//	scribble        every block/state slice handed to the node is a private copy that is
//	                overwritten as soon as the call returns (class 5: the node must not keep
//	                the caller's memory)
//	poll            a second goroutine reads Tip/TipState/BestIndex all through every call
//	                (class 2: a reader never sees a tip that is neither the one before nor the
//	                one after the call)
//	listener-reads  a reorg listener reads the manager from inside the notification
//	                (class 2: the lock is released, the state is final)
//	listener-prune  a reorg listener prunes from inside the notification (class 2)
//
// plus two operations that the manager model sees as no-ops:
//
//	reopen          flush, open a new DBStore on the same DB, new Manager (class 5)
//	addv-bad        AddValidatedV2Blocks outside its documented precondition (class 4):
//	                Height 1 = one state fewer than blocks, 2 = as given (the harness picks a
//	                segment whose parent the node does not know)
//
// and reads without a preceding observation (class 1): RunBlind, ReadAPI.
//
// With no mode enabled and none of the two operations in a plan nothing here runs.

import (
	"bytes"
	"fmt"
	"runtime/debug"
	"sync"
	"sync/atomic"
	"time"

	"go.sia.tech/core/consensus"
	"go.sia.tech/core/types"
	"go.sia.tech/coreutils/chain"
	"verif/harness/internal/chaingen"
)

// Modes lists the modes Enable understands.
var Modes = []string{"scribble", "poll", "listener-reads", "listener-prune"}

// HangTimeout is how long a call may take before it is declared hung.
var HangTimeout = 30 * time.Second

type extState struct {
	on            bool
	scribble      bool
	poll          bool
	listenerReads bool
	listenerPrune bool
	opts          []chain.ManagerOption

	mu     sync.Mutex
	faults []string
	pruned []uint64
}

// Enable switches modes on (before the first call).
func (s *Sim) Enable(modes ...string) {
	for _, m := range modes {
		switch m {
		case "scribble":
			s.ext.scribble = true
		case "poll":
			s.ext.poll = true
		case "listener-reads":
			s.ext.listenerReads = true
		case "listener-prune":
			s.ext.listenerPrune = true
		default:
			panic("mgrsim: unknown mode " + m)
		}
		s.ext.on = true
	}
	s.registerListener()
}

// WithManagerOptions recreates the manager with options (before the first call; also used by reopen).
func (s *Sim) WithManagerOptions(opts ...chain.ManagerOption) {
	s.ext.opts = opts
	s.CM = chain.NewManager(s.Store, s.CM.TipState(), opts...)
	s.CM.OnReorg(func(types.ChainIndex) { s.notified++ })
	s.registerListener()
}

func (s *Sim) registerListener() {
	if !s.ext.listenerReads && !s.ext.listenerPrune {
		return
	}
	cm := s.CM
	cm.OnReorg(func(idx types.ChainIndex) {
		if s.ext.listenerReads {
			tip := cm.Tip()
			ts := cm.TipState()
			bi, ok := cm.BestIndex(idx.Height)
			_, above := cm.BestIndex(idx.Height + 1)
			_, hasBlock := cm.Block(idx.ID)
			if tip != idx || ts.Index != idx || !ok || bi != idx || above || !hasBlock {
				s.ext.mu.Lock()
				s.ext.faults = append(s.ext.faults, fmt.Sprintf("listener was told the new tip is %v; inside the notification Tip()=%v TipState().Index=%v BestIndex(%d)=%v,%v BestIndex(%d) answers=%v Block(tip) found=%v", idx, tip, ts.Index, idx.Height, bi, ok, idx.Height+1, above, hasBlock))
				s.ext.mu.Unlock()
			}
		}
		if s.ext.listenerPrune {
			// keep the two most recent bodies, as a node that prunes on every reorg would
			var h uint64
			if idx.Height >= 1 {
				h = idx.Height - 1
			}
			cm.PruneBlocks(h)
			s.ext.mu.Lock()
			s.ext.pruned = append(s.ext.pruned, h)
			s.ext.mu.Unlock()
		}
	})
}

func scribbleBlock(b *types.Block) {
	b.ParentID[0] ^= 0xA5
	b.Nonce ^= 0xFFFF
	b.Timestamp = b.Timestamp.Add(time.Hour)
	for i := range b.MinerPayouts {
		b.MinerPayouts[i].Address[1] ^= 0x5A
		b.MinerPayouts[i].Value = types.ZeroCurrency
	}
	for i := range b.Transactions {
		txn := &b.Transactions[i]
		for j := range txn.SiacoinInputs {
			txn.SiacoinInputs[j].ParentID[0] ^= 0xFF
		}
		for j := range txn.SiacoinOutputs {
			txn.SiacoinOutputs[j].Value = types.Siacoins(7)
		}
		for j := range txn.SiafundInputs {
			txn.SiafundInputs[j].ParentID[0] ^= 0xFF
		}
		for j := range txn.FileContracts {
			txn.FileContracts[j].WindowEnd += 3
		}
		for j := range txn.FileContractRevisions {
			txn.FileContractRevisions[j].FileContract.RevisionNumber += 9
		}
		for j := range txn.StorageProofs {
			txn.StorageProofs[j].ParentID[0] ^= 0xFF
		}
		for j := range txn.Signatures {
			for k := range txn.Signatures[j].Signature {
				txn.Signatures[j].Signature[k] ^= 0x3C
			}
		}
		txn.MinerFees = nil
	}
	if b.V2 != nil {
		b.V2.Height += 1000
		b.V2.Commitment[0] ^= 0x77
		for i := range b.V2.Transactions {
			txn := &b.V2.Transactions[i]
			for j := range txn.SiacoinInputs {
				txn.SiacoinInputs[j].Parent.ID[0] ^= 0xFF
				for k := range txn.SiacoinInputs[j].Parent.StateElement.MerkleProof {
					txn.SiacoinInputs[j].Parent.StateElement.MerkleProof[k][0] ^= 0xFF
				}
				for k := range txn.SiacoinInputs[j].SatisfiedPolicy.Signatures {
					txn.SiacoinInputs[j].SatisfiedPolicy.Signatures[k][0] ^= 0xFF
				}
			}
			for j := range txn.SiacoinOutputs {
				txn.SiacoinOutputs[j].Value = types.Siacoins(7)
			}
			for j := range txn.SiafundInputs {
				txn.SiafundInputs[j].Parent.ID[0] ^= 0xFF
			}
			for j := range txn.FileContracts {
				txn.FileContracts[j].ExpirationHeight += 3
			}
			for j := range txn.FileContractRevisions {
				txn.FileContractRevisions[j].Revision.RevisionNumber += 9
			}
			for j := range txn.FileContractResolutions {
				txn.FileContractResolutions[j].Parent.ID[0] ^= 0xFF
			}
			txn.MinerFee = types.Siacoins(9)
		}
	}
}

// doExt is Do/Call with the opt-in modes and operations.
func (s *Sim) doExt(op Op, observe bool) (o Obs) {
	before := s.notified
	s.ext.mu.Lock()
	s.ext.faults, s.ext.pruned = nil, nil
	s.ext.mu.Unlock()

	var bs []types.Block
	var css []consensus.State
	for _, i := range op.Nodes {
		b := s.T.Nodes[i].Block
		if s.ext.scribble {
			b = chaingen.DeepCopyBlock(b)
		}
		bs = append(bs, b)
		css = append(css, s.T.Nodes[i].FullState)
	}
	if op.Kind == "addv-bad" && op.Height == 1 && len(css) > 0 {
		css = css[:len(css)-1]
	}

	// a reader that runs all through the call
	var stop atomic.Bool
	var wg sync.WaitGroup
	var seen []types.ChainIndex
	var torn []string
	if s.ext.poll && (op.Kind == "add" || op.Kind == "addv" || op.Kind == "prune") {
		cm := s.CM
		wg.Add(1)
		go func() {
			defer wg.Done()
			defer func() {
				if r := recover(); r != nil {
					torn = append(torn, fmt.Sprint("reader panicked: ", r))
				}
			}()
			var last types.ChainIndex
			for n := 0; !stop.Load(); n++ {
				var idx types.ChainIndex
				switch n % 3 {
				case 0:
					idx = cm.Tip()
				case 1:
					ts := cm.TipState()
					idx = ts.Index
					if ts.TotalWork.Cmp(consensus.Work{}) == 0 && len(torn) < 3 {
						torn = append(torn, fmt.Sprintf("TipState() at %v has zero total work", idx))
					}
				case 2:
					idx = cm.Tip()
					if bi, ok := cm.BestIndex(idx.Height); ok && bi != idx {
						// legitimate only if the tip moved between the two reads; re-read to tell
						if again := cm.Tip(); again == idx && len(torn) < 3 {
							torn = append(torn, fmt.Sprintf("Tip() is %v before and after, but BestIndex(%d) in between is %v", idx, idx.Height, bi))
						}
					}
				}
				if idx != last {
					seen = append(seen, idx)
					last = idx
				}
			}
		}()
	}

	done := make(chan struct{})
	go func() {
		defer close(done)
		defer func() {
			if r := recover(); r != nil {
				o.Panic = true
				o.ErrText = fmt.Sprint("panic: ", r)
				o.Stack = string(debug.Stack())
			}
		}()
		var err error
		switch op.Kind {
		case "add":
			err = s.CM.AddBlocks(bs)
		case "addv", "addv-bad":
			err = s.CM.AddValidatedV2Blocks(bs, css)
		case "prune":
			s.CM.PruneBlocks(op.Height)
		case "reopen":
			err = s.reopen()
		}
		if err != nil {
			o.Err, o.ErrText = true, err.Error()
		}
	}()
	select {
	case <-done:
	case <-time.After(HangTimeout):
		stop.Store(true)
		o.Hung = true
		o.ErrText = fmt.Sprintf("%v did not return within %v", op, HangTimeout)
		return o // the node holds its lock: nothing more can be read
	}
	stop.Store(true)
	wg.Wait()

	if s.ext.scribble {
		for i := range bs {
			scribbleBlock(&bs[i])
		}
		for i := range css {
			css[i].Index.Height += 1000
			css[i].Index.ID[0] ^= 0xFF
			css[i].TotalWork = consensus.Work{}
		}
	}
	for _, idx := range seen {
		if n, ok := s.T.ByID[idx.ID]; ok && n.Height == idx.Height {
			o.Polled = append(o.Polled, n.Idx)
		} else {
			o.Polled = append(o.Polled, -2)
		}
	}
	s.ext.mu.Lock()
	o.ListenerFaults = append(append([]string(nil), s.ext.faults...), torn...)
	o.ListenerPruned = append([]uint64(nil), s.ext.pruned...)
	s.ext.mu.Unlock()
	o.Notified = s.notified != before
	if observe {
		s.Observe(&o)
	}
	return o
}

// reopen closes nothing (DBStore has no Close): it flushes the store, opens a new DBStore on the
// same DB and starts a new Manager at the tip state the store reports.
func (s *Sim) reopen() error {
	if s.db == nil {
		return nil
	}
	if err := s.Store.Flush(); err != nil {
		return err
	}
	store, ts, err := chain.NewDBStore(s.db, s.T.Env.Net, s.T.Env.Genesis, nil)
	if err != nil {
		return err
	}
	s.Store = store
	s.CM = chain.NewManager(store, ts, s.ext.opts...)
	s.CM.OnReorg(func(types.ChainIndex) { s.notified++ })
	s.registerListener()
	return nil
}

// SameState reports whether two observations agree on everything the node serves
// (best chain, tip state, the record of every block, MinReorgIndex, BestIndex above the tip).
func SameState(a, b Obs) (string, bool) {
	if fmt.Sprint(a.Best) != fmt.Sprint(b.Best) {
		return fmt.Sprintf("best chain %v vs %v", a.Best, b.Best), false
	}
	if !bytes.Equal(a.TipState, b.TipState) {
		return "tip state differs", false
	}
	if a.MinReorg != b.MinReorg {
		return fmt.Sprintf("MinReorgIndex block %d vs %d", a.MinReorg, b.MinReorg), false
	}
	if a.AboveTip != b.AboveTip {
		return fmt.Sprintf("BestIndex answers for %d vs %d heights above the tip", a.AboveTip, b.AboveTip), false
	}
	if len(a.Known) != len(b.Known) {
		return "number of records differs", false
	}
	for i := range a.Known {
		if a.Known[i] != b.Known[i] {
			return fmt.Sprintf("record of block %d: %+v vs %+v", a.Known[i].ID, a.Known[i], b.Known[i]), false
		}
	}
	return "", true
}

// ReadAPIs are the read calls ReadAPI can make.
var ReadAPIs = []string{"tip", "tipstate", "bestindex", "block", "state", "history", "headers", "minreorg", "updates", "blocksforhistory"}

// ReadAPI makes one kind of read call on the manager (for "block", "state", "bestindex": for every
// block / height of the tree) and returns a canonical rendering of everything it returned.
func ReadAPI(s *Sim, api string) (out string) {
	defer func() {
		if r := recover(); r != nil {
			out = fmt.Sprint("PANIC: ", r)
		}
	}()
	name := func(id types.BlockID) string {
		if n, ok := s.T.ByID[id]; ok {
			return fmt.Sprint(n.Idx)
		}
		if id == (types.BlockID{}) {
			return "-"
		}
		return "?"
	}
	var buf bytes.Buffer
	switch api {
	case "tip":
		t := s.CM.Tip()
		fmt.Fprintf(&buf, "%d:%s", t.Height, name(t.ID))
	case "tipstate":
		fmt.Fprintf(&buf, "%x", encState(s.CM.TipState()))
	case "bestindex":
		for h := uint64(0); h <= uint64(len(s.T.Nodes))+1; h++ {
			idx, ok := s.CM.BestIndex(h)
			fmt.Fprintf(&buf, "%d:%s:%v ", h, name(idx.ID), ok)
		}
	case "block":
		for _, n := range s.T.Nodes {
			if n.TwinOf != nil {
				continue
			}
			b, ok := s.CM.Block(n.ID)
			fmt.Fprintf(&buf, "%d:%v:%v ", n.Idx, ok, ok && bytes.Equal(encBlock(b), encBlock(n.Block)))
		}
	case "state":
		for _, n := range s.T.Nodes {
			if n.TwinOf != nil {
				continue
			}
			cs, ok := s.CM.State(n.ID)
			full := false
			if f, have := s.full[n.ID]; ok && have {
				full = bytes.Equal(f, encState(cs))
			}
			fmt.Fprintf(&buf, "%d:%v:%v ", n.Idx, ok, full)
		}
	case "history":
		h, err := s.CM.History()
		fmt.Fprintf(&buf, "err=%v ", err != nil)
		for _, id := range h {
			buf.WriteString(name(id) + " ")
		}
	case "headers":
		g, _ := s.CM.BestIndex(0)
		hs, rem, err := s.CM.Headers(g, 1<<62)
		fmt.Fprintf(&buf, "err=%v rem=%d ", err != nil, rem)
		for _, h := range hs {
			buf.WriteString(name(h.ID()) + " ")
		}
	case "minreorg":
		m := s.CM.MinReorgIndex()
		fmt.Fprintf(&buf, "%d:%s", m.Height, name(m.ID))
	case "updates":
		g, _ := s.CM.BestIndex(0)
		rus, aus, err := s.CM.UpdatesSince(g, 1<<30)
		fmt.Fprintf(&buf, "err=%v reverts=%d ", err != nil, len(rus))
		for _, au := range aus {
			buf.WriteString(name(au.State.Index.ID) + " ")
		}
	case "blocksforhistory":
		g, _ := s.CM.BestIndex(0)
		bs, rem, err := s.CM.BlocksForHistory([]types.BlockID{g.ID}, 1<<62)
		fmt.Fprintf(&buf, "err=%v rem=%d ", err != nil, rem)
		for _, b := range bs {
			buf.WriteString(name(b.ID()) + " ")
		}
	}
	return buf.String()
}

// RunBlind performs the plan on a fresh node without reading anything in between; the first read
// afterwards is ReadAPI(first); then the node is observed. modes as for Enable.
func RunBlind(t *chaingen.Tree, plan []Op, modes []string, first string) (firstOut string, final Obs, bad string) {
	s := NewSim(t, nil)
	if len(modes) > 0 {
		s.Enable(modes...)
	}
	for _, op := range plan {
		o := s.Call(op)
		if o.Hung {
			return "", o, "call hung: " + o.ErrText
		}
		if o.Panic {
			return "", o, fmt.Sprintf("%v panicked: %s", op, o.ErrText)
		}
	}
	firstOut = ReadAPI(s, first)
	s.Observe(&final)
	return firstOut, final, ""
}

// ModelNoOp reports whether the manager model sees the operation as a no-op (it is then left out of
// the rendered history; the harness checks separately that the node's state did not change).
func ModelNoOp(op Op) bool { return op.Kind == "reopen" || op.Kind == "addv-bad" }

// ModelHistory drops the operations the model does not have, with their observations.
func ModelHistory(plan []Op, obs []Obs) (p []Op, o []Obs) {
	for i := range plan {
		if i < len(obs) && !ModelNoOp(plan[i]) {
			p, o = append(p, plan[i]), append(o, obs[i])
		}
	}
	return
}
