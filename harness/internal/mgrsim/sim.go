// Package mgrsim runs submission histories over a generated fork tree on a
// real chain.Manager, observes it after every call, evaluates the monitors of
// C01/C19 and renders the history as a case for the Coq manager model.
package mgrsim

import (
	"bytes"
	"fmt"
	"math/big"
	"runtime/debug"
	"sort"
	"strings"

	"go.sia.tech/core/consensus"
	"go.sia.tech/core/types"
	"go.sia.tech/coreutils/chain"
	"verif/harness/internal/chaingen"
	"verif/harness/internal/rng"
)

// An Op is one call on the manager.
type Op struct {
	Kind   string `json:"kind"` // add | addv | prune; ext.go: reopen | addv-bad (Height = which documented precondition is broken)
	Nodes  []int  `json:"nodes,omitempty"`
	Height uint64 `json:"height,omitempty"`
}

func (o Op) String() string {
	if o.Kind == "prune" {
		return fmt.Sprintf("prune(%d)", o.Height)
	}
	if o.Kind == "reopen" {
		return "reopen"
	}
	if o.Kind == "addv-bad" {
		return fmt.Sprintf("addv-bad/%d%v", o.Height, o.Nodes)
	}
	return fmt.Sprintf("%s%v", o.Kind, o.Nodes)
}

// A Case determines a tree (regenerated from the seed) and a plan.
type Case struct {
	Seed   uint64           `json:"seed"`
	Regime int              `json:"regime"`
	Opts   chaingen.GenOpts `json:"opts"`
	Plan   []Op             `json:"plan"`
	Modes  []string         `json:"modes,omitempty"` // opt-in ways of driving the node (ext.go); empty = plain
}

// Tree regenerates the case's tree.
func (c Case) Tree() *chaingen.Tree {
	r := rng.New(c.Seed)
	env := chaingen.NewEnv(r, c.Regime)
	return chaingen.Gen(r, env, c.Opts)
}

// KnownEntry is the store's view of one block.
type KnownEntry struct {
	ID    int
	State int // 0 none, 1 header-derived, 2 full
	Body  bool
	Supp  bool
	Good  bool // the stored body is the genuine block (not a same-id twin)
}

// Obs is what is observed after a call.
type Obs struct {
	Err      bool
	ErrText  string
	Panic    bool
	Stack    string `json:"-"` // goroutine stack at the panic (for attribution only, never compared)
	Notified bool
	Best     []int // tip first
	Known    []KnownEntry
	MinReorg int
	TipState []byte
	AboveTip int // number of heights above the tip for which BestIndex still answers
	// filled only under the opt-in modes of ext.go
	Hung           bool     `json:",omitempty"` // the call did not return (the node is unusable afterwards; nothing else is observed)
	Polled         []int    `json:",omitempty"` // tips a concurrent reader saw during the call (node index, -2 unknown)
	ListenerFaults []string `json:",omitempty"` // what a reorg listener that reads the manager saw differently from its argument
	ListenerPruned []uint64 `json:",omitempty"` // heights handed to PruneBlocks from inside the reorg listener
}

// A Sim is a real manager over a store, fed from a tree.
type Sim struct {
	T        *chaingen.Tree
	Store    *chain.DBStore
	CM       *chain.Manager
	notified int
	full     map[types.BlockID][]byte // encoded full state per valid node
	db       chain.DB                 // what NewSim opened the store on (nil for NewSimOver): needed by the reopen op
	ext      extState                 // opt-in modes (ext.go)
}

// NewSim starts a manager at genesis over db (nil = MemDB).
func NewSim(t *chaingen.Tree, db chain.DB) *Sim {
	if db == nil {
		db = chain.NewMemDB()
	}
	store, ts, err := chain.NewDBStore(db, t.Env.Net, t.Env.Genesis, nil)
	if err != nil {
		panic(err)
	}
	s := &Sim{T: t, Store: store, CM: chain.NewManager(store, ts), full: map[types.BlockID][]byte{}, db: db}
	s.CM.OnReorg(func(types.ChainIndex) { s.notified++ })
	for _, n := range t.Nodes {
		if n.ChainValid() {
			s.full[n.ID] = encState(n.FullState)
		}
	}
	return s
}

func encBlock(b types.Block) []byte {
	var buf bytes.Buffer
	e := types.NewEncoder(&buf)
	types.V2Block(b).EncodeTo(e)
	e.Flush()
	return buf.Bytes()
}

// EncState encodes a consensus state.
func EncState(cs consensus.State) []byte { return encState(cs) }

func encState(cs consensus.State) []byte {
	var buf bytes.Buffer
	e := types.NewEncoder(&buf)
	cs.EncodeTo(e)
	e.Flush()
	return buf.Bytes()
}

// Do performs op and observes.
func (s *Sim) Do(op Op) (o Obs) {
	if s.ext.on || op.Kind == "reopen" || op.Kind == "addv-bad" {
		return s.doExt(op, true)
	}
	before := s.notified
	func() {
		defer func() {
			if r := recover(); r != nil {
				o.Panic = true
				o.ErrText = fmt.Sprint("panic: ", r)
				o.Stack = string(debug.Stack())
			}
		}()
		var err error
		switch op.Kind {
		case "add":
			var bs []types.Block
			for _, i := range op.Nodes {
				bs = append(bs, s.T.Nodes[i].Block)
			}
			err = s.CM.AddBlocks(bs)
		case "addv":
			var bs []types.Block
			var css []consensus.State
			for _, i := range op.Nodes {
				bs = append(bs, s.T.Nodes[i].Block)
				css = append(css, s.T.Nodes[i].FullState)
			}
			err = s.CM.AddValidatedV2Blocks(bs, css)
		case "prune":
			s.CM.PruneBlocks(op.Height)
		}
		if err != nil {
			o.Err, o.ErrText = true, err.Error()
		}
	}()
	o.Notified = s.notified != before
	s.Observe(&o)
	return
}

// Observe fills the state part of an observation.
func (s *Sim) Observe(o *Obs) {
	tip := s.CM.Tip()
	o.Best = nil
	for h := int64(tip.Height); h >= 0; h-- {
		idx, ok := s.CM.BestIndex(uint64(h))
		if !ok {
			o.Best = append(o.Best, -1)
			continue
		}
		if n, ok := s.T.ByID[idx.ID]; ok {
			o.Best = append(o.Best, n.Idx)
		} else {
			o.Best = append(o.Best, -2)
		}
	}
	o.Known = nil
	for _, n := range s.T.Nodes {
		if n.TwinOf != nil {
			continue // twins share the id of their genuine node
		}
		var k KnownEntry
		k.ID = n.Idx
		if cs, ok := s.Store.State(n.ID); ok {
			k.State = 1
			if f, ok := s.full[n.ID]; ok && bytes.Equal(f, encState(cs)) {
				k.State = 2
			}
		}
		sb, bs, ok := s.Store.Block(n.ID)
		k.Body = ok
		k.Supp = bs != nil
		k.Good = ok && bytes.Equal(encBlock(sb), encBlock(n.Block))
		if _, hok := s.Store.Header(n.ID); !hok && (k.State != 0 || k.Body) {
			k.State += 10 // header missing although something is stored: never expected
		}
		if _, hok := s.Store.Header(n.ID); hok && k.State == 0 && !k.Body {
			k.State = 3 // header only, no state
		}
		o.Known = append(o.Known, k)
	}
	mr := s.CM.MinReorgIndex()
	o.MinReorg = -1
	if n, ok := s.T.ByID[mr.ID]; ok {
		o.MinReorg = n.Idx
	}
	o.TipState = encState(s.CM.TipState())
	o.AboveTip = 0
	for h := tip.Height + 1; h <= tip.Height+uint64(len(s.T.Nodes))+1; h++ {
		if _, ok := s.CM.BestIndex(h); ok {
			o.AboveTip++
		}
	}
}

// Heavier is State.SufficientlyHeavierThan on the labels.
func Heavier(a, b *chaingen.Node) bool {
	atw, _ := a.Work()
	btw, bd := b.Work()
	lim := new(big.Int).Add(btw, new(big.Int).Div(bd, big.NewInt(5)))
	return atw.Cmp(lim) > 0
}

// GenPlan generates a submission plan over the tree.
func GenPlan(r *rng.R, t *chaingen.Tree, prunes bool) []Op {
	var plan []Op
	n := len(t.Nodes)
	steps := 4 + r.Intn(2*n)
	for i := 0; i < steps; i++ {
		switch r.Intn(10) {
		case 0, 1, 2, 3, 4: // a path segment ending at a random node
			x := t.Nodes[1+r.Intn(n-1)]
			p := t.Path(x)
			from := 0
			if r.Chance(2, 3) {
				from = r.Intn(len(p))
			}
			var ids []int
			for _, y := range p[from:] {
				ids = append(ids, y.Idx)
			}
			plan = append(plan, Op{Kind: "add", Nodes: ids})
		case 5: // single block
			plan = append(plan, Op{Kind: "add", Nodes: []int{1 + r.Intn(n-1)}})
		case 6: // arbitrary mix of nodes (branches mixed, orphans first)
			k := 1 + r.Intn(4)
			var ids []int
			for j := 0; j < k; j++ {
				ids = append(ids, 1+r.Intn(n-1))
			}
			plan = append(plan, Op{Kind: "add", Nodes: ids})
		case 7: // two path segments concatenated
			var ids []int
			for j := 0; j < 2; j++ {
				p := t.Path(t.Nodes[1+r.Intn(n-1)])
				from := r.Intn(len(p))
				for _, y := range p[from:] {
					ids = append(ids, y.Idx)
				}
			}
			plan = append(plan, Op{Kind: "add", Nodes: ids})
		case 8: // pre-validated v2 segment (only issued under the documented precondition)
			x := t.Nodes[1+r.Intn(n-1)]
			p := t.Path(x)
			from := r.Intn(len(p))
			ok := x.ChainValid()
			var ids []int
			for _, y := range p[from:] {
				if y.Block.V2 == nil || y.Height < t.Env.Net.HardforkV2.RequireHeight || y.TwinOf != nil {
					ok = false
				}
				ids = append(ids, y.Idx)
			}
			if ok {
				plan = append(plan, Op{Kind: "addv", Nodes: ids})
			} else {
				plan = append(plan, Op{Kind: "add", Nodes: ids})
			}
		case 9:
			if prunes {
				plan = append(plan, Op{Kind: "prune", Height: uint64(r.Intn(n/2 + 2))})
			} else {
				plan = append(plan, Op{Kind: "add", Nodes: []int{1 + r.Intn(n-1)}})
			}
		}
	}
	return plan
}

// FinalFlush returns ops that submit the full path of every valid leaf.
func FinalFlush(t *chaingen.Tree) []Op {
	var plan []Op
	for _, x := range t.Nodes {
		if x.Parent == nil || !x.ChainValid() {
			continue
		}
		leaf := true
		for _, c := range x.Children {
			if c.ChainValid() {
				leaf = false
			}
		}
		if !leaf {
			continue
		}
		var ids []int
		for _, y := range t.Path(x) {
			ids = append(ids, y.Idx)
		}
		plan = append(plan, Op{Kind: "add", Nodes: ids})
	}
	return plan
}

// CoqUniverse renders the tree as the model's universe.
func CoqUniverse(t *chaingen.Tree) string {
	var ents []string
	for _, n := range t.Nodes {
		if n.TwinOf != nil {
			continue
		}
		p := 0
		if n.Parent != nil {
			p = n.Parent.Idx
		}
		tw, d := n.Work()
		ents = append(ents, fmt.Sprintf("(%d, Blk %d %d %v %v %v (%s)%%Z (%s)%%Z)", n.Idx, p, n.Height, n.HdrOK, n.Future, n.HdrOK && n.BodyOK, tw.String(), d.String()))
	}
	return "[" + strings.Join(ents, "; ") + "]"
}

func nlist(xs []int) string {
	s := make([]string, len(xs))
	for i, x := range xs {
		s[i] = fmt.Sprint(x)
	}
	return "[" + strings.Join(s, "; ") + "]"
}

// CoqOp renders an op. Histories that submit same-id twins are not rendered (HasTwin).
func CoqOp(t *chaingen.Tree, o Op) string {
	switch o.Kind {
	case "add":
		return "AddBlocks " + nlist(o.Nodes)
	case "addv":
		return "AddValidated " + nlist(o.Nodes)
	}
	return fmt.Sprintf("Prune %d", o.Height)
}

// CoqObs renders an observation.
func CoqObs(o Obs) string {
	var ks []string
	kn := append([]KnownEntry(nil), o.Known...)
	sort.Slice(kn, func(i, j int) bool { return kn[i].ID < kn[j].ID })
	for _, k := range kn {
		ks = append(ks, fmt.Sprintf("(%d, (%d, %v, %v))", k.ID, k.State, k.Body, k.Supp))
	}
	best := make([]int, len(o.Best))
	for i, b := range o.Best {
		if b < 0 {
			b = 999999
		}
		best[i] = b
	}
	mr := o.MinReorg
	if mr < 0 {
		mr = 999999
	}
	return fmt.Sprintf("mk_obs %v %v %v %s [%s] %d", o.Err, o.Panic, o.Notified, nlist(best), strings.Join(ks, "; "), mr)
}

// CoqCase renders a whole history.
func CoqCase(t *chaingen.Tree, plan []Op, obs []Obs) string {
	var hs []string
	for i := range plan {
		hs = append(hs, "("+CoqOp(t, plan[i])+", "+CoqObs(obs[i])+")")
	}
	return "mk_case " + CoqUniverse(t) + "\n  [" + strings.Join(hs, ";\n   ") + "]"
}

// HasTwin reports whether the plan submits a same-id twin; the Coq manager model
// assumes that a block id determines its body, so such histories are checked by
// the monitors only.
func HasTwin(t *chaingen.Tree, plan []Op) bool {
	for _, op := range plan {
		for _, x := range op.Nodes {
			if t.Nodes[x].TwinOf != nil {
				return true
			}
		}
	}
	return false
}
