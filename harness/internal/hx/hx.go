// Package hx is the common entry point of the per-property harness commands
// (harness/cmd/cXX): flag parsing, the seeded PRNG and the result file.
package hx

import (
	"flag"
	"os"

	"verif/harness/internal/out"
	"verif/harness/internal/rng"
)

// Ctx is passed to the property runner.
type Ctx struct {
	Seed     uint64
	Thorough bool
	Replay   string // path of a replay file written by Res.Fail, or ""
	Repo     string // the repository under test (source files for lints)
	R        *rng.R
	Res      *out.Result
}

// Scale returns q in the quick tier and t in the thorough tier.
func (c *Ctx) Scale(q, t int) int {
	if c.Thorough {
		return t
	}
	return q
}

// Main parses the command line, runs the property and writes result.json.
func Main(prop string, run func(*Ctx)) {
	fs := flag.NewFlagSet(prop, flag.ExitOnError)
	seed := fs.Uint64("seed", 1, "seed")
	tier := fs.String("tier", "quick", "quick|thorough")
	dir := fs.String("out", "/verif/run/"+prop, "output directory")
	replay := fs.String("replay", "", "replay file")
	fs.Parse(os.Args[1:])
	repo := os.Getenv("VERIF_REPO")
	if repo == "" {
		repo = "/repo"
	}
	c := &Ctx{Seed: *seed, Thorough: *tier == "thorough", Replay: *replay, Repo: repo, R: rng.New(*seed), Res: out.New(prop, *dir)}
	run(c)
	c.Res.Finish()
}
