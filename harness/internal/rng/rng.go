// Package rng is the single source of randomness of the harness: a splitmix64
// stream seeded from VERIF_SEED, so that every generated case replays exactly.
package rng

// R is a splitmix64 generator.
type R struct{ s uint64 }

// New returns a generator seeded with seed.
func New(seed uint64) *R {
	// the seed is hashed first: the state advances by a constant per draw, so
	// without this New(k+1) would be New(k) shifted by one draw
	z := seed + 0x1234567
	z = (z ^ (z >> 30)) * 0xBF58476D1CE4E5B9
	z = (z ^ (z >> 27)) * 0x94D049BB133111EB
	return &R{s: z ^ (z >> 31)}
}

// U64 returns the next 64 random bits.
func (r *R) U64() uint64 {
	r.s += 0x9E3779B97F4A7C15
	z := r.s
	z = (z ^ (z >> 30)) * 0xBF58476D1CE4E5B9
	z = (z ^ (z >> 27)) * 0x94D049BB133111EB
	return z ^ (z >> 31)
}

// Intn returns a value in [0,n).
func (r *R) Intn(n int) int {
	if n <= 0 {
		return 0
	}
	return int(r.U64() % uint64(n))
}

// Bool returns a fair coin.
func (r *R) Bool() bool { return r.U64()&1 == 1 }

// Chance returns true with probability num/den.
func (r *R) Chance(num, den int) bool { return r.Intn(den) < num }

// Fork derives an independent stream (for a shard or a case).
func (r *R) Fork() *R { return New(r.U64()) }

// Bytes fills b.
func (r *R) Bytes(b []byte) {
	for i := range b {
		if i%8 == 0 {
			v := r.U64()
			for j := 0; j < 8 && i+j < len(b); j++ {
				b[i+j] = byte(v >> (8 * j))
			}
		}
	}
}

// Perm returns a random permutation of 0..n-1.
func (r *R) Perm(n int) []int {
	p := make([]int, n)
	for i := range p {
		p[i] = i
	}
	for i := n - 1; i > 0; i-- {
		j := r.Intn(i + 1)
		p[i], p[j] = p[j], p[i]
	}
	return p
}
